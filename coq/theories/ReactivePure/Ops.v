From stdpp Require Import gmap list.
Require Import ZArith Lia.
From Syc.ReactivePure Require Import Pure Loop LoopInv.
Open Scope Z_scope.

(* generic alter facts through the "Of" projections *)
Lemma alter_dom (g:node->node) n (s:st) x : is_Some (alter g n s !! x) <-> is_Some (s !! x).
Proof. destruct (decide (n = x)) as [->|?]; [rewrite lookup_alter, fmap_is_Some|rewrite lookup_alter_ne by done]; done. Qed.

Lemma foldr_alter_lookup_Some (g:node->node) ds (s:st) x nd' :
  foldr (fun d acc => alter g d acc) s ds !! x = Some nd' -> is_Some (s !! x).
Proof. intros H. apply (foldr_alter_dom g ds s x). rewrite H; eauto. Qed.

Section proj.
  Context {A:Type} (p:node->A) (dflt:A).
  Definition projOf (s:st) (x:id) : A := match s !! x with Some nd => p nd | None => dflt end.
  Lemma projOf_fmap (s s':st) x : p <$> (s' !! x) = p <$> (s !! x) -> projOf s' x = projOf s x.
  Proof. unfold projOf. destruct (s' !! x), (s !! x); cbn; intros H; inversion H; done. Qed.
  Lemma projOf_alter_same g n (s:st) x : (forall nd, p (g nd) = p nd) -> projOf (alter g n s) x = projOf s x.
  Proof.
    intros Hg. apply projOf_fmap. destruct (decide (n = x)) as [->|?].
    - rewrite lookup_alter, <- option_fmap_compose. destruct (s !! x); cbn; [by rewrite Hg|done].
    - by rewrite lookup_alter_ne.
  Qed.
  Lemma projOf_foldr_same g ds (s:st) x : (forall nd, p (g nd) = p nd) ->
    projOf (foldr (fun d acc => alter g d acc) s ds) x = projOf s x.
  Proof. intros Hg. apply projOf_fmap. by apply foldr_alter_proj. Qed.
End proj.

Lemma valOf_proj s x : valOf s x = projOf val 0 s x. Proof. reflexivity. Qed.
Lemma cbOf_proj s x : cbOf s x = projOf cb None s x. Proof. reflexivity. Qed.
Lemma dirtyOf_proj s x : dirtyOf s x = projOf dirty false s x. Proof. reflexivity. Qed.
Lemma depsOf_proj s x : depsOf s x = projOf deps [] s x. Proof. reflexivity. Qed.
Lemma dependentsOf_proj s x : dependentsOf s x = projOf dependents [] s x. Proof. reflexivity. Qed.

(* ---- unlink ---- *)
Lemma unlink_dom n ds (s:st) x : is_Some (unlink n ds s !! x) <-> is_Some (s !! x).
Proof. unfold unlink. rewrite alter_dom. apply foldr_alter_dom. Qed.
Lemma unlink_val n ds s x : valOf (unlink n ds s) x = valOf s x.
Proof. unfold unlink. rewrite !valOf_proj, projOf_alter_same, projOf_foldr_same; done. Qed.
Lemma unlink_cb n ds s x : cbOf (unlink n ds s) x = cbOf s x.
Proof. unfold unlink. rewrite !cbOf_proj, projOf_alter_same, projOf_foldr_same; done. Qed.
Lemma unlink_dirty n ds s x : dirtyOf (unlink n ds s) x = dirtyOf s x.
Proof. unfold unlink. rewrite !dirtyOf_proj, projOf_alter_same, projOf_foldr_same; done. Qed.
Lemma unlink_deps n ds (s:st) x : is_Some (s !! n) ->
  depsOf (unlink n ds s) x = if decide (x = n) then [] else depsOf s x.
Proof.
  intros Hn. unfold unlink. destruct (decide (x = n)) as [->|Hne].
  - unfold depsOf. rewrite lookup_alter.
    destruct (foldr _ s ds !! n) eqn:E; [done|].
    exfalso. apply (foldr_alter_dom (set_dependents (filter (fun y => y ≠ n))) ds s n) in Hn. rewrite E in Hn. by destruct Hn.
  - rewrite !depsOf_proj. unfold projOf. rewrite lookup_alter_ne by done. fold (projOf deps [] (foldr (fun d acc => alter (set_dependents (filter (fun y => y ≠ n))) d acc) s ds) x).
    by rewrite projOf_foldr_same.
Qed.
Lemma unlink_dependents n ds (s:st) x m :
  m ∈ dependentsOf (unlink n ds s) x <-> m ∈ dependentsOf s x /\ (x ∈ ds -> m ≠ n).
Proof.
  unfold unlink.
  assert (Hal : dependentsOf (alter (set_deps []) n (foldr (fun d acc => alter (set_dependents (filter (fun y => y ≠ n))) d acc) s ds)) x
          = dependentsOf (foldr (fun d acc => alter (set_dependents (filter (fun y => y ≠ n))) d acc) s ds) x).
  { rewrite !dependentsOf_proj. by apply projOf_alter_same. }
  rewrite Hal. unfold dependentsOf at 1.
  destruct (foldr _ s ds !! x) as [nd|] eqn:E.
  - destruct (foldr_filter_dependents _ _ _ _ _ E) as (nd0 & H0 & Hm & _). unfold dependentsOf. rewrite H0. apply Hm.
  - assert (s !! x = None).
    { destruct (s !! x) eqn:E'; [|done]. exfalso.
      assert (is_Some (foldr (fun d acc => alter (set_dependents (filter (fun y => y ≠ n))) d acc) s ds !! x)) as [? ?]
        by (apply foldr_alter_dom; rewrite E'; eauto). congruence. }
    unfold dependentsOf. rewrite H. set_solver.
Qed.

(* ---- link ---- *)
Lemma link_dom n ts (s:st) x : is_Some (link n ts s !! x) <-> is_Some (s !! x).
Proof. unfold link. rewrite alter_dom. apply foldr_alter_dom. Qed.
Lemma link_val n ds s x : valOf (link n ds s) x = valOf s x.
Proof. unfold link. rewrite !valOf_proj, projOf_alter_same, projOf_foldr_same; done. Qed.
Lemma link_cb n ds s x : cbOf (link n ds s) x = cbOf s x.
Proof. unfold link. rewrite !cbOf_proj, projOf_alter_same, projOf_foldr_same; done. Qed.
Lemma link_dirty n ds s x : dirtyOf (link n ds s) x = dirtyOf s x.
Proof. unfold link. rewrite !dirtyOf_proj, projOf_alter_same, projOf_foldr_same; done. Qed.
Lemma link_deps n ts (s:st) x : is_Some (s !! n) ->
  depsOf (link n ts s) x = if decide (x = n) then ts else depsOf s x.
Proof.
  intros Hn. unfold link. destruct (decide (x = n)) as [->|Hne].
  - unfold depsOf. rewrite lookup_alter.
    destruct (foldr _ s ts !! n) eqn:E; [done|].
    exfalso. apply (foldr_alter_dom (set_dependents (fun l => l ++ [n])) ts s n) in Hn. rewrite E in Hn. by destruct Hn.
  - rewrite !depsOf_proj. unfold projOf. rewrite lookup_alter_ne by done.
    fold (projOf deps [] (foldr (fun d acc => alter (set_dependents (fun l => l ++ [n])) d acc) s ts) x).
    by rewrite projOf_foldr_same.
Qed.
Lemma link_dependents n ts (s:st) x m : is_Some (s !! x) ->
  m ∈ dependentsOf (link n ts s) x <-> m ∈ dependentsOf s x \/ (m = n /\ x ∈ ts).
Proof.
  intros [ndx Hx]. unfold link.
  assert (Hal : dependentsOf (alter (set_deps ts) n (foldr (fun d acc => alter (set_dependents (fun l => l ++ [n])) d acc) s ts)) x
          = dependentsOf (foldr (fun d acc => alter (set_dependents (fun l => l ++ [n])) d acc) s ts) x).
  { rewrite !dependentsOf_proj. by apply projOf_alter_same. }
  rewrite Hal. unfold dependentsOf at 1.
  destruct (foldr _ s ts !! x) as [nd|] eqn:E.
  - destruct (foldr_push_dependents _ _ _ _ _ E) as (nd0 & H0 & Hm & _). unfold dependentsOf. rewrite H0. apply Hm.
  - exfalso. assert (is_Some (foldr (fun d acc => alter (set_dependents (fun l => l ++ [n])) d acc) s ts !! x)) as [? ?]
      by (apply foldr_alter_dom; rewrite Hx; eauto). congruence.
Qed.

(* ---- mark_dependents_dirty ---- *)
Lemma mdd_dom n (s:st) x : is_Some (mark_dependents_dirty n s !! x) <-> is_Some (s !! x).
Proof. unfold mark_dependents_dirty. destruct (s !! n); [apply foldr_alter_dom|done]. Qed.
Lemma mdd_same {A} (p:node->A) dflt n (s:st) x : (forall b nd, p (set_dirty b nd) = p nd) ->
  projOf p dflt (mark_dependents_dirty n s) x = projOf p dflt s x.
Proof. intros H. unfold mark_dependents_dirty. destruct (s !! n); [apply projOf_foldr_same; intros; apply H|done]. Qed.
Lemma foldr_dirty ds (s:st) x :
  dirtyOf (foldr (fun d acc => alter (set_dirty true) d acc) s ds) x = (dirtyOf s x || bool_decide (x ∈ ds /\ is_Some (s !! x)))%bool.
Proof.
  induction ds as [|d ds IH]; cbn [foldr].
  - rewrite bool_decide_eq_false_2 by set_solver. by rewrite orb_false_r.
  - destruct (decide (d = x)) as [->|Hne].
    + unfold dirtyOf at 1. rewrite lookup_alter.
      destruct (foldr _ s ds !! x) as [nd|] eqn:E; cbn.
      * apply foldr_alter_lookup_Some in E. rewrite bool_decide_eq_true_2 by (split; [set_solver|done]). by rewrite orb_true_r.
      * assert (s !! x = None).
        { destruct (s !! x) eqn:E'; [|done]. exfalso.
          assert (is_Some (foldr (fun d acc => alter (set_dirty true) d acc) s ds !! x)) as [? ?] by (apply foldr_alter_dom; rewrite E'; eauto). congruence. }
        unfold dirtyOf. rewrite H. rewrite bool_decide_eq_false_2; [done|]. intros [_ [? ?]]; congruence.
    + unfold dirtyOf at 1. rewrite lookup_alter_ne by done. fold (dirtyOf (foldr (fun d acc => alter (set_dirty true) d acc) s ds) x).
      rewrite IH. f_equal. apply bool_decide_ext. set_solver.
Qed.
Lemma mdd_dirty n (s:st) x :
  dirtyOf (mark_dependents_dirty n s) x = (dirtyOf s x || bool_decide (x ∈ dependentsOf s n /\ is_Some (s !! x)))%bool.
Proof.
  unfold mark_dependents_dirty. destruct (s !! n) as [nd|] eqn:E.
  - rewrite foldr_dirty. f_equal. apply bool_decide_ext. unfold dependentsOf. rewrite E. done.
  - rewrite bool_decide_eq_false_2; [by rewrite orb_false_r|]. unfold dependentsOf; rewrite E. set_solver.
Qed.
