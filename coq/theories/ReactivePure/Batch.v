(* ReactivePure/Batch.v -- the end of an outermost batch: several signals were written (values stored, signals
   queued), then one propagation from the whole queue.  [schedule_ok]: on an acyclic graph the first loop of
   propagate_node_updates (dfs + mark_dependents_dirty for every queued signal, duplicates allowed) never runs
   out of fuel or reports a cycle, and [batch_establishes_inv]: it establishes the loop invariant;
   [batch_consistent]: a late-read-free batch leads from a quiescent state to a quiescent state.
   [write_is_batch]: a single write is the batch of one write. *)
From stdpp Require Import gmap list relations.
Require Import ZArith Lia.
From Syc.ReactivePure Require Import Pure Loop LoopInv Ops Spec Step Extra Dfs DfsFacts Propagate.
Open Scope Z_scope.

(* what neither the depth-first pass nor mark_dependents_dirty changes *)
Record frame (s s' : st) : Prop := {
  fr_dom : forall x, is_Some (s' !! x) <-> is_Some (s !! x);
  fr_deps : forall x, depsOf s' x = depsOf s x;
  fr_dpt : forall x, dependentsOf s' x = dependentsOf s x;
  fr_cb : forall x, cbOf s' x = cbOf s x;
  fr_val : forall x, valOf s' x = valOf s x;
}.

Lemma frame_refl s : frame s s.
Proof. by split. Qed.
Lemma frame_trans a b c : frame a b -> frame b c -> frame a c.
Proof.
  intros [D1 P1 T1 C1 V1] [D2 P2 T2 C2 V2]. split; intros x.
  - by rewrite D2, D1.
  - by rewrite P2, P1.
  - by rewrite T2, T1.
  - by rewrite C2, C1.
  - by rewrite V2, V1.
Qed.
Lemma frame_erase (s s' : st) : erase s' = erase s -> frame s s'.
Proof.
  intros H. split; intros x.
  - by apply erase_dom.
  - by apply erase_deps.
  - by apply erase_dependents.
  - by apply erase_cb.
  - by apply erase_val.
Qed.
Lemma frame_mdd x (s : st) : frame s (mark_dependents_dirty x s).
Proof.
  split; intros y.
  - apply mdd_dom.
  - rewrite !depsOf_proj. by apply mdd_same.
  - rewrite !dependentsOf_proj. by apply mdd_same.
  - rewrite !cbOf_proj. by apply mdd_same.
  - rewrite !valOf_proj. by apply mdd_same.
Qed.

(* ---------- the first loop of propagate_node_updates ---------- *)
Section schedule.
  Context (L : list id) (s0 : st).
  Context (HLnd : NoDup L).
  Context (HLlive : forall x, x ∈ L -> is_Some (s0 !! x)).
  Context (Hsucc : forall n m, m ∈ dependentsOf s0 n -> before L n m).
  Context (g : nat) (Hg : (length L < g)%nat).

  Lemma schedule_ok : forall xs (s : st) buf,
    DI s0 s buf -> (forall t, mkOf s t ≠ MTemp) -> (forall x, x ∈ xs -> x ∈ L) ->
    exists s' buf',
      fold_left (sched_step g) xs (inr (buf, s)) = inr (buf', s') /\
      DI s0 s' buf' /\ (forall t, mkOf s' t ≠ MTemp) /\
      (forall x, x ∈ xs -> x ∈ buf') /\ (forall n, n ∈ buf -> n ∈ buf') /\
      (forall n, n ∈ buf' -> n ∈ buf \/ exists x, x ∈ xs /\ rtc (edge s0) x n) /\
      frame s s' /\
      (forall n, dirtyOf s' n = true <-> dirtyOf s n = true \/ exists x, x ∈ xs /\ n ∈ dependentsOf s0 x).
  Proof.
    induction xs as [|x xs IH]; intros s buf HDI Hnt Hxs.
    - exists s, buf. cbn. split; [done|]. split; [done|]. split; [done|].
      split; [intros ? H; by apply elem_of_nil in H|]. split; [done|]. split; [by left|].
      split; [apply frame_refl|]. intros n. split; [by left|]. intros [?|(x & Hx & _)]; [done|by apply elem_of_nil in Hx].
    - cbn [fold_left]. unfold sched_step at 2.
      assert (HxL : x ∈ L) by (apply Hxs, elem_of_list_here).
      destruct (proj1 (elem_of_list_lookup _ _) HxL) as [i Hi].
      destruct (dfs_ok L s0 HLnd HLlive Hsucc g x s buf i HDI Hi ltac:(lia))
        as (s2 & new & Hdfs & HDI2 & Ht2 & Hx2 & Hr2 & _).
      { intros t Ht. by destruct (Hnt t). }
      rewrite Hdfs.
      set (s2' := mark_dependents_dirty x s2).
      assert (Her : erase s2 = erase s) by (eapply dfs_erase; exact Hdfs).
      assert (HDI2' : DI s0 s2' (buf ++ new)).
      { destruct HDI2 as [[Hd Hp] Hperm Hnd Hcl]. split; [split| |done|done].
        - intros y. unfold s2'. rewrite mdd_dom. apply Hd.
        - intros y. unfold s2'. rewrite dependentsOf_proj, mdd_same by done. rewrite <- dependentsOf_proj. apply Hp.
        - intros n. unfold s2'. rewrite mdd_mk. apply Hperm. }
      assert (Hnt2' : forall t, mkOf s2' t ≠ MTemp).
      { intros t. unfold s2'. rewrite mdd_mk. intros Hc. apply Ht2 in Hc. by destruct (Hnt t). }
      destruct (IH s2' (buf ++ new) HDI2' Hnt2') as (s' & buf' & Hf & HDI' & Hnt' & Hin' & Hmono & Hreach & Hfr & Hdirty).
      { intros y Hy. apply Hxs. by apply elem_of_list_further. }
      exists s', buf'. split; [exact Hf|]. split; [done|]. split; [done|]. split; [|split; [|split; [|split]]].
      + intros y Hy. apply elem_of_cons in Hy as [->|Hy]; [by apply Hmono|by apply Hin'].
      + intros n Hn. apply Hmono. apply elem_of_app. by left.
      + intros n Hn. destruct (Hreach n Hn) as [Hb|(y & Hy & Hyn)].
        * apply elem_of_app in Hb as [?|Hb]; [by left|]. right. exists x. split; [apply elem_of_list_here|by apply Hr2].
        * right. exists y. split; [by apply elem_of_list_further|done].
      + eapply frame_trans; [|exact Hfr]. eapply frame_trans; [apply frame_erase; exact Her|apply frame_mdd].
      + intros n. rewrite Hdirty. unfold s2'. rewrite mdd_dirty, (erase_dirty _ _ n Her).
        destruct HDI2 as [[Hd Hp] _ _ _]. rewrite Hp.
        rewrite orb_true_iff, bool_decide_eq_true. split.
        * intros [[?|[Hn _]]|(y & Hy & Hyn)]; [by left| |].
          -- right. exists x. split; [apply elem_of_list_here|done].
          -- right. exists y. split; [by apply elem_of_list_further|done].
        * intros [?|(y & Hy & Hyn)]; [by left; left|].
          apply elem_of_cons in Hy as [->|Hy].
          -- left. right. split; [done|]. apply Hd, HLlive.
             by destruct (before_elem _ _ _ (Hsucc _ _ Hyn)).
          -- right. by exists y.
  Qed.
End schedule.

(* ---------- storing several values ---------- *)
Lemma stores_proj {A} (p : node -> A) dflt (Hp : forall z nd, p (set_val z nd) = p nd) :
  forall ws (s : st) n, projOf p dflt (stores ws s) n = projOf p dflt s n.
Proof.
  induction ws as [|[x v] ws IH]; intros s n; [done|]. cbn. fold (stores ws (alter (set_val v) x s)).
  rewrite IH. by apply projOf_alter_same.
Qed.
Lemma stores_dom : forall ws (s : st) n, is_Some (stores ws s !! n) <-> is_Some (s !! n).
Proof.
  induction ws as [|[x v] ws IH]; intros s n; [done|]. cbn. fold (stores ws (alter (set_val v) x s)).
  rewrite IH. apply alter_dom.
Qed.
Lemma stores_val_notin : forall ws (s : st) n, n ∉ map fst ws -> valOf (stores ws s) n = valOf s n.
Proof.
  induction ws as [|[x v] ws IH]; intros s n Hn; [done|]. cbn. fold (stores ws (alter (set_val v) x s)).
  cbn in Hn. rewrite IH by (intros ?; apply Hn; by apply elem_of_list_further).
  unfold valOf. rewrite lookup_alter_ne; [done|]. intros ->. apply Hn, elem_of_list_here.
Qed.
Lemma stores_size ws (s : st) : size (stores ws s) = size s.
Proof.
  rewrite <- !(size_dom (D:=gset nat)). f_equal. apply set_eq. intros n. rewrite !elem_of_dom. apply stores_dom.
Qed.

Lemma is_signal_spec (s : st) x : is_signal s x = true <-> is_Some (s !! x) /\ cbOf s x = None.
Proof.
  unfold is_signal, cbOf. destruct (s !! x) as [nd|].
  - destruct (cb nd) as [c|].
    + split; [discriminate|]. intros [_ ?]; discriminate.
    + split; [eauto|done].
  - split; [discriminate|]. intros [[? ?] _]; discriminate.
Qed.

(* ---------- the whole first loop establishes the invariant ---------- *)
Theorem batch_establishes_inv (s : st) ws :
  Quiescent s -> forallb (is_signal s) (map fst ws) = true ->
  let s1 := stores ws s in
  exists s3 buf,
    schedule (map fst ws) s1 = inr (buf, s3) /\ frame s1 s3 /\
    (forall n, mkOf s3 n = if decide (n ∈ buf) then MPerm else MNone) /\
    (forall x, x ∈ map fst ws -> x ∈ buf) /\
    (forall n, n ∈ buf -> exists x, x ∈ map fst ws /\ rtc (edge s) x n) /\
    (forall n, dirtyOf s3 n = true <-> exists x, x ∈ map fst ws /\ n ∈ dependentsOf s x) /\
    Inv (rev buf) s3.
Proof.
  intros Q Hsig s1. set (xs := map fst ws) in *.
  assert (Hxs : forall x, x ∈ xs -> is_Some (s !! x) /\ cbOf s x = None).
  { intros x Hx. apply is_signal_spec. rewrite forallb_forall in Hsig. apply Hsig. by apply elem_of_list_In. }
  destruct (qT _ Q) as (L & HLnd & HLel & HLe).
  assert (Hdpt1 : forall n, dependentsOf s1 n = dependentsOf s n).
  { intros n. rewrite !dependentsOf_proj. by apply stores_proj. }
  assert (Hdeps1 : forall n, depsOf s1 n = depsOf s n).
  { intros n. rewrite !depsOf_proj. by apply stores_proj. }
  assert (Hcb1 : forall n, cbOf s1 n = cbOf s n).
  { intros n. rewrite !cbOf_proj. by apply stores_proj. }
  assert (Hdirty1 : forall n, dirtyOf s1 n = false).
  { intros n. unfold s1. rewrite dirtyOf_proj, stores_proj by done. apply (qD _ Q). }
  assert (Hmk1 : forall n, mkOf s1 n = MNone).
  { intros n. unfold s1. rewrite mkOf_proj, stores_proj by done. apply (qM _ Q). }
  assert (Hdom1 : forall n, is_Some (s1 !! n) <-> is_Some (s !! n)) by apply stores_dom.
  assert (Hlen : length L = size s1).
  { unfold s1. rewrite stores_size. by apply Topo_length. }
  destruct (schedule_ok L s1 HLnd) with (g := S (size s1)) (xs := xs) (s := s1) (buf := @nil nat)
    as (s3 & buf & Hf & [Hsg Hperm Hbnd Hcl] & Hnt & Hin & _ & Hreach & Hfr & Hdirty).
  { intros n Hn. apply Hdom1. by apply HLel. }
  { intros n m Hm. rewrite Hdpt1 in Hm. apply HLe. by apply (qC _ Q). }
  { lia. }
  { split; [by apply same_graph_erase| |apply NoDup_nil_2|].
    - intros n. rewrite Hmk1. split; [discriminate|]. intros H; by apply elem_of_nil in H.
    - intros n m H; by apply elem_of_nil in H. }
  { intros t. by rewrite Hmk1. }
  { intros x Hx. apply HLel. by destruct (Hxs x Hx). }
  exists s3, buf. split; [exact Hf|]. split; [exact Hfr|].
  assert (Hmk3 : forall n, mkOf s3 n = if decide (n ∈ buf) then MPerm else MNone).
  { intros n. destruct (decide (n ∈ buf)) as [Hn|Hn]; [by apply Hperm|].
    destruct (mkOf s3 n) eqn:E; [done|by destruct (Hnt n)|]. apply Hperm in E. contradiction. }
  split; [exact Hmk3|]. split; [exact Hin|]. split.
  { intros n Hn. destruct (Hreach n Hn) as [Hc|(x & Hx & Hxn)]; [by apply elem_of_nil in Hc|].
    exists x. split; [done|]. by apply (rtc_edge_ext s1 s). }
  assert (Hdirty3 : forall n, dirtyOf s3 n = true <-> exists x, x ∈ xs /\ n ∈ dependentsOf s x).
  { intros n. rewrite Hdirty, Hdirty1. split.
    - intros [?|(x & Hx & Hn)]; [discriminate|]. exists x. by rewrite <- Hdpt1.
    - intros (x & Hx & Hn). right. exists x. by rewrite Hdpt1. }
  split; [exact Hdirty3|].
  destruct Hfr as [Fdom Fdeps Fdpt Fcb Fval].
  assert (Hvalues3 : forall n, n ∉ xs -> values s3 n = values s n).
  { intros n Hn. rewrite !values_valOf, Fval. unfold s1. rewrite (stores_val_notin _ _ _ Hn).
    pose proof (Fdom n) as Hd. rewrite Hdom1 in Hd.
    destruct (s3 !! n), (s !! n); try done.
    - exfalso. destruct Hd as [Hd _]. destruct Hd; eauto; discriminate.
    - exfalso. destruct Hd as [_ Hd]. destruct Hd; eauto; discriminate. }
  split.
  - (* A *)
    intros n Hn. destruct (decide (n ∈ xs)) as [Hx|Hx].
    + unfold cons. pose proof (Fcb n) as Hc. rewrite Hcb1, (proj2 (Hxs n Hx)) in Hc. unfold cbOf in Hc.
      destruct (s3 !! n) as [nd3|]; [|done]. by rewrite Hc.
    + apply (cons_transfer s).
      * intros H. by apply Hdom1, Fdom.
      * by rewrite Fcb, Hcb1.
      * by rewrite Fdeps, Hdeps1.
      * rewrite Fval. unfold s1. by apply stores_val_notin.
      * intros d Hd. apply Hvalues3. intros Hdx.
        assert (Ht : dirtyOf s3 n = true) by (apply Hdirty3; exists d; split; [done|by apply (qC _ Q)]). congruence.
      * apply (qA _ Q).
  - (* B *)
    intros n Hn. apply Hdirty3 in Hn as (x & Hx & Hn). rewrite <- Hdpt1 in Hn.
    rewrite elem_of_rev. by destruct (before_elem _ _ _ (Hcl x n (Hin x Hx) Hn)).
  - (* C *)
    intros n m. rewrite Fdpt, Fdeps, Hdpt1, Hdeps1. apply (qC _ Q).
  - (* DE *)
    intros m d Hd Hdr. rewrite Fdeps, Hdeps1 in Hd. rewrite elem_of_rev in Hdr.
    apply before_rev. apply Hcl; [done|]. rewrite Hdpt1. by apply (qC _ Q).
  - (* F *)
    rewrite rev_reverse, reverse_Permutation. exact Hbnd.
  - (* H *)
    intros n Hn. rewrite Fcb, Hcb1 in Hn. rewrite Fdeps, Hdeps1. split; [|by apply (qH _ Q)].
    destruct (dirtyOf s3 n) eqn:E; [|done]. apply Hdirty3 in E as (x & _ & E). apply (qC _ Q) in E.
    rewrite (qH _ Q n Hn) in E. by apply elem_of_nil in E.
Qed.

Theorem batch_no_fuel_no_cycle (s : st) ws :
  Quiescent s -> batch ws s <> PErr OutOfFuel /\ batch ws s <> PErr Cyclic.
Proof.
  intros Q. unfold batch. destruct (forallb (is_signal s) (map fst ws)) eqn:Hsig; [|split; discriminate].
  destruct (batch_establishes_inv s ws Q Hsig) as (s3 & buf & Hf & _). cbv zeta in Hf.
  unfold propagate. rewrite Hf. destruct (loop _ _) as [[? ?]|]; split; discriminate.
Qed.

(* C01 at the end of a batch *)
Theorem batch_consistent (s s' : st) ws order tr :
  Quiescent s -> batch ws s = POk s' order tr -> LRF order tr -> Quiescent s'.
Proof.
  intros Q Hb HL. unfold batch in Hb.
  destruct (forallb (is_signal s) (map fst ws)) eqn:Hsig; [|discriminate].
  destruct (batch_establishes_inv s ws Q Hsig) as (s3 & buf & Hf & Hfr & Hmk3 & _ & _ & _ & HI). cbv zeta in Hf.
  unfold propagate in Hb. rewrite Hf in Hb.
  destruct (loop (rev buf) s3) as [[s4 tr4]|] eqn:Hl; [|discriminate]. inversion Hb; subst s4 order tr4; clear Hb.
  destruct Hfr as [Fdom Fdeps _ _ _].
  apply (loop_restores_quiescent s s3 s' buf tr Q); try done.
  - intros n. rewrite Fdom. apply stores_dom.
  - intros n. rewrite Fdeps. rewrite !depsOf_proj. by apply stores_proj.
Qed.

(* a single write is the batch of one write *)
Lemma write_is_batch (s : st) x v : write x v s = batch [(x, v)] s.
Proof.
  unfold write, batch. cbn [map fst forallb]. unfold is_signal.
  destruct (s !! x) as [sig|] eqn:Hx; [|done].
  destruct (cb sig); [done|]. cbn [andb map fst stores fold_left].
  f_equal. apply map_eq. intros i. destruct (decide (i = x)) as [->|Hne].
  - by rewrite lookup_insert, lookup_alter, Hx.
  - by rewrite lookup_insert_ne, lookup_alter_ne.
Qed.

Print Assumptions batch_establishes_inv.
Print Assumptions batch_no_fuel_no_cycle.
Print Assumptions batch_consistent.
