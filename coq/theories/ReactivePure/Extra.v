(* ReactivePure/Extra.v -- corollaries of the propagation-loop invariant used by Props/C01..C03 *)
From stdpp Require Import gmap list.
Require Import ZArith Lia.
From Syc.ReactivePure Require Import Pure Loop LoopInv Ops Spec Step.

(* the loop handles every element of the order exactly once: one trace entry per element *)
Lemma loop_trace_length order : forall (s s' : st) tr, loop order s = Some (s', tr) -> length tr = length order.
Proof.
  induction order as [|n rest IH]; intros s s' tr H; cbn in H.
  - inversion H; reflexivity.
  - destruct (s !! n) as [nd|].
    + destruct (dirty nd).
      * destruct (run_node n _) as [[s2 ev]|]; [|discriminate].
        destruct (loop rest s2) as [[s3 tr']|] eqn:E; [|discriminate]. inversion H; subst. cbn. f_equal. eapply IH; exact E.
      * destruct (loop rest _) as [[s3 tr']|] eqn:E; [|discriminate]. inversion H; subst. cbn. f_equal. eapply IH; exact E.
    + destruct (loop rest s) as [[s3 tr']|] eqn:E; [|discriminate]. inversion H; subst. cbn. f_equal. eapply IH; exact E.
Qed.

(* a node is run by the loop only if it is alive and dirty at that moment *)
Lemma loop_head_runs_only_dirty n rest (s s' : st) ev tr :
  loop (n :: rest) s = Some (s', Some ev :: tr) -> exists nd, s !! n = Some nd /\ dirty nd = true.
Proof.
  cbn. destruct (s !! n) as [nd|]; [|destruct (loop rest s) as [[? ?]|]; intros H; inversion H].
  destruct (dirty nd) eqn:Hd; [eauto|].
  destruct (loop rest _) as [[? ?]|]; intros H; inversion H.
Qed.
