(* ReactivePure/PropagateExamples.v -- closed instances of the theorems of Propagate.v / Glitch.v (the
   hypotheses are satisfiable on non-trivial graphs: diamond, chain, fan-in, selector cut-off, a dependency
   switch), and the counterexamples showing which hypotheses cannot be dropped:
   late reads (finding F1) break consistency and can create a dependency cycle; untracked reads are not
   protected by the schedule. All by computation on the model. *)
From stdpp Require Import gmap list relations.
Require Import ZArith Lia.
From Syc.ReactivePure Require Import Pure Loop LoopInv Ops Spec Step Extra Dfs DfsFacts Propagate Glitch Create Batch.
Open Scope Z_scope.

(* boolean version of late-read-freedom, to decide it on closed traces *)
Fixpoint lrfb (order : list id) (tr : list event) : bool :=
  match order, tr with
  | n :: rest, ev :: tr' =>
      match ev with
      | Some (t, _, _) => forallb (fun x => negb (bool_decide (x ∈ rest))) t
      | None => true
      end && lrfb rest tr'
  | _, _ => true
  end.

Lemma lrfb_sound order : forall tr, lrfb order tr = true -> LRF order tr.
Proof.
  induction order as [|n rest IH]; intros [|ev tr] H; cbn in *; try done.
  apply andb_true_iff in H as [H1 H2]. split; [|by apply IH].
  destruct ev as [[[t r] ch]|]; [|done].
  intros x Hx Hr. rewrite forallb_forall in H1. specialize (H1 x ltac:(by apply elem_of_list_In)).
  apply negb_true_iff, bool_decide_eq_false in H1. contradiction.
Qed.

(* closed terms are only ever evaluated through small projections (never a whole state: reading a
   normalised gmap back from the virtual machine is slow) *)
Lemma pres_ok_inv (r : pres) :
  (match r with POk _ _ _ => true | PErr _ => false end) = true -> exists s' o tr, r = POk s' o tr.
Proof. destruct r as [s' o tr|]; [eauto|discriminate]. Qed.
Lemma some_inv {A} (o : option A) : (match o with Some _ => true | None => false end) = true -> exists a, o = Some a.
Proof. destruct o; [eauto|discriminate]. Qed.

Definition final_val (r : pres) (n : id) : option Z :=
  match r with POk s' _ _ => val <$> (s' !! n) | PErr _ => None end.
Definition is_lrf (r : pres) : bool := match r with POk _ o tr => lrfb o tr | PErr _ => false end.
Definition ran (r : pres) : list (id * bool) :=
  match r with
  | POk _ o tr => omap (fun '(n, ev) => match ev with Some (_, _, ch) => Some (n, ch) | None => None end) (zip o tr)
  | PErr _ => []
  end.

(* ---------- graphs ---------- *)
(* diamond: 0 signal; 1 = s+1; 2 = 2s; 3 = (1)+(2) *)
Definition diamond : st :=
  add_memo 3 (Bin Z.add (Get true 1) (Get true 2)) KMemo
    (add_memo 2 (Bin Z.mul (Get true 0) (Lit 2)) KMemo
       (add_memo 1 (Bin Z.add (Get true 0) (Lit 1)) KMemo (add_signal 0 1 ∅))).
(* chain with fan-in: 0, 1 signals; 2 = s0+s1; 3 = (2)+1; 4 = (3)*(2) *)
Definition chain : st :=
  add_memo 4 (Bin Z.mul (Get true 3) (Get true 2)) KMemo
    (add_memo 3 (Bin Z.add (Get true 2) (Lit 1)) KMemo
       (add_memo 2 (Bin Z.add (Get true 0) (Get true 1)) KMemo (add_signal 1 10 (add_signal 0 1 ∅)))).
(* selector cut-off: 1 = s modulo 2 (selector with equality modulo 2); 2 = (1)+10 *)
Definition selg : st :=
  add_memo 2 (Bin Z.add (Get true 1) (Lit 10)) KMemo (add_memo 1 (Get true 0) (KSel 2) (add_signal 0 1 ∅)).
(* dependency switch between two signals: 3 = if s0 then s1 else s2 *)
Definition switch : st :=
  add_memo 3 (Ite (Get true 0) (Get true 1) (Get true 2)) KMemo
    (add_signal 2 20 (add_signal 1 10 (add_signal 0 0 ∅))).

Ltac quiescent :=
  repeat first [ apply Quiescent_empty
               | apply Quiescent_add_memo; [|vm_compute; reflexivity]
               | apply Quiescent_add_signal; [|vm_compute; reflexivity] ].

Example diamond_quiescent : Quiescent diamond. Proof. unfold diamond. quiescent. Qed.
Example chain_quiescent : Quiescent chain. Proof. unfold chain. quiescent. Qed.
Example selg_quiescent : Quiescent selg. Proof. unfold selg. quiescent. Qed.
Example switch_quiescent : Quiescent switch. Proof. unfold switch. quiescent. Qed.

(* ---------- instances of dfs_establishes_inv ---------- *)
Example dfs_establishes_inv_diamond :
  exists sig s2 buf, diamond !! 0%nat = Some sig /\ cb sig = None /\
    dfs (S (size (<[0%nat := set_val 5 sig]> diamond))) 0 (<[0%nat := set_val 5 sig]> diamond, []) = Some (Some (s2, buf))
    /\ buf = [3%nat; 1%nat; 2%nat; 0%nat] /\ Inv (rev buf) (mark_dependents_dirty 0 s2).
Proof.
  assert (Hx : diamond !! 0%nat = Some (Node 1 None [1%nat; 2%nat] [] false MNone)) by (vm_compute; reflexivity).
  destruct (dfs_establishes_inv diamond 0 _ 5 diamond_quiescent Hx eq_refl) as (s2 & buf & Hdfs & _ & _ & _ & _ & _ & HI).
  eexists _, s2, buf. split; [exact Hx|]. split; [done|]. split; [exact Hdfs|]. split; [|exact HI].
  cbv zeta in Hdfs.
  match type of Hdfs with ?l = _ =>
    assert (Hb : match l with Some (Some (_, b)) => b | _ => [] end = [3%nat; 1%nat; 2%nat; 0%nat]) by (vm_compute; reflexivity)
  end.
  rewrite Hdfs in Hb. exact Hb.
Qed.

(* ---------- instances of write_consistent and of the C02 corollaries ---------- *)
Example write_diamond :
  is_lrf (write 0 5 diamond) = true /\ final_val (write 0 5 diamond) 3 = Some 16 /\
  ran (write 0 5 diamond) = [(2%nat, true); (1%nat, true); (3%nat, true)].
Proof. vm_compute. done. Qed.

Example write_consistent_diamond : exists s' order tr, write 0 5 diamond = POk s' order tr /\ Quiescent s'.
Proof.
  destruct (pres_ok_inv (write 0 5 diamond)) as (s' & order & tr & E); [vm_compute; reflexivity|].
  exists s', order, tr. split; [done|].
  apply (write_consistent diamond s' 0 5 order tr diamond_quiescent E).
  apply lrfb_sound. change (is_lrf (POk s' order tr) = true). rewrite <- E. vm_compute. reflexivity.
Qed.

Example write_chain :
  is_lrf (write 1 20 chain) = true /\ final_val (write 1 20 chain) 4 = Some 462 /\
  ran (write 1 20 chain) = [(2%nat, true); (3%nat, true); (4%nat, true)].
Proof. vm_compute. done. Qed.

(* selector cut-off: 1 -> 3 keeps the parity, the selector runs but does not change, node 2 does not run;
   1 -> 4 changes the parity, both run *)
Example write_selector_cut :
  is_lrf (write 0 3 selg) = true /\ ran (write 0 3 selg) = [(1%nat, false)] /\
  is_lrf (write 0 4 selg) = true /\ ran (write 0 4 selg) = [(1%nat, true); (2%nat, true)].
Proof. vm_compute. done. Qed.

(* dependency switch: the edge set changes during the propagation, still late-read free *)
Example write_switch :
  is_lrf (write 0 1 switch) = true /\ final_val (write 0 1 switch) 3 = Some 10 /\
  (match write 0 1 switch with POk s' _ _ => depsOf s' 3 | _ => [] end) = [0%nat; 1%nat].
Proof. vm_compute. done. Qed.

(* a history of three writes on the diamond, every propagation late-read free *)
Example writes_consistent_diamond :
  exists s' log, writes [(0%nat, 5); (0%nat, 5); (0%nat, -3)] diamond = Some (s', log) /\
                 Quiescent s' /\ valOf s' 3 = -8.
Proof.
  destruct (some_inv (writes [(0%nat, 5); (0%nat, 5); (0%nat, -3)] diamond)) as ([s' log] & E); [vm_compute; reflexivity|].
  exists s', log. split; [done|]. split.
  - apply (writes_consistent _ _ _ _ diamond_quiescent E).
    assert (Hb : forallb (fun ot => lrfb (fst ot) (snd ot)) log = true).
    { change (match Some (s', log) with Some (_, l) => forallb (fun ot => lrfb (fst ot) (snd ot)) l | None => false end = true).
      rewrite <- E. vm_compute. reflexivity. }
    apply Forall_forall. intros ot Hot. apply lrfb_sound.
    rewrite forallb_forall in Hb. apply Hb. by apply elem_of_list_In.
  - change (match Some (s', log) with Some (s1, _) => valOf s1 3 | None => 0 end = -8).
    rewrite <- E. vm_compute. reflexivity.
Qed.

(* a batch writing both signals of the chain, one of them twice: one propagation, every node runs once *)
Example batch_chain :
  is_lrf (batch [(0%nat, 5); (1%nat, 20); (0%nat, 7)] chain) = true /\
  final_val (batch [(0%nat, 5); (1%nat, 20); (0%nat, 7)] chain) 4 = Some 756 /\
  ran (batch [(0%nat, 5); (1%nat, 20); (0%nat, 7)] chain) = [(2%nat, true); (3%nat, true); (4%nat, true)].
Proof. vm_compute. done. Qed.

Example batch_consistent_chain :
  exists s' order tr, batch [(0%nat, 5); (1%nat, 20); (0%nat, 7)] chain = POk s' order tr /\ Quiescent s'.
Proof.
  destruct (pres_ok_inv (batch [(0%nat, 5); (1%nat, 20); (0%nat, 7)] chain)) as (s' & order & tr & E); [vm_compute; reflexivity|].
  exists s', order, tr. split; [done|].
  apply (batch_consistent chain s' _ order tr chain_quiescent E).
  apply lrfb_sound. change (is_lrf (POk s' order tr) = true). rewrite <- E. vm_compute. reflexivity.
Qed.

(* ---------- the hypotheses that cannot be dropped ---------- *)
(* F1 on the pure model: s=0; b=memo(2s); c=memo(if s then b else 0); s.set(1).
   The state before the write is quiescent, the write is NOT late-read free (c starts reading b, which is
   still scheduled after c), and the resulting state is not quiescent: c holds 0 and stays dirty. *)
Definition f1 : st :=
  add_memo 2 (Ite (Get true 0) (Get true 1) (Lit 0)) KMemo
    (add_memo 1 (Bin Z.mul (Get true 0) (Lit 2)) KMemo (add_signal 0 0 ∅)).
Example f1_quiescent : Quiescent f1. Proof. unfold f1. quiescent. Qed.

Example write_consistent_without_lrf_refuted :
  exists s' order tr, write 0 1 f1 = POk s' order tr /\ ~ LRF order tr /\ ~ Quiescent s' /\
    order = [0%nat; 2%nat; 1%nat] /\ valOf s' 1 = 2 /\ valOf s' 2 = 0 /\ dirtyOf s' 2 = true.
Proof.
  destruct (pres_ok_inv (write 0 1 f1)) as (s' & order & tr & E); [vm_compute; reflexivity|].
  exists s', order, tr. split; [done|].
  assert (Ho : order = [0%nat; 2%nat; 1%nat]).
  { change (match POk s' order tr with POk _ o _ => o | _ => [] end = [0%nat; 2%nat; 1%nat]). rewrite <- E. vm_compute. reflexivity. }
  assert (Ht : tr = [None; Some ([0%nat; 1%nat], [0%nat; 1%nat], true); Some ([0%nat], [0%nat], true)]).
  { change (match POk s' order tr with POk _ _ t => t | _ => [] end = [None; Some ([0%nat; 1%nat], [0%nat; 1%nat], true); Some ([0%nat], [0%nat], true)]).
    rewrite <- E. vm_compute. reflexivity. }
  assert (Hd : dirtyOf s' 2 = true).
  { change (match POk s' order tr with POk s1 _ _ => dirtyOf s1 2 | _ => false end = true). rewrite <- E. vm_compute. reflexivity. }
  split; [|split; [|split; [done|split; [|split; [|done]]]]].
  - subst order tr. cbn. intros (_ & H & _). apply (H 1%nat); repeat constructor.
  - intros Q. pose proof (qD _ Q 2%nat). congruence.
  - change (match POk s' order tr with POk s1 _ _ => valOf s1 1 | _ => 0 end = 2). rewrite <- E. vm_compute. reflexivity.
  - change (match POk s' order tr with POk s1 _ _ => valOf s1 2 | _ => 0 end = 0). rewrite <- E. vm_compute. reflexivity.
Qed.

(* a late read can close a dependency cycle: s=0, t=1; a=memo(if s then b else 0); b=memo(if t then a else 0).
   s.set(1) makes a read b while b is still scheduled; afterwards a and b depend on each other, the state is
   not acyclic, and the next write reports Cyclic (root.rs panics with "cyclic reactive dependency").
   This is why acyclicity is re-established only under the late-read hypothesis. *)
Definition cyc : st :=
  add_memo 3 (Ite (Get true 1) (Get true 2) (Lit 0)) KMemo
    (add_memo 2 (Ite (Get true 0) (Get true 3) (Lit 0)) KMemo (add_signal 1 1 (add_signal 0 0 ∅))).
Example cyc_quiescent : Quiescent cyc. Proof. unfold cyc. quiescent. Qed.

Example acyclicity_without_lrf_refuted :
  exists s' order tr, write 0 1 cyc = POk s' order tr /\ is_lrf (write 0 1 cyc) = false /\
    2%nat ∈ depsOf s' 3 /\ 3%nat ∈ depsOf s' 2 /\ ~ Acyclic s' /\ write 0 0 s' = PErr Cyclic.
Proof.
  destruct (pres_ok_inv (write 0 1 cyc)) as (s' & order & tr & E); [vm_compute; reflexivity|].
  exists s', order, tr. split; [done|].
  assert (H23 : depsOf s' 3 = [1%nat; 2%nat]).
  { change (match POk s' order tr with POk s1 _ _ => depsOf s1 3 | _ => [] end = [1%nat; 2%nat]). rewrite <- E. vm_compute. reflexivity. }
  assert (H32 : depsOf s' 2 = [0%nat; 3%nat]).
  { change (match POk s' order tr with POk s1 _ _ => depsOf s1 2 | _ => [] end = [0%nat; 3%nat]). rewrite <- E. vm_compute. reflexivity. }
  split. { vm_compute. reflexivity. }
  split; [rewrite H23; repeat constructor|]. split; [rewrite H32; repeat constructor|]. split.
  - intros HA. apply (Acyclic_no_cycle s' 2 HA).
    apply (tc_l _ 2%nat 3%nat 2%nat); [unfold dep_edge; rewrite H23; repeat constructor|].
    apply tc_once. unfold dep_edge. rewrite H32. repeat constructor.
  - change (match POk s' order tr with POk s1 _ _ => write 0 0 s1 | _ => PErr Stuck end = PErr Cyclic). rewrite <- E. vm_compute. reflexivity.
Qed.

(* untracked reads are outside the guarantee: s=1; b=memo(2s); c=memo(s + untracked b). The subscribers of s
   are visited in creation order, so c is scheduled before b; c reads b (untracked) while b is still
   scheduled and dirty, and ends with 5+2 although b ends with 10. The write is late-read free (LRF only
   speaks about tracked reads) and the final state is quiescent: [cons] is relative to tracked reads. *)
Definition untr : st :=
  add_memo 2 (Bin Z.add (Get true 0) (Get false 1)) KMemo
    (add_memo 1 (Bin Z.mul (Get true 0) (Lit 2)) KMemo (add_signal 0 1 ∅)).
Example untr_quiescent : Quiescent untr. Proof. unfold untr. quiescent. Qed.

Example untracked_read_sees_stale_value :
  is_lrf (write 0 5 untr) = true /\
  (match write 0 5 untr with POk _ o tr => (o, tr) | _ => ([], []) end)
    = ([0%nat; 2%nat; 1%nat], [None; Some ([0%nat], [0%nat; 1%nat], true); Some ([0%nat], [0%nat], true)]) /\
  final_val (write 0 5 untr) 1 = Some 10 /\ final_val (write 0 5 untr) 2 = Some 7.
Proof. vm_compute. done. Qed.

Print Assumptions write_consistent_without_lrf_refuted.
Print Assumptions acyclicity_without_lrf_refuted.
Print Assumptions untracked_read_sees_stale_value.
Print Assumptions writes_consistent_diamond.
