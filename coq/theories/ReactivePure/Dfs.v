(* ReactivePure/Dfs.v -- the first half of root.rs propagate_node_updates on the pure-callback state:
   the depth-first pass [dfs] (marks MNone/MTemp/MPerm, fold over dependents, post-order buffer, fuel,
   cyclic detection), and [propagate] = for each start node dfs + mark_dependents_dirty, then Loop.loop on
   the reversed buffer.  The text follows Reactive/Interp.v (dfs, mark_dependents_dirty, propagate) as
   closely as the smaller node record allows.  Definitions only. *)
From stdpp Require Import gmap list.
Require Import ZArith Lia.
From Syc.ReactivePure Require Import Pure Loop.
Open Scope Z_scope.

(* root.rs dfs; [g] bounds the recursion depth (number of nodes + 1 is enough: see DfsFacts.dfs_ok) *)
Fixpoint dfs (g : nat) (x : id) (acc : st * list id) : option (option (st * list id)) :=
  (* None = out of fuel, Some None = cyclic *)
  match g with
  | O => None
  | S g' =>
      let '(s, buf) := acc in
      match s !! x with
      | None => Some (Some acc)
      | Some nd =>
          match mk nd with
          | MTemp => Some None
          | MPerm => Some (Some acc)
          | MNone =>
              let s1 := alter (set_mk MTemp) x s in
              let r := fold_left (fun a child =>
                         match a with
                         | Some (Some a') => dfs g' child a'
                         | o => o
                         end) (dependents nd) (Some (Some (s1, buf))) in
              match r with
              | Some (Some (s2, buf2)) => Some (Some (alter (set_mk MPerm) x s2, buf2 ++ [x]))
              | o => o
              end
          end
      end
  end.

(* the body of the fold, named so that lemmas can talk about it *)
Definition dfs_children (g' : nat) (cs : list id) (a : option (option (st * list id))) :=
  fold_left (fun a child =>
               match a with
               | Some (Some a') => dfs g' child a'
               | o => o
               end) cs a.

Lemma dfs_S g' x (s : st) buf :
  dfs (S g') x (s, buf) =
    match s !! x with
    | None => Some (Some (s, buf))
    | Some nd =>
        match mk nd with
        | MTemp => Some None
        | MPerm => Some (Some (s, buf))
        | MNone =>
            let r := dfs_children g' (dependents nd) (Some (Some (alter (set_mk MTemp) x s, buf))) in
            match r with
            | Some (Some (s2, buf2)) => Some (Some (alter (set_mk MPerm) x s2, buf2 ++ [x]))
            | o => o
            end
        end
    end.
Proof. reflexivity. Qed.

Lemma dfs_O x acc : dfs O x acc = None.
Proof. reflexivity. Qed.

Inductive perr := OutOfFuel | Cyclic | Stuck.
Inductive pres := POk (s : st) (order : list id) (tr : list event) | PErr (e : perr).

(* first loop of root.rs propagate_node_updates: for every start node, dfs then mark_dependents_dirty *)
Definition sched_step (g : nat) (a : perr + (list id * st)) (start : id) : perr + (list id * st) :=
  match a with
  | inl e => inl e
  | inr (buf, s1) =>
      match dfs g start (s1, buf) with
      | None => inl OutOfFuel
      | Some None => inl Cyclic
      | Some (Some (s2, buf2)) => inr (buf2, mark_dependents_dirty start s2)
      end
  end.
Definition schedule (starts : list id) (s : st) : perr + (list id * st) :=
  let g := S (size s) in
  fold_left (sched_step g) starts (inr ([], s)).

(* root.rs propagate_node_updates *)
Definition propagate (starts : list id) (s : st) : pres :=
  match schedule starts s with
  | inl e => PErr e
  | inr (buf, s1) =>
      match loop (rev buf) s1 with
      | Some (s', tr) => POk s' (rev buf) tr
      | None => PErr Stuck
      end
  end.

(* signals.rs Signal::set outside a batch: store the value, then propagate from the signal.
   Only plain signals (no callback) can be written. *)
Definition write (x : id) (v : Z) (s : st) : pres :=
  match s !! x with
  | Some sig =>
      match cb sig with
      | None => propagate [x] (<[x := set_val v sig]> s)
      | Some _ => PErr Stuck
      end
  | None => PErr Stuck
  end.

(* the end of an outermost batch: every write inside the batch stored its value at once and queued the
   signal; then one propagation from all queued signals (root.rs batch / propagate_node_updates on the queue) *)
Definition stores (ws : list (id * Z)) (s : st) : st :=
  fold_left (fun a '(x, v) => alter (set_val v) x a) ws s.
Definition is_signal (s : st) (x : id) : bool :=
  match s !! x with
  | Some nd => match cb nd with None => true | Some _ => false end
  | None => false
  end.
Definition batch (ws : list (id * Z)) (s : st) : pres :=
  if forallb (is_signal s) (map fst ws) then propagate (map fst ws) (stores ws s) else PErr Stuck.

(* a history of writes; the log keeps the schedule and the trace of every propagation *)
Fixpoint writes (ws : list (id * Z)) (s : st) : option (st * list (list id * list event)) :=
  match ws with
  | [] => Some (s, [])
  | (x, v) :: ws' =>
      match write x v s with
      | POk s1 order tr =>
          match writes ws' s1 with
          | Some (s2, log) => Some (s2, (order, tr) :: log)
          | None => None
          end
      | PErr _ => None
      end
  end.
