From stdpp Require Import gmap list.
Require Import ZArith Lia.
From Syc.ReactivePure Require Import Pure.
Open Scope Z_scope.

Inductive mark := MNone | MTemp | MPerm.
Inductive kind := KMemo | KSel (k:Z).
Record node := Node { val : Z; cb : option (expr * kind); dependents : list id; deps : list id;
                      dirty : bool; mk : mark }.
Notation st := (gmap id node).
Definition values (s:st) : valuation := fun x => val <$> (s !! x).

Definition set_dependents (f:list id -> list id) (n:node) := Node (val n) (cb n) (f (dependents n)) (deps n) (dirty n) (mk n).
Definition set_deps (l:list id) (n:node) := Node (val n) (cb n) (dependents n) l (dirty n) (mk n).
Definition set_dirty (b:bool) (n:node) := Node (val n) (cb n) (dependents n) (deps n) b (mk n).
Definition set_mk (m:mark) (n:node) := Node (val n) (cb n) (dependents n) (deps n) (dirty n) m.
Definition set_val (v:Z) (n:node) := Node v (cb n) (dependents n) (deps n) (dirty n) (mk n).

Definition eqk (k:kind) (a b:Z) : bool :=
  match k with KMemo => false | KSel k => if Z.eqb k 0 then Z.eqb a b else Z.eqb (a mod k) (b mod k) end.

(* remove n from the dependents of every d in ds *)
Definition unlink (n:id) (ds:list id) (s:st) : st :=
  alter (set_deps []) n (foldr (fun d acc => alter (set_dependents (filter (fun x => x ≠ n))) d acc) s ds).
Definition link (n:id) (ts:list id) (s:st) : st :=
  alter (set_deps ts) n (foldr (fun d acc => alter (set_dependents (fun l => l ++ [n])) d acc) s ts).
Definition mark_dependents_dirty (n:id) (s:st) : st :=
  match s !! n with Some nd => foldr (fun d acc => alter (set_dirty true) d acc) s (dependents nd) | None => s end.

(* returns new state + (tracked reads, all reads, changed) for the trace *)
Definition run_node (n:id) (s:st) : option (st * (list id * list id * bool)) :=
  match s !! n with
  | Some nd =>
    match cb nd with
    | Some (f,k) =>
      let s1 := unlink n (deps nd) s in
      match eval f (values s1) with
      | Some (v, t, r) =>
        if bool_decide (n ∈ r) then None else
        let s2 := link n t s1 in
        let changed := negb (eqk k v (val nd)) in
        let s3 := alter (fun x => set_dirty false (if changed then set_val v x else x)) n s2 in
        Some (if changed then mark_dependents_dirty n s3 else s3, (t, r, changed))
      | None => None end
    | None => None end
  | None => None end.

Definition event := option (list id * list id * bool).
Fixpoint loop (order:list id) (s:st) : option (st * list event) :=
  match order with
  | [] => Some (s, [])
  | n :: rest =>
    match s !! n with
    | None => match loop rest s with Some (s3, tr) => Some (s3, None :: tr) | None => None end
    | Some nd =>
      let s1 := alter (set_mk MNone) n s in
      if dirty nd then
        match run_node n s1 with
        | Some (s2, ev) => match loop rest s2 with Some (s3, tr) => Some (s3, Some ev::tr) | None => None end
        | None => None end
      else match loop rest s1 with Some (s3, tr) => Some (s3, None :: tr) | None => None end
    end
  end.
