(* ReactivePure/Create.v -- quiescent states exist and are closed under node creation:
   the empty graph is quiescent; adding a signal, or adding a computation and running it once
   (create_memo / create_selector: a fresh dirty node, then run_node_update), keeps the state quiescent.
   Together with Propagate.write_consistent: every state built by creations and late-read-free writes is
   quiescent.  Also used to give closed, non-trivial instances of the theorems (PropagateExamples.v). *)
From stdpp Require Import gmap list relations.
Require Import ZArith Lia.
From Syc.ReactivePure Require Import Pure Loop LoopInv Ops Spec Step Extra Dfs DfsFacts Propagate.
Open Scope Z_scope.

Definition add_signal (n : id) (v : Z) (s : st) : st := <[n := Node v None [] [] false MNone]> s.

(* a fresh computation: registered dirty with no edges, then run once; if the first run gets stuck
   (reads a dead node or itself) the state is left as it was *)
Definition add_memo (n : id) (f : expr) (k : kind) (s : st) : st :=
  match run_node n (<[n := Node 0 (Some (f, k)) [] [] true MNone]> s) with
  | Some (s', _) => s'
  | None => s
  end.

Lemma projOf_insert {A} (p : node -> A) dflt n nd0 (s : st) m :
  projOf p dflt (<[n := nd0]> s) m = if decide (m = n) then p nd0 else projOf p dflt s m.
Proof.
  unfold projOf. destruct (decide (m = n)) as [->|Hne].
  - by rewrite lookup_insert.
  - by rewrite lookup_insert_ne.
Qed.

Lemma Quiescent_empty : Quiescent ∅.
Proof.
  split.
  - intros n. unfold mkOf. by rewrite lookup_empty.
  - intros n. unfold dirtyOf. by rewrite lookup_empty.
  - intros n m. unfold dependentsOf, depsOf. rewrite !lookup_empty. split; intros H; by apply elem_of_nil in H.
  - intros n. unfold cons. by rewrite lookup_empty.
  - exists []. split; [apply NoDup_nil_2|]. split.
    + intros x. rewrite lookup_empty. split; [intros H; by apply elem_of_nil in H|intros [? ?]; discriminate].
    + intros m d. unfold depsOf. rewrite lookup_empty. intros H; by apply elem_of_nil in H.
  - intros n _. unfold depsOf. by rewrite lookup_empty.
Qed.

Section fresh.
  Context (s : st) (n : id) (nd0 : node).
  Context (Q : Quiescent s) (Hfresh : s !! n = None).
  Context (Hdeps0 : deps nd0 = []) (Hdpt0 : dependents nd0 = []) (Hmk0 : mk nd0 = MNone).
  Let s0 : st := <[n := nd0]> s.

  Lemma fresh_not_dep m : n ∉ depsOf s m.
  Proof.
    intros H. apply (qC _ Q) in H. unfold dependentsOf in H. rewrite Hfresh in H. by apply elem_of_nil in H.
  Qed.
  Lemma fresh_not_dependent m : n ∉ dependentsOf s m.
  Proof.
    intros H. apply (qC _ Q) in H. unfold depsOf in H. rewrite Hfresh in H. by apply elem_of_nil in H.
  Qed.
  Lemma fresh_deps m : depsOf s0 m = depsOf s m.
  Proof.
    unfold s0. rewrite !depsOf_proj, projOf_insert. destruct (decide (m = n)) as [Heq|]; [rewrite Heq|done].
    rewrite Hdeps0. unfold projOf, depsOf. by rewrite Hfresh.
  Qed.
  Lemma fresh_dependents m : dependentsOf s0 m = dependentsOf s m.
  Proof.
    unfold s0. rewrite !dependentsOf_proj, projOf_insert. destruct (decide (m = n)) as [Heq|]; [rewrite Heq|done].
    rewrite Hdpt0. unfold projOf, dependentsOf. by rewrite Hfresh.
  Qed.
  Lemma fresh_mk m : mkOf s0 m = MNone.
  Proof.
    unfold s0. rewrite mkOf_proj, projOf_insert. destruct (decide (m = n)); [done|]. apply (qM _ Q).
  Qed.
  Lemma fresh_values d : d ≠ n -> values s0 d = values s d.
  Proof. intros Hne. unfold values, s0. by rewrite lookup_insert_ne. Qed.
  Lemma fresh_dom m : is_Some (s0 !! m) <-> m = n \/ is_Some (s !! m).
  Proof.
    unfold s0. destruct (decide (m = n)) as [Heq|Hne].
    - rewrite Heq, lookup_insert. split; eauto.
    - rewrite lookup_insert_ne by done. split; [eauto|]. intros [?|?]; [contradiction|done].
  Qed.

  Lemma fresh_cons m : m ≠ n -> cons s0 m.
  Proof.
    intros Hne. apply (cons_transfer s).
    - intros H. apply fresh_dom in H as [?|?]; [contradiction|done].
    - unfold s0. by rewrite !cbOf_proj, projOf_insert, decide_False.
    - apply fresh_deps.
    - unfold s0. by rewrite !valOf_proj, projOf_insert, decide_False.
    - intros d Hd. apply fresh_values. intros ->. by apply (fresh_not_dep m).
    - apply (qA _ Q).
  Qed.

  Lemma fresh_topo L : Topo L s -> Topo (L ++ [n]) s0.
  Proof.
    intros (Hnd & Hel & He). split; [|split].
    - apply NoDup_app. split; [done|]. split; [|apply NoDup_singleton].
      intros y Hy Hy'. apply elem_of_list_singleton in Hy' as ->. apply Hel in Hy as [? Hy]. congruence.
    - intros y. rewrite elem_of_app, elem_of_list_singleton, fresh_dom, Hel. tauto.
    - intros m d. rewrite fresh_deps. intros Hd. apply before_app_l. by apply He.
  Qed.
End fresh.

Lemma Quiescent_add_signal (s : st) n v : Quiescent s -> s !! n = None -> Quiescent (add_signal n v s).
Proof.
  intros Q Hfresh. unfold add_signal. set (nd0 := Node v None [] [] false MNone).
  split.
  - intros m. by apply fresh_mk.
  - intros m. rewrite dirtyOf_proj, projOf_insert. destruct (decide (m = n)); [done|]. apply (qD _ Q).
  - intros a b. rewrite (fresh_dependents s n nd0 Hfresh eq_refl), (fresh_deps s n nd0 Hfresh eq_refl). apply (qC _ Q).
  - intros m. destruct (decide (m = n)) as [->|Hne]; [|by apply fresh_cons].
    unfold cons. by rewrite lookup_insert.
  - destruct (qT _ Q) as [L HL]. exists (L ++ [n]). by apply fresh_topo.
  - intros m Hm. rewrite (fresh_deps s n nd0 Hfresh eq_refl).
    destruct (decide (m = n)) as [->|Hne].
    + unfold depsOf. by rewrite Hfresh.
    + apply (qH _ Q). by rewrite cbOf_proj, projOf_insert, decide_False in Hm.
Qed.

Lemma Quiescent_add_memo (s : st) n f k : Quiescent s -> s !! n = None -> Quiescent (add_memo n f k s).
Proof.
  intros Q Hfresh. unfold add_memo. set (nd0 := Node 0 (Some (f, k)) [] [] true MNone).
  set (s0 := <[n := nd0]> s).
  destruct (run_node n s0) as [[s2 [[t r] ch]]|] eqn:Hr; [|done].
  assert (Hdirty0 : forall m, dirtyOf s0 m = bool_decide (m = n)).
  { intros m. unfold s0. rewrite dirtyOf_proj, projOf_insert. destruct (decide (m = n)) as [->|Hne].
    - by rewrite bool_decide_eq_true_2.
    - rewrite bool_decide_eq_false_2 by done. apply (qD _ Q). }
  assert (Hcb0 : forall m, m ≠ n -> cbOf s0 m = cbOf s m).
  { intros m Hne. unfold s0. by rewrite !cbOf_proj, projOf_insert, decide_False. }
  assert (HI : Inv [n] s0).
  { split.
    - intros m Hm. rewrite Hdirty0 in Hm. apply bool_decide_eq_false in Hm. by apply fresh_cons.
    - intros m Hm. rewrite Hdirty0 in Hm. apply bool_decide_eq_true in Hm as ->. apply elem_of_list_here.
    - intros a b. unfold s0. rewrite (fresh_dependents s n nd0 Hfresh eq_refl), (fresh_deps s n nd0 Hfresh eq_refl).
      apply (qC _ Q).
    - intros m d Hd Hdn. apply elem_of_list_singleton in Hdn as ->. exfalso.
      unfold s0 in Hd. rewrite (fresh_deps s n nd0 Hfresh eq_refl) in Hd. by apply (fresh_not_dep s n Q Hfresh m).
    - apply NoDup_singleton.
    - intros m Hm. destruct (decide (m = n)) as [->|Hne].
      + unfold cbOf, s0 in Hm. rewrite lookup_insert in Hm. discriminate.
      + rewrite Hdirty0, bool_decide_eq_false_2 by done. split; [done|].
        unfold s0. rewrite (fresh_deps s n nd0 Hfresh eq_refl). apply (qH _ Q). by rewrite <- Hcb0. }
  assert (HI2 : Inv [] s2).
  { eapply step; [exact HI| |exact Hr|].
    - rewrite Hdirty0. by apply bool_decide_eq_true_2.
    - intros y _ Hy. by apply elem_of_nil in Hy. }
  destruct HI2 as [HA HB HC _ _ HH].
  assert (Hnd : forall m, dirtyOf s2 m = false).
  { intros m. destruct (dirtyOf s2 m) eqn:E; [|done]. specialize (HB m E). by apply elem_of_nil in HB. }
  split.
  - intros m. rewrite (run_node_mk _ _ _ _ Hr). by apply fresh_mk.
  - exact Hnd.
  - exact HC.
  - intros m. apply HA, Hnd.
  - destruct (qT _ Q) as [L HL]. exists (L ++ [n]).
    apply (Topo_run L n [] s0 s2 t r ch); [by apply fresh_topo|exact Hr|].
    intros y _ Hy. by apply elem_of_nil in Hy.
  - intros m Hm. by destruct (HH m Hm).
Qed.

Print Assumptions Quiescent_add_memo.

Print Assumptions Quiescent_add_signal.
