(* ReactivePure/Propagate.v -- end-to-end consistency of a whole write on the pure-callback model.
   [Quiescent s] is what holds between writes.  [dfs_establishes_inv]: after storing a new value in a signal of
   a quiescent state, the depth-first pass followed by mark_dependents_dirty establishes the loop invariant
   [Inv] of LoopInv.v (no OutOfFuel, no Cyclic).  [write_consistent]: a write that is free of late reads
   ([LRF], finding F1) leads from a quiescent state to a quiescent state, hence [writes_consistent] for any
   history of writes. *)
From stdpp Require Import gmap list relations.
Require Import ZArith Lia.
From Syc.ReactivePure Require Import Pure Loop LoopInv Ops Spec Step Extra Dfs DfsFacts.
Open Scope Z_scope.

(* ---------- acyclicity: a topological listing of the live nodes ---------- *)
Definition Topo (L : list id) (s : st) : Prop :=
  NoDup L /\ (forall x, x ∈ L <-> is_Some (s !! x)) /\ (forall m d, d ∈ depsOf s m -> before L d m).
Definition Acyclic (s : st) : Prop := exists L, Topo L s.

Record Quiescent (s : st) : Prop := {
  qM : forall n, mkOf s n = MNone;                                    (* all marks reset *)
  qD : forall n, dirtyOf s n = false;                                 (* nothing dirty *)
  qC : forall n m, m ∈ dependentsOf s n <-> n ∈ depsOf s m;           (* edges symmetric *)
  qA : forall n, cons s n;                                            (* every computation consistent *)
  qT : Acyclic s;                                                     (* dependency graph acyclic *)
  qH : forall n, cbOf s n = None -> depsOf s n = [];                  (* signals have no dependencies *)
}.

(* sanity: [Topo] really is acyclicity -- no node reaches itself through one or more dependency edges,
   and the dependency relation is well-founded *)
Definition dep_edge (s : st) (d m : id) : Prop := d ∈ depsOf s m.

Lemma Topo_tc L s a b : Topo L s -> tc (dep_edge s) a b -> before L a b.
Proof.
  intros (Hnd & _ & He) H. induction H as [a b H|a b c H _ IH].
  - by apply He.
  - eapply before_trans; [done|by apply He|done].
Qed.

Lemma Acyclic_no_cycle s n : Acyclic s -> ~ tc (dep_edge s) n n.
Proof. intros [L HL] H. eapply before_irrefl; [apply HL|]. eapply Topo_tc; eauto. Qed.

Lemma Acyclic_wf s : Acyclic s -> wf (dep_edge s).
Proof.
  intros [L (Hnd & _ & He)].
  assert (Hidx : forall k m j, L !! j = Some m -> (j < k)%nat -> Acc (dep_edge s) m).
  { induction k as [|k IH]; intros m j Hj Hlt; [lia|].
    constructor. intros d Hd. destruct (He _ _ Hd) as (i & j' & Hi & Hj' & Hij).
    assert (j' = j) by (eapply NoDup_lookup; eauto). subst j'.
    apply (IH d i Hi). lia. }
  intros m. constructor. intros d Hd. destruct (He _ _ Hd) as (i & j & Hi & Hj & Hij).
  apply (Hidx (S i) d i Hi). lia.
Qed.

Lemma Quiescent_edges_live s n m : Quiescent s -> m ∈ dependentsOf s n -> is_Some (s !! n) /\ is_Some (s !! m).
Proof.
  intros Q H. split.
  - unfold dependentsOf in H. destruct (s !! n); [eauto|]. by apply elem_of_nil in H.
  - apply (qC _ Q) in H. unfold depsOf in H. destruct (s !! m); [eauto|]. by apply elem_of_nil in H.
Qed.

Lemma Topo_length L (s:st) : NoDup L -> (forall x, x ∈ L <-> is_Some (s !! x)) -> length L = size s.
Proof.
  intros Hnd Hel. rewrite <- (size_dom (D:=gset nat) s). unfold size at 1, set_size. cbn.
  apply Permutation_length. apply NoDup_Permutation; [done|apply NoDup_elements|].
  intros x. rewrite elem_of_elements, elem_of_dom. apply Hel.
Qed.

(* ---------- [before] and list surgery ---------- *)
Lemma elem_of_rev {A} (l : list A) x : x ∈ rev l <-> x ∈ l.
Proof. rewrite rev_reverse. apply elem_of_reverse. Qed.

Lemma before_split l a b : before l a b <-> exists l1 l2 l3, l = l1 ++ a :: l2 ++ b :: l3.
Proof.
  split.
  - intros (i & j & Hi & Hj & Hij).
    exists (take i l), (take (j - S i) (drop (S i) l)), (drop (S (j - S i)) (drop (S i) l)).
    rewrite <- (take_drop_middle l i a Hi) at 1. f_equal. f_equal.
    symmetry. apply take_drop_middle. rewrite lookup_drop. by replace (S i + (j - S i))%nat with j by lia.
  - intros (l1 & l2 & l3 & ->). exists (length l1), (length l1 + S (length l2))%nat. split; [|split; [|lia]].
    + by apply list_lookup_middle.
    + rewrite app_comm_cons, app_assoc. apply list_lookup_middle. rewrite app_length. cbn. lia.
Qed.

Lemma before_filter (P : id -> Prop) {Hdec : forall x, Decision (P x)} l a b :
  before l a b -> P a -> P b -> before (filter P l) a b.
Proof.
  intros H Ha Hb. apply before_split in H as (l1 & l2 & l3 & ->). apply before_split.
  exists (filter P l1), (filter P l2), (filter P l3).
  rewrite filter_app, filter_cons_True by done. rewrite filter_app, filter_cons_True by done. done.
Qed.

Lemma before_app_r l l' a b : before l' a b -> before (l ++ l') a b.
Proof.
  intros H. apply before_split in H as (l1 & l2 & l3 & ->). apply before_split.
  exists (l ++ l1), l2, l3. by rewrite <- app_assoc.
Qed.

(* ---------- transferring [cons] between states that agree on what it mentions ---------- *)
Lemma cons_transfer (s s' : st) n :
  (is_Some (s' !! n) -> is_Some (s !! n)) ->
  cbOf s' n = cbOf s n -> depsOf s' n = depsOf s n -> valOf s' n = valOf s n ->
  (forall d, d ∈ depsOf s n -> values s' d = values s d) ->
  cons s n -> cons s' n.
Proof.
  intros Hdom Hcb Hdeps Hval Hv. unfold cons, cbOf, depsOf, valOf in *.
  destruct (s' !! n) as [nd'|] eqn:E'; [|done].
  destruct (Hdom ltac:(eauto)) as [nd E]. rewrite E in *. rewrite Hcb.
  destruct (cb nd) as [[f k]|]; [|done].
  intros (rho & v & r & Hag & Hev & Hagr). exists rho, v, r. rewrite Hdeps, Hval.
  split; [|done]. intros d Hd. rewrite Hv by done. by apply Hag.
Qed.

Lemma eval_reads_live f rho v t r x : eval f rho = Some (v, t, r) -> x ∈ r -> is_Some (rho x).
Proof.
  revert v t r. induction f as [z|tr y|op a IHa b IHb|c IHc a IHa b IHb]; intros v t r Hev Hxr; cbn in Hev.
  - inversion Hev; subst. by apply elem_of_nil in Hxr.
  - destruct (rho y) eqn:Ey; [|discriminate]. inversion Hev; subst.
    apply elem_of_list_singleton in Hxr as ->. rewrite Ey; eauto.
  - destruct (eval a rho) as [[[va ta] ra]|]; [|discriminate].
    destruct (eval b rho) as [[[vb tb] rb]|]; [|discriminate]. inversion Hev; subst.
    apply elem_of_app in Hxr as [?|?]; eauto.
  - destruct (eval c rho) as [[[vc tc] rc]|]; [|discriminate].
    destruct (Z.eqb vc 0).
    + destruct (eval b rho) as [[[vb tb] rb]|]; [|discriminate]. inversion Hev; subst.
      apply elem_of_app in Hxr as [?|?]; eauto.
    + destruct (eval a rho) as [[[va ta] ra]|]; [|discriminate]. inversion Hev; subst.
      apply elem_of_app in Hxr as [?|?]; eauto.
Qed.

(* ---------- storing a value in a signal ---------- *)
Section store.
  Context (s : st) (x : id) (sig : node) (v : Z).
  Context (Hx : s !! x = Some sig).
  Let s1 : st := <[x := set_val v sig]> s.

  Lemma store_dom n : is_Some (s1 !! n) <-> is_Some (s !! n).
  Proof.
    unfold s1. destruct (decide (n = x)) as [->|Hne].
    - rewrite lookup_insert, Hx. split; eauto.
    - by rewrite lookup_insert_ne.
  Qed.
  Lemma store_proj {A} (p : node -> A) dflt n :
    (forall z nd, p (set_val z nd) = p nd) -> projOf p dflt s1 n = projOf p dflt s n.
  Proof.
    intros Hp. unfold projOf, s1. destruct (decide (n = x)) as [->|Hne].
    - by rewrite lookup_insert, Hx, Hp.
    - by rewrite lookup_insert_ne.
  Qed.
  Lemma store_values n : n ≠ x -> values s1 n = values s n.
  Proof. intros Hne. unfold values, s1. by rewrite lookup_insert_ne. Qed.
  Lemma store_val n : n ≠ x -> valOf s1 n = valOf s n.
  Proof. intros Hne. unfold valOf, s1. by rewrite lookup_insert_ne. Qed.
  Lemma store_size : size s1 = size s.
  Proof.
    rewrite <- !(size_dom (D:=gset nat)). f_equal. unfold s1. rewrite dom_insert_L.
    assert (x ∈ dom s) by (apply elem_of_dom; rewrite Hx; eauto). set_solver.
  Qed.
End store.

Lemma rtc_edge_ext (s' s : st) a b :
  (forall n, dependentsOf s' n = dependentsOf s n) -> rtc (edge s') a b -> rtc (edge s) a b.
Proof.
  intros He H. induction H as [|a b c Hab _ IH]; [apply rtc_refl|].
  apply (rtc_l _ a b c); [|exact IH]. unfold edge in *. by rewrite <- He.
Qed.

(* ---------- the depth-first pass establishes the loop invariant ---------- *)
Theorem dfs_establishes_inv (s : st) x sig v :
  Quiescent s -> s !! x = Some sig -> cb sig = None ->
  let s1 := <[x := set_val v sig]> s in
  exists s2 buf,
    dfs (S (size s1)) x (s1, []) = Some (Some (s2, buf)) /\
    erase s2 = erase s1 /\
    (forall n, mkOf s2 n = if decide (n ∈ buf) then MPerm else MNone) /\
    x ∈ buf /\ (forall n, n ∈ buf -> rtc (edge s) x n) /\
    (exists buf', buf = buf' ++ [x]) /\
    Inv (rev buf) (mark_dependents_dirty x s2).
Proof.
  intros Q Hx Hcb s1. destruct (qT _ Q) as (L & HLnd & HLel & HLe).
  assert (Hdpt1 : forall n, dependentsOf s1 n = dependentsOf s n).
  { intros n. rewrite !dependentsOf_proj. by apply (store_proj s x sig v Hx). }
  assert (Hdeps1 : forall n, depsOf s1 n = depsOf s n).
  { intros n. rewrite !depsOf_proj. by apply (store_proj s x sig v Hx). }
  assert (Hcb1 : forall n, cbOf s1 n = cbOf s n).
  { intros n. rewrite !cbOf_proj. by apply (store_proj s x sig v Hx). }
  assert (Hdirty1 : forall n, dirtyOf s1 n = dirtyOf s n).
  { intros n. rewrite !dirtyOf_proj. by apply (store_proj s x sig v Hx). }
  assert (Hmk1 : forall n, mkOf s1 n = MNone).
  { intros n. rewrite mkOf_proj, (store_proj s x sig v Hx) by done. apply (qM _ Q). }
  assert (HxL : x ∈ L) by (apply HLel; rewrite Hx; eauto).
  destruct (proj1 (elem_of_list_lookup _ _) HxL) as [i Hi].
  assert (Hlen : length L = size s1).
  { unfold s1. rewrite (store_size s x sig v Hx). by apply Topo_length. }
  (* run the depth-first pass *)
  destruct (dfs_ok L s1 HLnd) with (g := S (size s1)) (x := x) (s := s1) (buf := @nil nat) (i := i)
    as (s2 & buf & Hdfs & [_ Hperm Hbnd Hcl] & Htemp & Hxbuf & Hreach & Hlast).
  { intros n Hn. apply (store_dom s x sig v Hx). by apply HLel. }
  { intros n m Hm. rewrite Hdpt1 in Hm. apply HLe. by apply (qC _ Q). }
  { split; [by apply same_graph_erase| |apply NoDup_nil_2|].
    - intros n. rewrite Hmk1. split; [discriminate|]. intros H; by apply elem_of_nil in H.
    - intros n m H; by apply elem_of_nil in H. }
  { done. }
  { lia. }
  { intros t Ht. rewrite Hmk1 in Ht. discriminate. }
  cbn [app] in *.
  assert (Her : erase s2 = erase s1) by (eapply dfs_erase; exact Hdfs).
  exists s2, buf. split; [exact Hdfs|]. split; [exact Her|].
  (* marks after the pass *)
  assert (Hmk2 : forall n, mkOf s2 n = if decide (n ∈ buf) then MPerm else MNone).
  { intros n. destruct (decide (n ∈ buf)) as [Hin|Hnin]; [by apply Hperm|].
    destruct (mkOf s2 n) eqn:E; [done| |].
    - apply Htemp in E. rewrite Hmk1 in E. discriminate.
    - apply Hperm in E. contradiction. }
  split; [exact Hmk2|]. split; [exact Hxbuf|]. split.
  { intros n Hn. apply (rtc_edge_ext s1 s); [exact Hdpt1|]. by apply Hreach. }
  split; [apply Hlast, Hmk1|].
  (* the invariant *)
  set (s3 := mark_dependents_dirty x s2).
  assert (Hdeps3 : forall n, depsOf s3 n = depsOf s n).
  { intros n. unfold s3. rewrite depsOf_proj, mdd_same by done. rewrite <- depsOf_proj.
    by rewrite (erase_deps _ _ n Her). }
  assert (Hdpt2 : forall n, dependentsOf s2 n = dependentsOf s n).
  { intros n. by rewrite (erase_dependents _ _ n Her). }
  assert (Hdpt3 : forall n, dependentsOf s3 n = dependentsOf s n).
  { intros n. unfold s3. rewrite dependentsOf_proj, mdd_same by done. rewrite <- dependentsOf_proj. apply Hdpt2. }
  assert (Hcb3 : forall n, cbOf s3 n = cbOf s n).
  { intros n. unfold s3. rewrite cbOf_proj, mdd_same by done. rewrite <- cbOf_proj.
    by rewrite (erase_cb _ _ n Her). }
  assert (Hdom3 : forall n, is_Some (s3 !! n) <-> is_Some (s !! n)).
  { intros n. unfold s3. rewrite mdd_dom, (erase_dom _ _ n Her). apply (store_dom s x sig v Hx). }
  assert (Hval3 : forall n, n ≠ x -> valOf s3 n = valOf s n).
  { intros n Hne. unfold s3. rewrite valOf_proj, mdd_same by done. rewrite <- valOf_proj.
    rewrite (erase_val _ _ n Her). by apply store_val. }
  assert (Hvalues3 : forall n, n ≠ x -> values s3 n = values s n).
  { intros n Hne. rewrite !values_valOf, (Hval3 n Hne). pose proof (Hdom3 n) as Hd.
    destruct (s3 !! n), (s !! n); try done.
    - exfalso. destruct Hd as [Hd _]. destruct Hd; eauto; discriminate.
    - exfalso. destruct Hd as [_ Hd]. destruct Hd; eauto; discriminate. }
  assert (Hdirty3 : forall n, dirtyOf s3 n = true <-> n ∈ dependentsOf s x).
  { intros n. unfold s3. rewrite mdd_dirty, (erase_dirty _ _ n Her), Hdirty1, (qD _ Q), Hdpt2. cbn.
    rewrite bool_decide_eq_true. split; [tauto|]. intros H. split; [done|].
    apply (erase_dom _ _ n Her), (store_dom s x sig v Hx). by destruct (Quiescent_edges_live _ _ _ Q H). }
  assert (Hxcb : cbOf s x = None) by (unfold cbOf; by rewrite Hx).
  split.
  - (* A *)
    intros n Hn. destruct (decide (n = x)) as [->|Hne].
    + unfold cons. pose proof (Hcb3 x) as Hc. rewrite Hxcb in Hc. unfold cbOf in Hc.
      destruct (s3 !! x) as [nd3|]; [|done]. by rewrite Hc.
    + apply (cons_transfer s); [apply Hdom3|apply Hcb3|apply Hdeps3|by apply Hval3| |apply (qA _ Q)].
      intros d Hd. apply Hvalues3. intros ->.
      assert (Ht : dirtyOf s3 n = true) by (apply Hdirty3; by apply (qC _ Q)). congruence.
  - (* B *)
    intros n Hn. apply Hdirty3 in Hn. rewrite <- Hdpt1 in Hn.
    rewrite elem_of_rev. by destruct (before_elem _ _ _ (Hcl x n Hxbuf Hn)).
  - (* C *)
    intros n m. rewrite Hdpt3, Hdeps3. apply (qC _ Q).
  - (* DE *)
    intros m d Hd Hdr. rewrite Hdeps3 in Hd. rewrite elem_of_rev in Hdr.
    apply before_rev. apply Hcl; [done|]. rewrite Hdpt1. by apply (qC _ Q).
  - (* F *)
    rewrite rev_reverse, reverse_Permutation. exact Hbnd.
  - (* H *)
    intros n Hn. rewrite Hcb3 in Hn. rewrite Hdeps3. split; [|by apply (qH _ Q)].
    destruct (dirtyOf s3 n) eqn:E; [|done]. apply Hdirty3, (qC _ Q) in E.
    rewrite (qH _ Q n Hn) in E. by apply elem_of_nil in E.
Qed.

(* ---------- what the loop does to marks, callbacks, signal values ---------- *)
Lemma link_mk n ts (s:st) x : mkOf (link n ts s) x = mkOf s x.
Proof. unfold link. rewrite !mkOf_proj, projOf_alter_same, projOf_foldr_same; done. Qed.
Lemma unlink_mk n ds (s:st) x : mkOf (unlink n ds s) x = mkOf s x.
Proof. unfold unlink. rewrite !mkOf_proj, projOf_alter_same, projOf_foldr_same; done. Qed.
Lemma mdd_mk n (s:st) x : mkOf (mark_dependents_dirty n s) x = mkOf s x.
Proof. rewrite !mkOf_proj. by apply mdd_same. Qed.

Lemma run_node_mk n (s s2:st) ev : run_node n s = Some (s2, ev) -> forall x, mkOf s2 x = mkOf s x.
Proof.
  unfold run_node. intros H x.
  destruct (s !! n) as [nd|]; [|discriminate].
  destruct (cb nd) as [[f k]|]; [|discriminate].
  destruct (eval f _) as [[[v t] r]|]; [|discriminate].
  destruct (bool_decide (n ∈ r)); [discriminate|].
  destruct (negb (eqk k v (val nd))); inversion H; subst; clear H.
  - rewrite mdd_mk, mkOf_proj, projOf_alter_same by done. rewrite <- mkOf_proj. by rewrite link_mk, unlink_mk.
  - rewrite mkOf_proj, projOf_alter_same by done. rewrite <- mkOf_proj. by rewrite link_mk, unlink_mk.
Qed.

Lemma loop_marks order : forall (s s':st) tr, loop order s = Some (s', tr) ->
  forall x, mkOf s' x = if decide (x ∈ order) then MNone else mkOf s x.
Proof.
  induction order as [|n rest IH]; intros s s' tr Hl x; cbn in Hl.
  - inversion Hl; subst. rewrite decide_False; [done|]. apply not_elem_of_nil.
  - assert (Hgen : forall s2 s3 tr', loop rest s2 = Some (s3, tr') ->
              (forall y, mkOf s2 y = if decide (y = n) then MNone else mkOf s y) ->
              mkOf s3 x = if decide (x ∈ n :: rest) then MNone else mkOf s x).
    { intros s2 s3 tr' Hl2 H2. rewrite (IH _ _ _ Hl2 x), H2.
      destruct (decide (x ∈ rest)) as [Hin|Hnin].
      - rewrite decide_True; [done|]. by apply elem_of_list_further.
      - destruct (decide (x = n)) as [->|Hne].
        + rewrite decide_True; [done|]. apply elem_of_list_here.
        + rewrite decide_False; [done|]. intros Hc. apply elem_of_cons in Hc as [?|?]; contradiction. }
    destruct (s !! n) as [nd|] eqn:Hn.
    + assert (H1 : forall y, mkOf (alter (set_mk MNone) n s) y = if decide (y = n) then MNone else mkOf s y).
      { intros y. rewrite mkOf_alter, Hn. done. }
      destruct (dirty nd).
      * destruct (run_node n _) as [[s2 ev]|] eqn:Hr; [|discriminate].
        destruct (loop rest s2) as [[s3 tr']|] eqn:Hl2; [|discriminate]. inversion Hl; subst.
        eapply Hgen; [exact Hl2|]. intros y. rewrite (run_node_mk _ _ _ _ Hr). apply H1.
      * destruct (loop rest _) as [[s3 tr']|] eqn:Hl2; [|discriminate]. inversion Hl; subst.
        eapply Hgen; [exact Hl2|exact H1].
    + destruct (loop rest s) as [[s3 tr']|] eqn:Hl2; [|discriminate]. inversion Hl; subst.
      eapply Hgen; [exact Hl2|]. intros y. destruct (decide (y = n)) as [->|?]; [|done].
      unfold mkOf. by rewrite Hn.
Qed.

(* callbacks and liveness never change; nodes without a callback (signals) keep their value *)
Lemma loop_frame order : forall (s s':st) tr, loop order s = Some (s', tr) ->
  (forall x, cbOf s' x = cbOf s x) /\ (forall x, is_Some (s' !! x) <-> is_Some (s !! x)) /\
  (forall x, cbOf s x = None -> valOf s' x = valOf s x).
Proof.
  induction order as [|n rest IH]; intros s s' tr Hl; cbn in Hl.
  - by inversion Hl; subst.
  - assert (Hmk : (forall x, cbOf (alter (set_mk MNone) n s) x = cbOf s x) /\
                  (forall x, is_Some (alter (set_mk MNone) n s !! x) <-> is_Some (s !! x)) /\
                  (forall x, valOf (alter (set_mk MNone) n s) x = valOf s x)).
    { split; [|split]; intros x.
      - rewrite !cbOf_proj. by apply projOf_alter_same.
      - apply alter_dom.
      - rewrite !valOf_proj. by apply projOf_alter_same. }
    destruct Hmk as (Mcb & Mdom & Mval).
    destruct (s !! n) as [nd|] eqn:Hn.
    + destruct (dirty nd).
      * destruct (run_node n _) as [[s2 [[t r] ch]]|] eqn:Hr; [|discriminate].
        destruct (loop rest s2) as [[s3 tr']|] eqn:Hl2; [|discriminate]. inversion Hl; subst.
        destruct (IH _ _ _ Hl2) as (Icb & Idom & Ival).
        destruct (run_node_spec _ _ _ _ _ _ Hr) as
          (nd1 & f & k & v & Hn1 & Hcb1 & _ & _ & _ & Scb & Sval & Sdom & _).
        split; [|split]; intros x.
        -- by rewrite Icb, Scb, Mcb.
        -- by rewrite Idom, Sdom, Mdom.
        -- intros Hx. rewrite Ival by (by rewrite Scb, Mcb). rewrite Sval, <- Mval.
           destruct (decide (x = n)) as [->|?]; [|done].
           exfalso. rewrite <- Mcb in Hx. unfold cbOf in Hx. rewrite Hn1, Hcb1 in Hx. discriminate.
      * destruct (loop rest _) as [[s3 tr']|] eqn:Hl2; [|discriminate]. inversion Hl; subst.
        destruct (IH _ _ _ Hl2) as (Icb & Idom & Ival).
        split; [|split]; intros x.
        -- by rewrite Icb, Mcb.
        -- by rewrite Idom, Mdom.
        -- intros Hx. rewrite Ival by (by rewrite Mcb). apply Mval.
    + destruct (loop rest s) as [[s3 tr']|] eqn:Hl2; [|discriminate]. inversion Hl; subst.
      exact (IH _ _ _ Hl2).
Qed.

(* ---------- the loop preserves a topological listing, given late-read-freedom ---------- *)
Lemma Topo_ext L (s s':st) :
  (forall x, is_Some (s' !! x) <-> is_Some (s !! x)) -> (forall x, depsOf s' x = depsOf s x) ->
  Topo L s -> Topo L s'.
Proof.
  intros Hdom Hdeps (Hnd & Hel & He). split; [done|]. split.
  - intros x. rewrite Hdom. apply Hel.
  - intros m d. rewrite Hdeps. apply He.
Qed.

Lemma Topo_run pre n rest (s s2:st) t r ch :
  Topo (pre ++ n :: rest) s -> run_node n s = Some (s2, (t, r, ch)) ->
  (forall x, x ∈ t -> x ∉ rest) -> Topo (pre ++ n :: rest) s2.
Proof.
  intros (Hnd & Hel & He) Hrun Hlrf.
  destruct (run_node_spec _ _ _ _ _ _ Hrun) as
    (nd & f & k & v & Hn & Hcb & Hev & Hnr & _ & _ & _ & Sdom & Sdeps & _).
  split; [done|]. split.
  - intros x. rewrite Sdom. apply Hel.
  - intros m d. rewrite Sdeps. destruct (decide (m = n)) as [->|Hne]; [|apply He].
    intros Hd.
    assert (Hdr : d ∈ r) by (eapply eval_tracked_sub; eauto).
    assert (Hdn : d ≠ n) by (intros ->; contradiction).
    assert (Hdl : is_Some (s !! d)).
    { pose proof (eval_reads_live _ _ _ _ _ _ Hev Hdr) as [z Hz]. unfold values in Hz.
      destruct (s !! d); [eauto|discriminate]. }
    apply Hel in Hdl. apply elem_of_app in Hdl as [Hdl|Hdl].
    + apply before_app_r_notin; [done|]. apply elem_of_list_here.
    + exfalso. apply elem_of_cons in Hdl as [?|Hdl]; [done|]. by apply (Hlrf d).
Qed.

Lemma loop_topo rest : forall pre (s s':st) tr,
  loop rest s = Some (s', tr) -> LRF rest tr -> Topo (pre ++ rest) s -> Topo (pre ++ rest) s'.
Proof.
  induction rest as [|n rest IH]; intros pre s s' tr Hl HL HT; cbn in Hl.
  - by inversion Hl; subst.
  - assert (HT1 : Topo (pre ++ n :: rest) (alter (set_mk MNone) n s)).
    { eapply Topo_ext; [| |exact HT].
      - intros x. apply alter_dom.
      - intros x. rewrite !depsOf_proj. by apply projOf_alter_same. }
    assert (Hre : pre ++ n :: rest = (pre ++ [n]) ++ rest) by (by rewrite <- app_assoc).
    destruct (s !! n) as [nd|] eqn:Hn.
    + destruct (dirty nd).
      * destruct (run_node n _) as [[s2 [[t r] ch]]|] eqn:Hr; [|discriminate].
        destruct (loop rest s2) as [[s3 tr']|] eqn:Hl2; [|discriminate]. inversion Hl; subst.
        cbn in HL. destruct HL as [HL1 HL2].
        rewrite Hre. eapply IH; [exact Hl2|exact HL2|]. rewrite <- Hre.
        eapply Topo_run; eauto.
      * destruct (loop rest _) as [[s3 tr']|] eqn:Hl2; [|discriminate]. inversion Hl; subst.
        cbn in HL. destruct HL as [_ HL2].
        rewrite Hre. eapply IH; [exact Hl2|exact HL2|]. by rewrite <- Hre.
    + destruct (loop rest s) as [[s3 tr']|] eqn:Hl2; [|discriminate]. inversion Hl; subst.
      cbn in HL. destruct HL as [_ HL2].
      rewrite Hre. eapply IH; [exact Hl2|exact HL2|]. by rewrite <- Hre.
Qed.

(* ---------- a whole write ---------- *)
Lemma write_unfold (s : st) x v sig :
  s !! x = Some sig -> cb sig = None ->
  write x v s =
    let s1 := <[x := set_val v sig]> s in
    match dfs (S (size s1)) x (s1, []) with
    | None => PErr OutOfFuel
    | Some None => PErr Cyclic
    | Some (Some (s2, buf)) =>
        match loop (rev buf) (mark_dependents_dirty x s2) with
        | Some (s', tr) => POk s' (rev buf) tr
        | None => PErr Stuck
        end
    end.
Proof.
  intros Hx Hcb. unfold write, propagate, schedule. rewrite Hx, Hcb. cbn [fold_left]. unfold sched_step. cbv zeta.
  destruct (dfs _ x _) as [[[s2 buf]|]|]; done.
Qed.

(* on a quiescent state the depth-first pass neither exhausts its fuel nor reports a cycle *)
Theorem write_no_fuel_no_cycle (s : st) x v :
  Quiescent s -> write x v s <> PErr OutOfFuel /\ write x v s <> PErr Cyclic.
Proof.
  intros Q. unfold write.
  destruct (s !! x) as [sig|] eqn:Hx; [|split; discriminate].
  destruct (cb sig) as [?|] eqn:Hcb; [split; discriminate|].
  pose proof (write_unfold s x v sig Hx Hcb) as Hw. unfold write in Hw. rewrite Hx, Hcb in Hw. rewrite Hw.
  destruct (dfs_establishes_inv s x sig v Q Hx Hcb) as (s2 & buf & Hdfs & _). cbv zeta. rewrite Hdfs.
  destruct (loop _ _) as [[? ?]|]; split; discriminate.
Qed.

(* second half of a propagation: from the invariant back to a quiescent state *)
Lemma loop_restores_quiescent (s s3 s' : st) buf tr :
  Quiescent s ->
  (forall n, is_Some (s3 !! n) <-> is_Some (s !! n)) -> (forall n, depsOf s3 n = depsOf s n) ->
  (forall n, mkOf s3 n = if decide (n ∈ buf) then MPerm else MNone) ->
  Inv (rev buf) s3 -> loop (rev buf) s3 = Some (s', tr) -> LRF (rev buf) tr -> Quiescent s'.
Proof.
  intros Q Hdom3 Hdeps3 Hmk3 HI Hl HL.
  destruct (loop_inv _ _ _ _ Hl HI HL) as [HA HB HC _ _ HH].
  assert (Hnd : forall n, dirtyOf s' n = false).
  { intros n. destruct (dirtyOf s' n) eqn:E; [|done]. specialize (HB n E). by apply elem_of_nil in HB. }
  split.
  - (* marks *)
    intros n. rewrite (loop_marks _ _ _ _ Hl n). destruct (decide (n ∈ rev buf)) as [|Hnin]; [done|].
    rewrite Hmk3. rewrite decide_False; [done|]. by rewrite <- elem_of_rev.
  - exact Hnd.
  - exact HC.
  - intros n. apply HA, Hnd.
  - (* acyclic *)
    destruct (qT _ Q) as (L & HLnd & HLel & HLe).
    exists (filter (fun y => y ∉ buf) L ++ rev buf).
    apply (loop_topo _ _ _ _ _ Hl HL).
    assert (Hbuf_live : forall n, n ∈ buf -> is_Some (s !! n)).
    { intros n Hn. apply Hdom3.
      pose proof (Hmk3 n) as Hm. rewrite decide_True in Hm by done. unfold mkOf in Hm.
      destruct (s3 !! n); [eauto|discriminate]. }
    destruct HI as [_ _ IC IDE IF _].
    split; [|split].
    + apply NoDup_app. split; [by apply NoDup_filter|]. split; [|done].
      intros y Hy Hy'. apply elem_of_list_filter in Hy as [Hy _]. by rewrite elem_of_rev in Hy'.
    + intros y. rewrite Hdom3, elem_of_app, elem_of_list_filter, elem_of_rev, HLel. split.
      * intros [[_ ?]|?]; [done|by apply Hbuf_live].
      * intros Hy. destruct (decide (y ∈ buf)); [by right|by left].
    + intros m d Hd. destruct (decide (m ∈ buf)) as [Hm|Hm].
      * destruct (decide (d ∈ buf)) as [Hdb|Hdb].
        -- apply before_app_r. apply IDE; [done|by rewrite elem_of_rev].
        -- apply before_app_r_notin; [|by rewrite elem_of_rev].
           apply elem_of_list_filter. split; [done|]. apply HLel.
           rewrite Hdeps3 in Hd. apply (qC _ Q) in Hd. by destruct (Quiescent_edges_live _ _ _ Q Hd).
      * assert (Hdb : d ∉ buf).
        { intros Hdb. apply Hm. rewrite <- elem_of_rev.
          destruct (before_elem _ _ _ (IDE m d Hd ltac:(by rewrite elem_of_rev))) as [_ ?]. done. }
        apply before_app_l. apply before_filter; [|done|done]. apply HLe. by rewrite <- Hdeps3.
  - (* signals have no dependencies *)
    intros n Hn. by destruct (HH n Hn).
Qed.

Theorem write_consistent (s s' : st) x v order tr :
  Quiescent s -> write x v s = POk s' order tr -> LRF order tr -> Quiescent s'.
Proof.
  intros Q Hw HL. unfold write in Hw.
  destruct (s !! x) as [sig|] eqn:Hx; [|discriminate].
  destruct (cb sig) as [?|] eqn:Hcb; [discriminate|].
  pose proof (write_unfold s x v sig Hx Hcb) as Hw'. unfold write in Hw'. rewrite Hx, Hcb in Hw'.
  rewrite Hw' in Hw. clear Hw'. cbv zeta in Hw.
  destruct (dfs_establishes_inv s x sig v Q Hx Hcb) as (s2 & buf & Hdfs & Her & Hmk2 & Hxbuf & Hreach & _ & HI).
  cbv zeta in Hdfs. rewrite Hdfs in Hw.
  set (s1 := <[x := set_val v sig]> s) in *. set (s3 := mark_dependents_dirty x s2) in *.
  destruct (loop (rev buf) s3) as [[s4 tr4]|] eqn:Hl; [|discriminate].
  inversion Hw; subst s4 order tr4; clear Hw.
  apply (loop_restores_quiescent s s3 s' buf tr Q); try done.
  - intros n. unfold s3. rewrite mdd_dom, (erase_dom _ _ n Her). apply (store_dom s x sig v Hx).
  - intros n. unfold s3. rewrite depsOf_proj, mdd_same by done. rewrite <- depsOf_proj.
    rewrite (erase_deps _ _ n Her). rewrite !depsOf_proj. by apply (store_proj s x sig v Hx).
  - intros n. unfold s3. rewrite mdd_mk. apply Hmk2.
Qed.

(* what a write does to the signals: the written one holds the new value, the others are untouched;
   no node appears, disappears or changes its callback *)
Theorem write_signals (s s' : st) x v order tr :
  write x v s = POk s' order tr ->
  cbOf s x = None /\ valOf s' x = v /\
  (forall n, cbOf s' n = cbOf s n) /\ (forall n, is_Some (s' !! n) <-> is_Some (s !! n)) /\
  (forall n, cbOf s n = None -> n ≠ x -> valOf s' n = valOf s n).
Proof.
  intros Hw. unfold write in Hw.
  destruct (s !! x) as [sig|] eqn:Hx; [|discriminate].
  destruct (cb sig) as [?|] eqn:Hcb; [discriminate|].
  unfold propagate, schedule in Hw. cbn [fold_left] in Hw. unfold sched_step in Hw.
  set (s1 := <[x := set_val v sig]> s) in *.
  destruct (dfs _ x _) as [[[s2 buf]|]|] eqn:Hdfs; try discriminate.
  destruct (loop _ _) as [[s4 tr4]|] eqn:Hl; [|discriminate]. inversion Hw; subst s4 order tr4; clear Hw.
  destruct (loop_frame _ _ _ _ Hl) as (Lcb & Ldom & Lval).
  assert (Her : erase s2 = erase s1) by (eapply dfs_erase; exact Hdfs).
  assert (Hcb3 : forall n, cbOf (mark_dependents_dirty x s2) n = cbOf s n).
  { intros n. rewrite cbOf_proj, mdd_same by done. rewrite <- cbOf_proj. rewrite (erase_cb _ _ n Her).
    rewrite !cbOf_proj. by apply (store_proj s x sig v Hx). }
  assert (Hxcb : cbOf s x = None) by (unfold cbOf; by rewrite Hx).
  assert (Hval3 : forall n, valOf (mark_dependents_dirty x s2) n = valOf s1 n).
  { intros n. rewrite valOf_proj, mdd_same by done. rewrite <- valOf_proj. by rewrite (erase_val _ _ n Her). }
  split; [done|]. split.
  { rewrite Lval by (by rewrite Hcb3). rewrite Hval3. unfold valOf, s1. by rewrite lookup_insert. }
  split. { intros n. by rewrite Lcb, Hcb3. }
  split. { intros n. rewrite Ldom, mdd_dom, (erase_dom _ _ n Her). apply (store_dom s x sig v Hx). }
  intros n Hn Hne. rewrite Lval by (by rewrite Hcb3). rewrite Hval3. by apply store_val.
Qed.

(* ---------- any history of writes ---------- *)
Theorem writes_consistent : forall ws (s s' : st) log,
  Quiescent s -> writes ws s = Some (s', log) ->
  Forall (fun ot => LRF (fst ot) (snd ot)) log -> Quiescent s'.
Proof.
  induction ws as [|[x v] ws IH]; intros s s' log Q Hw HL; cbn in Hw.
  - by inversion Hw; subst.
  - destruct (write x v s) as [s1 order tr|] eqn:E; [|discriminate].
    destruct (writes ws s1) as [[s2 log']|] eqn:E2; [|discriminate]. inversion Hw; subst; clear Hw.
    apply Forall_cons in HL as [HL1 HL2]. cbn in HL1.
    eapply IH; [|exact E2|exact HL2]. eapply write_consistent; eauto.
Qed.


(* ---------- what [cons] means for computations that only read with tracking ---------- *)
Fixpoint tracked_only (e : expr) : bool :=
  match e with
  | Lit _ => true
  | Get t _ => t
  | Bin _ a b => tracked_only a && tracked_only b
  | Ite c a b => tracked_only c && tracked_only a && tracked_only b
  end.

Lemma tracked_only_reads e rho v t r : tracked_only e = true -> eval e rho = Some (v, t, r) -> t = r.
Proof.
  revert v t r. induction e as [z|tr y|op a IHa b IHb|c IHc a IHa b IHb]; intros v t r Ht He; cbn in *.
  - by inversion He.
  - destruct (rho y); [|discriminate]. inversion He; subst. done.
  - apply andb_true_iff in Ht as [Ha Hb].
    destruct (eval a rho) as [[[va ta] ra]|]; [|discriminate].
    destruct (eval b rho) as [[[vb tb] rb]|]; [|discriminate]. inversion He; subst.
    by rewrite (IHa _ _ _ Ha eq_refl), (IHb _ _ _ Hb eq_refl).
  - apply andb_true_iff in Ht as [Hca Hb]. apply andb_true_iff in Hca as [Hc Ha].
    destruct (eval c rho) as [[[vc tc] rc]|]; [|discriminate].
    destruct (Z.eqb vc 0).
    + destruct (eval b rho) as [[[vb tb] rb]|]; [|discriminate]. inversion He; subst.
      by rewrite (IHc _ _ _ Hc eq_refl), (IHb _ _ _ Hb eq_refl).
    + destruct (eval a rho) as [[[va ta] ra]|]; [|discriminate]. inversion He; subst.
      by rewrite (IHc _ _ _ Hc eq_refl), (IHa _ _ _ Ha eq_refl).
Qed.

(* a consistent computation without untracked reads holds (up to its equality, for selectors) exactly what
   its function yields from the current values, and its dependency list is exactly what that evaluation reads *)
Theorem cons_current (s : st) n nd f k :
  cons s n -> s !! n = Some nd -> cb nd = Some (f, k) -> tracked_only f = true ->
  exists v, eval f (values s) = Some (v, deps nd, deps nd) /\ agrees k v (val nd).
Proof.
  unfold cons. intros Hc Hn Hcb Ht. rewrite Hn, Hcb in Hc. destruct Hc as (rho & v & r & Hag & Hev & Hagr).
  pose proof (tracked_only_reads _ _ _ _ _ Ht Hev) as <-.
  exists v. split; [|done]. eapply eval_agree; [exact Hev|]. intros x Hx. by apply Hag.
Qed.

Corollary Quiescent_memo_current (s : st) n nd f :
  Quiescent s -> s !! n = Some nd -> cb nd = Some (f, KMemo) -> tracked_only f = true ->
  eval f (values s) = Some (val nd, deps nd, deps nd).
Proof.
  intros Q Hn Hcb Ht. destruct (cons_current s n nd f KMemo (qA _ Q n) Hn Hcb Ht) as (v & Hev & Hag).
  cbn in Hag. by subst v.
Qed.

Print Assumptions dfs_establishes_inv.
Print Assumptions write_no_fuel_no_cycle.
Print Assumptions write_consistent.
Print Assumptions write_signals.
Print Assumptions writes_consistent.
Print Assumptions Quiescent_memo_current.
