(* Prototype: pure-callback propagation model (loop part), to validate the C01 invariant. *)
From stdpp Require Import gmap list.
Require Import ZArith Lia.
Open Scope Z_scope.

Notation id := nat (only parsing).
Inductive expr :=
| Lit (z:Z) | Get (tracked:bool) (x:id) | Bin (op:Z->Z->Z) (a b:expr) | Ite (c a b:expr).

Definition valuation := id -> option Z.

(* eval returns value, tracked reads (in order), all reads *)
Fixpoint eval (e:expr) (rho:valuation) : option (Z * list id * list id) :=
  match e with
  | Lit z => Some (z, [], [])
  | Get t x => match rho x with Some v => Some (v, if t then [x] else [], [x]) | None => None end
  | Bin op a b =>
      match eval a rho with Some (va, ta, ra) =>
        match eval b rho with Some (vb, tb, rb) => Some (op va vb, ta++tb, ra++rb) | None => None end
      | None => None end
  | Ite c a b =>
      match eval c rho with Some (vc, tc, rc) =>
        if Z.eqb vc 0 then
          match eval b rho with Some (vb, tb, rb) => Some (vb, tc++tb, rc++rb) | None => None end
        else
          match eval a rho with Some (va, ta, ra) => Some (va, tc++ta, rc++ra) | None => None end
      | None => None end
  end.

Lemma eval_agree e : forall rho1 rho2 v t r,
  eval e rho1 = Some (v,t,r) -> (forall x, x ∈ r -> rho1 x = rho2 x) -> eval e rho2 = Some (v,t,r).
Proof.
  induction e as [z|tr x|op a IHa b IHb|c IHc a IHa b IHb]; intros rho1 rho2 v t r He Hag; cbn in *.
  - exact He.
  - destruct (rho1 x) eqn:E; [|discriminate]. inversion He; subst.
    rewrite <- Hag, E by set_solver. reflexivity.
  - destruct (eval a rho1) as [[[va ta] ra]|] eqn:Ea; [|discriminate].
    destruct (eval b rho1) as [[[vb tb] rb]|] eqn:Eb; [|discriminate].
    inversion He; subst.
    rewrite (IHa _ rho2 _ _ _ Ea), (IHb _ rho2 _ _ _ Eb); [reflexivity| |];
      intros x Hx; apply Hag; set_solver.
  - destruct (eval c rho1) as [[[vc tc] rc]|] eqn:Ec; [|discriminate].
    destruct (Z.eqb vc 0) eqn:Ez.
    + destruct (eval b rho1) as [[[vb tb] rb]|] eqn:Eb; [|discriminate]. inversion He; subst.
      rewrite (IHc _ rho2 _ _ _ Ec), Ez, (IHb _ rho2 _ _ _ Eb); [reflexivity| |];
        intros x Hx; apply Hag; set_solver.
    + destruct (eval a rho1) as [[[va ta] ra]|] eqn:Ea; [|discriminate]. inversion He; subst.
      rewrite (IHc _ rho2 _ _ _ Ec), Ez, (IHa _ rho2 _ _ _ Ea); [reflexivity| |];
        intros x Hx; apply Hag; set_solver.
Qed.

Lemma eval_tracked_sub e rho v t r : eval e rho = Some (v,t,r) -> t ⊆ r.
Proof.
  revert v t r; induction e as [z|tr x|op a IHa b IHb|c IHc a IHa b IHb]; intros v t r He; cbn in *.
  - inversion He; set_solver.
  - destruct (rho x); [|discriminate]. inversion He; subst. destruct tr; set_solver.
  - destruct (eval a rho) as [[[va ta] ra]|]; [|discriminate].
    destruct (eval b rho) as [[[vb tb] rb]|]; [|discriminate]. inversion He; subst.
    specialize (IHa _ _ _ eq_refl). specialize (IHb _ _ _ eq_refl). set_solver.
  - destruct (eval c rho) as [[[vc tc] rc]|]; [|discriminate]. specialize (IHc _ _ _ eq_refl).
    destruct (Z.eqb vc 0).
    + destruct (eval b rho) as [[[vb tb] rb]|]; [|discriminate]. inversion He; subst.
      specialize (IHb _ _ _ eq_refl). set_solver.
    + destruct (eval a rho) as [[[va ta] ra]|]; [|discriminate]. inversion He; subst.
      specialize (IHa _ _ _ eq_refl). set_solver.
Qed.
