From stdpp Require Import gmap list.
Require Import ZArith Lia.
From Syc.ReactivePure Require Import Pure Loop.
Open Scope Z_scope.

Definition depsOf (s:st) (n:id) : list id := match s !! n with Some nd => deps nd | None => [] end.
Definition dependentsOf (s:st) (n:id) : list id := match s !! n with Some nd => dependents nd | None => [] end.
Definition dirtyOf (s:st) (n:id) : bool := match s !! n with Some nd => dirty nd | None => false end.
Definition cbOf (s:st) (n:id) := match s !! n with Some nd => cb nd | None => None end.
Definition valOf (s:st) (n:id) : Z := match s !! n with Some nd => val nd | None => 0 end.

(* generic: foldr of alters with a function preserving a projection preserves it *)
Lemma foldr_alter_dom (g:node->node) ds (s:st) x :
  is_Some (foldr (fun d acc => alter g d acc) s ds !! x) <-> is_Some (s !! x).
Proof.
  induction ds as [|d ds IH]; cbn [foldr]; [tauto|].
  destruct (decide (d = x)) as [->|Hne].
  - rewrite lookup_alter. rewrite fmap_is_Some. exact IH.
  - rewrite lookup_alter_ne by done. exact IH.
Qed.

Lemma foldr_alter_proj {A} (p:node->A) (g:node->node) (Hg: forall nd, p (g nd) = p nd) ds (s:st) x :
  p <$> (foldr (fun d acc => alter g d acc) s ds !! x) = p <$> (s !! x).
Proof.
  induction ds as [|d ds IH]; cbn [foldr]; [done|].
  destruct (decide (d = x)) as [->|Hne].
  - rewrite lookup_alter. rewrite <- option_fmap_compose.
    rewrite <- IH. destruct (foldr _ s ds !! x); cbn; [|done]. by rewrite Hg.
  - rewrite lookup_alter_ne by done. exact IH.
Qed.

Lemma foldr_alter_notin (g:node->node) ds (s:st) x : x ∉ ds ->
  foldr (fun d acc => alter g d acc) s ds !! x = s !! x.
Proof.
  induction ds as [|d ds IH]; cbn [foldr]; [done|]. intros Hx.
  rewrite lookup_alter_ne by set_solver. apply IH. set_solver.
Qed.

(* membership characterisation of dependents after a fold of filter-alters *)
Lemma foldr_filter_dependents n ds (s:st) x nd :
  foldr (fun d acc => alter (set_dependents (filter (fun y => y ≠ n))) d acc) s ds !! x = Some nd ->
  exists nd0, s !! x = Some nd0 /\
    (forall m, m ∈ dependents nd <-> m ∈ dependents nd0 /\ (x ∈ ds -> m ≠ n)) /\
    deps nd = deps nd0 /\ val nd = val nd0 /\ cb nd = cb nd0 /\ dirty nd = dirty nd0 /\ mk nd = mk nd0.
Proof.
  revert nd; induction ds as [|d ds IH]; cbn [foldr]; intros nd H.
  - exists nd. split; [done|]. split; [|done]. intros m; split; [intros; split; [done|set_solver]|tauto].
  - destruct (decide (d = x)) as [->|Hne].
    + rewrite lookup_alter in H. destruct (foldr _ s ds !! x) as [nd1|] eqn:E; [|discriminate].
      cbn in H. inversion H; subst; clear H.
      destruct (IH _ eq_refl) as (nd0 & H0 & Hm & Hrest). exists nd0. split; [done|]. split; [|done].
      intros m; cbn. rewrite elem_of_list_filter, Hm. split.
      * intros (Hn & Hin & _). split; [done|]. intros _. done.
      * intros (Hin & Himp). split; [apply Himp; set_solver|]. split; [done|]. intros ?; apply Himp; set_solver.
    + rewrite lookup_alter_ne in H by done. destruct (IH _ H) as (nd0 & H0 & Hm & Hrest).
      exists nd0. split; [done|]. split; [|done]. intros m. rewrite Hm. set_solver.
Qed.

Lemma foldr_push_dependents n ts (s:st) x nd :
  foldr (fun d acc => alter (set_dependents (fun l => l ++ [n])) d acc) s ts !! x = Some nd ->
  exists nd0, s !! x = Some nd0 /\
    (forall m, m ∈ dependents nd <-> m ∈ dependents nd0 \/ (m = n /\ x ∈ ts)) /\
    deps nd = deps nd0 /\ val nd = val nd0 /\ cb nd = cb nd0 /\ dirty nd = dirty nd0 /\ mk nd = mk nd0.
Proof.
  revert nd; induction ts as [|d ts IH]; cbn [foldr]; intros nd H.
  - exists nd. split; [done|]. split; [|done]. intros m. set_solver.
  - destruct (decide (d = x)) as [->|Hne].
    + rewrite lookup_alter in H. destruct (foldr _ s ts !! x) as [nd1|] eqn:E; [|discriminate].
      cbn in H. inversion H; subst; clear H.
      destruct (IH _ eq_refl) as (nd0 & H0 & Hm & Hrest). exists nd0. split; [done|]. split; [|done].
      intros m; cbn. rewrite elem_of_app, Hm. set_solver.
    + rewrite lookup_alter_ne in H by done. destruct (IH _ H) as (nd0 & H0 & Hm & Hrest).
      exists nd0. split; [done|]. split; [|done]. intros m. rewrite Hm. set_solver.
Qed.

(* ---------- characterisation of run_node ---------- *)
Lemma values_unlink n ds (s:st) x : values (unlink n ds s) x = values s x.
Proof.
  unfold values, unlink.
  destruct (decide (n = x)) as [->|Hne].
  - rewrite lookup_alter, <- option_fmap_compose.
    rewrite <- (foldr_alter_proj val (set_dependents (filter (fun y => y ≠ x))) (fun _ => eq_refl) ds s x).
    destruct (foldr _ s ds !! x); done.
  - rewrite lookup_alter_ne by done.
    apply (foldr_alter_proj val (set_dependents (filter (fun y => y ≠ n))) (fun _ => eq_refl)).
Qed.

Definition agrees (k:kind) (v old:Z) : Prop :=
  match k with KMemo => v = old | KSel _ => eqk k v old = true end.

Definition cons (s:st) (n:id) : Prop :=
  match s !! n with
  | Some nd =>
    match cb nd with
    | Some (f,k) => exists rho v r, (forall d, d ∈ deps nd -> rho d = values s d)
                                   /\ eval f rho = Some (v, deps nd, r) /\ agrees k v (val nd)
    | None => True end
  | None => True end.

Definition before (l:list id) (a b:id) : Prop :=
  exists i j, l !! i = Some a /\ l !! j = Some b /\ (i < j)%nat.

Record Inv (rest:list id) (s:st) : Prop := {
  iA : forall n, dirtyOf s n = false -> cons s n;
  iB : forall n, dirtyOf s n = true -> n ∈ rest;
  iC : forall n m, m ∈ dependentsOf s n <-> n ∈ depsOf s m;
  iDE : forall m d, d ∈ depsOf s m -> d ∈ rest -> before rest d m;
  iF : NoDup rest;
  iH : forall n, cbOf s n = None -> dirtyOf s n = false /\ depsOf s n = [];
}.

