(* Motion/Easing.v -- the libm-free easing functions of sycamore::easing, operation by operation
   (same association, same constants; powi(x, 2) = x * x). Definitions only. *)
From Coq Require Import ZArith Bool List.
From Flocq Require Import Core IEEE754.BinarySingleNaN.
From Syc Require Import Motion.F32.
Import ListNotations.
Open Scope Z_scope.

Module E.
Import F32.
Definition c (m e : Z) : t := cst m e.
Definition one := c 1 0. Definition two := c 2 0. Definition half := c 1 (-1).
Notation "x + y" := (add x y). Notation "x - y" := (sub x y).
Notation "x * y" := (mul x y). Notation "x / y" := (div x y).

Definition linear (x : t) : t := x.
Definition quad_in (x : t) := x * x.
Definition quad_out (x : t) := neg x * (x - two).
Definition quad_inout (x : t) :=
  if ltb x half then two * x * x else c (-2) 0 * x * x + c 4 0 * x - one.
Definition cubic_in (x : t) := x * x * x.
Definition cubic_out (x : t) := let f := x - one in f * f * f + one.
Definition cubic_inout (x : t) :=
  if ltb x half then c 4 0 * x * x * x else let f := two * x - two in half * f * f * f + one.
Definition quart_in (x : t) := x * x * x * x.
Definition quart_out (x : t) := let f := x - one in f * f * f * (one - x) + one.
Definition quart_inout (x : t) :=
  if ltb x half then c 8 0 * x * x * x * x else let f := x - one in c (-8) 0 * f * f * f * f + one.
Definition quint_in (x : t) := x * x * x * x * x.
Definition quint_out (x : t) := let f := x - one in f * f * f * f * f + one.
Definition quint_inout (x : t) :=
  if ltb x half then c 16 0 * x * x * x * x * x else let f := two * x - two in half * f * f * f * f * f + one.
Definition powi2 (x : t) := x * x.
Definition circ_in (x : t) := one - sqrt (one - powi2 x).
Definition circ_out (x : t) := sqrt (one - powi2 (powi2 (x - one))).
Definition circ_inout (x : t) :=
  if ltb x half then (one - sqrt (one - powi2 (two * x))) / two
  else (sqrt (one - powi2 (c (-2) 0 * x + two)) + one) / two.
Definition gravity := c 11 (-2).            (* 2.75 *)
Definition amplitude := c 121 (-4).         (* 7.5625 *)
Definition bounce_out (x : t) :=
  if ltb x (one / gravity) then amplitude * x * x
  else if ltb x (two / gravity) then let y := x - c 3 (-1) / gravity in amplitude * y * y + c 3 (-2)
  else if ltb x (c 5 (-1) / gravity) then let y := x - c 9 (-2) / gravity in amplitude * y * y + c 15 (-4)
  else let y := x - c 21 (-3) / gravity in amplitude * y * y + c 63 (-6).
Definition bounce_in (x : t) := one - bounce_out (one - x).
Definition bounce_inout (x : t) :=
  if ltb x half then (one - bounce_out (one - two * x)) / two
  else (one + bounce_out (c (-1) 0 + two * x)) / two.

Definition all : list (t -> t) :=
  [linear; quad_in; quad_out; quad_inout; cubic_in; cubic_out; cubic_inout; quart_in; quart_out; quart_inout;
   quint_in; quint_out; quint_inout; circ_in; circ_out; circ_inout; bounce_in; bounce_out; bounce_inout].
End E.
