(* Motion/EasingFinite.v -- the 19 libm-free easing functions are finite (neither infinite nor NaN) on every
   finite binary32 of [0,1], with an integer range for each. Proved through Flocq's correctness theorems by
   an interval calculus whose bounds are small integers: rounding to nearest is monotone and leaves small
   integers unchanged, so an exact result in [l, h] rounds into [l, h]. *)
From Coq Require Import ZArith Reals Lra Lia Bool List Psatz Floats.SpecFloat.
From Flocq Require Import Core IEEE754.BinarySingleNaN.
From Syc Require Import Motion.F32 Motion.Lerp Motion.Easing Motion.LerpFacts Motion.EasingFacts.
Import ListNotations.
Open Scope R_scope.

(* ---------- the interval predicate ---------- *)

(* [x] is finite and its value lies between [l] and [h] *)
Definition I (x : F32.t) (l h : R) : Prop := is_finite x = true /\ l <= B2R x <= h.

(* a bound that binary32 represents exactly, far below the overflow threshold *)
Definition fmt (r : R) : Prop := generic_format radix2 fexp32 r /\ Rabs r <= bpow radix2 100.

Lemma fmt_Z z : (Z.abs z <= 2^24)%Z -> fmt (IZR z).
Proof.
  intros H. split; [apply int_format; exact H|].
  rewrite <- abs_IZR. apply Rle_trans with (IZR (2^24)); [apply IZR_le; exact H|].
  rewrite pow24. pose proof big100. lra.
Qed.

(* dyadic bounds m * 2^e *)
Lemma fmt_dy z e : (Z.abs z < 2^24)%Z -> (-149 <= e <= 70)%Z -> fmt (IZR z * bpow radix2 e).
Proof.
  intros Hz He. split.
  - change fexp32 with (FLT_exp (-149) 24). apply generic_format_FLT.
    apply (FLT_spec radix2 (-149) 24 _ (Float radix2 z e)); [reflexivity|exact Hz|simpl; lia].
  - rewrite Rabs_mult, <- abs_IZR, (Rabs_pos_eq (bpow radix2 e)) by apply bpow_ge_0.
    apply Rle_trans with (bpow radix2 24 * bpow radix2 70).
    + apply Rmult_le_compat; [apply IZR_le; lia|apply bpow_ge_0| |apply bpow_le; lia].
      replace (bpow radix2 24) with (IZR (2^24)) by (simpl; lra). apply IZR_le. lia.
    + rewrite <- bpow_plus. apply bpow_le. lia.
Qed.

Lemma fmt_div2 z : (Z.abs z < 2^24)%Z -> fmt (IZR z / 2).
Proof. intros H. replace (IZR z / 2) with (IZR z * bpow radix2 (-1)) by (simpl; lra). apply fmt_dy; lia. Qed.
Lemma fmt_div4 z : (Z.abs z < 2^24)%Z -> fmt (IZR z / 4).
Proof. intros H. replace (IZR z / 4) with (IZR z * bpow radix2 (-2)) by (simpl; lra). apply fmt_dy; lia. Qed.

Lemma rnd_between l h r : fmt l -> fmt h -> l <= r <= h -> l <= rnd r <= h.
Proof.
  intros [Hl _] [Hh _] [H1 H2]. split.
  - rewrite <- (round_generic radix2 fexp32 ZnearestE l) by (try apply valid_rnd_N; exact Hl).
    apply rnd_le. exact H1.
  - rewrite <- (round_generic radix2 fexp32 ZnearestE h) by (try apply valid_rnd_N; exact Hh).
    apply rnd_le. exact H2.
Qed.

Lemma fmt_abs l h r : fmt l -> fmt h -> l <= r <= h -> Rabs r <= bpow radix2 100.
Proof.
  intros [_ Al] [_ Ah] [H1 H2]. apply Rabs_le. apply Rabs_le_inv in Al. apply Rabs_le_inv in Ah. lra.
Qed.

Lemma add_I x y l h : is_finite x = true -> is_finite y = true -> fmt l -> fmt h ->
  l <= B2R x + B2R y <= h -> I (F32.add x y) l h.
Proof.
  intros Fx Fy Hl Hh Hr. destruct (add_ok x y Fx Fy (fmt_abs _ _ _ Hl Hh Hr)) as [R F].
  split; [exact F|]. rewrite R. apply rnd_between; assumption.
Qed.

Lemma sub_I x y l h : is_finite x = true -> is_finite y = true -> fmt l -> fmt h ->
  l <= B2R x - B2R y <= h -> I (F32.sub x y) l h.
Proof.
  intros Fx Fy Hl Hh Hr. destruct (sub_ok x y Fx Fy (fmt_abs _ _ _ Hl Hh Hr)) as [R F].
  split; [exact F|]. rewrite R. apply rnd_between; assumption.
Qed.

Lemma mul_I x y l h : is_finite x = true -> is_finite y = true -> fmt l -> fmt h ->
  l <= B2R x * B2R y <= h -> I (F32.mul x y) l h.
Proof.
  intros Fx Fy Hl Hh Hr. destruct (mul_ok x y Fx Fy (fmt_abs _ _ _ Hl Hh Hr)) as [R F].
  split; [exact F|]. rewrite R. apply rnd_between; assumption.
Qed.

Lemma div_ok x y : is_finite x = true -> B2R y <> 0 -> Rabs (B2R x / B2R y) <= bpow radix2 100 ->
  B2R (F32.div x y) = rnd (B2R x / B2R y) /\ is_finite (F32.div x y) = true.
Proof.
  intros Fx Hy Hb. unfold F32.div. generalize (Bdiv_correct 24 128 Hprec32 Hmax32 mode_NE x y Hy).
  simpl round_mode. rewrite bound_ok by exact Hb. rewrite Fx. intros (H1 & H2 & _). split; assumption.
Qed.

Lemma div_I x y l h : is_finite x = true -> B2R y <> 0 -> fmt l -> fmt h ->
  l <= B2R x / B2R y <= h -> I (F32.div x y) l h.
Proof.
  intros Fx Hy Hl Hh Hr. destruct (div_ok x y Fx Hy (fmt_abs _ _ _ Hl Hh Hr)) as [R F].
  split; [exact F|]. rewrite R. apply rnd_between; assumption.
Qed.

Lemma neg_I x l h : is_finite x = true -> l <= - B2R x <= h -> I (F32.neg x) l h.
Proof.
  intros Fx Hr. unfold F32.neg. split; [rewrite is_finite_Bopp; exact Fx|]. rewrite B2R_Bopp. exact Hr.
Qed.

(* the square root of a finite value >= 0 (this includes -0) is finite; a finite value < 0 gives NaN *)
Lemma sqrt_ok x : is_finite x = true -> 0 <= B2R x ->
  B2R (F32.sqrt x) = rnd (sqrt (B2R x)) /\ is_finite (F32.sqrt x) = true.
Proof.
  intros Fx Hx. unfold F32.sqrt. destruct (Bsqrt_correct 24 128 Hprec32 Hmax32 mode_NE x) as (H1 & H2 & _).
  split; [exact H1|]. rewrite H2. destruct x as [s|s| |s m e B]; try discriminate; try reflexivity.
  destruct s; [|reflexivity]. exfalso. simpl in Hx.
  assert (Hn : F2R (Float radix2 (Z.neg m) e) < 0) by (apply F2R_lt_0; reflexivity). lra.
Qed.

Lemma sqrt_I x : is_finite x = true -> 0 <= B2R x <= 1 -> I (F32.sqrt x) 0 1.
Proof.
  intros Fx [H0 H1]. destruct (sqrt_ok x Fx H0) as [R F]. split; [exact F|]. rewrite R.
  apply rnd_between; [apply (fmt_Z 0); lia|apply (fmt_Z 1); lia|]. split; [apply sqrt_pos|].
  rewrite <- sqrt_1. apply sqrt_le_1_alt. exact H1.
Qed.

Lemma ltb_true x y : is_finite x = true -> is_finite y = true -> F32.ltb x y = true -> B2R x < B2R y.
Proof.
  intros Fx Fy. unfold F32.ltb. rewrite (Bltb_correct 24 128 x y Fx Fy).
  destruct (Rlt_bool_spec (B2R x) (B2R y)) as [H|H]; [intros _; exact H|discriminate].
Qed.

Lemma ltb_false x y : is_finite x = true -> is_finite y = true -> F32.ltb x y = false -> B2R y <= B2R x.
Proof.
  intros Fx Fy. unfold F32.ltb. rewrite (Bltb_correct 24 128 x y Fx Fy).
  destruct (Rlt_bool_spec (B2R x) (B2R y)) as [H|H]; [discriminate|intros _; exact H].
Qed.

(* ---------- constants: read off the computed significand and exponent ---------- *)

Lemma cst_val (k : F32.t) s m e : B2SF k = S754_finite s m e ->
  is_finite k = true /\ B2R k = F2R (Float radix2 (cond_Zopp s (Z.pos m)) e).
Proof.
  intros H. split.
  - rewrite <- is_finite_SF_B2SF, H. reflexivity.
  - rewrite <- SF2R_B2SF, H. reflexivity.
Qed.

Ltac cst_tac :=
  match goal with
  | |- is_finite ?k = true /\ B2R ?k = _ =>
      let F := fresh "F" in let R := fresh "R" in
      destruct (cst_val k _ _ _ ltac:(vm_compute; reflexivity)) as [F R];
      split; [exact F|rewrite R; unfold F2R; simpl; lra]
  end.

Lemma one_v : is_finite E.one = true /\ B2R E.one = 1. Proof. cst_tac. Qed.
Lemma two_v : is_finite E.two = true /\ B2R E.two = 2. Proof. cst_tac. Qed.
Lemma half_v : is_finite E.half = true /\ B2R E.half = 1/2. Proof. cst_tac. Qed.
Lemma m2_v : is_finite (E.c (-2) 0) = true /\ B2R (E.c (-2) 0) = -2. Proof. cst_tac. Qed.
Lemma m1_v : is_finite (E.c (-1) 0) = true /\ B2R (E.c (-1) 0) = -1. Proof. cst_tac. Qed.
Lemma c4_v : is_finite (E.c 4 0) = true /\ B2R (E.c 4 0) = 4. Proof. cst_tac. Qed.
Lemma c8_v : is_finite (E.c 8 0) = true /\ B2R (E.c 8 0) = 8. Proof. cst_tac. Qed.
Lemma m8_v : is_finite (E.c (-8) 0) = true /\ B2R (E.c (-8) 0) = -8. Proof. cst_tac. Qed.
Lemma c16_v : is_finite (E.c 16 0) = true /\ B2R (E.c 16 0) = 16. Proof. cst_tac. Qed.
Lemma amplitude_v : is_finite E.amplitude = true /\ B2R E.amplitude = 121/16. Proof. cst_tac. Qed.
Lemma gravity_v : is_finite E.gravity = true /\ B2R E.gravity = 11/4. Proof. cst_tac. Qed.
(* the thresholds and offsets of bounce_out: quotients by E.gravity, rounded *)
Lemma t1_v : is_finite (F32.div E.one E.gravity) = true /\ B2R (F32.div E.one E.gravity) = 12201612/33554432.
Proof. cst_tac. Qed.
Lemma t2_v : is_finite (F32.div E.two E.gravity) = true /\ B2R (F32.div E.two E.gravity) = 12201612/16777216.
Proof. cst_tac. Qed.
Lemma t3_v : is_finite (F32.div (E.c 5 (-1)) E.gravity) = true /\ B2R (F32.div (E.c 5 (-1)) E.gravity) = 15252015/16777216.
Proof. cst_tac. Qed.
Lemma o2_v : is_finite (F32.div (E.c 3 (-1)) E.gravity) = true /\ B2R (F32.div (E.c 3 (-1)) E.gravity) = 9151209/16777216.
Proof. cst_tac. Qed.
Lemma o3_v : is_finite (F32.div (E.c 9 (-2)) E.gravity) = true /\ B2R (F32.div (E.c 9 (-2)) E.gravity) = 13726813/16777216.
Proof. cst_tac. Qed.
Lemma o4_v : is_finite (F32.div (E.c 21 (-3)) E.gravity) = true /\ B2R (F32.div (E.c 21 (-3)) E.gravity) = 16014615/16777216.
Proof. cst_tac. Qed.
Lemma a2_v : is_finite (E.c 3 (-2)) = true /\ B2R (E.c 3 (-2)) = 3/4. Proof. cst_tac. Qed.
Lemma a3_v : is_finite (E.c 15 (-4)) = true /\ B2R (E.c 15 (-4)) = 15/16. Proof. cst_tac. Qed.
Lemma a4_v : is_finite (E.c 63 (-6)) = true /\ B2R (E.c 63 (-6)) = 63/64. Proof. cst_tac. Qed.

(* ---------- tactics ---------- *)

Ltac fin :=
  first [ assumption
        | exact (proj1 one_v) | exact (proj1 two_v) | exact (proj1 half_v) | exact (proj1 m2_v)
        | exact (proj1 m1_v) | exact (proj1 c4_v) | exact (proj1 c8_v) | exact (proj1 m8_v)
        | exact (proj1 c16_v) | exact (proj1 amplitude_v) | exact (proj1 gravity_v)
        | exact (proj1 t1_v) | exact (proj1 t2_v) | exact (proj1 t3_v)
        | exact (proj1 o2_v) | exact (proj1 o3_v) | exact (proj1 o4_v)
        | exact (proj1 a2_v) | exact (proj1 a3_v) | exact (proj1 a4_v) ].

Ltac vals :=
  rewrite ?(proj2 one_v), ?(proj2 two_v), ?(proj2 half_v), ?(proj2 m2_v), ?(proj2 m1_v), ?(proj2 c4_v),
    ?(proj2 c8_v), ?(proj2 m8_v), ?(proj2 c16_v), ?(proj2 amplitude_v), ?(proj2 gravity_v),
    ?(proj2 t1_v), ?(proj2 t2_v), ?(proj2 t3_v), ?(proj2 o2_v), ?(proj2 o3_v), ?(proj2 o4_v),
    ?(proj2 a2_v), ?(proj2 a3_v), ?(proj2 a4_v).

Ltac fmt_tac :=
  match goal with
  | |- fmt (IZR _ / 2) => apply fmt_div2; lia
  | |- fmt (IZR _ / 4) => apply fmt_div4; lia
  | |- fmt (IZR _) => apply fmt_Z; lia
  end.

Ltac side :=
  match goal with
  | |- is_finite _ = true => fin
  | |- fmt _ => fmt_tac
  | |- B2R _ <> 0 => vals; lra
  | |- _ <= _ <= _ => vals; first [lra | nra]
  end.

(* [bnd t l h as F R]: establish that the float term [t] is finite with value in [l, h] *)
Tactic Notation "bnd" constr(t) constr(l) constr(h) "as" ident(F) ident(R) :=
  assert (I t l h) as [F R]
    by (first [apply mul_I | apply add_I | apply sub_I | apply div_I | apply neg_I | apply sqrt_I]; side).

(* branch conditions [ltb x k] for a constant k *)
Ltac branch x k Hb :=
  destruct (F32.ltb x k) eqn:Hb;
  [apply ltb_true in Hb; [|fin|fin] | apply ltb_false in Hb; [|fin|fin]];
  revert Hb; vals; intros Hb.

(* ---------- the nineteen functions ---------- *)

Lemma linear_I x : I x 0 1 -> I (E.linear x) 0 1.
Proof. intros H. exact H. Qed.

Lemma quad_in_I x : I x 0 1 -> I (E.quad_in x) 0 1.
Proof. intros [Fx Rx]. unfold E.quad_in. apply mul_I; side. Qed.

Lemma quad_out_I x : I x 0 1 -> I (E.quad_out x) 0 2.
Proof.
  intros [Fx Rx]. unfold E.quad_out.
  bnd (F32.neg x) (-1) 0 as F1 R1.
  bnd (F32.sub x E.two) (-2) (-1) as F2 R2.
  apply mul_I; side.
Qed.

Lemma quad_inout_I x : I x 0 1 -> I (E.quad_inout x) (-1) 3.
Proof.
  intros [Fx Rx]. unfold E.quad_inout. branch x E.half Hb.
  - bnd (F32.mul E.two x) 0 1 as F1 R1.
    bnd (F32.mul (F32.mul E.two x) x) 0 1 as F2 R2.
    split; [exact F2|lra].
  - bnd (F32.mul (E.c (-2) 0) x) (-2) (-1) as F1 R1.
    bnd (F32.mul (F32.mul (E.c (-2) 0) x) x) (-2) 0 as F2 R2.
    bnd (F32.mul (E.c 4 0) x) 2 4 as F3 R3.
    bnd (F32.add (F32.mul (F32.mul (E.c (-2) 0) x) x) (F32.mul (E.c 4 0) x)) 0 4 as F4 R4.
    apply sub_I; side.
Qed.

Local Notation "a *f b" := (F32.mul a b) (at level 40, left associativity).
Local Notation "a +f b" := (F32.add a b) (at level 50, left associativity).
Local Notation "a -f b" := (F32.sub a b) (at level 50, left associativity).
Local Notation "a /f b" := (F32.div a b) (at level 40, left associativity).

Lemma cubic_in_I x : I x 0 1 -> I (E.cubic_in x) 0 1.
Proof.
  intros [Fx Rx]. unfold E.cubic_in.
  bnd (x *f x) 0 1 as F1 R1.
  apply mul_I; side.
Qed.

Lemma cubic_out_I x : I x 0 1 -> I (E.cubic_out x) 0 1.
Proof.
  intros [Fx Rx]. unfold E.cubic_out. cbv zeta. set (f := x -f E.one).
  bnd f (-1) 0 as F1 R1.
  bnd (f *f f) 0 1 as F2 R2.
  bnd (f *f f *f f) (-1) 0 as F3 R3.
  apply add_I; side.
Qed.

Lemma cubic_inout_I x : I x 0 1 -> I (E.cubic_inout x) 0 1.
Proof.
  intros [Fx Rx]. unfold E.cubic_inout. cbv zeta. branch x E.half Hb.
  - bnd (E.c 4 0 *f x) 0 2 as F1 R1.
    bnd (E.c 4 0 *f x *f x) 0 1 as F2 R2.
    apply mul_I; side.
  - set (f := E.two *f x -f E.two).
    bnd (E.two *f x) 1 2 as F1 R1.
    bnd f (-1) 0 as F2 R2.
    bnd (E.half *f f) (-1) 0 as F3 R3.
    bnd (E.half *f f *f f) 0 1 as F4 R4.
    bnd (E.half *f f *f f *f f) (-1) 0 as F5 R5.
    apply add_I; side.
Qed.

Lemma quart_in_I x : I x 0 1 -> I (E.quart_in x) 0 1.
Proof.
  intros [Fx Rx]. unfold E.quart_in.
  bnd (x *f x) 0 1 as F1 R1.
  bnd (x *f x *f x) 0 1 as F2 R2.
  apply mul_I; side.
Qed.

Lemma quart_out_I x : I x 0 1 -> I (E.quart_out x) 0 1.
Proof.
  intros [Fx Rx]. unfold E.quart_out. cbv zeta. set (f := x -f E.one).
  bnd f (-1) 0 as F1 R1.
  bnd (f *f f) 0 1 as F2 R2.
  bnd (f *f f *f f) (-1) 0 as F3 R3.
  bnd (E.one -f x) 0 1 as F4 R4.
  bnd (f *f f *f f *f (E.one -f x)) (-1) 0 as F5 R5.
  apply add_I; side.
Qed.

Lemma quart_inout_I x : I x 0 1 -> I (E.quart_inout x) 0 1.
Proof.
  intros [Fx Rx]. unfold E.quart_inout. cbv zeta. branch x E.half Hb.
  - bnd (E.c 8 0 *f x) 0 4 as F1 R1.
    bnd (E.c 8 0 *f x *f x) 0 2 as F2 R2.
    bnd (E.c 8 0 *f x *f x *f x) 0 1 as F3 R3.
    apply mul_I; side.
  - set (f := x -f E.one).
    bnd f (-1/2) 0 as F1 R1.
    bnd (E.c (-8) 0 *f f) 0 4 as F2 R2.
    bnd (E.c (-8) 0 *f f *f f) (-2) 0 as F3 R3.
    bnd (E.c (-8) 0 *f f *f f *f f) 0 1 as F4 R4.
    bnd (E.c (-8) 0 *f f *f f *f f *f f) (-1) 0 as F5 R5.
    apply add_I; side.
Qed.

Lemma quint_in_I x : I x 0 1 -> I (E.quint_in x) 0 1.
Proof.
  intros [Fx Rx]. unfold E.quint_in.
  bnd (x *f x) 0 1 as F1 R1.
  bnd (x *f x *f x) 0 1 as F2 R2.
  bnd (x *f x *f x *f x) 0 1 as F3 R3.
  apply mul_I; side.
Qed.

Lemma quint_out_I x : I x 0 1 -> I (E.quint_out x) 0 1.
Proof.
  intros [Fx Rx]. unfold E.quint_out. cbv zeta. set (f := x -f E.one).
  bnd f (-1) 0 as F1 R1.
  bnd (f *f f) 0 1 as F2 R2.
  bnd (f *f f *f f) (-1) 0 as F3 R3.
  bnd (f *f f *f f *f f) 0 1 as F4 R4.
  bnd (f *f f *f f *f f *f f) (-1) 0 as F5 R5.
  apply add_I; side.
Qed.

Lemma quint_inout_I x : I x 0 1 -> I (E.quint_inout x) 0 1.
Proof.
  intros [Fx Rx]. unfold E.quint_inout. cbv zeta. branch x E.half Hb.
  - bnd (E.c 16 0 *f x) 0 8 as F1 R1.
    bnd (E.c 16 0 *f x *f x) 0 4 as F2 R2.
    bnd (E.c 16 0 *f x *f x *f x) 0 2 as F3 R3.
    bnd (E.c 16 0 *f x *f x *f x *f x) 0 1 as F4 R4.
    apply mul_I; side.
  - set (f := E.two *f x -f E.two).
    bnd (E.two *f x) 1 2 as F1 R1.
    bnd f (-1) 0 as F2 R2.
    bnd (E.half *f f) (-1) 0 as F3 R3.
    bnd (E.half *f f *f f) 0 1 as F4 R4.
    bnd (E.half *f f *f f *f f) (-1) 0 as F5 R5.
    bnd (E.half *f f *f f *f f *f f) 0 1 as F6 R6.
    bnd (E.half *f f *f f *f f *f f *f f) (-1) 0 as F7 R7.
    apply add_I; side.
Qed.

(* the argument of every square root is >= 0: [one - powi2 u] with u in [-1, 1] is the rounding of a
   real >= 0, and rounding is monotone with rnd 0 = 0 *)
Lemma circ_in_I x : I x 0 1 -> I (E.circ_in x) 0 1.
Proof.
  intros [Fx Rx]. unfold E.circ_in, E.powi2.
  bnd (x *f x) 0 1 as F1 R1.
  bnd (E.one -f x *f x) 0 1 as F2 R2.
  bnd (F32.sqrt (E.one -f x *f x)) 0 1 as F3 R3.
  apply sub_I; side.
Qed.

Lemma circ_out_I x : I x 0 1 -> I (E.circ_out x) 0 1.
Proof.
  intros [Fx Rx]. unfold E.circ_out, E.powi2. set (f := x -f E.one).
  bnd f (-1) 0 as F1 R1.
  bnd (f *f f) 0 1 as F2 R2.
  bnd (f *f f *f (f *f f)) 0 1 as F3 R3.
  bnd (E.one -f f *f f *f (f *f f)) 0 1 as F4 R4.
  apply sqrt_I; side.
Qed.

Lemma circ_inout_I x : I x 0 1 -> I (E.circ_inout x) 0 1.
Proof.
  intros [Fx Rx]. unfold E.circ_inout, E.powi2. branch x E.half Hb.
  - set (u := E.two *f x).
    bnd u 0 1 as F1 R1.
    bnd (u *f u) 0 1 as F2 R2.
    bnd (E.one -f u *f u) 0 1 as F3 R3.
    bnd (F32.sqrt (E.one -f u *f u)) 0 1 as F4 R4.
    bnd (E.one -f F32.sqrt (E.one -f u *f u)) 0 1 as F5 R5.
    apply div_I; side.
  - set (u := E.c (-2) 0 *f x +f E.two).
    bnd (E.c (-2) 0 *f x) (-2) (-1) as F0 R0.
    bnd u 0 1 as F1 R1.
    bnd (u *f u) 0 1 as F2 R2.
    bnd (E.one -f u *f u) 0 1 as F3 R3.
    bnd (F32.sqrt (E.one -f u *f u)) 0 1 as F4 R4.
    bnd (F32.sqrt (E.one -f u *f u) +f E.one) 1 2 as F5 R5.
    apply div_I; side.
Qed.

(* amplitude * y * y for a small y: the sign of rnd (amplitude * y) is that of y, so the product is >= 0 *)
Lemma bounce_sq y : I y (-1/4) (1/4) -> I (E.amplitude *f y *f y) 0 1.
Proof.
  intros [Fy Ry]. destruct (Rle_lt_dec 0 (B2R y)) as [Hs|Hs].
  - bnd (E.amplitude *f y) 0 2 as F1 R1.
    apply mul_I; side.
  - bnd (E.amplitude *f y) (-2) 0 as F1 R1.
    apply mul_I; side.
Qed.

Lemma bounce_out_I u : I u 0 1 -> I (E.bounce_out u) 0 2.
Proof.
  intros [Fu Ru]. unfold E.bounce_out. cbv zeta.
  branch u (E.one /f E.gravity) Hb1; [|branch u (E.two /f E.gravity) Hb2; [|branch u (E.c 5 (-1) /f E.gravity) Hb3]].
  - bnd (E.amplitude *f u) 0 3 as F1 R1.
    apply mul_I; side.
  - set (y := u -f E.c 3 (-1) /f E.gravity).
    bnd y (-1/4) (1/4) as F1 R1.
    destruct (bounce_sq y (conj F1 R1)) as [F2 R2].
    apply add_I; side.
  - set (y := u -f E.c 9 (-2) /f E.gravity).
    bnd y (-1/4) (1/4) as F1 R1.
    destruct (bounce_sq y (conj F1 R1)) as [F2 R2].
    apply add_I; side.
  - set (y := u -f E.c 21 (-3) /f E.gravity).
    bnd y (-1/4) (1/4) as F1 R1.
    destruct (bounce_sq y (conj F1 R1)) as [F2 R2].
    apply add_I; side.
Qed.

Lemma bounce_in_I x : I x 0 1 -> I (E.bounce_in x) (-1) 1.
Proof.
  intros [Fx Rx]. unfold E.bounce_in.
  bnd (E.one -f x) 0 1 as F1 R1.
  destruct (bounce_out_I _ (conj F1 R1)) as [F2 R2].
  apply sub_I; side.
Qed.

Lemma bounce_inout_I x : I x 0 1 -> I (E.bounce_inout x) (-1) 2.
Proof.
  intros [Fx Rx]. unfold E.bounce_inout. branch x E.half Hb.
  - bnd (E.two *f x) 0 1 as F1 R1.
    bnd (E.one -f E.two *f x) 0 1 as F2 R2.
    destruct (bounce_out_I _ (conj F2 R2)) as [F3 R3].
    bnd (E.one -f E.bounce_out (E.one -f E.two *f x)) (-1) 1 as F4 R4.
    apply div_I; side.
  - bnd (E.two *f x) 1 2 as F1 R1.
    bnd (E.c (-1) 0 +f E.two *f x) 0 1 as F2 R2.
    destruct (bounce_out_I _ (conj F2 R2)) as [F3 R3].
    bnd (E.one +f E.bounce_out (E.c (-1) 0 +f E.two *f x)) 1 3 as F4 R4.
    apply div_I; side.
Qed.

(* ---------- main theorems ---------- *)

Lemma I_weaken x l h l' h' : I x l h -> l' <= l -> h <= h' -> I x l' h'.
Proof. intros [F R] Hl Hh. split; [exact F|lra]. Qed.

(* every function of E.all: finite, with value in [-1, 3], on every finite binary32 of [0, 1] *)
Theorem ease_range : forall f, In f E.all -> forall x, is_finite x = true -> 0 <= B2R x <= 1 ->
  is_finite (f x) = true /\ -1 <= B2R (f x) <= 3.
Proof.
  intros f Hin x Fx Rx. assert (Hx : I x 0 1) by (split; assumption).
  unfold E.all in Hin. simpl In in Hin.
  repeat (destruct Hin as [<-|Hin]; [|]); [..|contradiction].
  - apply (I_weaken _ _ _ _ _ (linear_I x Hx)); lra.
  - apply (I_weaken _ _ _ _ _ (quad_in_I x Hx)); lra.
  - apply (I_weaken _ _ _ _ _ (quad_out_I x Hx)); lra.
  - apply (I_weaken _ _ _ _ _ (quad_inout_I x Hx)); lra.
  - apply (I_weaken _ _ _ _ _ (cubic_in_I x Hx)); lra.
  - apply (I_weaken _ _ _ _ _ (cubic_out_I x Hx)); lra.
  - apply (I_weaken _ _ _ _ _ (cubic_inout_I x Hx)); lra.
  - apply (I_weaken _ _ _ _ _ (quart_in_I x Hx)); lra.
  - apply (I_weaken _ _ _ _ _ (quart_out_I x Hx)); lra.
  - apply (I_weaken _ _ _ _ _ (quart_inout_I x Hx)); lra.
  - apply (I_weaken _ _ _ _ _ (quint_in_I x Hx)); lra.
  - apply (I_weaken _ _ _ _ _ (quint_out_I x Hx)); lra.
  - apply (I_weaken _ _ _ _ _ (quint_inout_I x Hx)); lra.
  - apply (I_weaken _ _ _ _ _ (circ_in_I x Hx)); lra.
  - apply (I_weaken _ _ _ _ _ (circ_out_I x Hx)); lra.
  - apply (I_weaken _ _ _ _ _ (circ_inout_I x Hx)); lra.
  - apply (I_weaken _ _ _ _ _ (bounce_in_I x Hx)); lra.
  - apply (I_weaken _ _ _ _ _ (bounce_out_I x Hx)); lra.
  - apply (I_weaken _ _ _ _ _ (bounce_inout_I x Hx)); lra.
Qed.

Theorem ease_finite : forall f, In f E.all -> forall x, is_finite x = true -> (0 <= B2R x <= 1)%R ->
  is_finite (f x) = true.
Proof. intros f Hin x Fx Rx. exact (proj1 (ease_range f Hin x Fx Rx)). Qed.

(* the fourteen functions whose floating-point value provably stays in the unit interval *)
Definition unit_range : list (F32.t -> F32.t) :=
  [E.linear; E.quad_in; E.cubic_in; E.cubic_out; E.cubic_inout; E.quart_in; E.quart_out; E.quart_inout;
   E.quint_in; E.quint_out; E.quint_inout; E.circ_in; E.circ_out; E.circ_inout].

Theorem ease_unit : forall f, In f unit_range -> forall x, is_finite x = true -> 0 <= B2R x <= 1 ->
  is_finite (f x) = true /\ 0 <= B2R (f x) <= 1.
Proof.
  intros f Hin x Fx Rx. assert (Hx : I x 0 1) by (split; assumption).
  unfold unit_range in Hin. simpl In in Hin.
  repeat (destruct Hin as [<-|Hin]; [|]); [..|contradiction].
  - exact (linear_I x Hx).
  - exact (quad_in_I x Hx).
  - exact (cubic_in_I x Hx).
  - exact (cubic_out_I x Hx).
  - exact (cubic_inout_I x Hx).
  - exact (quart_in_I x Hx).
  - exact (quart_out_I x Hx).
  - exact (quart_inout_I x Hx).
  - exact (quint_in_I x Hx).
  - exact (quint_out_I x Hx).
  - exact (quint_inout_I x Hx).
  - exact (circ_in_I x Hx).
  - exact (circ_out_I x Hx).
  - exact (circ_inout_I x Hx).
Qed.

(* the remaining five, with the ranges the interval calculus gives *)
Theorem ease_other : forall x, is_finite x = true -> 0 <= B2R x <= 1 ->
  I (E.quad_out x) 0 2 /\ I (E.quad_inout x) (-1) 3 /\
  I (E.bounce_out x) 0 2 /\ I (E.bounce_in x) (-1) 1 /\ I (E.bounce_inout x) (-1) 2.
Proof.
  intros x Fx Rx. assert (Hx : I x 0 1) by (split; assumption).
  repeat split; first [apply quad_out_I | apply quad_inout_I | apply bounce_out_I | apply bounce_in_I | apply bounce_inout_I]; exact Hx.
Qed.

Lemma unit_range_incl : incl unit_range E.all.
Proof. intros f Hf. unfold unit_range in Hf. unfold E.all. simpl In in *. tauto. Qed.

(* non-vacuity: 3/4 satisfies the hypotheses, and the functions are not constant *)
Example ease_finite_instance :
  is_finite (E.c 3 (-2)) = true /\ 0 <= B2R (E.c 3 (-2)) <= 1 /\
  forallb (fun f => is_finite (f (E.c 3 (-2)))) E.all = true /\
  bits32 (E.circ_inout (E.c 3 (-2))) = Some 1064229356%Z.
Proof.
  split; [exact (proj1 a2_v)|]. split; [rewrite (proj2 a2_v); lra|]. split; vm_compute; reflexivity.
Qed.

(* the condition 0 <= x <= 1 is needed: circ_in 2 = 1 - sqrt (1 - 4) is NaN, quint_in 2^100 is infinite *)
Example ease_finite_needs_range :
  is_finite E.two = true /\ is_nan (E.circ_in E.two) = true /\
  is_finite (E.c 1 100) = true /\ is_finite (E.quint_in (E.c 1 100)) = false.
Proof. repeat split; vm_compute; reflexivity. Qed.

Print Assumptions ease_range.
Print Assumptions ease_finite.
Print Assumptions ease_unit.
Print Assumptions ease_other.
