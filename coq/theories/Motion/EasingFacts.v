(* Motion/EasingFacts.v -- endpoints of the 19 libm-free easing functions, by evaluation of the model *)
From Coq Require Import ZArith Bool List.
From Flocq Require Import Core IEEE754.BinarySingleNaN.
From Syc Require Import Motion.F32 Motion.Easing.
Import ListNotations.
Open Scope Z_scope.

(* |x| <= 1e-5 and |x - 1| <= 1e-5 as conditions on the bit pattern (positive floats are ordered like their
   bit patterns): 925353388 is the largest binary32 <= 1e-5, [1065353049, 1065353299] are the binary32
   values within 1e-5 of 1 *)
Definition near_zero (x : F32.t) : bool :=
  match bits32 x with
  | Some b => (b <=? 925353388) || ((2147483648 <=? b) && (b <=? 2147483648 + 925353388))
  | None => false
  end.
Definition near_one (x : F32.t) : bool :=
  match bits32 x with Some b => (1065353049 <=? b) && (b <=? 1065353299) | None => false end.

Definition endpoints_ok (f : F32.t -> F32.t) : bool :=
  near_zero (f (F32.of_Z 0)) && near_one (f (F32.of_Z 1)).

Lemma ease_endpoints : forallb endpoints_ok E.all = true.
Proof. vm_compute. reflexivity. Qed.

Lemma ease_count : length E.all = 19%nat.
Proof. reflexivity. Qed.
