(* Motion/F32.v -- IEEE-754 binary32 / binary64 arithmetic as Rust's f32 / f64 use it, through Flocq's
   BinarySingleNaN (a single NaN: payloads are not modelled), and the integer <-> float casts of `as`.
   Definitions only. *)
From Coq Require Import ZArith Bool Floats.SpecFloat.
From Flocq Require Import Core IEEE754.BinarySingleNaN.
Open Scope Z_scope.

#[export] Instance Hprec32 : Prec_gt_0 24 := eq_refl.
#[export] Instance Hmax32 : Prec_lt_emax 24 128 := eq_refl.
#[export] Instance Hprec64 : Prec_gt_0 53 := eq_refl.
#[export] Instance Hmax64 : Prec_lt_emax 53 1024 := eq_refl.

Module F32.
  Definition t := binary_float 24 128.
  Definition of_Z (z : Z) : t := binary_normalize 24 128 _ _ mode_NE z 0 false.
  Definition cst (m e : Z) : t := binary_normalize 24 128 _ _ mode_NE m e false.
  Definition add : t -> t -> t := Bplus mode_NE.
  Definition sub : t -> t -> t := Bminus mode_NE.
  Definition mul : t -> t -> t := Bmult mode_NE.
  Definition div : t -> t -> t := Bdiv mode_NE.
  Definition sqrt : t -> t := Bsqrt mode_NE.
  Definition neg : t -> t := Bopp.
  Definition abs : t -> t := Babs.
  (* Rust's round(): to nearest integer, ties away from zero *)
  Definition round : t -> t := Bnearbyint mode_NA.
  Definition ltb : t -> t -> bool := Bltb.
  Definition leb : t -> t -> bool := Bleb.
  (* `x as iN / uN`: NaN -> 0, saturating at the bounds, otherwise truncation toward zero *)
  Definition to_int (lo hi : Z) (x : t) : Z :=
    match x with
    | B754_nan => 0
    | B754_infinity s => if s then lo else hi
    | _ => Z.max lo (Z.min hi (Btrunc x))
    end.
End F32.
Module F64.
  Definition t := binary_float 53 1024.
  Definition of_Z (z : Z) : t := binary_normalize 53 1024 _ _ mode_NE z 0 false.
  Definition add : t -> t -> t := Bplus mode_NE.
  Definition sub : t -> t -> t := Bminus mode_NE.
  Definition mul : t -> t -> t := Bmult mode_NE.
End F64.

(* `x as f64` for x : f32 (exact) *)
Definition f32_to_f64 (x : F32.t) : F64.t :=
  match x with
  | B754_zero s => B754_zero s
  | B754_infinity s => B754_infinity s
  | B754_nan => B754_nan
  | B754_finite s m e _ => binary_normalize 53 1024 _ _ mode_NE (if s then Zneg m else Zpos m) e s
  end.

(* bit pattern of a binary32 value (NaN is reported separately) *)
Definition bits32 (x : F32.t) : option Z :=
  match B2SF x with
  | S754_nan => None
  | S754_zero s => Some (if s then 2147483648 else 0)
  | S754_infinity s => Some ((if s then 2147483648 else 0) + 2139095040)
  | S754_finite s m e =>
      let sign := if s then 2147483648 else 0 in
      if Z.pos m <? 8388608 then Some (sign + Z.pos m)                        (* subnormal, e = -149 *)
      else Some (sign + (e + 150) * 8388608 + (Z.pos m - 8388608))
  end.

(* a binary32 value from its bit pattern (finite and infinite patterns; NaN patterns give NaN) *)
Definition of_bits32 (b : Z) : F32.t :=
  let s := 2147483648 <=? b in
  let r := if s then b - 2147483648 else b in
  let ex := r / 8388608 in
  let ma := r mod 8388608 in
  if ex =? 255 then (if ma =? 0 then B754_infinity s else B754_nan)
  else if ex =? 0 then
    binary_normalize 24 128 _ _ mode_NE (if s then - ma else ma) (-149) s
  else
    binary_normalize 24 128 _ _ mode_NE (if s then - (ma + 8388608) else ma + 8388608) (ex - 150) s.
