(* Motion/Show.v -- canonical output of the motion model, mirrored by harness/motion-driver *)
From Coq Require Import ZArith List String.
From Flocq Require Import Core IEEE754.BinarySingleNaN.
From Syc Require Import Common.Show Motion.F32 Motion.Lerp Motion.Easing.
Import ListNotations.
Open Scope string_scope.

Definition show_f32 (x : F32.t) : string :=
  match bits32 x with Some b => show_Z b | None => "nan" end.

(* integer lerp cases: (signed, bits, a, b, scalar bits) *)
Definition run_lerp_int (cases : list (bool * Z * Z * Z * Z)) : string :=
  lines (map (fun '(sg, bits, a, b, s) =>
                let '(lo, hi) := ibounds sg bits in show_Z (lerp_int lo hi a b (of_bits32 s))) cases).
Definition run_lerp_int_pinned (cases : list (bool * Z * Z * Z * Z)) : string :=
  lines (map (fun '(sg, bits, a, b, s) =>
                let '(lo, hi) := ibounds sg bits in
                match lerp_int_pinned lo hi a b (of_bits32 s) with Some z => show_Z z | None => "PANIC" end) cases).
Definition run_lerp_f32 (cases : list (Z * Z * Z)) : string :=
  lines (map (fun '(a, b, s) => show_f32 (lerp_f32 (of_bits32 a) (of_bits32 b) (of_bits32 s))) cases).
Definition run_ease (k : nat) (ts : list Z) : string :=
  lines (map (fun tb => show_f32 (nth k E.all (fun x => x) (of_bits32 tb))) ts).
