(* Motion/LerpFloat.v -- what holds of the binary32 interpolation [lerp_f32 a b s = a + (b - a) * s]:
   finite for endpoints of magnitude <= 2^98, exact at s = 0, monotone in s (so never on the wrong side
   of the start value); NOT exact at s = 1 and NOT always between its endpoints (witnesses below). *)
From Coq Require Import ZArith Reals Lra Lia Bool Psatz Floats.SpecFloat.
From Flocq Require Import Core IEEE754.BinarySingleNaN.
From Syc Require Import Motion.F32 Motion.Lerp Motion.LerpFacts.
Open Scope R_scope.

Lemma rnd_abs_le x e : (-149 <= e)%Z -> Rabs x <= bpow radix2 e -> Rabs (rnd x) <= bpow radix2 e.
Proof.
  intros He H. apply abs_round_le_generic; [apply (fexp_correct 24 128 Hprec32)|apply valid_rnd_N| |exact H].
  apply generic_format_bpow. unfold SpecFloat.fexp, SpecFloat.emin. lia.
Qed.

Lemma b99 : bpow radix2 99 = 2 * bpow radix2 98.
Proof. change 99%Z with (1 + 98)%Z. rewrite bpow_plus. simpl. lra. Qed.
Lemma b100 : bpow radix2 100 = 4 * bpow radix2 98.
Proof. change 100%Z with (2 + 98)%Z. rewrite bpow_plus. simpl. lra. Qed.

Lemma rnd_B2R (x : F32.t) : rnd (B2R x) = B2R x.
Proof. apply round_generic; [apply valid_rnd_N|apply generic_format_B2R]. Qed.

(* the value computed, when nothing overflows *)
Lemma lerp_f32_val a b s :
  is_finite a = true -> is_finite b = true -> is_finite s = true ->
  Rabs (B2R a) <= bpow radix2 98 -> Rabs (B2R b) <= bpow radix2 98 -> 0 <= B2R s <= 1 ->
  is_finite (lerp_f32 a b s) = true /\
  B2R (lerp_f32 a b s) = rnd (B2R a + rnd (rnd (B2R b - B2R a) * B2R s)) /\
  Rabs (rnd (rnd (B2R b - B2R a) * B2R s)) <= bpow radix2 99.
Proof.
  intros Fa Fb Fs Ha Hb Hs. unfold lerp_f32.
  pose proof (bpow_gt_0 radix2 98) as P98. pose proof b99 as E99. pose proof b100 as E100.
  assert (Hd : Rabs (B2R b - B2R a) <= bpow radix2 99).
  { apply Rabs_le. apply Rabs_le_inv in Ha. apply Rabs_le_inv in Hb. lra. }
  destruct (sub_ok b a Fb Fa) as [RD FD]; [lra|].
  assert (Hd' : Rabs (rnd (B2R b - B2R a)) <= bpow radix2 99) by (apply rnd_abs_le; [lia|exact Hd]).
  assert (Hp : Rabs (rnd (B2R b - B2R a) * B2R s) <= bpow radix2 99).
  { rewrite Rabs_mult. rewrite (Rabs_pos_eq (B2R s)) by lra.
    apply Rle_trans with (Rabs (rnd (B2R b - B2R a)) * 1); [|lra].
    apply Rmult_le_compat_l; [apply Rabs_pos|lra]. }
  destruct (mul_ok (F32.sub b a) s FD Fs) as [RP FP]; [rewrite RD; lra|]. rewrite RD in RP.
  assert (Hp' : Rabs (rnd (rnd (B2R b - B2R a) * B2R s)) <= bpow radix2 99) by (apply rnd_abs_le; [lia|exact Hp]).
  destruct (add_ok a (F32.mul (F32.sub b a) s) Fa FP) as [RS FS].
  { rewrite RP. apply Rle_trans with (Rabs (B2R a) + Rabs (rnd (rnd (B2R b - B2R a) * B2R s))); [apply Rabs_triang|lra]. }
  rewrite RP in RS. split; [exact FS|]. split; [exact RS|exact Hp'].
Qed.

Theorem lerp_f32_finite a b s :
  is_finite a = true -> is_finite b = true -> is_finite s = true ->
  Rabs (B2R a) <= bpow radix2 98 -> Rabs (B2R b) <= bpow radix2 98 -> 0 <= B2R s <= 1 ->
  is_finite (lerp_f32 a b s) = true /\ Rabs (B2R (lerp_f32 a b s)) <= bpow radix2 100.
Proof.
  intros Fa Fb Fs Ha Hb Hs. destruct (lerp_f32_val a b s Fa Fb Fs Ha Hb Hs) as (F & R & Hp).
  split; [exact F|]. rewrite R. apply rnd_abs_le; [lia|].
  pose proof b99. pose proof b100. pose proof (bpow_gt_0 radix2 98).
  apply Rle_trans with (Rabs (B2R a) + Rabs (rnd (rnd (B2R b - B2R a) * B2R s))); [apply Rabs_triang|lra].
Qed.

Theorem lerp_f32_start a b s :
  is_finite a = true -> is_finite b = true -> is_finite s = true ->
  Rabs (B2R a) <= bpow radix2 98 -> Rabs (B2R b) <= bpow radix2 98 -> B2R s = 0 ->
  B2R (lerp_f32 a b s) = B2R a.
Proof.
  intros Fa Fb Fs Ha Hb Hs. destruct (lerp_f32_val a b s Fa Fb Fs Ha Hb) as (_ & R & _); [lra|].
  rewrite R, Hs, Rmult_0_r, rnd_0, Rplus_0_r. apply rnd_B2R.
Qed.

(* the target is returned at s = 1 when the difference b - a is representable (for instance when a and b
   are within a factor 2 of each other, or both are integers of magnitude <= 2^23) *)
Theorem lerp_f32_end a b s :
  is_finite a = true -> is_finite b = true -> is_finite s = true ->
  Rabs (B2R a) <= bpow radix2 98 -> Rabs (B2R b) <= bpow radix2 98 -> B2R s = 1 ->
  generic_format radix2 fexp32 (B2R b - B2R a) ->
  B2R (lerp_f32 a b s) = B2R b.
Proof.
  intros Fa Fb Fs Ha Hb Hs Hd. destruct (lerp_f32_val a b s Fa Fb Fs Ha Hb) as (_ & R & _); [lra|].
  assert (E : rnd (B2R b - B2R a) = B2R b - B2R a) by (apply round_generic; [apply valid_rnd_N|exact Hd]).
  rewrite R, Hs, Rmult_1_r, E, E. replace (B2R a + (B2R b - B2R a)) with (B2R b) by ring. apply rnd_B2R.
Qed.

(* monotone in the scalar: increasing when a <= b, decreasing when b <= a *)
Theorem lerp_f32_mono a b s1 s2 :
  is_finite a = true -> is_finite b = true -> is_finite s1 = true -> is_finite s2 = true ->
  Rabs (B2R a) <= bpow radix2 98 -> Rabs (B2R b) <= bpow radix2 98 ->
  0 <= B2R s1 -> B2R s1 <= B2R s2 -> B2R s2 <= 1 ->
  (B2R a <= B2R b -> B2R (lerp_f32 a b s1) <= B2R (lerp_f32 a b s2)) /\
  (B2R b <= B2R a -> B2R (lerp_f32 a b s2) <= B2R (lerp_f32 a b s1)).
Proof.
  intros Fa Fb F1 F2 Ha Hb H0 H12 H1.
  destruct (lerp_f32_val a b s1 Fa Fb F1 Ha Hb) as (_ & R1 & _); [lra|].
  destruct (lerp_f32_val a b s2 Fa Fb F2 Ha Hb) as (_ & R2 & _); [lra|].
  rewrite R1, R2. split; intros Hab.
  - assert (Hd : 0 <= rnd (B2R b - B2R a)) by (rewrite <- rnd_0; apply rnd_le; lra).
    apply rnd_le. apply Rplus_le_compat_l. apply rnd_le. apply Rmult_le_compat_l; assumption.
  - assert (Hd : rnd (B2R b - B2R a) <= 0) by (rewrite <- rnd_0; apply rnd_le; lra).
    apply rnd_le. apply Rplus_le_compat_l. apply rnd_le.
    apply Ropp_le_cancel. rewrite !Ropp_mult_distr_l. apply Rmult_le_compat_l; lra.
Qed.

(* hence the result is never on the wrong side of the start value *)
Theorem lerp_f32_from_start a b s :
  is_finite a = true -> is_finite b = true -> is_finite s = true ->
  Rabs (B2R a) <= bpow radix2 98 -> Rabs (B2R b) <= bpow radix2 98 -> 0 <= B2R s <= 1 ->
  (B2R a <= B2R b -> B2R a <= B2R (lerp_f32 a b s)) /\
  (B2R b <= B2R a -> B2R (lerp_f32 a b s) <= B2R a).
Proof.
  intros Fa Fb Fs Ha Hb Hs.
  assert (F0 : is_finite (F32.of_Z 0) = true) by reflexivity.
  assert (R0 : B2R (F32.of_Z 0) = 0) by (apply (of_Z_exact 0); lia).
  destruct (lerp_f32_mono a b (F32.of_Z 0) s Fa Fb F0 Fs Ha Hb) as [M1 M2]; try (rewrite R0; lra); [lra|].
  rewrite (lerp_f32_start a b (F32.of_Z 0) Fa Fb F0 Ha Hb R0) in M1, M2. split; assumption.
Qed.

(* non-vacuity, and a genuine interpolation: lerp 1 3 (3/4) = 2.5 *)
Example lerp_f32_instance :
  is_finite (F32.of_Z 1) = true /\ B2R (F32.of_Z 1) = 1 /\ B2R (F32.of_Z 3) = 3 /\
  B2R (F32.cst 3 (-2)) = 3/4 /\
  bits32 (lerp_f32 (F32.of_Z 1) (F32.of_Z 3) (F32.cst 3 (-2))) = bits32 (F32.cst 5 (-1)).
Proof.
  split; [reflexivity|]. split; [apply (of_Z_exact 1); lia|]. split; [apply (of_Z_exact 3); lia|].
  split; [|vm_compute; reflexivity].
  rewrite <- SF2R_B2SF. replace (B2SF (F32.cst 3 (-2))) with (S754_finite false 12582912 (-24)) by (vm_compute; reflexivity).
  unfold SF2R, F2R. simpl. lra.
Qed.

Example lerp_f32_end_instance :
  generic_format radix2 fexp32 (B2R (F32.of_Z 3) - B2R (F32.of_Z 1)) /\
  bits32 (lerp_f32 (F32.of_Z 1) (F32.of_Z 3) (F32.of_Z 1)) = bits32 (F32.of_Z 3).
Proof.
  split; [|vm_compute; reflexivity].
  rewrite (proj1 (of_Z_exact 3 ltac:(lia))), (proj1 (of_Z_exact 1 ltac:(lia))).
  replace (3 - 1) with (IZR 2) by (simpl; lra). apply int_format. lia.
Qed.

(* the magnitude condition is needed: with a = -(2^127), b = 2^127 the difference overflows, and at
   s = 0 the product infinity * 0 is NaN *)
Example lerp_f32_overflow_refuted :
  is_finite (F32.cst (-1) 127) = true /\ is_finite (F32.cst 1 127) = true /\
  is_nan (lerp_f32 (F32.cst (-1) 127) (F32.cst 1 127) (F32.of_Z 0)) = true /\
  is_finite (lerp_f32 (F32.cst (-1) 127) (F32.cst 1 127) (F32.cst 1 (-1))) = false.
Proof. repeat split; vm_compute; reflexivity. Qed.

(* the end point is not hit exactly and the result can leave [a, b]: with a = -1, b = 3 * 2^-25 the
   difference 1 + 3 * 2^-25 rounds up to 1 + 2^-23, and lerp a b 1 = 2^-23 > b *)
Example lerp_f32_end_refuted :
  let a := F32.of_Z (-1) in let b := F32.cst 3 (-25) in let r := lerp_f32 a b (F32.of_Z 1) in
  bits32 r = bits32 (F32.cst 1 (-23)) /\ F32.ltb b r = true /\ bits32 r <> bits32 b.
Proof. vm_compute. repeat split. discriminate. Qed.

Print Assumptions lerp_f32_finite.
Print Assumptions lerp_f32_end.
Print Assumptions lerp_f32_mono.
Print Assumptions lerp_f32_from_start.
