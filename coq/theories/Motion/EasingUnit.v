(* Motion/EasingUnit.v -- the five easing functions that the integer interval calculus of EasingFinite.v
   leaves with a range wider than [0,1] (quad_out, quad_inout, bounce_out, bounce_in, bounce_inout) also stay
   in [0,1] on every finite binary32 of [0,1]. quad_*: by bounding the rounding error of one operation
   (half an ulp) and the fact that 1 + 2^-24 and 2 + 2^-24 round down; bounce_*: by monotonicity of each
   operation between the branch end points, whose images are computed. *)
From Coq Require Import ZArith Reals Lra Lia Bool List Psatz Floats.SpecFloat.
From Flocq Require Import Core IEEE754.BinarySingleNaN.
From Syc Require Import Motion.F32 Motion.Lerp Motion.Easing Motion.LerpFacts Motion.EasingFacts Motion.EasingFinite.
Import ListNotations.
Open Scope R_scope.

Local Notation "a *f b" := (F32.mul a b) (at level 40, left associativity).
Local Notation "a +f b" := (F32.add a b) (at level 50, left associativity).
Local Notation "a -f b" := (F32.sub a b) (at level 50, left associativity).
Local Notation "a /f b" := (F32.div a b) (at level 40, left associativity).

(* ---------- rounding error of a value of magnitude <= 2: at most 2^-24 ---------- *)

Lemma rnd_err2 r : Rabs r <= 2 -> Rabs (rnd r - r) <= bpow radix2 (-24).
Proof.
  intros H. destruct (Req_dec r 0) as [->|Hn0].
  { rewrite rnd_0. rewrite Rminus_0_r, Rabs_R0. apply bpow_ge_0. }
  destruct (Rle_lt_or_eq_dec _ _ H) as [Hlt|Heq].
  - apply Rle_trans with (/2 * ulp radix2 fexp32 r); [apply error_le_half_ulp; apply (fexp_correct 24 128 Hprec32)|].
    rewrite ulp_neq_0 by exact Hn0. unfold cexp.
    assert (Hm : (mag radix2 r <= 1)%Z) by (apply mag_le_bpow; [exact Hn0|simpl; lra]).
    apply Rle_trans with (/2 * bpow radix2 (-23)); [|simpl; lra].
    apply Rmult_le_compat_l; [lra|]. apply bpow_le. unfold SpecFloat.fexp, SpecFloat.emin. lia.
  - assert (Hf : generic_format radix2 fexp32 r).
    { destruct (Rcase_abs r) as [Hneg|Hpos].
      - rewrite (Rabs_left _ Hneg) in Heq. replace r with (IZR (-2)) by (simpl; lra). apply int_format. lia.
      - rewrite (Rabs_right _ Hpos) in Heq. rewrite Heq. apply (int_format 2). lia. }
    rewrite round_generic by (try apply valid_rnd_N; exact Hf).
    rewrite Rminus_diag_eq by reflexivity. rewrite Rabs_R0. apply bpow_ge_0.
Qed.

(* 1 + 2^-24 and 2 + 2^-24 round down: read off the computed sums *)
Lemma rnd_1_tie : rnd (1 + bpow radix2 (-24)) = 1.
Proof.
  destruct (cst_val (E.c 1 (-24)) _ _ _ ltac:(vm_compute; reflexivity)) as [Fk Rk].
  destruct (add_ok E.one (E.c 1 (-24)) (proj1 one_v) Fk) as [R _].
  { rewrite (proj2 one_v), Rk. unfold F2R; simpl. pose proof big100. apply Rabs_le. lra. }
  rewrite (proj2 one_v), Rk in R.
  replace (F2R (Float radix2 (cond_Zopp false 8388608) (-47))) with (bpow radix2 (-24)) in R by (unfold F2R; simpl; lra).
  rewrite <- R.
  destruct (cst_val (E.one +f E.c 1 (-24)) _ _ _ ltac:(vm_compute; reflexivity)) as [_ Rs].
  rewrite Rs. unfold F2R; simpl; lra.
Qed.

Lemma rnd_2_tie : rnd (2 + bpow radix2 (-24)) = 2.
Proof.
  destruct (cst_val (E.c 1 (-24)) _ _ _ ltac:(vm_compute; reflexivity)) as [Fk Rk].
  destruct (add_ok E.two (E.c 1 (-24)) (proj1 two_v) Fk) as [R _].
  { rewrite (proj2 two_v), Rk. unfold F2R; simpl. pose proof big100. apply Rabs_le. lra. }
  rewrite (proj2 two_v), Rk in R.
  replace (F2R (Float radix2 (cond_Zopp false 8388608) (-47))) with (bpow radix2 (-24)) in R by (unfold F2R; simpl; lra).
  rewrite <- R.
  destruct (cst_val (E.two +f E.c 1 (-24)) _ _ _ ltac:(vm_compute; reflexivity)) as [_ Rs].
  rewrite Rs. unfold F2R; simpl; lra.
Qed.

Lemma b24 : bpow radix2 (-24) = / 16777216.
Proof. simpl. lra. Qed.

(* ---------- quad_out: -x * (x - 2) ---------- *)

Lemma quad_out_unit x : I x 0 1 -> I (E.quad_out x) 0 1.
Proof.
  intros [Fx Rx]. destruct (quad_out_I x (conj Fx Rx)) as [F [L _]]. split; [exact F|]. split; [exact L|].
  unfold E.quad_out.
  bnd (F32.neg x) (-1) 0 as F1 R1.
  destruct (sub_ok x E.two Fx (proj1 two_v)) as [RD FD].
  { rewrite (proj2 two_v). pose proof big100. apply Rabs_le. lra. }
  rewrite (proj2 two_v) in RD.
  assert (He : Rabs (rnd (B2R x - 2) - (B2R x - 2)) <= bpow radix2 (-24)) by (apply rnd_err2; apply Rabs_le; lra).
  apply Rabs_le_inv in He. rewrite b24 in He.
  assert (Hd : -2 <= rnd (B2R x - 2) <= -1) by (apply (rnd_between (-2) (-1)); [apply (fmt_Z (-2)); lia|apply (fmt_Z (-1)); lia|lra]).
  assert (Hp : 0 <= B2R (F32.neg x) * B2R (x -f E.two) <= 1 + bpow radix2 (-24)).
  { unfold F32.neg. rewrite B2R_Bopp, RD, b24. set (d := rnd (B2R x - 2)) in *. nra. }
  destruct (mul_ok (F32.neg x) (x -f E.two) F1 FD) as [RM _].
  { pose proof big100. rewrite b24 in Hp. apply Rabs_le. lra. }
  rewrite RM, <- rnd_1_tie. apply rnd_le. lra.
Qed.

(* ---------- scaling by a power of two is exact (no upper bound in the FLT format; overflow is excluded
   separately by the magnitude side conditions) ---------- *)

Lemma fmt_scale r k : (0 <= k)%Z -> generic_format radix2 fexp32 r -> generic_format radix2 fexp32 (r * bpow radix2 k).
Proof.
  intros Hk Hr. change fexp32 with (FLT_exp (-149) 24) in *.
  apply FLT_format_generic in Hr; [|reflexivity]. destruct Hr as [f Hf Hm He].
  apply generic_format_FLT. apply (FLT_spec radix2 (-149) 24 _ (Float radix2 (Fnum f) (Fexp f + k))).
  - rewrite Hf. unfold F2R. simpl. rewrite bpow_plus. ring.
  - exact Hm.
  - simpl. lia.
Qed.

Lemma rnd_scale2 (x : F32.t) : rnd (-2 * B2R x) = -2 * B2R x.
Proof.
  apply round_generic; [apply valid_rnd_N|].
  replace (-2 * B2R x) with (- (B2R x * bpow radix2 1)) by (simpl; lra).
  apply generic_format_opp. apply fmt_scale; [lia|apply generic_format_B2R].
Qed.

Lemma rnd_scale4 (x : F32.t) : rnd (4 * B2R x) = 4 * B2R x.
Proof.
  apply round_generic; [apply valid_rnd_N|].
  replace (4 * B2R x) with (B2R x * bpow radix2 2) by (simpl; lra).
  apply fmt_scale; [lia|apply generic_format_B2R].
Qed.

(* ---------- quad_inout ---------- *)

Lemma quad_inout_unit x : I x 0 1 -> I (E.quad_inout x) 0 1.
Proof.
  intros [Fx Rx]. unfold E.quad_inout. branch x E.half Hb.
  - bnd (E.two *f x) 0 1 as F1 R1.
    apply mul_I; side.
  - pose proof big100 as B100.
    (* -2 * x and 4 * x are exact *)
    destruct (mul_ok (E.c (-2) 0) x (proj1 m2_v) Fx) as [RT FT].
    { rewrite (proj2 m2_v). apply Rabs_le. lra. }
    rewrite (proj2 m2_v), rnd_scale2 in RT.
    destruct (mul_ok (E.c 4 0) x (proj1 c4_v) Fx) as [RQ FQ].
    { rewrite (proj2 c4_v). apply Rabs_le. lra. }
    rewrite (proj2 c4_v), rnd_scale4 in RQ.
    (* p = rnd (-2 x^2), within 2^-24 of -2 x^2 *)
    destruct (mul_ok (E.c (-2) 0 *f x) x FT Fx) as [RP FP].
    { rewrite RT. apply Rabs_le. nra. }
    rewrite RT in RP.
    assert (He : Rabs (rnd (-2 * B2R x * B2R x) - (-2 * B2R x * B2R x)) <= bpow radix2 (-24))
      by (apply rnd_err2; apply Rabs_le; nra).
    apply Rabs_le_inv in He. rewrite b24 in He.
    set (p := rnd (-2 * B2R x * B2R x)) in *.
    (* s = rnd (p + 4 x) in [1, 2] *)
    assert (Hs : 1 <= p + 4 * B2R x <= 2 + bpow radix2 (-24)) by (rewrite b24; nra).
    destruct (add_ok (E.c (-2) 0 *f x *f x) (E.c 4 0 *f x) FP FQ) as [RS FS].
    { rewrite RP, RQ. rewrite b24 in Hs. apply Rabs_le. lra. }
    rewrite RP, RQ in RS.
    assert (Hs' : 1 <= rnd (p + 4 * B2R x) <= 2).
    { split.
      - rewrite <- (rnd_int 1) by lia. apply rnd_le. lra.
      - rewrite <- rnd_2_tie. apply rnd_le. lra. }
    apply sub_I; [exact FS|fin|apply (fmt_Z 0); lia|apply (fmt_Z 1); lia|]. rewrite RS, (proj2 one_v). lra.
Qed.

(* ---------- monotonicity of the operations (rounding is monotone) ---------- *)

Lemma small_abs r : -100 <= r <= 100 -> Rabs r <= bpow radix2 100.
Proof. intros H. pose proof big100. apply Rabs_le. lra. Qed.

Lemma mul_le a b c d : is_finite a = true -> is_finite b = true -> is_finite c = true -> is_finite d = true ->
  -100 <= B2R a * B2R b <= 100 -> -100 <= B2R c * B2R d <= 100 ->
  B2R a * B2R b <= B2R c * B2R d -> B2R (a *f b) <= B2R (c *f d).
Proof.
  intros Fa Fb Fc Fd H1 H2 H. destruct (mul_ok a b Fa Fb (small_abs _ H1)) as [-> _].
  destruct (mul_ok c d Fc Fd (small_abs _ H2)) as [-> _]. apply rnd_le. exact H.
Qed.

Lemma add_le a b c d : is_finite a = true -> is_finite b = true -> is_finite c = true -> is_finite d = true ->
  -100 <= B2R a + B2R b <= 100 -> -100 <= B2R c + B2R d <= 100 ->
  B2R a + B2R b <= B2R c + B2R d -> B2R (a +f b) <= B2R (c +f d).
Proof.
  intros Fa Fb Fc Fd H1 H2 H. destruct (add_ok a b Fa Fb (small_abs _ H1)) as [-> _].
  destruct (add_ok c d Fc Fd (small_abs _ H2)) as [-> _]. apply rnd_le. exact H.
Qed.

Lemma sub_le a b c d : is_finite a = true -> is_finite b = true -> is_finite c = true -> is_finite d = true ->
  -100 <= B2R a - B2R b <= 100 -> -100 <= B2R c - B2R d <= 100 ->
  B2R a - B2R b <= B2R c - B2R d -> B2R (a -f b) <= B2R (c -f d).
Proof.
  intros Fa Fb Fc Fd H1 H2 H. destruct (sub_ok a b Fa Fb (small_abs _ H1)) as [-> _].
  destruct (sub_ok c d Fc Fd (small_abs _ H2)) as [-> _]. apply rnd_le. exact H.
Qed.

(* ---------- amplitude * y * y ---------- *)

Definition sq (y : F32.t) : F32.t := E.amplitude *f y *f y.

Lemma sq_I y : I y (-1) 1 -> I (E.amplitude *f y) (-8) 8 /\ I (sq y) (-8) 8.
Proof.
  intros [Fy Ry]. unfold sq.
  bnd (E.amplitude *f y) (-8) 8 as F1 R1.
  split; [split; assumption|]. apply mul_I; side.
Qed.

(* increasing on y >= 0 *)
Lemma sq_up y yh : is_finite y = true -> is_finite yh = true -> 0 <= B2R y -> B2R y <= B2R yh -> B2R yh <= 1 ->
  B2R (sq y) <= B2R (sq yh).
Proof.
  intros Fy Fh H0 H1 H2.
  bnd (E.amplitude *f y) 0 8 as F1 R1.
  bnd (E.amplitude *f yh) 0 8 as F2 R2.
  assert (Hm : B2R (E.amplitude *f y) <= B2R (E.amplitude *f yh)).
  { apply mul_le; try fin; rewrite (proj2 amplitude_v); nra. }
  unfold sq. apply mul_le; try assumption; nra.
Qed.

(* decreasing on y <= 0 *)
Lemma sq_lo y yl : is_finite y = true -> is_finite yl = true -> -1 <= B2R yl -> B2R yl <= B2R y -> B2R y <= 0 ->
  B2R (sq y) <= B2R (sq yl).
Proof.
  intros Fy Fl H0 H1 H2.
  bnd (E.amplitude *f y) (-8) 0 as F1 R1.
  bnd (E.amplitude *f yl) (-8) 0 as F2 R2.
  assert (Hm : B2R (E.amplitude *f yl) <= B2R (E.amplitude *f y)).
  { apply mul_le; try fin; rewrite (proj2 amplitude_v); nra. }
  unfold sq. apply mul_le; try assumption; nra.
Qed.

(* one parabola of bounce_out, amplitude * (u - o)^2 + a, on lo <= u <= hi: at most its value at one of
   the two end points *)
Lemma br_le o a u lo hi :
  is_finite o = true -> is_finite a = true -> is_finite u = true -> is_finite lo = true -> is_finite hi = true ->
  0 <= B2R o <= 1 -> 0 <= B2R a <= 1 -> 0 <= B2R lo -> B2R lo <= B2R u -> B2R u <= B2R hi -> B2R hi <= 1 ->
  B2R (sq (u -f o) +f a) <= Rmax (B2R (sq (lo -f o) +f a)) (B2R (sq (hi -f o) +f a)).
Proof.
  intros Fo Fa Fu Fl Fh Ro Ra H0 H1 H2 H3.
  bnd (u -f o) (-1) 1 as Fy Ry.
  bnd (lo -f o) (-1) 1 as Fyl Ryl.
  bnd (hi -f o) (-1) 1 as Fyh Ryh.
  assert (Hl : B2R (lo -f o) <= B2R (u -f o)) by (apply sub_le; try assumption; lra).
  assert (Hh : B2R (u -f o) <= B2R (hi -f o)) by (apply sub_le; try assumption; lra).
  destruct (sq_I _ (conj Fy Ry)) as [_ [Fs Rs]].
  destruct (sq_I _ (conj Fyl Ryl)) as [_ [Fsl Rsl]].
  destruct (sq_I _ (conj Fyh Ryh)) as [_ [Fsh Rsh]].
  destruct (Rle_lt_dec 0 (B2R (u -f o))) as [Hs|Hs].
  - apply Rle_trans with (B2R (sq (hi -f o) +f a)); [|apply Rmax_r].
    assert (Hq : B2R (sq (u -f o)) <= B2R (sq (hi -f o))) by (apply sq_up; try assumption; lra).
    apply add_le; try assumption; lra.
  - apply Rle_trans with (B2R (sq (lo -f o) +f a)); [|apply Rmax_l].
    assert (Hq : B2R (sq (u -f o)) <= B2R (sq (lo -f o))) by (apply sq_lo; try assumption; lra).
    apply add_le; try assumption; lra.
Qed.

(* the value of a closed float term is at most 1 *)
Ltac closed_le1 :=
  match goal with
  | |- B2R ?k <= 1 =>
      let R := fresh "R" in
      destruct (cst_val k _ _ _ ltac:(vm_compute; reflexivity)) as [_ R];
      rewrite R; unfold F2R; simpl; lra
  end.

Lemma bounce_out_unit u : I u 0 1 -> I (E.bounce_out u) 0 1.
Proof.
  intros [Fu Ru]. destruct (bounce_out_I u (conj Fu Ru)) as [F [L _]]. split; [exact F|]. split; [exact L|].
  clear F L. unfold E.bounce_out. cbv zeta.
  branch u (E.one /f E.gravity) Hb1; [|branch u (E.two /f E.gravity) Hb2; [|branch u (E.c 5 (-1) /f E.gravity) Hb3]].
  - apply Rle_trans with (B2R (sq (E.one /f E.gravity))).
    + apply sq_up; try fin; rewrite ?(proj2 t1_v); lra.
    + unfold sq. closed_le1.
  - eapply Rle_trans.
    + apply (br_le (E.c 3 (-1) /f E.gravity) (E.c 3 (-2)) u (E.one /f E.gravity) (E.two /f E.gravity)); try fin; vals; lra.
    + apply Rmax_lub; unfold sq; closed_le1.
  - eapply Rle_trans.
    + apply (br_le (E.c 9 (-2) /f E.gravity) (E.c 15 (-4)) u (E.two /f E.gravity) (E.c 5 (-1) /f E.gravity)); try fin; vals; lra.
    + apply Rmax_lub; unfold sq; closed_le1.
  - eapply Rle_trans.
    + apply (br_le (E.c 21 (-3) /f E.gravity) (E.c 63 (-6)) u (E.c 5 (-1) /f E.gravity) E.one); try fin; vals; lra.
    + apply Rmax_lub; unfold sq; closed_le1.
Qed.

Lemma bounce_in_unit x : I x 0 1 -> I (E.bounce_in x) 0 1.
Proof.
  intros [Fx Rx]. unfold E.bounce_in.
  bnd (E.one -f x) 0 1 as F1 R1.
  destruct (bounce_out_unit _ (conj F1 R1)) as [F2 R2].
  apply sub_I; side.
Qed.

Lemma bounce_inout_unit x : I x 0 1 -> I (E.bounce_inout x) 0 1.
Proof.
  intros [Fx Rx]. unfold E.bounce_inout. branch x E.half Hb.
  - bnd (E.two *f x) 0 1 as F1 R1.
    bnd (E.one -f E.two *f x) 0 1 as F2 R2.
    destruct (bounce_out_unit _ (conj F2 R2)) as [F3 R3].
    bnd (E.one -f E.bounce_out (E.one -f E.two *f x)) 0 1 as F4 R4.
    apply div_I; side.
  - bnd (E.two *f x) 1 2 as F1 R1.
    bnd (E.c (-1) 0 +f E.two *f x) 0 1 as F2 R2.
    destruct (bounce_out_unit _ (conj F2 R2)) as [F3 R3].
    bnd (E.one +f E.bounce_out (E.c (-1) 0 +f E.two *f x)) 1 2 as F4 R4.
    apply div_I; side.
Qed.

(* ---------- all nineteen ---------- *)

Theorem ease_unit_all : forall f, In f E.all -> forall x, is_finite x = true -> 0 <= B2R x <= 1 ->
  is_finite (f x) = true /\ 0 <= B2R (f x) <= 1.
Proof.
  intros f Hin x Fx Rx. assert (Hx : I x 0 1) by (split; assumption).
  unfold E.all in Hin. simpl In in Hin.
  repeat (destruct Hin as [<-|Hin]; [|]); [..|contradiction].
  - exact (linear_I x Hx).
  - exact (quad_in_I x Hx).
  - exact (quad_out_unit x Hx).
  - exact (quad_inout_unit x Hx).
  - exact (cubic_in_I x Hx).
  - exact (cubic_out_I x Hx).
  - exact (cubic_inout_I x Hx).
  - exact (quart_in_I x Hx).
  - exact (quart_out_I x Hx).
  - exact (quart_inout_I x Hx).
  - exact (quint_in_I x Hx).
  - exact (quint_out_I x Hx).
  - exact (quint_inout_I x Hx).
  - exact (circ_in_I x Hx).
  - exact (circ_out_I x Hx).
  - exact (circ_inout_I x Hx).
  - exact (bounce_in_unit x Hx).
  - exact (bounce_out_unit x Hx).
  - exact (bounce_inout_unit x Hx).
Qed.

(* non-vacuity: at 4/11 rounded (the first threshold of bounce_out) the bound 1 is attained; at 3/4 the
   hypotheses hold and the values are strictly inside *)
Example ease_unit_instance :
  is_finite (E.one /f E.gravity) = true /\ 0 <= B2R (E.one /f E.gravity) <= 1 /\
  bits32 (E.bounce_out (E.one /f E.gravity)) = bits32 E.one /\
  bits32 (E.bounce_out (E.c 3 (-2))) = Some 1064894464%Z.
Proof.
  split; [exact (proj1 t1_v)|]. split; [rewrite (proj2 t1_v); lra|]. split; vm_compute; reflexivity.
Qed.

Print Assumptions ease_unit_all.

(* ---------- the end points are hit exactly (by evaluation): f (+0) = +0 and f 1 = 1 ---------- *)

Lemma ease_endpoints_SF : forall f, In f E.all ->
  B2SF (f (F32.of_Z 0)) = S754_zero false /\ B2SF (f (F32.of_Z 1)) = S754_finite false 8388608 (-23).
Proof.
  intros f Hin. unfold E.all in Hin. simpl In in Hin.
  repeat (destruct Hin as [<-|Hin]; [|]); [..|contradiction]; split; vm_compute; reflexivity.
Qed.

Theorem ease_endpoints_exact : forall f, In f E.all ->
  B2R (f (F32.of_Z 0)) = 0 /\ B2R (f (F32.of_Z 1)) = 1.
Proof.
  intros f Hin. destruct (ease_endpoints_SF f Hin) as [H0 H1].
  rewrite <- !SF2R_B2SF, H0, H1. split; [reflexivity|]. unfold SF2R, F2R. simpl. lra.
Qed.

Print Assumptions ease_endpoints_exact.
