(* Motion/Lerp.v -- model of sycamore::motion::Lerp for the integer types, f32, f64 (motion.rs).
   Definitions only. *)
From Coq Require Import ZArith Bool.
From Flocq Require Import Core IEEE754.BinarySingleNaN.
From Syc Require Import Motion.F32.
Open Scope Z_scope.

(* after the fix: round(self as f32 + (other as f32 - self as f32) * scalar) as $i *)
Definition lerp_int (lo hi : Z) (a b : Z) (s : F32.t) : Z :=
  F32.to_int lo hi (F32.round (F32.add (F32.of_Z a) (F32.mul (F32.sub (F32.of_Z b) (F32.of_Z a)) s))).

(* as pinned: round(self as f32 + ((other - self) as f32) * scalar) as $i with the subtraction in the
   integer type: a debug build panics on overflow ([None]) *)
Definition lerp_int_pinned (lo hi : Z) (a b : Z) (s : F32.t) : option Z :=
  let d := b - a in
  if (lo <=? d) && (d <=? hi) then
    Some (F32.to_int lo hi (F32.round (F32.add (F32.of_Z a) (F32.mul (F32.of_Z d) s))))
  else None.

(* self + (other - self) * scalar as $f *)
Definition lerp_f32 (a b s : F32.t) : F32.t := F32.add a (F32.mul (F32.sub b a) s).
Definition lerp_f64 (a b : F64.t) (s : F32.t) : F64.t := F64.add a (F64.mul (F64.sub b a) (f32_to_f64 s)).

(* integer type bounds *)
Definition ibounds (signed : bool) (bits : Z) : Z * Z :=
  if signed then (- 2 ^ (bits - 1), 2 ^ (bits - 1) - 1) else (0, 2 ^ bits - 1).
