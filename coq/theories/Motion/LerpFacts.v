From Coq Require Import ZArith Reals Lra Lia Bool Floats.SpecFloat.
From Flocq Require Import Core IEEE754.BinarySingleNaN.
From Syc Require Import Motion.F32 Motion.Lerp.
Open Scope R_scope.

Notation fexp32 := (SpecFloat.fexp 24 128).
Notation rnd := (round radix2 fexp32 ZnearestE).

Lemma int_format z : (Z.abs z <= 2^24)%Z -> generic_format radix2 fexp32 (IZR z).
Proof.
  intros H. destruct (Z.eq_dec (Z.abs z) (2^24)) as [E|E].
  - assert (Hz : (z = 2^24 \/ z = - 2^24)%Z) by lia. destruct Hz as [-> | ->].
    + replace (IZR (2^24)) with (bpow radix2 24) by (simpl; lra).
      apply generic_format_bpow. unfold SpecFloat.fexp, SpecFloat.emin. lia.
    + replace (IZR (- 2^24)) with (- bpow radix2 24) by (simpl; lra).
      apply generic_format_opp, generic_format_bpow. unfold SpecFloat.fexp, SpecFloat.emin. lia.
  - replace (IZR z) with (F2R (Float radix2 z 0)) by (unfold F2R; simpl; ring).
    apply generic_format_F2R. intros Hz. unfold cexp, SpecFloat.fexp, SpecFloat.emin.
    assert (Hm : (mag radix2 (F2R (Float radix2 z 0)) <= 24)%Z).
    { apply mag_le_bpow.
      - apply F2R_neq_0. exact Hz.
      - unfold F2R; simpl. rewrite Rmult_1_r. rewrite <- abs_IZR.
        replace 16777216 with (IZR (2^24)) by (simpl; lra). apply IZR_lt. lia. }
    lia.
Qed.

Lemma bound_ok x : Rabs x <= bpow radix2 100 -> Rlt_bool (Rabs (rnd x)) (bpow radix2 128) = true.
Proof.
  intros H. apply Rlt_bool_true.
  apply Rle_lt_trans with (bpow radix2 100).
  - apply abs_round_le_generic; [apply (fexp_correct 24 128 Hprec32)|apply valid_rnd_N| |exact H].
    apply generic_format_bpow. unfold SpecFloat.fexp, SpecFloat.emin. lia.
  - apply bpow_lt. lia.
Qed.

Lemma of_Z_exact z : (Z.abs z <= 2^24)%Z -> B2R (F32.of_Z z) = IZR z /\ is_finite (F32.of_Z z) = true.
Proof.
  intros H. unfold F32.of_Z.
  generalize (binary_normalize_correct 24 128 Hprec32 Hmax32 mode_NE z 0 false).
  cbv zeta. replace (F2R (Float radix2 z 0)) with (IZR z) by (unfold F2R; simpl; ring).
  simpl round_mode. rewrite (round_generic radix2 fexp32 ZnearestE (IZR z)) by (apply int_format; exact H).
  rewrite Rlt_bool_true.
  - intros (H1 & H2 & _). split; assumption.
  - rewrite <- abs_IZR. apply Rle_lt_trans with (IZR (2^24)); [apply IZR_le; exact H|].
    replace (IZR (2^24)) with (bpow radix2 24) by (simpl; lra). apply bpow_lt. reflexivity.
Qed.

Lemma add_ok x y : is_finite x = true -> is_finite y = true -> Rabs (B2R x + B2R y) <= bpow radix2 100 ->
  B2R (F32.add x y) = rnd (B2R x + B2R y) /\ is_finite (F32.add x y) = true.
Proof.
  intros Fx Fy Hb. unfold F32.add. generalize (Bplus_correct 24 128 Hprec32 Hmax32 mode_NE x y Fx Fy).
  simpl round_mode. rewrite bound_ok by exact Hb. intros (H1 & H2 & _). split; assumption.
Qed.
Lemma sub_ok x y : is_finite x = true -> is_finite y = true -> Rabs (B2R x - B2R y) <= bpow radix2 100 ->
  B2R (F32.sub x y) = rnd (B2R x - B2R y) /\ is_finite (F32.sub x y) = true.
Proof.
  intros Fx Fy Hb. unfold F32.sub. generalize (Bminus_correct 24 128 Hprec32 Hmax32 mode_NE x y Fx Fy).
  simpl round_mode. rewrite bound_ok by exact Hb. intros (H1 & H2 & _). split; assumption.
Qed.
Lemma mul_ok x y : is_finite x = true -> is_finite y = true -> Rabs (B2R x * B2R y) <= bpow radix2 100 ->
  B2R (F32.mul x y) = rnd (B2R x * B2R y) /\ is_finite (F32.mul x y) = true.
Proof.
  intros Fx Fy Hb. unfold F32.mul. generalize (Bmult_correct 24 128 Hprec32 Hmax32 mode_NE x y).
  simpl round_mode. rewrite bound_ok by exact Hb. rewrite Fx, Fy. intros (H1 & H2 & _). split; assumption.
Qed.

Lemma fix_int rnd1 {V : Valid_rnd rnd1} z : round radix2 (FIX_exp 0) rnd1 (IZR z) = IZR z.
Proof.
  apply round_generic; [exact V|]. apply generic_format_FIX.
  exists (Float radix2 z 0); [unfold F2R; simpl; ring|reflexivity].
Qed.

Lemma fix_between rnd1 {V : Valid_rnd rnd1} x l h : IZR l <= x <= IZR h ->
  IZR l <= round radix2 (FIX_exp 0) rnd1 x <= IZR h.
Proof.
  intros [H1 H2]. split.
  - rewrite <- (fix_int rnd1 l). apply round_le; [apply FIX_exp_valid|exact V|exact H1].
  - rewrite <- (fix_int rnd1 h). apply round_le; [apply FIX_exp_valid|exact V|exact H2].
Qed.

Lemma round_ok x : is_finite x = true ->
  B2R (F32.round x) = round radix2 (FIX_exp 0) ZnearestA (B2R x) /\ is_finite (F32.round x) = true.
Proof.
  intros Fx. unfold F32.round. destruct (Bnearbyint_correct 24 128 Hmax32 mode_NA x) as (H1 & H2 & _).
  split; [exact H1|]. rewrite H2. exact Fx.
Qed.

Lemma to_int_between lo hi x l h : is_finite x = true -> IZR l <= B2R x <= IZR h ->
  (lo <= l)%Z -> (h <= hi)%Z -> (l <= F32.to_int lo hi x <= h)%Z.
Proof.
  intros Fx Hx Hl Hh.
  assert (Hb : (l <= Btrunc x <= h)%Z).
  { pose proof (Btrunc_correct 24 128 Hmax32 x) as Ht.
    pose proof (fix_between Ztrunc (B2R x) l h Hx) as Hr. rewrite <- Ht in Hr.
    destruct Hr as [Hr1 Hr2]. apply le_IZR in Hr1. apply le_IZR in Hr2. lia. }
  unfold F32.to_int. destruct x; try discriminate; lia.
Qed.

Definition small (z : Z) : Prop := (Z.abs z <= 2^23)%Z.

Lemma rnd_int z : (Z.abs z <= 2^24)%Z -> rnd (IZR z) = IZR z.
Proof. intros H. apply round_generic; [apply valid_rnd_N|apply int_format; exact H]. Qed.

Lemma rnd_le x y : x <= y -> rnd x <= rnd y.
Proof. apply round_le; [apply (fexp_correct 24 128 Hprec32)|apply valid_rnd_N]. Qed.

Lemma pow24 : IZR (2^24) = 16777216. Proof. simpl; lra. Qed.
Lemma pow23 : IZR (2^23) = 8388608. Proof. simpl; lra. Qed.
Lemma big100 : 100000000 <= bpow radix2 100.
Proof.
  apply Rle_trans with (bpow radix2 27); [simpl; lra|]. apply bpow_le. lia.
Qed.

Lemma lerp_core lo hi a b s :
  small a -> small b -> is_finite s = true -> Rabs (B2R s) <= 1 ->
  forall l h, IZR l <= rnd (IZR a + rnd (IZR (b - a) * B2R s)) <= IZR h ->
  (lo <= l)%Z -> (h <= hi)%Z -> (l <= lerp_int lo hi a b s <= h)%Z.
Proof.
  intros Ha Hb Fs Hs l h Hv Hl Hh. unfold small in *.
  assert (Ha' : Rabs (IZR a) <= 8388608) by (rewrite <- abs_IZR, <- pow23; apply IZR_le; exact Ha).
  assert (Hb' : Rabs (IZR b) <= 8388608) by (rewrite <- abs_IZR, <- pow23; apply IZR_le; exact Hb).
  destruct (of_Z_exact a) as [RA FA]; [lia|]. destruct (of_Z_exact b) as [RB FB]; [lia|].
  pose proof big100 as B100.
  assert (Hd : (Z.abs (b - a) <= 2^24)%Z) by lia.
  assert (Hd' : Rabs (IZR (b - a)) <= 16777216) by (rewrite <- abs_IZR, <- pow24; apply IZR_le; exact Hd).
  destruct (sub_ok (F32.of_Z b) (F32.of_Z a) FB FA) as [RD FD].
  { rewrite RA, RB, <- minus_IZR. lra. }
  rewrite RA, RB, <- minus_IZR, rnd_int in RD by exact Hd.
  assert (Hds : Rabs (IZR (b - a) * B2R s) <= 16777216).
  { rewrite Rabs_mult. apply Rle_trans with (Rabs (IZR (b - a)) * 1); [|lra].
    apply Rmult_le_compat_l; [apply Rabs_pos|exact Hs]. }
  destruct (mul_ok (F32.sub (F32.of_Z b) (F32.of_Z a)) s FD Fs) as [RP FP].
  { rewrite RD. lra. }
  rewrite RD in RP.
  assert (Hp : Rabs (rnd (IZR (b - a) * B2R s)) <= 16777216).
  { rewrite <- pow24. rewrite <- (rnd_int (2^24)) by lia.
    apply abs_round_le_generic; [apply (fexp_correct 24 128 Hprec32)|apply valid_rnd_N| |].
    - rewrite rnd_int by lia. apply int_format. lia.
    - rewrite rnd_int by lia. rewrite pow24. exact Hds. }
  destruct (add_ok (F32.of_Z a) (F32.mul (F32.sub (F32.of_Z b) (F32.of_Z a)) s) FA FP) as [RS FS].
  { rewrite RA, RP. apply Rle_trans with (Rabs (IZR a) + Rabs (rnd (IZR (b - a) * B2R s))); [apply Rabs_triang|lra]. }
  rewrite RA, RP in RS.
  destruct (round_ok _ FS) as [RR FR]. rewrite RS in RR.
  unfold lerp_int. apply to_int_between; [exact FR| |exact Hl|exact Hh].
  rewrite RR. apply fix_between; [apply valid_rnd_NA|exact Hv].
Qed.

Lemma rnd_0 : rnd 0 = 0.
Proof. apply round_0. apply valid_rnd_N. Qed.

Theorem lerp_int_start lo hi a b s :
  small a -> small b -> (lo <= a <= hi)%Z -> is_finite s = true -> B2R s = 0 -> lerp_int lo hi a b s = a.
Proof.
  intros Ha Hb Hr Fs Hs.
  assert (H : (a <= lerp_int lo hi a b s <= a)%Z).
  { apply lerp_core; try assumption; try lia.
    - rewrite Hs, Rabs_R0. lra.
    - rewrite Hs, Rmult_0_r, rnd_0, Rplus_0_r, rnd_int by (unfold small in Ha; lia). lra. }
  lia.
Qed.

Theorem lerp_int_end lo hi a b s :
  small a -> small b -> (lo <= b <= hi)%Z -> is_finite s = true -> B2R s = 1 -> lerp_int lo hi a b s = b.
Proof.
  intros Ha Hb Hr Fs Hs.
  assert (H : (b <= lerp_int lo hi a b s <= b)%Z).
  { apply lerp_core; try assumption; try lia.
    - rewrite Hs, Rabs_R1. lra.
    - rewrite Hs, Rmult_1_r, rnd_int by (unfold small in *; lia).
      rewrite <- plus_IZR. replace (a + (b - a))%Z with b by lia.
      rewrite rnd_int by (unfold small in Hb; lia). lra. }
  lia.
Qed.

Theorem lerp_int_between lo hi a b s :
  small a -> small b -> (lo <= a <= hi)%Z -> (lo <= b <= hi)%Z ->
  is_finite s = true -> 0 <= B2R s <= 1 ->
  (Z.min a b <= lerp_int lo hi a b s <= Z.max a b)%Z.
Proof.
  intros Ha Hb Hra Hrb Fs Hs.
  apply lerp_core; try assumption; try lia.
  - rewrite Rabs_pos_eq; lra.
  - assert (Hra' : rnd (IZR a) = IZR a) by (apply rnd_int; unfold small in Ha; lia).
    assert (Hrb' : rnd (IZR b) = IZR b) by (apply rnd_int; unfold small in Hb; lia).
    assert (Hd : rnd (IZR (b - a)) = IZR (b - a)) by (apply rnd_int; unfold small in *; lia).
    set (d := IZR (b - a)) in *. set (p := rnd (d * B2R s)).
    assert (Hab : IZR a + d = IZR b) by (unfold d; rewrite minus_IZR; ring).
    destruct (Z.le_ge_cases a b) as [Hle|Hge].
    + (* d >= 0: 0 <= p <= d *)
      assert (Hd0 : 0 <= d) by (unfold d; apply IZR_le; lia).
      assert (Hp : 0 <= p <= d).
      { split.
        - rewrite <- rnd_0. apply rnd_le. apply Rmult_le_pos; lra.
        - rewrite <- Hd. apply rnd_le. rewrite <- (Rmult_1_r d) at 2. apply Rmult_le_compat_l; lra. }
      rewrite Z.min_l, Z.max_r by lia. split.
      * rewrite <- Hra'. apply rnd_le. lra.
      * rewrite <- Hrb'. apply rnd_le. lra.
    + (* d <= 0: d <= p <= 0 *)
      assert (Hd0 : d <= 0) by (unfold d; apply IZR_le; lia).
      assert (Hp : d <= p <= 0).
      { split.
        - rewrite <- Hd. apply rnd_le. rewrite <- (Rmult_1_r d) at 1.
          apply Ropp_le_cancel. rewrite !Ropp_mult_distr_l. apply Rmult_le_compat_l; lra.
        - rewrite <- rnd_0. apply rnd_le.
          apply Ropp_le_cancel. rewrite Ropp_0, Ropp_mult_distr_l. apply Rmult_le_pos; lra. }
      rewrite Z.min_r, Z.max_l by lia. split.
      * rewrite <- Hrb'. apply rnd_le. lra.
      * rewrite <- Hra'. apply rnd_le. lra.
Qed.
