(* ViewMacro/Syntax.v -- the part of syn 2's expression / pattern / statement grammar that
   sycamore-view-parser's `is_dyn*` functions can meet, as a generic tagged tree.
   A node carries the syn variant as its tag and one list of children per syntactic slot
   (a single child = one-element list, an `Option` child = zero or one element).
   Definitions only. *)
From Coq Require Import List Bool Arith.
Import ListNotations.

Inductive tag :=
(* syn::Expr *)
| EArray | EAssign | EAsync | EAwait | EBinary | EBlock | EBreak | ECall | ECast | EClosure
| EConst | EContinue | EField | EForLoop | EGroup | EIf | EIndex | EInfer | ELet | ELit | ELoop
| EMacroView | EMacroOther | EMatch | EMethodCall | EParen | EPath | ERange | ERawAddr
| EReference | ERepeat | EReturn | EStruct | ETry | ETryBlock | ETuple | EUnary | EUnsafe
| EVerbatim | EWhile | EYield
(* syn::Pat *)
| PConst | PIdent | PIdentRefMut | PLit | PMacroView | PMacroOther | POr | PParen | PPath | PRange
| PReference | PReferenceMut | PRest | PSlice | PStruct | PTuple | PTupleStruct | PType
| PVerbatim | PWild
(* syn::Block, syn::Stmt, syn::Arm *)
| TBlock | SExpr | SMacroView | SMacroOther | SLocal | SItem | TArm.

Definition all_tags : list tag :=
  [EArray; EAssign; EAsync; EAwait; EBinary; EBlock; EBreak; ECall; ECast; EClosure;
   EConst; EContinue; EField; EForLoop; EGroup; EIf; EIndex; EInfer; ELet; ELit; ELoop;
   EMacroView; EMacroOther; EMatch; EMethodCall; EParen; EPath; ERange; ERawAddr;
   EReference; ERepeat; EReturn; EStruct; ETry; ETryBlock; ETuple; EUnary; EUnsafe;
   EVerbatim; EWhile; EYield;
   PConst; PIdent; PIdentRefMut; PLit; PMacroView; PMacroOther; POr; PParen; PPath; PRange;
   PReference; PReferenceMut; PRest; PSlice; PStruct; PTuple; PTupleStruct; PType;
   PVerbatim; PWild;
   TBlock; SExpr; SMacroView; SMacroOther; SLocal; SItem; TArm].

(* number of child slots of each variant (the slot order is fixed in tools/c18.py SLOTS) *)
Definition arity (t : tag) : nat :=
  match t with
  | EArray => 1 | EAssign => 2 | EAsync => 1 | EAwait => 1 | EBinary => 2 | EBlock => 1
  | EBreak => 1 | ECall => 2 | ECast => 1 | EClosure => 1 | EConst => 1 | EContinue => 0
  | EField => 1 | EForLoop => 3 | EGroup => 1 | EIf => 3 | EIndex => 2 | EInfer => 0
  | ELet => 2 | ELit => 0 | ELoop => 1 | EMacroView => 0 | EMacroOther => 0 | EMatch => 2
  | EMethodCall => 2 | EParen => 1 | EPath => 0 | ERange => 2 | ERawAddr => 1 | EReference => 1
  | ERepeat => 2 | EReturn => 1 | EStruct => 2 | ETry => 1 | ETryBlock => 1 | ETuple => 1
  | EUnary => 1 | EUnsafe => 1 | EVerbatim => 0 | EWhile => 2 | EYield => 1
  | PConst => 1 | PIdent => 1 | PIdentRefMut => 1 | PLit => 0 | PMacroView => 0 | PMacroOther => 0
  | POr => 1 | PParen => 1 | PPath => 0 | PRange => 2 | PReference => 1 | PReferenceMut => 1
  | PRest => 0 | PSlice => 1 | PStruct => 1 | PTuple => 1 | PTupleStruct => 1 | PType => 1
  | PVerbatim => 0 | PWild => 0
  | TBlock => 1 | SExpr => 1 | SMacroView => 0 | SMacroOther => 0 | SLocal => 3 | SItem => 0
  | TArm => 3
  end.

Inductive tree := Node (t : tag) (slots : list (list tree)).

(* a classification rule: constant, or "true iff some child in one of these slots is" *)
Inductive rule := RConst (b : bool) | RAny (slots : list nat).

Definition slot_any (vals : list (list bool)) (k : nat) : bool :=
  existsb (fun b => b) (nth k vals []).
Definition apply_rule (r : rule) (vals : list (list bool)) : bool :=
  match r with
  | RConst b => b
  | RAny ks => existsb (slot_any vals) ks
  end.

Section Classify.
  Variable table : tag -> rule.
  Fixpoint classify (t : tree) : bool :=
    match t with
    | Node tg slots => apply_rule (table tg) (map (map classify) slots)
    end.
End Classify.

Fixpoint wf_tree (t : tree) : bool :=
  match t with
  | Node tg slots => Nat.eqb (length slots) (arity tg) && forallb (forallb wf_tree) slots
  end.

(* ------------------------------------------------------------------------------------ *)
(* Specification, from the property text: an expression "contains an evaluation" if,     *)
(* outside closures, there is a call, method call, non-`view!` macro, await, try or      *)
(* assignment. Closures are opaque; so are `const { }` blocks and nested items, which    *)
(* run at compile time / not at all (interpretation recorded in DESIGN.md 5.C18).        *)

Definition all_slots (t : tag) : list nat := seq 0 (arity t).

Definition spec_rule (t : tag) : rule :=
  match t with
  | ECall | EMethodCall | EMacroOther | EAwait | ETry | EAssign
  | PMacroOther | SMacroOther => RConst true
  | EClosure | EConst | PConst | SItem => RConst false
  | _ => RAny (all_slots t)
  end.

Definition contains_eval : tree -> bool := classify spec_rule.

(* r1 <= r2: whenever r1 fires on child values v1, r2 fires on any pointwise-larger v2 *)
Definition rule_le (r1 r2 : rule) : bool :=
  match r2 with
  | RConst true => true
  | RConst false => match r1 with RConst false => true | RAny [] => true | _ => false end
  | RAny k2 =>
      match r1 with
      | RConst true => false
      | RConst false => true
      | RAny k1 => forallb (fun k => existsb (Nat.eqb k) k2) k1
      end
  end.

Definition table_conservative (table : tag -> rule) : bool :=
  forallb (fun t => rule_le (spec_rule t) (table t)) all_tags.
