(* ViewMacro/Pinned.v -- the classification table of the code as pinned (before the fix: commits),
   kept to state what was wrong: four syntactic positions were skipped. *)
From Coq Require Import List Bool.
From Syc Require Import ViewMacro.Syntax.
Import ListNotations.

Definition pinned_rule (t : tag) : rule :=
  match t with
  | EArray => RAny [0]
  | EAssign => RConst true
  | EAsync => RConst true
  | EAwait => RConst true
  | EBinary => RAny [0; 1]
  | EBlock => RAny [0]
  | EBreak => RConst false
  | ECall => RConst true
  | ECast => RAny [0]
  | EClosure => RConst false
  | EConst => RConst false
  | EContinue => RConst false
  | EField => RAny [0]
  | EForLoop => RAny [0; 1; 2]
  | EGroup => RAny [0]
  | EIf => RAny [0; 1; 2]
  | EIndex => RAny [0; 1]
  | EInfer => RConst true
  | ELet => RAny [0; 1]
  | ELit => RConst false
  | ELoop => RAny [0]
  | EMacroOther => RConst true
  | EMacroView => RConst false
  | EMatch => RAny [0; 1]
  | EMethodCall => RConst true
  | EParen => RAny [0]
  | EPath => RConst false
  | ERange => RAny [0; 1]
  | ERawAddr => RConst true
  | EReference => RConst true
  | ERepeat => RAny [0; 1]
  | EReturn => RConst true
  | EStruct => RAny [0]
  | ETry => RConst true
  | ETryBlock => RConst true
  | ETuple => RAny [0]
  | EUnary => RAny [0]
  | EUnsafe => RConst true
  | EVerbatim => RConst true
  | EWhile => RAny [0; 1]
  | EYield => RConst true
  | PConst => RConst false
  | PIdent => RAny [0]
  | PIdentRefMut => RConst true
  | PLit => RConst false
  | PMacroOther => RConst true
  | PMacroView => RConst true
  | POr => RAny [0]
  | PParen => RAny [0]
  | PPath => RConst false
  | PRange => RAny [0; 1]
  | PReference => RConst false
  | PReferenceMut => RConst true
  | PRest => RConst false
  | PSlice => RAny [0]
  | PStruct => RAny [0]
  | PTuple => RAny [0]
  | PTupleStruct => RAny [0]
  | PType => RConst false
  | PVerbatim => RConst true
  | PWild => RConst false
  | SExpr => RAny [0]
  | SItem => RConst false
  | SLocal => RAny [0; 1; 2]
  | SMacroOther => RConst true
  | SMacroView => RConst false
  | TArm => RAny [0; 1; 2]
  | TBlock => RAny [0]
  end.

Definition call := Node ECall [[Node EPath []]; []].
Definition mac := Node PMacroOther [].
(* Foo { a: 1, ..make() } *)
Definition w_struct_rest := Node EStruct [[Node ELit []]; [call]].
(* loop { break f(); } *)
Definition w_break_value := Node ELoop [[Node TBlock [[Node SExpr [[Node EBreak [[call]]]]]]]].
(* match x { &m!() => 1, _ => 2 } *)
Definition w_ref_pat :=
  Node EMatch [[Node EPath []];
               [Node TArm [[Node PReference [[mac]]]; []; [Node ELit []]];
                Node TArm [[Node PWild []]; []; [Node ELit []]]]].
(* { let m!(): T = 1; 2 } *)
Definition w_typed_pat :=
  Node EBlock [[Node TBlock [[Node SLocal [[Node PType [[mac]]]; [Node ELit []]; []];
                              Node SExpr [[Node ELit []]]]]]].

Definition pinned_witnesses := [w_struct_rest; w_break_value; w_ref_pat; w_typed_pat].

Lemma pinned_refuted :
  forallb (fun t => wf_tree t && contains_eval t && negb (classify pinned_rule t)) pinned_witnesses = true.
Proof. vm_compute. reflexivity. Qed.

Lemma pinned_table_not_conservative : table_conservative pinned_rule = false.
Proof. vm_compute. reflexivity. Qed.
