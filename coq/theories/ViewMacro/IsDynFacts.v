(* ViewMacro/IsDynFacts.v -- a classification table that dominates the specification table
   tag by tag classifies every tree at least as dynamic as the specification does. *)
From Coq Require Import List Bool Arith Lia.
From Syc Require Import ViewMacro.Syntax.
Import ListNotations.

Lemma all_tags_complete t : In t all_tags.
Proof. destruct t; cbn; tauto. Qed.

(* induction principle for the nested tree *)
Section TreeInd.
  Variable P : tree -> Prop.
  Hypothesis H : forall tg slots, Forall (Forall P) slots -> P (Node tg slots).
  Fixpoint tree_ind' (t : tree) : P t :=
    match t with
    | Node tg slots =>
        H tg slots
          ((fix go (ss : list (list tree)) : Forall (Forall P) ss :=
              match ss with
              | [] => Forall_nil _
              | s :: ss' =>
                  Forall_cons s
                    ((fix go1 (l : list tree) : Forall P l :=
                        match l with
                        | [] => Forall_nil _
                        | x :: l' => Forall_cons x (tree_ind' x) (go1 l')
                        end) s)
                    (go ss')
              end) slots)
    end.
End TreeInd.

Definition le_bool (a b : bool) : Prop := a = true -> b = true.

Lemma slot_any_mono v1 v2 k :
  Forall2 (Forall2 le_bool) v1 v2 -> slot_any v1 k = true -> slot_any v2 k = true.
Proof.
  unfold slot_any. intros HF. revert k. induction HF as [|a b v1' v2' Hab _ IH]; intros k.
  - destruct k; cbn; discriminate.
  - destruct k; cbn [nth].
    + clear IH. induction Hab as [|x y a' b' Hxy _ IH2]; cbn; [discriminate|].
      intros Hx. apply orb_true_iff in Hx as [Hx|Hx]; apply orb_true_iff.
      * left; apply Hxy; exact Hx.
      * right; apply IH2; exact Hx.
    + apply IH.
Qed.

Lemma rule_le_sound r1 r2 v1 v2 :
  rule_le r1 r2 = true -> Forall2 (Forall2 le_bool) v1 v2 ->
  apply_rule r1 v1 = true -> apply_rule r2 v2 = true.
Proof.
  intros Hle HF H1. destruct r2 as [[|]|k2]; [reflexivity| |].
  - destruct r1 as [[|]|[|k ks]]; cbn in *; discriminate.
  - destruct r1 as [[|]|k1]; cbn in *; try discriminate.
    apply existsb_exists in H1 as (k & Hk & Hs).
    rewrite forallb_forall in Hle. specialize (Hle k Hk).
    apply existsb_exists in Hle as (k' & Hk' & He). apply Nat.eqb_eq in He; subst k'.
    apply existsb_exists. exists k. split; [exact Hk'|]. eapply slot_any_mono; eassumption.
Qed.

Theorem classify_mono (tb1 tb2 : tag -> rule) :
  (forall t, rule_le (tb1 t) (tb2 t) = true) ->
  forall t, classify tb1 t = true -> classify tb2 t = true.
Proof.
  intros Hle. induction t as [tg slots IH] using tree_ind'. cbn [classify].
  apply rule_le_sound; [apply Hle|].
  induction IH as [|s ss Hs _ IHss]; cbn [map]; constructor; [|exact IHss].
  induction Hs as [|x l Hx _ IHl]; cbn [map]; constructor; [exact Hx|exact IHl].
Qed.

Theorem conservative_of_table table :
  table_conservative table = true ->
  forall t, contains_eval t = true -> classify table t = true.
Proof.
  intros Ht. apply classify_mono. intros t.
  unfold table_conservative in Ht. rewrite forallb_forall in Ht. apply Ht, all_tags_complete.
Qed.
