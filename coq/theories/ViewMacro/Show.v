(* ViewMacro/Show.v -- canonical output for the C18 correspondence *)
From Coq Require Import List String Bool.
From Syc Require Import Common.Show ViewMacro.Syntax Gen.C18Table.
Import ListNotations.
Open Scope string_scope.

(* one line per tree: <is_dyn> <contains_eval> <wf> *)
Definition run (ts : list tree) : string :=
  lines (map (fun t => show_bool (classify dyn_rule t) ++ show_bool (contains_eval t) ++ show_bool (wf_tree t)) ts).
