(* ViewMacro/TableOk.v -- the table regenerated from the Rust source dominates the specification *)
From Coq Require Import List Bool.
From Syc Require Import ViewMacro.Syntax ViewMacro.IsDynFacts Gen.C18Table.
Import ListNotations.

Definition is_dyn : tree -> bool := classify dyn_rule.

Lemma table_ok : table_conservative dyn_rule = true.
Proof. vm_compute. reflexivity. Qed.

Lemma is_dyn_conservative t : contains_eval t = true -> is_dyn t = true.
Proof. exact (conservative_of_table dyn_rule table_ok t). Qed.

Lemma static_is_eval_free t : is_dyn t = false -> contains_eval t = false.
Proof.
  intros H. destruct (contains_eval t) eqn:E; [|reflexivity].
  apply is_dyn_conservative in E. congruence.
Qed.

(* Codegen::node / Codegen::attribute wrap the value in a closure iff is_dyn *)
Inductive emitted := Static | Dynamic.
Definition codegen (t : tree) : emitted := if is_dyn t then Dynamic else Static.

Lemma codegen_wraps t : contains_eval t = true -> codegen t = Dynamic.
Proof. intros H. unfold codegen. rewrite (is_dyn_conservative t H). reflexivity. Qed.

(* non-vacuity: a static composition and a dynamic one *)
Example nonvacuous :
  let call := Node ECall [[Node EPath []]; []] in
  contains_eval (Node EBinary [[Node EPath []]; [call]]) = true /\
  is_dyn (Node EBinary [[Node EPath []]; [Node ELit []]]) = false.
Proof. split; vm_compute; reflexivity. Qed.
