(* Reactive/Interp.v -- executable model of sycamore-reactive's runtime
   (root.rs, node.rs, signals.rs, memos.rs, effects.rs, context.rs, utils.rs::on) as a fuelled
   big-step interpreter of the scenario language of Reactive/Syntax.v.

   Every place where the Rust code indexes the node table without a liveness check is a
   [Runtime k] error branch (k = the S<k> site of DESIGN.md Appendix B).
   [fx = false] is the code as pinned; [fx = true] the code after the "fix:" commits
   (nested batch, guarded accesses after disposal, unsubscription on dispose).
   Definitions only. *)
From stdpp Require Import gmap list.
From Coq Require Import ZArith.
From Syc Require Import Reactive.Syntax.
Open Scope Z_scope.

Inductive bind := BNode (id : nat) | BCell (c : nat).
Notation env := (list (nat * bind)).

Fixpoint lookup_env (x : nat) (e : env) : option bind :=
  match e with
  | [] => None
  | (y, b) :: r => if Nat.eqb x y then Some b else lookup_env x r
  end.

Inductive ckind := KMemo | KSel (k : Z) | KEffect.
Record clo := Clo { c_name : nat; c_kind : ckind; c_env : env; c_body : body }.
Record cleanup := Cleanup { cl_label : nat; cl_env : env; cl_ss : list stmt }.
Inductive mark := MNone | MTemp | MPerm.

Record node := Node {
  n_value : option Z;            (* None while taken out during the node's own update *)
  n_cb : option clo;
  n_children : list nat;
  n_parent : option nat;
  n_dependents : list nat;
  n_deps : list nat;
  n_cleanups : list cleanup;
  n_context : list (nat * Z);
  n_dirty : bool;
  n_mark : mark }.

Inductive ev :=
| EvRun (x : nat) | EvEnd (x : nat)
| EvRead (x : nat) (v : Z) (tracked : bool)
| EvEff (x : nat) (v : Z) | EvLog (v : Z) | EvCleanup (l : nat) | EvCtx (ty : nat) (v : option Z)
| EvBatch (start : bool) | EvReg (l : nat) | EvTrack (x : nat).

Record state := State {
  nodes : gmap nat node;
  next : nat;
  tracker : option (list nat);
  current : option nat;
  queue : list nat;
  batching : bool;
  cells : gmap nat Z;
  next_cell : nat;
  names : gmap nat nat;           (* program variable -> node id, latest binding (observation only) *)
  log : list ev }.                (* most recent first *)

Definition set_nodes (f : gmap nat node -> gmap nat node) (s : state) : state :=
  State (f (nodes s)) (next s) (tracker s) (current s) (queue s) (batching s) (cells s) (next_cell s) (names s) (log s).
Definition set_next (n : nat) (s : state) : state :=
  State (nodes s) n (tracker s) (current s) (queue s) (batching s) (cells s) (next_cell s) (names s) (log s).
Definition set_tracker (t : option (list nat)) (s : state) : state :=
  State (nodes s) (next s) t (current s) (queue s) (batching s) (cells s) (next_cell s) (names s) (log s).
Definition set_current (c : option nat) (s : state) : state :=
  State (nodes s) (next s) (tracker s) c (queue s) (batching s) (cells s) (next_cell s) (names s) (log s).
Definition set_queue (q : list nat) (s : state) : state :=
  State (nodes s) (next s) (tracker s) (current s) q (batching s) (cells s) (next_cell s) (names s) (log s).
Definition set_batching (b : bool) (s : state) : state :=
  State (nodes s) (next s) (tracker s) (current s) (queue s) b (cells s) (next_cell s) (names s) (log s).
Definition set_cells (f : gmap nat Z -> gmap nat Z) (s : state) : state :=
  State (nodes s) (next s) (tracker s) (current s) (queue s) (batching s) (f (cells s)) (next_cell s) (names s) (log s).
Definition set_next_cell (n : nat) (s : state) : state :=
  State (nodes s) (next s) (tracker s) (current s) (queue s) (batching s) (cells s) n (names s) (log s).
Definition set_names (f : gmap nat nat -> gmap nat nat) (s : state) : state :=
  State (nodes s) (next s) (tracker s) (current s) (queue s) (batching s) (cells s) (next_cell s) (f (names s)) (log s).
Definition emit (e : ev) (s : state) : state :=
  State (nodes s) (next s) (tracker s) (current s) (queue s) (batching s) (cells s) (next_cell s) (names s) (e :: log s).

Definition nd_value v (n : node) := Node v (n_cb n) (n_children n) (n_parent n) (n_dependents n) (n_deps n) (n_cleanups n) (n_context n) (n_dirty n) (n_mark n).
Definition nd_cb c (n : node) := Node (n_value n) c (n_children n) (n_parent n) (n_dependents n) (n_deps n) (n_cleanups n) (n_context n) (n_dirty n) (n_mark n).
Definition nd_children l (n : node) := Node (n_value n) (n_cb n) l (n_parent n) (n_dependents n) (n_deps n) (n_cleanups n) (n_context n) (n_dirty n) (n_mark n).
Definition nd_dependents (f : list nat -> list nat) (n : node) := Node (n_value n) (n_cb n) (n_children n) (n_parent n) (f (n_dependents n)) (n_deps n) (n_cleanups n) (n_context n) (n_dirty n) (n_mark n).
Definition nd_deps (f : list nat -> list nat) (n : node) := Node (n_value n) (n_cb n) (n_children n) (n_parent n) (n_dependents n) (f (n_deps n)) (n_cleanups n) (n_context n) (n_dirty n) (n_mark n).
Definition nd_cleanups l (n : node) := Node (n_value n) (n_cb n) (n_children n) (n_parent n) (n_dependents n) (n_deps n) l (n_context n) (n_dirty n) (n_mark n).
Definition nd_context l (n : node) := Node (n_value n) (n_cb n) (n_children n) (n_parent n) (n_dependents n) (n_deps n) (n_cleanups n) l (n_dirty n) (n_mark n).
Definition nd_dirty b (n : node) := Node (n_value n) (n_cb n) (n_children n) (n_parent n) (n_dependents n) (n_deps n) (n_cleanups n) (n_context n) b (n_mark n).
Definition nd_mark m (n : node) := Node (n_value n) (n_cb n) (n_children n) (n_parent n) (n_dependents n) (n_deps n) (n_cleanups n) (n_context n) (n_dirty n) m.

Definition upd (id : nat) (f : node -> node) (s : state) : state := set_nodes (alter f id) s.
Definition alive (id : nat) (s : state) : bool := bool_decide (is_Some (nodes s !! id)).
Definition remove_id (x : nat) (l : list nat) : list nat := filter (fun y => y ≠ x) l.

Inductive err :=
| UserDisposed      (* "signal was disposed", raised at the user's access *)
| UserUpdating      (* "cannot read signal while updating" / "cannot update signal while reading" *)
| DupContext | NoContext | Cyclic
| Runtime (site : nat)
| OutOfFuel | IllFormed.

Inductive res (A : Type) := Ok (a : A) (s : state) | Err (e : err) (s : state).
Arguments Ok {A}. Arguments Err {A}.

Definition bind_res {A B} (r : res A) (k : A -> state -> res B) : res B :=
  match r with Ok a s => k a s | Err e s => Err e s end.
Notation "'do' x , s <- r ; k" := (bind_res r (fun x s => k))
  (at level 200, x name, s name, r at level 100, k at level 200).

Section Runtime.
Variable fx : bool.

(* signals.rs create_empty_signal *)
Definition create_empty (s : state) : res nat :=
  let id := next s in
  let nd := Node None None [] (current s) [] [] [] [] false MNone in
  let s1 := set_next (S id) (set_nodes (insert id nd) s) in
  match current s with
  | None => Ok id s1
  | Some c =>
      if alive c s1 then Ok id (upd c (fun n => nd_children (n_children n ++ [id]) n) s1)
      else if fx then Ok id (set_next (S id) s)      (* owner already disposed: born dead *)
      else Err (Runtime 1) s1
  end.

Definition register (x id : nat) (s : state) : state := set_names (insert x id) s.

Definition track (id : nat) (s : state) : state :=
  match tracker s with
  | Some t => set_tracker (Some (t ++ [id])) s
  | None => s
  end.

Definition read (tracked : bool) (en : env) (x : nat) (s : state) : res Z :=
  match lookup_env x en with
  | Some (BNode id) =>
      let s1 := if tracked then track id s else s in
      match nodes s1 !! id with
      | None => Err UserDisposed s1
      | Some nd =>
          match n_value nd with
          | None => Err UserUpdating s1
          | Some v => Ok v (emit (EvRead x v tracked) s1)
          end
      end
  | _ => Err IllFormed s
  end.

Definition b2z (b : bool) : Z := if b then 1 else 0.

Fixpoint eval (en : env) (e : expr) (s : state) : res Z :=
  match e with
  | Lit z => Ok z s
  | Get x => read true en x s
  | GetU x => read false en x s
  | Add a b => do va, s1 <- eval en a s; do vb, s2 <- eval en b s1; Ok (va + vb) s2
  | Sub a b => do va, s1 <- eval en a s; do vb, s2 <- eval en b s1; Ok (va - vb) s2
  | Mul a b => do va, s1 <- eval en a s; do vb, s2 <- eval en b s1; Ok (va * vb) s2
  | Lt a b => do va, s1 <- eval en a s; do vb, s2 <- eval en b s1; Ok (b2z (va <? vb)) s2
  | Eq a b => do va, s1 <- eval en a s; do vb, s2 <- eval en b s1; Ok (b2z (va =? vb)) s2
  | Mod a k => do va, s1 <- eval en a s; Ok (va mod k) s1
  | Ite c a b => do vc, s1 <- eval en c s; if vc =? 0 then eval en b s1 else eval en a s1
  | Alive x =>
      match lookup_env x en with
      | Some (BNode id) => Ok (b2z (alive id s)) s
      | _ => Err IllFormed s
      end
  | CellGet c =>
      match lookup_env c en with
      | Some (BCell k) => match cells s !! k with Some v => Ok v s | None => Err IllFormed s end
      | _ => Err IllFormed s
      end
  end.

(* root.rs DependencyTracker::create_dependency_link *)
Fixpoint push_dependents (dependent : nat) (ts : list nat) (s : state) : res unit :=
  match ts with
  | [] => Ok tt s
  | d :: r =>
      if alive d s then push_dependents dependent r (upd d (nd_dependents (fun l => l ++ [dependent])) s)
      else if fx then push_dependents dependent r s
      else Err (Runtime 2) s
  end.
Definition link (dependent : nat) (ts : list nat) (s : state) : res unit :=
  do _, s1 <- push_dependents dependent ts s;
  if alive dependent s1 then
    let ts' := if fx then filter (fun d => alive d s1 = true) ts else ts in
    Ok tt (upd dependent (nd_deps (fun _ => ts')) s1)
  else if fx then Ok tt s1 else Err (Runtime 3) s1.

(* root.rs mark_dependents_dirty *)
Definition mark_dependents_dirty (n : nat) (s : state) : res unit :=
  match nodes s !! n with
  | None => if fx then Ok tt s else Err (Runtime 5) s
  | Some nd => Ok tt (foldr (fun d acc => upd d (nd_dirty true) acc) s (n_dependents nd))
  end.

(* root.rs dfs; [g] bounds the recursion depth (number of nodes + 1 is enough) *)
Fixpoint dfs (g : nat) (id : nat) (acc : state * list nat) : option (option (state * list nat)) :=
  (* None = out of fuel, Some None = cyclic *)
  match g with
  | O => None
  | S g' =>
      let '(s, buf) := acc in
      match nodes s !! id with
      | None => Some (Some acc)
      | Some nd =>
          match n_mark nd with
          | MTemp => Some None
          | MPerm => Some (Some acc)
          | MNone =>
              let s1 := upd id (nd_mark MTemp) s in
              let r := fold_left (fun a child =>
                         match a with
                         | Some (Some a') => dfs g' child a'
                         | o => o
                         end) (n_dependents nd) (Some (Some (s1, buf))) in
              match r with
              | Some (Some (s2, buf2)) => Some (Some (upd id (nd_mark MPerm) s2, buf2 ++ [id]))
              | o => o
              end
          end
      end
  end.

Definition unlink_deps (n : nat) (deps : list nat) (s : state) : res unit :=
  fold_left (fun r d =>
    do _, s1 <- r;
    if alive d s1 then Ok tt (upd d (nd_dependents (remove_id n)) s1) else Err (Runtime 6) s1)
    deps (Ok tt s).

Definition eqk (k : ckind) (new old : Z) : bool :=
  match k with
  | KMemo | KEffect => false
  | KSel k => if k =? 0 then new =? old else (new mod k) =? (old mod k)
  end.

Definition provide (ty : nat) (v : Z) (s : state) : res unit :=
  match current s with
  | None => if fx then Ok tt s else Err (Runtime 12) s
  | Some c =>
      match nodes s !! c with
      | None => if fx then Ok tt s else Err (Runtime 12) s
      | Some nd =>
          if existsb (fun p => Nat.eqb (fst p) ty) (n_context nd) then Err DupContext s
          else Ok tt (upd c (fun n => nd_context (n_context n ++ [(ty, v)]) n) s)
      end
  end.

Fixpoint ctx_find (ty : nat) (l : list (nat * Z)) : option Z :=
  match l with
  | [] => None
  | (t, v) :: r => if Nat.eqb t ty then Some v else ctx_find ty r
  end.

(* context.rs try_use_context: walk up the parent chain; [g] bounds the walk *)
Fixpoint use_ctx_from (g : nat) (ty : nat) (id : nat) (first : bool) (s : state) : res (option Z) :=
  match g with
  | O => Err OutOfFuel s
  | S g' =>
      match nodes s !! id with
      | None => if fx && negb first then Ok None s            (* fix of F21: a parent that is gone ends the walk *)
                else Err (Runtime (if first then 13 else 14)) s
      | Some nd =>
          match ctx_find ty (n_context nd) with
          | Some v => Ok (Some v) s
          | None =>
              match n_parent nd with
              | None => Ok None s
              | Some p => use_ctx_from g' ty p false s
              end
          end
      end
  end.
Definition try_use_context (ty : nat) (s : state) : res (option Z) :=
  match current s with
  | None => if fx then Ok None s else Err (Runtime 13) s
  | Some c =>
      if fx && negb (alive c s) then Ok None s
      else use_ctx_from (S (next s)) ty c true s
  end.

(* signals.rs update_silent with a plain replacement *)
Definition update_silent (id : nat) (v : Z) (s : state) : res unit :=
  match nodes s !! id with
  | None => Err UserDisposed s
  | Some nd =>
      match n_value nd with
      | None => Err UserUpdating s
      | Some _ => Ok tt (upd id (nd_value (Some v)) s)
      end
  end.

(* node.rs NodeHandle::dispose, first step (fix of F17): the node is unsubscribed from its dependencies before its
   cleanups run, so that a cleanup writing to one of them cannot re-run the node that is being disposed *)
Definition unsubscribe (id : nat) (s : state) : state :=
  if fx then
    match nodes s !! id with
    | Some this => foldr (fun d acc => upd d (nd_dependents (remove_id id)) acc) (upd id (nd_deps (fun _ => [])) s) (n_deps this)
    | None => s
    end
  else s.

(* ---------------------------------------------------------------------------------- *)
(* The part that runs user code: one mutual fixpoint on fuel.                          *)

Fixpoint exec (f : nat) (en : env) (ss : list stmt) (s : state) {struct f} : res env :=
  match f with
  | O => Err OutOfFuel s
  | S f' =>
      match ss with
      | [] => Ok en s
      | st :: rest => do en1, s1 <- exec1 f' en st s; exec f' en1 rest s1
      end
  end

with exec1 (f : nat) (en : env) (st : stmt) (s : state) {struct f} : res env :=
  match f with
  | O => Err OutOfFuel s
  | S f' =>
      match st with
      | SSignal x e =>
          do v, s1 <- eval en e s;
          do id, s2 <- create_empty s1;
          Ok ((x, BNode id) :: en) (register x id (upd id (nd_value (Some v)) s2))
      | SMemo x b => create_computation f' en x KMemo b s
      | SSelector x k b => create_computation f' en x (KSel k) b s
      | SEffect x b => create_computation f' en x KEffect b s
      | SScope x ss =>
          (* create_child_scope: a unit signal; ownership boundary, not a tracking boundary *)
          do id, s1 <- create_empty s;
          let s2 := register x id (upd id (nd_value (Some 0)) s1) in
          let prev := current s2 in
          do _, s3 <- exec f' en ss (set_current (Some id) s2);
          Ok ((x, BNode id) :: en) (set_current prev s3)
      | SCurScope x =>
          match current s with
          | Some c => Ok ((x, BNode c) :: en) s
          | None => Err IllFormed s
          end
      | SSet x e =>
          do v, s1 <- eval en e s;
          match lookup_env x en with
          | Some (BNode id) =>
              do _, s2 <- update_silent id v s1;
              do _, s3 <- propagate_updates f' id s2;
              Ok en s3
          | _ => Err IllFormed s1
          end
      | SSetSilent x e =>
          do v, s1 <- eval en e s;
          match lookup_env x en with
          | Some (BNode id) => do _, s2 <- update_silent id v s1; Ok en s2
          | _ => Err IllFormed s1
          end
      | SDispose x =>
          match lookup_env x en with
          | Some (BNode id) => do _, s1 <- dispose f' id s; Ok en s1
          | _ => Err IllFormed s
          end
      | SBatch ss =>
          let was := batching s in
          do _, s1 <- exec f' en ss (emit (EvBatch true) (set_batching true s));
          if fx && was then Ok en (emit (EvBatch false) s1)
          else
            let q := queue s1 in
            do _, s2 <- propagate f' q (set_queue [] (set_batching false (emit (EvBatch false) s1)));
            Ok en s2
      | SUntrack ss | SComponent ss =>
          let prev := tracker s in
          do _, s1 <- exec f' en ss (set_tracker None s);
          Ok en (set_tracker prev s1)
      | SOnCleanup l ss =>
          match current s with
          | None => Ok en (emit (EvReg l) s)
          | Some c =>
              if alive c s then Ok en (upd c (fun n => nd_cleanups (n_cleanups n ++ [Cleanup l en ss]) n) (emit (EvReg l) s))
              else if fx then
                (* the scope is already disposed: the cleanup runs at once, untracked *)
                let prevt := tracker s in
                do _, s1 <- exec f' en ss (emit (EvCleanup l) (set_tracker None (emit (EvReg l) s)));
                Ok en (set_tracker prevt s1)
              else Err (Runtime 10) s
          end
      | SProvide ty e =>
          do v, s1 <- eval en e s;
          do _, s2 <- provide ty v s1;
          Ok en s2
      | SUseCtx ty =>
          do r, s1 <- try_use_context ty s;
          Ok en (emit (EvCtx ty r) s1)
      | SRunIn x ss =>
          match lookup_env x en with
          | Some (BNode id) =>
              let prev := current s in
              do _, s1 <- exec f' en ss (set_current (Some id) s);
              Ok en (set_current prev s1)
          | _ => Err IllFormed s
          end
      | STrack x =>
          match lookup_env x en with
          | Some (BNode id) => Ok en (emit (EvTrack x) (track id s))
          | _ => Err IllFormed s
          end
      | SIf e a b =>
          do v, s1 <- eval en e s;
          do _, s2 <- exec f' en (if v =? 0 then b else a) s1;
          Ok en s2
      | SCellNew c e =>
          do v, s1 <- eval en e s;
          let k := next_cell s1 in
          Ok ((c, BCell k) :: en) (set_next_cell (S k) (set_cells (insert k v) s1))
      | SCellSet c e =>
          do v, s1 <- eval en e s;
          match lookup_env c en with
          | Some (BCell k) => Ok en (set_cells (insert k v) s1)
          | _ => Err IllFormed s1
          end
      | SLog e => do v, s1 <- eval en e s; Ok en (emit (EvLog v) s1)
      end
  end

(* the user function of a memo / selector / effect: optional on(deps, ..), statements, result *)
with run_body (f : nat) (c : clo) (s : state) {struct f} : res Z :=
  match f with
  | O => Err OutOfFuel s
  | S f' =>
      let '(Body on ss ret) := c_body c in
      let s0 := emit (EvRun (c_name c)) s in
      let fin (v : Z) (s : state) : res Z :=
        Ok v (emit (EvEnd (c_name c))
                (match c_kind c with KEffect => emit (EvEff (c_name c) v) s | _ => s end)) in
      match on with
      | None =>
          do en1, s1 <- exec f' (c_env c) ss s0;
          do v, s2 <- eval en1 ret s1;
          fin v s2
      | Some deps =>
          let tr := fold_left (fun (r : option state) x =>
                      match r with
                      | Some s => match lookup_env x (c_env c) with
                                  | Some (BNode id) => Some (emit (EvTrack x) (track id s))
                                  | _ => None
                                  end
                      | None => None
                      end) deps (Some s0) in
          match tr with
          | None => Err IllFormed s0
          | Some s1 =>
              let prev := tracker s1 in
              do en1, s2 <- exec f' (c_env c) ss (set_tracker None s1);
              do v, s3 <- eval en1 ret s2;
              fin v (set_tracker prev s3)
          end
      end
  end

(* memos.rs create_selector_with (create_memo, create_effect are instances) *)
with create_computation (f : nat) (en : env) (x : nat) (k : ckind) (b : body) (s : state) {struct f} : res env :=
  match f with
  | O => Err OutOfFuel s
  | S f' =>
      do id, s1 <- create_empty s;
      let s2 := register x id s1 in
      let c := Clo x k en b in
      let prev := current s2 in
      let prevt := tracker s2 in
      do v, s3 <- run_body f' c (set_tracker (Some []) (set_current (Some id) s2));
      let tracked := match tracker s3 with Some t => t | None => [] end in
      let s4 := set_current prev (set_tracker prevt s3) in
      if fx && negb (alive id s4) then
        (* the computation destroyed itself during its first run *)
        Ok ((x, BNode id) :: en) s4
      else
      do _, s5 <- link id tracked s4;
      if alive id s5 then
        Ok ((x, BNode id) :: en)
           (upd id (fun n => nd_cb (Some c) (nd_value (Some (match k with KEffect => 0 | _ => v end)) n)) s5)
      else Err (Runtime 4) s5
  end

(* node.rs NodeHandle::dispose *)
with dispose (f : nat) (id : nat) (s : state) {struct f} : res unit :=
  match f with
  | O => Err OutOfFuel s
  | S f' =>
      do _, s1 <- dispose_children f' id (unsubscribe id s);
      match nodes s1 !! id with
      | None => Ok tt s1
      | Some this =>
          let s2 := set_nodes (delete id) s1 in
          let s3 := foldr (fun d acc => upd d (nd_deps (remove_id id)) acc) s2 (n_dependents this) in
          let s4 := if fx then foldr (fun d acc => upd d (nd_dependents (remove_id id)) acc) s3 (n_deps this)
                    else s3 in
          Ok tt s4
      end
  end

(* node.rs NodeHandle::dispose_children *)
with dispose_children (f : nat) (id : nat) (s : state) {struct f} : res unit :=
  match f with
  | O => Err OutOfFuel s
  | S f' =>
      match nodes s !! id with
      | None => Ok tt s
      | Some nd =>
          let s1 := upd id (fun n => nd_children [] (nd_cleanups [] n)) s in
          let prevt := tracker s1 in
          do _, s2 <- run_cleanups f' (n_cleanups nd) (set_tracker None s1);
          let s3 := set_tracker prevt s2 in
          do _, s4 <- dispose_list f' (n_children nd) s3;
          match nodes s4 !! id with
          | Some nd' =>
              (* fix of F20: cleanups may have created nodes / registered cleanups in this very scope: go round again *)
              if fx && negb (match n_cleanups nd', n_children nd' with [], [] => true | _, _ => false end)
              then dispose_children f' id s4
              else Ok tt (upd id (nd_context []) s4)
          | None => if fx then Ok tt s4 else Err (Runtime 11) s4
          end
      end
  end

with run_cleanups (f : nat) (cs : list cleanup) (s : state) {struct f} : res unit :=
  match f with
  | O => Err OutOfFuel s
  | S f' =>
      match cs with
      | [] => Ok tt s
      | c :: r =>
          do _, s1 <- exec f' (cl_env c) (cl_ss c) (emit (EvCleanup (cl_label c)) s);
          run_cleanups f' r s1
      end
  end

with dispose_list (f : nat) (ids : list nat) (s : state) {struct f} : res unit :=
  match f with
  | O => Err OutOfFuel s
  | S f' =>
      match ids with
      | [] => Ok tt s
      | i :: r => do _, s1 <- dispose f' i s; dispose_list f' r s1
      end
  end

(* root.rs run_node_update *)
with run_node_update (f : nat) (n : nat) (s : state) {struct f} : res unit :=
  match f with
  | O => Err OutOfFuel s
  | S f' =>
      match nodes s !! n with
      | None => Err (Runtime 0) s          (* callers check liveness first *)
      | Some nd =>
          let s1 := upd n (nd_deps (fun _ => [])) s in
          do _, s2 <- unlink_deps n (n_deps nd) s1;
          match n_cb nd, n_value nd with
          | None, _ => Err (Runtime 7) s2
          | _, None => Err (Runtime 8) s2
          | Some c, Some old =>
              let s3 := upd n (fun x => nd_cb None (nd_value None x)) s2 in
              do _, s4 <- dispose_children f' n s3;
              (* a cleanup callback of the previous run may have disposed this very node (or the scope that owns it):
                 a destroyed computation must not run again *)
              if fx && negb (alive n s4) then Ok tt s4
              else
              let prev := current s4 in
              let prevt := tracker s4 in
              do new, s5 <- run_body f' c (set_tracker (Some []) (set_current (Some n) s4));
              let changed := negb (eqk (c_kind c) new old) in
              let value := if changed then (match c_kind c with KEffect => 0 | _ => new end) else old in
              let tracked := match tracker s5 with Some t => t | None => [] end in
              let s6 := set_current prev (set_tracker prevt s5) in
              if fx && negb (alive n s6) then Ok tt s6
              else
              do _, s7 <- link n tracked s6;
              if alive n s7 then
                let s8 := upd n (fun x => nd_dirty false (nd_cb (Some c) (nd_value (Some value) x))) s7 in
                if changed then mark_dependents_dirty n s8 else Ok tt s8
              else Err (Runtime 9) s7
          end
      end
  end

(* root.rs propagate_node_updates: second loop *)
with loop (f : nat) (order : list nat) (s : state) {struct f} : res unit :=
  match f with
  | O => Err OutOfFuel s
  | S f' =>
      match order with
      | [] => Ok tt s
      | n :: rest =>
          match nodes s !! n with
          | None => loop f' rest s
          | Some nd =>
              let s1 := upd n (nd_mark MNone) s in
              if n_dirty nd then do _, s2 <- run_node_update f' n s1; loop f' rest s2
              else loop f' rest s1
          end
      end
  end

(* root.rs propagate_node_updates *)
with propagate (f : nat) (starts : list nat) (s : state) {struct f} : res unit :=
  match f with
  | O => Err OutOfFuel s
  | S f' =>
      let g := S (size (nodes s)) in
      let r := fold_left (fun (a : res (list nat)) start =>
                 do buf, s1 <- a;
                 match dfs g start (s1, buf) with
                 | None => Err OutOfFuel s1
                 | Some None => Err Cyclic s1
                 | Some (Some (s2, buf2)) => do _, s3 <- mark_dependents_dirty start s2; Ok buf2 s3
                 end) starts (Ok [] s) in
      do buf, s1 <- r;
      loop f' (rev buf) s1
  end

with propagate_updates (f : nat) (id : nat) (s : state) {struct f} : res unit :=
  match f with
  | O => Err OutOfFuel s
  | S f' =>
      if batching s then Ok tt (set_queue (queue s ++ [id]) s)
      else propagate f' [id] s
  end.

(* one-step unfolding lemmas (generated from the definitions above; all by reflexivity) *)
Lemma exec_S (f' : nat) (en : env) (ss : list stmt) (s : state) :
  exec (S f') en ss s =
      match ss with
      | [] => Ok en s
      | st :: rest => do en1, s1 <- exec1 f' en st s; exec f' en1 rest s1
      end.
Proof. reflexivity. Qed.

Lemma exec_O (en : env) (ss : list stmt) (s : state) : exec O en ss s = Err OutOfFuel s.
Proof. reflexivity. Qed.

Lemma exec1_S (f' : nat) (en : env) (st : stmt) (s : state) :
  exec1 (S f') en st s =
      match st with
      | SSignal x e =>
          do v, s1 <- eval en e s;
          do id, s2 <- create_empty s1;
          Ok ((x, BNode id) :: en) (register x id (upd id (nd_value (Some v)) s2))
      | SMemo x b => create_computation f' en x KMemo b s
      | SSelector x k b => create_computation f' en x (KSel k) b s
      | SEffect x b => create_computation f' en x KEffect b s
      | SScope x ss =>
          (* create_child_scope: a unit signal; ownership boundary, not a tracking boundary *)
          do id, s1 <- create_empty s;
          let s2 := register x id (upd id (nd_value (Some 0)) s1) in
          let prev := current s2 in
          do _, s3 <- exec f' en ss (set_current (Some id) s2);
          Ok ((x, BNode id) :: en) (set_current prev s3)
      | SCurScope x =>
          match current s with
          | Some c => Ok ((x, BNode c) :: en) s
          | None => Err IllFormed s
          end
      | SSet x e =>
          do v, s1 <- eval en e s;
          match lookup_env x en with
          | Some (BNode id) =>
              do _, s2 <- update_silent id v s1;
              do _, s3 <- propagate_updates f' id s2;
              Ok en s3
          | _ => Err IllFormed s1
          end
      | SSetSilent x e =>
          do v, s1 <- eval en e s;
          match lookup_env x en with
          | Some (BNode id) => do _, s2 <- update_silent id v s1; Ok en s2
          | _ => Err IllFormed s1
          end
      | SDispose x =>
          match lookup_env x en with
          | Some (BNode id) => do _, s1 <- dispose f' id s; Ok en s1
          | _ => Err IllFormed s
          end
      | SBatch ss =>
          let was := batching s in
          do _, s1 <- exec f' en ss (emit (EvBatch true) (set_batching true s));
          if fx && was then Ok en (emit (EvBatch false) s1)
          else
            let q := queue s1 in
            do _, s2 <- propagate f' q (set_queue [] (set_batching false (emit (EvBatch false) s1)));
            Ok en s2
      | SUntrack ss | SComponent ss =>
          let prev := tracker s in
          do _, s1 <- exec f' en ss (set_tracker None s);
          Ok en (set_tracker prev s1)
      | SOnCleanup l ss =>
          match current s with
          | None => Ok en (emit (EvReg l) s)
          | Some c =>
              if alive c s then Ok en (upd c (fun n => nd_cleanups (n_cleanups n ++ [Cleanup l en ss]) n) (emit (EvReg l) s))
              else if fx then
                (* the scope is already disposed: the cleanup runs at once, untracked *)
                let prevt := tracker s in
                do _, s1 <- exec f' en ss (emit (EvCleanup l) (set_tracker None (emit (EvReg l) s)));
                Ok en (set_tracker prevt s1)
              else Err (Runtime 10) s
          end
      | SProvide ty e =>
          do v, s1 <- eval en e s;
          do _, s2 <- provide ty v s1;
          Ok en s2
      | SUseCtx ty =>
          do r, s1 <- try_use_context ty s;
          Ok en (emit (EvCtx ty r) s1)
      | SRunIn x ss =>
          match lookup_env x en with
          | Some (BNode id) =>
              let prev := current s in
              do _, s1 <- exec f' en ss (set_current (Some id) s);
              Ok en (set_current prev s1)
          | _ => Err IllFormed s
          end
      | STrack x =>
          match lookup_env x en with
          | Some (BNode id) => Ok en (emit (EvTrack x) (track id s))
          | _ => Err IllFormed s
          end
      | SIf e a b =>
          do v, s1 <- eval en e s;
          do _, s2 <- exec f' en (if v =? 0 then b else a) s1;
          Ok en s2
      | SCellNew c e =>
          do v, s1 <- eval en e s;
          let k := next_cell s1 in
          Ok ((c, BCell k) :: en) (set_next_cell (S k) (set_cells (insert k v) s1))
      | SCellSet c e =>
          do v, s1 <- eval en e s;
          match lookup_env c en with
          | Some (BCell k) => Ok en (set_cells (insert k v) s1)
          | _ => Err IllFormed s1
          end
      | SLog e => do v, s1 <- eval en e s; Ok en (emit (EvLog v) s1)
      end.
Proof. reflexivity. Qed.

Lemma exec1_O (en : env) (st : stmt) (s : state) : exec1 O en st s = Err OutOfFuel s.
Proof. reflexivity. Qed.

Lemma run_body_S (f' : nat) (c : clo) (s : state) :
  run_body (S f') c s =
      let '(Body on ss ret) := c_body c in
      let s0 := emit (EvRun (c_name c)) s in
      let fin (v : Z) (s : state) : res Z :=
        Ok v (emit (EvEnd (c_name c))
                (match c_kind c with KEffect => emit (EvEff (c_name c) v) s | _ => s end)) in
      match on with
      | None =>
          do en1, s1 <- exec f' (c_env c) ss s0;
          do v, s2 <- eval en1 ret s1;
          fin v s2
      | Some deps =>
          let tr := fold_left (fun (r : option state) x =>
                      match r with
                      | Some s => match lookup_env x (c_env c) with
                                  | Some (BNode id) => Some (emit (EvTrack x) (track id s))
                                  | _ => None
                                  end
                      | None => None
                      end) deps (Some s0) in
          match tr with
          | None => Err IllFormed s0
          | Some s1 =>
              let prev := tracker s1 in
              do en1, s2 <- exec f' (c_env c) ss (set_tracker None s1);
              do v, s3 <- eval en1 ret s2;
              fin v (set_tracker prev s3)
          end
      end.
Proof. reflexivity. Qed.

Lemma run_body_O (c : clo) (s : state) : run_body O c s = Err OutOfFuel s.
Proof. reflexivity. Qed.

Lemma create_computation_S (f' : nat) (en : env) (x : nat) (k : ckind) (b : body) (s : state) :
  create_computation (S f') en x k b s =
      do id, s1 <- create_empty s;
      let s2 := register x id s1 in
      let c := Clo x k en b in
      let prev := current s2 in
      let prevt := tracker s2 in
      do v, s3 <- run_body f' c (set_tracker (Some []) (set_current (Some id) s2));
      let tracked := match tracker s3 with Some t => t | None => [] end in
      let s4 := set_current prev (set_tracker prevt s3) in
      if fx && negb (alive id s4) then
        (* the computation destroyed itself during its first run *)
        Ok ((x, BNode id) :: en) s4
      else
      do _, s5 <- link id tracked s4;
      if alive id s5 then
        Ok ((x, BNode id) :: en)
           (upd id (fun n => nd_cb (Some c) (nd_value (Some (match k with KEffect => 0 | _ => v end)) n)) s5)
      else Err (Runtime 4) s5.
Proof. reflexivity. Qed.

Lemma create_computation_O (en : env) (x : nat) (k : ckind) (b : body) (s : state) : create_computation O en x k b s = Err OutOfFuel s.
Proof. reflexivity. Qed.

Lemma dispose_S (f' : nat) (id : nat) (s : state) :
  dispose (S f') id s =
      do _, s1 <- dispose_children f' id (unsubscribe id s);
      match nodes s1 !! id with
      | None => Ok tt s1
      | Some this =>
          let s2 := set_nodes (delete id) s1 in
          let s3 := foldr (fun d acc => upd d (nd_deps (remove_id id)) acc) s2 (n_dependents this) in
          let s4 := if fx then foldr (fun d acc => upd d (nd_dependents (remove_id id)) acc) s3 (n_deps this)
                    else s3 in
          Ok tt s4
      end.
Proof. reflexivity. Qed.

Lemma dispose_O (id : nat) (s : state) : dispose O id s = Err OutOfFuel s.
Proof. reflexivity. Qed.

Lemma dispose_children_S (f' : nat) (id : nat) (s : state) :
  dispose_children (S f') id s =
      match nodes s !! id with
      | None => Ok tt s
      | Some nd =>
          let s1 := upd id (fun n => nd_children [] (nd_cleanups [] n)) s in
          let prevt := tracker s1 in
          do _, s2 <- run_cleanups f' (n_cleanups nd) (set_tracker None s1);
          let s3 := set_tracker prevt s2 in
          do _, s4 <- dispose_list f' (n_children nd) s3;
          match nodes s4 !! id with
          | Some nd' =>
              (* fix of F20: cleanups may have created nodes / registered cleanups in this very scope: go round again *)
              if fx && negb (match n_cleanups nd', n_children nd' with [], [] => true | _, _ => false end)
              then dispose_children f' id s4
              else Ok tt (upd id (nd_context []) s4)
          | None => if fx then Ok tt s4 else Err (Runtime 11) s4
          end
      end.
Proof. reflexivity. Qed.

Lemma dispose_children_O (id : nat) (s : state) : dispose_children O id s = Err OutOfFuel s.
Proof. reflexivity. Qed.

Lemma run_cleanups_S (f' : nat) (cs : list cleanup) (s : state) :
  run_cleanups (S f') cs s =
      match cs with
      | [] => Ok tt s
      | c :: r =>
          do _, s1 <- exec f' (cl_env c) (cl_ss c) (emit (EvCleanup (cl_label c)) s);
          run_cleanups f' r s1
      end.
Proof. reflexivity. Qed.

Lemma run_cleanups_O (cs : list cleanup) (s : state) : run_cleanups O cs s = Err OutOfFuel s.
Proof. reflexivity. Qed.

Lemma dispose_list_S (f' : nat) (ids : list nat) (s : state) :
  dispose_list (S f') ids s =
      match ids with
      | [] => Ok tt s
      | i :: r => do _, s1 <- dispose f' i s; dispose_list f' r s1
      end.
Proof. reflexivity. Qed.

Lemma dispose_list_O (ids : list nat) (s : state) : dispose_list O ids s = Err OutOfFuel s.
Proof. reflexivity. Qed.

Lemma run_node_update_S (f' : nat) (n : nat) (s : state) :
  run_node_update (S f') n s =
      match nodes s !! n with
      | None => Err (Runtime 0) s          (* callers check liveness first *)
      | Some nd =>
          let s1 := upd n (nd_deps (fun _ => [])) s in
          do _, s2 <- unlink_deps n (n_deps nd) s1;
          match n_cb nd, n_value nd with
          | None, _ => Err (Runtime 7) s2
          | _, None => Err (Runtime 8) s2
          | Some c, Some old =>
              let s3 := upd n (fun x => nd_cb None (nd_value None x)) s2 in
              do _, s4 <- dispose_children f' n s3;
              (* a cleanup callback of the previous run may have disposed this very node (or the scope that owns it):
                 a destroyed computation must not run again *)
              if fx && negb (alive n s4) then Ok tt s4
              else
              let prev := current s4 in
              let prevt := tracker s4 in
              do new, s5 <- run_body f' c (set_tracker (Some []) (set_current (Some n) s4));
              let changed := negb (eqk (c_kind c) new old) in
              let value := if changed then (match c_kind c with KEffect => 0 | _ => new end) else old in
              let tracked := match tracker s5 with Some t => t | None => [] end in
              let s6 := set_current prev (set_tracker prevt s5) in
              if fx && negb (alive n s6) then Ok tt s6
              else
              do _, s7 <- link n tracked s6;
              if alive n s7 then
                let s8 := upd n (fun x => nd_dirty false (nd_cb (Some c) (nd_value (Some value) x))) s7 in
                if changed then mark_dependents_dirty n s8 else Ok tt s8
              else Err (Runtime 9) s7
          end
      end.
Proof. reflexivity. Qed.

Lemma run_node_update_O (n : nat) (s : state) : run_node_update O n s = Err OutOfFuel s.
Proof. reflexivity. Qed.

Lemma loop_S (f' : nat) (order : list nat) (s : state) :
  loop (S f') order s =
      match order with
      | [] => Ok tt s
      | n :: rest =>
          match nodes s !! n with
          | None => loop f' rest s
          | Some nd =>
              let s1 := upd n (nd_mark MNone) s in
              if n_dirty nd then do _, s2 <- run_node_update f' n s1; loop f' rest s2
              else loop f' rest s1
          end
      end.
Proof. reflexivity. Qed.

Lemma loop_O (order : list nat) (s : state) : loop O order s = Err OutOfFuel s.
Proof. reflexivity. Qed.

Lemma propagate_S (f' : nat) (starts : list nat) (s : state) :
  propagate (S f') starts s =
      let g := S (size (nodes s)) in
      let r := fold_left (fun (a : res (list nat)) start =>
                 do buf, s1 <- a;
                 match dfs g start (s1, buf) with
                 | None => Err OutOfFuel s1
                 | Some None => Err Cyclic s1
                 | Some (Some (s2, buf2)) => do _, s3 <- mark_dependents_dirty start s2; Ok buf2 s3
                 end) starts (Ok [] s) in
      do buf, s1 <- r;
      loop f' (rev buf) s1.
Proof. reflexivity. Qed.

Lemma propagate_O (starts : list nat) (s : state) : propagate O starts s = Err OutOfFuel s.
Proof. reflexivity. Qed.

Lemma propagate_updates_S (f' : nat) (id : nat) (s : state) :
  propagate_updates (S f') id s =
      if batching s then Ok tt (set_queue (queue s ++ [id]) s)
      else propagate f' [id] s.
Proof. reflexivity. Qed.

Lemma propagate_updates_O (id : nat) (s : state) : propagate_updates O id s = Err OutOfFuel s.
Proof. reflexivity. Qed.

End Runtime.
