(* Reactive/RerunGuard.v -- C04 / C11: a computation that a cleanup callback of its previous run has disposed does not
   run again.

   [run_node_update] takes the callback out of the node, calls [dispose_children] -- which runs the cleanups that the
   previous run registered -- and then runs the callback.  A cleanup may dispose the node itself, or a scope that owns
   it.  The repaired code (fx = true) looks the node up again right after [dispose_children] and returns when it is gone.

   No invariant is needed: the statements hold for every state, every node and every amount of fuel; the last theorem
   of the first part shows that their hypotheses hold by construction where [loop] calls [run_node_update]. *)
From stdpp Require Import gmap list.
From Coq Require Import ZArith Lia.
From Syc Require Import Reactive.Syntax Reactive.Interp Reactive.Show Reactive.Frame Reactive.NoPanic Reactive.WF.

(* ---------------------------------------------------------------------------------- *)
(* [run_node_update], cut at the new check *)

(* the state in which [dispose_children] is called: callback and value taken out, old dependency edges removed *)
Definition rnu_taken (n : nat) (s2 : state) : state := upd n (fun x => nd_cb None (nd_value None x)) s2.

(* everything after the check: run the callback, link the new dependencies, store the value, mark the dependents *)
Definition rnu_rest (fx : bool) (f : nat) (n : nat) (c : clo) (old : Z) (s4 : state) : res unit :=
  let prev := current s4 in
  let prevt := tracker s4 in
  do new, s5 <- run_body fx f c (set_tracker (Some []) (set_current (Some n) s4));
  let changed := negb (eqk (c_kind c) new old) in
  let value := if changed then (match c_kind c with KEffect => 0 | _ => new end)%Z else old in
  let tracked := match tracker s5 with Some t => t | None => [] end in
  let s6 := set_current prev (set_tracker prevt s5) in
  if fx && negb (alive n s6) then Ok tt s6
  else
  do _, s7 <- link fx n tracked s6;
  if alive n s7 then
    let s8 := upd n (fun x => nd_dirty false (nd_cb (Some c) (nd_value (Some value) x))) s7 in
    if changed then mark_dependents_dirty fx n s8 else Ok tt s8
  else Err (Runtime 9) s7.

(* for both versions of the code: the pinned one (fx = false) always goes on to [rnu_rest] *)
Lemma run_node_update_cut : forall fx f n s nd c old s2 s4,
  nodes s !! n = Some nd -> n_cb nd = Some c -> n_value nd = Some old ->
  unlink_deps n (n_deps nd) (upd n (nd_deps (fun _ => [])) s) = Ok tt s2 ->
  dispose_children fx f n (rnu_taken n s2) = Ok tt s4 ->
  run_node_update fx (S f) n s = if fx && negb (alive n s4) then Ok tt s4 else rnu_rest fx f n c old s4.
Proof.
  intros fx f n s nd c old s2 s4 Hn Hc Hv Hu Hd.
  rewrite run_node_update_S, Hn. cbv zeta. rewrite Hu. cbn [bind_res]. rewrite Hc, Hv.
  unfold rnu_taken in Hd. rewrite Hd. cbn [bind_res]. reflexivity.
Qed.

(* ---------------------------------------------------------------------------------- *)
(* the main statement: the cleanups of the previous run left the node dead => the update ends there, in the state that
   [dispose_children] returned: the callback is not run, nothing is linked, nothing is marked *)

Theorem run_node_update_disposed_by_cleanup : forall f n s nd c old s2 s4,
  nodes s !! n = Some nd -> n_cb nd = Some c -> n_value nd = Some old ->
  unlink_deps n (n_deps nd) (upd n (nd_deps (fun _ => [])) s) = Ok tt s2 ->
  dispose_children true f n (upd n (fun x => nd_cb None (nd_value None x)) s2) = Ok tt s4 ->
  alive n s4 = false ->
  run_node_update true (S f) n s = Ok tt s4.
Proof.
  intros f n s nd c old s2 s4 Hn Hc Hv Hu Hd Ha.
  rewrite (run_node_update_cut true f n s nd c old s2 s4 Hn Hc Hv Hu Hd), Ha. reflexivity.
Qed.

(* the other branch: the node survived its cleanups => the update is the rest *)
Theorem run_node_update_survived_cleanups : forall f n s nd c old s2 s4,
  nodes s !! n = Some nd -> n_cb nd = Some c -> n_value nd = Some old ->
  unlink_deps n (n_deps nd) (upd n (nd_deps (fun _ => [])) s) = Ok tt s2 ->
  dispose_children true f n (upd n (fun x => nd_cb None (nd_value None x)) s2) = Ok tt s4 ->
  alive n s4 = true ->
  run_node_update true (S f) n s = rnu_rest true f n c old s4.
Proof.
  intros f n s nd c old s2 s4 Hn Hc Hv Hu Hd Ha.
  rewrite (run_node_update_cut true f n s nd c old s2 s4 Hn Hc Hv Hu Hd), Ha. reflexivity.
Qed.

(* ---------------------------------------------------------------------------------- *)
(* in terms of the event log.  Every execution of a callback starts by emitting [EvRun name] ... *)

Lemma on_track_logext c deps : forall (a : option state) s1,
  fold_left (fun (r : option state) x =>
     match r with
     | Some s => match lookup_env x (c_env c) with
                 | Some (BNode id) => Some (emit (EvTrack x) (track id s))
                 | _ => None
                 end
     | None => None
     end) deps a = Some s1 ->
  exists s0, a = Some s0 /\ logext s0 s1.
Proof.
  induction deps as [|x deps IH]; intros a s1 H; cbn [fold_left] in H.
  - exists s1. split; [exact H|apply logext_refl].
  - destruct (IH _ _ H) as (s0' & H0 & Hl). destruct a as [s|]; [|discriminate].
    destruct (lookup_env x (c_env c)) as [[id|k]|]; try discriminate.
    inversion H0; subst s0'. exists s. split; [reflexivity|].
    eapply logext_trans; [|exact Hl]. unfold logext. cbn. rewrite track_log. apply lsuffix_cons, lsuffix_refl.
Qed.

Lemma run_body_emits_run : forall f c s,
  exists l, log (st_of (run_body true (S f) c s)) = l ++ EvRun (c_name c) :: log s.
Proof.
  intros f c s. change (logext (emit (EvRun (c_name c)) s) (st_of (run_body true (S f) c s))).
  rewrite run_body_S. destruct (c_body c) as [on ss ret]. cbv zeta.
  destruct (lext_all f) as (Hexec & _).
  assert (Hfin : forall (v : Z) (s' : state),
            logext s' (emit (EvEnd (c_name c)) match c_kind c with KEffect => emit (EvEff (c_name c) v) s' | _ => s' end)).
  { intros v s'. unfold logext. destruct (c_kind c); cbn; repeat apply lsuffix_cons; apply lsuffix_refl. }
  destruct on as [deps|].
  - match goal with |- context [fold_left ?g deps ?a] => destruct (fold_left g deps a) as [s1|] eqn:Ef end;
      [|apply logext_refl].
    destruct (on_track_logext _ _ _ _ Ef) as (s0 & E0 & Hl). inversion E0; subst s0.
    eapply logext_trans; [exact Hl|].
    apply (lext_bind s1).
    + apply (logext_log s1 (set_tracker None s1)); [reflexivity|apply Hexec].
    + intros en1 s2 _. apply lext_bind; [apply eval_lext|]. intros v s3 _. apply (Hfin v (set_tracker (tracker s1) s3)).
  - apply (lext_bind (emit (EvRun (c_name c)) s)); [apply Hexec|].
    intros en1 s1 _. apply lext_bind; [apply eval_lext|]. intros v s2 _. apply Hfin.
Qed.

(* ... so the two branches are told apart by the log: when the node survived, [EvRun] of the callback follows the events
   of the cleanups; when it did not, the log is the one [dispose_children] left (previous theorem: the state is [s4]) *)
Lemma rnu_rest_runs_body : forall f n c old s4,
  exists l, log (st_of (rnu_rest true (S f) n c old s4)) = l ++ EvRun (c_name c) :: log s4.
Proof.
  intros f n c old s4. unfold rnu_rest. cbv zeta.
  set (B := set_tracker (Some []) (set_current (Some n) s4)).
  destruct (run_body_emits_run f c B) as [l Hl]. change (log B) with (log s4) in Hl.
  destruct (run_body true (S f) c B) as [new s5|e s5]; cbn [bind_res st_of] in *; [|exists l; exact Hl].
  set (s6 := set_current (current s4) (set_tracker (tracker s4) s5)).
  destruct (alive n s6); cbn [andb negb st_of]; [|exists l; exact Hl].
  pose proof (link_log true n (match tracker s5 with Some t => t | None => [] end) s6) as H7.
  destruct (link true n (match tracker s5 with Some t => t | None => [] end) s6) as [[] s7|e s7];
    cbn [bind_res st_of] in *; [|exists l; rewrite H7; exact Hl].
  destruct (alive n s7); [|exists l; cbn [st_of]; rewrite H7; exact Hl].
  match goal with |- context [if ?b then _ else _] => destruct b end.
  - rewrite mark_dependents_dirty_log. cbn. exists l. rewrite H7. exact Hl.
  - cbn. exists l. rewrite H7. exact Hl.
Qed.

Definition runs (x : nat) (evs : list ev) : nat :=
  length (List.filter (fun e => match e with EvRun y => Nat.eqb y x | _ => false end) evs).

Lemma runs_app x l1 l2 : runs x (l1 ++ l2) = (runs x l1 + runs x l2)%nat.
Proof. unfold runs. rewrite List.filter_app, app_length. reflexivity. Qed.

(* the repaired behaviour in one statement: with the hypotheses that name the intermediate states, the callback of the
   node is run by this update if and only if the node is still alive after the cleanups of its previous run; when it is
   not, the number of its [EvRun] events is the one reached when [dispose_children] returned *)
Theorem destroyed_computation_not_rerun : forall f n s nd c old s2 s4,
  nodes s !! n = Some nd -> n_cb nd = Some c -> n_value nd = Some old ->
  unlink_deps n (n_deps nd) (upd n (nd_deps (fun _ => [])) s) = Ok tt s2 ->
  dispose_children true (S f) n (upd n (fun x => nd_cb None (nd_value None x)) s2) = Ok tt s4 ->
  let r := run_node_update true (S (S f)) n s in
  (alive n s4 = false -> r = Ok tt s4 /\ runs (c_name c) (log (st_of r)) = runs (c_name c) (log s4)) /\
  (alive n s4 = true -> (runs (c_name c) (log (st_of r)) > runs (c_name c) (log s4))%nat).
Proof.
  intros f n s nd c old s2 s4 Hn Hc Hv Hu Hd r. split; intros Ha.
  - assert (E : r = Ok tt s4) by (eapply run_node_update_disposed_by_cleanup; eassumption).
    split; [exact E|]. rewrite E. reflexivity.
  - unfold r. rewrite (run_node_update_survived_cleanups (S f) n s nd c old s2 s4 Hn Hc Hv Hu Hd Ha).
    destruct (rnu_rest_runs_body f n c old s4) as [l ->].
    rewrite runs_app. unfold runs at 2. cbn [List.filter]. rewrite Nat.eqb_refl. cbn [length].
    fold (runs (c_name c) (log s4)). lia.
Qed.

(* the hypotheses above hold by construction where [loop] calls [run_node_update]: in a well-formed state a live, dirty
   node whose value is in place has its callback in place and its dependency edges can be removed; the update is then
   exactly: the cleanups and children of the previous run, the liveness check, the rest *)
Theorem run_node_update_wf_cut : forall f n s nd old,
  WF s -> nodes s !! n = Some nd -> n_value nd = Some old -> n_dirty nd = true ->
  exists c s2,
    n_cb nd = Some c /\
    unlink_deps n (n_deps nd) (upd n (nd_deps (fun _ => [])) s) = Ok tt s2 /\
    run_node_update true (S f) n s =
      (do _, s4 <- dispose_children true f n (rnu_taken n s2);
       if alive n s4 then rnu_rest true f n c old s4 else Ok tt s4).
Proof.
  intros f n s nd old W Hn Hv Hd.
  destruct (n_cb nd) as [c|] eqn:Hc.
  2:{ exfalso. destruct (wf_dirty _ _ _ _ W _ _ Hn Hd) as [Hx|Hx]; congruence. }
  destruct (unsubscribe_run s n nd W Hn) as (s2 & H2 & _).
  exists c, s2. split; [reflexivity|]. split; [exact H2|].
  rewrite run_node_update_S, Hn. cbv zeta. rewrite H2. cbn [bind_res]. rewrite Hc, Hv.
  unfold rnu_taken. destruct (dispose_children true f n _) as [[] s4|e s4]; cbn [bind_res]; [|reflexivity].
  destruct (alive n s4); reflexivity.
Qed.

Print Assumptions run_node_update_cut.
Print Assumptions run_node_update_disposed_by_cleanup.
Print Assumptions run_node_update_survived_cleanups.
Print Assumptions destroyed_computation_not_rerun.
Print Assumptions run_node_update_wf_cut.

(* ---------------------------------------------------------------------------------- *)
(* examples *)

Open Scope Z_scope.

(* an effect whose cleanup disposes the effect itself ([SCurScope] inside a callback names the computation's own node),
   then two writes to the signal it read *)
Definition rg_self : list stmt :=
  [SSignal 1 (Lit 0);
   SEffect 3 (Body None [SCurScope 4; SOnCleanup 1 [SDispose 4]] (Get 1));
   SSet 1 (Lit 1);
   SSet 1 (Lit 2)].

(* the same with a cleanup that disposes the scope owning the effect *)
Definition rg_owner : list stmt :=
  [SSignal 1 (Lit 0);
   SScope 2 [SCurScope 4; SEffect 3 (Body None [SOnCleanup 1 [SDispose 4]] (Get 1))];
   SSet 1 (Lit 1);
   SSet 1 (Lit 2)].

Definition rg_events (r : res env) : option (list ev) := match r with Ok _ s => Some (rev (log s)) | Err _ _ => None end.

(* the body runs once, at creation; the first write runs the cleanup, which destroys the effect: no second [EvRun 3],
   no second [EvEff 3]; the second write finds no subscriber *)
Example rg_self_not_rerun :
  rg_events (exec true 400 root_env rg_self init_state)
  = Some [EvRun 3; EvReg 1; EvRead 1 0 true; EvEff 3 0; EvEnd 3; EvCleanup 1].
Proof. vm_compute. reflexivity. Qed.

Example rg_owner_not_rerun :
  rg_events (exec true 400 root_env rg_owner init_state)
  = Some [EvRun 3; EvReg 1; EvRead 1 0 true; EvEff 3 0; EvEnd 3; EvCleanup 1].
Proof. vm_compute. reflexivity. Qed.

Example rg_self_final_state :
  match exec true 400 root_env rg_self init_state with
  | Ok _ s => runs 3 (log s) = 1%nat /\ size (nodes s) = 2%nat /\ reachable s = 2%nat /\ alive 2 s = false
  | Err _ _ => False
  end.
Proof. vm_compute. repeat split; reflexivity. Qed.

(* the hypotheses of the theorems are satisfiable: the state after the first two statements of [rg_self], node 2 (the
   effect): its cleanup disposes it, [dispose_children] returns a state in which it is dead *)
Definition rg_pre : state :=
  match exec true 100 root_env (firstn 2 rg_self) init_state with Ok _ s => s | Err _ s => s end.

Example rg_hypotheses_dead : exists nd c old s2 s4,
  nodes rg_pre !! 2%nat = Some nd /\ n_cb nd = Some c /\ n_value nd = Some old /\
  unlink_deps 2 (n_deps nd) (upd 2 (nd_deps (fun _ => [])) rg_pre) = Ok tt s2 /\
  dispose_children true 50 2 (upd 2 (fun x => nd_cb None (nd_value None x)) s2) = Ok tt s4 /\
  alive 2 s4 = false /\ c_name c = 3%nat /\
  run_node_update true 51 2 rg_pre = Ok tt s4.
Proof.
  eexists. eexists. eexists. eexists. eexists.
  split; [vm_compute; reflexivity|]. split; [reflexivity|]. split; [reflexivity|].
  split; [vm_compute; reflexivity|]. split; [vm_compute; reflexivity|].
  split; [vm_compute; reflexivity|]. split; [reflexivity|]. vm_compute. reflexivity.
Qed.

(* ... and the other branch: an effect with a harmless cleanup survives and runs *)
Definition rg_pre_alive : state :=
  match exec true 100 root_env [SSignal 1 (Lit 0); SEffect 3 (Body None [SOnCleanup 1 []] (Get 1))] init_state with
  | Ok _ s => s | Err _ s => s end.

Example rg_hypotheses_alive : exists nd c old s2 s4,
  nodes rg_pre_alive !! 2%nat = Some nd /\ n_cb nd = Some c /\ n_value nd = Some old /\
  unlink_deps 2 (n_deps nd) (upd 2 (nd_deps (fun _ => [])) rg_pre_alive) = Ok tt s2 /\
  dispose_children true 50 2 (upd 2 (fun x => nd_cb None (nd_value None x)) s2) = Ok tt s4 /\
  alive 2 s4 = true /\ c_name c = 3%nat /\
  runs 3 (log s4) = 1%nat /\ runs 3 (log (st_of (run_node_update true 51 2 rg_pre_alive))) = 2%nat.
Proof.
  eexists. eexists. eexists. eexists. eexists.
  split; [vm_compute; reflexivity|]. split; [reflexivity|]. split; [reflexivity|].
  split; [vm_compute; reflexivity|]. split; [vm_compute; reflexivity|].
  split; [vm_compute; reflexivity|]. split; [reflexivity|]. split; vm_compute; reflexivity.
Qed.

(* the pinned code (fx = false) never got that far on these programs: [dispose_children] itself indexes the node that
   its cleanup removed (site 11) *)
Example rg_self_pinned_panics :
  match exec false 400 root_env rg_self init_state with Err (Runtime 11) _ => True | _ => False end.
Proof. vm_compute. exact I. Qed.

(* the hypotheses of [run_node_update_wf_cut] are satisfiable: a state reached by a program (hence well formed) with a
   live dirty node -- the inner effect is re-created while the outer one re-runs, reads the memo before the memo's own
   update, and is marked dirty by that update after the order of this propagation was fixed *)
Definition rg_dirty_prog : list stmt :=
  [SSignal 1 (Lit 0); SMemo 2 (Body None [] (Get 1));
   SEffect 3 (Body None [SEffect 4 (Body None [] (Get 2))] (Get 1));
   SSet 1 (Lit 1)].
Definition rg_dirty : state :=
  match exec true 400 root_env rg_dirty_prog init_state with Ok _ s => s | Err _ s => s end.

Example rg_wf_hypotheses :
  WF rg_dirty /\ exists nd old, nodes rg_dirty !! 5%nat = Some nd /\ n_value nd = Some old /\ n_dirty nd = true.
Proof.
  split.
  - unfold rg_dirty. destruct (exec true 400 root_env rg_dirty_prog init_state) as [en s|e s] eqn:E.
    + eapply WF_exec; [apply WF_init|exact E].
    + vm_compute in E. discriminate.
  - eexists. eexists. split; [vm_compute; reflexivity|]. split; reflexivity.
Qed.

(* the printed form compared with the Rust driver *)
From Coq Require Import String.
From Syc Require Import Common.Show.
Example rg_self_printed :
  run_scenario true 400 rg_self =
  lines
   ["snap n=2 r=2 | 0:1:0:d=[]:s=0/0:0 | 1:1:0:d=[]:s=0/0:0";
    "run 3"; "reg 1"; "read 1 0 1"; "eff 3 0"; "end 3";
    "snap n=3 r=3 | 0:1:0:d=[]:s=0/0:0 | 1:1:0:d=[]:s=1/0:0 | 3:1:0:d=[1]:s=0/0:0";
    "cleanup 1";
    "snap n=2 r=2 | 0:1:0:d=[]:s=0/0:0 | 1:1:1:d=[]:s=0/0:0 | 3:0";
    "snap n=2 r=2 | 0:1:0:d=[]:s=0/0:0 | 1:1:2:d=[]:s=0/0:0 | 3:0"]%string.
Proof. vm_compute. reflexivity. Qed.
