(* Reactive/ContextFacts.v -- C16: context lookup walks the ownership chain to the nearest provision *)
From stdpp Require Import gmap list.
From Coq Require Import ZArith Lia.
From Syc Require Import Reactive.Syntax Reactive.Interp.

(* the nearest enclosing provision of [ty] seen from node [id], as a relation written from the property text *)
Inductive nearest (s : state) (ty : nat) : nat -> option Z -> Prop :=
| near_here id nd v :
    nodes s !! id = Some nd -> ctx_find ty (n_context nd) = Some v -> nearest s ty id (Some v)
| near_up id nd p r :
    nodes s !! id = Some nd -> ctx_find ty (n_context nd) = None -> n_parent nd = Some p ->
    nearest s ty p r -> nearest s ty id r
| near_top id nd :
    nodes s !! id = Some nd -> ctx_find ty (n_context nd) = None -> n_parent nd = None ->
    nearest s ty id None
(* a scope that is already gone provides nothing and ends the walk (its children can outlive it while it is being disposed) *)
| near_gone id : nodes s !! id = None -> nearest s ty id None.

(* whenever the walk answers, it answers with the nearest provision, and it changes nothing *)
Lemma use_ctx_from_nearest fx g : forall ty id first s r s',
  use_ctx_from fx g ty id first s = Ok r s' -> nearest s ty id r /\ s' = s.
Proof.
  induction g as [|g IH]; intros ty id first s r s' H; cbn in H; [discriminate|].
  destruct (nodes s !! id) as [nd|] eqn:Hn.
  2:{ destruct (fx && negb first); [|discriminate]. inversion H; subst. split; [|reflexivity]. apply near_gone; exact Hn. }
  destruct (ctx_find ty (n_context nd)) as [v|] eqn:Hc.
  - inversion H; subst. split; [|reflexivity]. eapply near_here; eassumption.
  - destruct (n_parent nd) as [p|] eqn:Hp.
    + destruct (IH _ _ _ _ _ _ H) as [Hr ->]. split; [|reflexivity]. eapply near_up; eassumption.
    + inversion H; subst. split; [|reflexivity]. eapply near_top; eassumption.
Qed.

(* the relation is functional: there is exactly one nearest provision *)
Lemma nearest_functional s ty id r1 r2 : nearest s ty id r1 -> nearest s ty id r2 -> r1 = r2.
Proof.
  intros H1; revert r2; induction H1 as [id nd v Hn Hc|id nd p r Hn Hc Hp _ IH|id nd Hn Hc Hp|id Hn]; intros r2 H2;
    inversion H2 as [id' nd' v' Hn' Hc'|id' nd' p' r' Hn' Hc' Hp' Hr'|id' nd' Hn' Hc' Hp'|id' Hn']; subst;
    try (rewrite Hn in Hn'; inversion Hn'; subst); try congruence.
  rewrite Hp in Hp'; inversion Hp'; subst. apply IH; assumption.
Qed.

(* the walk is total when parents are older than their children (ids are handed out in creation order) *)
Definition parents_older (s : state) : Prop :=
  forall id nd p, nodes s !! id = Some nd -> n_parent nd = Some p -> (p < id)%nat /\ is_Some (nodes s !! p).

Lemma use_ctx_from_total fx s ty : parents_older s ->
  forall g id first, (id < g)%nat -> is_Some (nodes s !! id) ->
  exists r, use_ctx_from fx g ty id first s = Ok r s.
Proof.
  intros Hpo g. induction g as [|g IH]; intros id first Hlt [nd Hn]; [lia|].
  cbn. rewrite Hn. destruct (ctx_find ty (n_context nd)) as [v|]; [eauto|].
  destruct (n_parent nd) as [p|] eqn:Hp; [|eauto].
  destruct (Hpo _ _ _ Hn Hp) as [Hlt' Hs]. apply IH; [lia|exact Hs].
Qed.

Theorem try_use_context_nearest fx s ty r s' :
  try_use_context fx ty s = Ok r s' ->
  s' = s /\ match current s with
            | Some c => (is_Some (nodes s !! c) -> nearest s ty c r) /\ (nodes s !! c = None -> r = None)
            | None => r = None
            end.
Proof.
  unfold try_use_context. destruct (current s) as [c|].
  - destruct (fx && negb (alive c s)) eqn:E.
    + intros H; inversion H; subst. split; [reflexivity|]. split; [|reflexivity].
      intros Hs. apply andb_prop in E as [_ E]. unfold alive in E.
      rewrite bool_decide_eq_true_2 in E by exact Hs. discriminate.
    + intros H. destruct (use_ctx_from_nearest _ _ _ _ _ _ _ _ H) as [Hn ->]. split; [reflexivity|].
      split; [intros _; exact Hn|]. intros Hd. inversion Hn; congruence.
  - destruct fx; [|discriminate]. intros H; inversion H; subst. split; reflexivity.
Qed.

(* an inner provision shadows an outer one only below itself *)
Lemma shadow_local s ty id nd v : nodes s !! id = Some nd -> ctx_find ty (n_context nd) = Some v ->
  forall r, nearest s ty id r -> r = Some v.
Proof. intros Hn Hc r Hr. eapply nearest_functional; [exact Hr|]. eapply near_here; eassumption. Qed.

(* providing the same type twice in one scope panics; a fresh type is appended *)
Lemma provide_duplicate fx ty v s c nd :
  current s = Some c -> nodes s !! c = Some nd -> ctx_find ty (n_context nd) <> None ->
  provide fx ty v s = Err DupContext s.
Proof.
  intros Hc Hn Hf. unfold provide. rewrite Hc, Hn.
  assert (H : existsb (fun p => Nat.eqb (fst p) ty) (n_context nd) = true).
  { induction (n_context nd) as [|[t z] l IH]; cbn in *; [congruence|].
    destruct (Nat.eqb t ty); [reflexivity|]. cbn. apply IH, Hf. }
  rewrite H. reflexivity.
Qed.

Lemma ctx_find_app ty l t v : ctx_find ty l = None -> ctx_find ty (l ++ [(t, v)]) = if Nat.eqb t ty then Some v else None.
Proof.
  induction l as [|[t' z] l IH]; cbn; [reflexivity|]. destruct (Nat.eqb t' ty); [discriminate|]. exact IH.
Qed.

Lemma provide_fresh fx ty v s c nd :
  current s = Some c -> nodes s !! c = Some nd -> ctx_find ty (n_context nd) = None ->
  exists s', provide fx ty v s = Ok tt s' /\ nearest s' ty c (Some v).
Proof.
  intros Hc Hn Hf. unfold provide. rewrite Hc, Hn.
  assert (H : existsb (fun p => Nat.eqb (fst p) ty) (n_context nd) = false).
  { induction (n_context nd) as [|[t z] l IH]; cbn in *; [reflexivity|].
    destruct (Nat.eqb t ty); [discriminate|]. cbn. apply IH, Hf. }
  rewrite H. eexists; split; [reflexivity|].
  eapply near_here.
  - cbn. rewrite lookup_alter, Hn. reflexivity.
  - cbn. rewrite ctx_find_app by exact Hf. rewrite Nat.eqb_refl. reflexivity.
Qed.

(* a context provided during a run disappears when the computation re-runs or its children are disposed:
   dispose_children ends by clearing the context list of a surviving node *)
Lemma dispose_children_clears fx f id : forall s s',
  dispose_children fx f id s = Ok tt s' ->
  forall nd, nodes s' !! id = Some nd -> n_context nd = [].
Proof.
  induction f as [|f IH]; intros s s'; [rewrite dispose_children_O; discriminate|rewrite dispose_children_S].
  destruct (nodes s !! id) as [nd0|] eqn:Hn.
  2:{ intros H; inversion H; subst. intros nd Hnd. congruence. }
  cbv zeta.
  match goal with |- context [run_cleanups ?a ?b ?c ?d] => destruct (run_cleanups a b c d) as [[] s2|e s2] end; cbn; [|discriminate].
  match goal with |- context [dispose_list ?a ?b ?c ?d] => destruct (dispose_list a b c d) as [[] s4|e s4] end; cbn; [|discriminate].
  destruct (nodes s4 !! id) as [nd'|] eqn:Hn4.
  - match goal with |- context [if ?c then _ else _] => destruct c end.
    + apply IH.
    + intros H; inversion H; subst. intros nd. cbn. rewrite lookup_alter, Hn4. cbn.
      intros H1; inversion H1; reflexivity.
  - destruct fx; [|discriminate]. intros H; inversion H; subst. intros nd Hnd. congruence.
Qed.
