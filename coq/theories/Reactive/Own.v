(* Reactive/Own.v -- C04 / C11: ownership.  Children lists and parent pointers mirror each other and every live
   node has a live owner -- except, transiently, the nodes that an active dispose_children has taken out of
   their owner's list (the set P below); cleanups are conserved: registered = emitted + still pending.
   Everything here is independent of the edge invariant WF. *)
From stdpp Require Import gmap list.
From Coq Require Import ZArith Lia.
From Syc Require Import Reactive.Syntax Reactive.Interp Reactive.Show Reactive.Frame Reactive.NoPanic.

Notation nmap := (gmap nat node).
Local Open Scope nat_scope.

(* ---------------------------------------------------------------------------------- *)
(* counting cleanups *)

Definition lab (l : nat) (c : cleanup) : nat := if Nat.eqb (cl_label c) l then 1 else 0.
Definition cnt (l : nat) (cs : list cleanup) : nat := sum_list_with (lab l) cs.
Definition evE (l : nat) (e : ev) : nat := match e with EvCleanup k => if Nat.eqb k l then 1 else 0 | _ => 0 end.
Definition evR (l : nat) (e : ev) : nat := match e with EvReg k => if Nat.eqb k l then 1 else 0 | _ => 0 end.
Definition cntE (l : nat) (evs : list ev) : nat := sum_list_with (evE l) evs.
Definition cntR (l : nat) (evs : list ev) : nat := sum_list_with (evR l) evs.

Lemma cnt_app l a b : cnt l (a ++ b) = cnt l a + cnt l b.
Proof. apply sum_list_with_app. Qed.

Lemma sum_list_with_perm {A} (f : A -> nat) l k : l ≡ₚ k -> sum_list_with f l = sum_list_with f k.
Proof. induction 1; cbn; lia. Qed.

(* cleanups pending on live nodes, per label *)
Definition pendc (l : nat) (m : gmap nat (list cleanup)) : nat :=
  sum_list_with (fun kv => cnt l (snd kv)) (map_to_list m).
Definition pendm (l : nat) (m : nmap) : nat := pendc l (n_cleanups <$> m).
Definition pend (l : nat) (s : state) : nat := pendm l (nodes s).

Lemma pendc_insert l m i x : m !! i = None -> pendc l (<[i:=x]> m) = cnt l x + pendc l m.
Proof. intros H. unfold pendc. rewrite (sum_list_with_perm _ _ _ (map_to_list_insert m i x H)). reflexivity. Qed.

Lemma pendc_delete l m i x : m !! i = Some x -> pendc l m = cnt l x + pendc l (delete i m).
Proof. intros H. unfold pendc. rewrite <- (sum_list_with_perm _ _ _ (map_to_list_delete m i x H)). reflexivity. Qed.

Lemma pendm_insert l (m : nmap) i nd : m !! i = None -> pendm l (<[i:=nd]> m) = cnt l (n_cleanups nd) + pendm l m.
Proof. intros H. unfold pendm. rewrite fmap_insert. apply pendc_insert. rewrite lookup_fmap, H. reflexivity. Qed.

Lemma pendm_delete l (m : nmap) i nd : m !! i = Some nd -> pendm l m = cnt l (n_cleanups nd) + pendm l (delete i m).
Proof. intros H. unfold pendm. rewrite fmap_delete. apply pendc_delete. rewrite lookup_fmap, H. reflexivity. Qed.

Lemma pendm_ext l (m m' : nmap) : (forall n, n_cleanups <$> m !! n = n_cleanups <$> m' !! n) -> pendm l m = pendm l m'.
Proof. intros H. unfold pendm. f_equal. apply map_eq. intros n. rewrite !lookup_fmap. apply H. Qed.

Lemma pendm_alter l (m : nmap) i f nd : m !! i = Some nd ->
  pendm l (alter f i m) + cnt l (n_cleanups nd) = pendm l m + cnt l (n_cleanups (f nd)).
Proof.
  intros H. rewrite (pendm_delete l m i nd H).
  assert (E : alter f i m = <[i := f nd]> (delete i m)).
  { apply map_eq. intros n. destruct (decide (n = i)) as [->|Hne].
    - rewrite lookup_alter, H, lookup_insert. reflexivity.
    - rewrite lookup_alter_ne, lookup_insert_ne, lookup_delete_ne by congruence. reflexivity. }
  rewrite E, pendm_insert by apply lookup_delete. lia.
Qed.

Lemma pendm_alter_same l (m : nmap) i f : (forall nd, n_cleanups (f nd) = n_cleanups nd) -> pendm l (alter f i m) = pendm l m.
Proof.
  intros Hf. apply pendm_ext. intros n. destruct (decide (n = i)) as [->|Hne].
  - rewrite lookup_alter. destruct (m !! i); cbn; [rewrite Hf|]; reflexivity.
  - rewrite lookup_alter_ne by congruence. reflexivity.
Qed.

(* ---------------------------------------------------------------------------------- *)
(* environments mention existing nodes only *)

Definition env_ok (nx : nat) (en : env) : Prop :=
  forall x id, lookup_env x en = Some (BNode id) -> (id < nx)%nat.

Lemma env_ok_mono nx nx' en : (nx <= nx')%nat -> env_ok nx en -> env_ok nx' en.
Proof. intros L H x id Hx. specialize (H x id Hx). lia. Qed.

Lemma env_ok_node nx en x id : (id < nx)%nat -> env_ok nx en -> env_ok nx ((x, BNode id) :: en).
Proof.
  intros Hlt H y i Hy. cbn in Hy. destruct (Nat.eqb y x); [inversion Hy; subst; exact Hlt|exact (H y i Hy)].
Qed.

Lemma env_ok_cell nx en x k : env_ok nx en -> env_ok nx ((x, BCell k) :: en).
Proof. intros H y i Hy. cbn in Hy. destruct (Nat.eqb y x); [discriminate|exact (H y i Hy)]. Qed.

Lemma env_ok_root : env_ok 1 root_env.
Proof. intros x id H. unfold root_env in H. cbn in H. destruct (Nat.eqb x 0); inversion H; subst. lia. Qed.

(* ---------------------------------------------------------------------------------- *)
(* the ownership invariant, relative to a set P of nodes that an active dispose_children has taken out of their
   owner's child list and will dispose *)

Record OWNc (P : nat -> Prop) (m : nmap) (nx : nat) (cur : option nat) : Prop := {
  od_dom : forall n, is_Some (m !! n) -> (n < nx)%nat;
  od_cur : exists c, cur = Some c /\ (c < nx)%nat;
  (* an owner is older than what it owns; a live node is listed by its live owner, or is in P *)
  od_parent : forall n nd p, m !! n = Some nd -> n_parent nd = Some p ->
      (p < n)%nat /\ (P n \/ exists pp, m !! p = Some pp /\ In n (n_children pp));
  (* node 0 is the only node without owner *)
  od_root : forall n nd, m !! n = Some nd -> n_parent nd = None -> n = 0%nat;
  (* a live node listed as a child points back to the node that lists it *)
  od_child : forall p pp c, m !! p = Some pp -> In c (n_children pp) ->
      (c < nx)%nat /\ forall cc, m !! c = Some cc -> n_parent cc = Some p;
  (* stored closures and cleanups mention existing nodes only *)
  od_cb : forall n nd c, m !! n = Some nd -> n_cb nd = Some c -> env_ok nx (c_env c);
  od_cl : forall n nd cl, m !! n = Some nd -> In cl (n_cleanups nd) -> env_ok nx (cl_env cl) }.

Definition OWN (P : nat -> Prop) (s : state) : Prop := OWNc P (nodes s) (next s) (current s).

Definition none : nat -> Prop := fun _ => False.

Lemma OWN_shrink (P P' : nat -> Prop) s :
  (forall n, P' n -> is_Some (nodes s !! n) -> P n) -> OWN P' s -> OWN P s.
Proof.
  intros H W. constructor; try apply W.
  intros n nd p Hn Hp. destruct (od_parent _ _ _ _ W _ _ _ Hn Hp) as [L [HP|HL]]; split; try exact L; [left|right; exact HL].
  apply H; [exact HP|eauto].
Qed.

(* what a call leaves alone: no node is resurrected and owner pointers never change *)
Definition pframec (m : nmap) (nx : nat) (m' : nmap) (nx' : nat) : Prop :=
  (nx <= nx')%nat /\
  forall n nd', m' !! n = Some nd' -> (n < nx)%nat -> exists nd, m !! n = Some nd /\ n_parent nd = n_parent nd'.
Definition pframe (s s' : state) : Prop := pframec (nodes s) (next s) (nodes s') (next s').

Lemma pframec_refl m nx : pframec m nx m nx.
Proof. split; [lia|]. intros n nd' H _. eauto. Qed.

Lemma pframec_trans m1 n1 m2 n2 m3 n3 : pframec m1 n1 m2 n2 -> pframec m2 n2 m3 n3 -> pframec m1 n1 m3 n3.
Proof.
  intros [L1 F1] [L2 F2]. split; [lia|]. intros n nd3 H3 Hlt.
  destruct (F2 n nd3 H3) as (nd2 & H2 & E2); [lia|]. destruct (F1 n nd2 H2 Hlt) as (nd1 & H1 & E1).
  exists nd1. split; [exact H1|congruence].
Qed.

(* the three facts established for every step: the invariant, the frame, and the cleanup balance with offset k *)
Definition balance (k : nat -> nat) (s s' : state) : Prop :=
  forall l, cntE l (log s') + pend l s' + cntR l (log s) = cntE l (log s) + pend l s + cntR l (log s') + k l.
Definition zero : nat -> nat := fun _ => 0%nat.

Definition OK3 (P : nat -> Prop) (k : nat -> nat) (s s' : state) : Prop :=
  OWN P s' /\ pframe s s' /\ balance k s s'.

Lemma OK3_refl P s : OWN P s -> OK3 P zero s s.
Proof. intros W. split; [exact W|]. split; [apply pframec_refl|]. intros l. unfold zero. lia. Qed.

Lemma OK3_trans P k1 k2 k s1 s2 s3 : (forall l, k l = k1 l + k2 l)%nat ->
  OK3 P k1 s1 s2 -> OK3 P k2 s2 s3 -> OK3 P k s1 s3.
Proof.
  intros Hk (_ & F1 & B1) (W & F2 & B2). split; [exact W|]. split; [eapply pframec_trans; eassumption|].
  intros l. specialize (B1 l). specialize (B2 l). rewrite Hk. lia.
Qed.

Lemma OK3_trans0 P s1 s2 s3 : OK3 P zero s1 s2 -> OK3 P zero s2 s3 -> OK3 P zero s1 s3.
Proof. apply OK3_trans. reflexivity. Qed.

(* ---------------------------------------------------------------------------------- *)
(* steps that touch none of: owner, children, cleanups, callback *)

Definition seqn (a b : node) : Prop :=
  n_parent b = n_parent a /\ n_children b = n_children a /\ n_cleanups b = n_cleanups a /\ n_cb b = n_cb a.
Definition seqo (a b : option node) : Prop :=
  match a, b with Some a, Some b => seqn a b | None, None => True | _, _ => False end.
Definition lsame (s s' : state) : Prop :=
  forall l, cntE l (log s') = cntE l (log s) /\ cntR l (log s') = cntR l (log s).
Definition sq (s s' : state) : Prop :=
  next s' = next s /\ current s' = current s /\ lsame s s' /\ forall n, seqo (nodes s !! n) (nodes s' !! n).

Lemma seqo_refl a : seqo a a.
Proof. destruct a; cbn; [repeat split|exact I]. Qed.
Lemma seqo_trans a b c : seqo a b -> seqo b c -> seqo a c.
Proof. destruct a, b, c; cbn; try tauto. unfold seqn. intuition congruence. Qed.

Lemma sq_refl s : sq s s.
Proof. repeat split; intros; apply seqo_refl. Qed.
Lemma sq_trans s1 s2 s3 : sq s1 s2 -> sq s2 s3 -> sq s1 s3.
Proof.
  intros (A1 & A2 & A3 & A4) (B1 & B2 & B3 & B4). split; [congruence|]. split; [congruence|]. split.
  - intros l. destruct (A3 l), (B3 l). split; congruence.
  - intros n. eapply seqo_trans; [apply A4|apply B4].
Qed.

Lemma seqo_Some_r a b' : seqo a (Some b') -> exists a', a = Some a' /\ seqn a' b'.
Proof. destruct a; cbn; [eauto|tauto]. Qed.
Lemma seqo_Some_l a' b : seqo (Some a') b -> exists b', b = Some b' /\ seqn a' b'.
Proof. destruct b; cbn; [eauto|tauto]. Qed.

Lemma sq_OK3 P s s' : sq s s' -> OWN P s -> OK3 P zero s s'.
Proof.
  intros (En & Ec & El & Hn) W. split; [|split].
  - unfold OWN. rewrite En, Ec. constructor.
    + intros n [b Hb]. specialize (Hn n). rewrite Hb in Hn. apply seqo_Some_r in Hn as (a & Ha & _).
      apply (od_dom _ _ _ _ W). eauto.
    + apply (od_cur _ _ _ _ W).
    + intros n b p Hb Hp. pose proof (Hn n) as H1. rewrite Hb in H1. apply seqo_Some_r in H1 as (a & Ha & E1 & _).
      rewrite E1 in Hp. destruct (od_parent _ _ _ _ W _ _ _ Ha Hp) as [L [HP|(pp & Hpp & Hin)]]; split; try exact L; [left; exact HP|right].
      pose proof (Hn p) as H2. rewrite Hpp in H2. apply seqo_Some_l in H2 as (pp' & Hpp' & _ & E2 & _).
      exists pp'. split; [exact Hpp'|]. rewrite E2. exact Hin.
    + intros n b Hb Hp. pose proof (Hn n) as H1. rewrite Hb in H1. apply seqo_Some_r in H1 as (a & Ha & E1 & _).
      rewrite E1 in Hp. eapply (od_root _ _ _ _ W); eassumption.
    + intros p pp' c Hpp' Hin. pose proof (Hn p) as H1. rewrite Hpp' in H1. apply seqo_Some_r in H1 as (pp & Hpp & _ & E2 & _).
      rewrite E2 in Hin. destruct (od_child _ _ _ _ W _ _ _ Hpp Hin) as [L H]. split; [exact L|].
      intros cc' Hcc'. pose proof (Hn c) as H2. rewrite Hcc' in H2. apply seqo_Some_r in H2 as (cc & Hcc & E1 & _).
      rewrite E1. apply H, Hcc.
    + intros n b c Hb Hc. pose proof (Hn n) as H1. rewrite Hb in H1. apply seqo_Some_r in H1 as (a & Ha & _ & _ & _ & E4).
      rewrite E4 in Hc. eapply (od_cb _ _ _ _ W); eassumption.
    + intros n b cl Hb Hc. pose proof (Hn n) as H1. rewrite Hb in H1. apply seqo_Some_r in H1 as (a & Ha & _ & _ & E3 & _).
      rewrite E3 in Hc. eapply (od_cl _ _ _ _ W); eassumption.
  - unfold pframe. rewrite En. split; [lia|]. intros n b Hb _. pose proof (Hn n) as H1. rewrite Hb in H1.
    apply seqo_Some_r in H1 as (a & Ha & E1 & _). exists a. split; [exact Ha|congruence].
  - intros l. destruct (El l) as [E1 E2]. unfold zero. rewrite E1, E2.
    assert (Ep : pend l s' = pend l s).
    { apply pendm_ext. intros n. specialize (Hn n). destruct (nodes s !! n), (nodes s' !! n); cbn in *; try tauto.
      destruct Hn as (_ & _ & E & _). rewrite E. reflexivity. }
    rewrite Ep. lia.
Qed.

Definition uneutral (f : node -> node) : Prop := forall nd, seqn nd (f nd).

Lemma sq_upd x f s : uneutral f -> sq s (upd x f s).
Proof.
  intros Hf. repeat split. intros n. cbn. destruct (decide (n = x)) as [->|Hne].
  - rewrite lookup_alter. destruct (nodes s !! x); cbn; [apply Hf|exact I].
  - rewrite lookup_alter_ne by congruence. apply seqo_refl.
Qed.

Lemma sq_foldr (g : node -> node) l s : uneutral g -> sq s (foldr (fun d acc => upd d g acc) s l).
Proof.
  intros Hg. induction l as [|d l IH]; cbn [foldr]; [apply sq_refl|].
  eapply sq_trans; [exact IH|apply sq_upd, Hg].
Qed.

Lemma un_value v : uneutral (nd_value v). Proof. intros nd; repeat split. Qed.
Lemma un_dependents g : uneutral (nd_dependents g). Proof. intros nd; repeat split. Qed.
Lemma un_deps g : uneutral (nd_deps g). Proof. intros nd; repeat split. Qed.
Lemma un_context l : uneutral (fun n => nd_context (l n) n). Proof. intros nd; repeat split. Qed.
Lemma un_context' l : uneutral (nd_context l). Proof. intros nd; repeat split. Qed.
Lemma un_dirty b : uneutral (nd_dirty b). Proof. intros nd; repeat split. Qed.
Lemma un_mark k : uneutral (nd_mark k). Proof. intros nd; repeat split. Qed.

Lemma sq_push n : forall ts s s1, push_dependents true n ts s = Ok tt s1 -> sq s s1.
Proof.
  induction ts as [|d r IH]; intros s s1 H; cbn [push_dependents] in H.
  - inversion H; subst. apply sq_refl.
  - destruct (alive d s); [|apply IH, H].
    eapply sq_trans; [apply sq_upd, un_dependents|apply IH, H].
Qed.

Lemma sq_link n ts s s' : link true n ts s = Ok tt s' -> sq s s'.
Proof.
  unfold link. destruct (push_dependents true n ts s) as [[] s1|e s1] eqn:Hp; cbn [bind_res]; [|discriminate].
  pose proof (sq_push _ _ _ _ Hp) as S1. destruct (alive n s1); intros H; inversion H; subst; [|exact S1].
  eapply sq_trans; [exact S1|apply sq_upd, un_deps].
Qed.

Lemma fold_left_err' {A} (step : res unit -> A -> res unit) (Hs : forall e s x, step (Err e s) x = Err e s) l e s :
  fold_left step l (Err e s) = Err e s.
Proof. induction l as [|x l IH]; cbn; [reflexivity|]. rewrite Hs. exact IH. Qed.

Lemma sq_unlink n : forall L s s2, unlink_deps n L s = Ok tt s2 -> sq s s2.
Proof.
  unfold unlink_deps. induction L as [|d L IH]; intros s s2 H; cbn [fold_left] in H.
  - inversion H; subst. apply sq_refl.
  - cbn [bind_res] in H. destruct (alive d s).
    + eapply sq_trans; [apply sq_upd, un_dependents|apply IH, H].
    + rewrite fold_left_err' in H; [discriminate|]. intros; reflexivity.
Qed.

Lemma sq_unsubscribe x s : sq s (unsubscribe true x s).
Proof.
  unfold unsubscribe. destruct (nodes s !! x) as [this|]; [|apply sq_refl].
  eapply sq_trans; [apply sq_upd, un_deps|apply sq_foldr, un_dependents].
Qed.

Lemma sq_mark_dirty n s s' : mark_dependents_dirty true n s = Ok tt s' -> sq s s'.
Proof.
  unfold mark_dependents_dirty. destruct (nodes s !! n) as [nd|]; intros H; inversion H; subst; [|apply sq_refl].
  apply sq_foldr, un_dirty.
Qed.

Lemma sq_marks_only s s' : marks_only s s' -> sq s s'.
Proof.
  intros [E H]. split; [rewrite E; reflexivity|]. split; [rewrite E; reflexivity|]. split.
  - intros l. rewrite E. split; reflexivity.
  - intros n. specialize (H n). destruct (nodes s !! n) as [a|], (nodes s' !! n) as [b|]; cbn; try tauto.
    unfold mark_eq in H. rewrite H. repeat split.
Qed.

(* steps that change tracker / cells / names / log-with-neutral-events only *)
Definition same_own (s s1 : state) : Prop :=
  nodes s1 = nodes s /\ next s1 = next s /\ current s1 = current s /\ lsame s s1.

Lemma same_own_sq s s1 : same_own s s1 -> sq s s1.
Proof. intros (E1 & E2 & E3 & E4). repeat split; try assumption; try apply E4. intros n. rewrite E1. apply seqo_refl. Qed.
Lemma same_own_refl s : same_own s s.
Proof. repeat split. Qed.
Lemma same_own_trans s1 s2 s3 : same_own s1 s2 -> same_own s2 s3 -> same_own s1 s3.
Proof.
  intros (A1 & A2 & A3 & A4) (B1 & B2 & B3 & B4). repeat split; try congruence; destruct (A4 l), (B4 l); congruence.
Qed.

Lemma track_same_own id s : same_own s (track id s).
Proof. unfold track. destruct (tracker s); repeat split. Qed.

Lemma read_same_own t en x s v s1 : read t en x s = Ok v s1 -> same_own s s1.
Proof.
  unfold read. destruct (lookup_env x en) as [[id|c]|]; try discriminate.
  assert (Ht : same_own s (if t then track id s else s)) by (destruct t; [apply track_same_own|apply same_own_refl]).
  destruct (nodes (if t then track id s else s) !! id) as [nd|]; [|discriminate].
  destruct (n_value nd); [|discriminate]. intros H; inversion H; subst.
  eapply same_own_trans; [exact Ht|]. repeat split.
Qed.

Lemma eval_same_own en e : forall s v s1, eval en e s = Ok v s1 -> same_own s s1.
Proof.
  induction e; intros s v s1 H; cbn [eval] in H;
    try (destruct (eval en e1 s) as [va sa|? ?] eqn:E1; cbn [bind_res] in H; [|discriminate];
         destruct (eval en e2 sa) as [vb sb|? ?] eqn:E2; cbn [bind_res] in H; [|discriminate];
         inversion H; subst; eapply same_own_trans; [eapply IHe1|eapply IHe2]; eassumption).
  - inversion H; subst; apply same_own_refl.
  - eapply read_same_own; eassumption.
  - eapply read_same_own; eassumption.
  - destruct (eval en e s) as [va sa|? ?] eqn:E1; cbn [bind_res] in H; [|discriminate].
    inversion H; subst. eapply IHe; eassumption.
  - destruct (eval en e1 s) as [vc sa|? ?] eqn:E1; cbn [bind_res] in H; [|discriminate].
    destruct (vc =? 0)%Z; (eapply same_own_trans; [eapply IHe1; eassumption|]); [eapply IHe3|eapply IHe2]; eassumption.
  - destruct (lookup_env x en) as [[id|c]|]; try discriminate. inversion H; subst; apply same_own_refl.
  - destruct (lookup_env c en) as [[id|k]|]; try discriminate. destruct (cells s !! k); [|discriminate].
    inversion H; subst; apply same_own_refl.
Qed.

Lemma on_track_same_own c deps : forall (a : option state) s1,
  fold_left (fun (r : option state) x =>
     match r with
     | Some s => match lookup_env x (c_env c) with
                 | Some (BNode id) => Some (emit (EvTrack x) (track id s))
                 | _ => None
                 end
     | None => None
     end) deps a = Some s1 ->
  exists s0, a = Some s0 /\ same_own s0 s1.
Proof.
  induction deps as [|x deps IH]; intros a s1 H; cbn [fold_left] in H.
  - exists s1; split; [exact H|apply same_own_refl].
  - destruct (IH _ _ H) as [s0 [H0 Hl]]. destruct a as [s|]; [|discriminate].
    destruct (lookup_env x (c_env c)) as [[id|k]|]; try discriminate.
    inversion H0; subst. eexists; split; [reflexivity|].
    eapply same_own_trans; [|exact Hl]. eapply same_own_trans; [apply (track_same_own id s)|]. repeat split.
Qed.

(* ---------------------------------------------------------------------------------- *)
(* steps that touch the owner structure, the callbacks or the cleanup lists *)

Lemma cntE_cons l e r : cntE l (e :: r) = evE l e + cntE l r.
Proof. reflexivity. Qed.
Lemma cntR_cons l e r : cntR l (e :: r) = evR l e + cntR l r.
Proof. reflexivity. Qed.
Ltac bal := unfold pend, zero; cbn [nodes log upd set_nodes emit set_tracker set_next set_current set_queue set_batching set_cells set_next_cell set_names register];
  rewrite ?cntE_cons, ?cntR_cons; cbn [evE evR].

Lemma OK3_next P k s s' : OK3 P k s s' -> next s <= next s'.
Proof. intros (_ & [L _] & _). exact L. Qed.

Lemma OWN_cur P s cur : OWN P s -> (exists c, cur = Some c /\ c < next s) -> OWN P (set_current cur s).
Proof. intros W H. constructor; try apply W. exact H. Qed.

Lemma lookup_alter_inv (f : node -> node) x (m : nmap) n b :
  alter f x m !! n = Some b -> exists a, m !! n = Some a /\ b = if decide (n = x) then f a else a.
Proof.
  destruct (decide (n = x)) as [->|Hne].
  - rewrite lookup_alter. destruct (m !! x) as [a|]; cbn; [|discriminate]. intros E; inversion E; eauto.
  - rewrite lookup_alter_ne by congruence. eauto.
Qed.

(* one node updated: owner and children kept, new callback / cleanups mention existing nodes *)
Lemma OWN_upd P s x f : OWN P s ->
  (forall nd, n_parent (f nd) = n_parent nd /\ n_children (f nd) = n_children nd) ->
  (forall nd c, nodes s !! x = Some nd -> n_cb (f nd) = Some c -> env_ok (next s) (c_env c)) ->
  (forall nd cl, nodes s !! x = Some nd -> In cl (n_cleanups (f nd)) -> env_ok (next s) (cl_env cl)) ->
  OWN P (upd x f s).
Proof.
  intros W Hf Hcb Hcl. unfold OWN; cbn. constructor.
  - intros n [b Hb]. apply lookup_alter_inv in Hb as (a & Ha & _). apply (od_dom _ _ _ _ W). eauto.
  - apply (od_cur _ _ _ _ W).
  - intros n b p Hb Hp. apply lookup_alter_inv in Hb as (a & Ha & ->).
    assert (Hp' : n_parent a = Some p) by (destruct (decide (n = x)); [rewrite (proj1 (Hf a)) in Hp|]; exact Hp).
    destruct (od_parent _ _ _ _ W _ _ _ Ha Hp') as [L [HP|(pp & Hpp & Hin)]]; split; try exact L; [left; exact HP|right].
    destruct (decide (p = x)) as [->|Hne].
    + exists (f pp). rewrite lookup_alter, Hpp. split; [reflexivity|]. rewrite (proj2 (Hf pp)). exact Hin.
    + exists pp. rewrite lookup_alter_ne by congruence. split; assumption.
  - intros n b Hb Hp. apply lookup_alter_inv in Hb as (a & Ha & ->).
    assert (Hp' : n_parent a = None) by (destruct (decide (n = x)); [rewrite (proj1 (Hf a)) in Hp|]; exact Hp).
    eapply (od_root _ _ _ _ W); eassumption.
  - intros p b c Hb Hin. apply lookup_alter_inv in Hb as (a & Ha & ->).
    assert (Hin' : In c (n_children a)) by (destruct (decide (p = x)); [rewrite (proj2 (Hf a)) in Hin|]; exact Hin).
    destruct (od_child _ _ _ _ W _ _ _ Ha Hin') as [L H]. split; [exact L|].
    intros cc Hcc. apply lookup_alter_inv in Hcc as (cc0 & Hcc0 & ->).
    destruct (decide (c = x)); [rewrite (proj1 (Hf cc0))|]; exact (H _ Hcc0).
  - intros n b c Hb Hc. apply lookup_alter_inv in Hb as (a & Ha & ->).
    destruct (decide (n = x)) as [->|]; [eapply Hcb; eassumption|eapply (od_cb _ _ _ _ W); eassumption].
  - intros n b cl Hb Hc. apply lookup_alter_inv in Hb as (a & Ha & ->).
    destruct (decide (n = x)) as [->|]; [eapply Hcl; eassumption|eapply (od_cl _ _ _ _ W); eassumption].
Qed.

Lemma pframe_upd s x f : (forall nd, n_parent (f nd) = n_parent nd) -> pframe s (upd x f s).
Proof.
  intros Hf. split; [cbn; lia|]. intros n b Hb _. cbn in Hb. apply lookup_alter_inv in Hb as (a & Ha & ->).
  exists a. split; [exact Ha|]. destruct (decide (n = x)); [rewrite Hf|]; reflexivity.
Qed.

(* callback written (or taken out); cleanups untouched *)
Lemma step_upd_cb P s x f : OWN P s ->
  (forall nd, n_parent (f nd) = n_parent nd /\ n_children (f nd) = n_children nd /\ n_cleanups (f nd) = n_cleanups nd) ->
  (forall nd c, nodes s !! x = Some nd -> n_cb (f nd) = Some c -> env_ok (next s) (c_env c)) ->
  OK3 P zero s (upd x f s).
Proof.
  intros W Hf Hcb. split; [|split].
  - apply OWN_upd; [exact W|intros nd; destruct (Hf nd) as (A & B & _); tauto|exact Hcb|].
    intros nd cl Hn Hc. rewrite (proj2 (proj2 (Hf nd))) in Hc. eapply (od_cl _ _ _ _ W); eassumption.
  - apply pframe_upd. intros nd. apply Hf.
  - intros l. bal. rewrite pendm_alter_same by (intros nd; apply Hf). lia.
Qed.

(* on_cleanup in a live scope *)
Lemma step_oncleanup P s c l en ss : OWN P s -> is_Some (nodes s !! c) -> env_ok (next s) en ->
  OK3 P zero s (upd c (fun n => nd_cleanups (n_cleanups n ++ [Cleanup l en ss]) n) (emit (EvReg l) s)).
Proof.
  intros W [nd Hc] He. split; [|split].
  - apply (OWN_upd P (emit (EvReg l) s)); [exact W|intros x; split; reflexivity| |].
    + intros x cb Hx Hcb. cbn in Hcb. eapply (od_cb _ _ _ _ W); eassumption.
    + intros x cl Hx Hin. cbn in Hin. apply in_app_iff in Hin as [Hin|[<-|[]]]; [eapply (od_cl _ _ _ _ W); eassumption|exact He].
  - apply (pframe_upd (emit (EvReg l) s)). reflexivity.
  - intros k. bal.
    pose proof (pendm_alter k (nodes s) c (fun n => nd_cleanups (n_cleanups n ++ [Cleanup l en ss]) n) nd Hc) as E.
    cbn [n_cleanups nd_cleanups] in E. rewrite cnt_app in E. unfold cnt at 3 in E. cbn [sum_list_with] in E.
    unfold lab in E. cbn [cl_label] in E.
    destruct (Nat.eqb l k); lia.
Qed.

(* on_cleanup in a dead scope: registered and run at once *)
Lemma step_reg_run P s l : OWN P s -> OK3 P zero s (emit (EvCleanup l) (set_tracker None (emit (EvReg l) s))).
Proof.
  intros W. split; [exact W|]. split; [apply pframec_refl|]. intros k. bal. destruct (Nat.eqb l k); lia.
Qed.

(* a cleanup starts *)
Lemma step_emit_cleanup P s c : OWN P s -> OK3 P (fun l => lab l c) s (emit (EvCleanup (cl_label c)) s).
Proof.
  intros W. split; [exact W|]. split; [apply pframec_refl|]. intros k. bal. unfold lab. destruct (Nat.eqb (cl_label c) k); lia.
Qed.

(* creation *)
Lemma step_create P s id s1 : OWN P s -> create_empty true s = Ok id s1 ->
  id = next s /\ next s1 = S id /\ current s1 = current s /\ OK3 P zero s s1.
Proof.
  intros W. unfold create_empty.
  destruct (od_cur _ _ _ _ W) as (c & Hc & Hclt). rewrite Hc.
  set (nd0 := Node None None [] (Some c) [] [] [] [] false MNone).
  assert (Hnone : nodes s !! next s = None).
  { destruct (nodes s !! next s) eqn:E; [|reflexivity]. pose proof (od_dom _ _ _ _ W _ (ex_intro _ _ E)). lia. }
  assert (Hne : forall n a, nodes s !! n = Some a -> n <> next s) by (intros n a Ha ->; congruence).
  match goal with |- context [if ?b then _ else _] => destruct b eqn:Ha end; intros H; inversion H; subst; clear H.
  - refine (conj eq_refl (conj eq_refl (conj Hc _))).
    assert (Hcne : c <> next s) by lia.
    apply alive_true in Ha. cbn in Ha. rewrite lookup_insert_ne in Ha by congruence. destruct Ha as [cn Hcn].
    set (m' := alter (fun n => nd_children (n_children n ++ [next s]) n) c (<[next s := nd0]> (nodes s))).
    assert (Lk : forall n b, m' !! n = Some b ->
              (n = next s /\ b = nd0) \/
              (n <> next s /\ exists a, nodes s !! n = Some a /\
                 b = if decide (n = c) then nd_children (n_children a ++ [next s]) a else a)).
    { intros n b Hb. unfold m' in Hb. apply lookup_alter_inv in Hb as (a & Ha & ->).
      destruct (decide (n = next s)) as [->|Hn].
      - rewrite lookup_insert in Ha. inversion Ha; subst. left. destruct (decide (next s = c)); [congruence|]. tauto.
      - rewrite lookup_insert_ne in Ha by congruence. right. eauto. }
    assert (Lc : m' !! c = Some (nd_children (n_children cn ++ [next s]) cn)).
    { unfold m'. rewrite lookup_alter, lookup_insert_ne, Hcn by congruence. reflexivity. }
    assert (Lo : forall n a, nodes s !! n = Some a -> n <> c -> m' !! n = Some a).
    { intros n a Hn Hnc. unfold m'. rewrite lookup_alter_ne, lookup_insert_ne by (try congruence; eapply Hne; eassumption). exact Hn. }
    split; [|split].
    + unfold OWN; cbn. fold m'. rewrite Hc. constructor.
      * intros n [b Hb]. destruct (Lk _ _ Hb) as [[-> _]|(_ & a & Hn & _)]; [lia|].
        pose proof (od_dom _ _ _ _ W n (ex_intro _ _ Hn)). lia.
      * exists c. split; [reflexivity|lia].
      * intros n b p Hb Hp. destruct (Lk _ _ Hb) as [[-> ->]|(Hn & a & Hna & ->)].
        -- cbn in Hp. inversion Hp; subst p. split; [exact Hclt|]. right. eexists. split; [exact Lc|]. cbn. apply in_app_iff. right; left; reflexivity.
        -- assert (Hp' : n_parent a = Some p) by (destruct (decide (n = c)); exact Hp).
           destruct (od_parent _ _ _ _ W _ _ _ Hna Hp') as [L [HP|(pp & Hpp & Hin)]]; split; try exact L; [left; exact HP|right].
           destruct (decide (p = c)) as [->|Hpc].
           ++ rewrite Hcn in Hpp. inversion Hpp; subst pp. eexists. split; [exact Lc|]. cbn. apply in_app_iff. left; exact Hin.
           ++ exists pp. split; [apply Lo; assumption|exact Hin].
      * intros n b Hb Hp. destruct (Lk _ _ Hb) as [[-> ->]|(Hn & a & Hna & ->)]; [discriminate|].
        assert (Hp' : n_parent a = None) by (destruct (decide (n = c)); exact Hp).
        eapply (od_root _ _ _ _ W); eassumption.
      * intros p b ch Hb Hin. destruct (Lk _ _ Hb) as [[-> ->]|(Hn & a & Hpa & ->)]; [destruct Hin|].
        assert (Hin' : In ch (n_children a) \/ (p = c /\ ch = next s)).
        { destruct (decide (p = c)); [|left; exact Hin]. cbn in Hin. apply in_app_iff in Hin as [Hin|[<-|[]]]; [left; exact Hin|right; tauto]. }
        destruct Hin' as [Hin'|[-> ->]].
        -- destruct (od_child _ _ _ _ W _ _ _ Hpa Hin') as [L Hh]. split; [lia|].
           intros cc Hcc. destruct (Lk _ _ Hcc) as [[-> _]|(_ & a' & Ha' & ->)]; [lia|].
           destruct (decide (ch = c)); cbn; exact (Hh _ Ha').
        -- split; [lia|]. intros cc Hcc. destruct (Lk _ _ Hcc) as [[_ ->]|(Hx & _)]; [reflexivity|congruence].
      * intros n b cb Hb Hcb. destruct (Lk _ _ Hb) as [[-> ->]|(Hn & a & Hna & ->)]; [discriminate|].
        assert (Hcb' : n_cb a = Some cb) by (destruct (decide (n = c)); exact Hcb).
        eapply env_ok_mono; [|eapply (od_cb _ _ _ _ W); eassumption]. lia.
      * intros n b cl Hb Hcl. destruct (Lk _ _ Hb) as [[-> ->]|(Hn & a & Hna & ->)]; [destruct Hcl|].
        assert (Hcl' : In cl (n_cleanups a)) by (destruct (decide (n = c)); exact Hcl).
        eapply env_ok_mono; [|eapply (od_cl _ _ _ _ W); eassumption]. lia.
    + split; [cbn; lia|]. intros n b Hb Hlt. cbn in Hb. fold m' in Hb.
      destruct (Lk _ _ Hb) as [[-> _]|(Hn & a & Hna & ->)]; [lia|]. exists a. split; [exact Hna|]. destruct (decide (n = c)); reflexivity.
    + intros l. bal. rewrite pendm_alter_same by reflexivity. rewrite pendm_insert by exact Hnone. cbn [n_cleanups nd0 cnt sum_list_with]. lia.
  - refine (conj eq_refl (conj eq_refl (conj Hc _))). split; [|split].
    + unfold OWN; cbn. rewrite Hc. constructor.
      * intros n Hn. pose proof (od_dom _ _ _ _ W n Hn). lia.
      * exists c. split; [reflexivity|lia].
      * apply (od_parent _ _ _ _ W).
      * apply (od_root _ _ _ _ W).
      * intros p pp ch Hp Hin. destruct (od_child _ _ _ _ W _ _ _ Hp Hin) as [L Hh]. split; [lia|exact Hh].
      * intros n nd cb Hn Hcb. eapply env_ok_mono; [|eapply (od_cb _ _ _ _ W); eassumption]. lia.
      * intros n nd cl Hn Hcl. eapply env_ok_mono; [|eapply (od_cl _ _ _ _ W); eassumption]. lia.
    + split; [cbn; lia|]. intros n b Hb _. cbn in Hb. eauto.
    + intros l. bal. lia.
Qed.

(* dispose_children takes both lists out of the node: its children become pending *)
Lemma step_clear P s id nd : OWN P s -> nodes s !! id = Some nd ->
  let s1 := upd id (fun n => nd_children [] (nd_cleanups [] n)) s in
  OWN (fun n => P n \/ In n (n_children nd)) s1 /\ pframe s s1 /\
  (forall l, pend l s1 + cnt l (n_cleanups nd) = pend l s).
Proof.
  intros W Hid s1. split; [|split].
  - unfold OWN, s1; cbn. constructor.
    + intros n [b Hb]. apply lookup_alter_inv in Hb as (a & Ha & _). apply (od_dom _ _ _ _ W). eauto.
    + apply (od_cur _ _ _ _ W).
    + intros n b p Hb Hp. apply lookup_alter_inv in Hb as (a & Ha & ->).
      assert (Hp' : n_parent a = Some p) by (destruct (decide (n = id)); exact Hp).
      destruct (od_parent _ _ _ _ W _ _ _ Ha Hp') as [L [HP|(pp & Hpp & Hin)]]; split; try exact L; [left; left; exact HP|].
      destruct (decide (p = id)) as [->|Hne].
      * rewrite Hid in Hpp. inversion Hpp; subst pp. left; right; exact Hin.
      * right. exists pp. rewrite lookup_alter_ne by congruence. split; assumption.
    + intros n b Hb Hp. apply lookup_alter_inv in Hb as (a & Ha & ->).
      assert (Hp' : n_parent a = None) by (destruct (decide (n = id)); exact Hp).
      eapply (od_root _ _ _ _ W); eassumption.
    + intros p b c Hb Hin. apply lookup_alter_inv in Hb as (a & Ha & ->).
      destruct (decide (p = id)); [destruct Hin|].
      destruct (od_child _ _ _ _ W _ _ _ Ha Hin) as [L H]. split; [exact L|].
      intros cc Hcc. apply lookup_alter_inv in Hcc as (cc0 & Hcc0 & ->).
      destruct (decide (c = id)); cbn; exact (H _ Hcc0).
    + intros n b c Hb Hc. apply lookup_alter_inv in Hb as (a & Ha & ->).
      assert (Hc' : n_cb a = Some c) by (destruct (decide (n = id)); exact Hc).
      eapply (od_cb _ _ _ _ W); eassumption.
    + intros n b cl Hb Hc. apply lookup_alter_inv in Hb as (a & Ha & ->).
      destruct (decide (n = id)); [destruct Hc|]. eapply (od_cl _ _ _ _ W); eassumption.
  - apply pframe_upd. reflexivity.
  - intros l. unfold s1. bal.
    pose proof (pendm_alter l (nodes s) id (fun n => nd_children [] (nd_cleanups [] n)) nd Hid) as E.
    cbn [n_cleanups nd_cleanups nd_children cnt sum_list_with] in E. lia.
Qed.

(* the end of dispose, for a node whose lists are empty *)
Lemma step_delete P s id this : OWN P s -> nodes s !! id = Some this ->
  n_children this = [] -> n_cleanups this = [] ->
  OK3 P zero s (foldr (fun d acc => upd d (nd_dependents (remove_id id)) acc)
                  (foldr (fun d acc => upd d (nd_deps (remove_id id)) acc) (set_nodes (delete id) s) (n_dependents this))
                  (n_deps this)).
Proof.
  intros W Hid Hch Hcl.
  assert (S2 : OK3 P zero s (set_nodes (delete id) s)).
  { split; [|split].
    - unfold OWN; cbn. constructor.
      + intros n [b Hb]. apply lookup_delete_Some in Hb as [_ Hb]. apply (od_dom _ _ _ _ W). eauto.
      + apply (od_cur _ _ _ _ W).
      + intros n b p Hb Hp. apply lookup_delete_Some in Hb as [Hn Hb].
        destruct (od_parent _ _ _ _ W _ _ _ Hb Hp) as [L [HP|(pp & Hpp & Hin)]]; split; try exact L; [left; exact HP|].
        destruct (decide (p = id)) as [->|Hne].
        * rewrite Hid in Hpp. inversion Hpp; subst pp. rewrite Hch in Hin. destruct Hin.
        * right. exists pp. rewrite lookup_delete_ne by congruence. split; assumption.
      + intros n b Hb Hp. apply lookup_delete_Some in Hb as [Hn Hb]. eapply (od_root _ _ _ _ W); eassumption.
      + intros p b c Hb Hin. apply lookup_delete_Some in Hb as [Hn Hb].
        destruct (od_child _ _ _ _ W _ _ _ Hb Hin) as [L H]. split; [exact L|].
        intros cc Hcc. apply lookup_delete_Some in Hcc as [_ Hcc]. apply H, Hcc.
      + intros n b c Hb Hc. apply lookup_delete_Some in Hb as [Hn Hb]. eapply (od_cb _ _ _ _ W); eassumption.
      + intros n b cl Hb Hc. apply lookup_delete_Some in Hb as [Hn Hb]. eapply (od_cl _ _ _ _ W); eassumption.
    - split; [cbn; lia|]. intros n b Hb _. cbn in Hb. apply lookup_delete_Some in Hb as [_ Hb]. eauto.
    - intros l. bal. rewrite (pendm_delete l (nodes s) id this Hid), Hcl. cbn [cnt sum_list_with]. lia. }
  eapply OK3_trans0; [exact S2|]. apply sq_OK3; [|apply S2].
  eapply sq_trans; [apply sq_foldr, un_deps|apply sq_foldr, un_dependents].
Qed.

(* the disposed node is gone *)
Lemma dispose_dead : forall f id s s', dispose true f id s = Ok tt s' -> nodes s' !! id = None.
Proof.
  intros f id s s' H. destruct f as [|f]; [discriminate|]. rewrite dispose_S in H.
  destruct (dispose_children true f id (unsubscribe true id s)) as [[] s1|e s1]; cbn [bind_res] in H; [|discriminate].
  destruct (nodes s1 !! id) as [this|] eqn:Hid.
  - inversion H; subst; clear H. apply alive_false.
    rewrite (alive_foldr_upd id (fun _ => nd_dependents (remove_id id))).
    rewrite (alive_foldr_upd id (fun _ => nd_deps (remove_id id))).
    apply alive_false. cbn. apply lookup_delete.
  - inversion H; subst. exact Hid.
Qed.

(* when dispose_children returns and the node is still there, both of its lists are empty (fix of F20) *)
Lemma dispose_children_empties : forall f id s s', dispose_children true f id s = Ok tt s' ->
  forall nd', nodes s' !! id = Some nd' -> n_children nd' = [] /\ n_cleanups nd' = [].
Proof.
  induction f as [|f IH]; intros id s s' H; [discriminate|]. rewrite dispose_children_S in H.
  destruct (nodes s !! id) as [nd|] eqn:Hid.
  2:{ inversion H; subst. intros nd' Hn. congruence. }
  cbv zeta in H.
  match type of H with context [run_cleanups true f ?cs ?s0] => destruct (run_cleanups true f cs s0) as [[] s2|e s2] end;
    cbn [bind_res] in H; [|discriminate].
  match type of H with context [dispose_list true f ?cs ?s0] => destruct (dispose_list true f cs s0) as [[] s4|e s4] end;
    cbn [bind_res] in H; [|discriminate].
  destruct (nodes s4 !! id) as [nd4|] eqn:H4.
  - cbn [andb] in H. destruct (n_cleanups nd4) as [|c cs] eqn:Ec, (n_children nd4) as [|ch chs] eqn:Eh; cbn [negb] in H;
      try (eapply IH; exact H).
    inversion H; subst. intros nd' Hn. cbn in Hn. rewrite lookup_alter, H4 in Hn. cbn in Hn. inversion Hn; subst. cbn. tauto.
  - inversion H; subst. intros nd' Hn. congruence.
Qed.

Lemma update_silent_sq id v s u s' : update_silent id v s = Ok u s' -> sq s s'.
Proof.
  unfold update_silent. destruct (nodes s !! id) as [nd|]; [|discriminate]. destruct (n_value nd); [|discriminate].
  intros H; inversion H; subst. apply sq_upd, un_value.
Qed.

Lemma provide_sq ty v s u s' : provide true ty v s = Ok u s' -> sq s s'.
Proof.
  unfold provide. destruct (current s) as [c|]; [|intros H; inversion H; subst; apply sq_refl].
  destruct (nodes s !! c) as [nd|]; [|intros H; inversion H; subst; apply sq_refl].
  match goal with |- context [if ?b then _ else _] => destruct b end; [discriminate|].
  intros H; inversion H; subst. apply sq_upd, (un_context (fun n => n_context n ++ [(ty, v)])).
Qed.

Lemma sort_sq g starts : forall a buf' s', fold_left (sort_step true g) starts a = Ok buf' s' ->
  exists buf s, a = Ok buf s /\ sq s s'.
Proof.
  induction starts as [|st starts IH]; intros a buf' s' H; cbn [fold_left] in H.
  - subst a. do 2 eexists. split; [reflexivity|apply sq_refl].
  - destruct (IH _ _ _ H) as (buf1 & s1 & H1 & S1). unfold sort_step in H1.
    destruct a as [buf s|e s]; cbn [bind_res] in H1; [|discriminate].
    destruct (dfs g st (s, buf)) as [[[s2 buf2]|]|] eqn:Hd; try discriminate.
    destruct (mark_dependents_dirty true st s2) as [[] s3|e s3] eqn:Hm; cbn [bind_res] in H1; [|discriminate].
    inversion H1; subst. do 2 eexists. split; [reflexivity|].
    eapply sq_trans; [apply sq_marks_only; eapply dfs_marks_only; exact Hd|].
    eapply sq_trans; [eapply sq_mark_dirty; exact Hm|exact S1].
Qed.

(* ---------------------------------------------------------------------------------- *)
(* the mutual block *)

Definition ores {A} (Q : A -> state -> Prop) (P : nat -> Prop) (k : nat -> nat) (s : state) (r : res A) : Prop :=
  match r with Ok a s' => OK3 P k s s' /\ Q a s' | Err _ _ => True end.
Definition QE (en' : env) (s' : state) : Prop := env_ok (next s') en'.
Definition QT {A} (_ : A) (_ : state) : Prop := True.

Lemma ores_bind {A B} (Q1 : A -> state -> Prop) (Q2 : B -> state -> Prop) P k1 k2 k s (r : res A) (g : A -> state -> res B) :
  (forall l, k l = k1 l + k2 l) -> ores Q1 P k1 s r ->
  (forall a s1, r = Ok a s1 -> OK3 P k1 s s1 -> Q1 a s1 -> ores Q2 P k2 s1 (g a s1)) ->
  ores Q2 P k s (bind_res r g).
Proof.
  intros Hk Hr Hg. destruct r as [a s1|e s1]; cbn [bind_res ores] in *; [|exact I].
  destruct Hr as [H1 Hq]. specialize (Hg a s1 eq_refl H1 Hq).
  destruct (g a s1) as [b s2|e s2]; cbn [ores] in *; [|exact I].
  destruct Hg as [H2 Hq2]. split; [eapply OK3_trans; eassumption|exact Hq2].
Qed.

Lemma ores_bind0 {A B} (Q1 : A -> state -> Prop) (Q2 : B -> state -> Prop) P s (r : res A) (g : A -> state -> res B) :
  ores Q1 P zero s r ->
  (forall a s1, r = Ok a s1 -> OK3 P zero s s1 -> Q1 a s1 -> ores Q2 P zero s1 (g a s1)) ->
  ores Q2 P zero s (bind_res r g).
Proof. apply ores_bind. reflexivity. Qed.

Lemma ores_pre {A} (Q : A -> state -> Prop) P k1 k2 k s s0 (r : res A) :
  (forall l, k l = k1 l + k2 l) -> OK3 P k1 s s0 -> ores Q P k2 s0 r -> ores Q P k s r.
Proof.
  intros Hk H1 Hr. destruct r as [a s1|e s1]; cbn [ores] in *; [|exact I].
  destruct Hr as [H2 Hq]. split; [eapply OK3_trans; eassumption|exact Hq].
Qed.

Lemma ores_pre0 {A} (Q : A -> state -> Prop) P s s0 (r : res A) :
  OK3 P zero s s0 -> ores Q P zero s0 r -> ores Q P zero s r.
Proof. apply ores_pre. reflexivity. Qed.

Lemma eval_step P en e s v s1 : OWN P s -> eval en e s = Ok v s1 -> OK3 P zero s s1.
Proof. intros W H. apply sq_OK3; [apply same_own_sq; eapply eval_same_own; exact H|exact W]. Qed.

Definition own_at (f : nat) : Prop :=
  (forall P en ss s, OWN P s -> env_ok (next s) en -> ores QE P zero s (exec true f en ss s)) /\
  (forall P en st s, OWN P s -> env_ok (next s) en -> ores QE P zero s (exec1 true f en st s)) /\
  (forall P c s, OWN P s -> env_ok (next s) (c_env c) -> ores QT P zero s (run_body true f c s)) /\
  (forall P en x k b s, OWN P s -> env_ok (next s) en -> ores QE P zero s (create_computation true f en x k b s)) /\
  (forall P id s, OWN P s -> ores QT P zero s (dispose true f id s)) /\
  (forall P id s, OWN P s -> ores QT P zero s (dispose_children true f id s)) /\
  (forall P cs s, OWN P s -> (forall c, In c cs -> env_ok (next s) (cl_env c)) ->
     ores QT P (fun l => cnt l cs) s (run_cleanups true f cs s)) /\
  (forall P ids s, OWN P s ->
     ores (fun _ s' => forall i, In i ids -> i < next s -> nodes s' !! i = None) P zero s (dispose_list true f ids s)) /\
  (forall P n s, OWN P s -> ores QT P zero s (run_node_update true f n s)) /\
  (forall P order s, OWN P s -> ores QT P zero s (loop true f order s)) /\
  (forall P starts s, OWN P s -> ores QT P zero s (propagate true f starts s)) /\
  (forall P id s, OWN P s -> ores QT P zero s (propagate_updates true f id s)).

(* goals of the form  OK3 P zero s (wrappers s)  where only neutral fields / neutral events change *)
Ltac sqt := repeat split; intros; try apply seqo_refl.
Ltac step_sq W := apply sq_OK3; [sqt|exact W].

Theorem own_all : forall f, own_at f.
Proof.
  induction f as [|f IH].
  { repeat split; intros; exact I. }
  destruct IH as (Hexec & Hexec1 & Hbody & Hcc & Hdisp & Hdc & Hrc & Hdl & Hrnu & Hloop & Hprop & Hpu).
  unfold own_at. repeat apply conj.
  - (* exec *)
    intros P en ss s W He. rewrite exec_S. destruct ss as [|st rest]; [split; [apply OK3_refl, W|exact He]|].
    eapply ores_bind0; [apply Hexec1; assumption|]. intros en1 s1 _ H1 Q1. apply Hexec; [apply H1|exact Q1].
  - (* exec1 *)
    intros P en st s W He. rewrite exec1_S. destruct st.
    + (* SSignal *)
      destruct (eval en e s) as [v s1|er s1] eqn:Ee; cbn [bind_res]; [|exact I].
      pose proof (eval_step P _ _ _ _ _ W Ee) as H1. destruct H1 as (W1 & F1 & B1).
      destruct (create_empty true s1) as [id s2|er s2] eqn:Hce; cbn [bind_res]; [|exact I].
      destruct (step_create P s1 id s2 W1 Hce) as (Eid & Hn2 & Hc2 & H2).
      assert (H3a : OK3 P zero s2 (upd id (nd_value (Some v)) s2)) by (apply sq_OK3; [apply sq_upd, un_value|apply H2]).
      assert (H3 : OK3 P zero s2 (register x id (upd id (nd_value (Some v)) s2))).
      { eapply OK3_trans0; [exact H3a|]. step_sq (proj1 H3a). }
      split.
      * eapply OK3_trans0; [exact (conj W1 (conj F1 B1))|]. eapply OK3_trans0; [exact H2|exact H3].
      * unfold QE; cbn. rewrite Hn2. apply env_ok_node; [lia|]. eapply env_ok_mono; [|exact He]. destruct F1 as [L _]. lia.
    + apply Hcc; assumption.
    + apply Hcc; assumption.
    + apply Hcc; assumption.
    + (* SScope *)
      destruct (create_empty true s) as [id s1|er s1] eqn:Hce; cbn [bind_res]; [|exact I]. cbv zeta.
      destruct (step_create P s id s1 W Hce) as (Eid & Hn1 & Hc1 & H1).
      set (s2 := register x id (upd id (nd_value (Some 0%Z)) s1)).
      assert (H2a : OK3 P zero s1 (upd id (nd_value (Some 0%Z)) s1)) by (apply sq_OK3; [apply sq_upd, un_value|apply H1]).
      assert (H2 : OK3 P zero s1 s2).
      { eapply OK3_trans0; [exact H2a|]. unfold s2. step_sq (proj1 H2a). }
      assert (H12 : OK3 P zero s s2) by (eapply OK3_trans0; [exact H1|exact H2]).
      assert (W2c : OWN P (set_current (Some id) s2)).
      { apply OWN_cur; [apply H2|]. exists id. split; [reflexivity|]. unfold s2; cbn. lia. }
      assert (He2 : env_ok (next s2) en) by (eapply env_ok_mono; [|exact He]; unfold s2; cbn; lia).
      pose proof (Hexec P en ss (set_current (Some id) s2) W2c He2) as H3.
      destruct (exec true f en ss (set_current (Some id) s2)) as [en1 s3|er s3]; cbn [bind_res]; [|exact I].
      destruct H3 as [H3 _].
      assert (L3 : next s2 <= next s3) by (apply (OK3_next _ _ _ _ H3)).
      split.
      * eapply OK3_trans0; [exact H12|]. destruct H3 as (W3 & F3 & B3). split; [|split; [exact F3|exact B3]].
        apply OWN_cur; [exact W3|]. destruct (od_cur _ _ _ _ W) as (c0 & Hc0 & Hlt0).
        exists c0. split; [unfold s2; cbn; congruence|]. pose proof (OK3_next _ _ _ _ H12). lia.
      * unfold QE; cbn. apply env_ok_node; [unfold s2 in L3; cbn in L3; lia|]. eapply env_ok_mono; [exact L3|exact He2].
    + (* SCurScope *)
      destruct (od_cur _ _ _ _ W) as (c & Hc & Hlt). rewrite Hc. split; [apply OK3_refl, W|].
      apply env_ok_node; assumption.
    + (* SSet *)
      destruct (eval en e s) as [v s1|er s1] eqn:Ee; cbn [bind_res]; [|exact I].
      pose proof (eval_step P _ _ _ _ _ W Ee) as H1.
      destruct (lookup_env x en) as [[id|c]|]; try exact I.
      destruct (update_silent id v s1) as [[] s2|er s2] eqn:Eu; cbn [bind_res]; [|exact I].
      assert (H2 : OK3 P zero s1 s2) by (apply sq_OK3; [eapply update_silent_sq; exact Eu|apply H1]).
      pose proof (Hpu P id s2 (proj1 H2)) as H3.
      destruct (propagate_updates true f id s2) as [[] s3|er s3]; cbn [bind_res]; [|exact I].
      destruct H3 as [H3 _].
      assert (H : OK3 P zero s s3) by (eapply OK3_trans0; [exact H1|eapply OK3_trans0; [exact H2|exact H3]]).
      split; [exact H|]. eapply env_ok_mono; [apply (OK3_next _ _ _ _ H)|exact He].
    + (* SSetSilent *)
      destruct (eval en e s) as [v s1|er s1] eqn:Ee; cbn [bind_res]; [|exact I].
      pose proof (eval_step P _ _ _ _ _ W Ee) as H1.
      destruct (lookup_env x en) as [[id|c]|]; try exact I.
      destruct (update_silent id v s1) as [[] s2|er s2] eqn:Eu; cbn [bind_res]; [|exact I].
      assert (H2 : OK3 P zero s1 s2) by (apply sq_OK3; [eapply update_silent_sq; exact Eu|apply H1]).
      assert (H : OK3 P zero s s2) by (eapply OK3_trans0; [exact H1|exact H2]).
      split; [exact H|]. eapply env_ok_mono; [apply (OK3_next _ _ _ _ H)|exact He].
    + (* SDispose *)
      destruct (lookup_env x en) as [[id|c]|]; try exact I.
      pose proof (Hdisp P id s W) as H1.
      destruct (dispose true f id s) as [[] s1|er s1]; cbn [bind_res]; [|exact I]. destruct H1 as [H1 _].
      split; [exact H1|]. eapply env_ok_mono; [apply (OK3_next _ _ _ _ H1)|exact He].
    + (* SBatch *)
      cbv zeta. cbn [andb].
      set (s0 := emit (EvBatch true) (set_batching true s)).
      assert (H0 : OK3 P zero s s0) by (step_sq W).
      pose proof (Hexec P en ss s0 (proj1 H0) He) as H1.
      destruct (exec true f en ss s0) as [en1 s1|er s1]; cbn [bind_res]; [|exact I]. destruct H1 as [H1 _].
      assert (H01 : OK3 P zero s s1) by (eapply OK3_trans0; [exact H0|exact H1]).
      destruct (batching s).
      * assert (H : OK3 P zero s (emit (EvBatch false) s1)).
        { eapply OK3_trans0; [exact H01|]. step_sq (proj1 H1). }
        split; [exact H|]. eapply env_ok_mono; [apply (OK3_next _ _ _ _ H)|exact He].
      * set (s1' := set_queue [] (set_batching false (emit (EvBatch false) s1))).
        assert (H1' : OK3 P zero s1 s1') by (step_sq (proj1 H1)).
        pose proof (Hprop P (queue s1) s1' (proj1 H1')) as H2.
        destruct (propagate true f (queue s1) s1') as [[] s2|er s2]; cbn [bind_res]; [|exact I]. destruct H2 as [H2 _].
        assert (H : OK3 P zero s s2) by (eapply OK3_trans0; [exact H01|eapply OK3_trans0; [exact H1'|exact H2]]).
        split; [exact H|]. eapply env_ok_mono; [apply (OK3_next _ _ _ _ H)|exact He].
    + (* SUntrack *)
      cbv zeta. assert (H0 : OK3 P zero s (set_tracker None s)) by (step_sq W).
      pose proof (Hexec P en ss (set_tracker None s) (proj1 H0) He) as H1.
      destruct (exec true f en ss (set_tracker None s)) as [en1 s1|er s1]; cbn [bind_res]; [|exact I]. destruct H1 as [H1 _].
      assert (H : OK3 P zero s (set_tracker (tracker s) s1)).
      { eapply OK3_trans0; [exact H0|]. eapply OK3_trans0; [exact H1|]. step_sq (proj1 H1). }
      split; [exact H|]. eapply env_ok_mono; [apply (OK3_next _ _ _ _ H)|exact He].
    + (* SComponent *)
      cbv zeta. assert (H0 : OK3 P zero s (set_tracker None s)) by (step_sq W).
      pose proof (Hexec P en ss (set_tracker None s) (proj1 H0) He) as H1.
      destruct (exec true f en ss (set_tracker None s)) as [en1 s1|er s1]; cbn [bind_res]; [|exact I]. destruct H1 as [H1 _].
      assert (H : OK3 P zero s (set_tracker (tracker s) s1)).
      { eapply OK3_trans0; [exact H0|]. eapply OK3_trans0; [exact H1|]. step_sq (proj1 H1). }
      split; [exact H|]. eapply env_ok_mono; [apply (OK3_next _ _ _ _ H)|exact He].
    + (* SOnCleanup *)
      destruct (od_cur _ _ _ _ W) as (c & Hc & Hlt). rewrite Hc.
      destruct (alive c s) eqn:Ha.
      * split; [|exact He]. apply step_oncleanup; [exact W|apply alive_true, Ha|exact He].
      * cbv zeta.
        set (s0 := emit (EvCleanup l) (set_tracker None (emit (EvReg l) s))).
        assert (H0 : OK3 P zero s s0) by (apply step_reg_run, W).
        pose proof (Hexec P en ss s0 (proj1 H0) He) as H1.
        destruct (exec true f en ss s0) as [en1 s1|er s1]; cbn [bind_res]; [|exact I]. destruct H1 as [H1 _].
        assert (H : OK3 P zero s (set_tracker (tracker s) s1)).
        { eapply OK3_trans0; [exact H0|]. eapply OK3_trans0; [exact H1|]. step_sq (proj1 H1). }
        split; [exact H|]. eapply env_ok_mono; [apply (OK3_next _ _ _ _ H)|exact He].
    + (* SProvide *)
      destruct (eval en e s) as [v s1|er s1] eqn:Ee; cbn [bind_res]; [|exact I].
      pose proof (eval_step P _ _ _ _ _ W Ee) as H1.
      destruct (provide true ty v s1) as [[] s2|er s2] eqn:Ep; cbn [bind_res]; [|exact I].
      assert (H : OK3 P zero s s2).
      { eapply OK3_trans0; [exact H1|]. apply sq_OK3; [eapply provide_sq; exact Ep|apply H1]. }
      split; [exact H|]. eapply env_ok_mono; [apply (OK3_next _ _ _ _ H)|exact He].
    + (* SUseCtx *)
      pose proof (try_use_context_st true ty s) as E.
      destruct (try_use_context true ty s) as [r s1|er s1]; cbn [bind_res]; [|exact I]. cbn in E. subst s1.
      split; [step_sq W|exact He].
    + (* SRunIn *)
      destruct (lookup_env x en) as [[id|c]|] eqn:Hx; try exact I. cbv zeta.
      assert (W0 : OWN P (set_current (Some id) s)).
      { apply OWN_cur; [exact W|]. exists id. split; [reflexivity|]. exact (He _ _ Hx). }
      pose proof (Hexec P en ss (set_current (Some id) s) W0 He) as H1.
      destruct (exec true f en ss (set_current (Some id) s)) as [en1 s1|er s1]; cbn [bind_res]; [|exact I]. destruct H1 as [H1 _].
      pose proof (OK3_next _ _ _ _ H1) as L1. cbn in L1.
      split; [|eapply env_ok_mono; [exact L1|exact He]].
      destruct H1 as (W1 & F1 & B1). split; [|split; [exact F1|exact B1]].
      apply OWN_cur; [exact W1|]. destruct (od_cur _ _ _ _ W) as (c0 & Hc0 & Hlt0). exists c0. split; [exact Hc0|lia].
    + (* STrack *)
      destruct (lookup_env x en) as [[id|c]|]; try exact I. split; [|unfold QE, track; destruct (tracker s); exact He].
      apply sq_OK3; [|exact W]. eapply sq_trans; [apply same_own_sq, (track_same_own id s)|sqt].
    + (* SIf *)
      destruct (eval en e s) as [v s1|er s1] eqn:Ee; cbn [bind_res]; [|exact I].
      pose proof (eval_step P _ _ _ _ _ W Ee) as H1.
      assert (He1 : env_ok (next s1) en) by (eapply env_ok_mono; [apply (OK3_next _ _ _ _ H1)|exact He]).
      pose proof (Hexec P en (if (v =? 0)%Z then b else a) s1 (proj1 H1) He1) as H2.
      destruct (exec true f en (if (v =? 0)%Z then b else a) s1) as [en1 s2|er s2]; cbn [bind_res]; [|exact I]. destruct H2 as [H2 _].
      assert (H : OK3 P zero s s2) by (eapply OK3_trans0; [exact H1|exact H2]).
      split; [exact H|]. eapply env_ok_mono; [apply (OK3_next _ _ _ _ H)|exact He].
    + (* SCellNew *)
      destruct (eval en e s) as [v s1|er s1] eqn:Ee; cbn [bind_res]; [|exact I].
      pose proof (eval_step P _ _ _ _ _ W Ee) as H1.
      assert (H : OK3 P zero s (set_next_cell (S (next_cell s1)) (set_cells (insert (next_cell s1) v) s1))).
      { eapply OK3_trans0; [exact H1|]. step_sq (proj1 H1). }
      split; [exact H|]. apply env_ok_cell. eapply env_ok_mono; [apply (OK3_next _ _ _ _ H)|exact He].
    + (* SCellSet *)
      destruct (eval en e s) as [v s1|er s1] eqn:Ee; cbn [bind_res]; [|exact I].
      pose proof (eval_step P _ _ _ _ _ W Ee) as H1.
      destruct (lookup_env c en) as [[id|k]|]; try exact I.
      assert (H : OK3 P zero s (set_cells (insert k v) s1)).
      { eapply OK3_trans0; [exact H1|]. step_sq (proj1 H1). }
      split; [exact H|]. eapply env_ok_mono; [apply (OK3_next _ _ _ _ H)|exact He].
    + (* SLog *)
      destruct (eval en e s) as [v s1|er s1] eqn:Ee; cbn [bind_res]; [|exact I].
      pose proof (eval_step P _ _ _ _ _ W Ee) as H1.
      assert (H : OK3 P zero s (emit (EvLog v) s1)).
      { eapply OK3_trans0; [exact H1|]. step_sq (proj1 H1). }
      split; [exact H|]. eapply env_ok_mono; [apply (OK3_next _ _ _ _ H)|exact He].
  - (* run_body *)
    intros P c s W He. rewrite run_body_S. destruct (c_body c) as [on ss ret]. cbv zeta.
    set (s0 := emit (EvRun (c_name c)) s).
    assert (H0 : OK3 P zero s s0) by (step_sq W).
    destruct on as [deps|].
    + match goal with |- context [fold_left ?g deps ?a] => destruct (fold_left g deps a) as [s1|] eqn:Ef end; [|exact I].
      destruct (on_track_same_own _ _ _ _ Ef) as [s0' [E0 Hs]]. inversion E0; subst s0'.
      assert (H1 : OK3 P zero s0 (set_tracker None s1)).
      { apply sq_OK3; [|apply H0]. eapply sq_trans; [apply same_own_sq, Hs|sqt]. }
      assert (He1 : env_ok (next (set_tracker None s1)) (c_env c)).
      { eapply env_ok_mono; [|exact He]. pose proof (OK3_next _ _ _ _ H0). pose proof (OK3_next _ _ _ _ H1). lia. }
      pose proof (Hexec P (c_env c) ss (set_tracker None s1) (proj1 H1) He1) as H2.
      destruct (exec true f (c_env c) ss (set_tracker None s1)) as [en1 s2|er s2]; cbn [bind_res]; [|exact I]. destruct H2 as [H2 _].
      destruct (eval en1 ret s2) as [v s3|er s3] eqn:Ee; cbn [bind_res]; [|exact I].
      pose proof (eval_step P _ _ _ _ _ (proj1 H2) Ee) as H3.
      split; [|exact I].
      eapply OK3_trans0; [exact H0|]. eapply OK3_trans0; [exact H1|]. eapply OK3_trans0; [exact H2|].
      eapply OK3_trans0; [exact H3|]. destruct (c_kind c); step_sq (proj1 H3).
    + pose proof (Hexec P (c_env c) ss s0 (proj1 H0) He) as H2.
      destruct (exec true f (c_env c) ss s0) as [en1 s2|er s2]; cbn [bind_res]; [|exact I]. destruct H2 as [H2 _].
      destruct (eval en1 ret s2) as [v s3|er s3] eqn:Ee; cbn [bind_res]; [|exact I].
      pose proof (eval_step P _ _ _ _ _ (proj1 H2) Ee) as H3.
      split; [|exact I].
      eapply OK3_trans0; [exact H0|]. eapply OK3_trans0; [exact H2|].
      eapply OK3_trans0; [exact H3|]. destruct (c_kind c); step_sq (proj1 H3).
  - (* create_computation *)
    intros P en x k b s W He. rewrite create_computation_S.
    destruct (create_empty true s) as [id s1|er s1] eqn:Hce; cbn [bind_res]; [|exact I]. cbv zeta.
    destruct (step_create P s id s1 W Hce) as (Eid & Hn1 & Hc1 & H1).
    set (c := Clo x k en b).
    set (B := set_tracker (Some []) (set_current (Some id) (register x id s1))).
    assert (WB : OWN P B).
    { apply (OWN_cur P (set_tracker (Some []) (register x id s1))); [apply H1|]. exists id. split; [reflexivity|cbn; lia]. }
    assert (HeB : env_ok (next B) (c_env c)) by (eapply env_ok_mono; [|exact He]; cbn; lia).
    pose proof (Hbody P c B WB HeB) as H3.
    destruct (run_body true f c B) as [v s3|er s3]; cbn [bind_res]; [|exact I]. destruct H3 as [H3 _].
    pose proof (OK3_next _ _ _ _ H3) as L3. cbn in L3.
    set (s4 := set_current (current (register x id s1)) (set_tracker (tracker (register x id s1)) s3)).
    assert (W4 : OWN P s4).
    { apply (OWN_cur P (set_tracker (tracker (register x id s1)) s3)); [apply H3|].
      destruct (od_cur _ _ _ _ W) as (c0 & Hc0 & Hlt0). exists c0. split; [cbn; congruence|cbn; lia]. }
    assert (H14 : OK3 P zero s1 s4) by (destruct H3 as (_ & F3 & B3); split; [exact W4|split; [exact F3|exact B3]]).
    assert (H04 : OK3 P zero s s4) by (eapply OK3_trans0; [exact H1|exact H14]).
    assert (Henv : forall sf, next s4 <= next sf -> env_ok (next sf) ((x, BNode id) :: en)).
    { intros sf Lf. apply env_ok_node; [cbn in Lf; lia|]. eapply env_ok_mono; [|exact He]. cbn in Lf. lia. }
    destruct (alive id s4) eqn:Ha; cbn [andb negb].
    * destruct (link true id (match tracker s3 with Some t => t | None => [] end) s4) as [[] s5|er s5] eqn:Hl; cbn [bind_res]; [|exact I].
      assert (H5 : OK3 P zero s4 s5) by (apply sq_OK3; [eapply sq_link; exact Hl|exact W4]).
      destruct (alive id s5); [|exact I].
      assert (H6 : OK3 P zero s5 (upd id (fun n => nd_cb (Some c) (nd_value (Some match k with KEffect => 0%Z | _ => v end) n)) s5)).
      { apply step_upd_cb; [apply H5|intros nd; repeat split|].
        intros nd c' _ Hc'. cbn in Hc'. inversion Hc'; subst c'. cbn.
        eapply env_ok_mono; [|exact He]. pose proof (OK3_next _ _ _ _ H5). cbn in *. lia. }
      assert (H : OK3 P zero s (upd id (fun n => nd_cb (Some c) (nd_value (Some match k with KEffect => 0%Z | _ => v end) n)) s5)).
      { eapply OK3_trans0; [exact H04|]. eapply OK3_trans0; [exact H5|exact H6]. }
      split; [exact H|]. apply Henv. pose proof (OK3_next _ _ _ _ H5). cbn. exact H0.
    * split; [exact H04|]. apply Henv. lia.
  - (* dispose *)
    intros P id s W. rewrite dispose_S.
    assert (H0 : OK3 P zero s (unsubscribe true id s)) by (apply sq_OK3; [apply sq_unsubscribe|exact W]).
    pose proof (Hdc P id (unsubscribe true id s) (proj1 H0)) as H1.
    destruct (dispose_children true f id (unsubscribe true id s)) as [[] s1|er s1] eqn:Edc; cbn [bind_res]; [|exact I].
    destruct H1 as [H1 _].
    assert (H01 : OK3 P zero s s1) by (eapply OK3_trans0; [exact H0|exact H1]).
    destruct (nodes s1 !! id) as [this|] eqn:Hid; [|split; [exact H01|exact I]].
    destruct (dispose_children_empties _ _ _ _ Edc _ Hid) as [Hch Hcl].
    split; [|exact I]. eapply OK3_trans0; [exact H01|]. apply step_delete; [apply H1|assumption..].
  - (* dispose_children *)
    intros P id s W. rewrite dispose_children_S. destruct (nodes s !! id) as [nd|] eqn:Hid; [|split; [apply OK3_refl, W|exact I]].
    cbv zeta. set (s1 := upd id (fun n => nd_children [] (nd_cleanups [] n)) s).
    set (P' := fun n => P n \/ In n (n_children nd)).
    destruct (step_clear P s id nd W Hid) as (W1 & F1 & B1). fold s1 in W1, F1, B1. fold P' in W1.
    assert (Hcs : forall c, In c (n_cleanups nd) -> env_ok (next (set_tracker None s1)) (cl_env c)).
    { intros c Hc. eapply (od_cl _ _ _ _ W); eassumption. }
    pose proof (Hrc P' (n_cleanups nd) (set_tracker None s1) W1 Hcs) as H2.
    destruct (run_cleanups true f (n_cleanups nd) (set_tracker None s1)) as [[] s2|er s2]; cbn [bind_res]; [|exact I].
    destruct H2 as [(W2 & F2 & B2) _].
    pose proof (Hdl P' (n_children nd) (set_tracker (tracker s1) s2) W2) as H4.
    destruct (dispose_list true f (n_children nd) (set_tracker (tracker s1) s2)) as [[] s4|er s4]; cbn [bind_res]; [|exact I].
    destruct H4 as [(W4 & F4 & B4) Hdead].
    (* back to P: the taken children are all gone *)
    assert (W4' : OWN P s4).
    { eapply OWN_shrink; [|exact W4]. intros n [HP|Hin] [b Hb]; [exact HP|].
      destruct (od_child _ _ _ _ W _ _ _ Hid Hin) as [L _].
      rewrite (Hdead n Hin) in Hb; [discriminate|]. destruct F1 as [L1 _], F2 as [L2 _]. cbn in *. lia. }
    assert (H04 : OK3 P zero s s4).
    { split; [exact W4'|]. split.
      - eapply pframec_trans; [exact F1|]. eapply pframec_trans; [exact F2|exact F4].
      - intros l. specialize (B1 l). specialize (B2 l). specialize (B4 l). unfold zero in *.
        change (log (set_tracker None s1)) with (log s) in B2. change (pend l (set_tracker None s1)) with (pend l s1) in B2.
        change (log (set_tracker (tracker s1) s2)) with (log s2) in B4.
        change (pend l (set_tracker (tracker s1) s2)) with (pend l s2) in B4. lia. }
    destruct (nodes s4 !! id) as [nd'|]; [|split; [exact H04|exact I]].
    match goal with |- context [if ?b then _ else _] => destruct b end.
    * eapply ores_pre0; [exact H04|]. apply Hdc, W4'.
    * split; [|exact I]. eapply OK3_trans0; [exact H04|]. apply sq_OK3; [apply sq_upd, un_context'|exact W4'].
  - (* run_cleanups *)
    intros P cs s W Hcs. rewrite run_cleanups_S. destruct cs as [|c r].
    { split; [|exact I]. destruct (OK3_refl P s W) as (A & B & C). split; [exact A|split; [exact B|]]. intros l. specialize (C l). cbn. exact C. }
    set (s0 := emit (EvCleanup (cl_label c)) s).
    assert (H0 : OK3 P (fun l => lab l c) s s0) by (apply step_emit_cleanup, W).
    pose proof (Hexec P (cl_env c) (cl_ss c) s0 (proj1 H0) (Hcs c (or_introl eq_refl))) as H1.
    destruct (exec true f (cl_env c) (cl_ss c) s0) as [en1 s1|er s1]; cbn [bind_res]; [|exact I]. destruct H1 as [H1 _].
    assert (Hr : forall c', In c' r -> env_ok (next s1) (cl_env c')).
    { intros c' Hc'. eapply env_ok_mono; [|apply Hcs; right; exact Hc']. pose proof (OK3_next _ _ _ _ H1). cbn in *. lia. }
    pose proof (Hrc P r s1 (proj1 H1) Hr) as H2.
    destruct (run_cleanups true f r s1) as [[] s2|er s2]; [|exact I]. destruct H2 as [H2 _].
    split; [|exact I].
    eapply (OK3_trans P (fun l => lab l c) (fun l => cnt l r)); [|exact H0|].
    { intros l. reflexivity. }
    eapply (OK3_trans P zero (fun l => cnt l r)); [|exact H1|exact H2]. intros l. reflexivity.
  - (* dispose_list *)
    intros P ids s W. rewrite dispose_list_S. destruct ids as [|i r].
    { split; [apply OK3_refl, W|]. intros i []. }
    pose proof (Hdisp P i s W) as H1.
    destruct (dispose true f i s) as [[] s1|er s1] eqn:Ed; cbn [bind_res]; [|exact I]. destruct H1 as [H1 _].
    pose proof (dispose_dead _ _ _ _ Ed) as Hi.
    pose proof (Hdl P r s1 (proj1 H1)) as H2.
    destruct (dispose_list true f r s1) as [[] s2|er s2]; [|exact I]. destruct H2 as [H2 Hr].
    pose proof (OK3_next _ _ _ _ H1) as L1.
    split; [eapply OK3_trans0; [exact H1|exact H2]|].
    intros j [<-|Hj] Hlt.
    + destruct (nodes s2 !! i) as [b|] eqn:Hb; [|reflexivity].
      destruct H2 as (_ & [_ F2] & _). destruct (F2 i b Hb) as (a & Ha & _); [lia|]. congruence.
    + apply Hr; [exact Hj|lia].
  - (* run_node_update *)
    intros P n s W. rewrite run_node_update_S. destruct (nodes s !! n) as [nd|] eqn:Hn; [|exact I]. cbv zeta.
    assert (H1 : OK3 P zero s (upd n (nd_deps (fun _ => [])) s)) by (apply sq_OK3; [apply sq_upd, un_deps|exact W]).
    destruct (unlink_deps n (n_deps nd) (upd n (nd_deps (fun _ => [])) s)) as [[] s2|er s2] eqn:Hu; cbn [bind_res]; [|exact I].
    assert (H2 : OK3 P zero s s2).
    { eapply OK3_trans0; [exact H1|]. apply sq_OK3; [eapply sq_unlink; exact Hu|apply H1]. }
    destruct (n_cb nd) as [c|] eqn:Hcb; [|exact I]. destruct (n_value nd) as [old|]; [|exact I].
    set (s3 := upd n (fun x => nd_cb None (nd_value None x)) s2).
    assert (H3 : OK3 P zero s2 s3).
    { apply step_upd_cb; [apply H2|intros x; repeat split|]. intros x c' _ Hc'. cbn in Hc'. discriminate. }
    pose proof (Hdc P n s3 (proj1 H3)) as H4.
    destruct (dispose_children true f n s3) as [[] s4|er s4]; cbn [bind_res]; [|exact I]. destruct H4 as [H4 _].
    assert (H04 : OK3 P zero s s4) by (eapply OK3_trans0; [exact H2|eapply OK3_trans0; [exact H3|exact H4]]).
    pose proof (OK3_next _ _ _ _ H04) as L4.
    assert (Hnlt : n < next s) by (apply (od_dom _ _ _ _ W); eauto).
    destruct (alive n s4); cbn [andb negb]; [|split; [exact H04|exact I]].
    set (B := set_tracker (Some []) (set_current (Some n) s4)).
    assert (WB : OWN P B).
    { apply (OWN_cur P (set_tracker (Some []) s4)); [apply H4|]. exists n. split; [reflexivity|cbn; lia]. }
    assert (HeB : env_ok (next B) (c_env c)).
    { eapply env_ok_mono; [|eapply (od_cb _ _ _ _ W); eassumption]. cbn. lia. }
    pose proof (Hbody P c B WB HeB) as H5.
    destruct (run_body true f c B) as [new s5|er s5]; cbn [bind_res]; [|exact I]. destruct H5 as [H5 _].
    pose proof (OK3_next _ _ _ _ H5) as L5. cbn in L5.
    set (s6 := set_current (current s4) (set_tracker (tracker s4) s5)).
    assert (W6 : OWN P s6).
    { apply (OWN_cur P (set_tracker (tracker s4) s5)); [apply H5|].
      destruct (od_cur _ _ _ _ (proj1 H4)) as (c0 & Hc0 & Hlt0). exists c0. split; [exact Hc0|cbn; lia]. }
    assert (H46 : OK3 P zero s4 s6) by (destruct H5 as (_ & F5 & B5); split; [exact W6|split; [exact F5|exact B5]]).
    assert (H06 : OK3 P zero s s6) by (eapply OK3_trans0; [exact H04|exact H46]).
    destruct (alive n s6); cbn [andb negb]; [|split; [exact H06|exact I]].
    destruct (link true n (match tracker s5 with Some t => t | None => [] end) s6) as [[] s7|er s7] eqn:Hl; cbn [bind_res]; [|exact I].
    assert (H7 : OK3 P zero s6 s7) by (apply sq_OK3; [eapply sq_link; exact Hl|exact W6]).
    destruct (alive n s7); [|exact I].
    set (g := fun x => nd_dirty false (nd_cb (Some c) (nd_value (Some (if negb (eqk (c_kind c) new old) then match c_kind c with KEffect => 0%Z | _ => new end else old)) x))).
    assert (H8 : OK3 P zero s7 (upd n g s7)).
    { apply step_upd_cb; [apply H7|intros x; repeat split|].
      intros x c' _ Hc'. cbn in Hc'. inversion Hc'; subst c'.
      eapply env_ok_mono; [|eapply (od_cb _ _ _ _ W); eassumption]. pose proof (OK3_next _ _ _ _ H7). cbn in *. lia. }
    assert (H08 : OK3 P zero s (upd n g s7)).
    { eapply OK3_trans0; [exact H06|]. eapply OK3_trans0; [exact H7|exact H8]. }
    destruct (negb (eqk (c_kind c) new old)); [|split; [exact H08|exact I]].
    destruct (mark_dependents_dirty true n (upd n g s7)) as [[] s9|er s9] eqn:Hm; [|exact I].
    split; [|exact I]. eapply OK3_trans0; [exact H08|]. apply sq_OK3; [eapply sq_mark_dirty; exact Hm|apply H8].
  - (* loop *)
    intros P order s W. rewrite loop_S. destruct order as [|n rest]; [split; [apply OK3_refl, W|exact I]|].
    destruct (nodes s !! n) as [nd|]; [|apply Hloop, W]. cbv zeta.
    assert (H1 : OK3 P zero s (upd n (nd_mark MNone) s)) by (apply sq_OK3; [apply sq_upd, un_mark|exact W]).
    destruct (n_dirty nd).
    + eapply ores_pre0; [exact H1|]. eapply ores_bind0; [apply Hrnu, H1|]. intros [] s2 _ H2 _. apply Hloop, H2.
    + eapply ores_pre0; [exact H1|]. apply Hloop, H1.
  - (* propagate *)
    intros P starts s W. rewrite propagate_S. cbv zeta.
    change (fold_left _ starts (Ok [] s)) with (fold_left (sort_step true (S (size (nodes s)))) starts (Ok [] s)).
    destruct (fold_left (sort_step true (S (size (nodes s)))) starts (Ok [] s)) as [buf s1|er s1] eqn:Ef; cbn [bind_res]; [|exact I].
    destruct (sort_sq _ _ _ _ _ Ef) as (buf0 & s0 & E0 & S1). inversion E0; subst.
    eapply ores_pre0; [apply sq_OK3; [exact S1|exact W]|]. apply Hloop. apply (sq_OK3 P s0 s1 S1 W).
  - (* propagate_updates *)
    intros P id s W. rewrite propagate_updates_S. destruct (batching s); [|apply Hprop, W].
    split; [step_sq W|exact I].
Qed.

(* ---------------------------------------------------------------------------------- *)
(* main statements *)

Lemma OWN_init : OWN none init_state.
Proof.
  unfold OWN, init_state; cbn. constructor.
  - intros n [x Hx]. apply lookup_singleton_Some in Hx as [<- _]. lia.
  - exists 0. split; [reflexivity|lia].
  - intros n nd p Hn Hp. apply lookup_singleton_Some in Hn as [<- <-]. discriminate.
  - intros n nd Hn _. apply lookup_singleton_Some in Hn as [<- _]. reflexivity.
  - intros p pp c Hp Hin. apply lookup_singleton_Some in Hp as [<- <-]. destruct Hin.
  - intros n nd c Hn Hc. apply lookup_singleton_Some in Hn as [<- <-]. discriminate.
  - intros n nd cl Hn Hc. apply lookup_singleton_Some in Hn as [<- <-]. destruct Hc.
Qed.

(* the invariant is kept by every successful run, for every set P of pending nodes *)
Theorem OWN_exec : forall f P en ss s en' s', OWN P s -> env_ok (next s) en ->
  exec true f en ss s = Ok en' s' -> OWN P s' /\ env_ok (next s') en'.
Proof.
  intros f P en ss s en' s' W He H. pose proof (proj1 (own_all f) P en ss s W He) as R. rewrite H in R.
  destruct R as [(W' & _) Q]. split; assumption.
Qed.

Theorem OWN_exec1 : forall f P en st s en' s', OWN P s -> env_ok (next s) en ->
  exec1 true f en st s = Ok en' s' -> OWN P s' /\ env_ok (next s') en'.
Proof.
  intros f P en st s en' s' W He H. pose proof (proj1 (proj2 (own_all f)) P en st s W He) as R. rewrite H in R.
  destruct R as [(W' & _) Q]. split; assumption.
Qed.

Theorem OWN_dispose : forall f P id s s', OWN P s -> dispose true f id s = Ok tt s' -> OWN P s' /\ pframe s s'.
Proof.
  intros f P id s s' W H. destruct (own_all f) as (_&_&_&_&Hd&_). specialize (Hd P id s W). rewrite H in Hd.
  destruct Hd as [(W' & F & _) _]. split; assumption.
Qed.

(* C04, cleanups: exactly once.  For every label: emitted + still pending on live nodes = pending before + registered.
   Nothing is lost (a registration is either still pending on a live node or has been emitted) and nothing runs twice. *)
Theorem cleanups_conserved : forall f P en ss s en' s', OWN P s -> env_ok (next s) en ->
  exec true f en ss s = Ok en' s' ->
  forall l, cntE l (log s') + pend l s' + cntR l (log s) = cntE l (log s) + pend l s + cntR l (log s').
Proof.
  intros f P en ss s en' s' W He H l. pose proof (proj1 (own_all f) P en ss s W He) as R. rewrite H in R.
  destruct R as [(_ & _ & B) _]. specialize (B l). unfold zero in B. lia.
Qed.

Corollary program_cleanups_exact : forall f prog en s,
  exec true f root_env prog init_state = Ok en s ->
  forall l, cntE l (log s) + pend l s = cntR l (log s).
Proof.
  intros f prog en s H l.
  pose proof (cleanups_conserved f none root_env prog init_state en s OWN_init env_ok_root H l) as B.
  assert (E : pend l init_state = 0).
  { unfold pend, pendm, init_state; cbn. rewrite map_fmap_singleton. unfold pendc. rewrite map_to_list_singleton. reflexivity. }
  rewrite E in B. cbn in B. lia.
Qed.

Lemma cntE_app l a b : cntE l (a ++ b) = cntE l a + cntE l b.
Proof. apply sum_list_with_app. Qed.
Lemma cntR_app l a b : cntR l (a ++ b) = cntR l a + cntR l b.
Proof. apply sum_list_with_app. Qed.

Theorem dispose_cleanups_exact : forall f P id s s', OWN P s -> dispose true f id s = Ok tt s' ->
  exists d, log s' = d ++ log s /\ forall l, cntE l d + pend l s' = pend l s + cntR l d.
Proof.
  intros f P id s s' W H.
  destruct (lext_all f) as (_&_&_&_&Hl&_). specialize (Hl id s). rewrite H in Hl. destruct Hl as [d Hd]. cbn in Hd.
  exists d. split; [exact Hd|]. intros l.
  destruct (own_all f) as (_&_&_&_&Ho&_). specialize (Ho P id s W). rewrite H in Ho.
  destruct Ho as [(_ & _ & B) _]. specialize (B l). unfold zero in B. rewrite Hd, cntE_app, cntR_app in B. lia.
Qed.

(* ---------------------------------------------------------------------------------- *)
(* no orphans when no disposal is in progress *)

Theorem no_orphan : forall s, OWN none s -> forall n nd, nodes s !! n = Some nd ->
  (n = 0 /\ n_parent nd = None) \/
  (exists p pp, n_parent nd = Some p /\ p < n /\ nodes s !! p = Some pp /\ In n (n_children pp)).
Proof.
  intros s W n nd Hn. destruct (n_parent nd) as [p|] eqn:Hp.
  - right. destruct (od_parent _ _ _ _ W _ _ _ Hn Hp) as [L [[]|(pp & Hpp & Hin)]]. exists p, pp. auto.
  - left. split; [eapply (od_root _ _ _ _ W); eassumption|reflexivity].
Qed.

(* every live node reaches node 0 through live owners *)
Inductive rooted (s : state) : nat -> Prop :=
| rooted_root n nd : nodes s !! n = Some nd -> n_parent nd = None -> rooted s n
| rooted_step n nd p : nodes s !! n = Some nd -> n_parent nd = Some p -> rooted s p -> rooted s n.

Theorem all_rooted : forall s, OWN none s -> forall n, is_Some (nodes s !! n) -> rooted s n.
Proof.
  intros s W n. induction n as [n IH] using lt_wf_ind. intros [nd Hn].
  destruct (no_orphan s W n nd Hn) as [[_ Hp]|(p & pp & Hp & Hlt & Hpp & _)].
  - eapply rooted_root; eassumption.
  - eapply rooted_step; [exact Hn|exact Hp|]. apply IH; [exact Hlt|eauto].
Qed.

Lemma rooted_alive s n : rooted s n -> is_Some (nodes s !! n).
Proof. intros [? ? H _|? ? ? H _ _]; eauto. Qed.

(* C04, leak-freedom of a disposal started when no other disposal is in progress: the whole subtree is gone, nothing
   else is touched, and whatever the cleanups created is owned, through live owners, by node 0 *)
Inductive desc (s : state) (a : nat) : nat -> Prop :=
| desc_self : desc s a a
| desc_step n nd p : nodes s !! n = Some nd -> n_parent nd = Some p -> desc s a p -> desc s a n.

Theorem dispose_leak_free : forall f id s s', OWN none s -> dispose true f id s = Ok tt s' ->
  OWN none s' /\
  (forall n, is_Some (nodes s' !! n) -> n < next s -> is_Some (nodes s !! n) /\ ~ desc s id n) /\
  (forall n, is_Some (nodes s' !! n) -> rooted s' n).
Proof.
  intros f id s s' W H. destruct (OWN_dispose _ _ _ _ _ W H) as [W' [L F]].
  split; [exact W'|]. split; [|apply all_rooted, W'].
  intros n [nd' Hn'] Hlt. destruct (F n nd' Hn' Hlt) as (nd & Hn & Ep). split; [eauto|].
  intros Hd. revert nd' Hn' Hlt nd Hn Ep. induction Hd as [|n nd0 p Hn0 Hp0 Hd IH]; intros nd' Hn' Hlt nd Hn Ep.
  - rewrite (dispose_dead _ _ _ _ H) in Hn'. discriminate.
  - rewrite Hn0 in Hn. inversion Hn; subst nd0. rewrite Ep in Hp0.
    destruct (od_parent _ _ _ _ W' _ _ _ Hn' Hp0) as [Lp [[]|(pp' & Hpp' & _)]].
    assert (Hplt : p < next s) by lia.
    destruct (F p pp' Hpp' Hplt) as (pp & Hpp & Epp). eapply IH; eassumption.
Qed.

(* with a disposal in progress (P not empty) the subtree may survive in part: exactly the pending nodes *)

(* a live node whose owner is dead; such nodes exist only while a disposal is in progress *)
Definition orphan (s : state) : Prop :=
  exists n nd p, nodes s !! n = Some nd /\ n_parent nd = Some p /\ nodes s !! p = None.

Theorem quiescent_no_orphan : forall s, OWN none s -> ~ orphan s.
Proof.
  intros s W (n & nd & p & Hn & Hp & Hd). destruct (od_parent _ _ _ _ W _ _ _ Hn Hp) as [_ [[]|(pp & Hpp & _)]]. congruence.
Qed.

Print Assumptions OWN_exec.
Print Assumptions cleanups_conserved.
Print Assumptions program_cleanups_exact.
Print Assumptions dispose_cleanups_exact.
Print Assumptions dispose_leak_free.
Print Assumptions all_rooted.
Print Assumptions quiescent_no_orphan.

(* ---------------------------------------------------------------------------------- *)
(* examples *)

Local Open Scope Z_scope.

Definition own_b (s : state) : bool :=
  forallb (fun kv =>
    match n_parent (snd kv) with
    | None => Nat.eqb (fst kv) 0
    | Some p => match nodes s !! p with
                | Some pp => existsb (Nat.eqb (fst kv)) (n_children pp)
                | None => false
                end
    end) (map_to_list (nodes s)).

Definition total_pending (s : state) : nat :=
  sum_list_with (fun kv => length (n_cleanups (snd kv))) (map_to_list (nodes s)).
Definition is_cleanup (e : ev) : bool := match e with EvCleanup _ => true | _ => false end.
Definition is_reg (e : ev) : bool := match e with EvReg _ => true | _ => false end.

(* nested scopes, effects with cleanups, a cleanup that registers another cleanup and creates an effect in the scope
   being disposed, a cleanup that disposes its own scope: afterwards every registration has run exactly once, nothing
   is pending, only the root and signal 1 are left *)
Definition own_prog : list stmt :=
  [SSignal 1 (Lit 0);
   SScope 2 [SCurScope 3;
             SOnCleanup 1 [SRunIn 3 [SOnCleanup 2 [SLog (Lit 7)]; SEffect 6 (Body None [SOnCleanup 5 []] (Get 1))]];
             SOnCleanup 3 [SDispose 3];
             SScope 4 [SOnCleanup 4 []; SEffect 5 (Body None [SOnCleanup 6 [SSet 1 (Add (GetU 1) (Lit 1))]] (Get 1))]];
   SSet 1 (Lit 5);
   SDispose 2].
Example own_prog_runs :
  match exec true 600 root_env own_prog init_state with
  | Ok _ s => own_b s = true /\ size (nodes s) = 2%nat /\ total_pending s = 0%nat /\
              List.length (List.filter is_cleanup (log s)) = List.length (List.filter is_reg (log s))
  | Err _ _ => False
  end.
Proof. vm_compute. repeat split; reflexivity. Qed.

Local Open Scope nat_scope.

(* transient orphans do exist (with P not empty): a cleanup of scope 2 disposes scope 2 (allowed since fix d227a40) while
   the children that the outer dispose_children took out of the scope (scope 5) are pending; scope 2 leaves the table and
   scope 5 has a dead owner until the callback returns.  The pinned try_use_context indexed the dead owner (site 14);
   since commit 87c1b28 the walk ends there, and when the callback returns the pending child is disposed *)
Definition reentrant_prog : list stmt :=
  [SScope 2 [SCurScope 4; SScope 5 []; SOnCleanup 1 [SDispose 4; SRunIn 5 [SUseCtx 1]]];
   SDispose 2].
Example reentrant_pinned_vs_fixed :
  match exec false 400 root_env reentrant_prog init_state, exec true 400 root_env reentrant_prog init_state with
  | Err (Runtime 14) s0, Ok _ s =>
      nodes s0 !! 1%nat = None /\ (n_parent <$> nodes s0 !! 2%nat) = Some (Some 1%nat)   (* the orphan at the pinned panic *)
      /\ own_b s = true /\ size (nodes s) = 1%nat
  | _, _ => False
  end.
Proof. vm_compute. repeat split; reflexivity. Qed.

(* the same scenario without the context lookup completes, and leaves no orphan and no pending cleanup behind *)
Example reentrant_dispose_completes :
  match exec true 400 root_env [SScope 2 [SCurScope 4; SScope 5 [SOnCleanup 2 []]; SOnCleanup 1 [SDispose 4]]; SDispose 2] init_state with
  | Ok _ s => own_b s = true /\ size (nodes s) = 1%nat /\ total_pending s = 0%nat /\
              List.length (List.filter is_cleanup (log s)) = 2%nat
  | Err _ _ => False
  end.
Proof. vm_compute. repeat split; reflexivity. Qed.

(* why [od_cur] (the current owner is an existing node) is part of the invariant: with [current = None] -- which no run
   from [init_state] ever reaches -- a created node has no owner (a second root that nobody disposes) and a registered
   cleanup is not stored anywhere (it can never run): both laws above would fail *)
Example current_none_is_outside :
  match exec true 50 root_env [SOnCleanup 1 []; SSignal 2 (Lit 0)] (set_current None init_state) with
  | Ok _ s => List.length (List.filter is_reg (log s)) = 1%nat /\ total_pending s = 0%nat /\
              List.length (List.filter is_cleanup (log s)) = 0%nat /\
              (n_parent <$> nodes s !! 1%nat) = Some None
  | Err _ _ => False
  end.
Proof. vm_compute. repeat split; reflexivity. Qed.
