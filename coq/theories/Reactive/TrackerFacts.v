(* Reactive/TrackerFacts.v -- C03, the untracked forms on the runtime model (fx = true, any fuel).
   The dependency tracker is changed by tracked reads and STrack only (they append); every construct that installs
   another tracker (untrack / component scope, on(..), cleanups, a computation's own run) puts the previous one back. *)
From stdpp Require Import gmap list.
From Coq Require Import ZArith Lia.
From Syc Require Import Reactive.Syntax Reactive.Interp Reactive.Show Reactive.Frame Reactive.NoPanic.

(* [s'] has the tracker of [s], possibly with more ids appended *)
Definition textends (s s' : state) : Prop :=
  match tracker s, tracker s' with
  | Some t, Some t' => exists l, t' = t ++ l
  | None, None => True
  | _, _ => False
  end.

Lemma textends_refl s : textends s s.
Proof. unfold textends. destruct (tracker s); [exists []; rewrite app_nil_r; reflexivity|exact I]. Qed.
Lemma textends_trans s1 s2 s3 : textends s1 s2 -> textends s2 s3 -> textends s1 s3.
Proof.
  unfold textends. destruct (tracker s1), (tracker s2), (tracker s3); try tauto.
  intros [a ->] [b ->]. exists (a ++ b). rewrite app_assoc. reflexivity.
Qed.
Lemma textends_eq s s' : tracker s' = tracker s -> textends s s'.
Proof. intros E. unfold textends. rewrite E. destruct (tracker s); [exists []; rewrite app_nil_r; reflexivity|exact I]. Qed.
Lemma textends_none s s' : textends s s' -> tracker s = None -> tracker s' = None.
Proof. unfold textends. intros H E. rewrite E in H. destruct (tracker s'); [destruct H|reflexivity]. Qed.

Definition tE {A} (s : state) (r : res A) : Prop := match r with Ok _ s' => textends s s' | Err _ _ => True end.
Definition tQ {A} (s : state) (r : res A) : Prop := match r with Ok _ s' => tracker s' = tracker s | Err _ _ => True end.

Lemma tQ_tE {A} s (r : res A) : tQ s r -> tE s r.
Proof. destruct r; cbn; [apply textends_eq|tauto]. Qed.

Lemma tE_bind {A B} s (r : res A) (k : A -> state -> res B) :
  tE s r -> (forall a s1, tE s1 (k a s1)) -> tE s (bind_res r k).
Proof.
  destruct r as [a s1|e s1]; cbn [bind_res tE]; [|tauto]. intros H Hk. specialize (Hk a s1).
  destruct (k a s1); cbn in *; [eapply textends_trans; eassumption|exact I].
Qed.
Lemma tQ_bind {A B} s (r : res A) (k : A -> state -> res B) :
  tQ s r -> (forall a s1, tQ s1 (k a s1)) -> tQ s (bind_res r k).
Proof.
  destruct r as [a s1|e s1]; cbn [bind_res tQ]; [|tauto]. intros H Hk. specialize (Hk a s1).
  destruct (k a s1); cbn in *; [congruence|exact I].
Qed.

(* ---------------------------------------------------------------------------------- *)
(* the operations that do not run user code *)

Lemma tracker_foldr_upd (g : nat -> node -> node) l s :
  tracker (foldr (fun d acc => upd d (g d) acc) s l) = tracker s.
Proof. induction l as [|d l IH]; cbn [foldr]; [reflexivity|]. exact IH. Qed.

Lemma track_textends id s : textends s (track id s).
Proof. unfold textends, track. destruct (tracker s) as [t|] eqn:E; cbn; [eexists; reflexivity|rewrite E; exact I]. Qed.

(* (d) an untracked read never touches the tracker *)
Theorem read_untracked_tracker en x s : tracker (st_of (read false en x s)) = tracker s.
Proof.
  unfold read. destruct (lookup_env x en) as [[id|c]|]; try reflexivity.
  destruct (nodes s !! id) as [nd|]; [|reflexivity]. destruct (n_value nd); reflexivity.
Qed.

Theorem getu_tracker : forall en x s, tracker (st_of (eval en (GetU x) s)) = tracker s.
Proof. intros en x s. apply read_untracked_tracker. Qed.

Lemma read_tE t en x s : tE s (read t en x s).
Proof.
  unfold read. destruct (lookup_env x en) as [[id|c]|]; try exact I.
  assert (Ht : textends s (if t then track id s else s)) by (destruct t; [apply track_textends|apply textends_refl]).
  destruct (nodes (if t then track id s else s) !! id) as [nd|]; [|exact I]. destruct (n_value nd); [|exact I]. exact Ht.
Qed.

Lemma eval_tE en e : forall s, tE s (eval en e s).
Proof.
  induction e; intros s; cbn [eval];
    try (apply tE_bind; [auto|intros ? ?; try (apply tE_bind; [auto|intros ? ?])]; try apply textends_refl).
  - apply textends_refl.
  - apply read_tE.
  - apply read_tE.
  - match goal with |- context [if ?b then _ else _] => destruct b end; auto.
  - destruct (lookup_env x en) as [[id|c]|]; try exact I. apply textends_refl.
  - destruct (lookup_env c en) as [[id|k]|]; try exact I. destruct (cells s !! k); [apply textends_refl|exact I].
Qed.

Lemma create_empty_tQ s : tQ s (create_empty true s).
Proof.
  unfold create_empty. destruct (current s) as [c|]; [|reflexivity].
  match goal with |- context [if ?b then _ else _] => destruct b end; reflexivity.
Qed.

Lemma update_silent_tQ id v s : tQ s (update_silent id v s).
Proof. unfold update_silent. destruct (nodes s !! id) as [nd|]; [|exact I]. destruct (n_value nd); [reflexivity|exact I]. Qed.

Lemma push_dependents_tQ n : forall ts s, tQ s (push_dependents true n ts s).
Proof.
  induction ts as [|d r IH]; intros s; cbn [push_dependents]; [reflexivity|].
  destruct (alive d s); [|apply IH]. specialize (IH (upd d (nd_dependents (fun l => l ++ [n])) s)).
  destruct (push_dependents true n r _); cbn in *; [exact IH|exact I].
Qed.

Lemma link_tQ n ts s : tQ s (link true n ts s).
Proof.
  unfold link. apply tQ_bind; [apply push_dependents_tQ|]. intros [] s1. destruct (alive n s1); reflexivity.
Qed.

Lemma unlink_deps_tQ n deps s : tQ s (unlink_deps n deps s).
Proof.
  unfold unlink_deps.
  assert (G : forall (r : res unit), tQ s r ->
     tQ s (fold_left (fun r d => do _, s1 <- r;
              if alive d s1 then Ok tt (upd d (nd_dependents (remove_id n)) s1) else Err (Runtime 6) s1) deps r)).
  { induction deps as [|d deps IH]; intros r Hr; cbn [fold_left]; [exact Hr|].
    apply IH. destruct r as [[] s1|e s1]; cbn [bind_res tQ] in *; [|exact I]. destruct (alive d s1); [exact Hr|exact I]. }
  apply G. reflexivity.
Qed.

Lemma mark_dependents_dirty_tQ n s : tQ s (mark_dependents_dirty true n s).
Proof.
  unfold mark_dependents_dirty. destruct (nodes s !! n) as [nd|]; [|reflexivity].
  cbn. apply (tracker_foldr_upd (fun _ => nd_dirty true)).
Qed.

Lemma provide_tQ ty v s : tQ s (provide true ty v s).
Proof.
  unfold provide. destruct (current s) as [c|]; [|reflexivity]. destruct (nodes s !! c) as [nd|]; [|reflexivity].
  match goal with |- context [if ?b then _ else _] => destruct b end; [exact I|reflexivity].
Qed.

Lemma try_use_context_tQ ty s : tQ s (try_use_context true ty s).
Proof.
  pose proof (try_use_context_st true ty s) as E. destruct (try_use_context true ty s); cbn in *; [subst; reflexivity|exact I].
Qed.

Lemma unsubscribe_tracker id s : tracker (unsubscribe true id s) = tracker s.
Proof.
  unfold unsubscribe. destruct (nodes s !! id) as [this|]; [|reflexivity].
  rewrite (tracker_foldr_upd (fun _ => nd_dependents (remove_id id))). reflexivity.
Qed.

Lemma marks_only_tracker s s' : marks_only s s' -> tracker s' = tracker s.
Proof. intros [E _]. rewrite E. reflexivity. Qed.

Lemma sort_tQ g s starts : forall a, tQ s a -> tQ s (fold_left (sort_step true g) starts a).
Proof.
  induction starts as [|st starts IH]; intros a Ha; cbn [fold_left]; [exact Ha|].
  apply IH. unfold sort_step. destruct a as [buf s1|e s1]; cbn [bind_res tQ] in *; [|exact I].
  destruct (dfs g st (s1, buf)) as [[[s2 buf2]|]|] eqn:Hd; try exact I.
  pose proof (marks_only_tracker _ _ (dfs_marks_only _ _ _ _ _ _ Hd)) as E2.
  pose proof (mark_dependents_dirty_tQ st s2) as E3.
  destruct (mark_dependents_dirty true st s2) as [[] s3|e s3]; cbn in *; [congruence|exact I].
Qed.

(* the trackers installed by on(deps, ..): every dep is appended, in order *)
Definition on_ids (en : env) (deps : list nat) (ids : list nat) : Prop :=
  Forall2 (fun x id => lookup_env x en = Some (BNode id)) deps ids.
Definition tracked_more (ids : list nat) (t : option (list nat)) : option (list nat) :=
  match t with Some l => Some (l ++ ids) | None => None end.

Lemma on_track_tracker c deps : forall (a : option state) s1,
  fold_left (fun (r : option state) x =>
     match r with
     | Some s => match lookup_env x (c_env c) with
                 | Some (BNode id) => Some (emit (EvTrack x) (track id s))
                 | _ => None
                 end
     | None => None
     end) deps a = Some s1 ->
  exists s0 ids, a = Some s0 /\ on_ids (c_env c) deps ids /\ tracker s1 = tracked_more ids (tracker s0).
Proof.
  induction deps as [|x deps IH]; intros a s1 H; cbn [fold_left] in H.
  - exists s1, []. split; [exact H|]. split; [constructor|]. unfold tracked_more. destruct (tracker s1); [rewrite app_nil_r|]; reflexivity.
  - destruct (IH _ _ H) as (s0' & ids & H0 & Hids & Ht). destruct a as [s|]; [|discriminate].
    destruct (lookup_env x (c_env c)) as [[id|k]|] eqn:Hx; try discriminate.
    inversion H0; subst s0'. exists s, (id :: ids). split; [reflexivity|]. split; [constructor; assumption|].
    rewrite Ht. cbn. unfold track, tracked_more. destruct (tracker s) as [t|] eqn:E; cbn; [rewrite <- app_assoc; reflexivity|rewrite E; reflexivity].
Qed.

(* ---------------------------------------------------------------------------------- *)
(* the mutual block *)

Definition tr_at (f : nat) : Prop :=
  (forall en ss s, tE s (exec true f en ss s)) /\
  (forall en st s, tE s (exec1 true f en st s)) /\
  (forall c s, tE s (run_body true f c s)) /\
  (forall en x k b s, tQ s (create_computation true f en x k b s)) /\
  (forall id s, tQ s (dispose true f id s)) /\
  (forall id s, tQ s (dispose_children true f id s)) /\
  (forall cs s, tE s (run_cleanups true f cs s)) /\
  (forall ids s, tQ s (dispose_list true f ids s)) /\
  (forall n s, tQ s (run_node_update true f n s)) /\
  (forall order s, tQ s (loop true f order s)) /\
  (forall starts s, tQ s (propagate true f starts s)) /\
  (forall id s, tQ s (propagate_updates true f id s)).

Ltac eb := apply tE_bind; [|intros ? ?].
Ltac qb := apply tQ_bind; [|intros ? ?].

Theorem tr_all : forall f, tr_at f.
Proof.
  induction f as [|f IH].
  { repeat split; intros; exact I. }
  destruct IH as (Hexec & Hexec1 & Hbody & Hcc & Hdisp & Hdc & Hrc & Hdl & Hrnu & Hloop & Hprop & Hpu).
  unfold tr_at. repeat apply conj.
  - intros en ss s. rewrite exec_S. destruct ss as [|st rest]; [(apply textends_eq; reflexivity)|]. eb; auto.
  - intros en st s. rewrite exec1_S. destruct st.
    + eb; [apply eval_tE|]. eb; [apply tQ_tE, create_empty_tQ|]. (apply textends_eq; reflexivity).
    + apply tQ_tE, Hcc.
    + apply tQ_tE, Hcc.
    + apply tQ_tE, Hcc.
    + eb; [apply tQ_tE, create_empty_tQ|]. cbv zeta. eb; [exact (Hexec _ _ _)|]. (apply textends_eq; reflexivity).
    + destruct (current s); [(apply textends_eq; reflexivity)|exact I].
    + eb; [apply eval_tE|]. destruct (lookup_env x en) as [[id|c]|]; try exact I.
      eb; [apply tQ_tE, update_silent_tQ|]. eb; [apply tQ_tE, Hpu|]. (apply textends_eq; reflexivity).
    + eb; [apply eval_tE|]. destruct (lookup_env x en) as [[id|c]|]; try exact I.
      eb; [apply tQ_tE, update_silent_tQ|]. (apply textends_eq; reflexivity).
    + destruct (lookup_env x en) as [[id|c]|]; try exact I. eb; [apply tQ_tE, Hdisp|]. (apply textends_eq; reflexivity).
    + cbv zeta. eb; [exact (Hexec _ _ _)|]. cbn [andb]. destruct (batching s); [(apply textends_eq; reflexivity)|].
      eb; [exact (tQ_tE _ _ (Hprop _ _))|]. (apply textends_eq; reflexivity).
    + (* SUntrack: the previous tracker is put back *)
      cbv zeta. destruct (exec true f en ss (set_tracker None s)) as [en1 s1|]; cbn [bind_res tE]; [|exact I].
      apply textends_eq. reflexivity.
    + cbv zeta. destruct (exec true f en ss (set_tracker None s)) as [en1 s1|]; cbn [bind_res tE]; [|exact I].
      apply textends_eq. reflexivity.
    + destruct (current s) as [c|]; [|(apply textends_eq; reflexivity)]. destruct (alive c s); [(apply textends_eq; reflexivity)|].
      cbv zeta. match goal with |- context [exec true f en ss ?s0] => destruct (exec true f en ss s0) as [en1 s1|] end;
        cbn [bind_res tE]; [|exact I]. apply textends_eq. reflexivity.
    + eb; [apply eval_tE|]. eb; [apply tQ_tE, provide_tQ|]. (apply textends_eq; reflexivity).
    + eb; [apply tQ_tE, try_use_context_tQ|]. (apply textends_eq; reflexivity).
    + destruct (lookup_env x en) as [[id|c]|]; try exact I. cbv zeta. eb; [exact (Hexec _ _ _)|]. (apply textends_eq; reflexivity).
    + destruct (lookup_env x en) as [[id|c]|]; try exact I. apply (track_textends id s).
    + eb; [apply eval_tE|]. eb; [exact (Hexec _ _ _)|]. (apply textends_eq; reflexivity).
    + eb; [apply eval_tE|]. (apply textends_eq; reflexivity).
    + eb; [apply eval_tE|]. destruct (lookup_env c en) as [[id|k]|]; try exact I. (apply textends_eq; reflexivity).
    + eb; [apply eval_tE|]. (apply textends_eq; reflexivity).
  - (* run_body *)
    intros c s. rewrite run_body_S. destruct (c_body c) as [on ss ret]. cbv zeta. destruct on as [deps|].
    + match goal with |- context [fold_left ?g deps ?a] => destruct (fold_left g deps a) as [s1|] eqn:Ef end; [|exact I].
      destruct (on_track_tracker _ _ _ _ Ef) as (s0 & ids & E0 & _ & Ht). inversion E0; subst s0. cbn in Ht.
      destruct (exec true f (c_env c) ss (set_tracker None s1)) as [en1 s2|]; cbn [bind_res tE]; [|exact I].
      destruct (eval en1 ret s2) as [v s3|]; cbn [bind_res tE]; [|exact I].
      unfold textends. destruct (c_kind c); cbn; rewrite Ht; unfold tracked_more; destruct (tracker s); eauto.
    + eb; [exact (Hexec _ _ _)|]. eb; [apply eval_tE|]. destruct (c_kind c); (apply textends_eq; reflexivity).
  - (* create_computation *)
    intros en x k b s. rewrite create_computation_S.
    pose proof (create_empty_tQ s) as H1. destruct (create_empty true s) as [id s1|]; cbn [bind_res tQ] in *; [|exact I].
    cbv zeta. match goal with |- context [run_body true f ?c ?B] => destruct (run_body true f c B) as [v s3|] end;
      cbn [bind_res tQ]; [|exact I].
    match goal with |- context [true && negb ?b] => destruct b end; cbn [andb negb]; [|cbn; exact H1].
    match goal with |- context [link true ?i ?t ?s4] => pose proof (link_tQ i t s4) as H5; destruct (link true i t s4) as [[] s5|] end;
      cbn [bind_res tQ] in *; [|exact I].
    destruct (alive id s5); [|exact I]. cbn in *. congruence.
  - (* dispose *)
    intros id s. rewrite dispose_S.
    pose proof (Hdc id (unsubscribe true id s)) as H1.
    destruct (dispose_children true f id (unsubscribe true id s)) as [[] s1|]; cbn [bind_res tQ] in *; [|exact I].
    rewrite unsubscribe_tracker in H1.
    destruct (nodes s1 !! id) as [this|]; cbn; [|exact H1].
    rewrite (tracker_foldr_upd (fun _ => nd_dependents (remove_id id))), (tracker_foldr_upd (fun _ => nd_deps (remove_id id))). exact H1.
  - (* dispose_children: cleanups run under no tracker, then the caller's tracker is put back *)
    intros id s. rewrite dispose_children_S. destruct (nodes s !! id) as [nd|]; [|reflexivity]. cbv zeta.
    match goal with |- context [run_cleanups true f ?cs ?s0] => destruct (run_cleanups true f cs s0) as [[] s2|] end;
      cbn [bind_res tQ]; [|exact I].
    match goal with |- context [dispose_list true f ?l ?s3] => pose proof (Hdl l s3) as H4; destruct (dispose_list true f l s3) as [[] s4|] end;
      cbn [bind_res tQ] in *; [|exact I].
    destruct (nodes s4 !! id) as [nd'|]; [|exact H4].
    match goal with |- context [if ?b then _ else _] => destruct b end; [|cbn; exact H4].
    pose proof (Hdc id s4) as H5. destruct (dispose_children true f id s4); cbn in *; [congruence|exact I].
  - (* run_cleanups *)
    intros cs s. rewrite run_cleanups_S. destruct cs as [|c r]; [(apply textends_eq; reflexivity)|].
    eb; [apply (Hexec (cl_env c) (cl_ss c) (emit (EvCleanup (cl_label c)) s))|]. apply Hrc.
  - intros ids s. rewrite dispose_list_S. destruct ids as [|i r]; [reflexivity|]. qb; [apply Hdisp|]. apply Hdl.
  - (* run_node_update *)
    intros n s. rewrite run_node_update_S. destruct (nodes s !! n) as [nd|]; [|exact I]. cbv zeta.
    pose proof (unlink_deps_tQ n (n_deps nd) (upd n (nd_deps (fun _ => [])) s)) as H2.
    destruct (unlink_deps n (n_deps nd) (upd n (nd_deps (fun _ => [])) s)) as [[] s2|]; cbn [bind_res tQ] in *; [|exact I].
    destruct (n_cb nd) as [c|]; [|exact I]. destruct (n_value nd) as [old|]; [|exact I].
    match goal with |- context [dispose_children true f n ?s3] => pose proof (Hdc n s3) as H4; destruct (dispose_children true f n s3) as [[] s4|] end;
      cbn [bind_res tQ] in *; [|exact I].
    assert (E4 : tracker s4 = tracker s) by (cbn in H2, H4; congruence).
    destruct (alive n s4); cbn [andb negb]; [|cbn; exact E4].
    match goal with |- context [run_body true f c ?B] => destruct (run_body true f c B) as [new s5|] end; cbn [bind_res tQ]; [|exact I].
    match goal with |- context [if negb ?b then _ else _] => destruct b end; cbn [andb negb]; [|cbn; exact E4].
    match goal with |- context [link true n ?t ?s6] => pose proof (link_tQ n t s6) as H7; destruct (link true n t s6) as [[] s7|] end;
      cbn [bind_res tQ] in *; [|exact I].
    destruct (alive n s7); [|exact I]. cbn in H7.
    match goal with |- context [if ?b then _ else _] => destruct b end; [|cbn; congruence].
    match goal with |- context [mark_dependents_dirty true n ?s8] => pose proof (mark_dependents_dirty_tQ n s8) as H9;
      destruct (mark_dependents_dirty true n s8) as [[] s9|] end; cbn in *; [congruence|exact I].
  - (* loop *)
    intros order s. rewrite loop_S. destruct order as [|n rest]; [reflexivity|].
    destruct (nodes s !! n) as [nd|]; [|apply Hloop]. cbv zeta.
    destruct (n_dirty nd).
    + pose proof (Hrnu n (upd n (nd_mark MNone) s)) as H2.
      destruct (run_node_update true f n (upd n (nd_mark MNone) s)) as [[] s2|]; cbn [bind_res tQ] in *; [|exact I].
      pose proof (Hloop rest s2) as H3. destruct (loop true f rest s2); cbn in *; [congruence|exact I].
    + apply (Hloop rest (upd n (nd_mark MNone) s)).
  - (* propagate *)
    intros starts s. rewrite propagate_S. cbv zeta.
    pose proof (sort_tQ (S (size (nodes s))) s starts (Ok [] s) eq_refl) as H1.
    change (fold_left _ starts (Ok [] s)) with (fold_left (sort_step true (S (size (nodes s)))) starts (Ok [] s)).
    destruct (fold_left (sort_step true (S (size (nodes s)))) starts (Ok [] s)) as [buf s1|]; cbn [bind_res tQ] in *; [|exact I].
    pose proof (Hloop (rev buf) s1) as H2. destruct (loop true f (rev buf) s1); cbn in *; [congruence|exact I].
  - intros id s. rewrite propagate_updates_S. destruct (batching s); [reflexivity|apply Hprop].
Qed.

(* ---------------------------------------------------------------------------------- *)
(* the statements *)

(* (a) untrack / component scope *)
Theorem untrack_restores : forall f en ss s en' s',
  exec1 true f en (SUntrack ss) s = Ok en' s' -> tracker s' = tracker s.
Proof.
  intros f en ss s en' s' H. destruct f as [|f]; [discriminate|]. rewrite exec1_S in H. cbv zeta in H.
  destruct (exec true f en ss (set_tracker None s)); cbn [bind_res] in H; [|discriminate]. inversion H; subst. reflexivity.
Qed.

Theorem component_restores : forall f en ss s en' s',
  exec1 true f en (SComponent ss) s = Ok en' s' -> tracker s' = tracker s.
Proof.
  intros f en ss s en' s' H. destruct f as [|f]; [discriminate|]. rewrite exec1_S in H. cbv zeta in H.
  destruct (exec true f en ss (set_tracker None s)); cbn [bind_res] in H; [|discriminate]. inversion H; subst. reflexivity.
Qed.

(* ... and nothing the block does is recorded: it runs with no tracker from beginning to end *)
Theorem untracked_block_stays_untracked : forall f en ss s en' s', tracker s = None ->
  exec true f en ss s = Ok en' s' -> tracker s' = None.
Proof.
  intros f en ss s en' s' E H. pose proof (proj1 (tr_all f) en ss s) as T. rewrite H in T. eapply textends_none; eassumption.
Qed.

(* (b) disposal *)
Theorem dispose_restores : forall f id s s', dispose true f id s = Ok tt s' -> tracker s' = tracker s.
Proof. intros f id s s' H. destruct (tr_all f) as (_&_&_&_&T&_). specialize (T id s). rewrite H in T. exact T. Qed.

Theorem dispose_children_restores : forall f id s s', dispose_children true f id s = Ok tt s' -> tracker s' = tracker s.
Proof. intros f id s s' H. destruct (tr_all f) as (_&_&_&_&_&T&_). specialize (T id s). rewrite H in T. exact T. Qed.

Theorem run_cleanups_extends : forall f cs s s', run_cleanups true f cs s = Ok tt s' -> textends s s'.
Proof. intros f cs s s' H. destruct (tr_all f) as (_&_&_&_&_&_&T&_). specialize (T cs s). rewrite H in T. exact T. Qed.

(* run_cleanups is only ever called with no tracker (dispose_children installs None around it): then it keeps it *)
Theorem run_cleanups_restores : forall f cs s s', tracker s = None ->
  run_cleanups true f cs s = Ok tt s' -> tracker s' = tracker s.
Proof. intros f cs s s' E H. rewrite E. eapply textends_none; [eapply run_cleanups_extends; exact H|exact E]. Qed.

Theorem create_computation_restores : forall f en x k b s en' s',
  create_computation true f en x k b s = Ok en' s' -> tracker s' = tracker s.
Proof. intros f en x k b s en' s' H. destruct (tr_all f) as (_&_&_&T&_). specialize (T en x k b s). rewrite H in T. exact T. Qed.

Theorem propagate_updates_restores : forall f id s s', propagate_updates true f id s = Ok tt s' -> tracker s' = tracker s.
Proof. intros f id s s' H. destruct (tr_all f) as (_&_&_&_&_&_&_&_&_&_&_&T). specialize (T id s). rewrite H in T. exact T. Qed.

(* every program only appends to the tracker it was given *)
Theorem exec_extends : forall f en ss s en' s', exec true f en ss s = Ok en' s' -> textends s s'.
Proof. intros f en ss s en' s' H. pose proof (proj1 (tr_all f) en ss s) as T. rewrite H in T. exact T. Qed.

(* (c) on(deps, ..): after the body the tracker is exactly the caller's tracker with the ids of [deps] appended, in
   order; no read made by the callback is recorded *)
Theorem on_deps_only : forall f c deps ss ret s v s', c_body c = Body (Some deps) ss ret ->
  run_body true f c s = Ok v s' ->
  exists ids, on_ids (c_env c) deps ids /\ tracker s' = tracked_more ids (tracker s).
Proof.
  intros f c deps ss ret s v s' Hb H. destruct f as [|f]; [discriminate|]. rewrite run_body_S, Hb in H. cbv zeta in H.
  match type of H with context [fold_left ?g deps ?a] => destruct (fold_left g deps a) as [s1|] eqn:Ef end; [|discriminate].
  destruct (on_track_tracker _ _ _ _ Ef) as (s0 & ids & E0 & Hids & Ht). inversion E0; subst s0. cbn in Ht.
  exists ids. split; [exact Hids|].
  destruct (exec true f (c_env c) ss (set_tracker None s1)) as [en1 s2|]; cbn [bind_res] in H; [|discriminate].
  destruct (eval en1 ret s2) as [v3 s3|]; cbn [bind_res] in H; [|discriminate].
  inversion H; subst. destruct (c_kind c); cbn; exact Ht.
Qed.

(* ... and while the callback runs there is no tracker at all *)
Theorem on_body_untracked : forall f c deps ss ret s, c_body c = Body (Some deps) ss ret ->
  forall s1, fold_left (fun (r : option state) x =>
       match r with
       | Some s => match lookup_env x (c_env c) with
                   | Some (BNode id) => Some (emit (EvTrack x) (track id s))
                   | _ => None
                   end
       | None => None
       end) deps (Some (emit (EvRun (c_name c)) s)) = Some s1 ->
  forall en1 s2, exec true f (c_env c) ss (set_tracker None s1) = Ok en1 s2 -> tracker s2 = None.
Proof. intros f c deps ss ret s _ s1 _ en1 s2 H. eapply untracked_block_stays_untracked; [|exact H]. reflexivity. Qed.

(* (d) is [getu_tracker] above; for comparison, a tracked read of a live signal appends exactly its id *)
Theorem get_tracks : forall en x id s v s', lookup_env x en = Some (BNode id) ->
  eval en (Get x) s = Ok v s' -> tracker s' = tracked_more [id] (tracker s).
Proof.
  intros en x id s v s' Hx H. cbn [eval] in H. unfold read in H. rewrite Hx in H.
  destruct (nodes (track id s) !! id) as [nd|]; [|discriminate]. destruct (n_value nd); [|discriminate].
  inversion H; subst. cbn. unfold track, tracked_more. destruct (tracker s) as [t|] eqn:E; cbn; [reflexivity|exact E].
Qed.

Print Assumptions untrack_restores.
Print Assumptions dispose_restores.
Print Assumptions dispose_children_restores.
Print Assumptions run_cleanups_restores.
Print Assumptions on_deps_only.
Print Assumptions getu_tracker.

(* ---------------------------------------------------------------------------------- *)
(* example: an effect on([1], ..) that reads signal 2 in its body depends on signal 1 only *)

Local Open Scope Z_scope.

Example on_example :
  match exec true 400 root_env
          [SSignal 1 (Lit 0); SSignal 2 (Lit 0);
           SEffect 3 (Body (Some [1%nat]) [SUntrack [SLog (Get 2)]] (Get 2))] init_state with
  | Ok _ s => (n_deps <$> nodes s !! 3%nat) = Some [1%nat] /\ tracker s = None
  | Err _ _ => False
  end.
Proof. vm_compute. split; reflexivity. Qed.
