(* Reactive/NoPanic.v -- C11, part A: with the fix commits (fx = true) the guarded runtime sites are
   unreachable, for all programs, environments, states and fuel.

   [Runtime k] marks the place S<k> (DESIGN.md Appendix B) where the Rust code indexes the node table
   or unwraps.  Sites 1 2 3 5 10 11 12 are syntactically guarded when fx = true; sites 4 and 9 are
   unreachable because [link] never removes a node; site 0 because [loop] checks liveness before it calls
   [run_node_update]; site 13 because [try_use_context] checks the liveness of the current node first;
   site 14 is guarded since commit 87c1b28 (an owner that is gone ends the walk of try_use_context).
   The remaining sites 6 7 8 need the edge invariant of WF.v. *)
From stdpp Require Import gmap list.
From Coq Require Import ZArith Lia.
From Syc Require Import Reactive.Syntax Reactive.Interp Reactive.Show.

(* the sites excluded by this file *)
Definition guarded_sites : list nat := [1;2;3;5;10;11;12]%nat.
Definition local_sites : list nat := [0;1;2;3;4;5;9;10;11;12;13;14]%nat.

(* the only runtime sites a failing run can end in *)
Definition ok_err (e : err) : Prop :=
  match e with Runtime k => k = 6%nat \/ k = 7%nat \/ k = 8%nat | _ => True end.
Definition safe {A} (r : res A) : Prop :=
  match r with Ok _ _ => True | Err e _ => ok_err e end.

Lemma safe_bind {A B} (r : res A) (k : A -> state -> res B) :
  safe r -> (forall a s, r = Ok a s -> safe (k a s)) -> safe (bind_res r k).
Proof. destruct r as [a s|e s]; cbn; intros Hr Hk; [apply Hk; reflexivity|exact Hr]. Qed.

Lemma ok_err_not_local (k : nat) : ok_err (Runtime k) -> ~ In k local_sites.
Proof. cbn. intros [-> | [-> | ->]] Hin; cbn in Hin; intuition discriminate. Qed.

Ltac site_ok := cbn; auto 6.

(* ---------------------------------------------------------------------------------- *)
(* liveness is untouched by field updates *)

Lemma alive_upd i j f s : alive i (upd j f s) = alive i s.
Proof.
  unfold alive, upd, set_nodes; cbn. apply bool_decide_ext. apply lookup_alter_is_Some.
Qed.

Lemma alive_true i s : alive i s = true <-> is_Some (nodes s !! i).
Proof. unfold alive. apply bool_decide_eq_true. Qed.

Lemma alive_false i s : alive i s = false <-> nodes s !! i = None.
Proof. unfold alive. rewrite bool_decide_eq_false. rewrite eq_None_not_Some. reflexivity. Qed.

Lemma alive_foldr_upd i (g : nat -> node -> node) l s :
  alive i (foldr (fun d acc => upd d (g d) acc) s l) = alive i s.
Proof. induction l as [|d l IH]; cbn [foldr]; [reflexivity|]. rewrite alive_upd. exact IH. Qed.

(* ---------------------------------------------------------------------------------- *)
(* the non-recursive operations, fx = true *)

Lemma create_empty_safe s : safe (create_empty true s).
Proof.
  unfold create_empty. destruct (current s) as [c|]; [|exact I].
  match goal with |- context [if ?b then _ else _] => destruct b end; exact I.
Qed.

Lemma push_dependents_ok n : forall ts s,
  exists s', push_dependents true n ts s = Ok tt s' /\ forall i, alive i s' = alive i s.
Proof.
  induction ts as [|d r IH]; intros s; cbn [push_dependents]; [eauto|].
  destruct (alive d s).
  - destruct (IH (upd d (nd_dependents (fun l => l ++ [n])) s)) as [s' [H1 H2]].
    exists s'; split; [exact H1|]. intros i. rewrite H2. apply alive_upd.
  - apply IH.
Qed.

Lemma link_ok n ts s :
  exists s', link true n ts s = Ok tt s' /\ forall i, alive i s' = alive i s.
Proof.
  unfold link. destruct (push_dependents_ok n ts s) as [s1 [H1 H2]]. rewrite H1; cbn [bind_res].
  destruct (alive n s1).
  - eexists; split; [reflexivity|]. intros i. rewrite alive_upd. apply H2.
  - eexists; split; [reflexivity|]. exact H2.
Qed.

Lemma mark_dependents_dirty_ok n s :
  exists s', mark_dependents_dirty true n s = Ok tt s' /\ forall i, alive i s' = alive i s.
Proof.
  unfold mark_dependents_dirty. destruct (nodes s !! n) as [nd|].
  - eexists; split; [reflexivity|]. intros i. apply (alive_foldr_upd i (fun _ => nd_dirty true)).
  - eauto.
Qed.

Lemma mark_dependents_dirty_safe n s : safe (mark_dependents_dirty true n s).
Proof. destruct (mark_dependents_dirty_ok n s) as [s' [-> _]]. exact I. Qed.

Lemma unlink_deps_safe n deps s : safe (unlink_deps n deps s).
Proof.
  unfold unlink_deps.
  assert (G : forall (r : res unit), safe r ->
     safe (fold_left (fun r d => do _, s1 <- r;
              if alive d s1 then Ok tt (upd d (nd_dependents (remove_id n)) s1) else Err (Runtime 6) s1) deps r)).
  { induction deps as [|d deps IH]; intros r Hr; cbn [fold_left]; [exact Hr|].
    apply IH. apply safe_bind; [exact Hr|]. intros [] s1 _. destruct (alive d s1); [exact I|site_ok]. }
  apply G. exact I.
Qed.

Lemma provide_safe ty v s : safe (provide true ty v s).
Proof.
  unfold provide. destruct (current s) as [c|]; [|exact I].
  destruct (nodes s !! c) as [nd|]; [|exact I].
  match goal with |- context [if ?b then _ else _] => destruct b end; exact I.
Qed.

Lemma use_ctx_from_safe g : forall ty id first s,
  (first = true -> is_Some (nodes s !! id)) -> safe (use_ctx_from true g ty id first s).
Proof.
  induction g as [|g IH]; intros ty id first s Hf; cbn [use_ctx_from]; [exact I|].
  destruct (nodes s !! id) as [nd|] eqn:Hn.
  - destruct (ctx_find ty (n_context nd)); [exact I|].
    destruct (n_parent nd) as [p|]; [|exact I]. apply IH. discriminate.
  - destruct first; [destruct (Hf eq_refl); discriminate|exact I].
Qed.

Lemma try_use_context_safe ty s : safe (try_use_context true ty s).
Proof.
  unfold try_use_context. destruct (current s) as [c|]; [|exact I].
  destruct (alive c s) eqn:Ha; cbn [andb negb]; [|exact I].
  apply use_ctx_from_safe. intros _. apply alive_true, Ha.
Qed.

Lemma update_silent_safe id v s : safe (update_silent id v s).
Proof.
  unfold update_silent. destruct (nodes s !! id) as [nd|]; [|exact I]. destruct (n_value nd); exact I.
Qed.

Lemma read_safe t en x s : safe (read t en x s).
Proof.
  unfold read. destruct (lookup_env x en) as [[id|c]|]; try exact I.
  match goal with |- context [nodes ?s1 !! id] => destruct (nodes s1 !! id) as [nd|] end; [|exact I].
  destruct (n_value nd); exact I.
Qed.

Lemma eval_safe en e : forall s, safe (eval en e s).
Proof.
  induction e; intros s; cbn [eval];
    try (apply safe_bind; [auto|intros ? ? _; try (apply safe_bind; [auto|intros ? ? _])]; try exact I).
  - exact I.
  - apply read_safe.
  - apply read_safe.
  - match goal with |- context [if ?b then _ else _] => destruct b end; auto.
  - destruct (lookup_env x en) as [[id|c]|]; exact I.
  - destruct (lookup_env c en) as [[id|k]|]; try exact I. destruct (cells s !! k); exact I.
Qed.

(* the topological-sort phase of propagate errs only with OutOfFuel / Cyclic *)
Lemma propagate_sort_safe g starts : forall (a : res (list nat)), safe a ->
  safe (fold_left (fun (a : res (list nat)) start =>
          do buf, s1 <- a;
          match dfs g start (s1, buf) with
          | None => Err OutOfFuel s1
          | Some None => Err Cyclic s1
          | Some (Some (s2, buf2)) => do _, s3 <- mark_dependents_dirty true start s2; Ok buf2 s3
          end) starts a).
Proof.
  induction starts as [|st starts IH]; intros a Ha; cbn [fold_left]; [exact Ha|].
  apply IH. apply safe_bind; [exact Ha|]. intros buf s1 _.
  destruct (dfs g st (s1, buf)) as [[[s2 buf2]|]|]; try exact I.
  apply safe_bind; [apply mark_dependents_dirty_safe|]. intros; exact I.
Qed.

(* ---------------------------------------------------------------------------------- *)
(* the mutual block: one induction on fuel *)

Definition safe_at (f : nat) : Prop :=
  (forall en ss s, safe (exec true f en ss s)) /\
  (forall en st s, safe (exec1 true f en st s)) /\
  (forall c s, safe (run_body true f c s)) /\
  (forall en x k b s, safe (create_computation true f en x k b s)) /\
  (forall id s, safe (dispose true f id s)) /\
  (forall id s, safe (dispose_children true f id s)) /\
  (forall cs s, safe (run_cleanups true f cs s)) /\
  (forall ids s, safe (dispose_list true f ids s)) /\
  (forall n s, is_Some (nodes s !! n) -> safe (run_node_update true f n s)) /\
  (forall order s, safe (loop true f order s)) /\
  (forall starts s, safe (propagate true f starts s)) /\
  (forall id s, safe (propagate_updates true f id s)).

Ltac sb := apply safe_bind; [|intros ? ? ?].

Theorem safe_all : forall f, safe_at f.
Proof.
  induction f as [|f IH].
  { repeat split; intros; exact I. }
  destruct IH as (Hexec & Hexec1 & Hbody & Hcc & Hdisp & Hdc & Hrc & Hdl & Hrnu & Hloop & Hprop & Hpu).
  unfold safe_at. repeat apply conj.
  - (* exec *)
    intros en ss s. rewrite exec_S. destruct ss as [|st rest]; [exact I|]. sb; auto.
  - (* exec1 *)
    intros en st s. rewrite exec1_S. destruct st.
    + sb; [apply eval_safe|]. sb; [apply create_empty_safe|]. exact I.
    + apply Hcc.
    + apply Hcc.
    + apply Hcc.
    + sb; [apply create_empty_safe|]. cbv zeta. sb; [apply Hexec|]. exact I.
    + destruct (current s); exact I.
    + sb; [apply eval_safe|]. destruct (lookup_env x en) as [[id|c]|]; try exact I.
      sb; [apply update_silent_safe|]. sb; [apply Hpu|]. exact I.
    + sb; [apply eval_safe|]. destruct (lookup_env x en) as [[id|c]|]; try exact I.
      sb; [apply update_silent_safe|]. exact I.
    + destruct (lookup_env x en) as [[id|c]|]; try exact I. sb; [apply Hdisp|]. exact I.
    + cbv zeta. sb; [apply Hexec|]. cbn [andb].
      destruct (batching s); [exact I|]. sb; [apply Hprop|]. exact I.
    + cbv zeta. sb; [apply Hexec|]. exact I.
    + cbv zeta. sb; [apply Hexec|]. exact I.
    + destruct (current s) as [c|]; [|exact I]. destruct (alive c s); [exact I|].
      cbv zeta. sb; [apply Hexec|]. exact I.
    + sb; [apply eval_safe|]. sb; [apply provide_safe|]. exact I.
    + sb; [apply try_use_context_safe|]. exact I.
    + destruct (lookup_env x en) as [[id|c]|]; try exact I. cbv zeta. sb; [apply Hexec|]. exact I.
    + destruct (lookup_env x en) as [[id|c]|]; exact I.
    + sb; [apply eval_safe|]. sb; [apply Hexec|]. exact I.
    + sb; [apply eval_safe|]. exact I.
    + sb; [apply eval_safe|]. destruct (lookup_env c en) as [[id|k]|]; exact I.
    + sb; [apply eval_safe|]. exact I.
  - (* run_body *)
    intros c s. rewrite run_body_S. destruct (c_body c) as [on ss ret]. cbv zeta.
    destruct on as [deps|].
    + match goal with |- context [fold_left ?g deps ?a] => destruct (fold_left g deps a) as [s1|] end; [|exact I].
      sb; [apply Hexec|]. sb; [apply eval_safe|]. exact I.
    + sb; [apply Hexec|]. sb; [apply eval_safe|]. exact I.
  - (* create_computation *)
    intros en x k b s. rewrite create_computation_S.
    sb; [apply create_empty_safe|]. cbv zeta. sb; [apply Hbody|].
    match goal with |- context [alive ?i ?s4] => destruct (alive i s4) eqn:Ha end; cbn [andb negb]; [|exact I].
    match goal with |- context [link true ?i ?t ?s4] => destruct (link_ok i t s4) as [s5 [Hl Hal]] end.
    rewrite Hl; cbn [bind_res]. rewrite Hal, Ha. exact I.
  - (* dispose *)
    intros id s. rewrite dispose_S. sb; [apply Hdc|].
    match goal with |- context [nodes ?s1 !! id] => destruct (nodes s1 !! id) end; exact I.
  - (* dispose_children *)
    intros id s. rewrite dispose_children_S. destruct (nodes s !! id) as [nd|]; [|exact I].
    cbv zeta. sb; [apply Hrc|]. sb; [apply Hdl|].
    match goal with |- context [nodes ?s4 !! id] => destruct (nodes s4 !! id) as [nd'|] end; [|exact I].
    match goal with |- context [if ?b then _ else _] => destruct b end; [apply Hdc|exact I].
  - (* run_cleanups *)
    intros cs s. rewrite run_cleanups_S. destruct cs as [|c r]; [exact I|]. sb; [apply Hexec|]. apply Hrc.
  - (* dispose_list *)
    intros ids s. rewrite dispose_list_S. destruct ids as [|i r]; [exact I|]. sb; [apply Hdisp|]. apply Hdl.
  - (* run_node_update *)
    intros n s [nd Hn]. rewrite run_node_update_S, Hn. cbv zeta.
    sb; [apply unlink_deps_safe|].
    destruct (n_cb nd) as [c|]; [|site_ok]. destruct (n_value nd) as [old|]; [|site_ok].
    sb; [apply Hdc|].
    match goal with |- context [alive n ?s4] => destruct (alive n s4) eqn:Ha4 end; cbn [andb negb]; [|exact I].
    sb; [apply Hbody|].
    match goal with |- context [alive n ?s6] => destruct (alive n s6) eqn:Ha end; cbn [andb negb]; [|exact I].
    match goal with |- context [link true n ?t ?s6] => destruct (link_ok n t s6) as [s7 [Hl Hal]] end.
    rewrite Hl; cbn [bind_res]. rewrite Hal, Ha.
    match goal with |- context [if ?b then _ else _] => destruct b end; [apply mark_dependents_dirty_safe|exact I].
  - (* loop *)
    intros order s. rewrite loop_S. destruct order as [|n rest]; [exact I|].
    destruct (nodes s !! n) as [nd|] eqn:Hn; [|apply Hloop]. cbv zeta.
    destruct (n_dirty nd); [|apply Hloop].
    sb; [|apply Hloop]. apply Hrnu. apply alive_true. rewrite alive_upd. apply alive_true. eauto.
  - (* propagate *)
    intros starts s. rewrite propagate_S. cbv zeta. sb; [|apply Hloop].
    apply propagate_sort_safe. exact I.
  - (* propagate_updates *)
    intros id s. rewrite propagate_updates_S. destruct (batching s); [exact I|apply Hprop].
Qed.

(* ---------------------------------------------------------------------------------- *)
(* main statements *)

Theorem no_local_panic : forall f en ss s e s',
  exec true f en ss s = Err e s' -> forall k, e = Runtime k -> ~ In k [0;1;2;3;4;5;9;10;11;12;13;14]%nat.
Proof.
  intros f en ss s e s' H k ->. pose proof (proj1 (safe_all f) en ss s) as Hs. rewrite H in Hs.
  apply ok_err_not_local, Hs.
Qed.

(* positively: a failing run ends in a user error, in OutOfFuel/IllFormed, or at site 6, 7 or 8 *)
Theorem runtime_sites : forall f en ss s k s',
  exec true f en ss s = Err (Runtime k) s' -> k = 6%nat \/ k = 7%nat \/ k = 8%nat.
Proof.
  intros f en ss s k s' H. pose proof (proj1 (safe_all f) en ss s) as Hs. rewrite H in Hs. exact Hs.
Qed.

Theorem no_guarded_panic : forall f en ss s e s',
  exec true f en ss s = Err e s' -> forall k, e = Runtime k -> ~ In k [1;2;3;5;10;11;12]%nat.
Proof.
  intros f en ss s e s' H k Hk Hin. apply (no_local_panic f en ss s e s' H k Hk).
  cbn in Hin |- *. intuition.
Qed.

(* the same for the other entry points used by the checks: a single top-level statement, an explicit
   disposal (Root::reinit disposes node 0), a propagation from the outside *)
Theorem no_local_panic_exec1 : forall f en st s e s',
  exec1 true f en st s = Err e s' -> forall k, e = Runtime k -> ~ In k local_sites.
Proof.
  intros f en st s e s' H k ->. pose proof (proj1 (proj2 (safe_all f)) en st s) as Hs. rewrite H in Hs.
  apply ok_err_not_local, Hs.
Qed.

Theorem no_local_panic_dispose : forall f id s e s',
  dispose true f id s = Err e s' -> forall k, e = Runtime k -> ~ In k local_sites.
Proof.
  intros f id s e s' H k ->. destruct (safe_all f) as (_ & _ & _ & _ & Hd & _).
  specialize (Hd id s). rewrite H in Hd. apply ok_err_not_local, Hd.
Qed.

Theorem no_local_panic_reinit : forall f s e s',
  reinit true f s = Err e s' -> forall k, e = Runtime k -> ~ In k local_sites.
Proof.
  intros f s e s' H k ->. unfold reinit in H.
  destruct (dispose true f 0 s) as [[] s1|e1 s1] eqn:Hd; cbn in H; [discriminate|].
  inversion H; subst. eapply no_local_panic_dispose; [exact Hd|reflexivity].
Qed.

(* with fx = true, [link] and [mark_dependents_dirty] cannot fail at all *)
Corollary link_total n ts s : exists s', link true n ts s = Ok tt s'.
Proof. destruct (link_ok n ts s) as [s' [H _]]; eauto. Qed.

Print Assumptions no_guarded_panic.
Print Assumptions no_local_panic.
Print Assumptions no_local_panic_reinit.
Print Assumptions runtime_sites.

(* ---------------------------------------------------------------------------------- *)
(* non-vacuity: the statements speak about runs that do fail, and the pinned code (fx = false) does
   reach the guarded sites on the same programs *)

Open Scope Z_scope.

(* an effect that disposes the scope owning it (finding F3a) *)
Definition np_prog1 : list stmt :=
  [SSignal 1 (Lit 0);
   SScope 2 [SCurScope 4; SEffect 3 (Body None [SIf (Get 1) [SDispose 4] []] (Lit 0))];
   SSet 1 (Lit 1)].

Example np_prog1_pinned_panics_at_guarded_site :
  match exec false 400 root_env np_prog1 init_state with
  | Err (Runtime k) _ => In k guarded_sites
  | _ => False
  end.
Proof. vm_compute. tauto. Qed.

Example np_prog1_fixed_runs :
  match exec true 400 root_env np_prog1 init_state with Ok _ _ => True | _ => False end.
Proof. vm_compute. exact I. Qed.

(* a failing run with fx = true: the hypothesis [exec .. = Err e s'] of the theorems is satisfiable,
   with a user error ... *)
Example np_user_error :
  match exec true 400 root_env [SSignal 1 (Lit 0); SDispose 1; SLog (Get 1)] init_state with
  | Err UserDisposed _ => True
  | _ => False
  end.
Proof. vm_compute. exact I. Qed.

(* site 14 (the parent walk of try_use_context): the pinned code reaches
   it on this program, the repaired code (dispose_children loops until the scope stays empty) runs it *)
Definition np_prog14 : list stmt :=
  [SSignal 1 (Lit 0);
   SScope 2 [SCurScope 4; SOnCleanup 1 [SRunIn 4 [SEffect 5 (Body None [SUseCtx 7] (Get 1))]]];
   SDispose 2;
   SSet 1 (Lit 1)].
Example np_site14_pinned_vs_fixed :
  match exec false 400 root_env np_prog14 init_state, exec true 400 root_env np_prog14 init_state with
  | Err (Runtime 14) _, Ok _ _ => True
  | _, _ => False
  end.
Proof. vm_compute. exact I. Qed.
