(* Reactive/WF.v -- C11, part B: a well-formedness invariant of the runtime state, preserved by every
   function of the model (fx = true), under which the sites 6, 7 and 8 are unreachable. *)
From stdpp Require Import gmap list.
From Coq Require Import ZArith Lia.
From Syc Require Import Reactive.Syntax Reactive.Interp Reactive.Show Reactive.Frame Reactive.NoPanic.

Notation nmap := (gmap nat node).

(* ---------------------------------------------------------------------------------- *)
(* the invariant *)

Record WFc (m : nmap) (nx : nat) (q : list nat) (b : bool) : Prop := {
  (* ids are handed out in order *)
  wf_dom : forall n, is_Some (m !! n) -> (n < nx)%nat;
  wf_queue_lt : forall x, In x q -> (x < nx)%nat;
  (* dependency edges are symmetric and connect live nodes *)
  wf_sym1 : forall n nn d, m !! n = Some nn -> In d (n_deps nn) ->
            exists dd, m !! d = Some dd /\ In n (n_dependents dd);
  wf_sym2 : forall d dd n, m !! d = Some dd -> In n (n_dependents dd) ->
            exists nn, m !! n = Some nn /\ In d (n_deps nn);
  (* a node whose value is taken out (it is being created or updated) has no dependencies; only
     computations have dependencies *)
  wf_busy : forall n nn, m !! n = Some nn -> n_deps nn <> [] -> n_cb nn <> None /\ n_value nn <> None;
  (* only computations are ever dirty *)
  wf_dirty : forall n nn, m !! n = Some nn -> n_dirty nn = true -> n_cb nn <> None \/ n_value nn = None;
  (* queued nodes are not being updated; the queue is empty outside batches *)
  wf_queue_val : forall x xx, In x q -> m !! x = Some xx -> n_value xx <> None;
  wf_qb : b = false -> q = [] }.

Definition WF (s : state) : Prop := WFc (nodes s) (next s) (queue s) (batching s).

(* what a call leaves alone: no node is resurrected, surviving nodes keep their "being updated" status,
   nodes created by the call are complete when it returns *)
Definition framec (m : nmap) (nx : nat) (m' : nmap) (nx' : nat) : Prop :=
  (nx <= nx')%nat /\
  forall n nd', m' !! n = Some nd' ->
    ((n < nx)%nat -> exists nd, m !! n = Some nd /\ (n_value nd = None <-> n_value nd' = None)) /\
    ((nx <= n)%nat -> n_value nd' <> None).
Definition frame (s s' : state) : Prop :=
  framec (nodes s) (next s) (nodes s') (next s') /\ batching s' = batching s.

Lemma framec_refl m nx : (forall n, is_Some (m !! n) -> (n < nx)%nat) -> framec m nx m nx.
Proof.
  intros Hd. split; [lia|]. intros n nd' Hn. split.
  - intros _. exists nd'. split; [exact Hn|tauto].
  - intros Hle. assert (n < nx)%nat by (apply Hd; eauto). lia.
Qed.

Lemma framec_trans m1 n1 m2 n2 m3 n3 : framec m1 n1 m2 n2 -> framec m2 n2 m3 n3 -> framec m1 n1 m3 n3.
Proof.
  intros [L1 H1] [L2 H2]. split; [lia|]. intros n nd3 Hn3.
  destruct (H2 n nd3 Hn3) as [H2a H2b]. split.
  - intros Hlt. destruct H2a as (nd2 & Hn2 & E2); [lia|].
    destruct (H1 n nd2 Hn2) as [H1a _]. destruct (H1a Hlt) as (nd1 & Hn1 & E1).
    exists nd1. split; [exact Hn1|tauto].
  - intros Hle. destruct (Nat.lt_ge_cases n n2) as [Hlt|Hge]; [|apply H2b, Hge].
    destruct H2a as (nd2 & Hn2 & E2); [exact Hlt|].
    destruct (H1 n nd2 Hn2) as [_ H1b]. specialize (H1b Hle). tauto.
Qed.

Lemma frame_refl s : WF s -> frame s s.
Proof. intros W. split; [apply framec_refl, (wf_dom _ _ _ _ W)|reflexivity]. Qed.

Lemma frame_trans s1 s2 s3 : frame s1 s2 -> frame s2 s3 -> frame s1 s3.
Proof. intros [F1 B1] [F2 B2]. split; [eapply framec_trans; eassumption|congruence]. Qed.

(* ---------------------------------------------------------------------------------- *)
(* maps related key by key *)

Definition pmap (G : nat -> node -> option node) (m m' : nmap) : Prop :=
  forall n, m' !! n = m !! n ≫= G n.

Lemma pmap_Some G m m' n nd' : pmap G m m' -> m' !! n = Some nd' -> exists nd, m !! n = Some nd /\ G n nd = Some nd'.
Proof. intros P H. rewrite (P n) in H. destruct (m !! n) as [nd|]; [|discriminate]. eauto. Qed.

Lemma pmap_fwd G m m' n nd nd' : pmap G m m' -> m !! n = Some nd -> G n nd = Some nd' -> m' !! n = Some nd'.
Proof. intros P H1 H2. rewrite (P n), H1. exact H2. Qed.

Lemma WFc_pmap G m m' nx q b : pmap G m m' -> WFc m nx q b ->
  (forall n nn nn' d, m !! n = Some nn -> G n nn = Some nn' -> In d (n_deps nn') ->
     exists dd dd', m !! d = Some dd /\ G d dd = Some dd' /\ In n (n_dependents dd')) ->
  (forall d dd dd' n, m !! d = Some dd -> G d dd = Some dd' -> In n (n_dependents dd') ->
     exists nn nn', m !! n = Some nn /\ G n nn = Some nn' /\ In d (n_deps nn')) ->
  (forall n nn nn', m !! n = Some nn -> G n nn = Some nn' -> n_deps nn' <> [] ->
     n_cb nn' <> None /\ n_value nn' <> None) ->
  (forall n nn nn', m !! n = Some nn -> G n nn = Some nn' -> n_dirty nn' = true ->
     n_cb nn' <> None \/ n_value nn' = None) ->
  (forall x xx xx', In x q -> m !! x = Some xx -> G x xx = Some xx' -> n_value xx' <> None) ->
  WFc m' nx q b.
Proof.
  intros P W C1 C2 C3 C4 C5. constructor.
  - intros n [nd' Hn]. destruct (pmap_Some _ _ _ _ _ P Hn) as (nd & Hm & _). apply (wf_dom _ _ _ _ W). eauto.
  - apply (wf_queue_lt _ _ _ _ W).
  - intros n nn' d Hn Hd. destruct (pmap_Some _ _ _ _ _ P Hn) as (nn & Hm & HG).
    destruct (C1 _ _ _ _ Hm HG Hd) as (dd & dd' & Hmd & HGd & Hin). exists dd'. split; [|exact Hin].
    eapply pmap_fwd; eassumption.
  - intros d dd' n Hd Hn. destruct (pmap_Some _ _ _ _ _ P Hd) as (dd & Hm & HG).
    destruct (C2 _ _ _ _ Hm HG Hn) as (nn & nn' & Hmn & HGn & Hin). exists nn'. split; [|exact Hin].
    eapply pmap_fwd; eassumption.
  - intros n nn' Hn Hd. destruct (pmap_Some _ _ _ _ _ P Hn) as (nn & Hm & HG). eapply C3; eassumption.
  - intros n nn' Hn Hd. destruct (pmap_Some _ _ _ _ _ P Hn) as (nn & Hm & HG). eapply C4; eassumption.
  - intros x xx' Hq Hx. destruct (pmap_Some _ _ _ _ _ P Hx) as (xx & Hm & HG). eapply C5; eassumption.
  - apply (wf_qb _ _ _ _ W).
Qed.

Lemma framec_pmap G m m' nx : pmap G m m' ->
  (forall n nd nd', m !! n = Some nd -> G n nd = Some nd' -> (n_value nd = None <-> n_value nd' = None)) ->
  (forall n, is_Some (m !! n) -> (n < nx)%nat) -> framec m nx m' nx.
Proof.
  intros P Hv Hd. split; [lia|]. intros n nd' Hn. destruct (pmap_Some _ _ _ _ _ P Hn) as (nd & Hm & HG). split.
  - intros _. exists nd. split; [exact Hm|]. eapply Hv; eassumption.
  - intros Hle. assert (n < nx)%nat by (apply Hd; eauto). lia.
Qed.

(* alter as a pmap *)
Lemma pmap_alter f id m : pmap (fun n nd => Some (if decide (n = id) then f nd else nd)) m (alter f id m).
Proof.
  intros n. destruct (decide (n = id)) as [->|Hne].
  - rewrite lookup_alter. destruct (m !! id); reflexivity.
  - rewrite lookup_alter_ne by congruence. destruct (m !! n); reflexivity.
Qed.

(* an update of fields the invariant does not mention *)
Definition neutral (f : node -> node) : Prop :=
  forall nd, n_value (f nd) = n_value nd /\ n_cb (f nd) = n_cb nd /\ n_dependents (f nd) = n_dependents nd /\
             n_deps (f nd) = n_deps nd /\ n_dirty (f nd) = n_dirty nd.

Lemma WFc_alter_neutral f id m nx q b : neutral f -> WFc m nx q b -> WFc (alter f id m) nx q b.
Proof.
  intros Nf W. eapply WFc_pmap; [apply pmap_alter|exact W|..].
  - intros n nn nn' d Hn HG Hd. inversion HG; subst; clear HG.
    assert (Hd' : In d (n_deps nn)).
    { destruct (decide (n = id)); [rewrite (proj1 (proj2 (proj2 (proj2 (Nf nn))))) in Hd|]; exact Hd. }
    destruct (wf_sym1 _ _ _ _ W _ _ _ Hn Hd') as (dd & Hdd & Hin). exists dd. eexists. split; [exact Hdd|]. split; [reflexivity|].
    destruct (decide (d = id)); [rewrite (proj1 (proj2 (proj2 (Nf dd))))|]; exact Hin.
  - intros d dd dd' n Hd HG Hn. inversion HG; subst; clear HG.
    assert (Hn' : In n (n_dependents dd)).
    { destruct (decide (d = id)); [rewrite (proj1 (proj2 (proj2 (Nf dd)))) in Hn|]; exact Hn. }
    destruct (wf_sym2 _ _ _ _ W _ _ _ Hd Hn') as (nn & Hnn & Hin). exists nn. eexists. split; [exact Hnn|]. split; [reflexivity|].
    destruct (decide (n = id)); [rewrite (proj1 (proj2 (proj2 (proj2 (Nf nn)))))|]; exact Hin.
  - intros n nn nn' Hn HG Hd. inversion HG; subst; clear HG. destruct (Nf nn) as (E1 & E2 & E3 & E4 & E5).
    destruct (decide (n = id)); [rewrite E1, E2; rewrite E4 in Hd|]; eapply (wf_busy _ _ _ _ W); eassumption.
  - intros n nn nn' Hn HG Hd. inversion HG; subst; clear HG. destruct (Nf nn) as (E1 & E2 & E3 & E4 & E5).
    destruct (decide (n = id)); [rewrite E1, E2; rewrite E5 in Hd|]; eapply (wf_dirty _ _ _ _ W); eassumption.
  - intros x xx xx' Hq Hx HG. inversion HG; subst; clear HG. destruct (Nf xx) as (E1 & _).
    destruct (decide (x = id)); [rewrite E1|]; eapply (wf_queue_val _ _ _ _ W); eassumption.
Qed.

Lemma framec_alter_vsame f id m nx :
  (forall nd, m !! id = Some nd -> (n_value (f nd) = None <-> n_value nd = None)) ->
  (forall n, is_Some (m !! n) -> (n < nx)%nat) -> framec m nx (alter f id m) nx.
Proof.
  intros Hf Hd. eapply framec_pmap; [apply pmap_alter| |exact Hd].
  intros n nd nd' Hn HG. inversion HG; subst. destruct (decide (n = id)) as [->|]; [symmetry; apply Hf, Hn|tauto].
Qed.

Lemma neutral_children l : neutral (fun n => nd_children (l n) n).
Proof. intros nd. repeat split. Qed.
Lemma neutral_cleanups l : neutral (fun n => nd_cleanups (l n) n).
Proof. intros nd. repeat split. Qed.
Lemma neutral_context l : neutral (fun n => nd_context (l n) n).
Proof. intros nd. repeat split. Qed.
Lemma neutral_context' l : neutral (nd_context l).
Proof. intros nd. repeat split. Qed.
Lemma neutral_mark k : neutral (nd_mark k).
Proof. intros nd. repeat split. Qed.
Lemma neutral_clear : neutral (fun n => nd_children [] (nd_cleanups [] n)).
Proof. intros nd. repeat split. Qed.

(* ---------------------------------------------------------------------------------- *)
(* folds of alters *)

Lemma nodes_foldr_upd (g : node -> node) l s :
  nodes (foldr (fun d acc => upd d g acc) s l) = foldr (fun d acc => alter g d acc) (nodes s) l.
Proof. induction l as [|d l IH]; cbn [foldr]; [reflexivity|]. cbn. rewrite IH. reflexivity. Qed.
Lemma next_foldr_upd (g : node -> node) l s : next (foldr (fun d acc => upd d g acc) s l) = next s.
Proof. induction l as [|d l IH]; cbn [foldr]; [reflexivity|]. exact IH. Qed.
Lemma queue_foldr_upd (g : node -> node) l s : queue (foldr (fun d acc => upd d g acc) s l) = queue s.
Proof. induction l as [|d l IH]; cbn [foldr]; [reflexivity|]. exact IH. Qed.
Lemma batching_foldr_upd' (g : node -> node) l s : batching (foldr (fun d acc => upd d g acc) s l) = batching s.
Proof. induction l as [|d l IH]; cbn [foldr]; [reflexivity|]. exact IH. Qed.

Lemma pmap_foldr_alter (g : node -> node) l m : (forall nd, g (g nd) = g nd) ->
  pmap (fun n nd => Some (if decide (n ∈ l) then g nd else nd)) m (foldr (fun d acc => alter g d acc) m l).
Proof.
  intros Hg. induction l as [|d l IH]; intros n; cbn [foldr].
  - destruct (m !! n) as [nd|]; cbn; [|reflexivity]. destruct (decide (n ∈ [])) as [Hi|_]; [inversion Hi|reflexivity].
  - destruct (decide (n = d)) as [->|Hne].
    + rewrite lookup_alter, (IH d). destruct (m !! d) as [nd|]; cbn; [|reflexivity].
      destruct (decide (d ∈ d :: l)) as [_|Hn]; [|exfalso; apply Hn; left].
      destruct (decide (d ∈ l)); [rewrite Hg|]; reflexivity.
    + rewrite lookup_alter_ne by congruence. rewrite (IH n). destruct (m !! n) as [nd|]; cbn; [|reflexivity].
      destruct (decide (n ∈ l)) as [Hi|Hi], (decide (n ∈ d :: l)) as [Hj|Hj]; try reflexivity.
      * exfalso; apply Hj; right; exact Hi.
      * exfalso. apply elem_of_cons in Hj as [Hj|Hj]; [congruence|exact (Hi Hj)].
Qed.

Lemma remove_id_In x y l : In y (remove_id x l) <-> In y l /\ y <> x.
Proof.
  unfold remove_id. rewrite <- !elem_of_list_In, elem_of_list_filter. tauto.
Qed.

Lemma remove_id_idem x l : remove_id x (remove_id x l) = remove_id x l.
Proof.
  unfold remove_id. induction l as [|y l IH]; [reflexivity|].
  rewrite !filter_cons. destruct (decide (y <> x)); [rewrite filter_cons; destruct (decide (y <> x)); [rewrite IH; reflexivity|contradiction]|exact IH].
Qed.

Lemma pmap_compose G1 G2 m m1 m2 : pmap G1 m m1 -> pmap G2 m1 m2 -> pmap (fun n nd => G1 n nd ≫= G2 n) m m2.
Proof. intros P1 P2 n. rewrite (P2 n), (P1 n). destruct (m !! n); reflexivity. Qed.

Lemma pmap_delete id (m : nmap) : pmap (fun n nd => if decide (n = id) then None else Some nd) m (delete id m).
Proof.
  intros n. destruct (decide (n = id)) as [->|Hne].
  - rewrite lookup_delete. destruct (m !! id); reflexivity.
  - rewrite lookup_delete_ne by congruence. destruct (m !! n); reflexivity.
Qed.

Lemma pmap_ext G G' m m' : (forall n nd, m !! n = Some nd -> G n nd = G' n nd) -> pmap G m m' -> pmap G' m m'.
Proof. intros E P n. rewrite (P n). destruct (m !! n) as [nd|] eqn:Hn; [apply E, Hn|reflexivity]. Qed.

(* ---------------------------------------------------------------------------------- *)
(* creation of a node *)

Definition fresh_node (nd : node) : Prop :=
  n_value nd = None /\ n_cb nd = None /\ n_deps nd = [] /\ n_dependents nd = [] /\ n_dirty nd = false.

Definition vsame (a b : option node) : Prop :=
  match a, b with
  | Some a, Some b => n_value a = None <-> n_value b = None
  | None, None => True
  | _, _ => False
  end.

Lemma vsame_refl a : vsame a a.
Proof. destruct a; cbn; tauto. Qed.

Lemma WFc_next m nx q b : WFc m nx q b -> WFc m (S nx) q b.
Proof.
  intros W. constructor; try apply W.
  - intros n Hn. pose proof (wf_dom _ _ _ _ W n Hn). lia.
  - intros x Hx. pose proof (wf_queue_lt _ _ _ _ W x Hx). lia.
Qed.

Lemma WFc_insert_fresh m nx q b nd : WFc m nx q b -> fresh_node nd -> WFc (<[nx := nd]> m) (S nx) q b.
Proof.
  intros W (F1 & F2 & F3 & F4 & F5).
  assert (Hnone : m !! nx = None).
  { destruct (m !! nx) eqn:E; [|reflexivity]. pose proof (wf_dom _ _ _ _ W nx (ex_intro _ _ E)). lia. }
  assert (Hne : forall n x, m !! n = Some x -> n <> nx) by (intros n x Hx ->; congruence).
  constructor.
  - intros n [x Hx]. destruct (decide (n = nx)) as [->|Hn]; [lia|].
    rewrite lookup_insert_ne in Hx by congruence. pose proof (wf_dom _ _ _ _ W n (ex_intro _ _ Hx)). lia.
  - intros x Hx. pose proof (wf_queue_lt _ _ _ _ W x Hx). lia.
  - intros n nn d Hn Hd. destruct (decide (n = nx)) as [->|Hnn].
    + rewrite lookup_insert in Hn. inversion Hn; subst. rewrite F3 in Hd. destruct Hd.
    + rewrite lookup_insert_ne in Hn by congruence.
      destruct (wf_sym1 _ _ _ _ W _ _ _ Hn Hd) as (dd & Hdd & Hin). exists dd. split; [|exact Hin].
      rewrite lookup_insert_ne; [exact Hdd|]. intros <-. congruence.
  - intros d dd n Hd Hn. destruct (decide (d = nx)) as [->|Hnn].
    + rewrite lookup_insert in Hd. inversion Hd; subst. rewrite F4 in Hn. destruct Hn.
    + rewrite lookup_insert_ne in Hd by congruence.
      destruct (wf_sym2 _ _ _ _ W _ _ _ Hd Hn) as (nn & Hnn' & Hin). exists nn. split; [|exact Hin].
      rewrite lookup_insert_ne; [exact Hnn'|]. intros <-. congruence.
  - intros n nn Hn Hd. destruct (decide (n = nx)) as [->|Hnn].
    + rewrite lookup_insert in Hn. inversion Hn; subst. congruence.
    + rewrite lookup_insert_ne in Hn by congruence. eapply (wf_busy _ _ _ _ W); eassumption.
  - intros n nn Hn Hd. destruct (decide (n = nx)) as [->|Hnn].
    + rewrite lookup_insert in Hn. inversion Hn; subst. congruence.
    + rewrite lookup_insert_ne in Hn by congruence. eapply (wf_dirty _ _ _ _ W); eassumption.
  - intros x xx Hq Hx. pose proof (wf_queue_lt _ _ _ _ W x Hq).
    rewrite lookup_insert_ne in Hx by lia. eapply (wf_queue_val _ _ _ _ W); eassumption.
  - apply (wf_qb _ _ _ _ W).
Qed.

Lemma create_empty_spec s id s1 : WF s -> create_empty true s = Ok id s1 ->
  id = next s /\ next s1 = S id /\ queue s1 = queue s /\ batching s1 = batching s /\ WF s1 /\
  (forall n, n <> id -> vsame (nodes s !! n) (nodes s1 !! n)) /\
  (forall nd, nodes s1 !! id = Some nd -> fresh_node nd).
Proof.
  intros W. unfold create_empty.
  set (nd0 := Node None None [] (current s) [] [] [] [] false MNone).
  assert (F0 : fresh_node nd0) by (repeat split).
  assert (Hnone : nodes s !! next s = None).
  { destruct (nodes s !! next s) eqn:E; [|reflexivity]. pose proof (wf_dom _ _ _ _ W _ (ex_intro _ _ E)). lia. }
  destruct (current s) as [c|].
  - match goal with |- context [if ?b then _ else _] => destruct b eqn:Ha end.
    + intros H; inversion H; subst; clear H.
      refine (conj eq_refl (conj eq_refl (conj eq_refl (conj eq_refl (conj _ (conj _ _)))))).
      * unfold WF; cbn. apply WFc_alter_neutral; [apply (neutral_children (fun n => n_children n ++ [next s]))|].
        apply WFc_insert_fresh; assumption.
      * intros n Hn. cbn. destruct (decide (n = c)) as [->|Hc].
        -- rewrite lookup_alter, lookup_insert_ne by congruence. destruct (nodes s !! c); cbn; tauto.
        -- rewrite lookup_alter_ne, lookup_insert_ne by congruence. apply vsame_refl.
      * intros nd H. cbn in H. destruct (decide (next s = c)) as [<-|Hc];
          [rewrite lookup_alter, lookup_insert in H|rewrite lookup_alter_ne, lookup_insert in H by congruence];
          inversion H; subst; repeat split.
    + intros H; inversion H; subst; clear H.
      refine (conj eq_refl (conj eq_refl (conj eq_refl (conj eq_refl (conj _ (conj _ _)))))).
      * unfold WF; cbn. apply WFc_next, W.
      * intros n _. cbn. apply vsame_refl.
      * intros nd H. cbn in H; congruence.
  - intros H; inversion H; subst; clear H.
    refine (conj eq_refl (conj eq_refl (conj eq_refl (conj eq_refl (conj _ (conj _ _)))))).
    + unfold WF; cbn. apply WFc_insert_fresh; assumption.
    + intros n Hn. cbn. rewrite lookup_insert_ne by congruence. apply vsame_refl.
    + intros nd H. cbn in H. rewrite lookup_insert in H. inversion H; subst; repeat split.
Qed.

Lemma create_empty_total s : exists id s1, create_empty true s = Ok id s1.
Proof.
  unfold create_empty. destruct (current s) as [c|]; [|eauto].
  match goal with |- context [if ?b then _ else _] => destruct b end; eauto.
Qed.

(* giving a node its value *)
Lemma WFc_set_value m nx q b id v : WFc m nx q b ->
  (forall nd, m !! id = Some nd -> n_value nd = None -> n_dirty nd = false) ->
  WFc (alter (nd_value (Some v)) id m) nx q b.
Proof.
  intros W Hid. eapply WFc_pmap; [apply pmap_alter|exact W|..].
  - intros n nn nn' d Hn HG Hd. inversion HG; subst; clear HG.
    assert (Hd' : In d (n_deps nn)) by (destruct (decide (n = id)); exact Hd).
    destruct (wf_sym1 _ _ _ _ W _ _ _ Hn Hd') as (dd & Hdd & Hin). exists dd. eexists. split; [exact Hdd|]. split; [reflexivity|].
    destruct (decide (d = id)); exact Hin.
  - intros d dd dd' n Hd HG Hn. inversion HG; subst; clear HG.
    assert (Hn' : In n (n_dependents dd)) by (destruct (decide (d = id)); exact Hn).
    destruct (wf_sym2 _ _ _ _ W _ _ _ Hd Hn') as (nn & Hnn & Hin). exists nn. eexists. split; [exact Hnn|]. split; [reflexivity|].
    destruct (decide (n = id)); exact Hin.
  - intros n nn nn' Hn HG Hd. inversion HG; subst; clear HG.
    destruct (decide (n = id)) as [->|].
    + cbn in *. split; [|discriminate]. eapply (wf_busy _ _ _ _ W); eassumption.
    + eapply (wf_busy _ _ _ _ W); eassumption.
  - intros n nn nn' Hn HG Hd. inversion HG; subst; clear HG.
    destruct (decide (n = id)) as [->|].
    + cbn in *. left. destruct (wf_dirty _ _ _ _ W _ _ Hn Hd) as [Hc|Hv]; [exact Hc|].
      rewrite (Hid _ Hn Hv) in Hd. discriminate.
    + eapply (wf_dirty _ _ _ _ W); eassumption.
  - intros x xx xx' Hq Hx HG. inversion HG; subst; clear HG.
    destruct (decide (x = id)); [cbn; discriminate|]. eapply (wf_queue_val _ _ _ _ W); eassumption.
Qed.

(* ---------------------------------------------------------------------------------- *)
(* subscription: push_dependents, link, and the write-back that follows it *)

Lemma nd_dependents_compose g1 g2 nd : nd_dependents g2 (nd_dependents g1 nd) = nd_dependents (fun l => g2 (g1 l)) nd.
Proof. destruct nd; reflexivity. Qed.

Definition occ (d : nat) (ts : list nat) : nat := count_occ Nat.eq_dec ts d.

Lemma push_dependents_spec n : forall ts s, exists s1,
  push_dependents true n ts s = Ok tt s1 /\
  next s1 = next s /\ queue s1 = queue s /\ batching s1 = batching s /\
  pmap (fun d nd => Some (nd_dependents (fun l => l ++ repeat n (occ d ts)) nd)) (nodes s) (nodes s1).
Proof.
  induction ts as [|d0 r IH]; intros s; cbn [push_dependents].
  - exists s. repeat split. intros d. destruct (nodes s !! d) as [nd|]; cbn; [|reflexivity].
    f_equal. destruct nd; cbn. unfold nd_dependents; cbn. rewrite app_nil_r. reflexivity.
  - destruct (alive d0 s) eqn:Ha.
    + destruct (IH (upd d0 (nd_dependents (fun l => l ++ [n])) s)) as (s1 & H1 & Hn & Hq & Hb & P).
      exists s1. split; [exact H1|]. repeat split; try assumption.
      intros d. rewrite (P d). cbn. destruct (decide (d = d0)) as [->|Hne].
      * rewrite lookup_alter. destruct (nodes s !! d0) as [nd|]; cbn; [|reflexivity].
        rewrite nd_dependents_compose. f_equal. unfold occ. cbn [count_occ].
        destruct (Nat.eq_dec d0 d0) as [_|Hx]; [|congruence].
        destruct nd; unfold nd_dependents; cbn. rewrite <- app_assoc. reflexivity.
      * rewrite lookup_alter_ne by congruence. destruct (nodes s !! d) as [nd|]; cbn; [|reflexivity].
        unfold occ. cbn [count_occ]. destruct (Nat.eq_dec d0 d) as [Hx|_]; [congruence|reflexivity].
    + destruct (IH s) as (s1 & H1 & Hn & Hq & Hb & P). exists s1. split; [exact H1|]. repeat split; try assumption.
      intros d. rewrite (P d). destruct (nodes s !! d) as [nd|] eqn:Hd; cbn; [|reflexivity].
      unfold occ. cbn [count_occ]. destruct (Nat.eq_dec d0 d) as [Hx|_]; [|reflexivity].
      subst. apply alive_false in Ha. congruence.
Qed.

Lemma In_app_repeat x (l : list nat) n k : In x (l ++ repeat n k) <-> In x l \/ (x = n /\ (0 < k)%nat).
Proof.
  rewrite in_app_iff. split; intros [H|H]; try (left; exact H).
  - right. apply repeat_spec in H as Hx. split; [exact Hx|]. destruct k; [destruct H|lia].
  - right. destruct H as [-> Hk]. destruct k; [lia|]. left. reflexivity.
Qed.

Lemma occ_pos d ts : (0 < occ d ts)%nat <-> In d ts.
Proof. unfold occ. symmetry. apply count_occ_In. Qed.

(* the properties of the write-back function applied to the node after [link] *)
Definition finisher (g : node -> node) : Prop :=
  forall x, n_value (g x) <> None /\ n_cb (g x) <> None /\ n_deps (g x) = n_deps x /\
            n_dependents (g x) = n_dependents x.

Lemma link_finish s n nn ts g : WF s -> nodes s !! n = Some nn -> n_value nn = None -> finisher g ->
  exists s7, link true n ts s = Ok tt s7 /\
    next s7 = next s /\ queue s7 = queue s /\ batching s7 = batching s /\
    WF (upd n g s7) /\
    (forall x, x <> n -> vsame (nodes s !! x) (nodes (upd n g s7) !! x)) /\
    (forall nd, nodes (upd n g s7) !! n = Some nd -> n_value nd <> None) /\
    is_Some (nodes s7 !! n).
Proof.
  intros W Hn Hv Hg. unfold link.
  destruct (push_dependents_spec n ts s) as (s1 & H1 & Hnx & Hq & Hb & P). rewrite H1. cbn [bind_res].
  assert (Hal : forall d, alive d s1 = alive d s).
  { intros d. destruct (push_dependents_ok n ts s) as (s1' & H1' & Hal). rewrite H1 in H1'. inversion H1'; subst. apply Hal. }
  assert (Han : alive n s1 = true) by (rewrite Hal; apply alive_true; eauto).
  rewrite Han. eexists. split; [reflexivity|].
  set (ts' := filter (fun d => alive d s1 = true) ts).
  assert (Hts' : forall d, In d ts' <-> In d ts /\ is_Some (nodes s !! d)).
  { intros d. unfold ts'. rewrite <- !elem_of_list_In, elem_of_list_filter, Hal, alive_true. tauto. }
  (* n has no dependencies and is nobody's dependent *)
  assert (Hdeps : n_deps nn = []).
  { destruct (n_deps nn) eqn:E; [reflexivity|]. destruct (wf_busy _ _ _ _ W _ _ Hn) as [_ Hx]; [rewrite E; discriminate|]. contradiction. }
  assert (Hnodep : forall d dd, nodes s !! d = Some dd -> ~ In n (n_dependents dd)).
  { intros d dd Hd Hin. destruct (wf_sym2 _ _ _ _ W _ _ _ Hd Hin) as (nn' & Hn' & Hin').
    rewrite Hn in Hn'. inversion Hn'; subst. rewrite Hdeps in Hin'. destruct Hin'. }
  set (G := fun d nd => Some (if decide (d = n)
                              then g (nd_deps (fun _ => ts') (nd_dependents (fun l => l ++ repeat n (occ d ts)) nd))
                              else nd_dependents (fun l => l ++ repeat n (occ d ts)) nd)).
  assert (PG : pmap G (nodes s) (nodes (upd n g (upd n (nd_deps (fun _ => ts')) s1)))).
  { intros d. cbn. unfold G. destruct (decide (d = n)) as [->|Hne].
    - rewrite !lookup_alter, (P n). destruct (nodes s !! n); reflexivity.
    - rewrite !lookup_alter_ne by congruence. rewrite (P d). destruct (nodes s !! d); reflexivity. }
  refine (conj Hnx (conj Hq (conj Hb (conj _ (conj _ (conj _ _)))))).
  - unfold WF. cbn [next queue batching upd set_nodes]. rewrite Hnx, Hq, Hb.
    eapply WFc_pmap; [exact PG|exact W|..].
    + (* sym1 *)
      intros x xx xx' d Hx HG Hd. unfold G in HG. inversion HG; subst; clear HG.
      destruct (decide (x = n)) as [->|Hxn].
      * destruct (Hg (nd_deps (fun _ => ts') (nd_dependents (fun l => l ++ repeat n (occ n ts)) xx))) as (_ & _ & E3 & _).
        rewrite E3 in Hd. cbn in Hd. apply Hts' in Hd as [Hd1 [dd Hd2]].
        exists dd. eexists. split; [exact Hd2|]. split; [reflexivity|].
        assert (Hin : In n (n_dependents dd ++ repeat n (occ d ts))).
        { apply In_app_repeat. right. split; [reflexivity|apply occ_pos, Hd1]. }
        destruct (decide (d = n)); [|exact Hin].
        destruct (Hg (nd_deps (fun _ => ts') (nd_dependents (fun l => l ++ repeat n (occ d ts)) dd))) as (_ & _ & _ & E4).
        rewrite E4. exact Hin.
      * cbn in Hd. destruct (wf_sym1 _ _ _ _ W _ _ _ Hx Hd) as (dd & Hdd & Hin).
        exists dd. eexists. split; [exact Hdd|]. split; [reflexivity|].
        assert (Hin' : In x (n_dependents dd ++ repeat n (occ d ts))) by (apply In_app_repeat; left; exact Hin).
        destruct (decide (d = n)); [|exact Hin'].
        destruct (Hg (nd_deps (fun _ => ts') (nd_dependents (fun l => l ++ repeat n (occ d ts)) dd))) as (_ & _ & _ & E4).
        rewrite E4. exact Hin'.
    + (* sym2 *)
      intros d dd dd' x Hd HG Hx. unfold G in HG. inversion HG; subst; clear HG.
      assert (Hx' : In x (n_dependents dd ++ repeat n (occ d ts))).
      { destruct (decide (d = n)); [|exact Hx].
        destruct (Hg (nd_deps (fun _ => ts') (nd_dependents (fun l => l ++ repeat n (occ d ts)) dd))) as (_ & _ & _ & E4).
        rewrite E4 in Hx. exact Hx. }
      apply In_app_repeat in Hx' as [Hold|[-> Hocc]].
      * destruct (wf_sym2 _ _ _ _ W _ _ _ Hd Hold) as (xx & Hxx & Hin).
        assert (x <> n) by (intros ->; exact (Hnodep _ _ Hd Hold)).
        exists xx. eexists. split; [exact Hxx|]. split; [reflexivity|].
        destruct (decide (x = n)); [contradiction|exact Hin].
      * exists nn. eexists. split; [exact Hn|]. split; [reflexivity|].
        destruct (decide (n = n)) as [_|]; [|congruence].
        destruct (Hg (nd_deps (fun _ => ts') (nd_dependents (fun l => l ++ repeat n (occ n ts)) nn))) as (_ & _ & E3 & _).
        rewrite E3. cbn. apply Hts'. split; [apply occ_pos, Hocc|eauto].
    + (* busy *)
      intros x xx xx' Hx HG Hd. unfold G in HG. inversion HG; subst; clear HG.
      destruct (decide (x = n)) as [->|Hxn].
      * destruct (Hg (nd_deps (fun _ => ts') (nd_dependents (fun l => l ++ repeat n (occ n ts)) xx))) as (E1 & E2 & _). tauto.
      * cbn in *. eapply (wf_busy _ _ _ _ W); eassumption.
    + (* dirty *)
      intros x xx xx' Hx HG Hd. unfold G in HG. inversion HG; subst; clear HG.
      destruct (decide (x = n)) as [->|Hxn].
      * destruct (Hg (nd_deps (fun _ => ts') (nd_dependents (fun l => l ++ repeat n (occ n ts)) xx))) as (E1 & E2 & _). tauto.
      * cbn in *. eapply (wf_dirty _ _ _ _ W); eassumption.
    + (* queue *)
      intros x xx xx' Hq' Hx HG. unfold G in HG. inversion HG; subst; clear HG.
      destruct (decide (x = n)) as [->|Hxn].
      * destruct (Hg (nd_deps (fun _ => ts') (nd_dependents (fun l => l ++ repeat n (occ n ts)) xx))) as (E1 & _). exact E1.
      * cbn. eapply (wf_queue_val _ _ _ _ W); eassumption.
  - intros x Hx. rewrite (PG x). destruct (nodes s !! x) as [xx|]; cbn; [|exact I].
    unfold G. destruct (decide (x = n)); [contradiction|]. cbn. tauto.
  - intros nd Hnd. rewrite (PG n), Hn in Hnd. unfold G in Hnd. cbn in Hnd. destruct (decide (n = n)); [|congruence].
    inversion Hnd; subst.
    destruct (Hg (nd_deps (fun _ => ts') (nd_dependents (fun l => l ++ repeat n (occ n ts)) nn))) as (E1 & _). exact E1.
  - cbn. rewrite lookup_alter. apply alive_true in Han. destruct Han as [x Hx]. rewrite Hx. eauto.
Qed.

(* ---------------------------------------------------------------------------------- *)
(* unsubscription at the start of an update: dependencies := [], then unlink_deps *)

Lemma nd_dependents_idem x nd : nd_dependents (remove_id x) (nd_dependents (remove_id x) nd) = nd_dependents (remove_id x) nd.
Proof.
  destruct nd as [v cb ch p dn dp cl cx di mk]. unfold nd_dependents.
  cbn [n_value n_cb n_children n_parent n_dependents n_deps n_cleanups n_context n_dirty n_mark].
  rewrite remove_id_idem. reflexivity.
Qed.
Lemma nd_deps_idem x nd : nd_deps (remove_id x) (nd_deps (remove_id x) nd) = nd_deps (remove_id x) nd.
Proof.
  destruct nd as [v cb ch p dn dp cl cx di mk]. unfold nd_deps.
  cbn [n_value n_cb n_children n_parent n_dependents n_deps n_cleanups n_context n_dirty n_mark].
  rewrite remove_id_idem. reflexivity.
Qed.

Lemma unlink_deps_spec n : forall L s, (forall d, In d L -> is_Some (nodes s !! d)) ->
  exists s2, unlink_deps n L s = Ok tt s2 /\
    next s2 = next s /\ queue s2 = queue s /\ batching s2 = batching s /\
    pmap (fun d nd => Some (if decide (d ∈ L) then nd_dependents (remove_id n) nd else nd)) (nodes s) (nodes s2).
Proof.
  unfold unlink_deps. induction L as [|d0 L IH]; intros s Hal; cbn [fold_left].
  - exists s. repeat split. intros d. destruct (nodes s !! d); cbn; [|reflexivity].
    destruct (decide (d ∈ [])) as [Hi|_]; [inversion Hi|reflexivity].
  - cbn [bind_res]. assert (Ha : alive d0 s = true) by (apply alive_true, Hal; left; reflexivity). rewrite Ha.
    destruct (IH (upd d0 (nd_dependents (remove_id n)) s)) as (s2 & H2 & Hn & Hq & Hb & P).
    { intros d Hd. apply alive_true. rewrite alive_upd. apply alive_true, Hal. right; exact Hd. }
    exists s2. split; [exact H2|]. repeat split; try assumption.
    intros d. rewrite (P d). cbn. destruct (decide (d = d0)) as [->|Hne].
    + rewrite lookup_alter. destruct (nodes s !! d0) as [nd|]; cbn; [|reflexivity].
      destruct (decide (d0 ∈ d0 :: L)) as [_|Hx]; [|exfalso; apply Hx; left].
      destruct (decide (d0 ∈ L)); [rewrite nd_dependents_idem|]; reflexivity.
    + rewrite lookup_alter_ne by congruence. destruct (nodes s !! d) as [nd|]; cbn; [|reflexivity].
      destruct (decide (d ∈ L)) as [Hi|Hi], (decide (d ∈ d0 :: L)) as [Hj|Hj]; try reflexivity.
      * exfalso; apply Hj; right; exact Hi.
      * exfalso. apply elem_of_cons in Hj as [Hj|Hj]; [congruence|exact (Hi Hj)].
Qed.

(* the node [n] loses its dependencies [L], and is removed from the subscriber lists of the nodes in [L] *)
Definition unsubG (n : nat) (L : list nat) : nat -> node -> option node :=
  fun d x => Some (if decide (d ∈ L)
                   then nd_dependents (remove_id n) (if decide (d = n) then nd_deps (fun _ => []) x else x)
                   else (if decide (d = n) then nd_deps (fun _ => []) x else x)).

Lemma unsub_core s n nd s2 : WF s -> nodes s !! n = Some nd ->
  next s2 = next s -> queue s2 = queue s -> batching s2 = batching s ->
  pmap (unsubG n (n_deps nd)) (nodes s) (nodes s2) ->
  WF s2 /\
  (forall x, vsame (nodes s !! x) (nodes s2 !! x)) /\
  (exists nd2, nodes s2 !! n = Some nd2 /\ n_deps nd2 = [] /\ n_value nd2 = n_value nd /\ n_cb nd2 = n_cb nd /\
               n_dirty nd2 = n_dirty nd /\ n_cleanups nd2 = n_cleanups nd /\ n_children nd2 = n_children nd) /\
  (forall d dd, nodes s2 !! d = Some dd -> ~ In n (n_dependents dd)).
Proof.
  intros W Hn Hnx Hq Hb PG. set (L := n_deps nd) in *. set (G := unsubG n L) in *.
  assert (Gdeps : forall d x x', G d x = Some x' -> n_deps x' = if decide (d = n) then [] else n_deps x).
  { intros d x x' HG. unfold G, unsubG in HG. inversion HG; subst.
    destruct (decide (d ∈ L)), (decide (d = n)); reflexivity. }
  assert (Gdependents : forall d x x', G d x = Some x' ->
            n_dependents x' = if decide (d ∈ L) then remove_id n (n_dependents x) else n_dependents x).
  { intros d x x' HG. unfold G, unsubG in HG. inversion HG; subst.
    destruct (decide (d ∈ L)), (decide (d = n)); reflexivity. }
  assert (Gother : forall d x x', G d x = Some x' -> n_value x' = n_value x /\ n_cb x' = n_cb x /\ n_dirty x' = n_dirty x /\
                     n_cleanups x' = n_cleanups x /\ n_children x' = n_children x).
  { intros d x x' HG. unfold G, unsubG in HG. inversion HG; subst.
    destruct (decide (d ∈ L)), (decide (d = n)); repeat split. }
  assert (W2 : WF s2).
  { unfold WF. rewrite Hnx, Hq, Hb. eapply WFc_pmap; [exact PG|exact W|..].
    + intros x xx xx' d Hx HG Hd. rewrite (Gdeps _ _ _ HG) in Hd.
      destruct (decide (x = n)) as [->|Hxn]; [destruct Hd|].
      destruct (wf_sym1 _ _ _ _ W _ _ _ Hx Hd) as (dd & Hdd & Hin).
      exists dd. eexists. split; [exact Hdd|]. split; [reflexivity|].
      rewrite (Gdependents d dd _ eq_refl). destruct (decide (d ∈ L)); [|exact Hin].
      apply remove_id_In. split; assumption.
    + intros d dd dd' x Hd HG Hx. rewrite (Gdependents _ _ _ HG) in Hx.
      assert (Hx' : In x (n_dependents dd) /\ (x <> n \/ ~ d ∈ L)).
      { destruct (decide (d ∈ L)); [apply remove_id_In in Hx; tauto|tauto]. }
      destruct Hx' as [Hx1 Hx2].
      destruct (wf_sym2 _ _ _ _ W _ _ _ Hd Hx1) as (xx & Hxx & Hin).
      assert (Hxn : x <> n).
      { destruct Hx2 as [Hx2|Hx2]; [exact Hx2|]. intros ->. rewrite Hn in Hxx. inversion Hxx; subst.
        apply Hx2. apply elem_of_list_In. exact Hin. }
      exists xx. eexists. split; [exact Hxx|]. split; [reflexivity|].
      rewrite (Gdeps x xx _ eq_refl). destruct (decide (x = n)); [contradiction|exact Hin].
    + intros x xx xx' Hx HG Hd. rewrite (Gdeps _ _ _ HG) in Hd. destruct (Gother _ _ _ HG) as (E1 & E2 & E3 & _).
      rewrite E1, E2. destruct (decide (x = n)); [congruence|]. eapply (wf_busy _ _ _ _ W); eassumption.
    + intros x xx xx' Hx HG Hd. destruct (Gother _ _ _ HG) as (E1 & E2 & E3 & _).
      rewrite E1, E2. rewrite E3 in Hd. eapply (wf_dirty _ _ _ _ W); eassumption.
    + intros x xx xx' Hq' Hx HG. destruct (Gother _ _ _ HG) as (E1 & E2 & E3 & _). rewrite E1.
      eapply (wf_queue_val _ _ _ _ W); eassumption. }
  assert (Hnd2 : exists nd2, nodes s2 !! n = Some nd2 /\ n_deps nd2 = [] /\ n_value nd2 = n_value nd /\ n_cb nd2 = n_cb nd /\
               n_dirty nd2 = n_dirty nd /\ n_cleanups nd2 = n_cleanups nd /\ n_children nd2 = n_children nd).
  { destruct (G n nd) as [nd2|] eqn:HG; [|discriminate]. exists nd2. split; [rewrite (PG n), Hn; exact HG|].
    destruct (Gother _ _ _ HG) as (E1 & E2 & E3 & E4 & E5). rewrite (Gdeps _ _ _ HG).
    destruct (decide (n = n)); [|congruence]. repeat split; assumption. }
  refine (conj W2 (conj _ (conj Hnd2 _))).
  - intros x. rewrite (PG x). destruct (nodes s !! x) as [xx|]; cbn; [|exact I].
    destruct (Gother x xx _ eq_refl) as (E1 & _). fold G. rewrite E1. tauto.
  - intros d dd Hd Hin. destruct Hnd2 as (nd2 & Hnd2 & Hdeps & _).
    destruct (wf_sym2 _ _ _ _ W2 _ _ _ Hd Hin) as (nn & Hnn & Hin'). rewrite Hnd2 in Hnn. inversion Hnn; subst.
    rewrite Hdeps in Hin'. destruct Hin'.
Qed.

(* at the start of an update (run_node_update) *)
Lemma unsubscribe_run s n nd : WF s -> nodes s !! n = Some nd ->
  exists s2, unlink_deps n (n_deps nd) (upd n (nd_deps (fun _ => [])) s) = Ok tt s2 /\
    next s2 = next s /\ queue s2 = queue s /\ batching s2 = batching s /\ WF s2 /\
    (forall x, vsame (nodes s !! x) (nodes s2 !! x)) /\
    (exists nd2, nodes s2 !! n = Some nd2 /\ n_deps nd2 = [] /\ n_value nd2 = n_value nd /\ n_cb nd2 = n_cb nd /\
                 n_dirty nd2 = n_dirty nd).
Proof.
  intros W Hn. set (L := n_deps nd).
  destruct (unlink_deps_spec n L (upd n (nd_deps (fun _ => [])) s)) as (s2 & H2 & Hnx & Hq & Hb & P).
  { intros d Hd. apply alive_true. rewrite alive_upd. apply alive_true.
    destruct (wf_sym1 _ _ _ _ W _ _ _ Hn Hd) as (dd & Hdd & _). eauto. }
  exists s2. split; [exact H2|]. cbn in Hnx, Hq, Hb.
  assert (PG : pmap (unsubG n L) (nodes s) (nodes s2)).
  { intros d. rewrite (P d). cbn. unfold unsubG. destruct (decide (d = n)) as [->|Hne].
    - rewrite lookup_alter. destruct (nodes s !! n); reflexivity.
    - rewrite lookup_alter_ne by congruence. destruct (nodes s !! d); reflexivity. }
  destruct (unsub_core s n nd s2 W Hn Hnx Hq Hb PG) as (W2 & V2 & (nd2 & A1 & A2 & A3 & A4 & A5 & _) & _).
  refine (conj Hnx (conj Hq (conj Hb (conj W2 (conj V2 _))))). exists nd2. repeat split; assumption.
Qed.

(* at the start of a disposal (node.rs dispose, fix of F17): afterwards the node is subscribed to nothing *)
Lemma unsubscribe_dispose id s : WF s ->
  let s0 := unsubscribe true id s in
  WF s0 /\ next s0 = next s /\ queue s0 = queue s /\ batching s0 = batching s /\
  (forall x, vsame (nodes s !! x) (nodes s0 !! x)) /\
  (forall d dd, nodes s0 !! d = Some dd -> ~ In id (n_dependents dd)) /\
  (forall nd, nodes s !! id = Some nd ->
     exists nd0, nodes s0 !! id = Some nd0 /\ n_deps nd0 = [] /\ n_cleanups nd0 = n_cleanups nd /\
                 n_children nd0 = n_children nd).
Proof.
  intros W s0. unfold s0, unsubscribe. destruct (nodes s !! id) as [this|] eqn:Hid.
  - set (L := n_deps this).
    set (s2 := foldr (fun d acc => upd d (nd_dependents (remove_id id)) acc) (upd id (nd_deps (fun _ => [])) s) L).
    assert (Hnx : next s2 = next s) by (unfold s2; rewrite next_foldr_upd; reflexivity).
    assert (Hq : queue s2 = queue s) by (unfold s2; rewrite queue_foldr_upd; reflexivity).
    assert (Hb : batching s2 = batching s) by (unfold s2; rewrite batching_foldr_upd'; reflexivity).
    assert (PG : pmap (unsubG id L) (nodes s) (nodes s2)).
    { unfold s2. rewrite nodes_foldr_upd. cbn.
      eapply pmap_ext; [|eapply pmap_compose; [apply (pmap_alter (nd_deps (fun _ => [])) id)|
                                               apply pmap_foldr_alter, nd_dependents_idem]].
      intros x nd _. unfold unsubG. cbn. destruct (decide (x ∈ L)); reflexivity. }
    destruct (unsub_core s id this s2 W Hid Hnx Hq Hb PG) as (W2 & V2 & (nd2 & A1 & A2 & A3 & A4 & A5 & A6 & A7) & Iso).
    refine (conj W2 (conj Hnx (conj Hq (conj Hb (conj V2 (conj Iso _)))))).
    intros nd E. inversion E; subst. exists nd2. repeat split; assumption.
  - refine (conj W (conj eq_refl (conj eq_refl (conj eq_refl (conj (fun x => vsame_refl _) (conj _ _)))))).
    + intros d dd Hd Hin. destruct (wf_sym2 _ _ _ _ W _ _ _ Hd Hin) as (nn & Hnn & _). congruence.
    + intros nd E. discriminate.
Qed.

(* taking value and callback out of the node *)
Lemma WFc_take m nx b n nd : WFc m nx [] b -> m !! n = Some nd -> n_deps nd = [] ->
  WFc (alter (fun x => nd_cb None (nd_value None x)) n m) nx [] b.
Proof.
  intros W Hn Hd. eapply WFc_pmap; [apply pmap_alter|exact W|..].
  - intros x xx xx' d Hx HG Hdd. inversion HG; subst; clear HG.
    assert (Hd' : In d (n_deps xx)) by (destruct (decide (x = n)); exact Hdd).
    destruct (wf_sym1 _ _ _ _ W _ _ _ Hx Hd') as (dd & Hdd' & Hin). exists dd. eexists. split; [exact Hdd'|]. split; [reflexivity|].
    destruct (decide (d = n)); exact Hin.
  - intros d dd dd' x Hdd HG Hx. inversion HG; subst; clear HG.
    assert (Hx' : In x (n_dependents dd)) by (destruct (decide (d = n)); exact Hx).
    destruct (wf_sym2 _ _ _ _ W _ _ _ Hdd Hx') as (xx & Hxx & Hin). exists xx. eexists. split; [exact Hxx|]. split; [reflexivity|].
    destruct (decide (x = n)); exact Hin.
  - intros x xx xx' Hx HG Hdd. inversion HG; subst; clear HG.
    destruct (decide (x = n)) as [->|]; [|eapply (wf_busy _ _ _ _ W); eassumption].
    cbn in Hdd. rewrite Hn in Hx. inversion Hx; subst. congruence.
  - intros x xx xx' Hx HG Hdd. inversion HG; subst; clear HG.
    destruct (decide (x = n)) as [->|]; [right; reflexivity|]. eapply (wf_dirty _ _ _ _ W); eassumption.
  - intros x xx xx' [].
Qed.

(* ---------------------------------------------------------------------------------- *)
(* mark_dependents_dirty *)

Lemma nd_dirty_idem nd : nd_dirty true (nd_dirty true nd) = nd_dirty true nd.
Proof. destruct nd; reflexivity. Qed.

Lemma mark_dependents_dirty_spec n s : WF s ->
  exists s', mark_dependents_dirty true n s = Ok tt s' /\
    next s' = next s /\ queue s' = queue s /\ batching s' = batching s /\ WF s' /\
    (forall x, match nodes s !! x, nodes s' !! x with
               | Some a, Some b => n_value b = n_value a /\ n_cb b = n_cb a /\ n_deps b = n_deps a /\
                                   n_dependents b = n_dependents a
               | None, None => True
               | _, _ => False
               end).
Proof.
  intros W. unfold mark_dependents_dirty. destruct (nodes s !! n) as [nd|] eqn:Hn.
  2:{ exists s. refine (conj eq_refl (conj eq_refl (conj eq_refl (conj eq_refl (conj W _))))).
      intros x. destruct (nodes s !! x); repeat split. }
  eexists. split; [reflexivity|].
  rewrite next_foldr_upd, queue_foldr_upd, batching_foldr_upd'.
  set (L := n_dependents nd).
  assert (P : pmap (fun d x => Some (if decide (d ∈ L) then nd_dirty true x else x)) (nodes s)
                   (nodes (foldr (fun d acc => upd d (nd_dirty true) acc) s L))).
  { rewrite nodes_foldr_upd. apply pmap_foldr_alter, nd_dirty_idem. }
  refine (conj eq_refl (conj eq_refl (conj eq_refl (conj _ _)))).
  - unfold WF. rewrite next_foldr_upd, queue_foldr_upd, batching_foldr_upd'.
    eapply WFc_pmap; [exact P|exact W|..].
    + intros x xx xx' d Hx HG Hd. inversion HG; subst; clear HG.
      assert (Hd' : In d (n_deps xx)) by (destruct (decide (x ∈ L)); exact Hd).
      destruct (wf_sym1 _ _ _ _ W _ _ _ Hx Hd') as (dd & Hdd & Hin). exists dd. eexists. split; [exact Hdd|]. split; [reflexivity|].
      destruct (decide (d ∈ L)); exact Hin.
    + intros d dd dd' x Hd HG Hx. inversion HG; subst; clear HG.
      assert (Hx' : In x (n_dependents dd)) by (destruct (decide (d ∈ L)); exact Hx).
      destruct (wf_sym2 _ _ _ _ W _ _ _ Hd Hx') as (xx & Hxx & Hin). exists xx. eexists. split; [exact Hxx|]. split; [reflexivity|].
      destruct (decide (x ∈ L)); exact Hin.
    + intros x xx xx' Hx HG Hd. inversion HG; subst; clear HG.
      destruct (decide (x ∈ L)); cbn in Hd |- *; eapply (wf_busy _ _ _ _ W); eassumption.
    + intros x xx xx' Hx HG Hd. inversion HG; subst; clear HG.
      destruct (decide (x ∈ L)) as [Hi|Hi]; [|eapply (wf_dirty _ _ _ _ W); eassumption].
      cbn. left. apply elem_of_list_In in Hi.
      destruct (wf_sym2 _ _ _ _ W _ _ _ Hn Hi) as (xx' & Hxx' & Hin). rewrite Hx in Hxx'. inversion Hxx'; subst.
      apply (wf_busy _ _ _ _ W _ _ Hx). intros E. rewrite E in Hin. destruct Hin.
    + intros x xx xx' Hq' Hx HG. inversion HG; subst; clear HG.
      destruct (decide (x ∈ L)); cbn; eapply (wf_queue_val _ _ _ _ W); eassumption.
  - intros x. rewrite (P x). destruct (nodes s !! x) as [a|]; cbn; [|exact I].
    destruct (decide (x ∈ L)); repeat split.
Qed.

(* ---------------------------------------------------------------------------------- *)
(* the end of dispose: the node leaves the table and both kinds of edges to it are removed *)

Lemma dispose_finish s id this : WF s -> nodes s !! id = Some this ->
  let s2 := set_nodes (delete id) s in
  let s3 := foldr (fun d acc => upd d (nd_deps (remove_id id)) acc) s2 (n_dependents this) in
  let s4 := foldr (fun d acc => upd d (nd_dependents (remove_id id)) acc) s3 (n_deps this) in
  WF s4 /\ next s4 = next s /\ queue s4 = queue s /\ batching s4 = batching s /\
  nodes s4 !! id = None /\
  (forall x, x <> id -> vsame (nodes s !! x) (nodes s4 !! x)) /\
  (forall x xx, nodes s4 !! x = Some xx -> ~ In id (n_deps xx) /\ ~ In id (n_dependents xx)).
Proof.
  intros W Hid s2 s3 s4.
  set (L1 := n_dependents this). set (L2 := n_deps this).
  set (G := fun x nd => if decide (x = id) then None
                        else Some ((fun a => if decide (x ∈ L2) then nd_dependents (remove_id id) a else a)
                                     (if decide (x ∈ L1) then nd_deps (remove_id id) nd else nd))).
  assert (PG : pmap G (nodes s) (nodes s4)).
  { unfold s4, s3. rewrite !nodes_foldr_upd.
    eapply pmap_ext; [|eapply pmap_compose; [eapply pmap_compose; [apply (pmap_delete id)|apply pmap_foldr_alter, nd_deps_idem]|
                                              apply pmap_foldr_alter, nd_dependents_idem]].
    intros x nd _. unfold G. cbn. destruct (decide (x = id)); reflexivity. }
  assert (Gdeps : forall x a a', G x a = Some a' -> x <> id /\
             n_deps a' = (if decide (x ∈ L1) then remove_id id (n_deps a) else n_deps a) /\
             n_dependents a' = (if decide (x ∈ L2) then remove_id id (n_dependents a) else n_dependents a) /\
             n_value a' = n_value a /\ n_cb a' = n_cb a /\ n_dirty a' = n_dirty a).
  { intros x a a' HG. unfold G in HG. destruct (decide (x = id)); [discriminate|]. inversion HG; subst.
    split; [assumption|]. destruct (decide (x ∈ L1)), (decide (x ∈ L2)); repeat split. }
  assert (Hnx : next s4 = next s) by (unfold s4, s3; rewrite !next_foldr_upd; reflexivity).
  assert (Hq : queue s4 = queue s) by (unfold s4, s3; rewrite !queue_foldr_upd; reflexivity).
  assert (Hb : batching s4 = batching s) by (unfold s4, s3; rewrite !batching_foldr_upd'; reflexivity).
  refine (conj _ (conj Hnx (conj Hq (conj Hb (conj _ (conj _ _)))))).
  - unfold WF. rewrite Hnx, Hq, Hb. eapply WFc_pmap; [exact PG|exact W|..].
    + intros x xx xx' d Hx HG Hd. destruct (Gdeps _ _ _ HG) as (Hxid & E1 & E2 & E3 & E4 & E5). rewrite E1 in Hd.
      assert (Hd' : In d (n_deps xx) /\ (d <> id \/ ~ x ∈ L1)).
      { destruct (decide (x ∈ L1)); [apply remove_id_In in Hd; tauto|tauto]. }
      destruct Hd' as [Hd1 Hd2]. destruct (wf_sym1 _ _ _ _ W _ _ _ Hx Hd1) as (dd & Hdd & Hin).
      assert (Hdid : d <> id).
      { destruct Hd2 as [Hd2|Hd2]; [exact Hd2|]. intros ->. rewrite Hid in Hdd. inversion Hdd; subst.
        apply Hd2, elem_of_list_In, Hin. }
      exists dd. destruct (G d dd) as [dd'|] eqn:HGd; [|unfold G in HGd; destruct (decide (d = id)); [contradiction|discriminate]].
      exists dd'. split; [exact Hdd|]. split; [reflexivity|].
      destruct (Gdeps _ _ _ HGd) as (_ & _ & E2' & _). rewrite E2'.
      destruct (decide (d ∈ L2)); [apply remove_id_In; split; assumption|exact Hin].
    + intros d dd dd' x Hd HG Hx. destruct (Gdeps _ _ _ HG) as (Hdid & E1 & E2 & E3 & E4 & E5). rewrite E2 in Hx.
      assert (Hx' : In x (n_dependents dd) /\ (x <> id \/ ~ d ∈ L2)).
      { destruct (decide (d ∈ L2)); [apply remove_id_In in Hx; tauto|tauto]. }
      destruct Hx' as [Hx1 Hx2]. destruct (wf_sym2 _ _ _ _ W _ _ _ Hd Hx1) as (xx & Hxx & Hin).
      assert (Hxid : x <> id).
      { destruct Hx2 as [Hx2|Hx2]; [exact Hx2|]. intros ->. rewrite Hid in Hxx. inversion Hxx; subst.
        apply Hx2, elem_of_list_In, Hin. }
      exists xx. destruct (G x xx) as [xx'|] eqn:HGx; [|unfold G in HGx; destruct (decide (x = id)); [contradiction|discriminate]].
      exists xx'. split; [exact Hxx|]. split; [reflexivity|].
      destruct (Gdeps _ _ _ HGx) as (_ & E1' & _). rewrite E1'.
      destruct (decide (x ∈ L1)); [apply remove_id_In; split; assumption|exact Hin].
    + intros x xx xx' Hx HG Hd. destruct (Gdeps _ _ _ HG) as (Hxid & E1 & E2 & E3 & E4 & E5). rewrite E3, E4.
      apply (wf_busy _ _ _ _ W _ _ Hx). intros E. rewrite E1, E in Hd. destruct (decide (x ∈ L1)); apply Hd; reflexivity.
    + intros x xx xx' Hx HG Hd. destruct (Gdeps _ _ _ HG) as (Hxid & E1 & E2 & E3 & E4 & E5). rewrite E3, E4. rewrite E5 in Hd.
      eapply (wf_dirty _ _ _ _ W); eassumption.
    + intros x xx xx' Hq' Hx HG. destruct (Gdeps _ _ _ HG) as (Hxid & E1 & E2 & E3 & E4 & E5). rewrite E3.
      eapply (wf_queue_val _ _ _ _ W); eassumption.
  - rewrite (PG id), Hid. cbn. unfold G. destruct (decide (id = id)); [reflexivity|congruence].
  - intros x Hx. rewrite (PG x). destruct (nodes s !! x) as [a|]; cbn; [|exact I].
    destruct (G x a) as [a'|] eqn:HG; [|unfold G in HG; destruct (decide (x = id)); [contradiction|discriminate]].
    destruct (Gdeps _ _ _ HG) as (_ & _ & _ & E3 & _). rewrite E3. tauto.
  - intros x xx Hx. destruct (pmap_Some _ _ _ _ _ PG Hx) as (a & Ha & HG).
    destruct (Gdeps _ _ _ HG) as (Hxid & E1 & E2 & _). split.
    + intros Hin. rewrite E1 in Hin. destruct (decide (x ∈ L1)) as [Hi|Hi]; [apply remove_id_In in Hin; tauto|].
      destruct (wf_sym1 _ _ _ _ W _ _ _ Ha Hin) as (dd & Hdd & Hin'). rewrite Hid in Hdd. inversion Hdd; subst.
      apply Hi, elem_of_list_In, Hin'.
    + intros Hin. rewrite E2 in Hin. destruct (decide (x ∈ L2)) as [Hi|Hi]; [apply remove_id_In in Hin; tauto|].
      destruct (wf_sym2 _ _ _ _ W _ _ _ Ha Hin) as (dd & Hdd & Hin'). rewrite Hid in Hdd. inversion Hdd; subst.
      apply Hi, elem_of_list_In, Hin'.
Qed.

(* ---------------------------------------------------------------------------------- *)
(* queue and batching flag *)

Lemma WFc_push m nx q id : WFc m nx q true -> (id < nx)%nat ->
  (forall xx, m !! id = Some xx -> n_value xx <> None) -> WFc m nx (q ++ [id]) true.
Proof.
  intros W Hlt Hv. constructor; try apply W.
  - intros x Hx. apply in_app_iff in Hx as [Hx|[<-|[]]]; [apply (wf_queue_lt _ _ _ _ W), Hx|exact Hlt].
  - intros x xx Hx Hxx. apply in_app_iff in Hx as [Hx|[<-|[]]]; [eapply (wf_queue_val _ _ _ _ W); eassumption|apply Hv, Hxx].
  - discriminate.
Qed.

Lemma WFc_batch_on m nx q b : WFc m nx q b -> WFc m nx q true.
Proof. intros W. constructor; try apply W. discriminate. Qed.

Lemma WFc_batch_off m nx q b : WFc m nx q b -> WFc m nx [] false.
Proof.
  intros W. constructor; try apply W.
  - intros x [].
  - intros x xx [].
  - reflexivity.
Qed.

(* ---------------------------------------------------------------------------------- *)
(* dfs: changes marks only; whatever it appends to the buffer is the start node or a dependent of a live node *)

Lemma marks_only_meq s s' : marks_only s s' ->
  next s' = next s /\ queue s' = queue s /\ batching s' = batching s /\
  pmap (fun n nd => Some (nd_mark (match nodes s' !! n with Some x => n_mark x | None => MNone end) nd)) (nodes s) (nodes s').
Proof.
  intros [E H]. repeat split; try (rewrite E; reflexivity).
  intros n. specialize (H n). destruct (nodes s !! n) as [a|], (nodes s' !! n) as [b|]; cbn; try tauto.
  unfold mark_eq in H. rewrite H at 1. reflexivity.
Qed.

Lemma WF_marks_only s s' : marks_only s s' -> WF s -> WF s'.
Proof.
  intros Hm W. destruct (marks_only_meq _ _ Hm) as (Hn & Hq & Hb & P). unfold WF. rewrite Hn, Hq, Hb.
  eapply WFc_pmap; [exact P|exact W|..].
  - intros x xx xx' d Hx HG Hd. inversion HG; subst; clear HG. cbn in Hd.
    destruct (wf_sym1 _ _ _ _ W _ _ _ Hx Hd) as (dd & Hdd & Hin). exists dd. eexists. split; [exact Hdd|]. split; [reflexivity|exact Hin].
  - intros d dd dd' x Hd HG Hx. inversion HG; subst; clear HG. cbn in Hx.
    destruct (wf_sym2 _ _ _ _ W _ _ _ Hd Hx) as (xx & Hxx & Hin). exists xx. eexists. split; [exact Hxx|]. split; [reflexivity|exact Hin].
  - intros x xx xx' Hx HG Hd. inversion HG; subst; clear HG. cbn in Hd |- *. eapply (wf_busy _ _ _ _ W); eassumption.
  - intros x xx xx' Hx HG Hd. inversion HG; subst; clear HG. cbn in Hd |- *. eapply (wf_dirty _ _ _ _ W); eassumption.
  - intros x xx xx' Hq' Hx HG. inversion HG; subst; clear HG. cbn. eapply (wf_queue_val _ _ _ _ W); eassumption.
Qed.

Lemma marks_only_vsame s s' : marks_only s s' -> forall x, vsame (nodes s !! x) (nodes s' !! x).
Proof.
  intros [_ H] x. specialize (H x). destruct (nodes s !! x) as [a|], (nodes s' !! x) as [b|]; cbn; try tauto.
  unfold mark_eq in H. rewrite H. cbn. tauto.
Qed.

Lemma marks_only_dependents s s' : marks_only s s' -> forall d dd', nodes s' !! d = Some dd' ->
  exists dd, nodes s !! d = Some dd /\ n_dependents dd' = n_dependents dd /\ n_value dd' = n_value dd.
Proof.
  intros [_ H] d dd' Hd. specialize (H d). rewrite Hd in H. destruct (nodes s !! d) as [dd|]; [|destruct H].
  exists dd. split; [reflexivity|]. unfold mark_eq in H. rewrite H. split; reflexivity.
Qed.

Definition reach1 (s : state) (x : nat) : Prop := exists d dd, nodes s !! d = Some dd /\ In x (n_dependents dd).

Lemma dfs_buf g : forall id s buf s' buf',
  dfs g id (s, buf) = Some (Some (s', buf')) ->
  forall x, In x buf' -> In x buf \/ x = id \/ reach1 s x.
Proof.
  induction g as [|g IH]; intros id s buf s' buf' H; cbn [dfs] in H; [discriminate|].
  destruct (nodes s !! id) as [nd|] eqn:Hn.
  2:{ inversion H; subst. tauto. }
  destruct (n_mark nd).
  - match type of H with context [fold_left ?fn ?l0 ?a0] =>
      assert (G : forall l a s2 buf2, fold_left fn l a = Some (Some (s2, buf2)) ->
                  exists s1 buf1, a = Some (Some (s1, buf1)) /\ marks_only s1 s2 /\
                    forall x, In x buf2 -> In x buf1 \/ In x l \/ reach1 s1 x) end.
    { induction l as [|c l IHl]; intros a s2 buf2 Hf; cbn [fold_left] in Hf.
      - subst a. do 2 eexists; split; [reflexivity|]. split; [apply marks_only_refl|tauto].
      - destruct (IHl _ _ _ Hf) as (s1 & buf1 & Ha & Hm & Hb).
        destruct a as [[[s0 buf0]|]|]; try discriminate.
        do 2 eexists; split; [reflexivity|].
        pose proof (dfs_marks_only _ _ _ _ _ _ Ha) as Hm0.
        split; [eapply marks_only_trans; eassumption|].
        intros x Hx. destruct (Hb x Hx) as [Hx1|[Hx1|Hx1]].
        + destruct (IH _ _ _ _ _ Ha x Hx1) as [Hx2|[->|Hx2]]; [tauto| |tauto]. right; left; left; reflexivity.
        + right; left; right; exact Hx1.
        + right; right. destruct Hx1 as (d & dd' & Hd & Hin).
          destruct (marks_only_dependents _ _ Hm0 _ _ Hd) as (dd & Hdd & E & _). exists d, dd. rewrite <- E. tauto. }
    match type of H with context [fold_left ?fn ?l ?a] => destruct (fold_left fn l a) as [[[s2 buf2]|]|] eqn:Hf end;
      try discriminate.
    inversion H; subst. destruct (G _ _ _ _ Hf) as (s1 & buf1 & Ha & Hm & Hb). inversion Ha; subst.
    intros x Hx. apply in_app_iff in Hx as [Hx|[<-|[]]]; [|tauto].
    destruct (Hb x Hx) as [Hx1|[Hx1|Hx1]]; [tauto| |].
    + right; right. exists id, nd. tauto.
    + right; right. destruct Hx1 as (d & dd' & Hd & Hin). cbn in Hd.
      destruct (decide (d = id)) as [->|Hne].
      * rewrite lookup_alter, Hn in Hd. inversion Hd; subst. exists id, nd. tauto.
      * rewrite lookup_alter_ne in Hd by congruence. exists d, dd'. tauto.
  - discriminate.
  - inversion H; subst. tauto.
Qed.

(* a node reached through a subscription list is not being updated *)
Lemma reach1_value s x xx : WF s -> reach1 s x -> nodes s !! x = Some xx -> n_value xx <> None.
Proof.
  intros W (d & dd & Hd & Hin) Hx. destruct (wf_sym2 _ _ _ _ W _ _ _ Hd Hin) as (xx' & Hx' & Hin').
  rewrite Hx in Hx'. inversion Hx'; subst. apply (wf_busy _ _ _ _ W _ _ Hx). intros E. rewrite E in Hin'. destruct Hin'.
Qed.

(* ---------------------------------------------------------------------------------- *)
(* frames from key-by-key comparisons *)

Lemma vsame_trans a b c : vsame a b -> vsame b c -> vsame a c.
Proof. destruct a, b, c; cbn; tauto. Qed.

Lemma vsame_Some_r a b' : vsame a (Some b') -> exists a', a = Some a' /\ (n_value a' = None <-> n_value b' = None).
Proof. destruct a as [a'|]; cbn; [eauto|tauto]. Qed.

Lemma frame_sub s s' : WF s -> next s' = next s -> batching s' = batching s ->
  (forall x xx', nodes s' !! x = Some xx' -> exists xx, nodes s !! x = Some xx /\ (n_value xx = None <-> n_value xx' = None)) ->
  frame s s'.
Proof.
  intros W Hn Hb H. split; [|exact Hb]. rewrite Hn. split; [lia|]. intros x xx' Hx.
  destruct (H x xx' Hx) as (xx & Hxx & E). split; [eauto|].
  intros Hle. pose proof (wf_dom _ _ _ _ W x (ex_intro _ _ Hxx)). lia.
Qed.

Lemma frame_vsame s s' : WF s -> next s' = next s -> batching s' = batching s ->
  (forall x, vsame (nodes s !! x) (nodes s' !! x)) -> frame s s'.
Proof.
  intros W Hn Hb H. apply frame_sub; try assumption. intros x xx' Hx. specialize (H x). rewrite Hx in H.
  apply vsame_Some_r, H.
Qed.

(* a call that creates node [id = next s], runs code, and completes the node *)
Lemma frame_create s s1 s3 s' id : WF s -> id = next s -> next s1 = S id -> batching s1 = batching s ->
  (forall x, x <> id -> vsame (nodes s !! x) (nodes s1 !! x)) ->
  frame s1 s3 ->
  (forall x, x <> id -> vsame (nodes s3 !! x) (nodes s' !! x)) ->
  (forall nd, nodes s' !! id = Some nd -> n_value nd <> None) ->
  next s' = next s3 -> batching s' = batching s3 -> frame s s'.
Proof.
  intros W -> Hn1 Hb1 V1 [[L F] B] V3 Hid Hn' Hb'. split; [|congruence].
  rewrite Hn'. split; [lia|]. intros x xx' Hx. destruct (decide (x = next s)) as [->|Hne].
  - split; [lia|]. intros _. apply Hid, Hx.
  - specialize (V3 x Hne). rewrite Hx in V3. apply vsame_Some_r in V3 as (x3 & Hx3 & E3).
    destruct (F x x3 Hx3) as [Fa Fb]. split.
    + intros Hlt. destruct Fa as (x1 & Hx1 & E1); [lia|].
      specialize (V1 x Hne). rewrite Hx1 in V1. apply vsame_Some_r in V1 as (x0 & Hx0 & E0).
      exists x0. split; [exact Hx0|tauto].
    + intros Hle. assert (n_value x3 <> None) by (apply Fb; lia). tauto.
Qed.

(* a call that takes the value of node [n] out, runs code, and puts a value back *)
Lemma frame_update s s3 s6 s' n nd : WF s -> nodes s !! n = Some nd -> n_value nd <> None ->
  next s3 = next s -> batching s3 = batching s ->
  (forall x, x <> n -> vsame (nodes s !! x) (nodes s3 !! x)) ->
  frame s3 s6 ->
  (forall x, x <> n -> vsame (nodes s6 !! x) (nodes s' !! x)) ->
  (forall nd', nodes s' !! n = Some nd' -> n_value nd' <> None) ->
  next s' = next s6 -> batching s' = batching s6 -> frame s s'.
Proof.
  intros W Hn Hv Hn3 Hb3 V1 [[L F] B] V6 Hid Hn' Hb'. split; [|congruence].
  rewrite Hn'. split; [lia|]. intros x xx' Hx.
  assert (Hnlt : (n < next s)%nat) by (apply (wf_dom _ _ _ _ W); eauto).
  destruct (decide (x = n)) as [->|Hne].
  - split; [|lia]. intros _. exists nd. split; [exact Hn|]. specialize (Hid _ Hx). tauto.
  - specialize (V6 x Hne). rewrite Hx in V6. apply vsame_Some_r in V6 as (x6 & Hx6 & E6).
    destruct (F x x6 Hx6) as [Fa Fb]. split.
    + intros Hlt. destruct Fa as (x3 & Hx3 & E3); [lia|].
      specialize (V1 x Hne). rewrite Hx3 in V1. apply vsame_Some_r in V1 as (x0 & Hx0 & E0).
      exists x0. split; [exact Hx0|tauto].
    + intros Hle. assert (n_value x6 <> None) by (apply Fb; lia). tauto.
Qed.

Definition nonbusy (s : state) (l : list nat) : Prop :=
  forall x xx, In x l -> nodes s !! x = Some xx -> n_value xx <> None.

Lemma nonbusy_frame s s' l : frame s s' -> nonbusy s l -> nonbusy s' l.
Proof.
  intros [[L F] _] H x xx' Hx Hxx. destruct (F x xx' Hxx) as [Fa Fb].
  destruct (Nat.lt_ge_cases x (next s)) as [Hlt|Hge]; [|apply Fb, Hge].
  destruct (Fa Hlt) as (xx & Hxx0 & E). specialize (H x xx Hx Hxx0). tauto.
Qed.

(* ---------------------------------------------------------------------------------- *)
(* results *)

Definition bad678 (e : err) : Prop := e = Runtime 6 \/ e = Runtime 7 \/ e = Runtime 8.

Definition good {A} (s : state) (r : res A) : Prop :=
  match r with
  | Ok _ s' => WF s' /\ frame s s'
  | Err e _ => ~ bad678 e
  end.

Lemma good_bind {A B} s (r : res A) (k : A -> state -> res B) :
  good s r -> (forall a s1, r = Ok a s1 -> WF s1 -> frame s s1 -> good s1 (k a s1)) -> good s (bind_res r k).
Proof.
  destruct r as [a s1|e s1]; cbn [bind_res good]; [|tauto]. intros [W F] Hk.
  specialize (Hk a s1 eq_refl W F). destruct (k a s1) as [b s2|e s2]; cbn [good] in *; [|exact Hk].
  split; [apply Hk|]. eapply frame_trans; [exact F|apply Hk].
Qed.

Lemma good_frame_l {A} s s1 (r : res A) : frame s s1 -> good s1 r -> good s r.
Proof.
  intros F. destruct r as [a s2|e s2]; cbn [good]; [|tauto]. intros [W F2]. split; [exact W|].
  eapply frame_trans; eassumption.
Qed.

Lemma good_ok {A} s (a : A) : WF s -> good s (Ok a s).
Proof. intros W. split; [exact W|apply frame_refl, W]. Qed.

Ltac notbad := let H := fresh in intros [H|[H|H]]; discriminate H.

(* a state that differs only in fields the invariant does not mention *)
Definition same_wf (s s1 : state) : Prop :=
  nodes s1 = nodes s /\ next s1 = next s /\ queue s1 = queue s /\ batching s1 = batching s.

Lemma same_wf_WF s s1 : same_wf s s1 -> WF s -> WF s1.
Proof. intros (E1 & E2 & E3 & E4). unfold WF. rewrite E1, E2, E3, E4. exact (fun H => H). Qed.
Lemma same_wf_frame s s1 : same_wf s s1 -> WF s -> frame s s1.
Proof.
  intros (E1 & E2 & E3 & E4) W. unfold frame. rewrite E1, E2, E4. split; [|reflexivity].
  apply framec_refl, (wf_dom _ _ _ _ W).
Qed.
Lemma same_wf_good {A} s s1 (a : A) : same_wf s s1 -> WF s -> good s (Ok a s1).
Proof. intros E W. split; [eapply same_wf_WF; eassumption|apply same_wf_frame; assumption]. Qed.
Lemma same_wf_refl s : same_wf s s.
Proof. repeat split. Qed.
Lemma same_wf_trans s1 s2 s3 : same_wf s1 s2 -> same_wf s2 s3 -> same_wf s1 s3.
Proof. intros (A1 & A2 & A3 & A4) (B1 & B2 & B3 & B4). repeat split; congruence. Qed.

Lemma track_same_wf id s : same_wf s (track id s).
Proof. unfold track. destruct (tracker s); repeat split. Qed.

Lemma read_spec t en x s :
  match read t en x s with
  | Ok _ s1 => same_wf s s1
  | Err e _ => ~ bad678 e
  end.
Proof.
  unfold read. destruct (lookup_env x en) as [[id|c]|]; try notbad.
  assert (Ht : same_wf s (if t then track id s else s)) by (destruct t; [apply track_same_wf|apply same_wf_refl]).
  destruct (nodes (if t then track id s else s) !! id) as [nd|]; [|notbad].
  destruct (n_value nd); [|notbad]. exact Ht.
Qed.

Lemma eval_spec en e : forall s,
  match eval en e s with
  | Ok _ s1 => same_wf s s1
  | Err e _ => ~ bad678 e
  end.
Proof.
  induction e; intros s; cbn [eval]; try apply same_wf_refl; try apply read_spec.
  1-5: (specialize (IHe1 s); destruct (eval en e1 s) as [va s1|]; cbn [bind_res]; [|exact IHe1];
        specialize (IHe2 s1); destruct (eval en e2 s1) as [vb s2|]; cbn [bind_res]; [|exact IHe2];
        eapply same_wf_trans; eassumption).
  - specialize (IHe s); destruct (eval en e s) as [va s1|]; cbn [bind_res]; [|exact IHe]. exact IHe.
  - specialize (IHe1 s); destruct (eval en e1 s) as [vc s1|]; cbn [bind_res]; [|exact IHe1].
    destruct (vc =? 0)%Z.
    + specialize (IHe3 s1). destruct (eval en e3 s1); [eapply same_wf_trans; eassumption|exact IHe3].
    + specialize (IHe2 s1). destruct (eval en e2 s1); [eapply same_wf_trans; eassumption|exact IHe2].
  - destruct (lookup_env x en) as [[id|c]|]; try notbad. apply same_wf_refl.
  - destruct (lookup_env c en) as [[id|k]|]; try notbad. destruct (cells s !! k); [apply same_wf_refl|notbad].
Qed.

Lemma eval_good en e s : WF s -> good s (eval en e s).
Proof.
  intros W. pose proof (eval_spec en e s) as H. destruct (eval en e s); [|exact H].
  apply same_wf_good; assumption.
Qed.

Lemma update_silent_good id v s : WF s ->
  match update_silent id v s with
  | Ok _ s' => WF s' /\ frame s s' /\ (id < next s')%nat /\ nonbusy s' [id]
  | Err e _ => ~ bad678 e
  end.
Proof.
  intros W. unfold update_silent. destruct (nodes s !! id) as [nd|] eqn:Hn; [|notbad].
  destruct (n_value nd) as [old|] eqn:Hv; [|notbad].
  assert (W' : WF (upd id (nd_value (Some v)) s)).
  { unfold WF; cbn. apply WFc_set_value; [exact W|]. intros nd' Hn'. rewrite Hn in Hn'. inversion Hn'; subst. congruence. }
  refine (conj W' (conj _ (conj _ _))).
  - split; [|reflexivity]. cbn. apply framec_alter_vsame; [|apply (wf_dom _ _ _ _ W)]. intros x Hx.
    rewrite Hn in Hx. inversion Hx; subst. cbn. rewrite Hv. split; discriminate.
  - cbn. apply (wf_dom _ _ _ _ W). eauto.
  - intros x xx [<-|[]]. cbn. rewrite lookup_alter, Hn. cbn. intros E; inversion E; subst. cbn. discriminate.
Qed.

Lemma provide_good ty v s : WF s -> good s (provide true ty v s).
Proof.
  intros W. unfold provide. destruct (current s) as [c|]; [|apply good_ok, W].
  destruct (nodes s !! c) as [nd|]; [|apply good_ok, W].
  match goal with |- context [if ?b then _ else _] => destruct b end; [notbad|].
  split.
  - unfold WF; cbn. apply WFc_alter_neutral; [apply (neutral_context (fun n => n_context n ++ [(ty, v)]))|exact W].
  - split; [|reflexivity]. cbn. apply framec_alter_vsame; [|apply (wf_dom _ _ _ _ W)]. intros x _. cbn. tauto.
Qed.

Lemma use_ctx_from_err g : forall ty id first s e s', use_ctx_from true g ty id first s = Err e s' -> ~ bad678 e.
Proof.
  induction g as [|g IH]; intros ty id first s e s' H; cbn [use_ctx_from] in H.
  - inversion H; subst. notbad.
  - destruct (nodes s !! id) as [nd|].
    + destruct (ctx_find ty (n_context nd)); [discriminate|]. destruct (n_parent nd); [eapply IH; eassumption|discriminate].
    + destruct first; cbn in H; [inversion H; subst; notbad|discriminate].
Qed.

Lemma try_use_context_good ty s : WF s -> good s (try_use_context true ty s).
Proof.
  intros W. destruct (try_use_context true ty s) as [r s'|e s'] eqn:H.
  - pose proof (try_use_context_st true ty s) as E. rewrite H in E. cbn in E. subst. apply good_ok, W.
  - unfold try_use_context in H. destruct (current s) as [c|]; [|discriminate].
    destruct (true && negb (alive c s)); [discriminate|]. eapply use_ctx_from_err, H.
Qed.

Lemma on_track_same c deps : forall (a : option state) s1,
  fold_left (fun (r : option state) x =>
     match r with
     | Some s => match lookup_env x (c_env c) with
                 | Some (BNode id) => Some (emit (EvTrack x) (track id s))
                 | _ => None
                 end
     | None => None
     end) deps a = Some s1 ->
  exists s0, a = Some s0 /\ same_wf s0 s1.
Proof.
  induction deps as [|x deps IH]; intros a s1 H; cbn [fold_left] in H.
  - exists s1; split; [exact H|apply same_wf_refl].
  - destruct (IH _ _ H) as [s0 [H0 Hl]]. destruct a as [s|]; [|discriminate].
    destruct (lookup_env x (c_env c)) as [[id|k]|]; try discriminate.
    inversion H0; subst. eexists; split; [reflexivity|].
    eapply same_wf_trans; [|exact Hl]. apply (track_same_wf id s).
Qed.

(* the state handed to a sub-call differs from a well-formed one only in neutral fields *)
Lemma good_same_l {A} s s0 (r : res A) : same_wf s s0 -> WF s -> (WF s0 -> good s0 r) -> good s r.
Proof.
  intros E W H. eapply good_frame_l; [apply same_wf_frame; eassumption|]. apply H. eapply same_wf_WF; eassumption.
Qed.

Lemma good_same_r {A} s s1 s2 (a : A) : same_wf s1 s2 -> WF s1 -> frame s s1 -> good s (Ok a s2).
Proof.
  intros E W F. split; [eapply same_wf_WF; eassumption|]. eapply frame_trans; [exact F|]. apply same_wf_frame; assumption.
Qed.

(* ---------------------------------------------------------------------------------- *)
(* the topological-sort phase of propagate *)

Definition good_acc (s0 : state) (a : res (list nat)) : Prop :=
  match a with
  | Ok buf s1 => WF s1 /\ frame s0 s1 /\ nonbusy s1 buf
  | Err e _ => ~ bad678 e
  end.

Lemma sort_good g s0 starts : forall a,
  good_acc s0 a -> (forall buf s1, a = Ok buf s1 -> nonbusy s1 starts) ->
  good_acc s0 (fold_left (sort_step true g) starts a).
Proof.
  induction starts as [|st starts IH]; intros a Ha Hs; cbn [fold_left]; [exact Ha|].
  assert (Hstep : good_acc s0 (sort_step true g a st) /\
                  forall buf s1, sort_step true g a st = Ok buf s1 -> nonbusy s1 starts).
  { unfold sort_step. destruct a as [buf s1|er s1]; cbn [bind_res good_acc] in *; [|split; [exact Ha|discriminate]].
    destruct Ha as (W1 & F1 & Nb). specialize (Hs buf s1 eq_refl).
    destruct (dfs g st (s1, buf)) as [[[s2 buf2]|]|] eqn:Hd; [|split; [notbad|discriminate]|split; [notbad|discriminate]].
    pose proof (dfs_marks_only _ _ _ _ _ _ Hd) as Hm.
    pose proof (WF_marks_only _ _ Hm W1) as W2.
    destruct (marks_only_meq _ _ Hm) as (Hn2 & Hq2 & Hb2 & _).
    assert (F12 : frame s1 s2) by (apply frame_vsame; try assumption; apply marks_only_vsame, Hm).
    destruct (mark_dependents_dirty_spec st s2 W2) as (s3 & H3 & Hn3 & Hq3 & Hb3 & W3 & V3).
    rewrite H3. cbn [bind_res good_acc].
    assert (F23 : frame s2 s3).
    { apply frame_sub; try assumption. intros x xx' Hx. specialize (V3 x). rewrite Hx in V3.
      destruct (nodes s2 !! x) as [xx|]; [|destruct V3]. exists xx. split; [reflexivity|].
      destruct V3 as (E & _). rewrite E. tauto. }
    assert (F13 : frame s1 s3) by (eapply frame_trans; eassumption).
    split; [split; [exact W3|split; [eapply frame_trans; eassumption|]]|].
    - intros x xx3 Hx Hxx3. specialize (V3 x). rewrite Hxx3 in V3.
      destruct (nodes s2 !! x) as [xx2|] eqn:Hxx2; [|destruct V3]. destruct V3 as (E & _). rewrite E.
      destruct (marks_only_dependents _ _ Hm _ _ Hxx2) as (xx1 & Hxx1 & _ & Ev). rewrite Ev.
      destruct (dfs_buf _ _ _ _ _ _ Hd x Hx) as [Hin|[->|Hr]].
      + exact (Nb x xx1 Hin Hxx1).
      + exact (Hs st xx1 (or_introl eq_refl) Hxx1).
      + exact (reach1_value s1 x xx1 W1 Hr Hxx1).
    - intros buf' s' E. inversion E; subst. eapply nonbusy_frame; [exact F13|].
      intros x xx Hx. apply Hs. right; exact Hx. }
  destruct Hstep as [H1 H2]. apply IH; assumption.
Qed.

(* ---------------------------------------------------------------------------------- *)
(* the mutual block *)

Definition good_at (f : nat) : Prop :=
  (forall en ss s, WF s -> good s (exec true f en ss s)) /\
  (forall en st s, WF s -> good s (exec1 true f en st s)) /\
  (forall c s, WF s -> good s (run_body true f c s)) /\
  (forall en x k b s, WF s -> good s (create_computation true f en x k b s)) /\
  (forall id s, WF s -> good s (dispose true f id s)) /\
  (forall id s, WF s -> good s (dispose_children true f id s)) /\
  (forall cs s, WF s -> good s (run_cleanups true f cs s)) /\
  (forall ids s, WF s -> good s (dispose_list true f ids s)) /\
  (forall n s nd, WF s -> batching s = false -> nodes s !! n = Some nd -> n_value nd <> None -> n_dirty nd = true ->
     good s (run_node_update true f n s)) /\
  (forall order s, WF s -> batching s = false -> nonbusy s order -> good s (loop true f order s)) /\
  (forall starts s, WF s -> batching s = false -> nonbusy s starts -> good s (propagate true f starts s)) /\
  (forall id s, WF s -> (id < next s)%nat -> nonbusy s [id] -> good s (propagate_updates true f id s)).

Ltac swf := repeat split.
Ltac gfin W := apply same_wf_good; [swf|exact W].
Ltac gvia s0 W := apply (good_same_l _ s0); [swf|exact W|intros ?W].

Lemma finisher_create c v : finisher (fun n => nd_cb (Some c) (nd_value (Some v) n)).
Proof. intros x. repeat split; discriminate. Qed.
Lemma finisher_update c v : finisher (fun x => nd_dirty false (nd_cb (Some c) (nd_value (Some v) x))).
Proof. intros x. repeat split; discriminate. Qed.

Theorem good_all : forall f, good_at f.
Proof.
  induction f as [|f IH].
  { repeat split; intros; cbn; notbad. }
  destruct IH as (Hexec & Hexec1 & Hbody & Hcc & Hdisp & Hdc & Hrc & Hdl & Hrnu & Hloop & Hprop & Hpu).
  unfold good_at. repeat apply conj.
  - (* exec *)
    intros en ss s W. rewrite exec_S. destruct ss as [|st rest]; [apply good_ok, W|].
    apply good_bind; [apply Hexec1, W|]. intros en1 s1 _ W1 _. apply Hexec, W1.
  - (* exec1 *)
    intros en st s W. rewrite exec1_S. destruct st.
    + (* SSignal *)
      apply good_bind; [apply eval_good, W|]. intros v s1 _ W1 _.
      destruct (create_empty_total s1) as (id & s2 & Hce). rewrite Hce. cbn [bind_res].
      destruct (create_empty_spec _ _ _ W1 Hce) as (Eid & Hn2 & Hq2 & Hb2 & W2 & V2 & Fr2).
      assert (W3 : WF (upd id (nd_value (Some v)) s2)).
      { unfold WF; cbn. apply WFc_set_value; [exact W2|]. intros nd Hnd _. apply Fr2, Hnd. }
      split; [exact W3|].
      eapply (frame_create s1 s2 s2); try eassumption; try reflexivity.
      * apply frame_refl, W2.
      * intros y Hy. cbn. rewrite lookup_alter_ne by congruence. apply vsame_refl.
      * intros nd. cbn. rewrite lookup_alter. destruct (nodes s2 !! id); cbn; [|discriminate].
        intros E; inversion E; subst. cbn. discriminate.
    + apply Hcc, W.
    + apply Hcc, W.
    + apply Hcc, W.
    + (* SScope *)
      destruct (create_empty_total s) as (id & s1 & Hce). rewrite Hce. cbn [bind_res]. cbv zeta.
      destruct (create_empty_spec _ _ _ W Hce) as (Eid & Hn1 & Hq1 & Hb1 & W1 & V1 & Fr1).
      set (s2 := upd id (nd_value (Some 0%Z)) s1).
      assert (W2 : WF s2).
      { unfold WF, s2; cbn. apply WFc_set_value; [exact W1|]. intros nd Hnd _. apply Fr1, Hnd. }
      assert (F2 : frame s s2).
      { eapply (frame_create s s1 s1); try eassumption; try reflexivity.
        - apply frame_refl, W1.
        - intros y Hy. unfold s2; cbn. rewrite lookup_alter_ne by congruence. apply vsame_refl.
        - intros nd. unfold s2; cbn. rewrite lookup_alter. destruct (nodes s1 !! id); cbn; [|discriminate].
          intros E; inversion E; subst. cbn. discriminate. }
      apply (good_frame_l s s2); [exact F2|].
      apply good_bind.
      * gvia (set_current (Some id) (register x id s2)) W2. apply Hexec. assumption.
      * intros en1 s3 _ W3 _. gfin W3.
    + (* SCurScope *)
      destruct (current s); [apply good_ok, W|notbad].
    + (* SSet *)
      apply good_bind; [apply eval_good, W|]. intros v s1 _ W1 _.
      destruct (lookup_env x en) as [[id|c]|]; try notbad.
      pose proof (update_silent_good id v s1 W1) as Hu.
      destruct (update_silent id v s1) as [[] s2|er s2]; cbn [bind_res]; [|exact Hu].
      destruct Hu as (W2 & F2 & Hlt & Nb). apply (good_frame_l s1 s2); [exact F2|].
      apply good_bind; [apply Hpu; assumption|]. intros [] s3 _ W3 _. apply good_ok, W3.
    + (* SSetSilent *)
      apply good_bind; [apply eval_good, W|]. intros v s1 _ W1 _.
      destruct (lookup_env x en) as [[id|c]|]; try notbad.
      pose proof (update_silent_good id v s1 W1) as Hu.
      destruct (update_silent id v s1) as [[] s2|er s2]; cbn [bind_res]; [|exact Hu].
      destruct Hu as (W2 & F2 & _). split; assumption.
    + (* SDispose *)
      destruct (lookup_env x en) as [[id|c]|]; try notbad.
      apply good_bind; [apply Hdisp, W|]. intros [] s1 _ W1 _. apply good_ok, W1.
    + (* SBatch *)
      cbv zeta. cbn [andb].
      set (s0 := emit (EvBatch true) (set_batching true s)).
      assert (W0 : WF s0) by (unfold WF, s0; cbn; eapply WFc_batch_on, W).
      pose proof (Hexec en ss s0 W0) as H0.
      destruct (exec true f en ss s0) as [en1 s1|er s1]; cbn [bind_res]; [|exact H0].
      destruct H0 as (W1 & [F1 B1]). cbn in F1, B1.
      destruct (batching s) eqn:Hb.
      * split; [exact W1|]. split; [exact F1|cbn; congruence].
      * set (s1' := set_queue [] (set_batching false (emit (EvBatch false) s1))).
        assert (W1' : WF s1') by (unfold WF, s1'; cbn; eapply WFc_batch_off, W1).
        assert (Nb : nonbusy s1' (queue s1)).
        { intros q qq Hq Hqq. eapply (wf_queue_val _ _ _ _ W1); eassumption. }
        pose proof (Hprop (queue s1) s1' W1' eq_refl Nb) as H2.
        destruct (propagate true f (queue s1) s1') as [[] s2|er s2]; cbn [bind_res]; [|exact H2].
        destruct H2 as (W2 & [F2 B2]). cbn in F2, B2. split; [exact W2|]. split; [|congruence].
        eapply framec_trans; eassumption.
    + (* SUntrack *)
      cbv zeta. apply good_bind.
      * gvia (set_tracker None s) W. apply Hexec; assumption.
      * intros en1 s1 _ W1 _. gfin W1.
    + (* SComponent *)
      cbv zeta. apply good_bind.
      * gvia (set_tracker None s) W. apply Hexec; assumption.
      * intros en1 s1 _ W1 _. gfin W1.
    + (* SOnCleanup *)
      destruct (current s) as [c|]; [|gfin W].
      destruct (alive c s) eqn:Ha.
      * split.
        -- unfold WF; cbn. apply WFc_alter_neutral; [apply (neutral_cleanups (fun n => n_cleanups n ++ [Cleanup l en ss]))|exact W].
        -- split; [|reflexivity]. cbn. apply framec_alter_vsame; [|apply (wf_dom _ _ _ _ W)]. intros y _. cbn. tauto.
      * cbv zeta. apply good_bind.
        -- gvia (emit (EvCleanup l) (set_tracker None (emit (EvReg l) s))) W. apply Hexec; assumption.
        -- intros en1 s1 _ W1 _. gfin W1.
    + (* SProvide *)
      apply good_bind; [apply eval_good, W|]. intros v s1 _ W1 _.
      apply good_bind; [apply provide_good, W1|]. intros [] s2 _ W2 _. apply good_ok, W2.
    + (* SUseCtx *)
      apply good_bind; [apply try_use_context_good, W|]. intros r s1 _ W1 _. gfin W1.
    + (* SRunIn *)
      destruct (lookup_env x en) as [[id|c]|]; try notbad. cbv zeta. apply good_bind.
      * gvia (set_current (Some id) s) W. apply Hexec; assumption.
      * intros en1 s1 _ W1 _. gfin W1.
    + (* STrack *)
      destruct (lookup_env x en) as [[id|c]|]; try notbad.
      apply same_wf_good; [|exact W]. eapply same_wf_trans; [apply (track_same_wf id s)|swf].
    + (* SIf *)
      apply good_bind; [apply eval_good, W|]. intros v s1 _ W1 _.
      apply good_bind; [apply Hexec, W1|]. intros en1 s2 _ W2 _. apply good_ok, W2.
    + apply good_bind; [apply eval_good, W|]. intros v s1 _ W1 _. gfin W1.
    + apply good_bind; [apply eval_good, W|]. intros v s1 _ W1 _.
      destruct (lookup_env c en) as [[id|k]|]; try notbad. gfin W1.
    + apply good_bind; [apply eval_good, W|]. intros v s1 _ W1 _. gfin W1.
  - (* run_body *)
    intros c s W. rewrite run_body_S. destruct (c_body c) as [on ss ret]. cbv zeta.
    destruct on as [deps|].
    + match goal with |- context [fold_left ?g deps ?a] => destruct (fold_left g deps a) as [s1|] eqn:Ef end; [|notbad].
      destruct (on_track_same _ _ _ _ Ef) as [s0 [E0 Hs]]. inversion E0; subst s0.
      assert (Hs' : same_wf s (set_tracker None s1)) by (eapply same_wf_trans; [|eapply same_wf_trans; [exact Hs|]]; swf).
      apply (good_same_l _ (set_tracker None s1)); [exact Hs'|exact W|intros W1].
      apply good_bind; [apply Hexec, W1|]. intros en1 s2 _ W2 _.
      apply good_bind; [apply eval_good, W2|]. intros v s3 _ W3 _.
      destruct (c_kind c); gfin W3.
    + apply good_bind.
      * gvia (emit (EvRun (c_name c)) s) W. apply Hexec; assumption.
      * intros en1 s1 _ W1 _. apply good_bind; [apply eval_good, W1|]. intros v s2 _ W2 _.
        destruct (c_kind c); gfin W2.
  - (* create_computation *)
    intros en x k b s W. rewrite create_computation_S.
    destruct (create_empty_total s) as (id & s1 & Hce). rewrite Hce. cbn [bind_res]. cbv zeta.
    destruct (create_empty_spec _ _ _ W Hce) as (Eid & Hn1 & Hq1 & Hb1 & W1 & V1 & Fr1).
    set (B := set_tracker (Some []) (set_current (Some id) (register x id s1))).
    assert (WB : WF B) by exact W1.
    pose proof (Hbody (Clo x k en b) B WB) as H3.
    destruct (run_body true f (Clo x k en b) B) as [v s3|er s3]; cbn [bind_res]; [|exact H3].
    destruct H3 as (W3 & F3).
    set (s4 := set_current (current (register x id s1)) (set_tracker (tracker (register x id s1)) s3)).
    assert (W4 : WF s4) by exact W3.
    assert (F14 : frame s1 s4) by exact F3.
    destruct (alive id s4) eqn:Ha; cbn [andb negb].
    * apply alive_true in Ha as [nd4 Hnd4].
      assert (Hbusy : n_value nd4 = None).
      { destruct F14 as [[_ Fn] _]. destruct (Fn id nd4 Hnd4) as [Fa _].
        destruct Fa as (nd1 & Hnd1 & E); [lia|]. apply E. apply (Fr1 _ Hnd1). }
      set (g := fun n => nd_cb (Some (Clo x k en b)) (nd_value (Some match k with KEffect => 0%Z | _ => v end) n)).
      destruct (link_finish s4 id nd4 (match tracker s3 with Some t => t | None => [] end) g W4 Hnd4 Hbusy
                  (finisher_create _ _)) as (s5 & Hl & Hn5 & Hq5 & Hb5 & W5 & V5 & Hv5 & Hal5).
      rewrite Hl. cbn [bind_res]. rewrite (proj2 (alive_true id s5) Hal5).
      split; [exact W5|].
      eapply (frame_create s s1 s4); try eassumption; try reflexivity.
    * split; [exact W4|].
      eapply (frame_create s s1 s4 s4); try eassumption; try reflexivity.
      -- intros y _. apply vsame_refl.
      -- intros nd Hnd. apply alive_false in Ha. congruence.
  - (* dispose *)
    intros id s W. rewrite dispose_S.
    destruct (unsubscribe_dispose id s W) as (W0 & Hn0 & Hq0 & Hb0 & V0 & _).
    apply (good_frame_l s (unsubscribe true id s)); [apply frame_vsame; assumption|].
    apply good_bind; [apply Hdc, W0|]. intros [] s1 _ W1 _.
    destruct (nodes s1 !! id) as [this|] eqn:Hid; [|apply good_ok, W1].
    destruct (dispose_finish s1 id this W1 Hid) as (W4 & Hn4 & Hq4 & Hb4 & Hdead & V4 & _).
    split; [exact W4|]. apply frame_sub; try assumption.
    intros y yy' Hy. assert (y <> id) by (intros ->; congruence).
    specialize (V4 y H). rewrite Hy in V4. apply vsame_Some_r, V4.
  - (* dispose_children *)
    intros id s W. rewrite dispose_children_S. destruct (nodes s !! id) as [nd|] eqn:Hid; [|apply good_ok, W].
    cbv zeta. set (s1 := upd id (fun n => nd_children [] (nd_cleanups [] n)) s).
    assert (W1 : WF s1) by (unfold WF, s1; cbn; apply WFc_alter_neutral; [apply neutral_clear|exact W]).
    assert (F1 : frame s s1).
    { split; [|reflexivity]. unfold s1; cbn. apply framec_alter_vsame; [|apply (wf_dom _ _ _ _ W)]. intros y _. cbn. tauto. }
    apply (good_frame_l s s1); [exact F1|].
    apply good_bind.
    * gvia (set_tracker None s1) W1. apply Hrc; assumption.
    * intros [] s2 _ W2 _. apply good_bind.
      -- gvia (set_tracker (tracker s1) s2) W2. apply Hdl; assumption.
      -- intros [] s4 _ W4 _. destruct (nodes s4 !! id) as [nd'|]; [|apply good_ok, W4].
         match goal with |- context [if ?b then _ else _] => destruct b end; [apply Hdc, W4|].
         split.
         ++ unfold WF; cbn. apply WFc_alter_neutral; [apply neutral_context'|exact W4].
         ++ split; [|reflexivity]. cbn. apply framec_alter_vsame; [|apply (wf_dom _ _ _ _ W4)]. intros y _. cbn. tauto.
  - (* run_cleanups *)
    intros cs s W. rewrite run_cleanups_S. destruct cs as [|c r]; [apply good_ok, W|].
    apply good_bind.
    * gvia (emit (EvCleanup (cl_label c)) s) W. apply Hexec; assumption.
    * intros en1 s1 _ W1 _. apply Hrc, W1.
  - (* dispose_list *)
    intros ids s W. rewrite dispose_list_S. destruct ids as [|i r]; [apply good_ok, W|].
    apply good_bind; [apply Hdisp, W|]. intros [] s1 _ W1 _. apply Hdl, W1.
  - (* run_node_update *)
    intros n s nd W Hb Hn Hv Hdirty. rewrite run_node_update_S, Hn. cbv zeta.
    destruct (unsubscribe_run s n nd W Hn) as (s2 & H2 & Hn2 & Hq2 & Hb2 & W2 & V2 & (nd2 & Hnd2 & Hd2 & Ev2 & Ec2 & Edi2)).
    rewrite H2. cbn [bind_res].
    destruct (n_cb nd) as [c|] eqn:Hcb.
    2:{ exfalso. destruct (wf_dirty _ _ _ _ W _ _ Hn Hdirty) as [Hx|Hx]; congruence. }
    destruct (n_value nd) as [old|] eqn:Hval; [|congruence].
    set (s3 := upd n (fun x => nd_cb None (nd_value None x)) s2).
    assert (Hq3 : queue s2 = []) by (rewrite Hq2; apply (wf_qb _ _ _ _ W), Hb).
    assert (W3 : WF s3).
    { unfold WF, s3; cbn. rewrite Hq3. eapply WFc_take; [|exact Hnd2|exact Hd2]. rewrite <- Hq3. exact W2. }
    assert (V3 : forall y, y <> n -> vsame (nodes s !! y) (nodes s3 !! y)).
    { intros y Hy. eapply vsame_trans; [apply V2|]. unfold s3; cbn. rewrite lookup_alter_ne by congruence. apply vsame_refl. }
    assert (Hnd3 : exists nd3, nodes s3 !! n = Some nd3 /\ n_value nd3 = None).
    { unfold s3; cbn. rewrite lookup_alter, Hnd2. cbn. eauto. }
    pose proof (Hdc n s3 W3) as H4.
    destruct (dispose_children true f n s3) as [[] s4|er s4]; cbn [bind_res]; [|exact H4].
    destruct H4 as (W4 & F4).
    assert (Hn3 : next s3 = next s) by exact Hn2.
    assert (Hb3 : batching s3 = batching s) by exact Hb2.
    destruct (alive n s4) eqn:Ha4; cbn [andb negb].
    2:{ (* a cleanup of the previous run disposed the node: the update stops here *)
      split; [exact W4|].
      eapply (frame_update s s3 s4 s4 n nd); try eassumption; try congruence; try reflexivity.
      -- intros y _. apply vsame_refl.
      -- intros nd' Hnd'. apply alive_false in Ha4. congruence. }
    set (B := set_tracker (Some []) (set_current (Some n) s4)).
    pose proof (Hbody c B (W4 : WF B)) as H5.
    destruct (run_body true f c B) as [new s5|er s5]; cbn [bind_res]; [|exact H5].
    destruct H5 as (W5 & F5).
    set (s6 := set_current (current s4) (set_tracker (tracker s4) s5)).
    assert (W6 : WF s6) by exact W5.
    assert (F36 : frame s3 s6) by (eapply frame_trans; [exact F4|exact F5]).
    destruct (alive n s6) eqn:Ha; cbn [andb negb].
    * apply alive_true in Ha as [nd6 Hnd6].
      assert (Hbusy : n_value nd6 = None).
      { destruct F36 as [[_ Fn] _]. destruct (Fn n nd6 Hnd6) as [Fa _].
        assert (Hlt : (n < next s3)%nat) by (apply (wf_dom _ _ _ _ W3); destruct Hnd3 as (? & ? & _); eauto).
        destruct (Fa Hlt) as (nd3' & Hnd3' & E). destruct Hnd3 as (nd3 & Hnd3 & Hv3).
        rewrite Hnd3 in Hnd3'. inversion Hnd3'; subst. apply E, Hv3. }
      set (changed := negb (eqk (c_kind c) new old)).
      set (value := if changed then match c_kind c with KEffect => 0%Z | _ => new end else old).
      set (g := fun x => nd_dirty false (nd_cb (Some c) (nd_value (Some value) x))).
      destruct (link_finish s6 n nd6 (match tracker s5 with Some t => t | None => [] end) g W6 Hnd6 Hbusy
                  (finisher_update _ _)) as (s7 & Hl & Hn7 & Hq7 & Hb7 & W8 & V8 & Hv8 & Hal7).
      rewrite Hl. cbn [bind_res]. rewrite (proj2 (alive_true n s7) Hal7).
      destruct changed.
      -- destruct (mark_dependents_dirty_spec n (upd n g s7) W8) as (s9 & H9 & Hn9 & Hq9 & Hb9 & W9 & V9).
         rewrite H9. split; [exact W9|].
         eapply (frame_update s s3 s6 s9 n nd); try eassumption; try congruence.
         ++ intros y Hy. eapply vsame_trans; [apply V8, Hy|]. specialize (V9 y).
            destruct (nodes (upd n g s7) !! y) as [a|], (nodes s9 !! y) as [b'|]; cbn; try tauto.
            destruct V9 as (E & _). rewrite E. tauto.
         ++ intros nd' Hnd'. specialize (V9 n). rewrite Hnd' in V9.
            destruct (nodes (upd n g s7) !! n) as [a|] eqn:Ea; [|destruct V9]. destruct V9 as (E & _). rewrite E.
            apply Hv8. reflexivity.
         ++ rewrite Hn9. cbn. exact Hn7.
         ++ rewrite Hb9. cbn. exact Hb7.
      -- split; [exact W8|].
         eapply (frame_update s s3 s6 _ n nd); try eassumption; try congruence.
    * split; [exact W6|].
      eapply (frame_update s s3 s6 s6 n nd); try eassumption; try congruence; try reflexivity.
      -- intros y _. apply vsame_refl.
      -- intros nd' Hnd'. apply alive_false in Ha. congruence.
  - (* loop *)
    intros order s W Hb Nb. rewrite loop_S. destruct order as [|n rest]; [apply good_ok, W|].
    assert (Nb' : nonbusy s rest) by (intros y yy Hy; apply Nb; right; exact Hy).
    destruct (nodes s !! n) as [nd|] eqn:Hn; [|apply Hloop; assumption]. cbv zeta.
    set (s1 := upd n (nd_mark MNone) s).
    assert (W1 : WF s1) by (unfold WF, s1; cbn; apply WFc_alter_neutral; [apply neutral_mark|exact W]).
    assert (F1 : frame s s1).
    { split; [|reflexivity]. unfold s1; cbn. apply framec_alter_vsame; [|apply (wf_dom _ _ _ _ W)]. intros y _. cbn. tauto. }
    assert (Nb1 : nonbusy s1 rest) by (eapply nonbusy_frame; eassumption).
    apply (good_frame_l s s1); [exact F1|].
    destruct (n_dirty nd) eqn:Hdirty; [|apply Hloop; assumption].
    apply good_bind.
    * apply (Hrnu n s1 (nd_mark MNone nd)); try assumption.
      -- unfold s1; cbn. rewrite lookup_alter, Hn. reflexivity.
      -- cbn. eapply Nb; [left; reflexivity|exact Hn].
    * intros [] s2 _ W2 F2. apply Hloop; [exact W2| |eapply nonbusy_frame; eassumption].
      destruct F2 as [_ B2]. rewrite B2. exact Hb.
  - (* propagate *)
    intros starts s W Hb Nb. rewrite propagate_S. cbv zeta.
    pose proof (sort_good (S (size (nodes s))) s starts (Ok [] s)) as Hs.
    change (fold_left _ starts (Ok [] s)) with (fold_left (sort_step true (S (size (nodes s)))) starts (Ok [] s)).
    destruct (fold_left (sort_step true (S (size (nodes s)))) starts (Ok [] s)) as [buf s1|er s1]; cbn [bind_res].
    * destruct Hs as (W1 & F1 & Nb1).
      { split; [exact W|]. split; [apply frame_refl, W|]. intros y yy []. }
      { intros buf0 s0 E. inversion E; subst. exact Nb. }
      apply (good_frame_l s s1); [exact F1|]. apply Hloop; [exact W1| |].
      -- destruct F1 as [_ B1]. rewrite B1. exact Hb.
      -- intros y yy Hy. apply Nb1. apply in_rev. exact Hy.
    * apply Hs.
      { split; [exact W|]. split; [apply frame_refl, W|]. intros y yy []. }
      { intros buf0 s0 E. inversion E; subst. exact Nb. }
  - (* propagate_updates *)
    intros id s W Hlt Nb. rewrite propagate_updates_S. destruct (batching s) eqn:Hb.
    + split.
      * unfold WF; cbn. rewrite Hb. apply WFc_push; [rewrite <- Hb; exact W|exact Hlt|].
        intros xx Hxx. eapply Nb; [left; reflexivity|exact Hxx].
      * split; [|reflexivity]. cbn. apply framec_refl, (wf_dom _ _ _ _ W).
    + apply Hprop; assumption.
Qed.

(* ---------------------------------------------------------------------------------- *)
(* main statements *)

Lemma WF_init : WF init_state.
Proof.
  unfold WF, init_state; cbn. constructor.
  - intros n [x Hx]. apply lookup_singleton_Some in Hx as [<- _]. lia.
  - intros x [].
  - intros n nn d Hn Hd. apply lookup_singleton_Some in Hn as [<- <-]. destruct Hd.
  - intros d dd n Hd Hn. apply lookup_singleton_Some in Hd as [<- <-]. destruct Hn.
  - intros n nn Hn Hd. apply lookup_singleton_Some in Hn as [<- <-]. cbn in Hd. congruence.
  - intros n nn Hn Hd. apply lookup_singleton_Some in Hn as [<- <-]. cbn in Hd. discriminate.
  - intros x xx [].
  - reflexivity.
Qed.

Lemma WF_clear_log s : WF s -> WF (clear_log s).
Proof. exact (fun H => H). Qed.

(* the invariant is preserved by every successful run, from any well-formed state *)
Theorem WF_exec : forall f en ss s en' s', WF s -> exec true f en ss s = Ok en' s' -> WF s'.
Proof. intros f en ss s en' s' W H. pose proof (proj1 (good_all f) en ss s W) as G. rewrite H in G. apply G. Qed.

Theorem WF_exec1 : forall f en st s en' s', WF s -> exec1 true f en st s = Ok en' s' -> WF s'.
Proof.
  intros f en st s en' s' W H. pose proof (proj1 (proj2 (good_all f)) en st s W) as G. rewrite H in G. apply G.
Qed.

Theorem WF_dispose : forall f id s s', WF s -> dispose true f id s = Ok tt s' -> WF s'.
Proof.
  intros f id s s' W H. destruct (good_all f) as (_&_&_&_&Hd&_). specialize (Hd id s W). rewrite H in Hd. apply Hd.
Qed.

(* ... and a failing run from a well-formed state does not fail at site 6, 7 or 8 *)
Theorem no_panic_678 : forall f en ss s e s', WF s -> exec true f en ss s = Err e s' ->
  e <> Runtime 6 /\ e <> Runtime 7 /\ e <> Runtime 8.
Proof.
  intros f en ss s e s' W H. pose proof (proj1 (good_all f) en ss s W) as G. rewrite H in G. cbn in G.
  unfold bad678 in G. tauto.
Qed.

(* C11, the headline.  Together with NoPanic.v (all other sites, site 14 included since commit 87c1b28, are guarded
   or locally unreachable): from a state satisfying the edge invariant the fixed runtime never indexes a dead node
   and never unwraps a missing callback or value, whatever the program does.  WF is needed for sites 6, 7, 8 only. *)
Theorem no_runtime_panic : forall f en ss s e s', WF s -> exec true f en ss s = Err e s' -> forall k, e <> Runtime k.
Proof.
  intros f en ss s e s' W H k ->. destruct (no_panic_678 _ _ _ _ _ _ W H) as (H6 & H7 & H8).
  destruct (runtime_sites _ _ _ _ _ _ H) as [-> | [-> | ->]]; congruence.
Qed.

Corollary no_runtime_panic_program : forall f prog e s',
  exec true f root_env prog init_state = Err e s' -> forall k, e <> Runtime k.
Proof. intros f prog e s'. apply no_runtime_panic, WF_init. Qed.

Theorem no_runtime_panic_exec1 : forall f en st s e s', WF s -> exec1 true f en st s = Err e s' -> forall k, e <> Runtime k.
Proof.
  intros f en st s e s' W H k ->.
  pose proof (proj1 (proj2 (good_all f)) en st s W) as G. rewrite H in G. cbn in G. unfold bad678 in G.
  pose proof (proj1 (proj2 (safe_all f)) en st s) as Hs. rewrite H in Hs. cbn in Hs.
  destruct Hs as [-> | [-> | ->]]; tauto.
Qed.

Theorem no_runtime_panic_dispose : forall f id s e s', WF s -> dispose true f id s = Err e s' -> forall k, e <> Runtime k.
Proof.
  intros f id s e s' W H k ->.
  destruct (good_all f) as (_&_&_&_&Hd&_). specialize (Hd id s W). rewrite H in Hd. cbn in Hd. unfold bad678 in Hd.
  destruct (safe_all f) as (_&_&_&_&Hs&_). specialize (Hs id s). rewrite H in Hs. cbn in Hs.
  destruct Hs as [-> | [-> | ->]]; tauto.
Qed.

(* Root::reinit disposes node 0 *)
Theorem no_runtime_panic_reinit : forall f s e s', WF s -> reinit true f s = Err e s' -> forall k, e <> Runtime k.
Proof.
  intros f s e s' W H. unfold reinit in H.
  destruct (dispose true f 0 s) as [[] s1|e1 s1] eqn:Hd; cbn in H; [discriminate|].
  inversion H; subst. eapply no_runtime_panic_dispose; eassumption.
Qed.

(* C04, subscriptions: in every state reachable from the initial one, subscriber lists and dependency lists
   mention live nodes only, and mirror each other *)
Theorem no_stale_edges : forall s, WF s ->
  (forall d dd n, nodes s !! d = Some dd -> In n (n_dependents dd) ->
     exists nn, nodes s !! n = Some nn /\ In d (n_deps nn)) /\
  (forall n nn d, nodes s !! n = Some nn -> In d (n_deps nn) ->
     exists dd, nodes s !! d = Some dd /\ In n (n_dependents dd)).
Proof. intros s W. split; [apply (wf_sym2 _ _ _ _ W)|apply (wf_sym1 _ _ _ _ W)]. Qed.

Print Assumptions WF_exec.
Print Assumptions no_runtime_panic.
Print Assumptions no_runtime_panic_program.
Print Assumptions no_runtime_panic_dispose.
Print Assumptions no_stale_edges.

(* ---------------------------------------------------------------------------------- *)
(* non-vacuity and the reachable site *)

Open Scope Z_scope.

(* a boolean transcription of WF, to evaluate the invariant on concrete runs *)
Definition memb (x : nat) (l : list nat) : bool := existsb (Nat.eqb x) l.
Definition isnone {A} (o : option A) : bool := match o with None => true | _ => false end.
Definition all_nodes (s : state) (p : nat -> node -> bool) : bool :=
  forallb (fun kv => p (fst kv) (snd kv)) (map_to_list (nodes s)).
Definition wf_b (s : state) : bool :=
  all_nodes s (fun n _ => Nat.ltb n (next s)) &&
  forallb (fun q => Nat.ltb q (next s)) (queue s) &&
  all_nodes s (fun n nn => forallb (fun d => match nodes s !! d with Some dd => memb n (n_dependents dd) | None => false end) (n_deps nn)) &&
  all_nodes s (fun d dd => forallb (fun n => match nodes s !! n with Some nn => memb d (n_deps nn) | None => false end) (n_dependents dd)) &&
  all_nodes s (fun n nn => match n_deps nn with [] => true | _ => negb (isnone (n_cb nn)) && negb (isnone (n_value nn)) end) &&
  all_nodes s (fun n nn => negb (n_dirty nn) || negb (isnone (n_cb nn)) || isnone (n_value nn)) &&
  forallb (fun q => match nodes s !! q with Some qq => negb (isnone (n_value qq)) | None => true end) (queue s) &&
  (batching s || match queue s with [] => true | _ => false end).

(* a run that exercises subscriptions, re-runs, disposal inside an effect, and a batch *)
Definition wf_prog : list stmt :=
  [SSignal 1 (Lit 0); SSignal 2 (Lit 5);
   SMemo 3 (Body None [] (Add (Get 1) (Get 2)));
   SScope 4 [SCurScope 6; SEffect 5 (Body None [SOnCleanup 1 [SLog (Lit 7)]; SIf (Lt (Lit 1) (Get 3)) [] [SDispose 6]] (Get 3))];
   SBatch [SSet 1 (Lit 1); SSet 2 (Lit 0)];
   SSet 1 (Lit 3)].
Example wf_prog_runs :
  match exec true 400 root_env wf_prog init_state with
  | Ok _ s => wf_b s = true /\ size (nodes s) = 4%nat      (* scope 4 and effect 5 destroyed themselves *)
  | Err _ _ => False
  end.
Proof. vm_compute. split; reflexivity. Qed.

(* site 14, the re-entrant witness: a cleanup callback of scope 2 disposes scope 2 itself; the scope leaves the table
   while the children that the outer dispose_children took out of it (scope 5) are still alive, and the parent walk of
   try_use_context started from one of them meets the dead owner.  The pinned code indexes it (site 14); since commit
   87c1b28 an owner that is gone ends the walk *)
Definition site14_still : list stmt :=
  [SScope 2 [SCurScope 4; SScope 5 []; SOnCleanup 1 [SDispose 4; SRunIn 5 [SUseCtx 1]]];
   SDispose 2].
Example site14_still_pinned_vs_fixed :
  match exec false 400 root_env site14_still init_state, exec true 400 root_env site14_still init_state with
  | Err (Runtime 14) _, Ok _ s => In (EvCtx 1 None) (log s) /\ size (nodes s) = 1%nat /\ wf_b s = true
  | _, _ => False
  end.
Proof. vm_compute. repeat split; try reflexivity. tauto. Qed.

(* the earlier witness (a cleanup creates an effect in the scope being disposed): the pinned code reaches site 14,
   the repaired code disposes the late child as well *)
Definition site14_prog : list stmt :=
  [SSignal 1 (Lit 0);
   SScope 2 [SCurScope 4; SOnCleanup 1 [SRunIn 4 [SEffect 5 (Body None [SUseCtx 1] (Get 1))]]];
   SDispose 2;
   SSet 1 (Lit 1)].
Example site14_prog_pinned_vs_fixed :
  match exec false 400 root_env site14_prog init_state, exec true 400 root_env site14_prog init_state with
  | Err (Runtime 14) _, Ok _ s => size (nodes s) = 2%nat /\ reachable s = 2%nat /\ wf_b s = true
  | _, _ => False
  end.
Proof. vm_compute. repeat split; reflexivity. Qed.

(* the variant without run_in (an effect registers a cleanup that creates an effect, then disposes itself) *)
Definition site14_prog' : list stmt :=
  [SSignal 1 (Lit 0); SSignal 9 (Lit 0);
   SEffect 2 (Body None [SCurScope 4;
                         SOnCleanup 1 [SEffect 5 (Body None [SUseCtx 1] (Get 1))];
                         SIf (Get 9) [SDispose 4] []] (Lit 0));
   SSet 9 (Lit 1);
   SSet 1 (Lit 1)].
Example site14_prog'_fixed :
  match exec true 400 root_env site14_prog' init_state with
  | Ok _ s => size (nodes s) = reachable s /\ wf_b s = true
  | _ => False
  end.
Proof. vm_compute. split; reflexivity. Qed.
