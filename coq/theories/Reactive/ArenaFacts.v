(* Reactive/ArenaFacts.v -- facts about the slot-map model of Arena.v:
   a destroyed key is never alive again, every key handed out is new, the arena refines the abstract set of live keys.
   All under an explicit bound on the number of insertions (no u32 version wraps) and the condition that
   the keys given to ARem have an odd version (true of every slotmap key: KeyData::new does `version | 1`). *)
From Coq Require Import List NArith Arith Bool Lia.
From Syc Require Import Reactive.Arena.
Import ListNotations.
Open Scope N_scope.

(* ------------------------------------------------------------------ *)
(* side conditions of the theorems *)
Definition bound (ops : list aop) : Prop := N.of_nat (n_ins ops) < 2147483647.
Definition odd_op (o : aop) : Prop := match o with ARem k => N.odd (snd k) = true | _ => True end.
Definition odd_rems (ops : list aop) : Prop := Forall odd_op ops.

(* ------------------------------------------------------------------ *)
(* lists *)
Lemma set_nth_length {A} (l : list A) : forall i x, length (set_nth l i x) = length l.
Proof. induction l as [|h t IH]; intros [|i] x; cbn; auto. Qed.

Lemma nth_set_nth_eq {A} (l : list A) : forall i x, (i < length l)%nat -> nth_error (set_nth l i x) i = Some x.
Proof. induction l as [|h t IH]; intros [|i] x Hl; cbn in *; try lia; auto. apply IH; lia. Qed.

Lemma nth_set_nth_neq {A} (l : list A) : forall i j x, i <> j -> nth_error (set_nth l i x) j = nth_error l j.
Proof. induction l as [|h t IH]; intros [|i] [|j] x Hn; cbn in *; try congruence; auto. Qed.

Lemma nth_set_nth {A} (l : list A) i j x y :
  nth_error l i = Some y ->
  nth_error (set_nth l i x) j = if Nat.eqb i j then Some x else nth_error l j.
Proof.
  intros Hi. destruct (Nat.eqb_spec i j) as [->|Hn].
  - apply nth_set_nth_eq. apply nth_error_Some. congruence.
  - apply nth_set_nth_neq; auto.
Qed.

Lemma nth_snoc {A} (l : list A) x j :
  nth_error (l ++ [x]) j = if Nat.ltb j (length l) then nth_error l j else if Nat.eqb j (length l) then Some x else None.
Proof.
  destruct (Nat.ltb_spec j (length l)) as [Hl|Hl].
  - apply nth_error_app1; auto.
  - rewrite nth_error_app2 by auto. destruct (Nat.eqb_spec j (length l)) as [->|Hn].
    + rewrite Nat.sub_diag. reflexivity.
    + destruct (j - length l)%nat as [|m] eqn:E; [lia|]. cbn. destruct m; reflexivity.
Qed.

(* ------------------------------------------------------------------ *)
(* parity *)
Lemma odd_succ_f v : N.odd v = false -> N.odd (v + 1) = true.
Proof. intros H. rewrite N.add_1_r, N.odd_succ, <- N.negb_odd, H. reflexivity. Qed.
Lemma odd_succ_t v : N.odd v = true -> N.odd (v + 1) = false.
Proof. intros H. rewrite N.add_1_r, N.odd_succ, <- N.negb_odd, H. reflexivity. Qed.
Lemma odd_le_even v c : N.odd v = true -> v <= 2 * c -> v + 1 <= 2 * c.
Proof. intros H Hl. apply N.odd_spec in H. destruct H as [m ->]. lia. Qed.
Lemma lor1_cases v : (N.odd v = true /\ N.lor v 1 = v) \/ (N.odd v = false /\ N.lor v 1 = v + 1).
Proof. destruct v as [|[p|p|]]; cbn; auto. Qed.
Lemma odd_lor1 v : N.odd (N.lor v 1) = true.
Proof. destruct (lor1_cases v) as [[H ->]|[H ->]]; auto using odd_succ_f. Qed.
Lemma wrap32_small v : v < 4294967296 -> wrap32 v = v.
Proof. intros H. unfold wrap32. apply N.mod_small; auto. Qed.

(* ------------------------------------------------------------------ *)
(* the primitive operations, slot by slot *)
Lemma rfs_nth a i s j :
  nth_error (slots a) i = Some s ->
  nth_error (slots (remove_from_slot a i)) j =
    if Nat.eqb i j then Some {| ver := wrap32 (ver s + 1); nxt := free_head a |} else nth_error (slots a) j.
Proof. intros H. unfold remove_from_slot. rewrite H. cbn [slots]. eapply nth_set_nth; eauto. Qed.

Lemma rfs_head a i s : nth_error (slots a) i = Some s -> free_head (remove_from_slot a i) = i.
Proof. intros H. unfold remove_from_slot. rewrite H. reflexivity. Qed.

Lemma rfs_length a i : length (slots (remove_from_slot a i)) = length (slots a).
Proof. unfold remove_from_slot. destruct (nth_error (slots a) i); cbn [slots]; auto using set_nth_length. Qed.

Lemma insert_some a s :
  nth_error (slots a) (free_head a) = Some s ->
  fst (insert a) = (free_head a, N.lor (ver s) 1) /\
  free_head (snd (insert a)) = nxt s /\
  forall j, nth_error (slots (snd (insert a))) j =
    if Nat.eqb (free_head a) j then Some {| ver := N.lor (ver s) 1; nxt := nxt s |} else nth_error (slots a) j.
Proof.
  intros H. unfold insert. rewrite H. cbn [fst snd slots free_head]. repeat split.
  intros j. eapply nth_set_nth; eauto.
Qed.

Lemma insert_none a :
  nth_error (slots a) (free_head a) = None ->
  fst (insert a) = (length (slots a), 1) /\
  free_head (snd (insert a)) = S (length (slots a)) /\
  slots (snd (insert a)) = slots a ++ [ {| ver := 1; nxt := 0%nat |} ].
Proof. intros H. unfold insert. rewrite H. cbn [fst snd slots free_head]. auto. Qed.

Lemma astep_ins a ks : astep (a, ks) AIns = (snd (insert a), ks ++ [fst (insert a)]).
Proof. cbn. destruct (insert a); reflexivity. Qed.

(* ------------------------------------------------------------------ *)
(* monotonicity and the version bound *)
Definition verbound (a : arena) (c : N) : Prop :=
  forall i s, nth_error (slots a) i = Some s -> ver s <= 2 * c.

Definition le_arena (a a' : arena) : Prop :=
  forall i s, nth_error (slots a) i = Some s -> exists s', nth_error (slots a') i = Some s' /\ ver s <= ver s'.

Lemma le_arena_refl a : le_arena a a.
Proof. intros i s H. exists s. split; auto. lia. Qed.

Lemma le_arena_trans a b c : le_arena a b -> le_arena b c -> le_arena a c.
Proof.
  intros H1 H2 i s H. destruct (H1 i s H) as [s1 [E1 L1]]. destruct (H2 i s1 E1) as [s2 [E2 L2]].
  exists s2. split; auto. lia.
Qed.

Lemma le_arena_length a b : le_arena a b -> (length (slots a) <= length (slots b))%nat.
Proof.
  intros H. destruct (le_lt_dec (length (slots a)) (length (slots b))) as [|Hlt]; auto.
  exfalso. destruct (nth_error (slots a) (length (slots b))) as [s|] eqn:E.
  - destruct (H _ _ E) as [s' [E' _]]. assert (Hx : nth_error (slots b) (length (slots b)) <> None) by congruence.
    apply nth_error_Some in Hx. lia.
  - apply nth_error_None in E. lia.
Qed.

Lemma verbound_mono a c c' : verbound a c -> c <= c' -> verbound a c'.
Proof. intros H Hc i s E. specialize (H i s E). lia. Qed.

(* removing an occupied slot *)
Lemma rfs_ok a i s c :
  verbound a c -> c < 2147483647 -> nth_error (slots a) i = Some s -> occupied s = true ->
  verbound (remove_from_slot a i) c /\ le_arena a (remove_from_slot a i) /\
  exists s', nth_error (slots (remove_from_slot a i)) i = Some s' /\ ver s' = ver s + 1.
Proof.
  intros Hv Hc Hi Ho. unfold occupied in Ho.
  assert (Hs := Hv _ _ Hi). assert (Hs1 := odd_le_even _ _ Ho Hs).
  assert (Hw : wrap32 (ver s + 1) = ver s + 1) by (apply wrap32_small; lia).
  split; [|split].
  - intros j sj Hj. rewrite (rfs_nth _ _ _ _ Hi) in Hj. destruct (Nat.eqb i j).
    + inversion Hj; subst sj. cbn [ver]. lia.
    + eauto.
  - intros j sj Hj. rewrite (rfs_nth _ _ _ _ Hi). destruct (Nat.eqb_spec i j) as [->|Hn].
    + eexists; split; eauto. cbn [ver]. assert (sj = s) by congruence. subst sj. lia.
    + exists sj; split; auto. lia.
  - rewrite (rfs_nth _ _ _ _ Hi), Nat.eqb_refl. eexists; split; eauto.
Qed.

Lemma drain_from_ind (P : arena -> Prop) :
  (forall a i s, P a -> nth_error (slots a) i = Some s -> occupied s = true -> P (remove_from_slot a i)) ->
  forall n i a, P a -> P (drain_from n i a).
Proof.
  intros HP n. induction n as [|n IH]; intros i a Ha; cbn [drain_from]; auto.
  apply IH. destruct (nth_error (slots a) i) as [s|] eqn:E; auto.
  destruct (occupied s) eqn:Eo; eauto.
Qed.

Lemma drain_from_ok c a0 n i a :
  c < 2147483647 ->
  verbound a c /\ le_arena a0 a /\ length (slots a) = length (slots a0) ->
  verbound (drain_from n i a) c /\ le_arena a0 (drain_from n i a) /\ length (slots (drain_from n i a)) = length (slots a0).
Proof.
  intros Hc. apply (drain_from_ind (fun a => verbound a c /\ le_arena a0 a /\ length (slots a) = length (slots a0))).
  intros b j s [Hv [Hl Hlen]] Hj Ho. destruct (rfs_ok _ _ _ _ Hv Hc Hj Ho) as [Hv' [Hl' _]].
  split; auto. split; [eapply le_arena_trans; eauto|]. rewrite rfs_length; auto.
Qed.

Definition vacant_below (i : nat) (a : arena) : Prop :=
  forall j s, (j < i)%nat -> nth_error (slots a) j = Some s -> occupied s = false.

Lemma drain_from_vacant c n : forall i a,
  c < 2147483647 -> verbound a c -> vacant_below i a -> vacant_below (i + n) (drain_from n i a).
Proof.
  induction n as [|n IH]; intros i a Hc Hv Hq; cbn [drain_from].
  - rewrite Nat.add_0_r. auto.
  - replace (i + S n)%nat with (S i + n)%nat by lia.
    destruct (nth_error (slots a) i) as [s|] eqn:E; [destruct (occupied s) eqn:Eo|].
    + destruct (rfs_ok _ _ _ _ Hv Hc E Eo) as [Hv' [_ [s' [E' Hs']]]].
      apply IH; auto. intros j sj Hj Ej. destruct (Nat.eq_dec j i) as [->|Hn].
      * assert (sj = s') by congruence. subst sj. unfold occupied in *. rewrite Hs'. apply odd_succ_t; auto.
      * rewrite (rfs_nth _ _ _ _ E) in Ej. destruct (Nat.eqb_spec i j); [lia|]. apply (Hq j); auto. lia.
    + apply IH; auto. intros j sj Hj Ej. destruct (Nat.eq_dec j i) as [->|Hn].
      * congruence.
      * apply (Hq j); auto. lia.
    + apply IH; auto. intros j sj Hj Ej. destruct (Nat.eq_dec j i) as [->|Hn].
      * congruence.
      * apply (Hq j); auto. lia.
Qed.

Lemma drain_ok a c :
  c < 2147483647 -> verbound a c ->
  verbound (drain a) c /\ le_arena a (drain a) /\ length (slots (drain a)) = length (slots a) /\
  forall j s, nth_error (slots (drain a)) j = Some s -> occupied s = false.
Proof.
  intros Hc Hv. unfold drain.
  destruct (drain_from_ok c a (length (slots a)) 0 a Hc) as [H1 [H2 H3]].
  { split; auto. split; auto using le_arena_refl. }
  repeat split; auto.
  intros j s Hj. assert (Hq := drain_from_vacant c (length (slots a)) 0 a Hc Hv).
  apply (Hq ltac:(intros ? ? ?; lia) j s); auto. cbn [Nat.add].
  rewrite <- H3. apply nth_error_Some. congruence.
Qed.

(* inserting *)
Lemma insert_ok a c :
  verbound a c ->
  verbound (snd (insert a)) (c + 1) /\ le_arena a (snd (insert a)) /\
  N.odd (snd (fst (insert a))) = true /\
  exists s', nth_error (slots (snd (insert a))) (fst (fst (insert a))) = Some s' /\ ver s' = snd (fst (insert a)).
Proof.
  intros Hv. destruct (nth_error (slots a) (free_head a)) as [s|] eqn:E.
  - destruct (insert_some a s E) as [Hk [Hf Hn]]. rewrite Hk. cbn [fst snd].
    assert (Hs := Hv _ _ E).
    assert (Hlor : ver s <= N.lor (ver s) 1 <= ver s + 1) by (destruct (lor1_cases (ver s)) as [[_ ->]|[_ ->]]; lia).
    split; [|split; [|split]].
    + intros j sj Hj. rewrite Hn in Hj. destruct (Nat.eqb (free_head a) j).
      * inversion Hj; subst sj. cbn [ver]. lia.
      * specialize (Hv _ _ Hj). lia.
    + intros j sj Hj. rewrite Hn. destruct (Nat.eqb_spec (free_head a) j) as [<-|Hne].
      * eexists; split; eauto. cbn [ver]. assert (sj = s) by congruence. subst sj. lia.
      * exists sj; split; auto. lia.
    + apply odd_lor1.
    + rewrite Hn, Nat.eqb_refl. eexists; split; eauto.
  - destruct (insert_none a E) as [Hk [Hf Hn]]. rewrite Hk. cbn [fst snd].
    split; [|split; [|split]].
    + intros j sj Hj. rewrite Hn, nth_snoc in Hj. destruct (Nat.ltb j (length (slots a))).
      * specialize (Hv _ _ Hj). lia.
      * destruct (Nat.eqb j (length (slots a))); [|discriminate]. inversion Hj; subst sj. cbn [ver]. lia.
    + intros j sj Hj. rewrite Hn, nth_snoc. destruct (Nat.ltb_spec j (length (slots a))) as [Hl|Hl].
      * exists sj; split; auto. lia.
      * exfalso. assert (Hx : nth_error (slots a) j <> None) by congruence. apply nth_error_Some in Hx. lia.
    + reflexivity.
    + rewrite Hn, nth_snoc. rewrite Nat.ltb_irrefl, Nat.eqb_refl. eexists; split; eauto.
Qed.

(* ------------------------------------------------------------------ *)
(* the invariant of a history, part 1: versions bounded by twice the number of insertions,
   every key handed out has an odd version not above the current version of its slot *)
Definition keys_ok (a : arena) (ks : list key) : Prop :=
  forall k, In k ks -> N.odd (snd k) = true /\ exists s, nth_error (slots a) (fst k) = Some s /\ snd k <= ver s.

Definition inv1 (st : arena * list key) : Prop :=
  verbound (fst st) (N.of_nat (length (snd st))) /\ keys_ok (fst st) (snd st).

Lemma keys_ok_le a a' ks : keys_ok a ks -> le_arena a a' -> keys_ok a' ks.
Proof.
  intros Hk Hl k Hin. destruct (Hk k Hin) as [Ho [s [Es Ls]]]. split; auto.
  destruct (Hl _ _ Es) as [s' [Es' Ls']]. exists s'. split; auto. lia.
Qed.

Definition dead (a : arena) (k : key) : Prop :=
  exists s, nth_error (slots a) (fst k) = Some s /\ snd k < ver s.

Lemma dead_le a a' k : dead a k -> le_arena a a' -> dead a' k.
Proof. intros [s [Es Ls]] Hl. destruct (Hl _ _ Es) as [s' [Es' Ls']]. exists s'. split; auto. lia. Qed.

Lemma dead_not_contains a k : dead a k -> contains a k = false.
Proof. intros [s [Es Ls]]. unfold contains. rewrite Es. apply N.eqb_neq. lia. Qed.

Lemma remove_ok a k c :
  verbound a c -> c < 2147483647 -> N.odd (snd k) = true ->
  verbound (remove a k) c /\ le_arena a (remove a k) /\
  (forall s, nth_error (slots a) (fst k) = Some s -> snd k <= ver s -> dead (remove a k) k).
Proof.
  intros Hv Hc Ho. unfold remove. destruct (contains a k) eqn:Ec.
  - unfold contains in Ec. destruct (nth_error (slots a) (fst k)) as [s|] eqn:E; [|discriminate].
    apply N.eqb_eq in Ec.
    assert (Hocc : occupied s = true) by (unfold occupied; rewrite Ec; auto).
    destruct (rfs_ok _ _ _ _ Hv Hc E Hocc) as [Hv' [Hl' [s' [Es' Hs']]]].
    repeat split; auto. intros s0 E0 _. exists s'. split; auto. lia.
  - repeat split; auto using le_arena_refl. intros s Es Hl. exists s. split; auto.
    unfold contains in Ec. rewrite Es in Ec. apply N.eqb_neq in Ec. lia.
Qed.

Definition frun (st : arena * list key) (ops : list aop) : arena * list key := fold_left astep ops st.

Definition ins1 (o : aop) : nat := match o with AIns => 1%nat | _ => 0%nat end.

Lemma astep_keys st o : exists l, snd (astep st o) = snd st ++ l /\ length l = ins1 o.
Proof.
  destruct st as [a ks]. destruct o.
  - rewrite astep_ins. cbn [snd]. eexists; split; eauto.
  - exists []. cbn. rewrite app_nil_r. auto.
  - exists []. cbn. rewrite app_nil_r. auto.
Qed.

Lemma n_ins_cons o ops : n_ins (o :: ops) = (ins1 o + n_ins ops)%nat.
Proof. unfold n_ins. destruct o; reflexivity. Qed.

Lemma n_ins_app ops1 ops2 : n_ins (ops1 ++ ops2) = (n_ins ops1 + n_ins ops2)%nat.
Proof. unfold n_ins. rewrite filter_app, app_length. reflexivity. Qed.

Lemma step1 st o :
  inv1 st -> odd_op o -> N.of_nat (length (snd st) + ins1 o) < 2147483647 ->
  inv1 (astep st o) /\ le_arena (fst st) (fst (astep st o)).
Proof.
  destruct st as [a ks]. intros [Hv Hk] Hodd Hb. cbn [fst snd] in *. destruct o as [|k|].
  - rewrite astep_ins. cbn [fst snd ins1] in *.
    destruct (insert_ok a _ Hv) as [Hv' [Hl [Ho [s' [Es' Hs']]]]].
    split; auto. split; cbn [fst snd].
    + rewrite app_length. cbn [length]. replace (N.of_nat (length ks + 1)) with (N.of_nat (length ks) + 1) by lia. auto.
    + intros k Hin. apply in_app_or in Hin. destruct Hin as [Hin|[<-|[]]].
      * apply (keys_ok_le _ _ _ Hk Hl); auto.
      * split; auto. exists s'. split; auto. lia.
  - cbn [astep fst snd ins1] in *.
    destruct (remove_ok a k _ Hv ltac:(lia) Hodd) as [Hv' [Hl _]].
    split; auto. split; cbn [fst snd]; auto. eapply keys_ok_le; eauto.
  - cbn [astep fst snd ins1] in *. unfold reinit_drain.
    destruct (drain_ok a (N.of_nat (length ks)) ltac:(lia) Hv) as [Hv' [Hl _]].
    split; auto. split; cbn [fst snd]; auto. eapply keys_ok_le; eauto.
Qed.

Lemma run1 ops : forall st,
  inv1 st -> odd_rems ops -> N.of_nat (length (snd st) + n_ins ops) < 2147483647 ->
  inv1 (frun st ops) /\ le_arena (fst st) (fst (frun st ops)) /\
  exists l, snd (frun st ops) = snd st ++ l /\ length l = n_ins ops.
Proof.
  induction ops as [|o ops IH]; intros st Hi Hodd Hb.
  - cbn. split; auto. split; auto using le_arena_refl. exists []. rewrite app_nil_r. auto.
  - cbn [frun fold_left]. rewrite n_ins_cons in Hb. inversion Hodd as [|? ? Ho Hodd']; subst.
    destruct (step1 st o Hi Ho ltac:(lia)) as [Hi' Hl'].
    destruct (astep_keys st o) as [l1 [El1 Ll1]].
    destruct (IH (astep st o) Hi' Hodd') as [Hi2 [Hl2 [l2 [El2 Ll2]]]].
    { rewrite El1, app_length. lia. }
    fold (frun (astep st o) ops). split; auto. split; [eapply le_arena_trans; eauto|].
    exists (l1 ++ l2). rewrite El2, El1, app_assoc, app_length, n_ins_cons. split; auto.
Qed.

Lemma inv1_init : inv1 (arena_new, []).
Proof.
  split; cbn [fst snd].
  - intros [|[|i]] s H; cbn in H; inversion H; subst; cbn; lia.
  - intros k [].
Qed.

Lemma arun_frun ops : arun ops = frun (arena_new, []) ops.
Proof. reflexivity. Qed.

Lemma arun_app ops1 ops2 : arun (ops1 ++ ops2) = frun (arun ops1) ops2.
Proof. unfold arun, frun. apply fold_left_app. Qed.

Lemma arun_ok ops :
  bound ops -> odd_rems ops -> inv1 (arun ops) /\ length (snd (arun ops)) = n_ins ops.
Proof.
  intros Hb Ho. destruct (run1 ops (arena_new, []) inv1_init Ho) as [Hi [_ [l [El Ll]]]].
  { cbn [snd length Nat.add]. exact Hb. }
  split; auto. rewrite arun_frun, El. cbn. auto.
Qed.

Lemma odd_rems_app ops1 ops2 : odd_rems (ops1 ++ ops2) -> odd_rems ops1 /\ odd_rems ops2.
Proof. unfold odd_rems. intros H. apply Forall_app in H. auto. Qed.

Lemma bound_app ops1 ops2 : bound (ops1 ++ ops2) -> bound ops1 /\ N.of_nat (n_ins ops1 + n_ins ops2) < 2147483647.
Proof. unfold bound. rewrite n_ins_app. intros H. split; lia. Qed.

(* ------------------------------------------------------------------ *)
(* T1 *)
Theorem T1_monotone ops1 ops2 :
  bound (ops1 ++ ops2) -> odd_rems (ops1 ++ ops2) ->
  let a := fst (arun ops1) in let a' := fst (arun (ops1 ++ ops2)) in
  (length (slots a) <= length (slots a'))%nat /\
  (forall i s, nth_error (slots a) i = Some s -> exists s', nth_error (slots a') i = Some s' /\ ver s <= ver s') /\
  (forall i s, nth_error (slots a') i = Some s -> occupied s = true -> N.odd (ver s) = true) /\
  (forall i s, nth_error (slots a') i = Some s -> ver s <= 2 * N.of_nat (n_ins (ops1 ++ ops2))) /\
  (forall k, In k (snd (arun (ops1 ++ ops2))) ->
     N.odd (snd k) = true /\ exists s, nth_error (slots a') (fst k) = Some s /\ snd k <= ver s).
Proof.
  intros Hb Ho. cbn zeta.
  destruct (bound_app _ _ Hb) as [Hb1 Hb2]. destruct (odd_rems_app _ _ Ho) as [Ho1 Ho2].
  destruct (arun_ok ops1 Hb1 Ho1) as [Hi1 Hlen1].
  destruct (run1 ops2 (arun ops1) Hi1 Ho2) as [Hi2 [Hl2 _]]; [rewrite Hlen1; auto|].
  rewrite arun_app.
  assert (Hle : le_arena (fst (arun ops1)) (fst (frun (arun ops1) ops2))) by exact Hl2.
  split; [apply le_arena_length; auto|]. split; [exact Hle|]. split; [intros i s _ H; exact H|].
  destruct (arun_ok _ Hb Ho) as [[Hv Hk] Hlen]. rewrite arun_app in Hv, Hk, Hlen. rewrite Hlen in Hv.
  split; [exact Hv|exact Hk].
Qed.

(* T2 *)
Theorem removed_never_alive ops1 k ops2 :
  bound (ops1 ++ ARem k :: ops2) -> odd_rems (ops1 ++ ARem k :: ops2) ->
  In k (snd (arun ops1)) ->
  contains (fst (arun (ops1 ++ ARem k :: ops2))) k = false.
Proof.
  intros Hb Ho Hin.
  destruct (bound_app _ _ Hb) as [Hb1 Hb2]. destruct (odd_rems_app _ _ Ho) as [Ho1 Ho2].
  destruct (arun_ok ops1 Hb1 Ho1) as [Hi1 Hlen1].
  rewrite arun_app. cbn [frun fold_left]. fold (frun (astep (arun ops1) (ARem k)) ops2).
  inversion Ho2 as [|? ? Hok Ho3]; subst. rewrite n_ins_cons in Hb2. cbn [ins1 Nat.add] in Hb2.
  destruct (step1 _ (ARem k) Hi1 Hok) as [Hi2 _]; [cbn [ins1]; lia|].
  destruct (arun ops1) as [a ks] eqn:Ea. cbn [fst snd] in *.
  destruct Hi1 as [Hv Hk]. cbn [fst snd] in Hv, Hk.
  destruct (Hk k Hin) as [Hodd [s [Es Ls]]].
  destruct (remove_ok a k _ Hv ltac:(lia) Hodd) as [_ [_ Hdead]].
  specialize (Hdead s Es Ls).
  destruct (run1 ops2 (astep (a, ks) (ARem k)) Hi2 Ho3) as [_ [Hl _]]; [cbn [astep snd]; lia|].
  apply dead_not_contains. eapply dead_le; eauto.
Qed.

(* T3 *)
Theorem drained_never_alive ops1 k ops2 :
  bound (ops1 ++ ADrain :: ops2) -> odd_rems (ops1 ++ ADrain :: ops2) ->
  In k (snd (arun ops1)) ->
  contains (fst (arun (ops1 ++ ADrain :: ops2))) k = false.
Proof.
  intros Hb Ho Hin.
  destruct (bound_app _ _ Hb) as [Hb1 Hb2]. destruct (odd_rems_app _ _ Ho) as [Ho1 Ho2].
  destruct (arun_ok ops1 Hb1 Ho1) as [Hi1 Hlen1].
  rewrite arun_app. cbn [frun fold_left]. fold (frun (astep (arun ops1) ADrain) ops2).
  inversion Ho2 as [|? ? Hok Ho3]; subst. rewrite n_ins_cons in Hb2. cbn [ins1 Nat.add] in Hb2.
  destruct (step1 _ ADrain Hi1 Hok) as [Hi2 _]; [cbn [ins1]; lia|].
  destruct (arun ops1) as [a ks] eqn:Ea. cbn [fst snd] in *.
  destruct Hi1 as [Hv Hk]. cbn [fst snd] in Hv, Hk.
  destruct (Hk k Hin) as [Hodd [s [Es Ls]]].
  destruct (drain_ok a (N.of_nat (length ks)) ltac:(lia) Hv) as [_ [Hl [_ Hvac]]].
  assert (Hdead : dead (drain a) k).
  { destruct (Hl _ _ Es) as [s' [Es' Ls']]. exists s'. split; auto.
    specialize (Hvac _ _ Es'). unfold occupied in Hvac.
    assert (snd k <> ver s') by (intros Heq; rewrite Heq in Hodd; congruence). lia. }
  destruct (run1 ops2 (astep (a, ks) ADrain) Hi2 Ho3) as [_ [Hl2 _]]; [cbn [astep snd]; lia|].
  apply dead_not_contains. eapply dead_le; eauto.
Qed.

(* T6: the old reinit (a new map) resurrects handles *)
Example fresh_arena_resurrects :
  let ops1 := [AIns] in let ops2 := [AIns] in
  In (1%nat, 1) (snd (arun_old ops1)) /\
  contains (fst (arun_old (ops1 ++ ADrain :: ops2))) (1%nat, 1) = true /\
  snd (arun_old (ops1 ++ ADrain :: ops2)) = [(1%nat, 1); (1%nat, 1)].
Proof. vm_compute. auto. Qed.

Theorem drained_never_alive_old_false :
  ~ (forall ops1 k ops2,
       bound (ops1 ++ ADrain :: ops2) -> odd_rems (ops1 ++ ADrain :: ops2) ->
       In k (snd (arun_old ops1)) ->
       contains (fst (arun_old (ops1 ++ ADrain :: ops2))) k = false).
Proof.
  intros H. specialize (H [AIns] (1%nat, 1) [AIns]).
  assert (Hc : contains (fst (arun_old ([AIns] ++ ADrain :: [AIns]))) (1%nat, 1) = true) by (vm_compute; reflexivity).
  rewrite H in Hc; [discriminate| | |].
  - unfold bound. vm_compute. reflexivity.
  - repeat constructor.
  - vm_compute. auto.
Qed.

(* the same history with the current reinit (drain): the old handle stays dead, the new key is (1,3) *)
Example drained_never_alive_ex :
  contains (fst (arun ([AIns] ++ ADrain :: [AIns]))) (1%nat, 1) = false /\
  snd (arun ([AIns] ++ ADrain :: [AIns])) = [(1%nat, 1); (1%nat, 3)].
Proof. vm_compute. auto. Qed.

(* ------------------------------------------------------------------ *)
(* the free list *)
Fixpoint chain (sl : list slot) (h : nat) (l : list nat) : Prop :=
  match l with
  | [] => h = length sl
  | i :: r => h = i /\ exists s, nth_error sl i = Some s /\ occupied s = false /\ chain sl (nxt s) r
  end.

Definition chainInv (a : arena) : Prop := exists l, NoDup l /\ chain (slots a) (free_head a) l.

Lemma chain_frame sl sl' l : forall h,
  length sl' = length sl -> (forall i, In i l -> nth_error sl' i = nth_error sl i) ->
  chain sl h l -> chain sl' h l.
Proof.
  induction l as [|i r IH]; intros h Hlen Hfr Hc; cbn [chain] in *.
  - congruence.
  - destruct Hc as [-> [s [Es [Ho Hc]]]]. split; auto. exists s. split; [rewrite Hfr; cbn; auto|].
    split; auto. apply IH; auto. intros j Hj. apply Hfr. cbn; auto.
Qed.

Lemma chain_vacant sl l : forall h i, chain sl h l -> In i l -> exists s, nth_error sl i = Some s /\ occupied s = false.
Proof.
  induction l as [|j r IH]; intros h i Hc Hin; cbn [chain] in *; [destruct Hin|].
  destruct Hc as [-> [s [Es [Ho Hc]]]]. destruct Hin as [<-|Hin]; eauto.
Qed.

Lemma head_vacant a s : chainInv a -> nth_error (slots a) (free_head a) = Some s -> occupied s = false.
Proof.
  intros [l [_ Hc]] E. destruct l as [|i r]; cbn [chain] in Hc.
  - rewrite Hc in E. assert (Hx : nth_error (slots a) (length (slots a)) <> None) by congruence.
    apply nth_error_Some in Hx. lia.
  - destruct Hc as [Eh [s' [Es' [Ho _]]]]. rewrite <- Eh in Es'. congruence.
Qed.

Lemma rfs_chain a i s c :
  verbound a c -> c < 2147483647 -> chainInv a -> nth_error (slots a) i = Some s -> occupied s = true ->
  chainInv (remove_from_slot a i).
Proof.
  intros Hv Hc [l [Hnd Hch]] Hi Ho.
  assert (Hnin : ~ In i l).
  { intros Hin. destruct (chain_vacant _ _ _ _ Hch Hin) as [s' [Es' Ho']]. congruence. }
  destruct (rfs_ok _ _ _ _ Hv Hc Hi Ho) as [_ [_ [s' [Es' Hs']]]].
  exists (i :: l). split; [constructor; auto|]. cbn [chain].
  split; [eapply rfs_head; eauto|]. exists s'. split; auto. split.
  - unfold occupied in *. rewrite Hs'. apply odd_succ_t; auto.
  - assert (Hn : nxt s' = free_head a).
    { rewrite (rfs_nth _ _ _ _ Hi), Nat.eqb_refl in Es'. inversion Es'. reflexivity. }
    rewrite Hn. apply (chain_frame (slots a)); auto using rfs_length.
    intros j Hj. rewrite (rfs_nth _ _ _ _ Hi). destruct (Nat.eqb_spec i j); [subst; contradiction|auto].
Qed.

Lemma remove_chain a k c :
  verbound a c -> c < 2147483647 -> N.odd (snd k) = true -> chainInv a -> chainInv (remove a k).
Proof.
  intros Hv Hc Ho Hch. unfold remove. destruct (contains a k) eqn:Ec; auto.
  unfold contains in Ec. destruct (nth_error (slots a) (fst k)) as [s|] eqn:E; [|discriminate].
  apply N.eqb_eq in Ec. eapply rfs_chain; eauto. unfold occupied. rewrite Ec. auto.
Qed.

Lemma drain_chain a c : verbound a c -> c < 2147483647 -> chainInv a -> chainInv (drain a).
Proof.
  intros Hv Hc Hch. unfold drain.
  apply (drain_from_ind (fun a => verbound a c /\ chainInv a)); auto.
  intros b i s [Hvb Hcb] Hi Ho. split.
  - apply (rfs_ok _ _ _ _ Hvb Hc Hi Ho).
  - eapply rfs_chain; eauto.
Qed.

Lemma insert_chain a : chainInv a -> chainInv (snd (insert a)).
Proof.
  intros Hch. destruct (nth_error (slots a) (free_head a)) as [s|] eqn:E.
  - destruct (insert_some a s E) as [_ [Hf Hn]]. destruct Hch as [l [Hnd Hc]].
    destruct l as [|i r]; cbn [chain] in Hc.
    + rewrite Hc in E. assert (Hx : nth_error (slots a) (length (slots a)) <> None) by congruence.
      apply nth_error_Some in Hx. lia.
    + destruct Hc as [Eh [s' [Es' [Ho Hc]]]]. rewrite <- Eh in Es'. assert (s' = s) by congruence. subst s'.
      inversion Hnd as [|? ? Hnin Hnd']; subst. exists r. split; auto. rewrite Hf.
      apply (chain_frame (slots a)); auto.
      * unfold insert. rewrite E. cbn [snd slots]. apply set_nth_length.
      * intros j Hj. rewrite Hn. destruct (Nat.eqb_spec (free_head a) j); [subst; contradiction|auto].
  - destruct (insert_none a E) as [_ [Hf Hn]]. exists []. split; [constructor|]. cbn [chain].
    rewrite Hf, Hn, app_length. cbn. lia.
Qed.

(* the key handed out: not alive before, alive afterwards, never handed out before *)
Lemma insert_not_contained a : chainInv a -> contains a (fst (insert a)) = false.
Proof.
  intros Hch. unfold contains. destruct (nth_error (slots a) (free_head a)) as [s|] eqn:E.
  - destruct (insert_some a s E) as [Hk _]. rewrite Hk. cbn [fst snd]. rewrite E.
    assert (Ho := head_vacant a s Hch E). unfold occupied in Ho.
    destruct (lor1_cases (ver s)) as [[H _]|[_ ->]]; [congruence|]. apply N.eqb_neq. lia.
  - destruct (insert_none a E) as [Hk _]. rewrite Hk. cbn [fst snd].
    replace (nth_error (slots a) (length (slots a))) with (@None slot); auto.
    symmetry. apply nth_error_None. lia.
Qed.

Lemma insert_contained a c : verbound a c -> contains (snd (insert a)) (fst (insert a)) = true.
Proof.
  intros Hv. destruct (insert_ok a c Hv) as [_ [_ [_ [s' [Es' Hs']]]]].
  unfold contains. rewrite Es'. apply N.eqb_eq. auto.
Qed.

Lemma insert_fresh a ks : keys_ok a ks -> chainInv a -> ~ In (fst (insert a)) ks.
Proof.
  intros Hk Hch Hin. destruct (Hk _ Hin) as [_ [s0 [Es0 Ls0]]].
  destruct (nth_error (slots a) (free_head a)) as [s|] eqn:E.
  - destruct (insert_some a s E) as [Hk0 _]. rewrite Hk0 in Es0, Ls0. cbn [fst snd] in *.
    assert (s0 = s) by congruence. subst s0.
    assert (Ho := head_vacant a s Hch E). unfold occupied in Ho.
    destruct (lor1_cases (ver s)) as [[H _]|[_ Hl]]; [congruence|]. lia.
  - destruct (insert_none a E) as [Hk0 _]. rewrite Hk0 in Es0. cbn [fst snd] in *.
    assert (Hx : nth_error (slots a) (length (slots a)) <> None) by congruence.
    apply nth_error_Some in Hx. lia.
Qed.

Lemma contains_insert_old a ks k :
  keys_ok a ks -> chainInv a -> In k ks -> contains (snd (insert a)) k = contains a k.
Proof.
  intros Hk Hch Hin. destruct (Hk _ Hin) as [Hodd [s0 [Es0 Ls0]]]. unfold contains.
  destruct (nth_error (slots a) (free_head a)) as [s|] eqn:E.
  - destruct (insert_some a s E) as [_ [_ Hn]]. rewrite Hn.
    destruct (Nat.eqb_spec (free_head a) (fst k)) as [Heq|Hne]; auto.
    rewrite <- Heq, E. rewrite <- Heq in Es0. assert (s0 = s) by congruence. subst s0.
    assert (Ho := head_vacant a s Hch E). unfold occupied in Ho. cbn [ver].
    destruct (lor1_cases (ver s)) as [[H _]|[_ ->]]; [congruence|].
    assert (ver s <> snd k) by (intros Hx; rewrite Hx in Ho; congruence).
    transitivity false; [apply N.eqb_neq; lia|symmetry; apply N.eqb_neq; auto].
  - destruct (insert_none a E) as [_ [_ Hn]]. rewrite Hn, nth_snoc.
    assert (Hx : nth_error (slots a) (fst k) <> None) by congruence.
    apply nth_error_Some in Hx. apply Nat.ltb_lt in Hx. rewrite Hx. reflexivity.
Qed.

Definition key_eqb (k1 k2 : key) : bool := Nat.eqb (fst k1) (fst k2) && N.eqb (snd k1) (snd k2).

Lemma key_eqb_spec k1 k2 : key_eqb k1 k2 = true <-> k1 = k2.
Proof.
  unfold key_eqb. destruct k1 as [i1 v1], k2 as [i2 v2]. cbn [fst snd].
  rewrite andb_true_iff, Nat.eqb_eq, N.eqb_eq. split; [intros [-> ->]; auto|intros H; inversion H; auto].
Qed.

Lemma contains_remove a k1 k c :
  verbound a c -> c < 2147483647 -> N.odd (snd k1) = true -> N.odd (snd k) = true ->
  (contains (remove a k1) k = true <-> contains a k = true /\ k <> k1).
Proof.
  intros Hv Hc Ho1 Ho. unfold remove. destruct (contains a k1) eqn:Ec.
  - unfold contains in Ec. destruct (nth_error (slots a) (fst k1)) as [s|] eqn:E; [|discriminate].
    apply N.eqb_eq in Ec.
    assert (Hocc : occupied s = true) by (unfold occupied; rewrite Ec; auto).
    destruct (rfs_ok _ _ _ _ Hv Hc E Hocc) as [_ [_ [s' [Es' Hs']]]].
    unfold contains at 1. destruct (Nat.eq_dec (fst k1) (fst k)) as [Heq|Hne].
    + rewrite <- Heq, Es'. unfold contains. rewrite <- Heq, E. rewrite !N.eqb_eq. split.
      * intros Hx. exfalso. assert (Hev := odd_succ_t _ Hocc). unfold occupied in Hev.
        rewrite <- Hs', Hx in Hev. congruence.
      * intros [Hx Hn]. exfalso. apply Hn. destruct k, k1; cbn [fst snd] in *; congruence.
    + rewrite (rfs_nth _ _ _ _ E). destruct (Nat.eqb_spec (fst k1) (fst k)); [contradiction|].
      fold (contains a k). split; [intros Hx; split; auto; congruence|tauto].
  - split; [|tauto]. intros Hx. split; auto. congruence.
Qed.

Lemma drain_dead a ks k c :
  verbound a c -> c < 2147483647 -> keys_ok a ks -> In k ks -> dead (drain a) k.
Proof.
  intros Hv Hc Hk Hin. destruct (Hk k Hin) as [Hodd [s [Es Ls]]].
  destruct (drain_ok a c Hc Hv) as [_ [Hl [_ Hvac]]].
  destruct (Hl _ _ Es) as [s' [Es' Ls']]. exists s'. split; auto.
  specialize (Hvac _ _ Es'). unfold occupied in Hvac.
  assert (snd k <> ver s') by (intros Heq; rewrite Heq in Hodd; congruence). lia.
Qed.

Lemma NoDup_snoc {A} (l : list A) x : NoDup l -> ~ In x l -> NoDup (l ++ [x]).
Proof.
  induction l as [|h t IH]; intros Hn Hx; cbn.
  - constructor; auto; constructor.
  - inversion Hn as [|? ? Hh Ht]; subst. constructor.
    + rewrite in_app_iff. intros [H|[H|[]]]; [auto|]. subst. apply Hx. left; auto.
    + apply IH; auto. intros H. apply Hx. right; auto.
Qed.

(* ------------------------------------------------------------------ *)
(* the abstract specification: the list of live keys *)
Definition sstep (p : (arena * list key) * list key) (o : aop) : (arena * list key) * list key :=
  (astep (fst p) o,
   match o with
   | AIns => snd p ++ [fst (insert (fst (fst p)))]      (* the key the arena hands out at this step *)
   | ARem k => filter (fun k' => negb (key_eqb k' k)) (snd p)
   | ADrain => []
   end).
Definition srun (p : (arena * list key) * list key) (ops : list aop) := fold_left sstep ops p.
Definition spec (ops : list aop) : list key := snd (srun ((arena_new, []), []) ops).

Lemma fst_srun ops : forall p, fst (srun p ops) = frun (fst p) ops.
Proof. induction ops as [|o ops IH]; intros p; cbn; auto. unfold srun, frun in IH. rewrite IH. reflexivity. Qed.

(* the invariant, part 2 *)
Definition inv3 (p : (arena * list key) * list key) : Prop :=
  inv1 (fst p) /\ chainInv (fst (fst p)) /\ NoDup (snd (fst p)) /\
  forall k, In k (snd (fst p)) -> (contains (fst (fst p)) k = true <-> In k (snd p)).

Lemma step3 p o :
  inv3 p -> odd_op o -> N.of_nat (length (snd (fst p)) + ins1 o) < 2147483647 -> inv3 (sstep p o).
Proof.
  intros [Hi [Hch [Hnd Href]]] Hodd Hb.
  destruct (step1 _ o Hi Hodd Hb) as [Hi' _].
  destruct p as [[a ks] live]. cbn [fst snd] in *. destruct Hi as [Hv Hk]. cbn [fst snd] in Hv, Hk.
  unfold inv3, sstep. cbn [fst snd]. split; auto. destruct o as [|k1|].
  - rewrite astep_ins. cbn [fst snd ins1] in *.
    assert (Hfr := insert_fresh a ks Hk Hch).
    split; [apply insert_chain; auto|]. split; [apply NoDup_snoc; auto|].
    intros k Hin. rewrite in_app_iff. apply in_app_or in Hin. destruct Hin as [Hin|[<-|[]]].
    + rewrite (contains_insert_old a ks k Hk Hch Hin), (Href k Hin). split; auto.
      intros [H|[H|[]]]; auto. subst. contradiction.
    + rewrite (insert_contained a _ Hv). split; auto. intros _. right. left. auto.
  - cbn [astep fst snd ins1] in *.
    split; [apply (remove_chain a k1 _ Hv); auto; lia|]. split; auto.
    intros k Hin. destruct (Hk k Hin) as [Hok _].
    rewrite (contains_remove a k1 k _ Hv ltac:(lia) Hodd Hok), filter_In, (Href k Hin).
    rewrite negb_true_iff, <- not_true_iff_false, key_eqb_spec. tauto.
  - cbn [astep fst snd ins1] in *. unfold reinit_drain.
    split; [apply (drain_chain a _ Hv); auto; lia|]. split; auto.
    intros k Hin. assert (Hd := drain_dead a ks k _ Hv ltac:(lia) Hk Hin).
    rewrite (dead_not_contains _ _ Hd). cbn. split; [discriminate|tauto].
Qed.

Lemma run3 ops : forall p,
  inv3 p -> odd_rems ops -> N.of_nat (length (snd (fst p)) + n_ins ops) < 2147483647 -> inv3 (srun p ops).
Proof.
  induction ops as [|o ops IH]; intros p Hi Hodd Hb; auto.
  cbn [srun fold_left]. rewrite n_ins_cons in Hb. inversion Hodd as [|? ? Ho Hodd']; subst.
  assert (Hi' := step3 p o Hi Ho ltac:(lia)).
  apply (IH (sstep p o)); auto. cbn [sstep fst].
  destruct (astep_keys (fst p) o) as [l1 [El1 Ll1]]. rewrite El1, app_length. lia.
Qed.

Lemma inv3_init : inv3 ((arena_new, []), []).
Proof.
  split; [apply inv1_init|]. cbn [fst snd]. split; [|split; [constructor|intros k []]].
  exists []. split; [constructor|reflexivity].
Qed.

Lemma srun_ok ops : bound ops -> odd_rems ops -> inv3 (arun ops, spec ops).
Proof.
  intros Hb Ho. assert (H := run3 ops _ inv3_init Ho Hb).
  replace (arun ops, spec ops) with (srun ((arena_new, []), []) ops); auto.
  rewrite (surjective_pairing (srun _ ops)). f_equal. apply fst_srun.
Qed.

(* T4 *)
Theorem keys_fresh ops : bound ops -> odd_rems ops -> NoDup (snd (arun ops)).
Proof. intros Hb Ho. apply (srun_ok ops Hb Ho). Qed.

(* the free-list invariant, and what it gives for the next insertion *)
Theorem free_list_ok ops :
  bound ops -> odd_rems ops ->
  let a := fst (arun ops) in
  (exists l, NoDup l /\ chain (slots a) (free_head a) l) /\
  contains a (fst (insert a)) = false /\
  contains (snd (insert a)) (fst (insert a)) = true /\
  ~ In (fst (insert a)) (snd (arun ops)).
Proof.
  intros Hb Ho. cbn zeta. destruct (srun_ok ops Hb Ho) as [[Hv Hk] [Hch _]]. cbn [fst snd] in *.
  split; auto. split; [apply insert_not_contained; auto|].
  split; [eapply insert_contained; eauto|eapply insert_fresh; eauto].
Qed.

(* T5 *)
Theorem arena_refines_set ops k :
  bound ops -> odd_rems ops -> In k (snd (arun ops)) ->
  (contains (fst (arun ops)) k = true <-> In k (spec ops)).
Proof. intros Hb Ho Hin. destruct (srun_ok ops Hb Ho) as [_ [_ [_ Href]]]. apply (Href k Hin). Qed.

(* ------------------------------------------------------------------ *)
(* non-vacuity: a history that re-uses a slot (insert, insert, remove the first, insert -> key (1,3)) *)
Definition ex_ops : list aop := [AIns; AIns; ARem (1%nat, 1); AIns].

Example ex_hyps : bound ex_ops /\ odd_rems ex_ops.
Proof. split; [unfold bound; vm_compute; reflexivity|repeat constructor]. Qed.

Example ex_run :
  snd (arun ex_ops) = [(1%nat, 1); (2%nat, 1); (1%nat, 3)] /\
  slots (fst (arun ex_ops)) = [ {| ver := 0; nxt := 0 |}; {| ver := 3; nxt := 3 |}; {| ver := 1; nxt := 0 |} ] /\
  free_head (fst (arun ex_ops)) = 3%nat.
Proof. vm_compute. auto. Qed.

(* T1 instance: slot 1 goes from version 1 to version 3 *)
Example ex_T1 :
  bound ([AIns; AIns] ++ [ARem (1%nat, 1); AIns]) /\ odd_rems ([AIns; AIns] ++ [ARem (1%nat, 1); AIns]) /\
  map ver (slots (fst (arun [AIns; AIns]))) = [0; 1; 1] /\
  map ver (slots (fst (arun ([AIns; AIns] ++ [ARem (1%nat, 1); AIns])))) = [0; 3; 1].
Proof. split; [unfold bound; vm_compute; reflexivity|]. split; [repeat constructor|]. vm_compute. auto. Qed.

(* T2 instance: (1,1) is removed, its slot is re-used by (1,3), and (1,1) stays dead while (1,3) is alive *)
Example ex_T2 :
  let ops1 := [AIns; AIns] in let k := (1%nat, 1) in let ops2 := [AIns] in
  bound (ops1 ++ ARem k :: ops2) /\ odd_rems (ops1 ++ ARem k :: ops2) /\ In k (snd (arun ops1)) /\
  contains (fst (arun ops1)) k = true /\
  contains (fst (arun (ops1 ++ ARem k :: ops2))) k = false /\
  contains (fst (arun (ops1 ++ ARem k :: ops2))) (1%nat, 3) = true.
Proof. cbn zeta. split; [unfold bound; vm_compute; reflexivity|]. split; [repeat constructor|]. vm_compute. auto. Qed.

(* T3 instance: two live keys, a drain, two insertions that re-use both slots *)
Example ex_T3 :
  let ops1 := [AIns; AIns] in let ops2 := [AIns; AIns] in
  bound (ops1 ++ ADrain :: ops2) /\ odd_rems (ops1 ++ ADrain :: ops2) /\
  snd (arun (ops1 ++ ADrain :: ops2)) = [(1%nat, 1); (2%nat, 1); (2%nat, 3); (1%nat, 3)] /\
  map (contains (fst (arun ops1))) (snd (arun ops1)) = [true; true] /\
  map (contains (fst (arun (ops1 ++ ADrain :: ops2)))) (snd (arun (ops1 ++ ADrain :: ops2))) = [false; false; true; true].
Proof. cbn zeta. split; [unfold bound; vm_compute; reflexivity|]. split; [repeat constructor|]. vm_compute. auto. Qed.

(* T4 / T5 instance *)
Example ex_T4 : NoDup (snd (arun ex_ops)).
Proof. apply keys_fresh; apply ex_hyps. Qed.

Example ex_T5 :
  spec ex_ops = [(2%nat, 1); (1%nat, 3)] /\
  map (contains (fst (arun ex_ops))) (snd (arun ex_ops)) = [false; true; true].
Proof. vm_compute. auto. Qed.

(* ------------------------------------------------------------------ *)
(* the condition odd_rems is needed: `contains` only compares versions, so on the MODEL a key with an even version
   "is contained" in a vacant slot; removing it makes the slot look occupied while it sits in the free list
   (here twice: nxt of slot 1 points to slot 1), and the same key is handed out twice.
   The crate cannot build such a key: KeyData::new and KeyData::from_ffi force `version | 1`. *)
Example keys_fresh_needs_odd_rems :
  let ops := [AIns; ARem (1%nat, 1); ARem (1%nat, 2); AIns; AIns] in
  bound ops /\ snd (arun ops) = [(1%nat, 1); (1%nat, 3); (1%nat, 3)].
Proof. cbn zeta. split; [unfold bound; vm_compute; reflexivity|vm_compute; reflexivity]. Qed.

Theorem keys_fresh_refuted_without_odd_rems : ~ (forall ops, bound ops -> NoDup (snd (arun ops))).
Proof.
  intros H. specialize (H [AIns; ARem (1%nat, 1); ARem (1%nat, 2); AIns; AIns]).
  assert (Hn : NoDup [(1%nat, 1); (1%nat, 3); (1%nat, 3)]).
  { apply H. unfold bound. vm_compute. reflexivity. }
  inversion Hn as [|? ? _ Hn']; subst. inversion Hn' as [|? ? Hx _]; subst. apply Hx. left. reflexivity.
Qed.

Print Assumptions T1_monotone.
Print Assumptions removed_never_alive.
Print Assumptions drained_never_alive.
Print Assumptions drained_never_alive_old_false.
Print Assumptions keys_fresh.
Print Assumptions free_list_ok.
Print Assumptions arena_refines_set.
Print Assumptions keys_fresh_refuted_without_odd_rems.

(* ------------------------------------------------------------------ *)
(* the full free-list invariant: the chain from free_head is a duplicate-free list of vacant non-sentinel indices
   linked by nxt, ending at `length slots`, and it contains EVERY vacant non-sentinel index; the sentinel stays vacant *)
Definition free_list (a : arena) (l : list nat) : Prop :=
  NoDup l /\ chain (slots a) (free_head a) l /\ ~ In 0%nat l /\
  (exists s0, nth_error (slots a) 0 = Some s0 /\ occupied s0 = false) /\
  (forall j s, j <> 0%nat -> nth_error (slots a) j = Some s -> occupied s = false -> In j l).
Definition freeInv (a : arena) : Prop := exists l, free_list a l.

Lemma rfs_free a i s c :
  verbound a c -> c < 2147483647 -> freeInv a -> nth_error (slots a) i = Some s -> occupied s = true ->
  freeInv (remove_from_slot a i).
Proof.
  intros Hv Hc [l [Hnd [Hch [H0 [[s0 [Es0 Ho0]] Hall]]]]] Hi Ho.
  assert (Hi0 : i <> 0%nat) by (intros ->; congruence).
  assert (Hnin : ~ In i l).
  { intros Hin. destruct (chain_vacant _ _ _ _ Hch Hin) as [s' [Es' Ho']]. congruence. }
  destruct (rfs_ok _ _ _ _ Hv Hc Hi Ho) as [_ [_ [s' [Es' Hs']]]].
  exists (i :: l). split; [constructor; auto|]. split; [|split; [|split]].
  - cbn [chain]. split; [eapply rfs_head; eauto|]. exists s'. split; auto. split.
    + unfold occupied in *. rewrite Hs'. apply odd_succ_t; auto.
    + assert (Hn : nxt s' = free_head a).
      { rewrite (rfs_nth _ _ _ _ Hi), Nat.eqb_refl in Es'. inversion Es'. reflexivity. }
      rewrite Hn. apply (chain_frame (slots a)); auto using rfs_length.
      intros j Hj. rewrite (rfs_nth _ _ _ _ Hi). destruct (Nat.eqb_spec i j); [subst; contradiction|auto].
  - intros [H|H]; auto.
  - exists s0. split; auto. rewrite (rfs_nth _ _ _ _ Hi). destruct (Nat.eqb_spec i 0); [contradiction|auto].
  - intros j sj Hj Ej Hoj. destruct (Nat.eq_dec i j) as [Heq|Hne]; [left; auto|right].
    rewrite (rfs_nth _ _ _ _ Hi) in Ej. destruct (Nat.eqb_spec i j); [contradiction|]. eapply Hall; eauto.
Qed.

Lemma remove_free a k c :
  verbound a c -> c < 2147483647 -> N.odd (snd k) = true -> freeInv a -> freeInv (remove a k).
Proof.
  intros Hv Hc Ho Hch. unfold remove. destruct (contains a k) eqn:Ec; auto.
  unfold contains in Ec. destruct (nth_error (slots a) (fst k)) as [s|] eqn:E; [|discriminate].
  apply N.eqb_eq in Ec. eapply rfs_free; eauto. unfold occupied. rewrite Ec. auto.
Qed.

Lemma drain_free a c : verbound a c -> c < 2147483647 -> freeInv a -> freeInv (drain a).
Proof.
  intros Hv Hc Hch. unfold drain.
  apply (drain_from_ind (fun a => verbound a c /\ freeInv a)); auto.
  intros b i s [Hvb Hcb] Hi Ho. split.
  - apply (rfs_ok _ _ _ _ Hvb Hc Hi Ho).
  - eapply rfs_free; eauto.
Qed.

Lemma insert_free a : freeInv a -> freeInv (snd (insert a)).
Proof.
  intros [l [Hnd [Hc [H0 [[s0 [Es0 Ho0]] Hall]]]]]. destruct (nth_error (slots a) (free_head a)) as [s|] eqn:E.
  - destruct (insert_some a s E) as [_ [Hf Hn]].
    destruct l as [|i r]; cbn [chain] in Hc.
    + rewrite Hc in E. assert (Hx : nth_error (slots a) (length (slots a)) <> None) by congruence.
      apply nth_error_Some in Hx. lia.
    + destruct Hc as [Eh [s' [Es' [Ho Hc]]]]. subst i. assert (s' = s) by congruence. subst s'.
      inversion Hnd as [|? ? Hnin Hnd']; subst. exists r. split; auto. split; [|split; [|split]].
      * rewrite Hf. apply (chain_frame (slots a)); auto.
        -- unfold insert. rewrite E. cbn [snd slots]. apply set_nth_length.
        -- intros j Hj. rewrite Hn. destruct (Nat.eqb_spec (free_head a) j); [subst; contradiction|auto].
      * intros H. apply H0. right. auto.
      * exists s0. split; auto. rewrite Hn. destruct (Nat.eqb_spec (free_head a) 0) as [Heq|]; auto.
        exfalso. apply H0. left. auto.
      * intros j sj Hj Ej Hoj. rewrite Hn in Ej. destruct (Nat.eqb_spec (free_head a) j) as [Heq|Hne].
        -- inversion Ej; subst sj. unfold occupied in Hoj. cbn [ver] in Hoj. rewrite odd_lor1 in Hoj. discriminate.
        -- destruct (Hall j sj Hj Ej Hoj) as [Heq|Hin]; [contradiction|auto].
  - destruct (insert_none a E) as [_ [Hf Hn]].
    assert (Hlen : (0 < length (slots a))%nat) by (apply nth_error_Some; congruence).
    assert (Hl : l = []).
    { destruct l as [|i r]; auto. cbn [chain] in Hc. destruct Hc as [Eh [s' [Es' _]]]. subst i. congruence. }
    subst l. exists []. split; [constructor|]. split; [|split; [|split]]; auto.
    + cbn [chain]. rewrite Hf, Hn, app_length. cbn. lia.
    + exists s0. split; auto. rewrite Hn, nth_snoc. apply Nat.ltb_lt in Hlen. rewrite Hlen. auto.
    + intros j sj Hj Ej Hoj. rewrite Hn, nth_snoc in Ej. destruct (Nat.ltb j (length (slots a))).
      * eapply Hall; eauto.
      * destruct (Nat.eqb j (length (slots a))); [|discriminate]. inversion Ej; subst sj. discriminate.
Qed.

Lemma runF ops : forall st,
  inv1 st -> freeInv (fst st) -> odd_rems ops -> N.of_nat (length (snd st) + n_ins ops) < 2147483647 ->
  freeInv (fst (frun st ops)).
Proof.
  induction ops as [|o ops IH]; intros st Hi Hf Hodd Hb; auto.
  cbn [frun fold_left]. fold (frun (astep st o) ops).
  rewrite n_ins_cons in Hb. inversion Hodd as [|? ? Ho Hodd']; subst.
  destruct (step1 st o Hi Ho ltac:(lia)) as [Hi' _].
  destruct (astep_keys st o) as [l1 [El1 Ll1]].
  apply IH; auto; [|rewrite El1, app_length; lia].
  destruct st as [a ks]. destruct Hi as [Hv _]. cbn [fst snd] in *. destruct o as [|k|].
  - rewrite astep_ins. cbn [fst]. apply insert_free; auto.
  - cbn [astep fst ins1] in *. apply (remove_free a k _ Hv); auto. lia.
  - cbn [astep fst ins1] in *. apply (drain_free a _ Hv); auto. lia.
Qed.

Theorem free_list_complete ops :
  bound ops -> odd_rems ops -> exists l, free_list (fst (arun ops)) l.
Proof.
  intros Hb Ho. apply (runF ops (arena_new, []) inv1_init); auto.
  exists []. split; [constructor|]. split; [reflexivity|]. split; [intros []|]. split.
  - eexists. split; [reflexivity|reflexivity].
  - intros [|[|j]] s Hj Ej; cbn in Ej; try congruence; discriminate.
Qed.

(* instance: after insert x3, remove the 1st and the 3rd, the free chain is 3 -> 1 -> end (= 4) *)
Example ex_free_list :
  let ops := [AIns; AIns; AIns; ARem (1%nat, 1); ARem (3%nat, 1)] in
  bound ops /\ odd_rems ops /\ free_list (fst (arun ops)) [3%nat; 1%nat].
Proof.
  cbn zeta. split; [unfold bound; vm_compute; reflexivity|]. split; [repeat constructor|].
  split; [repeat constructor; cbn; intuition congruence|].
  split; [vm_compute; repeat (split; auto); eexists; repeat (split; auto); eexists; repeat (split; auto)|].
  split; [cbn; intuition congruence|]. split; [eexists; split; reflexivity|].
  intros [|[|[|[|j]]]] s Hj Ej Hoj.
  - congruence.
  - cbn; auto.
  - exfalso. vm_compute in Ej. inversion Ej as [Hs]. rewrite <- Hs in Hoj. discriminate.
  - cbn; auto.
  - exfalso. vm_compute in Ej. destruct j; discriminate.
Qed.

Print Assumptions free_list_complete.
