(* Reactive/Show.v -- scenario runner and canonical output of the reactive model, mirrored
   line by line by harness/reactive-driver. Definitions only. *)
From stdpp Require Import gmap list.
From Coq Require Import ZArith String.
From Syc Require Import Common.Show Reactive.Syntax Reactive.Interp.
Open Scope string_scope.

Definition root_node : node := Node (Some 0%Z) None [] None [] [] [] [] false MNone.
Definition init_state : state :=
  State {[ 0%nat := root_node ]} 1 None (Some 0%nat) [] false ∅ 0 {[ 0%nat := 0%nat ]} [].
Definition root_env : env := [(0%nat, BNode 0)].

Definition show_err (e : err) : string :=
  match e with
  | UserDisposed => "user-disposed"
  | UserUpdating => "user-updating"
  | DupContext => "dup-context"
  | NoContext => "no-context"
  | Cyclic => "cyclic"
  | Runtime k => "RUNTIME"
  | OutOfFuel => "OUT-OF-FUEL"
  | IllFormed => "ILL-FORMED"
  end.
Definition err_site (e : err) : nat := match e with Runtime k => k | _ => 0 end.

Definition show_ev (e : ev) : string :=
  match e with
  | EvRun x => "run " ++ show_nat x
  | EvEnd x => "end " ++ show_nat x
  | EvRead x v t => "read " ++ show_nat x ++ " " ++ show_Z v ++ " " ++ show_bool t
  | EvEff x v => "eff " ++ show_nat x ++ " " ++ show_Z v
  | EvLog v => "log " ++ show_Z v
  | EvCleanup l => "cleanup " ++ show_nat l
  | EvCtx ty v => "ctx " ++ show_nat ty ++ " " ++ match v with Some v => show_Z v | None => "none" end
  | EvBatch b => "batch " ++ show_bool b
  | EvReg l => "reg " ++ show_nat l
  | EvTrack x => "track " ++ show_nat x
  end.

Fixpoint insert_sorted (x : nat) (l : list nat) : list nat :=
  match l with
  | [] => [x]
  | y :: r => if Nat.leb x y then x :: l else y :: insert_sorted x r
  end.
Definition sort_nat (l : list nat) : list nat := fold_right insert_sorted [] l.

Definition name_of (s : state) (id : nat) : option nat :=
  fst <$> List.find (fun p => Nat.eqb (snd p) id) (map_to_list (names s)).

Definition show_deps (s : state) (ids : list nat) : string :=
  let ns := omap (name_of s) ids in
  let unknown := (List.length ids - List.length ns)%nat in
  join "," (List.map show_nat (sort_nat ns) ++ repeat "?" unknown).

Definition show_node (s : state) (x id : nat) : string :=
  match nodes s !! id with
  | None => show_nat x ++ ":0"
  | Some nd =>
      show_nat x ++ ":1:" ++ match n_value nd with Some v => show_Z v | None => "-" end
      ++ ":d=[" ++ show_deps s (n_deps nd) ++ "]:s="
      ++ show_nat (List.length (n_dependents nd)) ++ "/"
      ++ show_nat (List.length (List.filter (fun d => negb (alive d s)) (n_dependents nd)))
      ++ ":" ++ show_bool (n_dirty nd)
  end.

(* number of live nodes reachable from the root node through [children] *)
Fixpoint reach (g : nat) (todo : list nat) (s : state) : nat :=
  match g with
  | O => 0
  | S g' =>
      match todo with
      | [] => 0
      | id :: rest =>
          match nodes s !! id with
          | None => reach g' rest s
          | Some nd => S (reach g' (n_children nd ++ rest) s)
          end
      end
  end.
Definition reachable (s : state) : nat :=
  reach (2 * next s + 2) [0%nat] s.

Definition snapshot (s : state) : string :=
  let ns := sort_nat (List.map fst (map_to_list (names s))) in
  "snap n=" ++ show_nat (size (nodes s)) ++ " r=" ++ show_nat (reachable s) ++ " | "
  ++ join " | " (omap (fun x => (fun id => show_node s x id) <$> (names s !! x)) ns).

Definition clear_log (s : state) : state :=
  State (nodes s) (next s) (tracker s) (current s) (queue s) (batching s) (cells s) (next_cell s) (names s) [].

Fixpoint run_top (fx : bool) (fuel : nat) (en : env) (ss : list stmt) (s : state) : list string :=
  match ss with
  | [] => []
  | st :: rest =>
      match exec1 fx fuel en st s with
      | Ok en1 s1 =>
          (List.map show_ev (rev (log s1)) ++ [snapshot s1]) ++ run_top fx fuel en1 rest (clear_log s1)
      | Err e s1 =>
          List.map show_ev (rev (log s1)) ++ ["panic " ++ show_err e]
      end
  end.

(* one scenario -> one text block; scenarios are separated by a line "==" *)
Definition run_scenario (fx : bool) (fuel : nat) (ss : list stmt) : string :=
  lines (run_top fx fuel root_env ss init_state).
Definition run_scenarios (fx : bool) (fuel : nat) (l : list (list stmt)) : string :=
  join (nl ++ "==" ++ nl) (List.map (run_scenario fx fuel) l).

(* root.rs Root::reinit (RootHandle::dispose): dispose the root node -- user cleanups run -- then replace the
   node table (ids restart), the tracker, the update queue, the batching flag, and create a fresh root node *)
Definition reinit (fx : bool) (fuel : nat) (s : state) : res unit :=
  bind_res (dispose fx fuel 0 s)
           (fun _ s1 => Ok tt (State (nodes init_state) (next init_state) None (current init_state) [] false
                                     (cells s1) (next_cell s1) (names init_state) (log s1))).
