(* Reactive/Isolation.v -- C04 / C11 after the fix of F17: a disposal starts by unsubscribing the node.
   A node that has no dependencies and is not marked dirty stays so through every function of the runtime, and
   [loop] -- the only caller of [run_node_update] -- skips it: while such a node is being disposed (its cleanups
   run, its children are disposed) it is never re-run, whatever the cleanups write. *)
From stdpp Require Import gmap list.
From Coq Require Import ZArith Lia.
From Syc Require Import Reactive.Syntax Reactive.Interp Reactive.Show Reactive.Frame Reactive.NoPanic Reactive.WF.

Definition clean (id : nat) (s : state) : Prop :=
  forall nd, nodes s !! id = Some nd -> n_deps nd = [] /\ n_dirty nd = false.
Definition Jc (id : nat) (s : state) : Prop := (id < next s)%nat /\ clean id s.

(* under WF, a node without dependencies is in nobody's subscriber list *)
Lemma clean_isolated id s : WF s -> clean id s -> forall d dd, nodes s !! d = Some dd -> ~ In id (n_dependents dd).
Proof.
  intros W C d dd Hd Hin. destruct (wf_sym2 _ _ _ _ W _ _ _ Hd Hin) as (nn & Hnn & Hin').
  destruct (C _ Hnn) as [E _]. rewrite E in Hin'. destruct Hin'.
Qed.

Definition kept (id : nat) (s s' : state) : Prop :=
  forall nd', nodes s' !! id = Some nd' ->
    exists nd, nodes s !! id = Some nd /\ (n_deps nd = [] -> n_deps nd' = []) /\ (n_dirty nd' = true -> n_dirty nd = true).

Lemma kept_clean id s s' : kept id s s' -> clean id s -> clean id s'.
Proof.
  intros K C nd' Hn'. destruct (K _ Hn') as (nd & Hn & Kd & Kdi). destruct (C _ Hn) as [E1 E2].
  split; [apply Kd, E1|]. destruct (n_dirty nd') eqn:E; [|reflexivity]. rewrite (Kdi eq_refl) in E2. discriminate.
Qed.

Lemma kept_refl id s : kept id s s.
Proof. intros nd' H. exists nd'. tauto. Qed.

Lemma kept_trans id s1 s2 s3 : kept id s1 s2 -> kept id s2 s3 -> kept id s1 s3.
Proof.
  intros K1 K2 nd3 H3. destruct (K2 _ H3) as (nd2 & H2 & A2 & B2). destruct (K1 _ H2) as (nd1 & H1 & A1 & B1).
  exists nd1. tauto.
Qed.

Lemma kept_nodes id s s' : nodes s' = nodes s -> kept id s s'.
Proof. intros E nd' H. rewrite E in H. exists nd'. tauto. Qed.

Definition mild (f : node -> node) : Prop :=
  forall nd, (n_deps nd = [] -> n_deps (f nd) = []) /\ (n_dirty (f nd) = true -> n_dirty nd = true).

Lemma kept_alter id x f s : mild f -> kept id s (upd x f s).
Proof.
  intros Hf nd' H. cbn in H. destruct (decide (id = x)) as [->|Hne].
  - rewrite lookup_alter in H. destruct (nodes s !! x) as [nd|]; cbn in H; [|discriminate].
    inversion H; subst. exists nd. split; [reflexivity|apply Hf].
  - rewrite lookup_alter_ne in H by congruence. exists nd'. tauto.
Qed.

Lemma kept_foldr id (g : node -> node) l s : mild g -> kept id s (foldr (fun d acc => upd d g acc) s l).
Proof.
  intros Hg. induction l as [|d l IH]; cbn [foldr]; [apply kept_refl|].
  eapply kept_trans; [exact IH|apply kept_alter, Hg].
Qed.

Lemma mild_value v : mild (nd_value v). Proof. intros nd; cbn; tauto. Qed.
Lemma mild_children l : mild (fun n => nd_children (l n) n). Proof. intros nd; cbn; tauto. Qed.
Lemma mild_cleanups l : mild (fun n => nd_cleanups (l n) n). Proof. intros nd; cbn; tauto. Qed.
Lemma mild_context l : mild (fun n => nd_context (l n) n). Proof. intros nd; cbn; tauto. Qed.
Lemma mild_context' l : mild (nd_context l). Proof. intros nd; cbn; tauto. Qed.
Lemma mild_mark k : mild (nd_mark k). Proof. intros nd; cbn; tauto. Qed.
Lemma mild_clear : mild (fun n => nd_children [] (nd_cleanups [] n)). Proof. intros nd; cbn; tauto. Qed.
Lemma mild_take : mild (fun x => nd_cb None (nd_value None x)). Proof. intros nd; cbn; tauto. Qed.
Lemma mild_dependents g : mild (nd_dependents g). Proof. intros nd; cbn; tauto. Qed.
Lemma mild_deps_nil : mild (nd_deps (fun _ => [])). Proof. intros nd; cbn; tauto. Qed.
Lemma mild_deps_remove x : mild (nd_deps (remove_id x)).
Proof. intros nd; cbn. split; [intros ->; reflexivity|tauto]. Qed.

(* ---------------------------------------------------------------------------------- *)
(* the operations *)

Lemma create_empty_kept id s i s1 : WF s -> (id < next s)%nat -> create_empty true s = Ok i s1 -> kept id s s1.
Proof.
  intros W Hlt. unfold create_empty. destruct (current s) as [c|].
  - match goal with |- context [if ?b then _ else _] => destruct b end; intros H; inversion H; subst; clear H.
    + eapply kept_trans; [|apply kept_alter, (mild_children (fun n => n_children n ++ [next s]))].
      intros nd' Hn. cbn in Hn. rewrite lookup_insert_ne in Hn by lia. exists nd'. tauto.
    + apply kept_nodes. reflexivity.
  - intros H; inversion H; subst; clear H.
    intros nd' Hn. cbn in Hn. rewrite lookup_insert_ne in Hn by lia. exists nd'. tauto.
Qed.

Lemma push_dependents_kept id n : forall ts s s1, push_dependents true n ts s = Ok tt s1 -> kept id s s1.
Proof.
  induction ts as [|d r IH]; intros s s1 H; cbn [push_dependents] in H.
  - inversion H; subst. apply kept_refl.
  - destruct (alive d s); [|apply IH, H].
    eapply kept_trans; [apply kept_alter, mild_dependents|apply IH, H].
Qed.

Lemma link_finish_kept id n ts s s7 g : n <> id -> link true n ts s = Ok tt s7 -> kept id s (upd n g s7).
Proof.
  intros Hne H. unfold link in H.
  destruct (push_dependents true n ts s) as [[] s1|e s1] eqn:Hp; cbn [bind_res] in H; [|discriminate].
  pose proof (push_dependents_kept id _ _ _ _ Hp) as K1.
  assert (K7 : kept id s s7).
  { destruct (alive n s1); inversion H; subst; [|exact K1].
    eapply kept_trans; [exact K1|]. intros nd' Hn. cbn in Hn. rewrite lookup_alter_ne in Hn by congruence. exists nd'. tauto. }
  eapply kept_trans; [exact K7|]. intros nd' Hn. cbn in Hn. rewrite lookup_alter_ne in Hn by congruence. exists nd'. tauto.
Qed.

Lemma link_next n ts s s' : link true n ts s = Ok tt s' -> next s' = next s.
Proof.
  unfold link. destruct (push_dependents_spec n ts s) as (s1 & H1 & Hn & _). rewrite H1. cbn [bind_res].
  destruct (alive n s1); intros H; inversion H; subst; cbn; exact Hn.
Qed.

Lemma fold_left_err {A} (step : res unit -> A -> res unit) (Hs : forall e s x, step (Err e s) x = Err e s) l e s :
  fold_left step l (Err e s) = Err e s.
Proof. induction l as [|x l IH]; cbn; [reflexivity|]. rewrite Hs. exact IH. Qed.

Lemma unlink_deps_kept id n : forall L s s2, unlink_deps n L s = Ok tt s2 -> kept id s s2.
Proof.
  unfold unlink_deps. induction L as [|d L IH]; intros s s2 H; cbn [fold_left] in H.
  - inversion H; subst. apply kept_refl.
  - cbn [bind_res] in H. destruct (alive d s).
    + eapply kept_trans; [apply kept_alter, mild_dependents|apply IH, H].
    + rewrite fold_left_err in H; [discriminate|]. intros; reflexivity.
Qed.

Lemma mark_dependents_dirty_clean id n s s' : WF s -> clean id s ->
  mark_dependents_dirty true n s = Ok tt s' -> clean id s'.
Proof.
  intros W C H. unfold mark_dependents_dirty in H. destruct (nodes s !! n) as [nd|] eqn:Hn; inversion H; subst; [|exact C].
  intros nd' Hn'. rewrite nodes_foldr_upd in Hn'.
  pose proof (pmap_foldr_alter (nd_dirty true) (n_dependents nd) (nodes s) nd_dirty_idem id) as P.
  rewrite P in Hn'. destruct (nodes s !! id) as [x|] eqn:Hx; cbn in Hn'; [|discriminate].
  destruct (decide (id ∈ n_dependents nd)) as [Hi|Hi].
  - exfalso. apply elem_of_list_In in Hi. exact (clean_isolated id s W C _ _ Hn Hi).
  - inversion Hn'; subst. apply C. exact Hx.
Qed.

Lemma dispose_tail_kept id d this s :
  kept id s (foldr (fun x acc => upd x (nd_dependents (remove_id d)) acc)
               (foldr (fun x acc => upd x (nd_deps (remove_id d)) acc) (set_nodes (delete d) s) (n_dependents this))
               (n_deps this)).
Proof.
  eapply kept_trans; [|apply kept_foldr, mild_dependents].
  eapply kept_trans; [|apply kept_foldr, mild_deps_remove].
  intros nd' Hn. cbn in Hn. destruct (decide (id = d)) as [->|Hne].
  - rewrite lookup_delete in Hn. discriminate.
  - rewrite lookup_delete_ne in Hn by congruence. exists nd'. tauto.
Qed.

Lemma unsubscribe_kept id x s : kept id s (unsubscribe true x s).
Proof.
  unfold unsubscribe. destruct (nodes s !! x) as [this|]; [|apply kept_refl].
  eapply kept_trans; [apply kept_alter, mild_deps_nil|apply kept_foldr, mild_dependents].
Qed.

Lemma marks_only_kept id s s' : marks_only s s' -> kept id s s'.
Proof.
  intros [_ H] nd' Hn. specialize (H id). rewrite Hn in H. destruct (nodes s !! id) as [nd|]; [|destruct H].
  exists nd. split; [reflexivity|]. unfold mark_eq in H. rewrite H. cbn. tauto.
Qed.

(* ---------------------------------------------------------------------------------- *)
(* the mutual block *)

Definition jres {A} (id : nat) (r : res A) : Prop :=
  match r with Ok _ s' => Jc id s' | Err _ _ => True end.

Lemma Jc_kept id s s' : (next s <= next s')%nat -> kept id s s' -> Jc id s -> Jc id s'.
Proof. intros L K [Hlt C]. split; [lia|eapply kept_clean; eassumption]. Qed.

Lemma good_next {A} s (r : res A) a s' : good s r -> r = Ok a s' -> WF s' /\ (next s <= next s')%nat /\ batching s' = batching s.
Proof. intros G ->. destruct G as (W & [[L _] B]). auto. Qed.

Lemma eval_J id en e s : Jc id s -> jres id (eval en e s).
Proof.
  intros J. pose proof (eval_spec en e s) as H. destruct (eval en e s) as [v s1|]; [|exact I].
  destruct H as (E1 & E2 & _). destruct J as [Hlt C]. split; [rewrite E2; exact Hlt|].
  intros nd Hn. rewrite E1 in Hn. apply C, Hn.
Qed.

Lemma sort_J id g starts : forall a,
  match a with Ok buf s1 => WF s1 /\ Jc id s1 | Err _ _ => True end ->
  match fold_left (sort_step true g) starts a with Ok buf s1 => WF s1 /\ Jc id s1 | Err _ _ => True end.
Proof.
  induction starts as [|st starts IH]; intros a Ha; cbn [fold_left]; [exact Ha|].
  apply IH. unfold sort_step. destruct a as [buf s1|e s1]; cbn [bind_res]; [|exact I].
  destruct Ha as (W1 & J1).
  destruct (dfs g st (s1, buf)) as [[[s2 buf2]|]|] eqn:Hd; try exact I.
  pose proof (dfs_marks_only _ _ _ _ _ _ Hd) as Hm.
  pose proof (WF_marks_only _ _ Hm W1) as W2.
  destruct (marks_only_meq _ _ Hm) as (Hn2 & _).
  assert (J2 : Jc id s2) by (eapply (Jc_kept id s1); [rewrite Hn2; lia|apply marks_only_kept, Hm|exact J1]).
  destruct (mark_dependents_dirty_spec st s2 W2) as (s3 & H3 & Hn3 & _ & _ & W3 & _).
  rewrite H3. cbn [bind_res]. split; [exact W3|]. destruct J2 as [Hlt C2]. split; [rewrite Hn3; exact Hlt|].
  exact (mark_dependents_dirty_clean id st s2 s3 W2 C2 H3).
Qed.

Definition J_at (id : nat) (f : nat) : Prop :=
  (forall en ss s, WF s -> Jc id s -> jres id (exec true f en ss s)) /\
  (forall en st s, WF s -> Jc id s -> jres id (exec1 true f en st s)) /\
  (forall c s, WF s -> Jc id s -> jres id (run_body true f c s)) /\
  (forall en x k b s, WF s -> Jc id s -> jres id (create_computation true f en x k b s)) /\
  (forall i s, WF s -> Jc id s -> jres id (dispose true f i s)) /\
  (forall i s, WF s -> Jc id s -> jres id (dispose_children true f i s)) /\
  (forall cs s, WF s -> Jc id s -> jres id (run_cleanups true f cs s)) /\
  (forall ids s, WF s -> Jc id s -> jres id (dispose_list true f ids s)) /\
  (forall n s nd, WF s -> batching s = false -> nodes s !! n = Some nd -> n_value nd <> None -> n_dirty nd = true ->
     Jc id s -> n <> id /\ jres id (run_node_update true f n s)) /\
  (forall order s, WF s -> batching s = false -> nonbusy s order -> Jc id s -> jres id (loop true f order s)) /\
  (forall starts s, WF s -> batching s = false -> nonbusy s starts -> Jc id s -> jres id (propagate true f starts s)) /\
  (forall i s, WF s -> (i < next s)%nat -> nonbusy s [i] -> Jc id s -> jres id (propagate_updates true f i s)).

(* one sub-call: its result is well-formed (good_all) and keeps the property (induction hypothesis) *)
Lemma j_bind {A B} id s (r : res A) (k : A -> state -> res B) :
  good s r -> jres id r ->
  (forall a s1, r = Ok a s1 -> WF s1 -> frame s s1 -> Jc id s1 -> jres id (k a s1)) -> jres id (bind_res r k).
Proof.
  destruct r as [a s1|e s1]; cbn [bind_res good jres]; [|tauto]. intros [W F] J Hk. apply Hk; auto.
Qed.

Ltac jfin J := exact J.

Theorem J_all id : forall f, J_at id f.
Proof.
  induction f as [|f IH].
  { repeat split; intros; try exact I.
    match goal with H1 : nodes ?s !! ?n = Some ?nd, H2 : n_dirty ?nd = true, J : Jc _ ?s |- _ =>
      intros ->; destruct J as [_ C]; destruct (C _ H1) as [_ E]; congruence end. }
  destruct IH as (Jexec & Jexec1 & Jbody & Jcc & Jdisp & Jdc & Jrc & Jdl & Jrnu & Jloop & Jprop & Jpu).
  destruct (good_all f) as (Gexec & Gexec1 & Gbody & Gcc & Gdisp & Gdc & Grc & Gdl & Grnu & Gloop & Gprop & Gpu).
  unfold J_at. repeat apply conj.
  - (* exec *)
    intros en ss s W J. rewrite exec_S. destruct ss as [|st rest]; [exact J|].
    apply (j_bind id s); [apply Gexec1, W|apply Jexec1; assumption|]. intros en1 s1 _ W1 _ J1. apply Jexec; assumption.
  - (* exec1 *)
    intros en st s W J. rewrite exec1_S. destruct st.
    + (* SSignal *)
      apply (j_bind id s); [apply eval_good, W|apply eval_J, J|]. intros v s1 _ W1 _ J1.
      destruct (create_empty_total s1) as (i & s2 & Hce). rewrite Hce. cbn [bind_res].
      destruct (create_empty_spec _ _ _ W1 Hce) as (Ei & Hn2 & _).
      eapply (Jc_kept id s1); [cbn; lia| |exact J1].
      eapply kept_trans; [eapply create_empty_kept; [exact W1|apply J1|exact Hce]|apply kept_alter, mild_value].
    + apply Jcc; assumption.
    + apply Jcc; assumption.
    + apply Jcc; assumption.
    + (* SScope *)
      destruct (create_empty_total s) as (i & s1 & Hce). rewrite Hce. cbn [bind_res]. cbv zeta.
      destruct (create_empty_spec _ _ _ W Hce) as (Ei & Hn1 & Hq1 & Hb1 & W1 & V1 & Fr1).
      set (s2 := upd i (nd_value (Some 0%Z)) s1).
      assert (W2 : WF s2).
      { unfold WF, s2; cbn. apply WFc_set_value; [exact W1|]. intros nd Hnd _. apply Fr1, Hnd. }
      assert (J2 : Jc id s2).
      { eapply (Jc_kept id s); [unfold s2; cbn; lia| |exact J].
        eapply kept_trans; [eapply create_empty_kept; [exact W|apply J|exact Hce]|apply kept_alter, mild_value]. }
      pose proof (Gexec en ss (set_current (Some i) (register x i s2)) W2) as G3.
      pose proof (Jexec en ss (set_current (Some i) (register x i s2)) W2 J2) as J3.
      destruct (exec true f en ss (set_current (Some i) (register x i s2))) as [en1 s3|er s3]; cbn [bind_res]; [|exact I].
      exact J3.
    + destruct (current s); [exact J|exact I].
    + (* SSet *)
      apply (j_bind id s); [apply eval_good, W|apply eval_J, J|]. intros v s1 _ W1 _ J1.
      destruct (lookup_env x en) as [[i|c]|]; try exact I.
      pose proof (update_silent_good i v s1 W1) as Hu.
      destruct (update_silent i v s1) as [[] s2|er s2] eqn:Eu; cbn [bind_res]; [|exact I].
      destruct Hu as (W2 & F2 & Hlt & Nb).
      assert (J2 : Jc id s2).
      { unfold update_silent in Eu. destruct (nodes s1 !! i) as [nd|]; [|discriminate]. destruct (n_value nd); [|discriminate].
        inversion Eu; subst. eapply (Jc_kept id s1); [cbn; lia|apply kept_alter, mild_value|exact J1]. }
      apply (j_bind id s2); [apply Gpu; assumption|apply Jpu; assumption|]. intros [] s3 _ _ _ J3. exact J3.
    + (* SSetSilent *)
      apply (j_bind id s); [apply eval_good, W|apply eval_J, J|]. intros v s1 _ W1 _ J1.
      destruct (lookup_env x en) as [[i|c]|]; try exact I.
      destruct (update_silent i v s1) as [[] s2|er s2] eqn:Eu; cbn [bind_res]; [|exact I].
      unfold update_silent in Eu. destruct (nodes s1 !! i) as [nd|]; [|discriminate]. destruct (n_value nd); [|discriminate].
      inversion Eu; subst. eapply (Jc_kept id s1); [cbn; lia|apply kept_alter, mild_value|exact J1].
    + (* SDispose *)
      destruct (lookup_env x en) as [[i|c]|]; try exact I.
      apply (j_bind id s); [apply Gdisp, W|apply Jdisp; assumption|]. intros [] s1 _ _ _ J1. exact J1.
    + (* SBatch *)
      cbv zeta. cbn [andb].
      set (s0 := emit (EvBatch true) (set_batching true s)).
      assert (W0 : WF s0) by (unfold WF, s0; cbn; eapply WFc_batch_on, W).
      pose proof (Gexec en ss s0 W0) as G0. pose proof (Jexec en ss s0 W0 J) as J0.
      destruct (exec true f en ss s0) as [en1 s1|er s1]; cbn [bind_res]; [|exact I].
      destruct G0 as (W1 & _).
      destruct (batching s) eqn:Hb; [exact J0|].
      set (s1' := set_queue [] (set_batching false (emit (EvBatch false) s1))).
      assert (W1' : WF s1') by (unfold WF, s1'; cbn; eapply WFc_batch_off, W1).
      assert (Nb : nonbusy s1' (queue s1)).
      { intros q qq Hq Hqq. eapply (wf_queue_val _ _ _ _ W1); eassumption. }
      pose proof (Jprop (queue s1) s1' W1' eq_refl Nb J0) as J2.
      destruct (propagate true f (queue s1) s1') as [[] s2|er s2]; cbn [bind_res]; [exact J2|exact I].
    + cbv zeta. apply (j_bind id s); [apply (Gexec en ss (set_tracker None s) W)|apply (Jexec en ss (set_tracker None s) W J)|].
      intros en1 s1 _ _ _ J1. exact J1.
    + cbv zeta. apply (j_bind id s); [apply (Gexec en ss (set_tracker None s) W)|apply (Jexec en ss (set_tracker None s) W J)|].
      intros en1 s1 _ _ _ J1. exact J1.
    + (* SOnCleanup *)
      destruct (current s) as [c|]; [|exact J].
      destruct (alive c s).
      * eapply (Jc_kept id s); [cbn; lia|apply (kept_alter id c _ (emit (EvReg l) s)), (mild_cleanups (fun n => n_cleanups n ++ [Cleanup l en ss]))|exact J].
      * cbv zeta.
        apply (j_bind id s); [apply (Gexec en ss (emit (EvCleanup l) (set_tracker None (emit (EvReg l) s))) W)
                             |apply (Jexec en ss (emit (EvCleanup l) (set_tracker None (emit (EvReg l) s))) W J)|].
        intros en1 s1 _ _ _ J1. exact J1.
    + (* SProvide *)
      apply (j_bind id s); [apply eval_good, W|apply eval_J, J|]. intros v s1 _ W1 _ J1.
      unfold provide. destruct (current s1) as [c|]; [|exact J1].
      destruct (nodes s1 !! c) as [nd|]; [|exact J1].
      match goal with |- context [if ?b then _ else _] => destruct b end; [exact I|]. cbn [bind_res].
      eapply (Jc_kept id s1); [cbn; lia|apply kept_alter, (mild_context (fun n => n_context n ++ [(ty, v)]))|exact J1].
    + (* SUseCtx *)
      pose proof (try_use_context_st true ty s) as E.
      destruct (try_use_context true ty s) as [r s1|er s1]; cbn [bind_res]; [|exact I]. cbn in E. subst. exact J.
    + destruct (lookup_env x en) as [[i|c]|]; try exact I. cbv zeta.
      apply (j_bind id s); [apply (Gexec en ss (set_current (Some i) s) W)|apply (Jexec en ss (set_current (Some i) s) W J)|].
      intros en1 s1 _ _ _ J1. exact J1.
    + destruct (lookup_env x en) as [[i|c]|]; try exact I. cbn. unfold track. destruct (tracker s); exact J.
    + apply (j_bind id s); [apply eval_good, W|apply eval_J, J|]. intros v s1 _ W1 _ J1.
      apply (j_bind id s1); [apply Gexec, W1|apply Jexec; assumption|]. intros en1 s2 _ _ _ J2. exact J2.
    + apply (j_bind id s); [apply eval_good, W|apply eval_J, J|]. intros v s1 _ W1 _ J1. exact J1.
    + apply (j_bind id s); [apply eval_good, W|apply eval_J, J|]. intros v s1 _ W1 _ J1.
      destruct (lookup_env c en) as [[i|k]|]; try exact I. exact J1.
    + apply (j_bind id s); [apply eval_good, W|apply eval_J, J|]. intros v s1 _ W1 _ J1. exact J1.
  - (* run_body *)
    intros c s W J. rewrite run_body_S. destruct (c_body c) as [on ss ret]. cbv zeta.
    destruct on as [deps|].
    + match goal with |- context [fold_left ?g deps ?a] => destruct (fold_left g deps a) as [s1|] eqn:Ef end; [|exact I].
      destruct (on_track_same _ _ _ _ Ef) as [s0 [E0 Hs]]. inversion E0; subst s0.
      assert (Hs' : same_wf s (set_tracker None s1)) by (eapply same_wf_trans; [|eapply same_wf_trans; [exact Hs|]]; repeat split).
      assert (W1 : WF (set_tracker None s1)) by (eapply same_wf_WF; eassumption).
      assert (J1 : Jc id (set_tracker None s1)).
      { destruct Hs' as (E1 & E2 & _). destruct J as [Hlt C]. split; [rewrite E2; exact Hlt|].
        intros nd Hn. rewrite E1 in Hn. apply C, Hn. }
      apply (j_bind id (set_tracker None s1)); [apply Gexec, W1|apply Jexec; assumption|]. intros en1 s2 _ W2 _ J2.
      apply (j_bind id s2); [apply eval_good, W2|apply eval_J, J2|]. intros v s3 _ _ _ J3.
      destruct (c_kind c); exact J3.
    + apply (j_bind id s); [apply (Gexec (c_env c) ss (emit (EvRun (c_name c)) s) W)
                           |apply (Jexec (c_env c) ss (emit (EvRun (c_name c)) s) W J)|].
      intros en1 s1 _ W1 _ J1.
      apply (j_bind id s1); [apply eval_good, W1|apply eval_J, J1|]. intros v s2 _ _ _ J2.
      destruct (c_kind c); exact J2.
  - (* create_computation *)
    intros en x k b s W J. rewrite create_computation_S.
    destruct (create_empty_total s) as (i & s1 & Hce). rewrite Hce. cbn [bind_res]. cbv zeta.
    destruct (create_empty_spec _ _ _ W Hce) as (Ei & Hn1 & Hq1 & Hb1 & W1 & V1 & Fr1).
    assert (J1 : Jc id s1).
    { eapply (Jc_kept id s); [lia|eapply create_empty_kept; [exact W|apply J|exact Hce]|exact J]. }
    set (B := set_tracker (Some []) (set_current (Some i) (register x i s1))).
    pose proof (Gbody (Clo x k en b) B (W1 : WF B)) as G3.
    pose proof (Jbody (Clo x k en b) B (W1 : WF B) (J1 : Jc id B)) as J3.
    destruct (run_body true f (Clo x k en b) B) as [v s3|er s3]; cbn [bind_res]; [|exact I].
    destruct G3 as (W3 & F3).
    set (s4 := set_current (current (register x i s1)) (set_tracker (tracker (register x i s1)) s3)).
    destruct (alive i s4) eqn:Ha; cbn [andb negb]; [|exact J3].
    assert (Hne : i <> id) by (destruct J as [Hlt _]; lia).
    destruct (link_ok i (match tracker s3 with Some t => t | None => [] end) s4) as (s5 & Hl & Hal).
    rewrite Hl. cbn [bind_res]. rewrite Hal, Ha.
    assert (En : next s5 = next s3) by exact (link_next _ _ _ _ Hl).
    eapply (Jc_kept id s4); [cbn; rewrite En; lia|eapply link_finish_kept; eassumption|exact J3].
  - (* dispose *)
    intros i s W J. rewrite dispose_S.
    destruct (unsubscribe_dispose i s W) as (W0 & Hn0 & _).
    assert (J0 : Jc id (unsubscribe true i s)).
    { eapply (Jc_kept id s); [rewrite Hn0; lia|apply unsubscribe_kept|exact J]. }
    apply (j_bind id (unsubscribe true i s)); [apply Gdc, W0|apply Jdc; assumption|]. intros [] s1 _ W1 _ J1.
    destruct (nodes s1 !! i) as [this|] eqn:Hi; [|exact J1].
    destruct (dispose_finish s1 i this W1 Hi) as (_ & Hn4 & _).
    eapply (Jc_kept id s1); [rewrite Hn4; lia|apply dispose_tail_kept|exact J1].
  - (* dispose_children *)
    intros i s W J. rewrite dispose_children_S. destruct (nodes s !! i) as [nd|] eqn:Hi; [|exact J].
    cbv zeta. set (s1 := upd i (fun n => nd_children [] (nd_cleanups [] n)) s).
    assert (W1 : WF s1) by (unfold WF, s1; cbn; apply WFc_alter_neutral; [apply neutral_clear|exact W]).
    assert (J1 : Jc id s1) by (eapply (Jc_kept id s); [cbn; lia|apply kept_alter, mild_clear|exact J]).
    apply (j_bind id (set_tracker None s1)); [apply (Grc (n_cleanups nd) (set_tracker None s1) W1)|apply (Jrc (n_cleanups nd) (set_tracker None s1) W1 J1)|]. intros [] s2 _ W2 _ J2.
    apply (j_bind id (set_tracker (tracker s1) s2)); [apply (Gdl (n_children nd) (set_tracker (tracker s1) s2) W2)|apply (Jdl (n_children nd) (set_tracker (tracker s1) s2) W2 J2)|]. intros [] s4 _ W4 _ J4.
    destruct (nodes s4 !! i) as [nd'|]; [|exact J4].
    match goal with |- context [if ?b then _ else _] => destruct b end; [apply Jdc; assumption|].
    eapply (Jc_kept id s4); [cbn; lia|apply kept_alter, mild_context'|exact J4].
  - (* run_cleanups *)
    intros cs s W J. rewrite run_cleanups_S. destruct cs as [|c r]; [exact J|].
    apply (j_bind id (emit (EvCleanup (cl_label c)) s)); [apply (Gexec (cl_env c) (cl_ss c) (emit (EvCleanup (cl_label c)) s) W)|apply (Jexec (cl_env c) (cl_ss c) (emit (EvCleanup (cl_label c)) s) W J)|].
    intros en1 s1 _ W1 _ J1. apply Jrc; assumption.
  - (* dispose_list *)
    intros ids s W J. rewrite dispose_list_S. destruct ids as [|i r]; [exact J|].
    apply (j_bind id s); [apply Gdisp, W|apply Jdisp; assumption|]. intros [] s1 _ W1 _ J1. apply Jdl; assumption.
  - (* run_node_update *)
    intros n s nd W Hb Hn Hv Hdirty J.
    assert (Hne : n <> id).
    { intros ->. destruct J as [_ C]. destruct (C _ Hn) as [_ E]. congruence. }
    split; [exact Hne|].
    rewrite run_node_update_S, Hn. cbv zeta.
    destruct (unsubscribe_run s n nd W Hn) as (s2 & H2 & Hn2 & Hq2 & Hb2 & W2 & V2 & (nd2 & Hnd2 & Hd2 & Ev2 & Ec2 & Edi2)).
    rewrite H2. cbn [bind_res].
    assert (J2 : Jc id s2).
    { eapply (Jc_kept id s); [rewrite Hn2; lia| |exact J].
      eapply kept_trans; [apply (kept_alter id n (nd_deps (fun _ => [])) s), mild_deps_nil|eapply unlink_deps_kept, H2]. }
    destruct (n_cb nd) as [c|] eqn:Hcb; [|exact I].
    destruct (n_value nd) as [old|] eqn:Hval; [|exact I].
    set (s3 := upd n (fun x => nd_cb None (nd_value None x)) s2).
    assert (Hq3 : queue s2 = []) by (rewrite Hq2; apply (wf_qb _ _ _ _ W), Hb).
    assert (W3 : WF s3).
    { unfold WF, s3; cbn. rewrite Hq3. eapply WFc_take; [|exact Hnd2|exact Hd2]. rewrite <- Hq3. exact W2. }
    assert (J3 : Jc id s3) by (eapply (Jc_kept id s2); [cbn; lia|apply kept_alter, mild_take|exact J2]).
    pose proof (Gdc n s3 W3) as G4. pose proof (Jdc n s3 W3 J3) as J4.
    destruct (dispose_children true f n s3) as [[] s4|er s4]; cbn [bind_res]; [|exact I].
    destruct G4 as (W4 & F4).
    destruct (alive n s4) eqn:Ha4; cbn [andb negb]; [|exact J4].
    set (B := set_tracker (Some []) (set_current (Some n) s4)).
    pose proof (Gbody c B (W4 : WF B)) as G5. pose proof (Jbody c B (W4 : WF B) (J4 : Jc id B)) as J5.
    destruct (run_body true f c B) as [new s5|er s5]; cbn [bind_res]; [|exact I].
    destruct G5 as (W5 & F5).
    set (s6 := set_current (current s4) (set_tracker (tracker s4) s5)).
    destruct (alive n s6) eqn:Ha; cbn [andb negb]; [|exact J5].
    destruct (link_ok n (match tracker s5 with Some t => t | None => [] end) s6) as (s7 & Hl & Hal).
    rewrite Hl. cbn [bind_res]. rewrite Hal, Ha.
    set (changed := negb (eqk (c_kind c) new old)).
    set (value := if changed then match c_kind c with KEffect => 0%Z | _ => new end else old).
    set (g := fun x => nd_dirty false (nd_cb (Some c) (nd_value (Some value) x))).
    assert (J8 : Jc id (upd n g s7)).
    { assert (En : next s7 = next s5) by exact (link_next _ _ _ _ Hl).
      eapply (Jc_kept id s6); [cbn; rewrite En; lia|eapply link_finish_kept; eassumption|exact J5]. }
    destruct changed; [|exact J8].
    (* the state before mark_dependents_dirty is well-formed: replay link_finish *)
    apply alive_true in Ha as [nd6 Hnd6].
    assert (Hbusy : n_value nd6 = None).
    { assert (F36 : frame s3 s6) by (eapply frame_trans; [exact F4|exact F5]).
      destruct F36 as [[_ Fn] _]. destruct (Fn n nd6 Hnd6) as [Fa _].
      assert (Hnd3 : exists nd3, nodes s3 !! n = Some nd3 /\ n_value nd3 = None).
      { unfold s3; cbn. rewrite lookup_alter, Hnd2. cbn. eauto. }
      assert (Hlt : (n < next s3)%nat) by (apply (wf_dom _ _ _ _ W3); destruct Hnd3 as (? & ? & _); eauto).
      destruct (Fa Hlt) as (nd3' & Hnd3' & E). destruct Hnd3 as (nd3 & Hnd3 & Hv3).
      rewrite Hnd3 in Hnd3'. inversion Hnd3'; subst. apply E, Hv3. }
    destruct (link_finish s6 n nd6 (match tracker s5 with Some t => t | None => [] end) g (W5 : WF s6) Hnd6 Hbusy
                (finisher_update _ _)) as (s7' & Hl' & _ & _ & _ & W8 & _).
    rewrite Hl in Hl'. inversion Hl'; subst s7'.
    destruct (mark_dependents_dirty_spec n (upd n g s7) W8) as (s9 & H9 & Hn9 & _).
    rewrite H9. destruct J8 as [Hlt8 C8]. split; [rewrite Hn9; exact Hlt8|].
    exact (mark_dependents_dirty_clean id n (upd n g s7) s9 W8 C8 H9).
  - (* loop *)
    intros order s W Hb Nb J. rewrite loop_S. destruct order as [|n rest]; [exact J|].
    assert (Nb' : nonbusy s rest) by (intros y yy Hy; apply Nb; right; exact Hy).
    destruct (nodes s !! n) as [nd|] eqn:Hn; [|apply Jloop; assumption]. cbv zeta.
    set (s1 := upd n (nd_mark MNone) s).
    assert (W1 : WF s1) by (unfold WF, s1; cbn; apply WFc_alter_neutral; [apply neutral_mark|exact W]).
    assert (F1 : frame s s1).
    { split; [|reflexivity]. unfold s1; cbn. apply framec_alter_vsame; [|apply (wf_dom _ _ _ _ W)]. intros y _. cbn. tauto. }
    assert (Nb1 : nonbusy s1 rest) by (eapply nonbusy_frame; eassumption).
    assert (J1 : Jc id s1) by (eapply (Jc_kept id s); [cbn; lia|apply kept_alter, mild_mark|exact J]).
    destruct (n_dirty nd) eqn:Hdirty; [|apply Jloop; assumption].
    assert (Hn1 : nodes s1 !! n = Some (nd_mark MNone nd)) by (unfold s1; cbn; rewrite lookup_alter, Hn; reflexivity).
    assert (Hv1 : n_value (nd_mark MNone nd) <> None) by (cbn; eapply Nb; [left; reflexivity|exact Hn]).
    pose proof (Grnu n s1 _ W1 Hb Hn1 Hv1 Hdirty) as G2.
    destruct (Jrnu n s1 _ W1 Hb Hn1 Hv1 Hdirty J1) as [_ J2].
    destruct (run_node_update true f n s1) as [[] s2|er s2]; cbn [bind_res]; [|exact I].
    destruct G2 as (W2 & F2). apply Jloop; [exact W2| |eapply nonbusy_frame; eassumption|exact J2].
    destruct F2 as [_ B2]. rewrite B2. exact Hb.
  - (* propagate *)
    intros starts s W Hb Nb J. rewrite propagate_S. cbv zeta.
    pose proof (sort_good (S (size (nodes s))) s starts (Ok [] s)) as Gs.
    pose proof (sort_J id (S (size (nodes s))) starts (Ok [] s) (conj W J)) as Js.
    change (fold_left _ starts (Ok [] s)) with (fold_left (sort_step true (S (size (nodes s)))) starts (Ok [] s)).
    destruct (fold_left (sort_step true (S (size (nodes s)))) starts (Ok [] s)) as [buf s1|er s1]; cbn [bind_res]; [|exact I].
    destruct Gs as (W1 & F1 & Nb1).
    { split; [exact W|]. split; [apply frame_refl, W|]. intros y yy []. }
    { intros buf0 s0 E. inversion E; subst. exact Nb. }
    destruct Js as (_ & J1).
    apply Jloop; [exact W1| | |exact J1].
    + destruct F1 as [_ B1]. rewrite B1. exact Hb.
    + intros y yy Hy. apply Nb1. apply in_rev. exact Hy.
  - (* propagate_updates *)
    intros i s W Hlt Nb J. rewrite propagate_updates_S. destruct (batching s) eqn:Hb; [exact J|].
    apply Jprop; assumption.
Qed.

(* ---------------------------------------------------------------------------------- *)
(* main statements *)

(* [loop] is the only caller of [run_node_update], and it skips a clean node *)
Theorem loop_skips_clean : forall id f rest s, clean id s ->
  loop true (S f) (id :: rest) s =
  match nodes s !! id with
  | None => loop true f rest s
  | Some _ => loop true f rest (upd id (nd_mark MNone) s)
  end.
Proof.
  intros id f rest s C. rewrite loop_S. destruct (nodes s !! id) as [nd|] eqn:Hn; [|reflexivity].
  cbv zeta. destruct (C _ Hn) as [_ ->]. reflexivity.
Qed.

(* the invariant holds for every program run *)
Theorem clean_preserved : forall id f en ss s en' s', WF s -> Jc id s ->
  exec true f en ss s = Ok en' s' -> Jc id s'.
Proof.
  intros id f en ss s en' s' W J H. pose proof (proj1 (J_all id f) en ss s W J) as R. rewrite H in R. exact R.
Qed.

(* a disposal: after the unsubscription the node is clean (if it was not marked dirty), it stays so while its
   cleanups run and its children are disposed, so it is never scheduled; at the end it still has no dependencies:
   the second unlinking in [dispose] has nothing left to do *)
Theorem disposed_node_stays_clean : forall f id s nd s1, WF s ->
  nodes s !! id = Some nd -> n_dirty nd = false ->
  dispose_children true f id (unsubscribe true id s) = Ok tt s1 ->
  Jc id (unsubscribe true id s) /\ Jc id s1 /\
  (forall this, nodes s1 !! id = Some this -> n_deps this = []).
Proof.
  intros f id s nd s1 W Hn Hd H.
  destruct (unsubscribe_dispose id s W) as (W0 & Hn0 & _ & _ & V0 & _ & Hk).
  assert (J0 : Jc id (unsubscribe true id s)).
  { split; [rewrite Hn0; apply (wf_dom _ _ _ _ W); eauto|].
    intros nd0 Hnd0. destruct (Hk nd Hn) as (nd0' & Hnd0' & Hdeps & _). rewrite Hnd0 in Hnd0'. inversion Hnd0'; subst.
    split; [exact Hdeps|].
    destruct (unsubscribe_kept id id s nd0' Hnd0) as (nd' & Hn' & _ & Kd). rewrite Hn in Hn'. inversion Hn'; subst.
    destruct (n_dirty nd0') eqn:E; [|reflexivity]. rewrite (Kd eq_refl) in Hd. discriminate. }
  destruct (J_all id f) as (_&_&_&_&_&Jdc&_). specialize (Jdc id _ W0 J0). rewrite H in Jdc.
  split; [exact J0|]. split; [exact Jdc|]. intros this Ht. apply Jdc, Ht.
Qed.

Print Assumptions clean_preserved.
Print Assumptions disposed_node_stays_clean.

(* ---------------------------------------------------------------------------------- *)
(* example (the scenario of F17): the cleanup of an effect writes the signal the effect reads *)

Open Scope Z_scope.

Definition count_run (x : nat) (l : list ev) : nat :=
  length (List.filter (fun e => match e with EvRun y => Nat.eqb x y | _ => false end) l).

Definition f17_prog : list stmt :=
  [SSignal 1 (Lit 0);
   SScope 2 [SEffect 3 (Body None [SOnCleanup 1 [SSet 1 (Add (GetU 1) (Lit 1))]; SSignal 4 (Lit 0)] (Get 1))];
   SDispose 2].
Example f17_not_rerun :
  match exec true 400 root_env f17_prog init_state with
  | Ok _ s => count_run 3 (log s) = 1%nat        (* only the creation run *)
              /\ size (nodes s) = 2%nat /\ reachable s = 2%nat   (* nothing leaked *)
  | Err _ _ => False
  end.
Proof. vm_compute. repeat split; reflexivity. Qed.

(* the hypothesis [n_dirty nd = false] of [disposed_node_stays_clean] cannot be dropped in the model: a memo left
   dirty by finding F1 (late subscription) whose cleanup writes the memo's OWN node is re-run during its disposal
   (the write makes it a start node of a propagation, and it is dirty).  The scenario language allows the write;
   the Rust API does not (a memo handle is a ReadSignal), and signals are never dirty (WF), so for the real
   code the hypothesis only excludes nothing. *)
Definition dirty_prog : list stmt :=
  [SCellNew 9 (Lit 0); SSignal 1 (Lit 0);
   SMemo 2 (Body None [] (Mul (Lit 2) (Get 1)));
   SMemo 3 (Body None [SCurScope 4; SOnCleanup 1 [SIf (CellGet 9) [SSet 4 (Lit 7)] []]]
                 (Ite (Lt (Lit 0) (Get 1)) (Get 2) (Lit 0)));
   SSet 1 (Lit 1); SCellSet 9 (Lit 1)].
Example clean_hypothesis_needed :
  match exec true 400 root_env dirty_prog init_state with
  | Ok en s =>
      (n_dirty <$> nodes s !! 3%nat) = Some true /\
      match exec1 true 400 en (SDispose 3) (clear_log s) with
      | Ok _ s' => count_run 3 (log s') = 1%nat      (* run once more, while being disposed *)
      | Err _ _ => False
      end
  | Err _ _ => False
  end.
Proof. vm_compute. split; reflexivity. Qed.
