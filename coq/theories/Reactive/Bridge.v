(* Reactive/Bridge.v -- executable bridge between the full runtime model (Reactive/Interp.v) and the
   pure-callback propagation model (ReactivePure) on which C01-C03 are proved: for a program whose
   computations have pure expression bodies, the state before a write is translated to the pure model,
   both models propagate the write (the pure one once along the order computed by the runtime model's dfs, and
   once as a whole with its own depth-first pass, ReactivePure/Dfs.v: the schedules must coincide),
   and the resulting values, dependency lists, subscriber lists and dirty flags are compared.
   The comparison is evaluated by every run of the C01/C02/C03 checks on their scenario families;
   it is a model-to-model correspondence, not a theorem. Definitions only. *)
From stdpp Require Import gmap list.
From Coq Require Import ZArith String.
From Syc Require Import Reactive.Syntax Reactive.Interp Reactive.Show.
Require Syc.ReactivePure.Pure Syc.ReactivePure.Loop Syc.ReactivePure.Dfs.
Module PP := Syc.ReactivePure.Pure.
Module PL := Syc.ReactivePure.Loop.
Module PD := Syc.ReactivePure.Dfs.
Open Scope Z_scope.

Fixpoint tr_expr (en : env) (e : expr) : option PP.expr :=
  match e with
  | Lit z => Some (PP.Lit z)
  | Get x => match lookup_env x en with Some (BNode id) => Some (PP.Get true id) | _ => None end
  | GetU x => match lookup_env x en with Some (BNode id) => Some (PP.Get false id) | _ => None end
  | Add a b => a' ← tr_expr en a; b' ← tr_expr en b; Some (PP.Bin Z.add a' b')
  | Sub a b => a' ← tr_expr en a; b' ← tr_expr en b; Some (PP.Bin Z.sub a' b')
  | Mul a b => a' ← tr_expr en a; b' ← tr_expr en b; Some (PP.Bin Z.mul a' b')
  | Lt a b => a' ← tr_expr en a; b' ← tr_expr en b; Some (PP.Bin (fun x y => b2z (x <? y)) a' b')
  | Eq a b => a' ← tr_expr en a; b' ← tr_expr en b; Some (PP.Bin (fun x y => b2z (x =? y)) a' b')
  | Mod a k => a' ← tr_expr en a; Some (PP.Bin (fun x _ => x mod k) a' (PP.Lit 0))
  | Ite c a b => c' ← tr_expr en c; a' ← tr_expr en a; b' ← tr_expr en b; Some (PP.Ite c' a' b')
  | Alive _ | CellGet _ => None
  end.

Definition tr_mark (m : mark) : PL.mark :=
  match m with MNone => PL.MNone | MTemp => PL.MTemp | MPerm => PL.MPerm end.

Definition tr_node (nd : node) : option PL.node :=
  v ← n_value nd;
  cb ← match n_cb nd with
       | None => Some None
       | Some (Clo _ k en (Body None [] ret)) =>
           e ← tr_expr en ret;
           Some (Some (e, match k with KSel k => PL.KSel k | _ => PL.KMemo end))
       | Some _ => None
       end;
  Some (PL.Node v cb (n_dependents nd) (n_deps nd) (n_dirty nd) (tr_mark (n_mark nd))).

Definition to_pure (s : state) : option (gmap nat PL.node) :=
  foldr (fun '(id, nd) acc => m ← acc; p ← tr_node nd; Some (<[id := p]> m)) (Some ∅) (map_to_list (nodes s)).

Definition is_effect (nd : node) : bool :=
  match n_cb nd with Some (Clo _ KEffect _ _) => true | _ => false end.

Definition same_at (s : state) (p : gmap nat PL.node) (id : nat) : bool :=
  match nodes s !! id, p !! id with
  | None, None => true
  | Some nd, Some pn =>
      (is_effect nd || bool_decide (n_value nd = Some (PL.val pn)))
      && bool_decide (n_deps nd = PL.deps pn) && bool_decide (n_dependents nd = PL.dependents pn)
      && Bool.eqb (n_dirty nd) (PL.dirty pn)
  | _, _ => false
  end.

Inductive verdict := Agree | Differ | NotApplicable.

(* propagate the write [x := v] in both models from state [s] and compare the results *)
Definition bridge_step (fuel : nat) (s : state) (x : nat) (v : Z) : verdict :=
  match names s !! x with
  | None => NotApplicable
  | Some id =>
      match update_silent id v s with
      | Ok _ s1 =>
          match dfs (S (size (nodes s1))) id (s1, []) with
          | Some (Some (s2, buf)) =>
              match mark_dependents_dirty true id s2 with
              | Ok _ s3 =>
                  match loop true fuel (rev buf) s3, to_pure s3 with
                  | Ok _ s4, Some p3 =>
                      match PL.loop (rev buf) p3 with
                      | Some (p4, _) =>
                          (* the whole write in the pure model (its own depth-first pass): same schedule, same result *)
                          let whole :=
                            match to_pure s1 with
                            | Some p1 =>
                                match PD.propagate [id] p1 with
                                | PD.POk p5 order _ => bool_decide (order = rev buf) && forallb (same_at s4 p5) (seq 0 (next s4))
                                | PD.PErr _ => false
                                end
                            | None => false
                            end in
                          if forallb (same_at s4 p4) (seq 0 (next s4)) && whole then Agree else Differ
                      | None => Differ
                      end
                  | _, _ => NotApplicable
                  end
              | _ => NotApplicable
              end
          | _ => NotApplicable
          end
      | _ => NotApplicable
      end
  end.

(* run the program up to its last statement, which must be a write of a literal, then compare *)
Definition bridge_scenario (fuel : nat) (ss : list stmt) : verdict :=
  match rev ss with
  | SSet x (Lit v) :: pre =>
      match exec true fuel root_env (rev pre) init_state with
      | Ok _ s => bridge_step fuel s x v
      | Err _ _ => NotApplicable
      end
  | _ => NotApplicable
  end.

Definition show_verdict (v : verdict) : string :=
  match v with Agree => "A"%string | Differ => "D"%string | NotApplicable => "N"%string end.
Definition bridge_run (fuel : nat) (l : list (list stmt)) : string :=
  Common.Show.join ""%string (List.map (fun ss => show_verdict (bridge_scenario fuel ss)) l).
