(* Reactive/DisposeFacts.v -- C04 / C11, part D: what a disposal leaves behind (fx = true). *)
From stdpp Require Import gmap list.
From Coq Require Import ZArith Lia.
From Syc Require Import Reactive.Syntax Reactive.Interp Reactive.Show Reactive.Frame Reactive.NoPanic Reactive.WF Reactive.Own.

(* ---------------------------------------------------------------------------------- *)
(* D1: the disposed node is gone (any state, no invariant needed) *)

Theorem dispose_not_alive : forall f id s s', dispose true f id s = Ok tt s' -> nodes s' !! id = None.
Proof. exact dispose_dead. Qed.

(* D2: no live node lists the disposed node as a dependency or as a subscriber *)
Theorem dispose_no_edges : forall f id s s', WF s -> dispose true f id s = Ok tt s' ->
  forall x xx, nodes s' !! x = Some xx -> ~ In id (n_deps xx) /\ ~ In id (n_dependents xx).
Proof.
  intros f id s s' W H x xx Hx. pose proof (dispose_not_alive _ _ _ _ H) as Hdead.
  pose proof (WF_dispose _ _ _ _ W H) as W'. split; intros Hin.
  - destruct (wf_sym1 _ _ _ _ W' _ _ _ Hx Hin) as (dd & Hdd & _). congruence.
  - destruct (wf_sym2 _ _ _ _ W' _ _ _ Hx Hin) as (dd & Hdd & _). congruence.
Qed.

(* D3: nothing is resurrected: a node alive afterwards was alive before with the same "being updated" status, or
   was created during the disposal (by a cleanup callback) and is complete *)
Theorem dispose_frame : forall f id s s', WF s -> dispose true f id s = Ok tt s' ->
  (next s <= next s')%nat /\ batching s' = batching s /\
  forall x xx', nodes s' !! x = Some xx' ->
    ((x < next s)%nat -> exists xx, nodes s !! x = Some xx /\ (n_value xx = None <-> n_value xx' = None)) /\
    ((next s <= x)%nat -> n_value xx' <> None).
Proof.
  intros f id s s' W H. destruct (good_all f) as (_&_&_&_&Hd&_). specialize (Hd id s W). rewrite H in Hd.
  destruct Hd as (_ & [[L F] B]). split; [exact L|]. split; [exact B|exact F].
Qed.

Corollary dispose_alive_before : forall f id s s', WF s -> dispose true f id s = Ok tt s' ->
  forall x, is_Some (nodes s' !! x) -> is_Some (nodes s !! x) \/ (next s <= x < next s')%nat.
Proof.
  intros f id s s' W H x [xx' Hx]. destruct (dispose_frame _ _ _ _ W H) as (L & _ & F).
  destruct (F x xx' Hx) as [Fa _]. destruct (Nat.lt_ge_cases x (next s)) as [Hlt|Hge].
  - left. destruct (Fa Hlt) as (xx & Hxx & _). eauto.
  - right. split; [exact Hge|]. apply (wf_dom _ _ _ _ (WF_dispose _ _ _ _ W H)). eauto.
Qed.

(* the same frame for any program *)
Theorem exec_frame : forall f en ss s en' s', WF s -> exec true f en ss s = Ok en' s' ->
  (next s <= next s')%nat /\ batching s' = batching s /\
  forall x xx', nodes s' !! x = Some xx' ->
    ((x < next s)%nat -> exists xx, nodes s !! x = Some xx /\ (n_value xx = None <-> n_value xx' = None)) /\
    ((next s <= x)%nat -> n_value xx' <> None).
Proof.
  intros f en ss s en' s' W H. pose proof (proj1 (good_all f) en ss s W) as G. rewrite H in G.
  destruct G as (_ & [[L F] B]). split; [exact L|]. split; [exact B|exact F].
Qed.

(* ---------------------------------------------------------------------------------- *)
(* D4: the cleanups registered on the node when the disposal starts are all emitted, in registration order *)

Definition ev_of (c : cleanup) : ev := EvCleanup (cl_label c).

Lemma lext_exec f en ss s en' s' : exec true f en ss s = Ok en' s' -> exists l, log s' = l ++ log s.
Proof. intros H. pose proof (proj1 (lext_all f) en ss s) as L. rewrite H in L. exact L. Qed.

Lemma run_cleanups_emits : forall f cs s s', run_cleanups true f cs s = Ok tt s' ->
  exists l, log s' = l ++ log s /\ rev (map ev_of cs) `sublist_of` l.
Proof.
  induction f as [|f IH]; intros cs s s' H; [discriminate|]. rewrite run_cleanups_S in H.
  destruct cs as [|c r].
  - inversion H; subst. exists []. split; [reflexivity|constructor].
  - destruct (exec true f (cl_env c) (cl_ss c) (emit (EvCleanup (cl_label c)) s)) as [en1 s1|e s1] eqn:He;
      cbn [bind_res] in H; [|discriminate].
    destruct (lext_exec _ _ _ _ _ _ He) as [l1 Hl1]. cbn in Hl1.
    destruct (IH _ _ _ H) as (l2 & Hl2 & Hs2).
    exists (l2 ++ l1 ++ [ev_of c]). split.
    + rewrite Hl2, Hl1. rewrite <- !app_assoc. reflexivity.
    + cbn [map rev]. apply sublist_app; [exact Hs2|]. apply sublist_inserts_l. reflexivity.
Qed.

Theorem dispose_children_runs_cleanups : forall f id s nd s', nodes s !! id = Some nd ->
  dispose_children true f id s = Ok tt s' ->
  exists l, log s' = l ++ log s /\ rev (map ev_of (n_cleanups nd)) `sublist_of` l.
Proof.
  intros f id s nd s' Hn H. destruct f as [|f]; [discriminate|]. rewrite dispose_children_S, Hn in H. cbv zeta in H.
  match type of H with context [run_cleanups true f ?cs ?s0] =>
    destruct (run_cleanups true f cs s0) as [[] s2|e s2] eqn:Hr end; cbn [bind_res] in H; [|discriminate].
  destruct (run_cleanups_emits _ _ _ _ Hr) as (l1 & Hl1 & Hs1). cbn in Hl1.
  match type of H with context [dispose_list true f ?cs ?s0] =>
    destruct (dispose_list true f cs s0) as [[] s4|e s4] eqn:Hd end; cbn [bind_res] in H; [|discriminate].
  destruct (lext_all f) as (_&_&_&_&_&_&_&Hdl&_). specialize (Hdl (n_children nd) (set_tracker (tracker (upd id (fun n => nd_children [] (nd_cleanups [] n)) s)) s2)).
  rewrite Hd in Hdl. destruct Hdl as [l2 Hl2]. cbn in Hl2.
  assert (Hlog : exists l3, log s' = l3 ++ log s4).
  { destruct (nodes s4 !! id) as [nd'|]; [|inversion H; subst; exists []; reflexivity].
    match type of H with context [if ?b then _ else _] => destruct b end.
    - destruct (lext_all f) as (_&_&_&_&_&Hdc&_). specialize (Hdc id s4). rewrite H in Hdc. exact Hdc.
    - inversion H; subst. exists []. reflexivity. }
  destruct Hlog as [l3 Hl3]. exists (l3 ++ l2 ++ l1). split.
  - rewrite Hl3, Hl2, Hl1, !app_assoc. reflexivity.
  - apply sublist_inserts_l, sublist_inserts_l. exact Hs1.
Qed.

(* the unsubscription that precedes the cleanups keeps the node and its cleanup list (no invariant needed) *)
Lemma unsubscribe_keeps id s nd : nodes s !! id = Some nd ->
  exists nd0, nodes (unsubscribe true id s) !! id = Some nd0 /\ n_cleanups nd0 = n_cleanups nd /\
              n_children nd0 = n_children nd /\ n_deps nd0 = [].
Proof.
  intros Hn. unfold unsubscribe. rewrite Hn. rewrite nodes_foldr_upd. cbn.
  pose proof (pmap_compose _ _ _ _ _ (pmap_alter (nd_deps (fun _ => [])) id (nodes s))
                (pmap_foldr_alter (nd_dependents (remove_id id)) (n_deps nd) _ (nd_dependents_idem id)) id) as P.
  rewrite P, Hn. cbn. destruct (decide (id = id)); [|congruence].
  eexists. split; [reflexivity|]. destruct (decide (id ∈ n_deps nd)); repeat split.
Qed.

Theorem dispose_runs_cleanups : forall f id s nd s', nodes s !! id = Some nd ->
  dispose true f id s = Ok tt s' ->
  exists l, log s' = l ++ log s /\ rev (map ev_of (n_cleanups nd)) `sublist_of` l.
Proof.
  intros f id s nd s' Hn H. destruct f as [|f]; [discriminate|]. rewrite dispose_S in H.
  destruct (dispose_children true f id (unsubscribe true id s)) as [[] s1|e s1] eqn:Hdc; cbn [bind_res] in H; [|discriminate].
  destruct (unsubscribe_keeps id s nd Hn) as (nd0 & Hn0 & Ec & _).
  destruct (dispose_children_runs_cleanups _ _ _ _ _ Hn0 Hdc) as (l & Hl & Hs).
  rewrite unsubscribe_log, Ec in *.
  exists l. split; [|exact Hs]. rewrite <- Hl.
  destruct (nodes s1 !! id) as [this|]; inversion H; subst; [|reflexivity].
  cbn. rewrite !log_foldr_upd. reflexivity.
Qed.

(* ---------------------------------------------------------------------------------- *)
(* the fix of F17: a disposal starts by unsubscribing the node, so that while its cleanups run and its children
   are disposed no write to a former dependency can schedule it *)

Definition isolated (id : nat) (s : state) : Prop :=
  (forall nd, nodes s !! id = Some nd -> n_deps nd = []) /\
  (forall d dd, nodes s !! d = Some dd -> ~ In id (n_dependents dd)).

Theorem dispose_isolates_first : forall f id s, WF s ->
  dispose true (S f) id s =
    bind_res (dispose_children true f id (unsubscribe true id s))
      (fun _ s1 => match nodes s1 !! id with
                   | None => Ok tt s1
                   | Some this =>
                       Ok tt (foldr (fun d acc => upd d (nd_dependents (remove_id id)) acc)
                                (foldr (fun d acc => upd d (nd_deps (remove_id id)) acc) (set_nodes (delete id) s1)
                                   (n_dependents this)) (n_deps this))
                   end)
  /\ WF (unsubscribe true id s) /\ isolated id (unsubscribe true id s).
Proof.
  intros f id s W. split; [rewrite dispose_S; reflexivity|].
  destruct (unsubscribe_dispose id s W) as (W0 & _ & _ & _ & V0 & Iso & Hk). split; [exact W0|]. split; [|exact Iso].
  intros nd0 Hn0. specialize (V0 id). rewrite Hn0 in V0. destruct (nodes s !! id) as [nd|] eqn:Hn; [|destruct V0].
  destruct (Hk nd eq_refl) as (nd0' & Hn0' & Hd & _). congruence.
Qed.

(* an isolated node is not scheduled by a propagation that starts elsewhere: it is not in the order computed by
   the topological sort *)
Lemma sort_avoids id g starts : forall a,
  match a with Ok buf s1 => WF s1 /\ isolated id s1 /\ ~ In id buf | Err _ _ => True end ->
  ~ In id starts ->
  match fold_left (sort_step true g) starts a with
  | Ok buf s1 => WF s1 /\ isolated id s1 /\ ~ In id buf
  | Err _ _ => True
  end.
Proof.
  induction starts as [|st starts IH]; intros a Ha Hst; cbn [fold_left]; [exact Ha|].
  apply IH; [|intros Hin; apply Hst; right; exact Hin].
  unfold sort_step. destruct a as [buf s1|e s1]; cbn [bind_res]; [|exact I].
  destruct Ha as (W1 & [Iso1 Iso2] & Hbuf).
  destruct (dfs g st (s1, buf)) as [[[s2 buf2]|]|] eqn:Hd; try exact I.
  pose proof (dfs_marks_only _ _ _ _ _ _ Hd) as Hm.
  pose proof (WF_marks_only _ _ Hm W1) as W2.
  destruct (mark_dependents_dirty_spec st s2 W2) as (s3 & H3 & _ & _ & _ & W3 & V3).
  rewrite H3. cbn [bind_res]. split; [exact W3|]. split; [split|].
  - intros nd3 Hn3. specialize (V3 id). rewrite Hn3 in V3. destruct (nodes s2 !! id) as [nd2|] eqn:Hn2; [|destruct V3].
    destruct V3 as (_ & _ & E & _). rewrite E.
    destruct Hm as [_ Hm]. specialize (Hm id). rewrite Hn2 in Hm. destruct (nodes s1 !! id) as [nd1|] eqn:Hn1; [|destruct Hm].
    unfold mark_eq in Hm. rewrite Hm. cbn. apply Iso1. reflexivity.
  - intros d dd3 Hd3 Hin. specialize (V3 d). rewrite Hd3 in V3. destruct (nodes s2 !! d) as [dd2|] eqn:Hd2; [|destruct V3].
    destruct V3 as (_ & _ & _ & E). rewrite E in Hin.
    destruct (marks_only_dependents _ _ Hm _ _ Hd2) as (dd1 & Hd1 & E1 & _). rewrite E1 in Hin.
    exact (Iso2 _ _ Hd1 Hin).
  - intros Hin. destruct (dfs_buf _ _ _ _ _ _ Hd id Hin) as [Hb|[->|(d & dd & Hdd & Hi)]].
    + exact (Hbuf Hb).
    + apply Hst. left; reflexivity.
    + exact (Iso2 _ _ Hdd Hi).
Qed.

Theorem propagate_skips_isolated : forall id starts s buf s1, WF s -> isolated id s -> ~ In id starts ->
  fold_left (sort_step true (S (size (nodes s)))) starts (Ok [] s) = Ok buf s1 ->
  ~ In id (rev buf) /\ isolated id s1.
Proof.
  intros id starts s buf s1 W Iso Hst H.
  pose proof (sort_avoids id (S (size (nodes s))) starts (Ok [] s)) as G. rewrite H in G.
  destruct G as (_ & Iso1 & Hb); [split; [exact W|split; [exact Iso|intros []]]|exact Hst|].
  split; [|exact Iso1]. intros Hin. apply Hb. apply in_rev. exact Hin.
Qed.

(* [propagate] is exactly: that sort, then [loop] over the reversed buffer *)
Lemma propagate_unfold f starts s :
  propagate true (S f) starts s =
  bind_res (fold_left (sort_step true (S (size (nodes s)))) starts (Ok [] s)) (fun buf s1 => loop true f (rev buf) s1).
Proof. rewrite propagate_S. reflexivity. Qed.

(* both invariants hold after every successful program, so: no stale edge, no orphan, every live node owned by node 0
   through live owners, every registered cleanup emitted exactly once or still pending on a live node *)
Theorem program_final_state : forall f prog en s,
  exec true f root_env prog init_state = Ok en s ->
  WF s /\ OWN none s /\ (forall n, is_Some (nodes s !! n) -> rooted s n) /\
  (forall l, (cntE l (log s) + pend l s = cntR l (log s))%nat).
Proof.
  intros f prog en s H. split; [eapply WF_exec; [apply WF_init|exact H]|].
  destruct (OWN_exec _ _ _ _ _ _ _ OWN_init env_ok_root H) as [W _].
  split; [exact W|]. split; [apply all_rooted, W|]. eapply program_cleanups_exact; exact H.
Qed.

Print Assumptions program_final_state.
Print Assumptions dispose_not_alive.
Print Assumptions dispose_no_edges.
Print Assumptions dispose_frame.
Print Assumptions dispose_runs_cleanups.
Print Assumptions dispose_isolates_first.
Print Assumptions propagate_skips_isolated.

(* ---------------------------------------------------------------------------------- *)
(* examples and the limits of "exactly once" *)

Open Scope Z_scope.

Definition count_cleanup (l : nat) (evs : list ev) : nat :=
  length (List.filter (fun e => match e with EvCleanup k => Nat.eqb k l | _ => false end) evs).

(* nested scopes, an effect with a cleanup, a cleanup that disposes the scope a second time: each label once *)
Definition df_prog : list stmt :=
  [SSignal 1 (Lit 0);
   SScope 2 [SCurScope 3; SOnCleanup 1 [SLog (Lit 1)];
             SOnCleanup 2 [SDispose 3];
             SScope 4 [SOnCleanup 3 []; SEffect 5 (Body None [SOnCleanup 4 []] (Get 1))]];
   SDispose 2].
Example df_each_once :
  match exec true 400 root_env df_prog init_state with
  | Ok _ s => List.map (fun l => count_cleanup l (log s)) [1;2;3;4]%nat = [1;1;1;1]%nat
              /\ size (nodes s) = 2%nat /\ wf_b s = true
  | Err _ _ => False
  end.
Proof. vm_compute. repeat split; reflexivity. Qed.

(* a cleanup registered on a scope WHILE that scope is being disposed: the pinned code stores it in the node and
   drops it with the node (never runs); the repaired dispose_children goes round again and runs it *)
Definition df_lost : list stmt :=
  [SScope 2 [SCurScope 4; SOnCleanup 1 [SRunIn 4 [SOnCleanup 2 [SLog (Lit 7)]]]];
   SDispose 2].
Example df_lost_cleanup_pinned_vs_fixed :
  match exec false 400 root_env df_lost init_state, exec true 400 root_env df_lost init_state with
  | Ok _ s0, Ok _ s => count_cleanup 2 (log s0) = 0%nat /\ count_cleanup 2 (log s) = 1%nat /\ size (nodes s) = 1%nat
  | _, _ => False
  end.
Proof. vm_compute. repeat split; reflexivity. Qed.

(* a node created there: the pinned code leaks it (live nodes 3, reachable 2), the repaired code disposes it *)
Example df_leak_pinned_vs_fixed :
  match exec false 400 root_env (firstn 3 site14_prog) init_state, exec true 400 root_env (firstn 3 site14_prog) init_state with
  | Ok _ s0, Ok _ s => size (nodes s0) = 3%nat /\ reachable s0 = 2%nat /\ size (nodes s) = 2%nat /\ reachable s = 2%nat
  | _, _ => False
  end.
Proof. vm_compute. repeat split; reflexivity. Qed.
