(* Reactive/ArenaDriver.v -- the driver semantics of Arena.v (dstate / dstep / dinit, the part compared with the Rust
   code on every run) is a special case of the histories of ArenaFacts.v; the history theorems lifted to the driver.
   Nothing in Arena.v / ArenaFacts.v is changed. *)
From Coq Require Import List NArith Arith Bool Lia.
From Syc Require Import Reactive.Arena Reactive.ArenaFacts.
Import ListNotations.
Open Scope N_scope.

Definition dfold (dops : list dop) : dstate := fold_left dstep dops dinit.

Definition oddk (k : key) : Prop := N.odd (snd k) = true.

(* ------------------------------------------------------------------ *)
(* facts about insert / histories that need no bound *)
Lemma insert_odd a : N.odd (snd (fst (insert a))) = true.
Proof.
  unfold insert. destruct (nth_error (slots a) (free_head a)) as [s|]; cbn [fst snd]; [apply odd_lor1|reflexivity].
Qed.

Lemma insert_contained_nb a : contains (snd (insert a)) (fst (insert a)) = true.
Proof.
  destruct (nth_error (slots a) (free_head a)) as [s|] eqn:E.
  - destruct (insert_some a s E) as [Hk [_ Hn]]. unfold contains. rewrite Hk. cbn [fst snd].
    rewrite Hn, Nat.eqb_refl. cbn [ver]. apply N.eqb_refl.
  - destruct (insert_none a E) as [Hk [_ Hn]]. unfold contains. rewrite Hk, Hn. cbn [fst snd].
    rewrite nth_snoc, Nat.ltb_irrefl, Nat.eqb_refl. reflexivity.
Qed.

Lemma frun_app st l1 l2 : frun st (l1 ++ l2) = frun (frun st l1) l2.
Proof. apply fold_left_app. Qed.

Lemma frun_cons st o l : frun st (o :: l) = frun (astep st o) l.
Proof. reflexivity. Qed.

Lemma astep_odd st o : Forall oddk (snd st) -> Forall oddk (snd (astep st o)).
Proof.
  destruct st as [a ks]. intros H. destruct o as [|k|].
  - rewrite astep_ins. cbn [snd] in *. apply Forall_app. split; auto. constructor; [apply insert_odd|constructor].
  - exact H.
  - exact H.
Qed.

Lemma frun_odd ops : forall st, Forall oddk (snd st) -> Forall oddk (snd (frun st ops)).
Proof.
  induction ops as [|o ops IH]; intros st H; [exact H|]. rewrite frun_cons. apply IH. apply astep_odd; auto.
Qed.

Lemma arun_odd ops : Forall oddk (snd (arun ops)).
Proof. rewrite arun_frun. apply frun_odd. constructor. Qed.

Lemma frun_length ops : forall st, length (snd (frun st ops)) = (length (snd st) + n_ins ops)%nat.
Proof.
  induction ops as [|o ops IH]; intros st.
  - cbn. lia.
  - rewrite frun_cons, IH, n_ins_cons. destruct (astep_keys st o) as [l [E L]]. rewrite E, app_length. lia.
Qed.

Lemma arun_length ops : length (snd (arun ops)) = n_ins ops.
Proof. rewrite arun_frun, frun_length. reflexivity. Qed.

(* ------------------------------------------------------------------ *)
(* each piece of a driver step as a list of history operations *)
Definition rem_ops (hs : list key) (h : nat) : list aop :=
  match nth_error hs h with Some k => [ARem k] | None => [] end.
Definition leafy_ops (hs : list key) (o : list (nat * list nat)) (h : nat) : list aop :=
  flat_map (rem_ops hs) (lookup_owned h o) ++ rem_ops hs h.
Definition dispose_ops (hs : list key) (o : list (nat * list nat)) (h : nat) : list aop :=
  flat_map (leafy_ops hs o) (lookup_owned h o) ++ rem_ops hs h.

Lemma frun_rem_ops hs a h : frun (a, hs) (rem_ops hs h) = (rem_h hs a h, hs).
Proof. unfold rem_ops, rem_h. destruct (nth_error hs h); reflexivity. Qed.

Lemma frun_flat_map {X} (f : X -> list aop) (g : arena -> X -> arena) hs :
  (forall a x, frun (a, hs) (f x) = (g a x, hs)) ->
  forall l a, frun (a, hs) (flat_map f l) = (fold_left g l a, hs).
Proof.
  intros H l. induction l as [|x l IH]; intros a; cbn [flat_map fold_left]; [reflexivity|].
  rewrite frun_app, H. apply IH.
Qed.

Lemma frun_leafy hs o a h : frun (a, hs) (leafy_ops hs o h) = (dispose_leafy hs o a h, hs).
Proof.
  unfold leafy_ops, dispose_leafy. rewrite frun_app.
  rewrite (frun_flat_map (rem_ops hs) (rem_h hs) hs) by (intros; apply frun_rem_ops). apply frun_rem_ops.
Qed.

Lemma frun_dispose hs o a h : frun (a, hs) (dispose_ops hs o h) = (dispose_h hs o a h, hs).
Proof.
  unfold dispose_ops, dispose_h. rewrite frun_app.
  rewrite (frun_flat_map (leafy_ops hs o) (dispose_leafy hs o) hs) by (intros; apply frun_leafy). apply frun_rem_ops.
Qed.

(* lists of removals of handed-out keys *)
Definition rem_in (hs : list key) (o : aop) : Prop := match o with ARem k => In k hs | _ => False end.
Definition ro (hs : list key) (l : list aop) : Prop := Forall (rem_in hs) l.

Lemma ro_rem_ops hs h : ro hs (rem_ops hs h).
Proof.
  unfold rem_ops, ro. destruct (nth_error hs h) as [k|] eqn:E; constructor; [|constructor].
  cbn. eapply nth_error_In; eauto.
Qed.

Lemma ro_flat_map {X} hs (f : X -> list aop) l : (forall x, ro hs (f x)) -> ro hs (flat_map f l).
Proof. intros H. induction l as [|x l IH]; cbn [flat_map]; [constructor|]. apply Forall_app. split; auto. apply H. Qed.

Lemma ro_leafy hs o h : ro hs (leafy_ops hs o h).
Proof. apply Forall_app. split; [apply ro_flat_map; intros; apply ro_rem_ops|apply ro_rem_ops]. Qed.

Lemma ro_dispose hs o h : ro hs (dispose_ops hs o h).
Proof. apply Forall_app. split; [apply ro_flat_map; intros; apply ro_leafy|apply ro_rem_ops]. Qed.

Lemma ro_odd hs l : Forall oddk hs -> ro hs l -> odd_rems l.
Proof.
  intros Hh Hl. unfold odd_rems. eapply Forall_impl; [|exact Hl].
  intros [|k|] H; cbn in *; try contradiction. rewrite Forall_forall in Hh. apply Hh; auto.
Qed.

Lemma ro_n_ins hs l : ro hs l -> n_ins l = 0%nat.
Proof.
  induction 1 as [|o l Ho _ IH]; [reflexivity|]. rewrite n_ins_cons, IH.
  destruct o; cbn in *; try contradiction; reflexivity.
Qed.

(* n insertions *)
Lemma frun_ins_n n : forall a acc, frun (a, acc) (repeat AIns n) = ins_n n a acc.
Proof.
  induction n as [|n IH]; intros a acc; [reflexivity|].
  cbn [repeat]. rewrite frun_cons, astep_ins, IH. cbn [ins_n]. destruct (insert a); reflexivity.
Qed.

Lemma ins_n_acc n : forall a acc, ins_n n a acc = (fst (ins_n n a []), acc ++ snd (ins_n n a [])).
Proof.
  induction n as [|n IH]; intros a acc; cbn [ins_n].
  - cbn. rewrite app_nil_r. reflexivity.
  - destruct (insert a) as [k a']. rewrite (IH a' (acc ++ [k])), (IH a' ([] ++ [k])). cbn [fst snd app].
    rewrite <- app_assoc. reflexivity.
Qed.

(* ------------------------------------------------------------------ *)
(* D1: simulation *)
Definition dstep_ops (d : dstate) (o : dop) : list aop :=
  match o with
  | DNew => [AIns]
  | DScope n => repeat AIns (S n)
  | DDel h => if alive_h d h then dispose_ops (handles d) (owned d) h else []
  | DReinit => dispose_ops (handles d) (owned d) (droot d) ++ [ADrain; AIns]
  end.

Lemma dstep_frun d o : frun (ar d, handles d) (dstep_ops d o) = (ar (dstep d o), handles (dstep d o)).
Proof.
  destruct o as [|h|n|]; cbn [dstep_ops dstep].
  - rewrite frun_cons, astep_ins. destruct (insert (ar d)) as [k a']. reflexivity.
  - destruct (alive_h d h); [apply frun_dispose|reflexivity].
  - rewrite frun_ins_n, (ins_n_acc (S n) (ar d) (handles d)).
    destruct (ins_n (S n) (ar d) []) as [a' ks]. reflexivity.
  - rewrite frun_app, frun_dispose, frun_cons.
    change (astep (dispose_h (handles d) (owned d) (ar d) (droot d), handles d) ADrain)
      with (reinit_drain (dispose_h (handles d) (owned d) (ar d) (droot d)), handles d).
    rewrite frun_cons, astep_ins.
    destruct (insert (reinit_drain (dispose_h (handles d) (owned d) (ar d) (droot d)))) as [k a']. reflexivity.
Qed.

Lemma dstep_ops_odd d o : Forall oddk (handles d) -> odd_rems (dstep_ops d o).
Proof.
  intros Hh. destruct o as [|h|n|]; cbn [dstep_ops].
  - repeat constructor.
  - destruct (alive_h d h); [eapply ro_odd; eauto; apply ro_dispose|constructor].
  - apply Forall_forall. intros x Hx. apply repeat_spec in Hx. subst x. exact I.
  - apply Forall_app. split; [eapply ro_odd; eauto; apply ro_dispose|repeat constructor].
Qed.

Definition sim (d : dstate) (ops : list aop) : Prop := arun ops = (ar d, handles d) /\ odd_rems ops.

Lemma sim_step d ops o : sim d ops -> sim (dstep d o) (ops ++ dstep_ops d o).
Proof.
  intros [E Ho]. split.
  - rewrite arun_app, E. apply dstep_frun.
  - apply Forall_app. split; auto. apply dstep_ops_odd.
    replace (handles d) with (snd (arun ops)) by (rewrite E; reflexivity). apply arun_odd.
Qed.

Lemma sim_init : sim dinit [AIns].
Proof. split; [reflexivity|repeat constructor]. Qed.

Fixpoint dops_ops (d : dstate) (dops : list dop) : list aop :=
  match dops with
  | [] => []
  | o :: r => dstep_ops d o ++ dops_ops (dstep d o) r
  end.

Lemma dops_ops_app l1 : forall d l2,
  dops_ops d (l1 ++ l2) = dops_ops d l1 ++ dops_ops (fold_left dstep l1 d) l2.
Proof.
  induction l1 as [|o l1 IH]; intros d l2; [reflexivity|].
  cbn [app dops_ops fold_left]. rewrite IH, app_assoc. reflexivity.
Qed.

Lemma sim_fold dops : forall d ops, sim d ops -> sim (fold_left dstep dops d) (ops ++ dops_ops d dops).
Proof.
  induction dops as [|o dops IH]; intros d ops H; cbn [fold_left dops_ops].
  - rewrite app_nil_r. exact H.
  - rewrite app_assoc. apply IH. apply sim_step. exact H.
Qed.

(* the history of a driver run *)
Definition hist (dops : list dop) : list aop := [AIns] ++ dops_ops dinit dops.

Lemma sim_dfold dops : sim (dfold dops) (hist dops).
Proof. apply sim_fold. apply sim_init. Qed.

Lemma hist_app dops1 dops2 : hist (dops1 ++ dops2) = hist dops1 ++ dops_ops (dfold dops1) dops2.
Proof. unfold hist. rewrite dops_ops_app, app_assoc. reflexivity. Qed.

Lemma hist_n_ins dops : n_ins (hist dops) = length (handles (dfold dops)).
Proof. destruct (sim_dfold dops) as [E _]. rewrite <- arun_length, E. reflexivity. Qed.

Theorem D1_simulation dops :
  exists ops, ar (dfold dops) = fst (arun ops) /\ handles (dfold dops) = snd (arun ops) /\ odd_rems ops /\
              n_ins ops = length (handles (dfold dops)).
Proof.
  exists (hist dops). destruct (sim_dfold dops) as [E Ho]. rewrite E. cbn [fst snd].
  repeat split; auto. apply hist_n_ins.
Qed.

Lemma D1_handles_odd dops : Forall (fun k => N.odd (snd k) = true) (handles (dfold dops)).
Proof. destruct (sim_dfold dops) as [E _]. replace (handles (dfold dops)) with (snd (arun (hist dops))) by (rewrite E; reflexivity). apply arun_odd. Qed.

Definition dbound (dops : list dop) : Prop := N.of_nat (length (handles (dfold dops))) < 2147483647.

Lemma dbound_bound dops : dbound dops -> bound (hist dops).
Proof. unfold dbound, bound. rewrite hist_n_ins. auto. Qed.

(* ------------------------------------------------------------------ *)
(* D3: dead stays dead *)
Lemma notcontained_dead a ks k : keys_ok a ks -> In k ks -> contains a k = false -> dead a k.
Proof.
  intros Hk Hin Hc. destruct (Hk k Hin) as [_ [s [Es Ls]]]. exists s. split; auto.
  unfold contains in Hc. rewrite Es in Hc. apply N.eqb_neq in Hc. lia.
Qed.

Theorem D3_dead_stays_dead dops1 dops2 h :
  N.of_nat (length (handles (dfold (dops1 ++ dops2)))) < 2147483647 ->
  alive_h (dfold dops1) h = false -> (h < length (handles (dfold dops1)))%nat ->
  alive_h (dfold (dops1 ++ dops2)) h = false.
Proof.
  intros Hb Hd Hh.
  destruct (sim_dfold dops1) as [E1 O1]. destruct (sim_dfold (dops1 ++ dops2)) as [E2 O2].
  assert (Hbd := dbound_bound _ Hb). rewrite hist_app in E2, O2, Hbd.
  destruct (bound_app _ _ Hbd) as [Hb1 Hb2]. destruct (odd_rems_app _ _ O2) as [_ O2'].
  destruct (arun_ok _ Hb1 O1) as [Hi1 Hlen1].
  destruct (run1 _ (arun (hist dops1)) Hi1 O2') as [_ [Hle [l [El _]]]]; [rewrite Hlen1; auto|].
  rewrite arun_app in E2. rewrite E2 in Hle, El. destruct Hi1 as [_ Hk]. rewrite E1 in Hle, El, Hk.
  cbn [fst snd] in *.
  unfold alive_h in *. rewrite El, nth_error_app1 by auto.
  destruct (nth_error (handles (dfold dops1)) h) as [k|] eqn:En; [|reflexivity].
  apply dead_not_contains. eapply dead_le; [|exact Hle].
  eapply notcontained_dead; eauto. eapply nth_error_In; eauto.
Qed.

(* ------------------------------------------------------------------ *)
(* D4: DReinit kills every handle, and the new root is alive *)
Lemma reinit_shape d :
  let a1 := reinit_drain (dispose_h (handles d) (owned d) (ar d) (droot d)) in
  ar (dstep d DReinit) = snd (insert a1) /\ handles (dstep d DReinit) = handles d ++ [fst (insert a1)].
Proof. cbn zeta. cbn [dstep]. destruct (insert _) as [k a']. cbn. auto. Qed.

Lemma dfold_snoc dops o : dfold (dops ++ [o]) = dstep (dfold dops) o.
Proof. unfold dfold. rewrite fold_left_app. reflexivity. Qed.

Theorem D4_reinit_kills dops :
  N.of_nat (length (handles (dfold (dops ++ [DReinit])))) < 2147483647 ->
  forall h, (h < length (handles (dfold dops)))%nat -> alive_h (dfold (dops ++ [DReinit])) h = false.
Proof.
  intros Hb h Hh.
  assert (Hbd := dbound_bound _ Hb).
  destruct (sim_dfold (dops ++ [DReinit])) as [E2 O2]. destruct (sim_dfold dops) as [E1 O1].
  rewrite hist_app in E2, O2, Hbd. cbn [dops_ops dstep_ops] in E2, O2, Hbd. rewrite app_nil_r in E2, O2, Hbd.
  set (d := dfold dops) in *. set (rems := dispose_ops (handles d) (owned d) (droot d)) in *.
  rewrite app_assoc in E2, O2, Hbd.
  unfold alive_h. rewrite dfold_snoc. fold d.
  destruct (reinit_shape d) as [_ Hhs]. rewrite Hhs, nth_error_app1 by auto.
  destruct (nth_error (handles d) h) as [k|] eqn:En; [|reflexivity].
  assert (Hin : In k (snd (arun (hist dops ++ rems)))).
  { rewrite arun_app, E1. unfold rems. rewrite frun_dispose. cbn [snd]. eapply nth_error_In; eauto. }
  assert (H := drained_never_alive (hist dops ++ rems) k [AIns] Hbd O2 Hin).
  rewrite E2 in H. rewrite dfold_snoc in H. exact H.
Qed.

Theorem D4_new_root_alive dops :
  alive_h (dfold (dops ++ [DReinit])) (length (handles (dfold dops))) = true /\
  length (handles (dfold (dops ++ [DReinit]))) = S (length (handles (dfold dops))) /\
  droot (dfold (dops ++ [DReinit])) = length (handles (dfold dops)).
Proof.
  rewrite dfold_snoc. set (d := dfold dops). destruct (reinit_shape d) as [Ha Hhs].
  split; [|split].
  - unfold alive_h. rewrite Hhs, Ha, nth_snoc, Nat.ltb_irrefl, Nat.eqb_refl. apply insert_contained_nb.
  - rewrite Hhs, app_length. cbn. lia.
  - cbn [dstep]. destruct (insert _). reflexivity.
Qed.

(* ------------------------------------------------------------------ *)
(* D2: no raw key is handed out twice *)
Theorem D2_handles_nodup dops :
  N.of_nat (length (handles (dfold dops))) < 2147483647 -> NoDup (handles (dfold dops)).
Proof.
  intros Hb. destruct (sim_dfold dops) as [E O].
  replace (handles (dfold dops)) with (snd (arun (hist dops))) by (rewrite E; reflexivity).
  apply keys_fresh; auto. apply dbound_bound; auto.
Qed.

(* ... hence no printed key (as_ffi) appears twice: ffi is injective on keys whose index fits in 32 bits,
   and every handed-out index is below the number of slots <= 1 + number of insertions *)
Lemma ffi_inj k1 k2 :
  N.of_nat (fst k1) < 4294967296 -> N.of_nat (fst k2) < 4294967296 -> ffi k1 = ffi k2 -> k1 = k2.
Proof.
  unfold ffi. rewrite !N.shiftl_mul_pow2. change (2 ^ 32) with 4294967296.
  destruct k1 as [i1 v1], k2 as [i2 v2]. cbn [fst snd]. intros H1 H2 E.
  assert (Hv : v1 = v2) by nia. subst v2. assert (Hi : i1 = i2) by lia. subst. reflexivity.
Qed.

Lemma insert_slots_len a : (length (slots (snd (insert a))) <= S (length (slots a)))%nat.
Proof.
  unfold insert. destruct (nth_error (slots a) (free_head a)) as [s|]; cbn [snd slots].
  - rewrite set_nth_length. lia.
  - rewrite app_length. cbn. lia.
Qed.

Lemma remove_slots_len a k : length (slots (remove a k)) = length (slots a).
Proof. unfold remove. destruct (contains a k); auto using rfs_length. Qed.

Lemma drain_slots_len a : length (slots (drain a)) = length (slots a).
Proof.
  unfold drain. apply (drain_from_ind (fun b => length (slots b) = length (slots a))); auto.
  intros b i s Hb _ _. rewrite rfs_length. exact Hb.
Qed.

Lemma frun_slots_len ops : forall st,
  (length (slots (fst (frun st ops))) <= length (slots (fst st)) + n_ins ops)%nat.
Proof.
  induction ops as [|o ops IH]; intros st.
  - cbn. lia.
  - rewrite frun_cons, n_ins_cons. specialize (IH (astep st o)). destruct st as [a ks]. destruct o as [|k|].
    + rewrite astep_ins in *. cbn [fst ins1] in *. assert (H := insert_slots_len a). lia.
    + cbn [astep fst ins1] in *. rewrite remove_slots_len in IH. lia.
    + cbn [astep fst ins1] in *. unfold reinit_drain in *. rewrite drain_slots_len in IH. lia.
Qed.

Lemma arun_slots_len ops : (length (slots (fst (arun ops))) <= S (n_ins ops))%nat.
Proof. rewrite arun_frun. assert (H := frun_slots_len ops (arena_new, [])). cbn [fst arena_new slots length] in H. lia. Qed.

Theorem D2_handles_idx dops :
  N.of_nat (length (handles (dfold dops))) < 2147483647 ->
  Forall (fun k => (fst k < length (slots (ar (dfold dops))))%nat /\ N.of_nat (fst k) < 4294967296) (handles (dfold dops)).
Proof.
  intros Hb. destruct (sim_dfold dops) as [E O]. assert (Hbd := dbound_bound _ Hb).
  destruct (arun_ok _ Hbd O) as [[_ Hk] _]. assert (Hl := arun_slots_len (hist dops)).
  rewrite hist_n_ins in Hl. rewrite E in Hk, Hl. cbn [fst snd] in *.
  apply Forall_forall. intros k Hin. destruct (Hk k Hin) as [_ [s [Es _]]].
  assert (Hx : (fst k < length (slots (ar (dfold dops))))%nat) by (apply nth_error_Some; congruence).
  split; auto. lia.
Qed.

Lemma NoDup_map_on {A B} (f : A -> B) (l : list A) :
  (forall x y, In x l -> In y l -> f x = f y -> x = y) -> NoDup l -> NoDup (map f l).
Proof.
  induction l as [|a l IH]; intros Hinj Hnd; cbn [map]; [constructor|].
  inversion Hnd as [|? ? Ha Hl]; subst. constructor.
  - rewrite in_map_iff. intros [y [Ey Hy]]. apply Ha.
    replace a with y; auto. apply Hinj; cbn; auto.
  - apply IH; auto. intros x y Hx Hy. apply Hinj; cbn; auto.
Qed.

Theorem D2_obs_nodup dops :
  N.of_nat (length (handles (dfold dops))) < 2147483647 -> NoDup (map fst (dobs (dfold dops))).
Proof.
  intros Hb. unfold dobs. rewrite map_map. cbn [fst].
  assert (Hi := D2_handles_idx dops Hb). rewrite Forall_forall in Hi.
  apply NoDup_map_on; [|apply D2_handles_nodup; auto].
  intros x y Hx Hy. apply ffi_inj; [apply (Hi x Hx)|apply (Hi y Hy)].
Qed.

(* ------------------------------------------------------------------ *)
(* non-vacuity *)
Definition ex_dops1 : list dop := [DNew; DNew; DDel 1; DNew; DScope 2; DDel 4; DNew].
Definition ex_dops2 : list dop := [DReinit; DNew; DNew].
Definition ex_dops : list dop := ex_dops1 ++ ex_dops2.

Example ex_D1 :
  hist ex_dops =
    [AIns; AIns; AIns; ARem (2%nat, 1); AIns; AIns; AIns; AIns; ARem (5%nat, 1); ARem (6%nat, 1); ARem (4%nat, 1); AIns;
     ARem (2%nat, 1); ARem (3%nat, 1); ARem (2%nat, 3); ARem (5%nat, 1); ARem (6%nat, 1); ARem (4%nat, 1);
     ARem (4%nat, 3); ARem (1%nat, 1); ADrain; AIns; AIns; AIns] /\
  (ar (dfold ex_dops), handles (dfold ex_dops)) = arun (hist ex_dops) /\
  handles (dfold ex_dops) =
    [(1%nat, 1); (2%nat, 1); (3%nat, 1); (2%nat, 3); (4%nat, 1); (5%nat, 1); (6%nat, 1); (4%nat, 3); (1%nat, 3); (4%nat, 5); (2%nat, 5)].
Proof. vm_compute. auto. Qed.

Example ex_D2 :
  N.of_nat (length (handles (dfold ex_dops))) < 2147483647 /\
  map fst (dobs (dfold ex_dops)) =
    [4294967297; 4294967298; 4294967299; 12884901890; 4294967300; 4294967301; 4294967302; 12884901892; 12884901889;
     21474836484; 21474836482].
Proof. split; [vm_compute; reflexivity|vm_compute; reflexivity]. Qed.

(* DDel 1 removes handle 1 = key (2,1), whose slot is re-used by handle 3 = key (2,3); DDel 4 removes the scope (handle 4)
   and its two signals (handles 5, 6); handle 1 is dead after ex_dops1 and stays dead after ex_dops2, although slot 2 is
   handed out twice more *)
Example ex_D3 :
  N.of_nat (length (handles (dfold (ex_dops1 ++ ex_dops2)))) < 2147483647 /\
  map (alive_h (dfold ex_dops1)) (seq 0 8) = [true; false; true; true; false; false; false; true] /\
  (1 < length (handles (dfold ex_dops1)))%nat /\
  map (alive_h (dfold (ex_dops1 ++ ex_dops2))) (seq 0 11) =
    [false; false; false; false; false; false; false; false; true; true; true].
Proof.
  split; [vm_compute; reflexivity|]. split; [vm_compute; reflexivity|].
  split; [change (length (handles (dfold ex_dops1))) with 8%nat; lia|vm_compute; reflexivity].
Qed.

Example ex_D4 :
  N.of_nat (length (handles (dfold (ex_dops1 ++ [DReinit])))) < 2147483647 /\
  length (handles (dfold ex_dops1)) = 8%nat /\
  map (alive_h (dfold (ex_dops1 ++ [DReinit]))) (seq 0 9) = [false; false; false; false; false; false; false; false; true] /\
  droot (dfold (ex_dops1 ++ [DReinit])) = 8%nat.
Proof. split; [vm_compute; reflexivity|vm_compute; auto]. Qed.

(* the theorems applied to the instances *)
Example ex_D3_applied : alive_h (dfold (ex_dops1 ++ ex_dops2)) 1 = false.
Proof. apply D3_dead_stays_dead; [apply ex_D3|vm_compute; reflexivity|apply ex_D3]. Qed.

Example ex_D4_applied : alive_h (dfold (ex_dops1 ++ [DReinit])) 7 = false.
Proof. apply D4_reinit_kills; [apply ex_D4|change (length (handles (dfold ex_dops1))) with 8%nat; lia]. Qed.

Example ex_D2_applied : NoDup (map fst (dobs (dfold ex_dops))).
Proof. apply D2_obs_nodup. apply ex_D2. Qed.


(* the hypothesis `h < length (handles (dfold dops1))` of D3 is needed: a handle number that has not been handed out yet
   is "not alive" and becomes alive when it is created *)
Example D3_needs_handed_out :
  alive_h (dfold []) 1 = false /\ alive_h (dfold ([] ++ [DNew])) 1 = true /\
  N.of_nat (length (handles (dfold ([] ++ [DNew])))) < 2147483647.
Proof. vm_compute. auto. Qed.

Print Assumptions D1_simulation.
Print Assumptions D1_handles_odd.
Print Assumptions D2_handles_nodup.
Print Assumptions D2_handles_idx.
Print Assumptions D2_obs_nodup.
Print Assumptions D3_dead_stays_dead.
Print Assumptions D4_reinit_kills.
Print Assumptions D4_new_root_alive.
