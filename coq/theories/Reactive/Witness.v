(* Reactive/Witness.v -- concrete histories on the runtime model (fx = true: the code after the fix commits).
   F1: late subscription to a node that is still scheduled leaves a stale, dirty memo. *)
From stdpp Require Import gmap list.
From Coq Require Import ZArith.
From Syc Require Import Reactive.Syntax Reactive.Interp Reactive.Show.
Open Scope Z_scope.

Definition value_of (s : state) (x : nat) : option Z := names s !! x ≫= fun id => nodes s !! id ≫= n_value.
Definition dirty_of (s : state) (x : nat) : option bool := names s !! x ≫= fun id => n_dirty <$> nodes s !! id.

(* s = 0; b = memo(2*s); c = memo(if s > 0 { b } else { 0 }); s.set(1) *)
Definition f1_prog : list stmt :=
  [SSignal 1 (Lit 0);
   SMemo 2 (Body None [] (Mul (Lit 2) (Get 1)));
   SMemo 3 (Body None [] (Ite (Lt (Lit 0) (Get 1)) (Get 2) (Lit 0)));
   SSet 1 (Lit 1)].

Lemma f1_stale :
  match exec true 400 root_env f1_prog init_state with
  | Ok _ s => value_of s 1 = Some 1 /\ value_of s 2 = Some 2 /\
              value_of s 3 = Some 0        (* the function of c yields 2 from the current values *)
              /\ dirty_of s 3 = Some true
  | Err _ _ => False
  end.
Proof. vm_compute. repeat split; reflexivity. Qed.

(* the next write repairs it: the inconsistency is transient but observable *)
Lemma f1_repaired_by_next_write :
  match exec true 400 root_env (f1_prog ++ [SSet 1 (Lit 2)]) init_state with
  | Ok _ s => value_of s 3 = Some 4 /\ dirty_of s 3 = Some false
  | Err _ _ => False
  end.
Proof. vm_compute. repeat split; reflexivity. Qed.

(* F2 (fixed): a nested batch does not end the enclosing one -- the effect runs once after the outer batch *)
Definition f2_prog : list stmt :=
  [SSignal 1 (Lit 0); SEffect 2 (Body None [] (Get 1));
   SBatch [SBatch [SSet 1 (Lit 1)]; SSet 1 (Lit 2)]].
Definition count_runs (x : nat) (l : list ev) : nat :=
  length (List.filter (fun e => match e with EvRun y => Nat.eqb x y | _ => false end) l).
Lemma f2_fixed_vs_pinned :
  match exec true 400 root_env f2_prog init_state, exec false 400 root_env f2_prog init_state with
  | Ok _ s, Ok _ s' => count_runs 2 (log s) = 2%nat /\ count_runs 2 (log s') = 3%nat
  | _, _ => False
  end.
Proof. vm_compute. split; reflexivity. Qed.

(* F3a (fixed): an effect that disposes the scope owning it *)
Definition f3a_prog : list stmt :=
  [SSignal 1 (Lit 0);
   SScope 2 [SCurScope 4; SEffect 3 (Body None [SIf (Get 1) [SDispose 4] []] (Lit 0))];
   SSet 1 (Lit 1)].
Lemma f3a_fixed_vs_pinned :
  match exec true 400 root_env f3a_prog init_state, exec false 400 root_env f3a_prog init_state with
  | Ok _ _, Err (Runtime _) _ => True
  | _, _ => False
  end.
Proof. vm_compute. exact I. Qed.

(* F4 (fixed): a disposed effect no longer stays in the dependents of the signal it read *)
Definition f4_prog : list stmt :=
  [SSignal 1 (Lit 0); SScope 2 [SEffect 3 (Body None [] (Get 1))]; SDispose 2].
Definition dependents_of (s : state) (x : nat) : option (list nat) :=
  names s !! x ≫= fun id => n_dependents <$> nodes s !! id.
Lemma f4_fixed_vs_pinned :
  match exec true 400 root_env f4_prog init_state, exec false 400 root_env f4_prog init_state with
  | Ok _ s, Ok _ s' => dependents_of s 1 = Some [] /\ exists d, dependents_of s' 1 = Some [d]
  | _, _ => False
  end.
Proof. vm_compute. split; [reflexivity|eexists; reflexivity]. Qed.
