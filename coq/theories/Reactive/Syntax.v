(* Reactive/Syntax.v -- scenario language for the reactive runtime (DESIGN.md 3.1).
   The same programs are interpreted by Reactive/Interp.v (the model) and by
   harness/reactive-driver (the real sycamore-reactive API). Definitions only. *)
From Coq Require Import List ZArith.
Import ListNotations.

(* variables, labels, context "types" and cells are numbers *)
Notation var := nat (only parsing).

Inductive expr :=
| Lit (z : Z)
| Get (x : var)                 (* x.get()            : tracked read *)
| GetU (x : var)                (* x.get_untracked()                 *)
| Add (a b : expr) | Sub (a b : expr) | Mul (a b : expr)
| Lt (a b : expr) | Eq (a b : expr)
| Mod (a : expr) (k : Z)        (* rem_euclid, k > 0 *)
| Ite (c a b : expr)            (* if c != 0 { a } else { b } : only one branch is evaluated *)
| Alive (x : var)               (* x.is_alive() as 0/1 *)
| CellGet (c : var).            (* a plain Rc<Cell<i64>> shared by closures *)

Inductive stmt :=
| SSignal (x : var) (e : expr)                       (* let x = create_signal(e) *)
| SMemo (x : var) (b : body)                         (* let x = create_memo(body) *)
| SSelector (x : var) (k : Z) (b : body)             (* create_selector_with(body, congruent mod k; k = 0: ==) *)
| SEffect (x : var) (b : body)                       (* create_effect(body); x names the effect in logs *)
| SScope (x : var) (ss : list stmt)                  (* let x = create_child_scope(|| ss) *)
| SCurScope (x : var)                                (* let x = use_current_scope() *)
| SSet (x : var) (e : expr) | SSetSilent (x : var) (e : expr)
| SDispose (x : var)
| SBatch (ss : list stmt) | SUntrack (ss : list stmt) | SComponent (ss : list stmt)
| SOnCleanup (l : nat) (ss : list stmt)
| SProvide (ty : nat) (e : expr) | SUseCtx (ty : nat)
| SRunIn (x : var) (ss : list stmt)
| STrack (x : var)
| SIf (e : expr) (a b : list stmt)
| SCellNew (c : var) (e : expr) | SCellSet (c : var) (e : expr)
| SLog (e : expr)
(* body of a computation: optional `on(deps, ..)` wrapper, statements, result expression *)
with body := Body (on : option (list var)) (ss : list stmt) (ret : expr).
