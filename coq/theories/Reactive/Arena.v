(* Reactive/Arena.v -- the node arena of sycamore-reactive: `Root::nodes : RefCell<SlotMap<NodeId, ReactiveNode>>`.

   Interp.v models node identities as a supply of fresh numbers.  The real identities are slot-map keys
   (index, version) that are RE-USED: a removed slot goes onto a free list and is handed out again with a higher
   version.  This file models exactly that (slotmap 1.1 `basic.rs`: `try_insert_with_key`, `remove`,
   `remove_from_slot`, `contains_key`, `Drain::next`, `with_capacity_and_key`) together with the two ways
   `Root::reinit` has emptied the arena: `reinit_drain` (the code since fix 548555a: `nodes.borrow_mut().drain()`)
   and `reinit_fresh` (before: `nodes.take()`, a new map).  ArenaFacts.v proves what the abstraction of Interp.v needs:
   a destroyed key is never alive again and every key handed out is new.

   Versions are u32 in the crate and wrap; the model keeps the wrap (`wrap32`) and the theorems bound the number of
   insertions instead of pretending versions are unbounded.  No proofs in this file. *)
From Coq Require Import List NArith Arith Bool.
Import ListNotations.
Open Scope N_scope.

Record slot := { ver : N; nxt : nat }.          (* nxt = the union's `next_free`, meaningful while the slot is vacant *)
Record arena := { slots : list slot; free_head : nat }.
Definition key := (nat * N)%type.                 (* KeyData { idx, version } *)

Definition wrap32 (n : N) : N := n mod 4294967296.
Definition occupied (s : slot) : bool := N.odd (ver s).

(* with_capacity_and_key: a sentinel at index 0 *)
Definition arena_new : arena := {| slots := [ {| ver := 0; nxt := 0%nat |} ]; free_head := 1%nat |}.

Fixpoint set_nth {A} (l : list A) (i : nat) (x : A) : list A :=
  match l, i with
  | [], _ => []
  | _ :: t, O => x :: t
  | h :: t, S j => h :: set_nth t j x
  end.

(* contains_key *)
Definition contains (a : arena) (k : key) : bool :=
  match nth_error (slots a) (fst k) with
  | Some s => N.eqb (ver s) (snd k)
  | None => false
  end.

(* try_insert_with_key *)
Definition insert (a : arena) : key * arena :=
  match nth_error (slots a) (free_head a) with
  | Some s =>
      let ov := N.lor (ver s) 1 in
      ((free_head a, ov),
       {| slots := set_nth (slots a) (free_head a) {| ver := ov; nxt := nxt s |}; free_head := nxt s |})
  | None =>
      let i := length (slots a) in
      ((i, 1), {| slots := slots a ++ [ {| ver := 1; nxt := 0%nat |} ]; free_head := S i |})
  end.

(* remove_from_slot *)
Definition remove_from_slot (a : arena) (i : nat) : arena :=
  match nth_error (slots a) i with
  | Some s => {| slots := set_nth (slots a) i {| ver := wrap32 (ver s + 1); nxt := free_head a |}; free_head := i |}
  | None => a
  end.

(* remove *)
Definition remove (a : arena) (k : key) : arena :=
  if contains a k then remove_from_slot a (fst k) else a.

(* Drain: every occupied slot in index order *)
Fixpoint drain_from (n : nat) (i : nat) (a : arena) : arena :=
  match n with
  | O => a
  | S n' =>
      let a' := match nth_error (slots a) i with
                | Some s => if occupied s then remove_from_slot a i else a
                | None => a
                end in
      drain_from n' (S i) a'
  end.
Definition drain (a : arena) : arena := drain_from (length (slots a)) 0 a.

(* the two versions of Root::reinit's treatment of the arena *)
Definition reinit_drain (a : arena) : arena := drain a.
Definition reinit_fresh (a : arena) : arena := arena_new.

(* histories *)
Inductive aop := AIns | ARem (k : key) | ADrain.

Definition astep (st : arena * list key) (o : aop) : arena * list key :=
  let '(a, ks) := st in
  match o with
  | AIns => let '(k, a') := insert a in (a', ks ++ [k])
  | ARem k => (remove a k, ks)
  | ADrain => (reinit_drain a, ks)
  end.
Definition arun (ops : list aop) : arena * list key := fold_left astep ops (arena_new, []).

Definition n_ins (ops : list aop) : nat := length (filter (fun o => match o with AIns => true | _ => false end) ops).

(* the same history with the old reinit *)
Definition astep_old (st : arena * list key) (o : aop) : arena * list key :=
  let '(a, ks) := st in
  match o with
  | AIns => let '(k, a') := insert a in (a', ks ++ [k])
  | ARem k => (remove a k, ks)
  | ADrain => (reinit_fresh a, ks)
  end.
Definition arun_old (ops : list aop) : arena * list key := fold_left astep_old ops (arena_new, []).

(* what the correspondence run prints: the raw key as `KeyData::as_ffi` gives it *)
Definition ffi (k : key) : N := N.shiftl (snd k) 32 + N.of_nat (fst k).

(* driver vocabulary (harness/arena-driver): handles are numbered in creation order, handle 0 is the root scope.
   DNew = create_signal in the root scope; DScope n = a child scope of the root scope holding n signals (its handle first,
   then the signals'); DDel h = dispose handle h if it is alive (a node's children first, in creation order, then the
   node); DReinit = RootHandle::dispose: the root scope is disposed like any node, what is left is drained, and a new
   root node is inserted (the next handle). *)
Inductive dop := DNew | DDel (h : nat) | DScope (n : nat) | DReinit.

Record dstate := { ar : arena; handles : list key; owned : list (nat * list nat); droot : nat }.

Fixpoint ins_n (n : nat) (a : arena) (acc : list key) : arena * list key :=
  match n with
  | O => (a, acc)
  | S n' => let '(k, a') := insert a in ins_n n' a' (acc ++ [k])
  end.

Definition lookup_owned (h : nat) (o : list (nat * list nat)) : list nat :=
  match find (fun p => Nat.eqb (fst p) h) o with Some p => snd p | None => [] end.

Definition add_owned (h c : nat) (o : list (nat * list nat)) : list (nat * list nat) :=
  (h, lookup_owned h o ++ [c]) :: filter (fun p => negb (Nat.eqb (fst p) h)) o.

Definition rem_h (hs : list key) (a : arena) (h : nat) : arena :=
  match nth_error hs h with Some k => remove a k | None => a end.

(* NodeHandle::dispose: children first (two levels suffice for the vocabulary), then the node itself *)
Definition dispose_leafy (hs : list key) (o : list (nat * list nat)) (a : arena) (h : nat) : arena :=
  rem_h hs (fold_left (rem_h hs) (lookup_owned h o) a) h.
Definition dispose_h (hs : list key) (o : list (nat * list nat)) (a : arena) (h : nat) : arena :=
  rem_h hs (fold_left (dispose_leafy hs o) (lookup_owned h o) a) h.

Definition alive_h (d : dstate) (h : nat) : bool :=
  match nth_error (handles d) h with Some k => contains (ar d) k | None => false end.

Definition dstep (d : dstate) (o : dop) : dstate :=
  match o with
  | DNew =>
      let '(k, a') := insert (ar d) in
      {| ar := a'; handles := handles d ++ [k]; owned := add_owned (droot d) (length (handles d)) (owned d); droot := droot d |}
  | DScope n =>
      let h := length (handles d) in
      let '(a', ks) := ins_n (S n) (ar d) [] in
      {| ar := a'; handles := handles d ++ ks; owned := (h, seq (S h) n) :: add_owned (droot d) h (owned d); droot := droot d |}
  | DDel h =>
      if alive_h d h then
        {| ar := dispose_h (handles d) (owned d) (ar d) h; handles := handles d; owned := owned d; droot := droot d |}
      else d
  | DReinit =>
      let a1 := dispose_h (handles d) (owned d) (ar d) (droot d) in
      let '(k, a') := insert (reinit_drain a1) in
      {| ar := a'; handles := handles d ++ [k]; owned := owned d; droot := length (handles d) |}
  end.

Definition dinit : dstate :=
  let '(k, a) := insert arena_new in {| ar := a; handles := [k]; owned := []; droot := 0%nat |}.

(* one observation per step: (ffi, alive) of every handle *)
Definition dobs (d : dstate) : list (N * bool) := map (fun k => (ffi k, contains (ar d) k)) (handles d).

Fixpoint drun (d : dstate) (ops : list dop) : list (list (N * bool)) :=
  match ops with
  | [] => []
  | o :: r => let d' := dstep d o in dobs d' :: drun d' r
  end.

(* printed form compared with the driver's lines: `ffi:alive` of every handle, comma separated, one line per step *)
From Coq Require Import String.
From Syc Require Import Common.Show.
Definition show_obs (l : list (N * bool)) : string :=
  join "," (map (fun p => (show_N (fst p) ++ ":" ++ show_bool (snd p))%string) l).
Definition drun_show (ops : list dop) : string := lines (map show_obs (drun dinit ops)).
