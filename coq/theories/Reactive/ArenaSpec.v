(* Reactive/ArenaSpec.v -- a specification-level account of liveness for the driver of Arena.v, and the lift of the
   driver theorems of ArenaDriver.v to the compared observable `drun dinit dops`.
   Nothing in Arena.v / ArenaFacts.v / ArenaDriver.v is changed. *)
From Coq Require Import List NArith Arith Bool Lia.
From Syc Require Import Reactive.Arena Reactive.ArenaFacts Reactive.ArenaDriver.
Import ListNotations.
Open Scope N_scope.

(* ------------------------------------------------------------------ *)
(* handles only grow *)
Lemma ins_n_length n : forall a acc, length (snd (ins_n n a acc)) = (length acc + n)%nat.
Proof.
  induction n as [|n IH]; intros a acc; cbn [ins_n].
  - cbn. lia.
  - destruct (insert a) as [k a']. rewrite IH, app_length. cbn. lia.
Qed.

Lemma dstep_handles d o : exists l, handles (dstep d o) = handles d ++ l.
Proof.
  destruct o as [|h|n|]; cbn [dstep].
  - destruct (insert (ar d)) as [k a']. cbn. eauto.
  - destruct (alive_h d h); cbn; exists []; rewrite app_nil_r; auto.
  - destruct (ins_n (S n) (ar d) []) as [a' ks]. cbn. eauto.
  - destruct (insert _) as [k a']. cbn. eauto.
Qed.

Lemma fold_handles l : forall d, exists l', handles (fold_left dstep l d) = handles d ++ l'.
Proof.
  induction l as [|o l IH]; intros d; cbn [fold_left].
  - exists []. rewrite app_nil_r. auto.
  - destruct (dstep_handles d o) as [l1 E1]. destruct (IH (dstep d o)) as [l2 E2].
    exists (l1 ++ l2). rewrite E2, E1, app_assoc. auto.
Qed.

Lemma dfold_app l1 l2 : dfold (l1 ++ l2) = fold_left dstep l2 (dfold l1).
Proof. unfold dfold. apply fold_left_app. Qed.

Lemma dfold_handles_app l1 l2 : exists l', handles (dfold (l1 ++ l2)) = handles (dfold l1) ++ l'.
Proof. rewrite dfold_app. apply fold_handles. Qed.

(* the monotonicity lemma: the bound for a history implies the bound for every prefix *)
Lemma handles_length_mono l1 l2 :
  (length (handles (dfold l1)) <= length (handles (dfold (l1 ++ l2))))%nat.
Proof. destruct (dfold_handles_app l1 l2) as [l' E]. rewrite E, app_length. lia. Qed.

Lemma dbound_prefix l1 l2 : dbound (l1 ++ l2) -> dbound l1.
Proof. unfold dbound. assert (H := handles_length_mono l1 l2). lia. Qed.

Lemma dbound_firstn n dops : dbound dops -> dbound (firstn n dops).
Proof. intros H. rewrite <- (firstn_skipn n dops) in H. eapply dbound_prefix; eauto. Qed.

(* ------------------------------------------------------------------ *)
(* S3: the compared observable *)
Lemma drun_fold ops : forall d,
  drun d ops = map (fun i => dobs (fold_left dstep (firstn (S i) ops) d)) (seq 0 (length ops)).
Proof.
  induction ops as [|o r IH]; intros d; [reflexivity|].
  cbn [drun length seq map]. f_equal.
  rewrite IH, <- seq_shift, map_map. apply map_ext. intros i. reflexivity.
Qed.

Theorem drun_dfold dops :
  drun dinit dops = map (fun i => dobs (dfold (firstn (S i) dops))) (seq 0 (length dops)).
Proof. apply drun_fold. Qed.

Lemma nth_map_seq {A} (f : nat -> A) n i x :
  nth_error (map f (seq 0 n)) i = Some x -> (i < n)%nat /\ x = f i.
Proof.
  intros H. assert (Hi : (i < n)%nat).
  { assert (Hx : nth_error (map f (seq 0 n)) i <> None) by congruence.
    apply nth_error_Some in Hx. rewrite map_length, seq_length in Hx. exact Hx. }
  split; auto. rewrite (nth_error_nth' _ (f 0%nat)) in H by (rewrite map_length, seq_length; auto).
  rewrite (map_nth f (seq 0 n) 0%nat i), seq_nth in H by auto. cbn in H. congruence.
Qed.

Lemma drun_line dops i li :
  nth_error (drun dinit dops) i = Some li -> (i < length dops)%nat /\ li = dobs (dfold (firstn (S i) dops)).
Proof.
  rewrite drun_dfold. intros H.
  exact (nth_map_seq (fun i => dobs (dfold (firstn (S i) dops))) _ _ _ H).
Qed.

(* (a) every printed line has pairwise distinct raw keys *)
Theorem S3a_lines_nodup dops :
  N.of_nat (length (handles (dfold dops))) < 2147483647 ->
  Forall (fun line => NoDup (map fst line)) (drun dinit dops).
Proof.
  intros Hb. rewrite drun_dfold. apply Forall_forall. intros x Hx. apply in_map_iff in Hx.
  destruct Hx as [i [<- _]]. apply D2_obs_nodup. apply dbound_firstn. exact Hb.
Qed.

Lemma dobs_nth d j : nth_error (dobs d) j =
  match nth_error (handles d) j with Some k => Some (ffi k, contains (ar d) k) | None => None end.
Proof. unfold dobs. rewrite nth_error_map. destruct (nth_error (handles d) j); reflexivity. Qed.

Lemma firstn_le_app {A} (l : list A) i i' : (i <= i')%nat -> exists l2, firstn i' l = firstn i l ++ l2.
Proof.
  intros H. exists (skipn i (firstn i' l)).
  replace (firstn i l) with (firstn i (firstn i' l)); [symmetry; apply firstn_skipn|].
  rewrite firstn_firstn. f_equal. lia.
Qed.

(* (b) an entry printed with alive=false is printed with the same raw key and alive=false on every later line *)
Theorem S3b_dead_stays_dead_lines dops i i' j li li' x :
  N.of_nat (length (handles (dfold dops))) < 2147483647 ->
  (i <= i')%nat ->
  nth_error (drun dinit dops) i = Some li -> nth_error (drun dinit dops) i' = Some li' ->
  nth_error li j = Some (x, false) -> nth_error li' j = Some (x, false).
Proof.
  intros Hb Hle Hi Hi' Hj.
  apply drun_line in Hi. destruct Hi as [_ ->]. apply drun_line in Hi'. destruct Hi' as [_ ->].
  destruct (firstn_le_app dops (S i) (S i') ltac:(lia)) as [l2 E].
  assert (Hb' : dbound (firstn (S i') dops)) by (apply dbound_firstn; exact Hb).
  rewrite E in *. set (l1 := firstn (S i) dops) in *.
  rewrite dobs_nth in Hj. destruct (nth_error (handles (dfold l1)) j) as [k|] eqn:Ek; [|discriminate].
  inversion Hj as [[Hx Hc]]. clear Hj.
  assert (Hlt : (j < length (handles (dfold l1)))%nat) by (apply nth_error_Some; congruence).
  assert (Hd : alive_h (dfold l1) j = false) by (unfold alive_h; rewrite Ek; exact Hc).
  assert (H3 := D3_dead_stays_dead l1 l2 j Hb' Hd Hlt).
  destruct (dfold_handles_app l1 l2) as [l' El'].
  assert (Ek' : nth_error (handles (dfold (l1 ++ l2))) j = Some k) by (rewrite El', nth_error_app1; auto).
  unfold alive_h in H3. rewrite Ek' in H3.
  rewrite dobs_nth, Ek', H3, Hc. reflexivity.
Qed.

(* ------------------------------------------------------------------ *)
(* S1: abstract liveness.  The specification state never mentions the arena: the number of handles handed out, the
   ownership table, the current root and the list of live handle numbers. *)
Definition memb (x : nat) (l : list nat) : bool := existsb (Nat.eqb x) l.

Lemma memb_In x l : memb x l = true <-> In x l.
Proof.
  unfold memb. rewrite existsb_exists. split.
  - intros [y [Hy E]]. apply Nat.eqb_eq in E. subst. auto.
  - intros H. exists x. split; auto. apply Nat.eqb_refl.
Qed.

(* h, its owned children, and their owned children *)
Definition kill_set (o : list (nat * list nat)) (h : nat) : list nat :=
  h :: lookup_owned h o ++ flat_map (fun c => lookup_owned c o) (lookup_owned h o).

Record lstate := { ln : nat; lowned : list (nat * list nat); lroot : nat; llive : list nat }.

Definition lstep (s : lstate) (o : dop) : lstate :=
  match o with
  | DNew =>
      {| ln := S (ln s); lowned := add_owned (lroot s) (ln s) (lowned s); lroot := lroot s; llive := llive s ++ [ln s] |}
  | DScope n =>
      {| ln := ln s + S n; lowned := (ln s, seq (S (ln s)) n) :: add_owned (lroot s) (ln s) (lowned s); lroot := lroot s;
         llive := llive s ++ seq (ln s) (S n) |}
  | DDel h =>
      if memb h (llive s) then
        {| ln := ln s; lowned := lowned s; lroot := lroot s;
           llive := filter (fun x => negb (memb x (kill_set (lowned s) h))) (llive s) |}
      else s
  | DReinit => {| ln := S (ln s); lowned := lowned s; lroot := ln s; llive := [ln s] |}
  end.

Definition linit : lstate := {| ln := 1; lowned := []; lroot := 0; llive := [0%nat] |}.
Definition lrun (dops : list dop) : lstate := fold_left lstep dops linit.
Definition live_spec (dops : list dop) : list nat := llive (lrun dops).

Lemma lrun_snoc dops o : lrun (dops ++ [o]) = lstep (lrun dops) o.
Proof. unfold lrun. rewrite fold_left_app. reflexivity. Qed.

(* the bookkeeping part of the specification state agrees with the driver state *)
Definition agree (s : lstate) (d : dstate) : Prop :=
  ln s = length (handles d) /\ lowned s = owned d /\ lroot s = droot d.

Lemma agree_step s d o : agree s d -> agree (lstep s o) (dstep d o).
Proof.
  intros [H1 [H2 H3]]. destruct o as [|h|n|]; cbn [lstep dstep].
  - destruct (insert (ar d)) as [k a']. unfold agree. cbn [ln lowned lroot handles owned droot].
    rewrite app_length, H1, H2, H3. cbn [length]. split; [lia|auto].
  - destruct (memb h (llive s)); destruct (alive_h d h); unfold agree; cbn [ln lowned lroot handles owned droot]; auto.
  - assert (L := ins_n_length (S n) (ar d) []). destruct (ins_n (S n) (ar d) []) as [a' ks]. cbn [snd length] in L.
    unfold agree. cbn [ln lowned lroot handles owned droot]. rewrite app_length, L, H1, H2, H3. split; [lia|auto].
  - destruct (insert _) as [k a']. unfold agree. cbn [ln lowned lroot handles owned droot].
    rewrite app_length, H1, H2. cbn [length]. split; [lia|auto].
Qed.

Lemma agree_fold l : forall s d, agree s d -> agree (fold_left lstep l s) (fold_left dstep l d).
Proof. induction l as [|o l IH]; intros s d H; cbn [fold_left]; auto. apply IH. apply agree_step. exact H. Qed.

Lemma agree_run dops : agree (lrun dops) (dfold dops).
Proof. apply agree_fold. unfold agree. cbn. auto. Qed.

(* --- the key-level specification `spec` of ArenaFacts.v along a driver history --- *)
Lemma srun_app p l1 l2 : srun p (l1 ++ l2) = srun (srun p l1) l2.
Proof. apply fold_left_app. Qed.

Lemma srun_pair dops :
  srun ((arena_new, []), []) (hist dops) = ((ar (dfold dops), handles (dfold dops)), spec (hist dops)).
Proof.
  destruct (sim_dfold dops) as [E _]. rewrite (surjective_pairing (srun _ _)). f_equal.
  rewrite fst_srun. cbn [fst]. rewrite <- arun_frun. exact E.
Qed.

Lemma spec_snoc dops o :
  spec (hist (dops ++ [o])) =
  snd (srun ((ar (dfold dops), handles (dfold dops)), spec (hist dops)) (dstep_ops (dfold dops) o)).
Proof.
  unfold spec at 1. rewrite hist_app. cbn [dops_ops]. rewrite app_nil_r, srun_app, srun_pair. reflexivity.
Qed.

Lemma srun_rems hs l : ro hs l -> forall p k, In k (snd (srun p l)) <-> In k (snd p) /\ ~ In (ARem k) l.
Proof.
  induction 1 as [|o l Ho _ IH]; intros p k.
  - cbn. tauto.
  - change (srun p (o :: l)) with (srun (sstep p o) l). rewrite IH.
    destruct o as [|k1|]; cbn in Ho; try contradiction.
    cbn [sstep snd]. rewrite filter_In, negb_true_iff, <- not_true_iff_false, key_eqb_spec. cbn [In]. split.
    + intros [[H1 H2] H3]. split; auto. intros [E|E]; [inversion E; subst; auto|auto].
    + intros [H1 H2]. split; [split|]; auto. intros ->. apply H2. left. auto.
Qed.

Lemma in_rem_ops hs h k : In (ARem k) (rem_ops hs h) <-> nth_error hs h = Some k.
Proof.
  unfold rem_ops. destruct (nth_error hs h) as [k'|]; cbn.
  - split; [intros [E|[]]; inversion E; auto|intros E; inversion E; auto].
  - split; [tauto|discriminate].
Qed.

Lemma in_leafy hs o h k :
  In (ARem k) (leafy_ops hs o h) <-> exists x, In x (h :: lookup_owned h o) /\ nth_error hs x = Some k.
Proof.
  unfold leafy_ops. rewrite in_app_iff, in_flat_map, in_rem_ops. split.
  - intros [[x [Hx H]]|H].
    + exists x. split; [right; auto|apply in_rem_ops; auto].
    + exists h. split; [left; auto|auto].
  - intros [x [[<-|Hx] H]]; [right; auto|]. left. exists x. split; auto. apply in_rem_ops. auto.
Qed.

Lemma in_dispose hs o h k :
  In (ARem k) (dispose_ops hs o h) <-> exists x, In x (kill_set o h) /\ nth_error hs x = Some k.
Proof.
  unfold dispose_ops, kill_set. rewrite in_app_iff, in_flat_map, in_rem_ops. split.
  - intros [[c [Hc H]]|H].
    + apply in_leafy in H. destruct H as [x [[<-|Hx] H]].
      * exists c. split; auto. right. apply in_or_app. left. auto.
      * exists x. split; auto. right. apply in_or_app. right. apply in_flat_map. exists c. auto.
    + exists h. split; [left; auto|auto].
  - intros [x [[<-|Hx] H]]; [right; auto|]. apply in_app_or in Hx. destruct Hx as [Hx|Hx].
    + left. exists x. split; auto. apply in_leafy. exists x. split; [left; auto|auto].
    + apply in_flat_map in Hx. destruct Hx as [c [Hc Hx]]. left. exists c. split; auto.
      apply in_leafy. exists x. split; [right; auto|auto].
Qed.

Lemma srun_ins_n n : forall a hs K, snd (srun ((a, hs), K) (repeat AIns n)) = K ++ snd (ins_n n a []).
Proof.
  induction n as [|n IH]; intros a hs K; cbn [repeat].
  - cbn. rewrite app_nil_r. auto.
  - change (srun (a, hs, K) (AIns :: repeat AIns n)) with (srun (sstep (a, hs, K) AIns) (repeat AIns n)).
    unfold sstep. cbn [fst snd]. rewrite astep_ins, IH. cbn [ins_n].
    destruct (insert a) as [k a'] eqn:E. cbn [fst snd].
    rewrite (ins_n_acc n a' ([] ++ [k])). cbn [snd app]. rewrite <- app_assoc. reflexivity.
Qed.

Lemma srun_reinit d K :
  snd (srun ((ar d, handles d), K) (dispose_ops (handles d) (owned d) (droot d) ++ [ADrain; AIns])) =
  [fst (insert (reinit_drain (dispose_h (handles d) (owned d) (ar d) (droot d))))].
Proof.
  rewrite srun_app. set (q := srun _ (dispose_ops _ _ _)).
  assert (Hq : fst q = (dispose_h (handles d) (owned d) (ar d) (droot d), handles d)).
  { unfold q. rewrite fst_srun. cbn [fst]. apply frun_dispose. }
  unfold srun at 1. cbn [fold_left]. unfold sstep. cbn [fst snd]. rewrite Hq. cbn [astep fst snd app]. reflexivity.
Qed.

(* --- the relation between live keys and live handle numbers --- *)
Definition relh (hs : list key) (K : list key) (L : list nat) : Prop :=
  Forall (fun h => (h < length hs)%nat) L /\
  forall h k, nth_error hs h = Some k -> (In k K <-> In h L).

Lemma nodup_app_disj {A} (l1 l2 : list A) x : NoDup (l1 ++ l2) -> In x l1 -> ~ In x l2.
Proof.
  induction l1 as [|a l1 IH]; intros Hn Hin; [destruct Hin|].
  cbn in Hn. inversion Hn as [|? ? Ha Hn']; subst. destruct Hin as [->|Hin].
  - intros H. apply Ha. apply in_or_app. auto.
  - apply IH; auto.
Qed.

Lemma rel_extend hs ks K L :
  NoDup (hs ++ ks) -> relh hs K L -> relh (hs ++ ks) (K ++ ks) (L ++ seq (length hs) (length ks)).
Proof.
  intros Hnd [HF Hrel]. split.
  - apply Forall_app. split.
    + eapply Forall_impl; [|exact HF]. cbn beta. intros h Hh. rewrite app_length. lia.
    + apply Forall_forall. intros h Hh. apply in_seq in Hh. rewrite app_length. lia.
  - intros h k Hn. rewrite !in_app_iff, in_seq. destruct (Nat.lt_ge_cases h (length hs)) as [Hlt|Hge].
    + rewrite nth_error_app1 in Hn by auto. rewrite (Hrel h k Hn).
      assert (Hk : ~ In k ks) by (eapply nodup_app_disj; eauto; eapply nth_error_In; eauto).
      split; (intros [H1|H1]; [left; auto|]); [contradiction|lia].
    + rewrite nth_error_app2 in Hn by auto.
      assert (Hin : In k ks) by (eapply nth_error_In; eauto).
      assert (Hx : (h - length hs < length ks)%nat) by (apply nth_error_Some; congruence).
      split; intros _; right; [lia|auto].
Qed.

Lemma alive_iff_K dops h k :
  dbound dops -> nth_error (handles (dfold dops)) h = Some k ->
  (alive_h (dfold dops) h = true <-> In k (spec (hist dops))).
Proof.
  intros Hb Hn. destruct (sim_dfold dops) as [E O].
  assert (H := arena_refines_set (hist dops) k (dbound_bound _ Hb) O). rewrite E in H. cbn [fst snd] in H.
  unfold alive_h. rewrite Hn. apply H. eapply nth_error_In; eauto.
Qed.

Lemma alive_iff_L dops :
  dbound dops -> relh (handles (dfold dops)) (spec (hist dops)) (live_spec dops) ->
  forall h, alive_h (dfold dops) h = true <-> In h (live_spec dops).
Proof.
  intros Hb [HF Hrel] h. destruct (nth_error (handles (dfold dops)) h) as [k|] eqn:En.
  - rewrite (alive_iff_K dops h k Hb En). apply Hrel. exact En.
  - unfold alive_h. rewrite En. split; [discriminate|]. intros Hin.
    rewrite Forall_forall in HF. apply HF in Hin. apply nth_error_None in En. lia.
Qed.

Lemma dnew_handles d : handles (dstep d DNew) = handles d ++ [fst (insert (ar d))].
Proof. cbn [dstep]. destruct (insert (ar d)). reflexivity. Qed.

Lemma dscope_handles d n : handles (dstep d (DScope n)) = handles d ++ snd (ins_n (S n) (ar d) []).
Proof. cbn [dstep]. destruct (ins_n (S n) (ar d) []). reflexivity. Qed.

Lemma spec_rel dops : dbound dops -> relh (handles (dfold dops)) (spec (hist dops)) (live_spec dops).
Proof.
  induction dops as [|o dops IH] using rev_ind; intros Hb.
  - change (relh [(1%nat, 1)] [(1%nat, 1)] [0%nat]). split; [repeat constructor|].
    intros [|[|h]] k Hn; cbn in Hn; inversion Hn; subst. cbn. tauto.
  - assert (Hb0 := dbound_prefix _ _ Hb). specialize (IH Hb0).
    assert (Hal := alive_iff_L dops Hb0 IH).
    assert (Hnd' := D2_handles_nodup _ Hb). assert (Hnd := D2_handles_nodup _ Hb0).
    destruct (agree_run dops) as [A1 [A2 A3]].
    unfold live_spec in *. rewrite spec_snoc, lrun_snoc. rewrite dfold_snoc in *.
    set (d := dfold dops) in *. set (s := lrun dops) in *. set (K := spec (hist dops)) in *.
    destruct o as [|h0|n|].
    + rewrite dnew_handles in *. cbn [dstep_ops lstep llive].
      change (srun (ar d, handles d, K) [AIns]) with (sstep (ar d, handles d, K) AIns). cbn [sstep snd fst].
      rewrite A1. apply (rel_extend (handles d) [fst (insert (ar d))] K (llive s)); auto.
    + cbn [dstep_ops lstep dstep] in *. specialize (Hal h0). rewrite <- memb_In in Hal.
      destruct (alive_h d h0) eqn:Ea; destruct (memb h0 (llive s)) eqn:Em;
        try (exfalso; destruct Hal as [Hx Hy]; (discriminate (Hx eq_refl) || discriminate (Hy eq_refl))).
      * cbn [handles llive]. destruct IH as [HF Hrel]. split.
        -- apply Forall_forall. intros x Hx. apply filter_In in Hx. rewrite Forall_forall in HF. apply HF. tauto.
        -- intros h k Hn.
           rewrite (srun_rems (handles d) _ (ro_dispose (handles d) (owned d) h0)). cbn [snd].
           rewrite in_dispose, filter_In, negb_true_iff, <- not_true_iff_false, memb_In, A2, (Hrel h k Hn).
           assert (Hq : (exists x, In x (kill_set (owned d) h0) /\ nth_error (handles d) x = Some k) <->
                        In h (kill_set (owned d) h0)).
           { split.
             - intros [x [Hx Hxn]]. replace h with x; auto.
               apply (proj1 (NoDup_nth_error (handles d)) Hnd); [apply nth_error_Some|]; congruence.
             - intros Hx. exists h. auto. }
           rewrite Hq. tauto.
      * cbn. exact IH.
    + rewrite dscope_handles in *. cbn [dstep_ops lstep llive].
      rewrite srun_ins_n, A1.
      assert (L := ins_n_length (S n) (ar d) []). cbn [length Nat.add] in L.
      set (ks := snd (ins_n (S n) (ar d) [])) in *. rewrite <- L.
      apply rel_extend; auto.
    + destruct (reinit_shape d) as [_ Hhs]. cbn zeta in Hhs. rewrite Hhs in *.
      cbn [dstep_ops lstep llive]. rewrite srun_reinit, A1.
      apply (rel_extend (handles d) [_] [] []); auto.
      split; [constructor|]. intros h k _. cbn. tauto.
Qed.

Theorem driver_alive_iff_spec dops h :
  N.of_nat (length (handles (dfold dops))) < 2147483647 ->
  (h < length (handles (dfold dops)))%nat ->
  (alive_h (dfold dops) h = true <-> In h (live_spec dops)).
Proof. intros Hb _. apply alive_iff_L; auto. apply spec_rel; auto. Qed.

(* the hypothesis `h < length (handles ...)` is not needed: live_spec only contains handed-out numbers *)
Theorem driver_alive_iff_spec_all dops h :
  N.of_nat (length (handles (dfold dops))) < 2147483647 ->
  (alive_h (dfold dops) h = true <-> In h (live_spec dops)).
Proof. intros Hb. apply alive_iff_L; auto. apply spec_rel; auto. Qed.

(* ------------------------------------------------------------------ *)
(* S2: DDel exactness *)
Lemma live_spec_del dops h :
  In h (live_spec dops) ->
  live_spec (dops ++ [DDel h]) =
  filter (fun x => negb (memb x (kill_set (owned (dfold dops)) h))) (live_spec dops).
Proof.
  unfold live_spec. rewrite lrun_snoc. cbn [lstep]. intros H. apply memb_In in H. rewrite H. cbn [llive].
  destruct (agree_run dops) as [_ [A2 _]]. rewrite A2. reflexivity.
Qed.

Lemma live_spec_del_dead dops h : ~ In h (live_spec dops) -> live_spec (dops ++ [DDel h]) = live_spec dops.
Proof.
  unfold live_spec. rewrite lrun_snoc. cbn [lstep]. intros H. rewrite <- memb_In in H.
  destruct (memb h (llive (lrun dops))); [exfalso; auto|reflexivity].
Qed.

Theorem S2_del_exact dops h :
  N.of_nat (length (handles (dfold (dops ++ [DDel h])))) < 2147483647 ->
  alive_h (dfold dops) h = true ->
  alive_h (dfold (dops ++ [DDel h])) h = false /\
  (forall x, In x (kill_set (owned (dfold dops)) h) -> alive_h (dfold (dops ++ [DDel h])) x = false) /\
  (forall x, ~ In x (kill_set (owned (dfold dops)) h) ->
             alive_h (dfold (dops ++ [DDel h])) x = alive_h (dfold dops) x).
Proof.
  intros Hb Ha. assert (Hb0 : dbound dops) by (eapply dbound_prefix; exact Hb).
  assert (Hin : In h (live_spec dops)) by (apply driver_alive_iff_spec_all; auto).
  assert (E := live_spec_del dops h Hin).
  assert (Hx : forall x, alive_h (dfold (dops ++ [DDel h])) x = true <->
                         alive_h (dfold dops) x = true /\ ~ In x (kill_set (owned (dfold dops)) h)).
  { intros x. rewrite (driver_alive_iff_spec_all _ x Hb), E, filter_In, negb_true_iff, <- not_true_iff_false, memb_In.
    rewrite (driver_alive_iff_spec_all _ x Hb0). tauto. }
  assert (Hk : forall x, In x (kill_set (owned (dfold dops)) h) -> alive_h (dfold (dops ++ [DDel h])) x = false).
  { intros x Hxin. apply not_true_iff_false. intros Ht. apply Hx in Ht. tauto. }
  split; [apply Hk; left; auto|]. split; [exact Hk|].
  intros x Hn. apply eq_true_iff_eq. rewrite Hx. tauto.
Qed.

(* a DDel of a handle that is not alive changes nothing at all *)
Lemma S2_del_dead_noop dops h : alive_h (dfold dops) h = false -> dfold (dops ++ [DDel h]) = dfold dops.
Proof. intros H. rewrite dfold_snoc. cbn [dstep]. rewrite H. reflexivity. Qed.

(* ------------------------------------------------------------------ *)
(* non-vacuity: ex_dops = [DNew; DNew; DDel 1; DNew; DScope 2; DDel 4; DNew; DReinit; DNew; DNew] *)
Example ex_dops_is : ex_dops = [DNew; DNew; DDel 1; DNew; DScope 2; DDel 4; DNew; DReinit; DNew; DNew].
Proof. reflexivity. Qed.

Example ex_S3_bound : N.of_nat (length (handles (dfold ex_dops))) < 2147483647.
Proof. vm_compute. reflexivity. Qed.

Example ex_S3_drun :
  length (drun dinit ex_dops) = 10%nat /\
  nth_error (drun dinit ex_dops) 2 = Some [(4294967297, true); (4294967298, false); (4294967299, true)] /\
  nth_error (drun dinit ex_dops) 9 =
    Some [(4294967297, false); (4294967298, false); (4294967299, false); (12884901890, false); (4294967300, false);
          (4294967301, false); (4294967302, false); (12884901892, false); (12884901889, true);
          (21474836484, true); (21474836482, true)].
Proof. vm_compute. auto. Qed.

Example ex_S3a_applied : Forall (fun line => NoDup (map fst line)) (drun dinit ex_dops).
Proof. apply S3a_lines_nodup. exact ex_S3_bound. Qed.

(* handle 1 is printed dead on line 2 (after DDel 1), hence on line 9, although its slot is re-used twice *)
Example ex_S3b_applied :
  forall li', nth_error (drun dinit ex_dops) 9 = Some li' -> nth_error li' 1 = Some (4294967298, false).
Proof.
  intros li' H.
  apply (S3b_dead_stays_dead_lines ex_dops 2 9 1
           [(4294967297, true); (4294967298, false); (4294967299, true)] li' 4294967298 ex_S3_bound);
    [lia|vm_compute; reflexivity|exact H|reflexivity].
Qed.

Example ex_S1 :
  live_spec ex_dops1 = [0; 2; 3; 7]%nat /\
  map (alive_h (dfold ex_dops1)) (seq 0 8) = [true; false; true; true; false; false; false; true] /\
  live_spec ex_dops = [8; 9; 10]%nat /\
  map (alive_h (dfold ex_dops)) (seq 0 11) = [false; false; false; false; false; false; false; false; true; true; true] /\
  live_spec [DNew; DNew; DDel 1; DNew; DScope 2] = [0; 2; 3; 4; 5; 6]%nat.
Proof. vm_compute. auto. Qed.

Example ex_S1_applied : alive_h (dfold ex_dops) 9 = true /\ alive_h (dfold ex_dops) 3 = false.
Proof.
  split.
  - apply (driver_alive_iff_spec ex_dops 9 ex_S3_bound); [vm_compute; lia|vm_compute; auto 12].
  - apply not_true_iff_false. intros H.
    apply (driver_alive_iff_spec ex_dops 3 ex_S3_bound) in H; [|vm_compute; lia].
    vm_compute in H. intuition discriminate.
Qed.

(* DDel 4 on the scope with signals 5, 6; and DDel 0 on the root: children 1, 2 and the grandchildren 3, 4 *)
Definition ex_del : list dop := [DNew; DNew; DDel 1; DNew; DScope 2].
Example ex_S2 :
  N.of_nat (length (handles (dfold (ex_del ++ [DDel 4])))) < 2147483647 /\
  alive_h (dfold ex_del) 4 = true /\
  kill_set (owned (dfold ex_del)) 4 = [4; 5; 6]%nat /\
  map (alive_h (dfold ex_del)) (seq 0 7) = [true; false; true; true; true; true; true] /\
  map (alive_h (dfold (ex_del ++ [DDel 4]))) (seq 0 7) = [true; false; true; true; false; false; false] /\
  kill_set (owned (dfold [DNew; DScope 2])) 0 = [0; 1; 2; 3; 4]%nat /\
  map (alive_h (dfold ([DNew; DScope 2] ++ [DDel 0]))) (seq 0 5) = [false; false; false; false; false].
Proof. vm_compute. repeat split; reflexivity. Qed.

Example ex_S2_applied :
  alive_h (dfold (ex_del ++ [DDel 4])) 5 = false /\
  alive_h (dfold (ex_del ++ [DDel 4])) 3 = alive_h (dfold ex_del) 3.
Proof.
  destruct (S2_del_exact ex_del 4) as [_ [Hk Hn]]; [apply ex_S2|apply ex_S2|].
  split; [apply Hk|apply Hn]; vm_compute; intuition discriminate.
Qed.

Print Assumptions drun_dfold.
Print Assumptions handles_length_mono.
Print Assumptions S3a_lines_nodup.
Print Assumptions S3b_dead_stays_dead_lines.
Print Assumptions driver_alive_iff_spec.
Print Assumptions driver_alive_iff_spec_all.
Print Assumptions S2_del_exact.

(* ------------------------------------------------------------------ *)
(* S1 on the compared observable: the alive flag of entry j of printed line i is exactly membership of j in the
   arena-free specification of the history up to that line *)
Theorem S3c_line_alive_is_spec dops i li j x b :
  N.of_nat (length (handles (dfold dops))) < 2147483647 ->
  nth_error (drun dinit dops) i = Some li -> nth_error li j = Some (x, b) ->
  b = memb j (live_spec (firstn (S i) dops)) /\ length li = ln (lrun (firstn (S i) dops)).
Proof.
  intros Hb Hi Hj. apply drun_line in Hi. destruct Hi as [_ ->].
  assert (Hb' : dbound (firstn (S i) dops)) by (apply dbound_firstn; exact Hb).
  set (l1 := firstn (S i) dops) in *. split.
  - rewrite dobs_nth in Hj. destruct (nth_error (handles (dfold l1)) j) as [k|] eqn:Ek; [|discriminate].
    inversion Hj as [[Hx Hc]]. apply eq_true_iff_eq. rewrite memb_In, <- (driver_alive_iff_spec_all l1 j Hb').
    unfold alive_h. rewrite Ek. tauto.
  - unfold dobs. rewrite map_length. destruct (agree_run l1) as [A1 _]. auto.
Qed.

Example ex_S3c :
  map (fun i => (ln (lrun (firstn (S i) ex_dops)), live_spec (firstn (S i) ex_dops))) (seq 0 10) =
  [(2, [0; 1]); (3, [0; 1; 2]); (3, [0; 2]); (4, [0; 2; 3]); (7, [0; 2; 3; 4; 5; 6]); (7, [0; 2; 3]);
   (8, [0; 2; 3; 7]); (9, [8]); (10, [8; 9]); (11, [8; 9; 10])]%nat /\
  map (map snd) (drun dinit ex_dops) =
  map (fun i => map (fun j => memb j (live_spec (firstn (S i) ex_dops))) (seq 0 (ln (lrun (firstn (S i) ex_dops)))))
      (seq 0 10).
Proof. vm_compute. auto. Qed.

Print Assumptions S3c_line_alive_is_spec.
