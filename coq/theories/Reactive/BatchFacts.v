(* Reactive/BatchFacts.v -- C10: batch defers all reactions to the end of the outermost batch (fx = true).

   1. [batch_defers]: while [batching] is set, [propagate_updates] only appends to the queue.
   2. [bexec] .. [bdispose_list]: the interpreter with everything that propagates removed (no [propagate],
      [loop], [run_node_update]; a write queues its node; a batch inside a batch only brackets the log).
      [batched_exec]: while [batching] is set, the full interpreter IS this interpreter, for all programs
      (bodies that create effects, dispose scopes, run cleanups, nest batches ...), and the flag is still
      set afterwards.  So inside a batch no node update ever runs.
   3. [outermost_batch]: the outermost SBatch runs its body in the batched interpreter, then resets the
      flag, takes the queue and propagates once.
   4. [batch_quiet_log]: for bodies that neither create computations nor dispose anything, the log between
      "batch true" and the "batch false" of the outermost batch contains no run/end/eff event. *)
From stdpp Require Import gmap list.
From Coq Require Import ZArith Lia.
From Syc Require Import Reactive.Syntax Reactive.Interp Reactive.Show Reactive.Frame.
Open Scope Z_scope.

Theorem batch_defers : forall fx f id s, batching s = true ->
  propagate_updates fx (S f) id s = Ok tt (set_queue (queue s ++ [id]) s).
Proof. intros fx f id s Hb. rewrite propagate_updates_S, Hb. reflexivity. Qed.

(* ---------------------------------------------------------------------------------- *)
(* the interpreter without propagation (generated from the text of Interp.v: fx := true, the SSet and
   SBatch cases specialised to batching = true, the five propagating functions dropped) *)

Fixpoint bexec (f : nat) (en : env) (ss : list stmt) (s : state) {struct f} : res env :=
  match f with
  | O => Err OutOfFuel s
  | S f' =>
      match ss with
      | [] => Ok en s
      | st :: rest => do en1, s1 <- bexec1 f' en st s; bexec f' en1 rest s1
      end
  end

with bexec1 (f : nat) (en : env) (st : stmt) (s : state) {struct f} : res env :=
  match f with
  | O => Err OutOfFuel s
  | S f' =>
      match st with
      | SSignal x e =>
          do v, s1 <- eval en e s;
          do id, s2 <- create_empty true s1;
          Ok ((x, BNode id) :: en) (register x id (upd id (nd_value (Some v)) s2))
      | SMemo x b => bcreate_computation f' en x KMemo b s
      | SSelector x k b => bcreate_computation f' en x (KSel k) b s
      | SEffect x b => bcreate_computation f' en x KEffect b s
      | SScope x ss =>
          (* create_child_scope: a unit signal; ownership boundary, not a tracking boundary *)
          do id, s1 <- create_empty true s;
          let s2 := register x id (upd id (nd_value (Some 0)) s1) in
          let prev := current s2 in
          do _, s3 <- bexec f' en ss (set_current (Some id) s2);
          Ok ((x, BNode id) :: en) (set_current prev s3)
      | SCurScope x =>
          match current s with
          | Some c => Ok ((x, BNode c) :: en) s
          | None => Err IllFormed s
          end
      | SSet x e =>
          do v, s1 <- eval en e s;
          match lookup_env x en with
          | Some (BNode id) =>
              do _, s2 <- update_silent id v s1;
              (* propagate_updates while batching: queue the node (one unit of fuel, as in the model) *)
              match f' with
              | O => Err OutOfFuel s2
              | S _ => Ok en (set_queue (queue s2 ++ [id]) s2)
              end
          | _ => Err IllFormed s1
          end
      | SSetSilent x e =>
          do v, s1 <- eval en e s;
          match lookup_env x en with
          | Some (BNode id) => do _, s2 <- update_silent id v s1; Ok en s2
          | _ => Err IllFormed s1
          end
      | SDispose x =>
          match lookup_env x en with
          | Some (BNode id) => do _, s1 <- bdispose f' id s; Ok en s1
          | _ => Err IllFormed s
          end
      | SBatch ss =>
          (* an inner batch: no propagation at its end *)
          do _, s1 <- bexec f' en ss (emit (EvBatch true) (set_batching true s));
          Ok en (emit (EvBatch false) s1)
      | SUntrack ss | SComponent ss =>
          let prev := tracker s in
          do _, s1 <- bexec f' en ss (set_tracker None s);
          Ok en (set_tracker prev s1)
      | SOnCleanup l ss =>
          match current s with
          | None => Ok en (emit (EvReg l) s)
          | Some c =>
              if alive c s then Ok en (upd c (fun n => nd_cleanups (n_cleanups n ++ [Cleanup l en ss]) n) (emit (EvReg l) s))
              else if true then
                (* the scope is already disposed: the cleanup runs at once, untracked *)
                let prevt := tracker s in
                do _, s1 <- bexec f' en ss (emit (EvCleanup l) (set_tracker None (emit (EvReg l) s)));
                Ok en (set_tracker prevt s1)
              else Err (Runtime 10) s
          end
      | SProvide ty e =>
          do v, s1 <- eval en e s;
          do _, s2 <- provide true ty v s1;
          Ok en s2
      | SUseCtx ty =>
          do r, s1 <- try_use_context true ty s;
          Ok en (emit (EvCtx ty r) s1)
      | SRunIn x ss =>
          match lookup_env x en with
          | Some (BNode id) =>
              let prev := current s in
              do _, s1 <- bexec f' en ss (set_current (Some id) s);
              Ok en (set_current prev s1)
          | _ => Err IllFormed s
          end
      | STrack x =>
          match lookup_env x en with
          | Some (BNode id) => Ok en (emit (EvTrack x) (track id s))
          | _ => Err IllFormed s
          end
      | SIf e a b =>
          do v, s1 <- eval en e s;
          do _, s2 <- bexec f' en (if v =? 0 then b else a) s1;
          Ok en s2
      | SCellNew c e =>
          do v, s1 <- eval en e s;
          let k := next_cell s1 in
          Ok ((c, BCell k) :: en) (set_next_cell (S k) (set_cells (insert k v) s1))
      | SCellSet c e =>
          do v, s1 <- eval en e s;
          match lookup_env c en with
          | Some (BCell k) => Ok en (set_cells (insert k v) s1)
          | _ => Err IllFormed s1
          end
      | SLog e => do v, s1 <- eval en e s; Ok en (emit (EvLog v) s1)
      end
  end

with brun_body (f : nat) (c : clo) (s : state) {struct f} : res Z :=
  match f with
  | O => Err OutOfFuel s
  | S f' =>
      let '(Body on ss ret) := c_body c in
      let s0 := emit (EvRun (c_name c)) s in
      let fin (v : Z) (s : state) : res Z :=
        Ok v (emit (EvEnd (c_name c))
                (match c_kind c with KEffect => emit (EvEff (c_name c) v) s | _ => s end)) in
      match on with
      | None =>
          do en1, s1 <- bexec f' (c_env c) ss s0;
          do v, s2 <- eval en1 ret s1;
          fin v s2
      | Some deps =>
          let tr := fold_left (fun (r : option state) x =>
                      match r with
                      | Some s => match lookup_env x (c_env c) with
                                  | Some (BNode id) => Some (emit (EvTrack x) (track id s))
                                  | _ => None
                                  end
                      | None => None
                      end) deps (Some s0) in
          match tr with
          | None => Err IllFormed s0
          | Some s1 =>
              let prev := tracker s1 in
              do en1, s2 <- bexec f' (c_env c) ss (set_tracker None s1);
              do v, s3 <- eval en1 ret s2;
              fin v (set_tracker prev s3)
          end
      end
  end

with bcreate_computation (f : nat) (en : env) (x : nat) (k : ckind) (b : body) (s : state) {struct f} : res env :=
  match f with
  | O => Err OutOfFuel s
  | S f' =>
      do id, s1 <- create_empty true s;
      let s2 := register x id s1 in
      let c := Clo x k en b in
      let prev := current s2 in
      let prevt := tracker s2 in
      do v, s3 <- brun_body f' c (set_tracker (Some []) (set_current (Some id) s2));
      let tracked := match tracker s3 with Some t => t | None => [] end in
      let s4 := set_current prev (set_tracker prevt s3) in
      if true && negb (alive id s4) then
        (* the computation destroyed itself during its first run *)
        Ok ((x, BNode id) :: en) s4
      else
      do _, s5 <- link true id tracked s4;
      if alive id s5 then
        Ok ((x, BNode id) :: en)
           (upd id (fun n => nd_cb (Some c) (nd_value (Some (match k with KEffect => 0 | _ => v end)) n)) s5)
      else Err (Runtime 4) s5
  end

with bdispose (f : nat) (id : nat) (s : state) {struct f} : res unit :=
  match f with
  | O => Err OutOfFuel s
  | S f' =>
      do _, s1 <- bdispose_children f' id (unsubscribe true id s);
      match nodes s1 !! id with
      | None => Ok tt s1
      | Some this =>
          let s2 := set_nodes (delete id) s1 in
          let s3 := foldr (fun d acc => upd d (nd_deps (remove_id id)) acc) s2 (n_dependents this) in
          let s4 := if true then foldr (fun d acc => upd d (nd_dependents (remove_id id)) acc) s3 (n_deps this)
                    else s3 in
          Ok tt s4
      end
  end

with bdispose_children (f : nat) (id : nat) (s : state) {struct f} : res unit :=
  match f with
  | O => Err OutOfFuel s
  | S f' =>
      match nodes s !! id with
      | None => Ok tt s
      | Some nd =>
          let s1 := upd id (fun n => nd_children [] (nd_cleanups [] n)) s in
          let prevt := tracker s1 in
          do _, s2 <- brun_cleanups f' (n_cleanups nd) (set_tracker None s1);
          let s3 := set_tracker prevt s2 in
          do _, s4 <- bdispose_list f' (n_children nd) s3;
          match nodes s4 !! id with
          | Some nd' =>
              (* fix of F20: cleanups may have created nodes / registered cleanups in this very scope: go round again *)
              if true && negb (match n_cleanups nd', n_children nd' with [], [] => true | _, _ => false end)
              then bdispose_children f' id s4
              else Ok tt (upd id (nd_context []) s4)
          | None => if true then Ok tt s4 else Err (Runtime 11) s4
          end
      end
  end

with brun_cleanups (f : nat) (cs : list cleanup) (s : state) {struct f} : res unit :=
  match f with
  | O => Err OutOfFuel s
  | S f' =>
      match cs with
      | [] => Ok tt s
      | c :: r =>
          do _, s1 <- bexec f' (cl_env c) (cl_ss c) (emit (EvCleanup (cl_label c)) s);
          brun_cleanups f' r s1
      end
  end

with bdispose_list (f : nat) (ids : list nat) (s : state) {struct f} : res unit :=
  match f with
  | O => Err OutOfFuel s
  | S f' =>
      match ids with
      | [] => Ok tt s
      | i :: r => do _, s1 <- bdispose f' i s; bdispose_list f' r s1
      end
  end.

Lemma bexec_S (f' : nat) (en : env) (ss : list stmt) (s : state) :
  bexec (S f') en ss s =
      match ss with
      | [] => Ok en s
      | st :: rest => do en1, s1 <- bexec1 f' en st s; bexec f' en1 rest s1
      end.
Proof. reflexivity. Qed.

Lemma bexec_O (en : env) (ss : list stmt) (s : state) : bexec O en ss s = Err OutOfFuel s.
Proof. reflexivity. Qed.

Lemma bexec1_S (f' : nat) (en : env) (st : stmt) (s : state) :
  bexec1 (S f') en st s =
      match st with
      | SSignal x e =>
          do v, s1 <- eval en e s;
          do id, s2 <- create_empty true s1;
          Ok ((x, BNode id) :: en) (register x id (upd id (nd_value (Some v)) s2))
      | SMemo x b => bcreate_computation f' en x KMemo b s
      | SSelector x k b => bcreate_computation f' en x (KSel k) b s
      | SEffect x b => bcreate_computation f' en x KEffect b s
      | SScope x ss =>
          (* create_child_scope: a unit signal; ownership boundary, not a tracking boundary *)
          do id, s1 <- create_empty true s;
          let s2 := register x id (upd id (nd_value (Some 0)) s1) in
          let prev := current s2 in
          do _, s3 <- bexec f' en ss (set_current (Some id) s2);
          Ok ((x, BNode id) :: en) (set_current prev s3)
      | SCurScope x =>
          match current s with
          | Some c => Ok ((x, BNode c) :: en) s
          | None => Err IllFormed s
          end
      | SSet x e =>
          do v, s1 <- eval en e s;
          match lookup_env x en with
          | Some (BNode id) =>
              do _, s2 <- update_silent id v s1;
              (* propagate_updates while batching: queue the node (one unit of fuel, as in the model) *)
              match f' with
              | O => Err OutOfFuel s2
              | S _ => Ok en (set_queue (queue s2 ++ [id]) s2)
              end
          | _ => Err IllFormed s1
          end
      | SSetSilent x e =>
          do v, s1 <- eval en e s;
          match lookup_env x en with
          | Some (BNode id) => do _, s2 <- update_silent id v s1; Ok en s2
          | _ => Err IllFormed s1
          end
      | SDispose x =>
          match lookup_env x en with
          | Some (BNode id) => do _, s1 <- bdispose f' id s; Ok en s1
          | _ => Err IllFormed s
          end
      | SBatch ss =>
          (* an inner batch: no propagation at its end *)
          do _, s1 <- bexec f' en ss (emit (EvBatch true) (set_batching true s));
          Ok en (emit (EvBatch false) s1)
      | SUntrack ss | SComponent ss =>
          let prev := tracker s in
          do _, s1 <- bexec f' en ss (set_tracker None s);
          Ok en (set_tracker prev s1)
      | SOnCleanup l ss =>
          match current s with
          | None => Ok en (emit (EvReg l) s)
          | Some c =>
              if alive c s then Ok en (upd c (fun n => nd_cleanups (n_cleanups n ++ [Cleanup l en ss]) n) (emit (EvReg l) s))
              else if true then
                (* the scope is already disposed: the cleanup runs at once, untracked *)
                let prevt := tracker s in
                do _, s1 <- bexec f' en ss (emit (EvCleanup l) (set_tracker None (emit (EvReg l) s)));
                Ok en (set_tracker prevt s1)
              else Err (Runtime 10) s
          end
      | SProvide ty e =>
          do v, s1 <- eval en e s;
          do _, s2 <- provide true ty v s1;
          Ok en s2
      | SUseCtx ty =>
          do r, s1 <- try_use_context true ty s;
          Ok en (emit (EvCtx ty r) s1)
      | SRunIn x ss =>
          match lookup_env x en with
          | Some (BNode id) =>
              let prev := current s in
              do _, s1 <- bexec f' en ss (set_current (Some id) s);
              Ok en (set_current prev s1)
          | _ => Err IllFormed s
          end
      | STrack x =>
          match lookup_env x en with
          | Some (BNode id) => Ok en (emit (EvTrack x) (track id s))
          | _ => Err IllFormed s
          end
      | SIf e a b =>
          do v, s1 <- eval en e s;
          do _, s2 <- bexec f' en (if v =? 0 then b else a) s1;
          Ok en s2
      | SCellNew c e =>
          do v, s1 <- eval en e s;
          let k := next_cell s1 in
          Ok ((c, BCell k) :: en) (set_next_cell (S k) (set_cells (insert k v) s1))
      | SCellSet c e =>
          do v, s1 <- eval en e s;
          match lookup_env c en with
          | Some (BCell k) => Ok en (set_cells (insert k v) s1)
          | _ => Err IllFormed s1
          end
      | SLog e => do v, s1 <- eval en e s; Ok en (emit (EvLog v) s1)
      end.
Proof. reflexivity. Qed.

Lemma bexec1_O (en : env) (st : stmt) (s : state) : bexec1 O en st s = Err OutOfFuel s.
Proof. reflexivity. Qed.

Lemma brun_body_S (f' : nat) (c : clo) (s : state) :
  brun_body (S f') c s =
      let '(Body on ss ret) := c_body c in
      let s0 := emit (EvRun (c_name c)) s in
      let fin (v : Z) (s : state) : res Z :=
        Ok v (emit (EvEnd (c_name c))
                (match c_kind c with KEffect => emit (EvEff (c_name c) v) s | _ => s end)) in
      match on with
      | None =>
          do en1, s1 <- bexec f' (c_env c) ss s0;
          do v, s2 <- eval en1 ret s1;
          fin v s2
      | Some deps =>
          let tr := fold_left (fun (r : option state) x =>
                      match r with
                      | Some s => match lookup_env x (c_env c) with
                                  | Some (BNode id) => Some (emit (EvTrack x) (track id s))
                                  | _ => None
                                  end
                      | None => None
                      end) deps (Some s0) in
          match tr with
          | None => Err IllFormed s0
          | Some s1 =>
              let prev := tracker s1 in
              do en1, s2 <- bexec f' (c_env c) ss (set_tracker None s1);
              do v, s3 <- eval en1 ret s2;
              fin v (set_tracker prev s3)
          end
      end.
Proof. reflexivity. Qed.

Lemma brun_body_O (c : clo) (s : state) : brun_body O c s = Err OutOfFuel s.
Proof. reflexivity. Qed.

Lemma bcreate_computation_S (f' : nat) (en : env) (x : nat) (k : ckind) (b : body) (s : state) :
  bcreate_computation (S f') en x k b s =
      do id, s1 <- create_empty true s;
      let s2 := register x id s1 in
      let c := Clo x k en b in
      let prev := current s2 in
      let prevt := tracker s2 in
      do v, s3 <- brun_body f' c (set_tracker (Some []) (set_current (Some id) s2));
      let tracked := match tracker s3 with Some t => t | None => [] end in
      let s4 := set_current prev (set_tracker prevt s3) in
      if true && negb (alive id s4) then
        (* the computation destroyed itself during its first run *)
        Ok ((x, BNode id) :: en) s4
      else
      do _, s5 <- link true id tracked s4;
      if alive id s5 then
        Ok ((x, BNode id) :: en)
           (upd id (fun n => nd_cb (Some c) (nd_value (Some (match k with KEffect => 0 | _ => v end)) n)) s5)
      else Err (Runtime 4) s5.
Proof. reflexivity. Qed.

Lemma bcreate_computation_O (en : env) (x : nat) (k : ckind) (b : body) (s : state) : bcreate_computation O en x k b s = Err OutOfFuel s.
Proof. reflexivity. Qed.

Lemma bdispose_S (f' : nat) (id : nat) (s : state) :
  bdispose (S f') id s =
      do _, s1 <- bdispose_children f' id (unsubscribe true id s);
      match nodes s1 !! id with
      | None => Ok tt s1
      | Some this =>
          let s2 := set_nodes (delete id) s1 in
          let s3 := foldr (fun d acc => upd d (nd_deps (remove_id id)) acc) s2 (n_dependents this) in
          let s4 := if true then foldr (fun d acc => upd d (nd_dependents (remove_id id)) acc) s3 (n_deps this)
                    else s3 in
          Ok tt s4
      end.
Proof. reflexivity. Qed.

Lemma bdispose_O (id : nat) (s : state) : bdispose O id s = Err OutOfFuel s.
Proof. reflexivity. Qed.

Lemma bdispose_children_S (f' : nat) (id : nat) (s : state) :
  bdispose_children (S f') id s =
      match nodes s !! id with
      | None => Ok tt s
      | Some nd =>
          let s1 := upd id (fun n => nd_children [] (nd_cleanups [] n)) s in
          let prevt := tracker s1 in
          do _, s2 <- brun_cleanups f' (n_cleanups nd) (set_tracker None s1);
          let s3 := set_tracker prevt s2 in
          do _, s4 <- bdispose_list f' (n_children nd) s3;
          match nodes s4 !! id with
          | Some nd' =>
              (* fix of F20: cleanups may have created nodes / registered cleanups in this very scope: go round again *)
              if true && negb (match n_cleanups nd', n_children nd' with [], [] => true | _, _ => false end)
              then bdispose_children f' id s4
              else Ok tt (upd id (nd_context []) s4)
          | None => if true then Ok tt s4 else Err (Runtime 11) s4
          end
      end.
Proof. reflexivity. Qed.

Lemma bdispose_children_O (id : nat) (s : state) : bdispose_children O id s = Err OutOfFuel s.
Proof. reflexivity. Qed.

Lemma brun_cleanups_S (f' : nat) (cs : list cleanup) (s : state) :
  brun_cleanups (S f') cs s =
      match cs with
      | [] => Ok tt s
      | c :: r =>
          do _, s1 <- bexec f' (cl_env c) (cl_ss c) (emit (EvCleanup (cl_label c)) s);
          brun_cleanups f' r s1
      end.
Proof. reflexivity. Qed.

Lemma brun_cleanups_O (cs : list cleanup) (s : state) : brun_cleanups O cs s = Err OutOfFuel s.
Proof. reflexivity. Qed.

Lemma bdispose_list_S (f' : nat) (ids : list nat) (s : state) :
  bdispose_list (S f') ids s =
      match ids with
      | [] => Ok tt s
      | i :: r => do _, s1 <- bdispose f' i s; bdispose_list f' r s1
      end.
Proof. reflexivity. Qed.

Lemma bdispose_list_O (ids : list nat) (s : state) : bdispose_list O ids s = Err OutOfFuel s.
Proof. reflexivity. Qed.

(* ---------------------------------------------------------------------------------- *)
(* the basic operations keep the flag *)

Definition batched {A} (r : res A) : Prop :=
  match r with Ok _ s => batching s = true | Err _ _ => True end.
Definition agree {A} (r r' : res A) : Prop := r = r' /\ batched r'.

Lemma agree_refl {A} (r : res A) : batched r -> agree r r.
Proof. intros H; split; [reflexivity|exact H]. Qed.

Lemma agree_bind {A B} (r r' : res A) (k k' : A -> state -> res B) :
  agree r r' -> (forall a s, batching s = true -> agree (k a s) (k' a s)) ->
  agree (bind_res r k) (bind_res r' k').
Proof.
  intros [-> Hb] Hk. destruct r' as [a s|e s]; cbn in *; [apply Hk, Hb|split; [reflexivity|exact I]].
Qed.

Lemma read_batching t en x s v s' : read t en x s = Ok v s' -> batching s' = batching s.
Proof.
  unfold read. destruct (lookup_env x en) as [[id|c]|]; try discriminate.
  assert (Ht : batching (if t then track id s else s) = batching s).
  { destruct t; [|reflexivity]. unfold track. destruct (tracker s); reflexivity. }
  destruct (nodes (if t then track id s else s) !! id) as [nd|]; [|discriminate].
  destruct (n_value nd); [|discriminate]. intros H; inversion H; subst. cbn. exact Ht.
Qed.

Lemma eval_batching en e : forall s v s', eval en e s = Ok v s' -> batching s' = batching s.
Proof.
  induction e; intros s v s' H; cbn [eval] in H;
    try (destruct (eval en e1 s) as [va s1|? ?] eqn:E1; cbn [bind_res] in H; [|discriminate];
         destruct (eval en e2 s1) as [vb s2|? ?] eqn:E2; cbn [bind_res] in H; [|discriminate];
         inversion H; subst; rewrite (IHe2 _ _ _ E2); apply (IHe1 _ _ _ E1)).
  - inversion H; subst; reflexivity.
  - eapply read_batching; eassumption.
  - eapply read_batching; eassumption.
  - destruct (eval en e s) as [va s1|? ?] eqn:E1; cbn [bind_res] in H; [|discriminate].
    inversion H; subst. apply (IHe _ _ _ E1).
  - destruct (eval en e1 s) as [vc s1|? ?] eqn:E1; cbn [bind_res] in H; [|discriminate].
    destruct (vc =? 0); [rewrite (IHe3 _ _ _ H)|rewrite (IHe2 _ _ _ H)]; apply (IHe1 _ _ _ E1).
  - destruct (lookup_env x en) as [[id|c]|]; try discriminate. inversion H; subst; reflexivity.
  - destruct (lookup_env c en) as [[id|k]|]; try discriminate. destruct (cells s !! k); [|discriminate].
    inversion H; subst; reflexivity.
Qed.

Lemma eval_batched en e s : batching s = true -> batched (eval en e s).
Proof. intros Hb. destruct (eval en e s) as [v s'|] eqn:E; [|exact I]. cbn. rewrite (eval_batching _ _ _ _ _ E). exact Hb. Qed.

Lemma create_empty_batching fx s id s' : create_empty fx s = Ok id s' -> batching s' = batching s.
Proof.
  unfold create_empty. destruct (current s) as [c|].
  - match goal with |- context [if ?b then _ else _] => destruct b end.
    + intros H; inversion H; subst; reflexivity.
    + destruct fx; [|discriminate]. intros H; inversion H; subst; reflexivity.
  - intros H; inversion H; subst; reflexivity.
Qed.

Lemma create_empty_batched fx s : batching s = true -> batched (create_empty fx s).
Proof. intros Hb. destruct (create_empty fx s) as [v s'|] eqn:E; [|exact I]. cbn. rewrite (create_empty_batching _ _ _ _ E). exact Hb. Qed.

Lemma update_silent_batching id v s u s' : update_silent id v s = Ok u s' -> batching s' = batching s.
Proof.
  unfold update_silent. destruct (nodes s !! id) as [nd|]; [|discriminate]. destruct (n_value nd); [|discriminate].
  intros H; inversion H; subst; reflexivity.
Qed.

Lemma update_silent_batched id v s : batching s = true -> batched (update_silent id v s).
Proof. intros Hb. destruct (update_silent id v s) as [u s'|] eqn:E; [|exact I]. cbn. rewrite (update_silent_batching _ _ _ _ _ E). exact Hb. Qed.

Lemma push_dependents_batching fx n : forall ts s u s', push_dependents fx n ts s = Ok u s' -> batching s' = batching s.
Proof.
  induction ts as [|d r IH]; intros s u s' H; cbn [push_dependents] in H.
  - inversion H; subst; reflexivity.
  - destruct (alive d s).
    + rewrite (IH _ _ _ H). reflexivity.
    + destruct fx; [|discriminate]. apply (IH _ _ _ H).
Qed.

Lemma link_batching fx n ts s u s' : link fx n ts s = Ok u s' -> batching s' = batching s.
Proof.
  unfold link. destruct (push_dependents fx n ts s) as [[] s1|] eqn:E; cbn [bind_res]; [|discriminate].
  pose proof (push_dependents_batching _ _ _ _ _ _ E) as H1.
  destruct (alive n s1).
  - intros H; inversion H; subst. cbn. exact H1.
  - destruct fx; [|discriminate]. intros H; inversion H; subst. exact H1.
Qed.

Lemma link_batched fx n ts s : batching s = true -> batched (link fx n ts s).
Proof. intros Hb. destruct (link fx n ts s) as [u s'|] eqn:E; [|exact I]. cbn. rewrite (link_batching _ _ _ _ _ _ E). exact Hb. Qed.

Lemma provide_batching fx ty v s u s' : provide fx ty v s = Ok u s' -> batching s' = batching s.
Proof.
  unfold provide. destruct (current s) as [c|].
  - destruct (nodes s !! c) as [nd|].
    + match goal with |- context [if ?b then _ else _] => destruct b end; [discriminate|].
      intros H; inversion H; subst; reflexivity.
    + destruct fx; [|discriminate]. intros H; inversion H; subst; reflexivity.
  - destruct fx; [|discriminate]. intros H; inversion H; subst; reflexivity.
Qed.

Lemma provide_batched fx ty v s : batching s = true -> batched (provide fx ty v s).
Proof. intros Hb. destruct (provide fx ty v s) as [u s'|] eqn:E; [|exact I]. cbn. rewrite (provide_batching _ _ _ _ _ _ E). exact Hb. Qed.

Lemma use_ctx_from_same fx g : forall ty id first s r s', use_ctx_from fx g ty id first s = Ok r s' -> s' = s.
Proof.
  intros ty id first s r s' H. pose proof (use_ctx_from_st fx g ty id first s) as E. rewrite H in E. exact E.
Qed.

Lemma try_use_context_same fx ty s r s' : try_use_context fx ty s = Ok r s' -> s' = s.
Proof.
  unfold try_use_context. destruct (current s) as [c|].
  - destruct (fx && negb (alive c s)); [intros H; inversion H; reflexivity|apply use_ctx_from_same].
  - destruct fx; [|discriminate]. intros H; inversion H; reflexivity.
Qed.

Lemma try_use_context_batched fx ty s : batching s = true -> batched (try_use_context fx ty s).
Proof. intros Hb. destruct (try_use_context fx ty s) as [u s'|] eqn:E; [|exact I]. cbn. rewrite (try_use_context_same _ _ _ _ _ E). exact Hb. Qed.

Lemma batching_foldr_upd (g : nat -> node -> node) l s :
  batching (foldr (fun d acc => upd d (g d) acc) s l) = batching s.
Proof. induction l as [|d l IH]; cbn [foldr]; [reflexivity|]. exact IH. Qed.

Lemma unsubscribe_batching fx id s : batching (unsubscribe fx id s) = batching s.
Proof.
  unfold unsubscribe. destruct fx; [|reflexivity]. destruct (nodes s !! id) as [this|]; [|reflexivity].
  rewrite batching_foldr_upd. reflexivity.
Qed.

Lemma on_track_batching c deps : forall (a : option state) s1,
  fold_left (fun (r : option state) x =>
     match r with
     | Some s => match lookup_env x (c_env c) with
                 | Some (BNode id) => Some (emit (EvTrack x) (track id s))
                 | _ => None
                 end
     | None => None
     end) deps a = Some s1 ->
  exists s0, a = Some s0 /\ batching s1 = batching s0.
Proof.
  induction deps as [|x deps IH]; intros a s1 H; cbn [fold_left] in H; [eauto|].
  destruct (IH _ _ H) as [s0 [H0 Hb]]. destruct a as [s|]; [|discriminate].
  destruct (lookup_env x (c_env c)) as [[id|k]|]; try discriminate.
  inversion H0; subst. eexists; split; [reflexivity|]. rewrite Hb. cbn.
  unfold track. destruct (tracker s); reflexivity.
Qed.

(* ---------------------------------------------------------------------------------- *)
(* while batching, the full interpreter is the interpreter without propagation *)

Definition agree_at (f : nat) : Prop :=
  (forall en ss s, batching s = true -> agree (exec true f en ss s) (bexec f en ss s)) /\
  (forall en st s, batching s = true -> agree (exec1 true f en st s) (bexec1 f en st s)) /\
  (forall c s, batching s = true -> agree (run_body true f c s) (brun_body f c s)) /\
  (forall en x k b s, batching s = true ->
     agree (create_computation true f en x k b s) (bcreate_computation f en x k b s)) /\
  (forall id s, batching s = true -> agree (dispose true f id s) (bdispose f id s)) /\
  (forall id s, batching s = true -> agree (dispose_children true f id s) (bdispose_children f id s)) /\
  (forall cs s, batching s = true -> agree (run_cleanups true f cs s) (brun_cleanups f cs s)) /\
  (forall ids s, batching s = true -> agree (dispose_list true f ids s) (bdispose_list f ids s)).

Ltac ab := apply agree_bind; [|intros ? ? ?].
Ltac aok := split; [reflexivity|cbn; try rewrite batching_foldr_upd; cbn; assumption].
Ltac aerr := split; [reflexivity|exact I].

Lemma agree_all : forall f, agree_at f.
Proof.
  induction f as [|f IH].
  { repeat split. }
  destruct IH as (Hexec & Hexec1 & Hbody & Hcc & Hdisp & Hdc & Hrc & Hdl).
  unfold agree_at. repeat apply conj.
  - (* exec *)
    intros en ss s Hb. rewrite exec_S, bexec_S. destruct ss as [|st rest]; [aok|]. ab; auto.
  - (* exec1 *)
    intros en st s Hb. rewrite exec1_S, bexec1_S. destruct st.
    + ab; [apply agree_refl, eval_batched, Hb|]. ab; [apply agree_refl, create_empty_batched; assumption|]. aok.
    + apply Hcc, Hb.
    + apply Hcc, Hb.
    + apply Hcc, Hb.
    + ab; [apply agree_refl, create_empty_batched, Hb|]. cbv zeta. ab; [apply Hexec; cbn; assumption|]. aok.
    + destruct (current s); [aok|aerr].
    + ab; [apply agree_refl, eval_batched, Hb|]. destruct (lookup_env x en) as [[id|c]|]; try aerr.
      ab; [apply agree_refl, update_silent_batched; assumption|].
      destruct f as [|f]; [rewrite propagate_updates_O; cbn; aerr|].
      rewrite propagate_updates_S. match goal with H : batching ?s2 = true |- context [batching ?s2] => rewrite H end.
      cbn [bind_res]. aok.
    + ab; [apply agree_refl, eval_batched, Hb|]. destruct (lookup_env x en) as [[id|c]|]; try aerr.
      ab; [apply agree_refl, update_silent_batched; assumption|]. aok.
    + destruct (lookup_env x en) as [[id|c]|]; try aerr. ab; [apply Hdisp, Hb|]. aok.
    + cbv zeta. rewrite Hb. cbn [andb]. ab; [apply Hexec; reflexivity|]. aok.
    + cbv zeta. ab; [apply Hexec; exact Hb|]. aok.
    + cbv zeta. ab; [apply Hexec; exact Hb|]. aok.
    + destruct (current s) as [c|]; [|aok]. destruct (alive c s); [aok|].
      cbv zeta. ab; [apply Hexec; exact Hb|]. aok.
    + ab; [apply agree_refl, eval_batched, Hb|]. ab; [apply agree_refl, provide_batched; assumption|]. aok.
    + ab; [apply agree_refl, try_use_context_batched, Hb|]. aok.
    + destruct (lookup_env x en) as [[id|c]|]; try aerr. cbv zeta. ab; [apply Hexec; exact Hb|]. aok.
    + destruct (lookup_env x en) as [[id|c]|]; try aerr. split; [reflexivity|]. cbn.
      unfold track. destruct (tracker s); exact Hb.
    + ab; [apply agree_refl, eval_batched, Hb|]. ab; [apply Hexec; assumption|]. aok.
    + ab; [apply agree_refl, eval_batched, Hb|]. aok.
    + ab; [apply agree_refl, eval_batched, Hb|]. destruct (lookup_env c en) as [[id|k]|]; try aerr. aok.
    + ab; [apply agree_refl, eval_batched, Hb|]. aok.
  - (* run_body *)
    intros c s Hb. rewrite run_body_S, brun_body_S. destruct (c_body c) as [on ss ret]. cbv zeta.
    destruct on as [deps|].
    + match goal with |- context [fold_left ?g deps ?a] => destruct (fold_left g deps a) as [s1|] eqn:Ef end; [|aerr].
      destruct (on_track_batching _ _ _ _ Ef) as [s0 [E0 Hb1]]. inversion E0; subst s0. cbn in Hb1.
      ab; [apply Hexec; cbn; congruence|]. ab; [apply agree_refl, eval_batched; assumption|].
      split; [reflexivity|]. destruct (c_kind c); cbn; assumption.
    + ab; [apply Hexec; exact Hb|]. ab; [apply agree_refl, eval_batched; assumption|].
      split; [reflexivity|]. destruct (c_kind c); cbn; assumption.
  - (* create_computation *)
    intros en x k b s Hb. rewrite create_computation_S, bcreate_computation_S.
    ab; [apply agree_refl, create_empty_batched, Hb|]. cbv zeta. ab; [apply Hbody; cbn; assumption|].
    match goal with |- context [true && negb ?b] => destruct b end; cbn [andb negb]; [|aok].
    ab; [apply agree_refl, link_batched; cbn; assumption|].
    match goal with |- context [if ?b then _ else _] => destruct b end; [aok|aerr].
  - (* dispose *)
    intros id s Hb. rewrite dispose_S, bdispose_S. ab; [apply Hdc; rewrite unsubscribe_batching; exact Hb|].
    match goal with |- context [nodes ?s1 !! id] => destruct (nodes s1 !! id) as [this|] end; [|aok].
    split; [reflexivity|]. cbn. rewrite batching_foldr_upd, batching_foldr_upd. cbn. assumption.
  - (* dispose_children *)
    intros id s Hb. rewrite dispose_children_S, bdispose_children_S. destruct (nodes s !! id) as [nd|]; [|aok].
    cbv zeta. ab; [apply Hrc; exact Hb|]. ab; [apply Hdl; cbn; assumption|].
    match goal with |- context [nodes ?s4 !! id] => destruct (nodes s4 !! id) as [nd'|] end; [|aok].
    match goal with |- context [if ?b then _ else _] => destruct b end; [apply Hdc; assumption|aok].
  - (* run_cleanups *)
    intros cs s Hb. rewrite run_cleanups_S, brun_cleanups_S. destruct cs as [|c r]; [aok|].
    ab; [apply Hexec; exact Hb|]. apply Hrc; assumption.
  - (* dispose_list *)
    intros ids s Hb. rewrite dispose_list_S, bdispose_list_S. destruct ids as [|i r]; [aok|].
    ab; [apply Hdisp, Hb|]. apply Hdl; assumption.
Qed.

(* ---------------------------------------------------------------------------------- *)
(* C10, main statements *)

(* inside a batch (nested or not) the interpreter is the one without propagation: for ALL bodies *)
Theorem batched_exec : forall f en ss s, batching s = true ->
  exec true f en ss s = bexec f en ss s.
Proof. intros f en ss s Hb. apply (proj1 (agree_all f)), Hb. Qed.

Theorem batched_exec1 : forall f en st s, batching s = true ->
  exec1 true f en st s = bexec1 f en st s.
Proof. intros f en st s Hb. apply (proj1 (proj2 (agree_all f))), Hb. Qed.

(* ... and the flag is still set when the body returns: an inner batch does not end the outer one *)
Theorem batching_kept : forall f en ss s en' s', batching s = true ->
  exec true f en ss s = Ok en' s' -> batching s' = true.
Proof.
  intros f en ss s en' s' Hb H. destruct (proj1 (agree_all f) en ss s Hb) as [E Hr].
  rewrite <- E, H in Hr. exact Hr.
Qed.

(* an inner batch never propagates: it is a pair of log brackets around its body *)
Theorem inner_batch : forall f en ss s, batching s = true ->
  exec1 true (S f) en (SBatch ss) s =
  do _, s1 <- bexec f en ss (emit (EvBatch true) s); Ok en (emit (EvBatch false) s1).
Proof.
  intros f en ss s Hb. rewrite batched_exec1 by exact Hb. rewrite bexec1_S.
  replace (set_batching true s) with s; [reflexivity|]. destruct s; cbn in *; subst; reflexivity.
Qed.

(* the outermost batch: body without propagation, then one propagation from the queued nodes *)
Theorem outermost_batch : forall f en ss s, batching s = false ->
  exec1 true (S f) en (SBatch ss) s =
  do _, s1 <- bexec f en ss (emit (EvBatch true) (set_batching true s));
  do _, s2 <- propagate true f (queue s1) (set_queue [] (set_batching false (emit (EvBatch false) s1)));
  Ok en s2.
Proof.
  intros f en ss s Hb. rewrite exec1_S. cbv zeta. rewrite Hb. cbn [andb].
  rewrite batched_exec by reflexivity. reflexivity.
Qed.

Print Assumptions batched_exec.
Print Assumptions outermost_batch.

(* ---------------------------------------------------------------------------------- *)
(* the log inside a batch: bodies that create no computation and dispose nothing *)

Fixpoint quiet (st : stmt) : bool :=
  match st with
  | SMemo _ _ | SSelector _ _ _ | SEffect _ _ | SDispose _ => false
  | SScope _ ss | SBatch ss | SUntrack ss | SComponent ss | SOnCleanup _ ss | SRunIn _ ss => forallb quiet ss
  | SIf _ a b => forallb quiet a && forallb quiet b
  | SSignal _ _ | SCurScope _ | SSet _ _ | SSetSilent _ _ | SProvide _ _ | SUseCtx _ | STrack _
  | SCellNew _ _ | SCellSet _ _ | SLog _ => true
  end.

Definition quiet_ev (e : ev) : Prop :=
  match e with EvRun _ | EvEnd _ | EvEff _ _ => False | _ => True end.

Definition qsuffix (l0 l1 : list ev) : Prop := exists l, l1 = l ++ l0 /\ Forall quiet_ev l.
Lemma qsuffix_refl l : qsuffix l l.
Proof. exists []; split; [reflexivity|constructor]. Qed.
Lemma qsuffix_cons e l0 l1 : quiet_ev e -> qsuffix l0 l1 -> qsuffix l0 (e :: l1).
Proof. intros He (l & -> & Hl). exists (e :: l). split; [reflexivity|constructor; assumption]. Qed.
Lemma qsuffix_trans l1 l2 l3 : qsuffix l1 l2 -> qsuffix l2 l3 -> qsuffix l1 l3.
Proof.
  intros (a & -> & Ha) (b & -> & Hb). exists (b ++ a). split; [rewrite app_assoc; reflexivity|].
  apply Forall_app; split; assumption.
Qed.

Definition qext {A} (s : state) (r : res A) : Prop := qsuffix (log s) (log (st_of r)).

Lemma qext_bind {A B} s (r : res A) (k : A -> state -> res B) :
  qext s r -> (forall a s1, r = Ok a s1 -> qext s1 (k a s1)) -> qext s (bind_res r k).
Proof.
  destruct r as [a s1|e s1]; cbn; intros Hr Hk; [|exact Hr].
  eapply qsuffix_trans; [exact Hr|]. apply Hk. reflexivity.
Qed.

Lemma read_qext t en x s : qext s (read t en x s).
Proof.
  unfold read, qext. destruct (lookup_env x en) as [[id|c]|]; try apply qsuffix_refl.
  assert (Ht : log (if t then track id s else s) = log s).
  { destruct t; [apply track_log|reflexivity]. }
  destruct (nodes (if t then track id s else s) !! id) as [nd|]; cbn.
  - destruct (n_value nd); cbn; rewrite Ht; [apply qsuffix_cons; [exact I|]|]; apply qsuffix_refl.
  - rewrite Ht. apply qsuffix_refl.
Qed.

Lemma eval_qext en e : forall s, qext s (eval en e s).
Proof.
  induction e; intros s; cbn [eval];
    try (apply qext_bind; [auto|intros ? ? _; try (apply qext_bind; [auto|intros ? ? _])]; try apply qsuffix_refl).
  - apply qsuffix_refl.
  - apply read_qext.
  - apply read_qext.
  - match goal with |- context [if ?b then _ else _] => destruct b end; auto.
  - destruct (lookup_env x en) as [[id|c]|]; apply qsuffix_refl.
  - destruct (lookup_env c en) as [[id|k]|]; try apply qsuffix_refl. destruct (cells s !! k); apply qsuffix_refl.
Qed.

Ltac qb := apply qext_bind; [|intros ? ? ?].
Ltac qrefl := apply qsuffix_refl.
Ltac qstep := cbn; rewrite ?track_log; cbn; repeat (apply qsuffix_cons; [exact I|]); apply qsuffix_refl.
Ltac qsame lem := unfold qext; rewrite lem; apply qsuffix_refl.
Ltac qok := unfold qext; cbn [st_of]; qstep.
Ltac qvia H := unfold qext; (eapply qsuffix_trans; [|apply H]); [qstep|].

Lemma quiet_log : forall f,
  (forall en ss s, forallb quiet ss = true -> qext s (bexec f en ss s)) /\
  (forall en st s, quiet st = true -> qext s (bexec1 f en st s)).
Proof.
  induction f as [|f [Hexec Hexec1]].
  { split; intros; apply qsuffix_refl. }
  split.
  - intros en ss s Hq. rewrite bexec_S. destruct ss as [|st rest]; [qrefl|].
    cbn [forallb] in Hq. apply andb_prop in Hq as [Hq1 Hq2]. qb; [apply Hexec1, Hq1|]. apply Hexec, Hq2.
  - intros en st s Hq. rewrite bexec1_S. destruct st; cbn [quiet] in Hq; try discriminate.
    + qb; [apply eval_qext|]. qb; [qsame create_empty_log|]. qok.
    + qb; [qsame create_empty_log|]. cbv zeta. qb; [qvia Hexec; exact Hq|]. qok.
    + destruct (current s); qrefl.
    + qb; [apply eval_qext|]. destruct (lookup_env x en) as [[id|c]|]; try qrefl.
      qb; [qsame update_silent_log|]. destruct f; [qrefl|qok].
    + qb; [apply eval_qext|]. destruct (lookup_env x en) as [[id|c]|]; try qrefl.
      qb; [qsame update_silent_log|]. qrefl.
    + qb; [qvia Hexec; exact Hq|]. qok.
    + cbv zeta. qb; [qvia Hexec; exact Hq|]. qok.
    + cbv zeta. qb; [qvia Hexec; exact Hq|]. qok.
    + destruct (current s) as [c|]; [|qok]. destruct (alive c s); [qok|].
      cbn [andb]. cbv zeta. qb; [qvia Hexec; exact Hq|]. qok.
    + qb; [apply eval_qext|]. qb; [qsame provide_log|]. qrefl.
    + qb; [unfold qext; rewrite try_use_context_st; qrefl|]. qok.
    + destruct (lookup_env x en) as [[id|c]|]; try qrefl. cbv zeta. qb; [qvia Hexec; exact Hq|]. qok.
    + destruct (lookup_env x en) as [[id|c]|]; try qrefl. qok.
    + apply andb_prop in Hq as [Hqa Hqb]. qb; [apply eval_qext|].
      qb; [apply Hexec; match goal with |- context [if ?b then _ else _] => destruct b end; assumption|]. qrefl.
    + qb; [apply eval_qext|]. qok.
    + qb; [apply eval_qext|]. destruct (lookup_env c en) as [[id|k]|]; qrefl.
    + qb; [apply eval_qext|]. qok.
Qed.

(* the log of an outermost batch with a quiet body: between "batch true" and "batch false" no computation
   runs; everything that runs comes after "batch false" *)
Theorem batch_quiet_log : forall f en ss s en' s', batching s = false -> forallb quiet ss = true ->
  exec1 true f en (SBatch ss) s = Ok en' s' ->
  exists l1 l2, log s' = l2 ++ EvBatch false :: l1 ++ EvBatch true :: log s /\ Forall quiet_ev l1.
Proof.
  intros f en ss s en' s' Hb Hq H. destruct f as [|f]; [discriminate|].
  rewrite outermost_batch in H by exact Hb.
  pose proof (proj1 (quiet_log f) en ss (emit (EvBatch true) (set_batching true s)) Hq) as Hl.
  destruct (bexec f en ss (emit (EvBatch true) (set_batching true s))) as [en1 s1|e s1]; cbn [bind_res] in H; [|discriminate].
  destruct Hl as (l1 & Hl1 & Hq1). cbn in Hl1.
  pose proof (propagate_log_grows f (queue s1) (set_queue [] (set_batching false (emit (EvBatch false) s1)))) as [l2 Hl2].
  destruct (propagate true f (queue s1) (set_queue [] (set_batching false (emit (EvBatch false) s1)))) as [[] s2|e s2];
    cbn [bind_res] in H; [|discriminate].
  inversion H; subst. cbn in Hl2. exists l1, l2. rewrite Hl2, Hl1. split; [reflexivity|exact Hq1].
Qed.

(* the same on failing runs: whatever was logged before the failure has this shape too *)
Theorem batch_quiet_log_err : forall f en ss s e s', batching s = false -> forallb quiet ss = true ->
  exec1 true f en (SBatch ss) s = Err e s' ->
  log s' = log s \/
  (exists l1, log s' = l1 ++ EvBatch true :: log s /\ Forall quiet_ev l1) \/
  (exists l1 l2, log s' = l2 ++ EvBatch false :: l1 ++ EvBatch true :: log s /\ Forall quiet_ev l1).
Proof.
  intros f en ss s e s' Hb Hq H. destruct f as [|f]; [inversion H; subst; left; reflexivity|right].
  rewrite outermost_batch in H by exact Hb.
  pose proof (proj1 (quiet_log f) en ss (emit (EvBatch true) (set_batching true s)) Hq) as Hl.
  destruct (bexec f en ss (emit (EvBatch true) (set_batching true s))) as [en1 s1|e1 s1]; cbn [bind_res] in H.
  - destruct Hl as (l1 & Hl1 & Hq1). cbn in Hl1.
    pose proof (propagate_log_grows f (queue s1) (set_queue [] (set_batching false (emit (EvBatch false) s1)))) as [l2 Hl2].
    destruct (propagate true f (queue s1) (set_queue [] (set_batching false (emit (EvBatch false) s1)))) as [[] s2|e2 s2];
      cbn [bind_res] in H; [discriminate|].
    inversion H; subst. cbn in Hl2. right. exists l1, l2. rewrite Hl2, Hl1. split; [reflexivity|exact Hq1].
  - inversion H; subst. left. destruct Hl as (l1 & Hl1 & Hq1). cbn in Hl1. exists l1. split; assumption.
Qed.

Print Assumptions batch_quiet_log.

(* ---------------------------------------------------------------------------------- *)
(* non-vacuity *)

(* nested batches, repeated writes, two effects: all runs come after the outer "batch false" *)
Definition bf_prog : list stmt :=
  [SSignal 1 (Lit 0); SSignal 2 (Lit 0);
   SEffect 3 (Body None [] (Add (Get 1) (Get 2)));
   SMemo 4 (Body None [] (Mul (Get 1) (Lit 2)))].
Definition bf_batch : stmt :=
  SBatch [SSet 1 (Lit 1); SBatch [SSet 2 (Lit 5); SSet 1 (Lit 2); SLog (GetU 4)]; SSet 2 (Lit 7); SLog (GetU 4)].

Example bf_quiet : quiet bf_batch = true.
Proof. reflexivity. Qed.

Definition is_run (e : ev) : bool := match e with EvRun _ => true | _ => false end.
Definition split_at_batch_false (l : list ev) : list ev * list ev :=
  (* the log is most recent first: events after the LAST "batch false", events before it *)
  (fix go (acc l : list ev) := match l with
     | [] => (rev acc, [])
     | EvBatch false :: r => (rev acc, r)
     | e :: r => go (e :: acc) r
     end) [] l.

Example bf_instance :
  match exec true 400 root_env bf_prog init_state with
  | Ok en s =>
      batching s = false /\
      match exec1 true 400 en bf_batch (clear_log s) with
      | Ok _ s' =>
          let '(after, before) := split_at_batch_false (log s') in
          List.length (List.filter is_run after) = 2%nat       (* the effect and the memo, once each *)
          /\ List.filter is_run before = []                    (* nothing ran inside *)
          /\ List.filter (fun e => match e with EvLog _ => true | _ => false end) before
              = [EvLog 0; EvLog 0]                             (* the memo kept its pre-batch value *)
      | Err _ _ => False
      end
  | Err _ _ => False
  end.
Proof. vm_compute. repeat split; reflexivity. Qed.

(* the pinned code (fx = false) ends the outer batch at the inner "batch false": finding F2 *)
Example bf_pinned_runs_inside :
  match exec false 400 root_env bf_prog init_state with
  | Ok en s =>
      match exec1 false 400 en bf_batch (clear_log s) with
      | Ok _ s' => let '(after, before) := split_at_batch_false (log s') in List.filter is_run before <> []
      | Err _ _ => False
      end
  | Err _ _ => False
  end.
Proof. vm_compute. discriminate. Qed.

(* [batched_exec] is about all bodies: a batch body that creates an effect and disposes a scope with a
   cleanup runs them (first run, cleanup) but still performs no update of an existing computation *)
Definition bf_prog2 : list stmt :=
  [SSignal 1 (Lit 0); SEffect 2 (Body None [] (Get 1));
   SScope 3 [SOnCleanup 7 [SSet 1 (Lit 9)]]].
Definition bf_batch2 : stmt :=
  SBatch [SSet 1 (Lit 1); SEffect 5 (Body None [] (Get 1)); SDispose 3].
Example bf_instance2 :
  match exec true 400 root_env bf_prog2 init_state with
  | Ok en s =>
      match exec1 true 400 en bf_batch2 (clear_log s) with
      | Ok _ s' =>
          let '(after, before) := split_at_batch_false (log s') in
          List.filter is_run before = [EvRun 5]      (* only the creation of effect 5 ran inside *)
          /\ List.filter is_run after = [EvRun 2; EvRun 5]  (* most recent first *)
      | Err _ _ => False
      end
  | Err _ _ => False
  end.
Proof. vm_compute. split; reflexivity. Qed.
