(* Reactive/Frame.v -- facts that hold for every function of the runtime model, for all inputs:
   the log only grows (also on failing runs); [dfs] touches nothing but marks. *)
From stdpp Require Import gmap list.
From Coq Require Import ZArith Lia.
From Syc Require Import Reactive.Syntax Reactive.Interp.

Definition st_of {A} (r : res A) : state := match r with Ok _ s => s | Err _ s => s end.

(* ---------------------------------------------------------------------------------- *)
(* the log only grows *)

Definition lsuffix (l0 l1 : list ev) : Prop := exists l, l1 = l ++ l0.
Lemma lsuffix_refl l : lsuffix l l.
Proof. exists []; reflexivity. Qed.
Lemma lsuffix_cons e l0 l1 : lsuffix l0 l1 -> lsuffix l0 (e :: l1).
Proof. intros [l ->]. exists (e :: l). reflexivity. Qed.
Lemma lsuffix_trans l1 l2 l3 : lsuffix l1 l2 -> lsuffix l2 l3 -> lsuffix l1 l3.
Proof. intros [a ->] [b ->]. exists (b ++ a). rewrite app_assoc. reflexivity. Qed.

Definition logext (s s' : state) : Prop := lsuffix (log s) (log s').

Lemma logext_refl s : logext s s.
Proof. apply lsuffix_refl. Qed.
Lemma logext_trans s1 s2 s3 : logext s1 s2 -> logext s2 s3 -> logext s1 s3.
Proof. apply lsuffix_trans. Qed.
Lemma logext_log s s' s'' : log s' = log s -> logext s' s'' -> logext s s''.
Proof. unfold logext. intros ->. exact (fun H => H). Qed.
Lemma logext_emit e s s' : logext (emit e s) s' -> logext s s'.
Proof. unfold logext. cbn. intros H. eapply lsuffix_trans; [|exact H]. apply lsuffix_cons, lsuffix_refl. Qed.
Lemma logext_emit_r e s s' : logext s s' -> logext s (emit e s').
Proof. unfold logext. cbn. apply lsuffix_cons. Qed.
Lemma logext_log_r s s' s'' : log s'' = log s' -> logext s s' -> logext s s''.
Proof. unfold logext. intros ->. exact (fun H => H). Qed.

Definition lext {A} (s : state) (r : res A) : Prop := logext s (st_of r).

Lemma lext_bind {A B} s (r : res A) (k : A -> state -> res B) :
  lext s r -> (forall a s1, r = Ok a s1 -> lext s1 (k a s1)) -> lext s (bind_res r k).
Proof.
  destruct r as [a s1|e s1]; cbn; intros Hr Hk; [|exact Hr].
  eapply logext_trans; [exact Hr|]. apply Hk. reflexivity.
Qed.

Lemma log_foldr_upd (g : nat -> node -> node) l s :
  log (foldr (fun d acc => upd d (g d) acc) s l) = log s.
Proof. induction l as [|d l IH]; cbn [foldr]; [reflexivity|]. exact IH. Qed.

Lemma track_log id s : log (track id s) = log s.
Proof. unfold track. destruct (tracker s); reflexivity. Qed.

Lemma read_lext t en x s : lext s (read t en x s).
Proof.
  unfold read, lext. destruct (lookup_env x en) as [[id|c]|]; try apply logext_refl.
  assert (Ht : log (if t then track id s else s) = log s).
  { destruct t; [apply track_log|reflexivity]. }
  destruct (nodes (if t then track id s else s) !! id) as [nd|]; cbn.
  - destruct (n_value nd); cbn.
    + apply logext_emit_r. eapply logext_log_r; [exact Ht|apply logext_refl].
    + eapply logext_log_r; [exact Ht|apply logext_refl].
  - eapply logext_log_r; [exact Ht|apply logext_refl].
Qed.

Lemma eval_lext en e : forall s, lext s (eval en e s).
Proof.
  induction e; intros s; cbn [eval];
    try (apply lext_bind; [auto|intros ? ? _; try (apply lext_bind; [auto|intros ? ? _])]; try apply logext_refl).
  - apply logext_refl.
  - apply read_lext.
  - apply read_lext.
  - match goal with |- context [if ?b then _ else _] => destruct b end; auto.
  - destruct (lookup_env x en) as [[id|c]|]; apply logext_refl.
  - destruct (lookup_env c en) as [[id|k]|]; try apply logext_refl. destruct (cells s !! k); apply logext_refl.
Qed.

Lemma create_empty_log fx s : log (st_of (create_empty fx s)) = log s.
Proof.
  unfold create_empty. destruct (current s) as [c|]; [|reflexivity].
  match goal with |- context [if ?b then _ else _] => destruct b end; [reflexivity|]. destruct fx; reflexivity.
Qed.

Lemma update_silent_log id v s : log (st_of (update_silent id v s)) = log s.
Proof.
  unfold update_silent. destruct (nodes s !! id) as [nd|]; [|reflexivity]. destruct (n_value nd); reflexivity.
Qed.

Lemma push_dependents_log fx n : forall ts s, log (st_of (push_dependents fx n ts s)) = log s.
Proof.
  induction ts as [|d r IH]; intros s; cbn [push_dependents]; [reflexivity|].
  destruct (alive d s); [rewrite IH; reflexivity|]. destruct fx; [apply IH|reflexivity].
Qed.

Lemma link_log fx n ts s : log (st_of (link fx n ts s)) = log s.
Proof.
  unfold link. pose proof (push_dependents_log fx n ts s) as H.
  destruct (push_dependents fx n ts s) as [[] s1|e s1]; cbn [bind_res st_of] in *; [|exact H].
  destruct (alive n s1); [exact H|]. destruct fx; exact H.
Qed.

Lemma mark_dependents_dirty_log fx n s : log (st_of (mark_dependents_dirty fx n s)) = log s.
Proof.
  unfold mark_dependents_dirty. destruct (nodes s !! n) as [nd|].
  - cbn. apply (log_foldr_upd (fun _ => nd_dirty true)).
  - destruct fx; reflexivity.
Qed.

Lemma unlink_deps_log n deps s : log (st_of (unlink_deps n deps s)) = log s.
Proof.
  unfold unlink_deps.
  assert (G : forall (r : res unit), log (st_of r) = log s ->
     log (st_of (fold_left (fun r d => do _, s1 <- r;
              if alive d s1 then Ok tt (upd d (nd_dependents (remove_id n)) s1) else Err (Runtime 6) s1) deps r)) = log s).
  { induction deps as [|d deps IH]; intros r Hr; cbn [fold_left]; [exact Hr|].
    apply IH. destruct r as [[] s1|e s1]; cbn [bind_res st_of] in *; [|exact Hr].
    destruct (alive d s1); exact Hr. }
  apply G. reflexivity.
Qed.

Lemma unsubscribe_log fx id s : log (unsubscribe fx id s) = log s.
Proof.
  unfold unsubscribe. destruct fx; [|reflexivity]. destruct (nodes s !! id) as [this|]; [|reflexivity].
  rewrite log_foldr_upd. reflexivity.
Qed.

Lemma provide_log fx ty v s : log (st_of (provide fx ty v s)) = log s.
Proof.
  unfold provide. destruct (current s) as [c|]; [|destruct fx; reflexivity].
  destruct (nodes s !! c) as [nd|]; [|destruct fx; reflexivity].
  match goal with |- context [if ?b then _ else _] => destruct b end; reflexivity.
Qed.

Lemma use_ctx_from_st fx g : forall ty id first s, st_of (use_ctx_from fx g ty id first s) = s.
Proof.
  induction g as [|g IH]; intros ty id first s; cbn [use_ctx_from]; [reflexivity|].
  destruct (nodes s !! id) as [nd|]; [|destruct (fx && negb first); reflexivity].
  destruct (ctx_find ty (n_context nd)); [reflexivity|]. destruct (n_parent nd); [apply IH|reflexivity].
Qed.

Lemma try_use_context_st fx ty s : st_of (try_use_context fx ty s) = s.
Proof.
  unfold try_use_context. destruct (current s) as [c|]; [|destruct fx; reflexivity].
  destruct (fx && negb (alive c s)); [reflexivity|apply use_ctx_from_st].
Qed.

(* ---------------------------------------------------------------------------------- *)
(* dfs changes marks only *)

Definition mark_eq (nd nd' : node) : Prop := nd' = nd_mark (n_mark nd') nd.

Definition marks_only (s s' : state) : Prop :=
  s' = set_nodes (fun _ => nodes s') s /\
  forall n, match nodes s !! n, nodes s' !! n with
            | Some nd, Some nd' => mark_eq nd nd'
            | None, None => True
            | _, _ => False
            end.

Lemma marks_only_refl s : marks_only s s.
Proof.
  split; [destruct s; reflexivity|]. intros n. destruct (nodes s !! n) as [nd|]; [|exact I].
  destruct nd; reflexivity.
Qed.

Lemma marks_only_trans s1 s2 s3 : marks_only s1 s2 -> marks_only s2 s3 -> marks_only s1 s3.
Proof.
  intros [E1 H1] [E2 H2]. split.
  - destruct s1, s2, s3; unfold set_nodes in *; cbn in *; congruence.
  - intros n. specialize (H1 n); specialize (H2 n).
    destruct (nodes s1 !! n) as [a|], (nodes s2 !! n) as [b|], (nodes s3 !! n) as [c|]; try tauto.
    unfold mark_eq in *. rewrite H2, H1. destruct a; reflexivity.
Qed.

Lemma marks_only_upd id m s : marks_only s (upd id (nd_mark m) s).
Proof.
  split; [destruct s; reflexivity|]. intros n. cbn.
  destruct (decide (n = id)) as [->|Hne].
  - rewrite lookup_alter. destruct (nodes s !! id) as [nd|]; cbn; [|exact I]. destruct nd; reflexivity.
  - rewrite lookup_alter_ne by congruence. destruct (nodes s !! n) as [nd|]; [|exact I]. destruct nd; reflexivity.
Qed.

Lemma dfs_marks_only g : forall id s buf s' buf',
  dfs g id (s, buf) = Some (Some (s', buf')) -> marks_only s s'.
Proof.
  induction g as [|g IH]; intros id s buf s' buf' H; cbn [dfs] in H; [discriminate|].
  destruct (nodes s !! id) as [nd|] eqn:Hn.
  2:{ inversion H; subst. apply marks_only_refl. }
  destruct (n_mark nd).
  - (* MNone *)
    match type of H with context [fold_left ?fn ?l0 ?a0] =>
      assert (G : forall l a s2 buf2, fold_left fn l a = Some (Some (s2, buf2)) ->
                  exists s1 buf1, a = Some (Some (s1, buf1)) /\ marks_only s1 s2) end.
    { induction l as [|c l IHl]; intros a s2 buf2 Hf; cbn [fold_left] in Hf.
      - subst a. do 2 eexists; split; [reflexivity|apply marks_only_refl].
      - destruct (IHl _ _ _ Hf) as (s1 & buf1 & Ha & Hm).
        destruct a as [[[s0 buf0]|]|]; try discriminate.
        do 2 eexists; split; [reflexivity|]. eapply marks_only_trans; [|exact Hm]. eapply IH; exact Ha. }
    match type of H with context [fold_left ?fn ?l ?a] => destruct (fold_left fn l a) as [[[s2 buf2]|]|] eqn:Hf end;
      try discriminate.
    inversion H; subst. destruct (G _ _ _ _ Hf) as (s1 & buf1 & Ha & Hm). inversion Ha; subst.
    eapply marks_only_trans; [apply marks_only_upd|]. eapply marks_only_trans; [exact Hm|apply marks_only_upd].
  - discriminate.
  - inversion H; subst. apply marks_only_refl.
Qed.

Lemma marks_only_log s s' : marks_only s s' -> log s' = log s.
Proof. intros [E _]. rewrite E. reflexivity. Qed.

(* the topological-sort phase of propagate *)
Definition sort_step (fx : bool) (g : nat) (a : res (list nat)) (start : nat) : res (list nat) :=
  do buf, s1 <- a;
  match dfs g start (s1, buf) with
  | None => Err OutOfFuel s1
  | Some None => Err Cyclic s1
  | Some (Some (s2, buf2)) => do _, s3 <- mark_dependents_dirty fx start s2; Ok buf2 s3
  end.

Lemma sort_step_log fx g a start : log (st_of (sort_step fx g a start)) = log (st_of a).
Proof.
  unfold sort_step. destruct a as [buf s1|e s1]; cbn [bind_res st_of]; [|reflexivity].
  destruct (dfs g start (s1, buf)) as [[[s2 buf2]|]|] eqn:Hd; try reflexivity.
  pose proof (mark_dependents_dirty_log fx start s2) as Hm.
  destruct (mark_dependents_dirty fx start s2) as [[] s3|e s3]; cbn [bind_res st_of] in *;
    rewrite Hm; apply marks_only_log; eapply dfs_marks_only; exact Hd.
Qed.

Lemma sort_log fx g starts : forall a, log (st_of (fold_left (sort_step fx g) starts a)) = log (st_of a).
Proof.
  induction starts as [|st starts IH]; intros a; cbn [fold_left]; [reflexivity|].
  rewrite IH. apply sort_step_log.
Qed.

(* ---------------------------------------------------------------------------------- *)
(* the mutual block *)

Definition lext_at (f : nat) : Prop :=
  (forall en ss s, lext s (exec true f en ss s)) /\
  (forall en st s, lext s (exec1 true f en st s)) /\
  (forall c s, lext s (run_body true f c s)) /\
  (forall en x k b s, lext s (create_computation true f en x k b s)) /\
  (forall id s, lext s (dispose true f id s)) /\
  (forall id s, lext s (dispose_children true f id s)) /\
  (forall cs s, lext s (run_cleanups true f cs s)) /\
  (forall ids s, lext s (dispose_list true f ids s)) /\
  (forall n s, lext s (run_node_update true f n s)) /\
  (forall order s, lext s (loop true f order s)) /\
  (forall starts s, lext s (propagate true f starts s)) /\
  (forall id s, lext s (propagate_updates true f id s)).

Ltac lb := apply lext_bind; [|intros ? ? ?].
Ltac lrefl := apply logext_refl.
Ltac lstep := unfold logext; cbn; rewrite ?log_foldr_upd, ?track_log; cbn; repeat apply lsuffix_cons; apply lsuffix_refl.
Ltac lsame lem := unfold lext, logext; rewrite lem; apply lsuffix_refl.
Ltac lok := unfold lext; cbn [st_of]; lstep.
Ltac lvia H := unfold lext; (eapply logext_trans; [|apply H]); lstep.
Ltac lvia_emit H := lvia H.

Lemma on_track_log c deps : forall (a : option state) s1,
  fold_left (fun (r : option state) x =>
     match r with
     | Some s => match lookup_env x (c_env c) with
                 | Some (BNode id) => Some (emit (EvTrack x) (track id s))
                 | _ => None
                 end
     | None => None
     end) deps a = Some s1 ->
  exists s0, a = Some s0 /\ logext s0 s1.
Proof.
  induction deps as [|x deps IH]; intros a s1 H; cbn [fold_left] in H.
  - exists s1; split; [exact H|apply logext_refl].
  - destruct (IH _ _ H) as [s0 [H0 Hl]]. destruct a as [s|]; [|discriminate].
    destruct (lookup_env x (c_env c)) as [[id|k]|]; try discriminate.
    inversion H0; subst. eexists; split; [reflexivity|].
    apply logext_emit in Hl. eapply logext_log; [|exact Hl]. apply track_log.
Qed.

Theorem lext_all : forall f, lext_at f.
Proof.
  induction f as [|f IH].
  { repeat split; intros; apply logext_refl. }
  destruct IH as (Hexec & Hexec1 & Hbody & Hcc & Hdisp & Hdc & Hrc & Hdl & Hrnu & Hloop & Hprop & Hpu).
  unfold lext_at. repeat apply conj.
  - intros en ss s. rewrite exec_S. destruct ss as [|st rest]; [lrefl|]. lb; auto.
  - intros en st s. rewrite exec1_S. destruct st.
    + lb; [apply eval_lext|]. lb; [lsame create_empty_log|]. lok.
    + apply Hcc.
    + apply Hcc.
    + apply Hcc.
    + lb; [lsame create_empty_log|]. cbv zeta. lb; [lvia Hexec|]. lok.
    + destruct (current s); lrefl.
    + lb; [apply eval_lext|]. destruct (lookup_env x en) as [[id|c]|]; try lrefl.
      lb; [lsame update_silent_log|]. lb; [apply Hpu|]. lrefl.
    + lb; [apply eval_lext|]. destruct (lookup_env x en) as [[id|c]|]; try lrefl.
      lb; [lsame update_silent_log|]. lrefl.
    + destruct (lookup_env x en) as [[id|c]|]; try lrefl. lb; [apply Hdisp|]. lrefl.
    + cbv zeta. lb; [lvia_emit Hexec|].
      match goal with |- context [if ?b then _ else _] => destruct b end; [lok|].
      lb; [lvia_emit Hprop|]. lrefl.
    + cbv zeta. lb; [lvia Hexec|]. lok.
    + cbv zeta. lb; [lvia Hexec|]. lok.
    + destruct (current s) as [c|]; [|lok]. destruct (alive c s); [lok|].
      cbv zeta. lb; [lvia_emit Hexec|]. lok.
    + lb; [apply eval_lext|]. lb; [lsame provide_log|]. lrefl.
    + lb; [unfold lext; rewrite try_use_context_st; lrefl|]. lok.
    + destruct (lookup_env x en) as [[id|c]|]; try lrefl. cbv zeta. lb; [lvia Hexec|]. lok.
    + destruct (lookup_env x en) as [[id|c]|]; try lrefl. lok.
    + lb; [apply eval_lext|]. lb; [apply Hexec|]. lrefl.
    + lb; [apply eval_lext|]. lok.
    + lb; [apply eval_lext|]. destruct (lookup_env c en) as [[id|k]|]; try lrefl. lok.
    + lb; [apply eval_lext|]. lok.
  - intros c s. rewrite run_body_S. destruct (c_body c) as [on ss ret]. cbv zeta.
    destruct on as [deps|].
    + match goal with |- context [fold_left ?g deps ?a] => destruct (fold_left g deps a) as [s1|] eqn:Ef end.
      2:{ unfold lext; cbn. apply logext_emit_r, logext_refl. }
      destruct (on_track_log _ _ _ _ Ef) as [s0 [E0 Hl]]. inversion E0; subst s0. apply logext_emit in Hl.
      unfold lext. eapply logext_trans; [exact Hl|].
      change (lext s1 (do en1, s2 <- exec true f (c_env c) ss (set_tracker None s1);
                       do v, s3 <- eval en1 ret s2;
                       Ok v (emit (EvEnd (c_name c))
                         match c_kind c with KEffect => emit (EvEff (c_name c) v) (set_tracker (tracker s1) s3)
                                           | _ => set_tracker (tracker s1) s3 end))).
      lb; [lvia Hexec|]. lb; [apply eval_lext|]. destruct (c_kind c); lok.
    + lb; [lvia_emit Hexec|]. lb; [apply eval_lext|]. destruct (c_kind c); lok.
  - intros en x k b s. rewrite create_computation_S.
    lb; [lsame create_empty_log|]. cbv zeta. lb; [lvia Hbody|].
    match goal with |- context [true && negb ?b] => destruct b end; cbn [andb negb]; [|lok].
    lb; [unfold lext; eapply logext_log_r; [apply link_log|]; lok|].
    match goal with |- context [if ?b then _ else _] => destruct b end; [lok|lrefl].
  - intros id s. rewrite dispose_S.
    lb; [unfold lext; eapply logext_log; [apply (unsubscribe_log true id s)|apply Hdc]|].
    match goal with |- context [nodes ?s1 !! id] => destruct (nodes s1 !! id) as [this|] end; [|lrefl].
    unfold lext; cbn [st_of]. eapply logext_log_r; [|apply logext_refl].
    cbn. rewrite !log_foldr_upd. reflexivity.
  - intros id s. rewrite dispose_children_S. destruct (nodes s !! id) as [nd|]; [|lrefl].
    cbv zeta. lb; [lvia Hrc|]. lb; [lvia Hdl|].
    match goal with |- context [nodes ?s4 !! id] => destruct (nodes s4 !! id) as [nd'|] end; [|lok].
    match goal with |- context [if ?b then _ else _] => destruct b end; [apply Hdc|lok].
  - intros cs s. rewrite run_cleanups_S. destruct cs as [|c r]; [lrefl|].
    lb; [lvia_emit Hexec|]. apply Hrc.
  - intros ids s. rewrite dispose_list_S. destruct ids as [|i r]; [lrefl|]. lb; [apply Hdisp|]. apply Hdl.
  - intros n s. rewrite run_node_update_S. destruct (nodes s !! n) as [nd|]; [|lrefl]. cbv zeta.
    lb; [unfold lext; eapply logext_log_r; [apply unlink_deps_log|]; lok|].
    destruct (n_cb nd) as [c|]; [|lrefl]. destruct (n_value nd) as [old|]; [|lrefl].
    lb; [lvia Hdc|].
    match goal with |- context [true && negb ?b] => destruct b end; cbn [andb negb]; [|lok].
    lb; [lvia Hbody|].
    match goal with |- context [if negb ?b then _ else _] => destruct b end; cbn [andb negb]; [|lok].
    lb; [unfold lext; eapply logext_log_r; [apply link_log|]; lok|].
    match goal with |- context [if alive ?a ?b then _ else _] => destruct (alive a b) end; [|lrefl].
    match goal with |- context [if ?b then _ else _] => destruct b end; [|lok].
    unfold lext; eapply logext_log_r; [apply mark_dependents_dirty_log|]. lok.
  - intros order s. rewrite loop_S. destruct order as [|n rest]; [lrefl|].
    destruct (nodes s !! n) as [nd|]; [|apply Hloop]. cbv zeta.
    destruct (n_dirty nd); [|lvia Hloop]. lb; [lvia Hrnu|]. apply Hloop.
  - intros starts s. rewrite propagate_S. cbv zeta.
    lb; [|apply Hloop]. unfold lext.
    eapply logext_log_r; [apply (sort_log true (S (size (nodes s))) starts (Ok [] s))|]. lrefl.
  - intros id s. rewrite propagate_updates_S. destruct (batching s); [lok|apply Hprop].
Qed.

Corollary exec_log_grows f en ss s : exists l, log (st_of (exec true f en ss s)) = l ++ log s.
Proof. apply (proj1 (lext_all f)). Qed.
Corollary propagate_log_grows f starts s : exists l, log (st_of (propagate true f starts s)) = l ++ log s.
Proof. destruct (lext_all f) as (_&_&_&_&_&_&_&_&_&_&H&_). apply H. Qed.
