(* Router/Show.v -- canonical output of the router model, mirrored by harness/router-driver *)
From Coq Require Import List String Ascii NArith.
From Syc Require Import Common.Show Router.Match.
Import ListNotations.
Open Scope string_scope.

Definition show_cap (c : cap) : string :=
  match c with
  | CParam x => "p:" ++ x
  | CSegs l => "s:" ++ join "," l
  end.
Definition show_mres (r : mres) : string :=
  match r with
  | MPanic => "PANIC"
  | MNone => "NONE"
  | MSome c => "SOME " ++ join ";" (map show_cap c)
  end.
Definition show_fval (v : fval) : string :=
  match v with
  | VU32 n => "u:" ++ show_N n
  | VStr s => "t:" ++ s
  | VVecStr l => "vt:" ++ join "," l
  | VVecU32 l => "vu:" ++ join "," (map show_N l)
  end.
Definition show_eres (r : eres) : string :=
  match r with
  | EPanic => "PANIC"
  | ENotFound => "NF"
  | EVariant i vals => "V" ++ show_nat i ++ " " ++ join ";" (map show_fval vals)
  end.

(* cross product used by the exhaustive family: every pattern against every path *)
Definition run_cross (fixed : bool) (pats : list (list seg)) (paths : list (list string)) : string :=
  lines (flat_map (fun p => map (fun q => show_mres (match_path_gen fixed p q)) paths) pats).
Definition run_enum (fixed : bool) (e : list variant) (urls : list string) : string :=
  lines (map (fun u => show_eres (match_route_gen fixed e u)) urls).
