(* Router/UrlFacts.v -- C17, "ignoring query and fragment": what follows the first '?' or '#' of a URL has no influence on the
   result of the derived enum's match_path, whatever it contains ('/' included). *)
From Coq Require Import List String Ascii Bool Arith.
From Syc Require Import Router.Match.
Import ListNotations.
Open Scope string_scope.

Fixpoint has_char (c : ascii) (s : string) : bool :=
  match s with EmptyString => false | String a r => Ascii.eqb a c || has_char c r end.

Lemma until_char_app_hit c a r : has_char c a = false -> until_char c (a ++ String c r) = a.
Proof.
  induction a as [|x a IH]; cbn; intros H.
  - rewrite Ascii.eqb_refl. reflexivity.
  - apply orb_false_iff in H as [Hx Ha]. rewrite Hx. f_equal. exact (IH Ha).
Qed.

Lemma until_char_none c a : has_char c a = false -> until_char c a = a.
Proof.
  induction a as [|x a IH]; cbn; intros H; [reflexivity|].
  apply orb_false_iff in H as [Hx Ha]. rewrite Hx. f_equal. exact (IH Ha).
Qed.

Lemma until_char_app_other c d a r :
  has_char c a = false -> c <> d -> until_char c (a ++ String d r) = a ++ String d (until_char c r).
Proof.
  intros Ha Hcd. induction a as [|x a IH]; cbn.
  - destruct (Ascii.eqb d c) eqn:E; [apply Ascii.eqb_eq in E; congruence|reflexivity].
  - cbn in Ha. apply orb_false_iff in Ha as [Hx Ha']. rewrite Hx. f_equal. exact (IH Ha').
Qed.

(* a path without '?' and '#' followed by a query or a fragment: strip gives the path back *)
Lemma strip_query path rest :
  has_char "?" path = false -> has_char "#" path = false -> strip (path ++ String "?" rest) = path.
Proof. intros Hq Hf. unfold strip. rewrite until_char_app_hit by exact Hq. apply until_char_none; exact Hf. Qed.

Lemma strip_fragment path rest :
  has_char "?" path = false -> has_char "#" path = false -> strip (path ++ String "#" rest) = path.
Proof.
  intros Hq Hf. unfold strip. rewrite until_char_app_other by (try exact Hq; discriminate).
  apply until_char_app_hit; exact Hf.
Qed.

Lemma strip_plain path : has_char "?" path = false -> has_char "#" path = false -> strip path = path.
Proof. intros Hq Hf. unfold strip. rewrite (until_char_none _ _ Hq). apply until_char_none; exact Hf. Qed.

Theorem query_ignored fx e path rest :
  has_char "?" path = false -> has_char "#" path = false ->
  match_route_gen fx e (path ++ String "?" rest) = match_route_gen fx e path.
Proof.
  intros Hq Hf. unfold match_route_gen, split_path. rewrite strip_query, strip_plain by assumption. reflexivity.
Qed.

Theorem fragment_ignored fx e path rest :
  has_char "?" path = false -> has_char "#" path = false ->
  match_route_gen fx e (path ++ String "#" rest) = match_route_gen fx e path.
Proof.
  intros Hq Hf. unfold match_route_gen, split_path. rewrite strip_fragment, strip_plain by assumption. reflexivity.
Qed.
