(* Router/MatchFacts.v -- proofs about Router/Match.v *)
From Coq Require Import List String Ascii Bool Arith NArith Lia.
From Syc Require Import Router.Match.
Import ListNotations.
Open Scope string_scope.
Open Scope list_scope.

Lemma split_at_app t a b : ~ In t a -> split_at t (a ++ t :: b) = Some (a, b).
Proof.
  induction a as [|y a IH]; intros Hn; cbn [split_at app].
  - rewrite String.eqb_refl. reflexivity.
  - destruct (String.eqb_spec y t) as [->|Hne]; [exfalso; apply Hn; left; reflexivity|].
    rewrite IH; [reflexivity|]. intros Hi; apply Hn; right; exact Hi.
Qed.

Lemma split_at_sound t l : forall a b, split_at t l = Some (a, b) -> l = a ++ t :: b /\ ~ In t a.
Proof.
  induction l as [|x r IH]; intros a b; cbn [split_at]; [discriminate|].
  destruct (String.eqb_spec x t) as [->|Hne].
  - intros H; inversion H; subst. split; [reflexivity | intros []].
  - destruct (split_at t r) as [[a' b']|]; [|discriminate].
    intros H; inversion H; subst. destruct (IH a' b eq_refl) as [-> Hn].
    split; [reflexivity|]. intros [H1|H1]; [congruence | exact (Hn H1)].
Qed.

Lemma split_at_some t l a b :
  split_at t l = Some (a, b) <-> l = a ++ t :: b /\ ~ In t a.
Proof.
  split; [apply split_at_sound|]. intros [-> Hn]. apply split_at_app; exact Hn.
Qed.

Lemma split_at_none t l : split_at t l = None <-> ~ In t l.
Proof.
  induction l as [|x r IH]; cbn [split_at].
  - split; [intros _ []|reflexivity].
  - destruct (String.eqb_spec x t) as [->|Hne].
    + split; [discriminate|]. intros H; exfalso; apply H; left; reflexivity.
    + destruct (split_at t r) as [[a b]|].
      * split; [discriminate|]. intros H. exfalso.
        assert (Hn : ~ In t r) by (intros Hi; apply H; right; exact Hi).
        apply IH in Hn. discriminate.
      * split; [|reflexivity]. intros _ [H|H]; [congruence|].
        apply (proj1 IH eq_refl H).
Qed.

Lemma cons_cap_some c r l : cons_cap c r = MSome l <-> exists l', r = MSome l' /\ l = c :: l'.
Proof.
  destruct r; cbn; split; try discriminate.
  - intros (l' & H & _); discriminate.
  - intros (l' & H & _); discriminate.
  - intros H; inversion H; subst; eauto.
  - intros (l' & H & ->); inversion H; subst; reflexivity.
Qed.

(* soundness and completeness of the (repaired) matcher w.r.t. [fits], by induction on the size *)
Lemma go_fits_n n : forall p q c, List.length p <= n -> wf p = true ->
  (go true p q = MSome c <-> fits p q c).
Proof.
  induction n as [|n IH]; intros p q c Hlen Hwf.
  - destruct p; [|cbn in Hlen; lia]. cbn. destruct q.
    + split; [intros H; inversion H; constructor | intros H; inversion H; reflexivity].
    + split; [discriminate | intros H; inversion H].
  - destruct p as [|s p].
    { cbn. destruct q.
      + split; [intros H; inversion H; constructor | intros H; inversion H; reflexivity].
      + split; [discriminate | intros H; inversion H]. }
    cbn [List.length] in Hlen.
    destruct s as [s| |].
    + (* Param *)
      cbn [wf] in Hwf. cbn [go]. destruct q as [|x pr].
      * split; [discriminate | intros H; inversion H].
      * destruct (String.eqb_spec x s) as [->|Hne].
        -- rewrite (IH p pr c) by (lia || assumption).
           split; [intros H; constructor; exact H | intros H; inversion H; subst; assumption].
        -- split; [discriminate | intros H; inversion H; subst; congruence].
    + (* DynParam *)
      cbn [wf] in Hwf. cbn [go]. destruct q as [|x pr].
      * split; [discriminate | intros H; inversion H].
      * rewrite cons_cap_some. split.
        -- intros (l' & Hg & ->). constructor. apply (IH p pr l'); [lia|assumption|exact Hg].
        -- intros H; inversion H; subst. eexists; split; [|reflexivity].
           apply (IH p pr); [lia|assumption|assumption].
    + (* DynSegments *)
      destruct p as [|s2 p2].
      * cbn [go]. split.
        -- intros H; inversion H; subst; constructor.
        -- intros H; inversion H; subst; reflexivity.
      * destruct s2 as [t| |]; cbn [wf] in Hwf; try discriminate.
        cbn [go]. cbn [List.length] in Hlen.
        destruct (split_at t q) as [[run pr]|] eqn:E.
        -- apply split_at_some in E as [-> Hn].
           rewrite cons_cap_some. split.
           ++ intros (l' & Hg & ->). constructor; [exact Hn|].
              apply (IH p2 pr l'); [lia|assumption|exact Hg].
           ++ intros H; inversion H; subst.
              assert (Hs1 : split_at t (run ++ t :: pr) = Some (run, pr))
                by (apply split_at_some; split; [reflexivity|assumption]).
              assert (Hs2 : split_at t (run0 ++ t :: path) = Some (run0, path))
                by (apply split_at_some; split; [reflexivity|assumption]).
              rewrite <- H2 in Hs1. rewrite Hs1 in Hs2. inversion Hs2; subst.
              eexists; split; [|reflexivity].
              apply (IH p2 path); [lia|assumption|assumption].
        -- apply split_at_none in E. split; [discriminate|].
           intros H; inversion H; subst. exfalso; apply E. apply in_or_app; right; left; reflexivity.
Qed.

Theorem go_fits p q c : wf p = true -> (go true p q = MSome c <-> fits p q c).
Proof. intros Hwf. apply (go_fits_n (List.length p)); [lia|exact Hwf]. Qed.

Theorem match_iff_fits p path c :
  wf p = true -> (match_path p path = MSome c <-> fits p (strip_last path) c).
Proof. intros Hwf. unfold match_path, match_path_gen. apply go_fits; exact Hwf. Qed.

(* totality: the `unreachable!` is dead for well-formed patterns (either version of the code) *)
Lemma cons_cap_panic c r : cons_cap c r = MPanic <-> r = MPanic.
Proof. destruct r; cbn; split; congruence. Qed.

Lemma go_total_n fx n : forall p q, List.length p <= n -> wf p = true -> go fx p q <> MPanic.
Proof.
  induction n as [|n IH]; intros p q Hlen Hwf.
  - destruct p; [|cbn in Hlen; lia]. cbn. destruct q; discriminate.
  - destruct p as [|s p]; [cbn; destruct q; discriminate|].
    cbn [List.length] in Hlen. destruct s as [s| |]; cbn [wf] in Hwf; cbn [go].
    + destruct q as [|x pr]; [discriminate|]. destruct (String.eqb x s); [|discriminate].
      apply IH; [lia|assumption].
    + destruct q as [|x pr]; [discriminate|]. rewrite cons_cap_panic. apply IH; [lia|assumption].
    + destruct p as [|s2 p2]; [discriminate|].
      destruct s2 as [t| |]; try discriminate. cbn [List.length] in Hlen.
      destruct (split_at t q) as [[run pr]|].
      * rewrite cons_cap_panic. apply IH; [lia|assumption].
      * destruct fx; [discriminate|]. apply IH; [lia|assumption].
Qed.

Theorem match_total fx p path : wf p = true -> match_path_gen fx p path <> MPanic.
Proof. intros H. unfold match_path_gen. apply (go_total_n fx (List.length p)); [lia|exact H]. Qed.

(* captures: one per dynamic segment, of the right kind, and they reproduce the path *)
Lemma fits_kinds p q c : fits p q c -> kinds_ok (dyn_segs p) c = true.
Proof. induction 1; cbn; auto. Qed.

Lemma kinds_ok_length ds c : kinds_ok ds c = true -> List.length c = List.length ds.
Proof.
  revert c; induction ds as [|s ds IH]; intros [|x c]; cbn; try discriminate; [reflexivity|].
  intros H; apply andb_prop in H as [_ H]. f_equal. apply IH; exact H.
Qed.

Lemma fits_subst p q c : fits p q c -> subst p c = Some q.
Proof.
  induction 1; cbn [subst]; try rewrite IHfits; try reflexivity.
  - cbn. rewrite app_nil_r. reflexivity.
Qed.

Theorem captures_count p path c :
  wf p = true -> match_path p path = MSome c ->
  kinds_ok (dyn_segs p) c = true /\ List.length c = List.length (dyn_segs p).
Proof.
  intros Hwf H. apply match_iff_fits in H; [|exact Hwf].
  pose proof (fits_kinds _ _ _ H) as Hk. split; [exact Hk | apply kinds_ok_length; exact Hk].
Qed.

Theorem captures_reproduce p path c :
  wf p = true -> match_path p path = MSome c -> subst p c = Some (strip_last path).
Proof. intros Hwf H. apply fits_subst. apply match_iff_fits; assumption. Qed.

(* the match, when it exists, is unique: [fits] is functional in the captures *)
Theorem fits_functional p q c1 c2 : wf p = true -> fits p q c1 -> fits p q c2 -> c1 = c2.
Proof.
  intros Hwf H1 H2. apply go_fits in H1, H2; try assumption. congruence.
Qed.

(* laziness, stated directly: a <p..> capture followed by static [t] never contains [t] *)
Theorem dyn_segments_lazy t p q run c :
  wf (DynSegments :: Param t :: p) = true ->
  match_path (DynSegments :: Param t :: p) q = MSome (CSegs run :: c) -> ~ In t run.
Proof.
  intros Hwf H. apply match_iff_fits in H; [|exact Hwf]. inversion H; subst. assumption.
Qed.

(* ---------------------------------------------------------------------------------- *)
(* The derived enum never panics.                                                      *)

Lemma conv_all_no_panic : forall ds ts caps pre,
  ftys_ok ds ts = true -> kinds_ok ds caps = true ->
  conv_all (List.length pre) ds ts (pre ++ caps) <> VPanic.
Proof.
  induction ds as [|s ds IH]; intros ts caps pre Hf Hk; cbn [conv_all]; [discriminate|].
  destruct ts as [|t ts]; [cbn in Hf; discriminate|].
  destruct caps as [|x caps]; [cbn in Hk; discriminate|].
  cbn in Hf, Hk. apply andb_prop in Hf as [Hf1 Hf2]. apply andb_prop in Hk as [Hk1 Hk2].
  rewrite nth_error_app2, Nat.sub_diag by lia. cbn [nth_error].
  specialize (IH ts caps (pre ++ [x]) Hf2 Hk2).
  rewrite app_length in IH; cbn [List.length] in IH. rewrite Nat.add_1_r, <- app_assoc in IH. cbn in IH.
  destruct s, x, t; cbn in Hf1, Hk1; try discriminate; cbn [conv].
  - destruct (parse_u32 s); [|discriminate].
    destruct (conv_all _ ds ts _); [contradiction|discriminate|discriminate].
  - destruct (conv_all _ ds ts _); [contradiction|discriminate|discriminate].
  - destruct (conv_all _ ds ts _); [contradiction|discriminate|discriminate].
  - destruct (parse_all l); [|discriminate].
    destruct (conv_all _ ds ts _); [contradiction|discriminate|discriminate].
Qed.

Lemma match_route_from_total i vs segs :
  forallb variant_ok vs = true -> match_route_from true i vs segs <> EPanic.
Proof.
  revert i; induction vs as [|v vs IH]; intros i Hok; cbn [match_route_from]; [discriminate|].
  cbn in Hok. apply andb_prop in Hok as [Hv Hvs]. unfold variant_ok in Hv.
  apply andb_prop in Hv as [Hwf Hf].
  destruct (match_path_gen true (vpat v) segs) as [| |caps] eqn:E.
  - exfalso. exact (match_total true _ _ Hwf E).
  - apply IH; exact Hvs.
  - destruct (captures_count _ _ _ Hwf E) as [Hk _].
    pose proof (conv_all_no_panic _ _ caps [] Hf Hk) as Hc. cbn in Hc.
    destruct (conv_all 0 _ _ caps); [contradiction|apply IH; exact Hvs|discriminate].
Qed.

Theorem route_enum_total e url :
  forallb variant_ok e = true -> match_route e url <> EPanic.
Proof. intros H. apply match_route_from_total; exact H. Qed.

(* first-match characterisation of the derived enum *)
Definition variant_hits (v : variant) (segs : list string) (vals : list fval) : Prop :=
  exists caps, fits (vpat v) (strip_last segs) caps /\
               conv_all 0 (dyn_segs (vpat v)) (vfields v) caps = VHit vals.

Lemma match_route_from_spec i vs segs :
  forallb variant_ok vs = true ->
  match match_route_from true i vs segs with
  | EPanic => False
  | ENotFound => forall k v vals, nth_error vs k = Some v -> ~ variant_hits v segs vals
  | EVariant j vals =>
      exists k v, j = i + k /\ nth_error vs k = Some v /\ variant_hits v segs vals /\
        forall k' v' vals', k' < k -> nth_error vs k' = Some v' -> ~ variant_hits v' segs vals'
  end.
Proof.
  revert i; induction vs as [|v vs IH]; intros i Hok; cbn [match_route_from].
  - intros k v vals H. destruct k; discriminate.
  - cbn in Hok. apply andb_prop in Hok as [Hv Hvs].
    pose proof Hv as Hv'. unfold variant_ok in Hv'. apply andb_prop in Hv' as [Hwf Hf].
    assert (Hmiss : forall vals,
      (match_path_gen true (vpat v) segs = MNone \/
       exists caps, match_path_gen true (vpat v) segs = MSome caps /\
                    conv_all 0 (dyn_segs (vpat v)) (vfields v) caps = VNext) ->
      ~ variant_hits v segs vals).
    { intros vals Hm (caps & Hfit & Hc). apply match_iff_fits in Hfit; [|exact Hwf].
      unfold match_path in Hfit. destruct Hm as [Hm|(caps' & Hm & Hn)]; congruence. }
    destruct (match_path_gen true (vpat v) segs) as [| |caps] eqn:E.
    + exact (match_total true _ _ Hwf E).
    + specialize (IH (S i) Hvs). destruct (match_route_from true (S i) vs segs) as [| |j vals].
      * exact IH.
      * intros k v0 vals Hn. destruct k; cbn in Hn.
        -- inversion Hn; subst. apply Hmiss. left; reflexivity.
        -- eapply IH; exact Hn.
      * destruct IH as (k & v0 & -> & Hn & Hh & Hfirst).
        exists (S k), v0. split; [lia|]. split; [exact Hn|]. split; [exact Hh|].
        intros k' v' vals' Hlt Hn'. destruct k'; cbn in Hn'.
        -- inversion Hn'; subst. apply Hmiss. left; reflexivity.
        -- eapply Hfirst; [|exact Hn']. lia.
    + destruct (captures_count _ _ _ Hwf E) as [Hk _].
      pose proof (conv_all_no_panic _ _ caps [] Hf Hk) as Hc. cbn in Hc.
      destruct (conv_all 0 _ _ caps) as [| |vals] eqn:Ec; [contradiction| |].
      * specialize (IH (S i) Hvs). destruct (match_route_from true (S i) vs segs) as [| |j vals].
        -- exact IH.
        -- intros k v0 vals Hn. destruct k; cbn in Hn.
           ++ inversion Hn; subst. apply Hmiss. right; eauto.
           ++ eapply IH; exact Hn.
        -- destruct IH as (k & v0 & -> & Hn & Hh & Hfirst).
           exists (S k), v0. split; [lia|]. split; [exact Hn|]. split; [exact Hh|].
           intros k' v' vals' Hlt Hn'. destruct k'; cbn in Hn'.
           ++ inversion Hn'; subst. apply Hmiss. right; eauto.
           ++ eapply Hfirst; [|exact Hn']. lia.
      * exists 0, v. split; [lia|]. split; [reflexivity|]. split; [|intros; lia].
        exists caps. split; [|exact Ec]. apply match_iff_fits; assumption.
Qed.

(* ---------------------------------------------------------------------------------- *)
(* The code as pinned violated the property: a match with a capture missing.           *)

Definition refute_pat := [DynSegments; Param "end"].
Definition refute_path := ["a"; "b"].

Lemma pinned_refuted :
  wf refute_pat = true /\ match_path_pinned refute_pat refute_path = MSome [] /\
  ~ (exists c, fits refute_pat (strip_last refute_path) c).
Proof.
  split; [reflexivity|]. split; [vm_compute; reflexivity|].
  intros [c H]. apply go_fits in H; [|reflexivity]. vm_compute in H. discriminate.
Qed.

Lemma pinned_enum_panics :
  let e := [ {| vpat := refute_pat; vfields := [FVecStr] |} ] in
  forallb variant_ok e = true /\ match_route_gen false e "/a/b" = EPanic.
Proof. split; vm_compute; reflexivity. Qed.

(* non-vacuity: a non-trivial well-formed pattern that matches *)
Example nonvacuous :
  let p := [Param "id"; DynSegments; Param "end"; DynParam] in
  wf p = true /\
  match_path p ["id"; "a"; "b"; "end"; "x?q=1#f"] = MSome [CSegs ["a"; "b"]; CParam "x"].
Proof. split; vm_compute; reflexivity. Qed.
