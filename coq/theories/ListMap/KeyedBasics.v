(* ListMap/KeyedBasics.v -- preparation for KeyedProof.v: index-level reading of nodup_keys / has_key /
   find_key, Prop reading of kst_ok, lemmas about spec_fill, and the loop bodies of the general path of
   map_keyed_step given names (each convertible to the anonymous body, see the *_unfold lemmas). *)
From Coq Require Import List Arith Bool Lia.
From Syc Require Import ListMap.Keyed ListMap.ListLemmas.
Import ListNotations.

(* ---------------------------------------------------------------------------------- *)
(* keys: index-level reading of nodup_keys / has_key / find_key *)

Definition keys_inj (l : list item) : Prop :=
  forall i i' a b, nth_error l i = Some a -> nth_error l i' = Some b -> key_of a = key_of b -> i = i'.

Lemma has_key_true k l : has_key k l = true <-> exists i a, nth_error l i = Some a /\ key_of a = k.
Proof.
  unfold has_key. rewrite existsb_exists. split.
  - intros [a [Hin Hk]]. apply Nat.eqb_eq in Hk. apply In_nth_error in Hin. destruct Hin as [i Hi]. eauto.
  - intros (i & a & Hi & Hk). exists a. split; [eapply nth_error_In; eauto | apply Nat.eqb_eq; exact Hk].
Qed.

Lemma has_key_false k l : has_key k l = false <-> forall i a, nth_error l i = Some a -> key_of a <> k.
Proof.
  split.
  - intros H i a Hi Hk. assert (Ht : has_key k l = true) by (apply has_key_true; eauto). congruence.
  - intros H. destruct (has_key k l) eqn:E; [|reflexivity].
    apply has_key_true in E. destruct E as (i & a & Hi & Hk). exfalso. eapply H; eauto.
Qed.

Lemma nodup_keys_inj l : nodup_keys l = true -> keys_inj l.
Proof.
  induction l as [|x l IH]; intros Hnd i i' a b Ha Hb Hk.
  - destruct i; discriminate Ha.
  - cbn [nodup_keys] in Hnd. apply andb_true_iff in Hnd. destruct Hnd as [Hx Hl].
    apply negb_true_iff in Hx. rewrite has_key_false in Hx.
    destruct i as [|i], i' as [|i']; cbn [nth_error] in Ha, Hb.
    + reflexivity.
    + injection Ha as ->. exfalso. eapply Hx; eauto.
    + injection Hb as ->. exfalso. eapply Hx; eauto.
    + f_equal. eapply IH; eauto.
Qed.

Lemma keys_inj_tail x l : keys_inj (x :: l) -> keys_inj l.
Proof.
  intros H i i' a b Ha Hb Hk. assert (E : S i = S i') by (eapply H; eauto). lia.
Qed.

Lemma find_key_at old : forall ms i a,
  keys_inj old -> length ms = length old -> nth_error old i = Some a ->
  find_key (key_of a) old ms = nth_error ms i.
Proof.
  induction old as [|o old IH]; intros ms i a Hinj Hlen Ha; [destruct i; discriminate Ha|].
  destruct ms as [|m ms]; [discriminate Hlen|]. cbn [length] in Hlen. injection Hlen as Hlen.
  cbn [find_key]. destruct i as [|i]; cbn [nth_error] in *.
  - injection Ha as ->. rewrite Nat.eqb_refl. reflexivity.
  - destruct (key_of o =? key_of a) eqn:E.
    + apply Nat.eqb_eq in E. assert (X : 0 = S i) by (eapply Hinj; cbn [nth_error]; eauto). discriminate X.
    + eapply IH; eauto using keys_inj_tail.
Qed.

Lemma find_key_Some k old : forall ms m,
  find_key k old ms = Some m -> exists i a, nth_error old i = Some a /\ key_of a = k /\ nth_error ms i = Some m.
Proof.
  induction old as [|o old IH]; intros ms m H; [discriminate H|].
  destruct ms as [|m0 ms]; [discriminate H|]. cbn [find_key] in H.
  destruct (key_of o =? k) eqn:E.
  - injection H as ->. apply Nat.eqb_eq in E. exists 0, o. auto.
  - destruct (IH _ _ H) as (i & a & Hi & Hk & Hm). exists (S i), a. auto.
Qed.

Lemma nth_error_combine {A B} (a : list A) (b : list B) i :
  nth_error (combine a b) i =
  match nth_error a i, nth_error b i with Some x, Some y => Some (x, y) | _, _ => None end.
Proof.
  revert b i. induction a as [|x a IH]; intros b i.
  - destruct i; reflexivity.
  - destruct b as [|y b].
    + destruct i as [|i]; cbn [combine nth_error]; [reflexivity|]. destruct (nth_error a i); reflexivity.
    + destruct i as [|i]; cbn [combine nth_error]; [reflexivity|]. apply IH.
Qed.

Lemma flat_map_nil {A B} (f : A -> list B) l : (forall p, In p l -> f p = []) -> flat_map f l = [].
Proof.
  induction l as [|x l IH]; intros H; cbn [flat_map]; [reflexivity|].
  rewrite (H x (or_introl eq_refl)), IH; [reflexivity|]. intros p Hp. apply H. right. exact Hp.
Qed.

Lemma firstn_S_snoc {A} (l : list A) k x : nth_error l k = Some x -> firstn (S k) l = firstn k l ++ [x].
Proof.
  revert k. induction l as [|y l IH]; intros k H; [destruct k; discriminate H|].
  destruct k as [|k]; cbn [nth_error] in H.
  - injection H as ->. reflexivity.
  - cbn [firstn app]. f_equal. apply IH. exact H.
Qed.

(* state invariant, Prop reading *)
Lemma kst_ok_spec st :
  kst_ok st = true <->
  length (mapped st) = length (items st) /\ disposers st = map Some (mapped st).
Proof.
  unfold kst_ok. rewrite !andb_true_iff, !Nat.eqb_eq.
  destruct st as [its ms ds nx]. cbn [items mapped disposers].
  split.
  - intros [[Hm Hd] Hf]. split; [exact Hm|].
    assert (Hl : length ds = length ms) by lia. clear Hm Hd.
    revert ds Hl Hf. induction ms as [|m ms IH]; intros [|d ds] Hl Hf; try discriminate Hl; [reflexivity|].
    cbn [combine forallb fst snd] in Hf. apply andb_true_iff in Hf. destruct Hf as [Hd Hf].
    destruct d as [d|]; [|discriminate Hd]. apply Nat.eqb_eq in Hd. subst d.
    cbn [map]. f_equal. apply IH; [cbn [length] in Hl; lia | exact Hf].
  - intros [Hm ->]. rewrite map_length. repeat split; auto.
    clear Hm. induction ms as [|m ms IH]; cbn [map combine forallb fst snd]; [reflexivity|].
    rewrite Nat.eqb_refl, IH. reflexivity.
Qed.

(* ---------------------------------------------------------------------------------- *)
(* specification-side lemmas *)

Definition dispf (new : list item) (p : item * nat) : list kev :=
  if has_key (key_of (fst p)) new then [] else [Dispose (snd p)].

Lemma spec_disposed_unfold old ms new : spec_disposed old ms new = flat_map (dispf new) (combine old ms).
Proof. reflexivity. Qed.

Lemma spec_fill_app old ms a b nx :
  spec_fill old ms (a ++ b) nx =
  let '(o1, e1, n1) := spec_fill old ms a nx in
  let '(o2, e2, n2) := spec_fill old ms b n1 in
  (o1 ++ o2, e1 ++ e2, n2).
Proof.
  revert nx. induction a as [|it a IH]; intros nx; cbn [app spec_fill].
  - destruct (spec_fill old ms b nx) as [[o2 e2] n2]. reflexivity.
  - destruct (find_key (key_of it) old ms) as [m|].
    + rewrite IH. destruct (spec_fill old ms a nx) as [[o1 e1] n1].
      destruct (spec_fill old ms b n1) as [[o2 e2] n2]. reflexivity.
    + rewrite IH. destruct (spec_fill old ms a (S nx)) as [[o1 e1] n1].
      destruct (spec_fill old ms b n1) as [[o2 e2] n2]. reflexivity.
Qed.

Lemma spec_fill_reuse old ms : forall a o1 nx,
  length a = length o1 ->
  (forall i it, nth_error a i = Some it -> find_key (key_of it) old ms = nth_error o1 i) ->
  spec_fill old ms a nx = (o1, [], nx).
Proof.
  induction a as [|it a IH]; intros o1 nx Hl H; destruct o1 as [|m o1]; try discriminate Hl; [reflexivity|].
  cbn [spec_fill]. rewrite (H 0 it eq_refl). cbn [nth_error].
  rewrite (IH o1 nx); [reflexivity | cbn [length] in Hl; lia |].
  intros i it' Hi. exact (H (S i) it' Hi).
Qed.

Lemma spec_fill_length old ms new nx : length (fst (fst (spec_fill old ms new nx))) = length new.
Proof.
  revert nx. induction new as [|it rest IH]; intros nx; cbn [spec_fill]; [reflexivity|].
  destruct (find_key (key_of it) old ms) as [m|].
  - specialize (IH nx). destruct (spec_fill old ms rest nx) as [[o e] n']. cbn [fst length] in *. lia.
  - specialize (IH (S nx)). destruct (spec_fill old ms rest (S nx)) as [[o e] n']. cbn [fst length] in *. lia.
Qed.

Lemma skipn_S_tl {A} k (l : list A) : skipn (S k) l = skipn k (tl l).
Proof. destruct l; [cbn [tl]; rewrite !skipn_nil; reflexivity | reflexivity]. Qed.

(* ---------------------------------------------------------------------------------- *)
(* the loop bodies, named (convertible to the anonymous ones) *)

Definition bi_body (new : list item) (start : nat) :=
  fun (acc : option (list (nat * nat) * list (option nat))) (j : nat) =>
    do '(idx, nexts) <- acc;
    do it <- nth_error new j;
    let k := key_of it in
    do nexts' <- set_nth nexts (j - start) (assoc_get idx k);
    Some (assoc_set idx k j, nexts').

Lemma build_indices_unfold new start new_end :
  build_indices new start new_end =
  fold_left (bi_body new start) (rev (seq start (new_end - start))) (Some ([], repeat None (new_end - start))).
Proof. reflexivity. Qed.

Definition s1_body (old : list item) (start : nat) (nexts : list (option nat)) :=
  fun (acc : option (list (nat * nat) * work)) (i : nat) =>
    do '(idx, w) <- acc;
    do it <- nth_error old i;
    let k := key_of it in
    match assoc_get idx k with
    | Some j =>
        do m <- nth_error (w_mapped w) i;
        do d <- nth_error (w_disposers w) i;
        do mt <- set_nth (w_mapped_tmp w) j (Some m);
        do dt <- set_nth (w_disposers_tmp w) j d;
        do ds <- set_nth (w_disposers w) i None;
        do nx <- nth_error nexts (j - start);
        let idx' := match nx with Some j' => assoc_set idx k j' | None => idx end in
        Some (idx', Work (w_mapped w) ds mt dt (w_next w) (w_events w))
    | None =>
        do d <- nth_error (w_disposers w) i;
        do sc <- d;
        do ds <- set_nth (w_disposers w) i None;
        Some (idx, Work (w_mapped w) ds (w_mapped_tmp w) (w_disposers_tmp w) (w_next w)
                        (Dispose sc :: w_events w))
    end.

Lemma step1_unfold old start e idx nexts w :
  step1 old start e idx nexts w = fold_left (s1_body old start nexts) (seq start (e - start)) (Some (idx, w)).
Proof. reflexivity. Qed.

Definition s2_body (new : list item) :=
  fun (acc : option work) (j : nat) =>
    do w <- acc;
    match nth_error (w_mapped_tmp w) j with
    | Some (Some m) =>
        do d <- nth_error (w_disposers_tmp w) j;
        do dt <- set_nth (w_disposers_tmp w) j None;
        if length (w_mapped w) <=? j then
          Some (Work (w_mapped w ++ [m]) (w_disposers w ++ [d]) (w_mapped_tmp w) dt (w_next w) (w_events w))
        else
          do ms <- set_nth (w_mapped w) j m;
          do ds <- set_nth (w_disposers w) j d;
          Some (Work ms ds (w_mapped_tmp w) dt (w_next w) (w_events w))
    | _ =>
        do it <- nth_error new j;
        let id := w_next w in
        let ev := Create it id :: w_events w in
        if j <? length (w_mapped w) then
          do ms <- set_nth (w_mapped w) j id;
          do ds <- set_nth (w_disposers w) j (Some id);
          Some (Work ms ds (w_mapped_tmp w) (w_disposers_tmp w) (S id) ev)
        else
          Some (Work (w_mapped w ++ [id]) (w_disposers w ++ [Some id]) (w_mapped_tmp w) (w_disposers_tmp w) (S id) ev)
    end.

Lemma step2_unfold new start w :
  step2 new start w = fold_left (s2_body new) (seq start (length new - start)) (Some w).
Proof. reflexivity. Qed.

Lemma map_keyed_step_general st x new' o old' :
  items st = o :: old' ->
  map_keyed_step st (x :: new') =
  let new := x :: new' in
  let old := o :: old' in
  let n := length new in
  let start := common_prefix old new in
  let w0 := Work (mapped st) (disposers st) (repeat None n) (repeat None n) (next_id st) [] in
  do '(e, ne, w1) <- skip_suffix (length old) old new start (length old) n w0;
  do '(idx, nexts) <- build_indices new start ne;
  do '(_, w2) <- step1 old start e idx nexts w1;
  do w3 <- step2 new start w2;
  Some (KSt new (firstn n (w_mapped w3)) (firstn n (w_disposers w3)) (w_next w3), rev (w_events w3)).
Proof. intros H. unfold map_keyed_step. rewrite H. reflexivity. Qed.

Lemma common_prefix_spec : forall a b,
  common_prefix a b <= length a /\ common_prefix a b <= length b /\
  forall i, i < common_prefix a b -> nth_error a i = nth_error b i.
Proof.
  induction a as [|x a IH]; intros b; cbn [common_prefix].
  - cbn [length]. split; [lia|]. split; [lia|]. intros i Hi; lia.
  - destruct b as [|y b]; [cbn [length]; split; [lia|]; split; [lia|]; intros i Hi; lia|].
    destruct (item_eqb x y) eqn:E.
    + apply item_eqb_eq in E. subst y. destruct (IH b) as (H1 & H2 & H3). cbn [length].
      split; [lia|]. split; [lia|]. intros [|i] Hi; cbn [nth_error]; [reflexivity|]. apply H3. lia.
    + cbn [length]. split; [lia|]. split; [lia|]. intros i Hi; lia.
Qed.
