(* ListMap/IndexedProof.v -- map_indexed: one update refines spec_indexed, for ALL states satisfying the
   state invariant and ALL new lists (no bound); the invariant is re-established, so the result
   chains over every sequence of updates. *)
From Coq Require Import List Arith Bool Lia.
From Syc Require Import ListMap.Keyed ListMap.ListLemmas.
Import ListNotations.

(* the loop body of map_indexed_step, named (convertible to the anonymous one, see [map_indexed_step_unfold]) *)
Definition ibody (olds : list item) :=
  fun (acc : option (list nat * list nat * nat * list kev)) (p : nat * item) =>
    do '(ms, ds, nx, evs) <- acc;
    let '(i, it) := p in
    match nth_error olds i with
    | None => Some (ms ++ [nx], ds ++ [nx], S nx, Create it nx :: evs)
    | Some o =>
        if item_eqb o it then Some (ms, ds, nx, evs)
        else
          do prev <- nth_error ds i;
          do ms' <- set_nth ms i nx;
          do ds' <- set_nth ds i nx;
          Some (ms', ds', S nx, Dispose prev :: Create it nx :: evs)
    end.

Lemma map_indexed_step_unfold st x new' :
  map_indexed_step st (x :: new') =
  let new := x :: new' in
  do '(ms, ds, nx, evs) <- fold_left (ibody (i_items st)) (combine (seq 0 (length new)) new)
                                     (Some (i_mapped st, i_disposers st, i_next st, []));
  Some (ISt new (firstn (length new) ms) (firstn (length new) ds) nx,
        rev evs ++ map Dispose (rev (skipn (length new) ds))).
Proof. reflexivity. Qed.

Lemma spec_indexed_fill_length old ms new nx :
  length (fst (fst (spec_indexed_fill old ms new nx))) = length new.
Proof.
  revert old ms nx. induction new as [|it rest IH]; intros old ms nx; cbn [spec_indexed_fill]; [reflexivity|].
  destruct old as [|o old'].
  - specialize (IH [] [] (S nx)). destruct (spec_indexed_fill [] [] rest (S nx)) as [[out evs] nx'].
    cbn [fst length] in *. lia.
  - destruct ms as [|m ms'].
    + specialize (IH [] [] (S nx)). destruct (spec_indexed_fill [] [] rest (S nx)) as [[out evs] nx'].
      cbn [fst length] in *. lia.
    + destruct (item_eqb o it).
      * specialize (IH old' ms' nx). destruct (spec_indexed_fill old' ms' rest nx) as [[out evs] nx'].
        cbn [fst length] in *. lia.
      * specialize (IH old' ms' (S nx)). destruct (spec_indexed_fill old' ms' rest (S nx)) as [[out evs] nx'].
        cbn [fst length] in *. lia.
Qed.

(* the loop invariant: the vectors are [pre ++ rest] where [pre] is the already processed part *)
Lemma ifold_spec olds : forall news old_rest pre ms_rest nx evs,
  (forall k, nth_error olds (length pre + k) = nth_error old_rest k) ->
  length ms_rest = length old_rest ->
  fold_left (ibody olds) (combine (seq (length pre) (length news)) news)
            (Some (pre ++ ms_rest, pre ++ ms_rest, nx, evs)) =
  let '(out, sevs, nx') := spec_indexed_fill old_rest ms_rest news nx in
  Some (pre ++ out ++ skipn (length news) ms_rest, pre ++ out ++ skipn (length news) ms_rest, nx', rev sevs ++ evs).
Proof.
  induction news as [|it rest IH]; intros old_rest pre ms_rest nx evs Hnth Hlen.
  - cbn [length seq combine fold_left spec_indexed_fill skipn rev app]. reflexivity.
  - cbn [length seq combine fold_left].
    assert (Hstep : forall pre' : list nat, length pre' = S (length pre) ->
              forall k, nth_error olds (length pre' + k) = nth_error (tl old_rest) k).
    { intros pre' Hp k. rewrite Hp. replace (S (length pre) + k) with (length pre + S k) by lia.
      rewrite Hnth. destruct old_rest; [destruct k; reflexivity | reflexivity]. }
    unfold ibody at 2. cbn [bind].
    pose proof (Hnth 0) as H0. rewrite Nat.add_0_r in H0. rewrite H0.
    destruct old_rest as [|o old'].
    + destruct ms_rest as [|m ms']; [|discriminate Hlen].
      cbn [nth_error spec_indexed_fill].
      rewrite !app_nil_r.
      assert (Hl : length (pre ++ [nx]) = S (length pre)) by (rewrite app_length; cbn [length]; lia).
      specialize (IH [] (pre ++ [nx]) [] (S nx) (Create it nx :: evs) (Hstep _ Hl) eq_refl).
      rewrite Hl, !app_nil_r in IH. rewrite IH.
      destruct (spec_indexed_fill [] [] rest (S nx)) as [[out sevs] nx'].
      cbn [rev]. rewrite <- !app_assoc. cbn [app].
      replace (skipn (length rest) []) with (@nil nat) by (destruct (length rest); reflexivity).
      replace (skipn (S (length rest)) []) with (@nil nat) by reflexivity.
      reflexivity.
    + destruct ms_rest as [|m ms']; [discriminate Hlen|].
      cbn [length] in Hlen. injection Hlen as Hlen.
      cbn [nth_error spec_indexed_fill skipn].
      assert (Hl : forall y, length (pre ++ [y]) = S (length pre))
        by (intros y; rewrite app_length; cbn [length]; lia).
      destruct (item_eqb o it) eqn:Eeq.
      * specialize (IH old' (pre ++ [m]) ms' nx evs (Hstep _ (Hl m)) Hlen).
        rewrite Hl, <- !app_assoc in IH. cbn [app] in IH. rewrite IH.
        destruct (spec_indexed_fill old' ms' rest nx) as [[out sevs] nx'].
        rewrite <- !app_assoc. reflexivity.
      * rewrite nth_error_app_len. cbn [nth_error bind].
        rewrite set_nth_app. cbn [bind].
        specialize (IH old' (pre ++ [nx]) ms' (S nx) (Dispose m :: Create it nx :: evs) (Hstep _ (Hl nx)) Hlen).
        rewrite Hl, <- !app_assoc in IH. cbn [app] in IH. rewrite IH.
        destruct (spec_indexed_fill old' ms' rest (S nx)) as [[out sevs] nx'].
        cbn [rev]. rewrite <- !app_assoc. cbn [app]. reflexivity.
Qed.

(* Prop-level statement of one indexed update *)
Theorem indexed_step_spec st new :
  ist_ok st = true ->
  exists st' evs,
    map_indexed_step st new = Some (st', evs) /\
    (let '(out, sevs, nx) := spec_indexed st new in
     i_mapped st' = out /\ evs = sevs /\ i_next st' = nx) /\
    i_items st' = new /\ i_disposers st' = i_mapped st' /\ ist_ok st' = true.
Proof.
  intros Hok. unfold ist_ok in Hok. apply andb_true_iff in Hok. destruct Hok as [Hlen Heq].
  apply Nat.eqb_eq in Hlen. apply list_eqb_eq in Heq.
  destruct st as [olds ms ds nx]. cbn [i_items i_mapped i_disposers i_next] in *. subst ds.
  destruct new as [|x new'].
  - cbn [map_indexed_step spec_indexed i_disposers i_mapped i_next].
    eexists _, _. split; [reflexivity|]. cbn [i_mapped i_items i_disposers i_next]. repeat split.
  - rewrite map_indexed_step_unfold. cbn zeta. cbn [i_items i_mapped i_disposers i_next].
    set (new := x :: new').
    pose proof (ifold_spec olds new olds [] ms nx [] (fun k => eq_refl) Hlen) as Hf.
    cbn [length app] in Hf. change (S (length new')) with (length new) in Hf.
    rewrite Hf. unfold spec_indexed. cbn [i_items i_mapped i_next]. fold new.
    pose proof (spec_indexed_fill_length olds ms new nx) as Hout.
    destruct (spec_indexed_fill olds ms new nx) as [[out sevs] nx']. cbn [fst] in Hout.
    cbn [bind].
    assert (Hfirst : firstn (length new) (out ++ skipn (length new) ms) = out).
    { rewrite <- Hout. rewrite firstn_app, firstn_all, Nat.sub_diag. cbn [firstn]. apply app_nil_r. }
    assert (Hskip : skipn (length new) (out ++ skipn (length new) ms) = skipn (length new) ms).
    { rewrite <- Hout at 1. rewrite skipn_app, skipn_all, Nat.sub_diag. reflexivity. }
    rewrite Hfirst, Hskip, app_nil_r, rev_involutive.
    eexists _, _. split; [reflexivity|]. cbn [i_mapped i_items i_disposers i_next].
    repeat split.
    unfold ist_ok. cbn [i_mapped i_items i_disposers]. rewrite Hout, Nat.eqb_refl, list_eqb_refl. reflexivity.
Qed.

(* GOAL (1): the boolean refinement check holds for every state satisfying the invariant and every new list *)
Theorem indexed_refines : forall st new, ist_ok st = true -> istep_refines st new = true.
Proof.
  intros st new Hok. destruct (indexed_step_spec st new Hok) as (st' & evs & Hstep & Hspec & Hitems & _ & Hok').
  unfold istep_refines. rewrite Hstep.
  destruct (spec_indexed st new) as [[out sevs] nx]. destruct Hspec as (Hm & He & Hn).
  subst out sevs nx. rewrite list_eqb_refl, events_eqb_refl, Nat.eqb_refl, Hok', Hitems.
  rewrite items_eqb_refl, Nat.eqb_refl. reflexivity.
Qed.

(* non-vacuity: a state with three items, update that keeps one, replaces one, and truncates one *)
Example indexed_refines_instance :
  let st := ISt [(1, 0); (2, 0); (3, 0)] [10; 11; 12] [10; 11; 12] 13 in
  ist_ok st = true /\
  map_indexed_step st [(1, 0); (2, 5)] = Some (ISt [(1, 0); (2, 5)] [10; 13] [10; 13] 14,
                                               [Create (2, 5) 13; Dispose 11; Dispose 12]).
Proof. vm_compute. split; reflexivity. Qed.

(* chains: from the initial state, any sequence of updates never panics and every step refines the spec *)
Fixpoint irun (st : ist) (updates : list (list item)) : bool :=
  match updates with
  | [] => true
  | new :: rest =>
      istep_refines st new &&
      match map_indexed_step st new with
      | Some (st', _) => irun st' rest
      | None => false
      end
  end.

Theorem indexed_chain_from : forall updates st, ist_ok st = true -> irun st updates = true.
Proof.
  induction updates as [|new rest IH]; intros st Hok; cbn [irun]; [reflexivity|].
  rewrite (indexed_refines st new Hok). cbn [andb].
  destruct (indexed_step_spec st new Hok) as (st' & evs & Hstep & _ & _ & _ & Hok').
  rewrite Hstep. apply IH. exact Hok'.
Qed.

Theorem indexed_chain : forall updates, irun iinit updates = true.
Proof. intros updates. apply indexed_chain_from. reflexivity. Qed.

Example indexed_chain_instance :
  irun iinit [[(1, 0); (2, 0)]; [(2, 0); (2, 0); (3, 1)]; []; [(4, 4)]] = true.
Proof. vm_compute. reflexivity. Qed.

Print Assumptions indexed_refines.
Print Assumptions indexed_chain.
