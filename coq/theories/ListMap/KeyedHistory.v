(* ListMap/KeyedHistory.v -- what the refinement to spec_keyed means for histories: the event log of any
   chain of duplicate-free updates, replayed against the set of live scopes, creates every call id exactly
   once (the ids are the consecutive values of the call counter), disposes only live scopes and each at most
   once, and leaves exactly the scopes of the current output alive. Per update: a key that stays keeps its
   mapped value whatever its position; Create events are exactly the entering keys, Dispose events exactly
   the leaving keys. *)
From Coq Require Import List Arith Bool Lia.
From Syc Require Import ListMap.Keyed ListMap.ListLemmas ListMap.KeyedBasics ListMap.KeyedProof.
Import ListNotations.

Definition created (evs : list kev) : list nat :=
  flat_map (fun e => match e with Create _ id => [id] | Dispose _ => [] end) evs.
Definition disposed (evs : list kev) : list nat :=
  flat_map (fun e => match e with Dispose id => [id] | Create _ _ => [] end) evs.

(* the ledger: a Create must carry the next call id and makes it live; a Dispose must hit a live scope and
   removes it. [None] = the log is not a legal history. *)
Fixpoint replay (live : list nat) (nx : nat) (evs : list kev) : option (list nat * nat) :=
  match evs with
  | [] => Some (live, nx)
  | Create _ id :: r => if Nat.eqb id nx then replay (id :: live) (S nx) r else None
  | Dispose id :: r =>
      if existsb (Nat.eqb id) live then replay (filter (fun x => negb (Nat.eqb x id)) live) nx r else None
  end.

Lemma replay_app : forall l1 l2 live nx,
  replay live nx (l1 ++ l2) =
  match replay live nx l1 with Some (live1, nx1) => replay live1 nx1 l2 | None => None end.
Proof.
  induction l1 as [|e l1 IH]; intros l2 live nx; cbn [app replay]; [reflexivity|].
  destruct e as [b id|id].
  - destruct (id =? nx); [apply IH | reflexivity].
  - destruct (existsb (Nat.eqb id) live); [apply IH | reflexivity].
Qed.

Lemma created_app a b : created (a ++ b) = created a ++ created b.
Proof. apply flat_map_app. Qed.
Lemma disposed_app a b : disposed (a ++ b) = disposed a ++ disposed b.
Proof. apply flat_map_app. Qed.

Lemma in_live_filter id d live : In id (filter (fun x => negb (x =? d)) live) <-> In id live /\ id <> d.
Proof.
  rewrite filter_In. rewrite negb_true_iff, Nat.eqb_neq. reflexivity.
Qed.

Lemma existsb_eqb_In id live : existsb (Nat.eqb id) live = true <-> In id live.
Proof.
  rewrite existsb_exists. split.
  - intros [x [Hin Hx]]. apply Nat.eqb_eq in Hx. subst; exact Hin.
  - intros H. exists id. split; [exact H | apply Nat.eqb_refl].
Qed.

(* what a legal history guarantees: exactly-once creation and at-most-once disposal of live scopes *)
Theorem replay_exactly_once : forall log live nx live' nx',
  replay live nx log = Some (live', nx') ->
  NoDup live -> Forall (fun x => x < nx) live ->
  NoDup live' /\ Forall (fun x => x < nx') live' /\ nx <= nx' /\
  created log = seq nx (nx' - nx) /\
  NoDup (disposed log) /\
  (forall id, In id (disposed log) -> In id live \/ nx <= id < nx') /\
  (forall id, In id live' <-> (In id live \/ nx <= id < nx') /\ ~ In id (disposed log)).
Proof.
  induction log as [|e log IH]; intros live nx live' nx' Hr Hnd Hlt.
  - cbn [replay] in Hr. injection Hr as <- <-. cbn [created disposed flat_map]. rewrite Nat.sub_diag.
    split; [exact Hnd|]. split; [exact Hlt|]. split; [lia|]. split; [reflexivity|].
    split; [constructor|]. split; [intros id []|].
    intros id. cbn [In]. split.
    + intros H. split; [left; exact H | tauto].
    + intros [[H|H] _]; [exact H | lia].
  - destruct e as [b id|d]; cbn [replay] in Hr.
    + destruct (id =? nx) eqn:E; [|discriminate Hr]. apply Nat.eqb_eq in E. subst id.
      assert (Hnd2 : NoDup (nx :: live)).
      { constructor; [|exact Hnd]. intros Hin. rewrite Forall_forall in Hlt. apply Hlt in Hin. lia. }
      assert (Hlt2 : Forall (fun x => x < S nx) (nx :: live)).
      { constructor; [lia|]. eapply Forall_impl; [|exact Hlt]. cbn beta. intros; lia. }
      destruct (IH _ _ _ _ Hr Hnd2 Hlt2) as (R1 & R2 & R3 & R4 & R5 & R6 & R7).
      split; [exact R1|]. split; [exact R2|]. split; [lia|].
      split.
      { change (created (Create b nx :: log)) with (nx :: created log). rewrite R4.
        replace (nx' - nx) with (S (nx' - S nx)) by lia. reflexivity. }
      change (disposed (Create b nx :: log)) with (disposed log).
      split; [exact R5|]. split.
      { intros id Hid. destruct (R6 id Hid) as [[->|H]|H]; [right; lia | left; exact H | right; lia]. }
      intros id. rewrite R7. cbn [In]. split.
      * intros [[[->|H]|H] Hn]; (split; [|exact Hn]); [right; lia | left; exact H | right; lia].
      * intros [[H|H] Hn]; (split; [|exact Hn]); [left; right; exact H|].
        destruct (Nat.eq_dec id nx) as [->|Hne]; [left; left; reflexivity | right; lia].
    + destruct (existsb (Nat.eqb d) live) eqn:E; [|discriminate Hr]. apply existsb_eqb_In in E.
      assert (Hdlt : d < nx) by (rewrite Forall_forall in Hlt; apply Hlt; exact E).
      assert (Hnd2 : NoDup (filter (fun x => negb (x =? d)) live)) by (apply NoDup_filter; exact Hnd).
      assert (Hlt2 : Forall (fun x => x < nx) (filter (fun x => negb (x =? d)) live)).
      { rewrite Forall_forall in *. intros x Hx. apply in_live_filter in Hx. apply Hlt. tauto. }
      destruct (IH _ _ _ _ Hr Hnd2 Hlt2) as (R1 & R2 & R3 & R4 & R5 & R6 & R7).
      split; [exact R1|]. split; [exact R2|]. split; [exact R3|].
      change (created (Dispose d :: log)) with (created log).
      split; [exact R4|].
      change (disposed (Dispose d :: log)) with (d :: disposed log).
      assert (Hdn : ~ In d (disposed log)).
      { intros Hin. destruct (R6 d Hin) as [H|H]; [apply in_live_filter in H; tauto | lia]. }
      split; [constructor; assumption|]. split.
      { intros id [<-|Hid]; [left; exact E|]. destruct (R6 id Hid) as [H|H]; [|right; exact H].
        apply in_live_filter in H. left; tauto. }
      intros id. rewrite R7, in_live_filter. cbn [In]. split.
      * intros [[[H Hne]|H] Hn]; (split; [tauto|]); intros [Hx|Hx]; try tauto; subst; lia.
      * intros [[H|H] Hn]; (split; [|tauto]).
        -- left. split; [exact H|]. intros ->. tauto.
        -- right. exact H.
Qed.

(* a disposal is always preceded by the creation of its scope (or the scope was live at the start) *)
Corollary replay_dispose_after_create : forall l1 d l2 live nx live' nx',
  replay live nx (l1 ++ Dispose d :: l2) = Some (live', nx') ->
  NoDup live -> Forall (fun x => x < nx) live ->
  In d live \/ In d (created l1).
Proof.
  intros l1 d l2 live nx live' nx' Hr Hnd Hlt. rewrite replay_app in Hr.
  destruct (replay live nx l1) as [[live1 nx1]|] eqn:E1; [|discriminate Hr].
  cbn [replay] in Hr. destruct (existsb (Nat.eqb d) live1) eqn:Ed; [|discriminate Hr].
  apply existsb_eqb_In in Ed.
  destruct (replay_exactly_once _ _ _ _ _ E1 Hnd Hlt) as (_ & _ & _ & R4 & _ & _ & R7).
  apply R7 in Ed. destruct Ed as [[H|H] _]; [left; exact H|]. right. rewrite R4. apply in_seq. lia.
Qed.

(* ---------------------------------------------------------------------------------- *)
(* reading the specification *)

Lemma in_created l id : In id (created l) <-> exists b, In (Create b id) l.
Proof.
  induction l as [|e l IH].
  - split; [intros [] | intros [b []]].
  - change (created (e :: l)) with ((match e with Create _ i => [i] | Dispose _ => [] end) ++ created l).
    rewrite in_app_iff, IH. cbn [In]. destruct e as [b' i|d]; cbn [In].
    + split.
      * intros [[<-|[]]|[b H]]; [exists b'; left; reflexivity | exists b; right; exact H].
      * intros [b [H|H]]; [injection H as <- <-; left; left; reflexivity | right; exists b; exact H].
    + split.
      * intros [[]|[b H]]. exists b; right; exact H.
      * intros [b [H|H]]; [discriminate H | right; exists b; exact H].
Qed.

Lemma in_disposed l m : In m (disposed l) <-> In (Dispose m) l.
Proof.
  induction l as [|e l IH].
  - split; intros [].
  - change (disposed (e :: l)) with ((match e with Dispose i => [i] | Create _ _ => [] end) ++ disposed l).
    rewrite in_app_iff, IH. cbn [In]. destruct e as [b' i|d]; cbn [In].
    + split; [intros [[]|H]; right; exact H | intros [H|H]; [discriminate H | right; exact H]].
    + split.
      * intros [[<-|[]]|H]; [left; reflexivity | right; exact H].
      * intros [H|H]; [injection H as <-; left; left; reflexivity | right; exact H].
Qed.

Lemma created_unique l : NoDup (created l) -> forall b1 b2 id,
  In (Create b1 id) l -> In (Create b2 id) l -> b1 = b2.
Proof.
  induction l as [|e l IH]; intros Hnd b1 b2 id H1 H2; [destruct H1|].
  destruct e as [b i|d].
  - change (created (Create b i :: l)) with (i :: created l) in Hnd.
    apply NoDup_cons_iff in Hnd. destruct Hnd as [Hni Hnd].
    destruct H1 as [H1|H1], H2 as [H2|H2].
    + congruence.
    + injection H1 as <- <-. exfalso. apply Hni. apply in_created. eauto.
    + injection H2 as <- <-. exfalso. apply Hni. apply in_created. eauto.
    + eapply IH; eauto.
  - change (created (Dispose d :: l)) with (created l) in Hnd.
    destruct H1 as [H1|H1]; [discriminate H1|]. destruct H2 as [H2|H2]; [discriminate H2|].
    eapply IH; eauto.
Qed.

Lemma only_disposals l : created l = [] -> l = map Dispose (disposed l).
Proof.
  induction l as [|e l IH]; intros H; [reflexivity|]. destruct e as [b i|d].
  - discriminate H.
  - change (disposed (Dispose d :: l)) with (d :: disposed l). cbn [map]. f_equal. apply IH. exact H.
Qed.

Lemma spec_fill_char old ms : forall new nx out creates nx',
  spec_fill old ms new nx = (out, creates, nx') ->
  nx <= nx' /\ created creates = seq nx (nx' - nx) /\ disposed creates = [] /\
  (forall j b, nth_error new j = Some b ->
     match find_key (key_of b) old ms with
     | Some m => nth_error out j = Some m
     | None => exists id, nth_error out j = Some id /\ nx <= id < nx' /\ In (Create b id) creates
     end) /\
  (forall b id, In (Create b id) creates ->
     exists j, nth_error new j = Some b /\ find_key (key_of b) old ms = None /\
               nth_error out j = Some id /\ nx <= id < nx').
Proof.
  induction new as [|a new IH]; intros nx out creates nx' H; cbn [spec_fill] in H.
  - injection H as <- <- <-. rewrite Nat.sub_diag. split; [lia|]. split; [reflexivity|]. split; [reflexivity|].
    split; [intros [|j] b Hb; discriminate Hb | intros b id []].
  - destruct (find_key (key_of a) old ms) as [m|] eqn:Ef.
    + destruct (spec_fill old ms new nx) as [[o e] n'] eqn:E. injection H as <- <- <-.
      destruct (IH _ _ _ _ E) as (I1 & I2 & I3 & I4 & I5).
      split; [exact I1|]. split; [exact I2|]. split; [exact I3|]. split.
      * intros [|j] b Hb; cbn [nth_error] in *.
        -- injection Hb as <-. rewrite Ef. reflexivity.
        -- apply I4. exact Hb.
      * intros b id Hin. destruct (I5 b id Hin) as (j & Hj). exists (S j). exact Hj.
    + destruct (spec_fill old ms new (S nx)) as [[o e] n'] eqn:E. injection H as <- <- <-.
      destruct (IH _ _ _ _ E) as (I1 & I2 & I3 & I4 & I5).
      split; [lia|]. split.
      { change (created (Create a nx :: e)) with (nx :: created e). rewrite I2.
        replace (n' - nx) with (S (n' - S nx)) by lia. reflexivity. }
      split; [exact I3|]. split.
      * intros [|j] b Hb; cbn [nth_error] in *.
        -- injection Hb as <-. rewrite Ef. exists nx. split; [reflexivity|]. split; [lia|]. left; reflexivity.
        -- specialize (I4 j b Hb). destruct (find_key (key_of b) old ms) as [m|]; [exact I4|].
           destruct I4 as (id & H1 & H2 & H3). exists id. split; [exact H1|]. split; [lia|]. right; exact H3.
      * intros b id [Hin|Hin].
        -- injection Hin as <- <-. exists 0. cbn [nth_error]. repeat split; auto; lia.
        -- destruct (I5 b id Hin) as (j & H1 & H2 & H3 & H4). exists (S j). cbn [nth_error].
           repeat split; auto; lia.
Qed.

Lemma disp_char new : forall C : list (item * nat),
  created (flat_map (dispf new) C) = [] /\
  (forall m, In m (disposed (flat_map (dispf new) C)) <->
             exists a, In (a, m) C /\ has_key (key_of a) new = false) /\
  (NoDup (map snd C) -> NoDup (disposed (flat_map (dispf new) C))).
Proof.
  induction C as [|[a m0] C IH].
  - split; [reflexivity|]. split; [|intros _; constructor].
    intros m. split; [intros [] | intros [a [[] _]]].
  - destruct IH as (I1 & I2 & I3). cbn [flat_map]. rewrite created_app, disposed_app, I1.
    change (dispf new (a, m0)) with (if has_key (key_of a) new then [] else [Dispose m0]).
    destruct (has_key (key_of a) new) eqn:Eh.
    + split; [reflexivity|]. cbn [disposed flat_map app]. split.
      * intros m. rewrite I2. split.
        -- intros (a' & Hin & Hh). exists a'. split; [right; exact Hin | exact Hh].
        -- intros (a' & [Heq|Hin] & Hh); [injection Heq as <- <-; congruence | exists a'; auto].
      * intros Hnd. cbn [map snd] in Hnd. apply NoDup_cons_iff in Hnd. apply I3. tauto.
    + split; [reflexivity|].
      change (disposed [Dispose m0]) with [m0]. cbn [app]. split.
      * intros m. cbn [In]. rewrite I2. split.
        -- intros [<-|(a' & Hin & Hh)]; [exists a; split; [left; reflexivity | exact Eh]|].
           exists a'. split; [right; exact Hin | exact Hh].
        -- intros (a' & [Heq|Hin] & Hh); [injection Heq as <- <-; left; reflexivity | right; exists a'; auto].
      * intros Hnd. cbn [map snd] in Hnd. apply NoDup_cons_iff in Hnd. destruct Hnd as [Hni Hnd].
        constructor; [|apply I3; exact Hnd].
        intros Hin. apply I2 in Hin. destruct Hin as (a' & Hin & _). apply Hni.
        apply (in_map snd) in Hin. exact Hin.
Qed.

Lemma in_combine_nth {A B} (a : list A) (b : list B) x y :
  In (x, y) (combine a b) <-> exists i, nth_error a i = Some x /\ nth_error b i = Some y.
Proof.
  split.
  - intros Hin. apply In_nth_error in Hin. destruct Hin as [i Hi]. exists i.
    rewrite nth_error_combine in Hi.
    destruct (nth_error a i); [|discriminate Hi]. destruct (nth_error b i); [|discriminate Hi].
    injection Hi as <- <-. auto.
  - intros (i & Ha & Hb). apply (nth_error_In _ i). rewrite nth_error_combine, Ha, Hb. reflexivity.
Qed.

Lemma map_snd_combine {A B} : forall (a : list A) (b : list B), length b = length a -> map snd (combine a b) = b.
Proof.
  induction a as [|x a IH]; intros [|y b] Hl; try discriminate Hl; [reflexivity|].
  cbn [combine map snd]. f_equal. apply IH. cbn [length] in Hl. lia.
Qed.

Lemma find_key_None_iff k old : forall ms, length ms = length old ->
  (find_key k old ms = None <-> has_key k old = false).
Proof.
  induction old as [|o old IH]; intros [|m ms] Hl; try discriminate Hl; [split; reflexivity|].
  cbn [find_key has_key existsb]. destruct (key_of o =? k); [split; intros H; discriminate H|].
  cbn [orb]. apply IH. cbn [length] in Hl. lia.
Qed.

(* ---------------------------------------------------------------------------------- *)
(* replaying the two halves of a specified event list *)

Lemma replay_disposals : forall D live nx, NoDup D -> incl D live ->
  exists live1, replay live nx (map Dispose D) = Some (live1, nx) /\
                forall id, In id live1 <-> In id live /\ ~ In id D.
Proof.
  induction D as [|d D IH]; intros live nx Hnd Hincl.
  - exists live. split; [reflexivity|]. intros id. cbn [In]. tauto.
  - apply NoDup_cons_iff in Hnd. destruct Hnd as [Hni Hnd]. cbn [map replay].
    assert (Hd : existsb (Nat.eqb d) live = true) by (apply existsb_eqb_In, Hincl; left; reflexivity).
    rewrite Hd.
    destruct (IH (filter (fun x => negb (x =? d)) live) nx Hnd) as (live1 & Hr & Hin).
    { intros x Hx. apply in_live_filter. split; [apply Hincl; right; exact Hx | intros ->; contradiction]. }
    exists live1. split; [exact Hr|]. intros id. rewrite Hin, in_live_filter. cbn [In].
    split; [intros [[H1 H2] H3]; split; [exact H1|]; intros [H|H]; [subst; tauto | tauto] |].
    intros [H1 H2]. split; [split; [exact H1|]; intros ->; tauto | tauto].
Qed.

Lemma replay_creates : forall l live nx k, disposed l = [] -> created l = seq nx k ->
  replay live nx l = Some (rev (created l) ++ live, nx + k).
Proof.
  induction l as [|e l IH]; intros live nx k Hd Hc.
  - destruct k; [|discriminate Hc]. cbn [replay created flat_map rev app]. rewrite Nat.add_0_r. reflexivity.
  - destruct e as [b i|d]; [|discriminate Hd].
    change (created (Create b i :: l)) with (i :: created l) in *.
    change (disposed (Create b i :: l)) with (disposed l) in Hd.
    destruct k as [|k]; [discriminate Hc|]. cbn [seq] in Hc. injection Hc as -> Hc.
    cbn [replay]. rewrite Nat.eqb_refl. rewrite (IH _ _ k Hd Hc). cbn [rev].
    rewrite <- app_assoc. cbn [app]. do 2 f_equal. lia.
Qed.

Lemma replay_equiv : forall log l1 l2 nx r1 n1,
  (forall id, In id l1 <-> In id l2) -> replay l1 nx log = Some (r1, n1) ->
  exists r2, replay l2 nx log = Some (r2, n1) /\ forall id, In id r1 <-> In id r2.
Proof.
  induction log as [|e log IH]; intros l1 l2 nx r1 n1 Heq Hr.
  - cbn [replay] in *. injection Hr as <- <-. exists l2. auto.
  - destruct e as [b i|d]; cbn [replay] in *.
    + destruct (i =? nx); [|discriminate Hr]. eapply IH; [|exact Hr].
      intros id. cbn [In]. rewrite Heq. reflexivity.
    + destruct (existsb (Nat.eqb d) l1) eqn:E; [|discriminate Hr].
      apply existsb_eqb_In in E. apply Heq in E. apply existsb_eqb_In in E. rewrite E.
      eapply IH; [|exact Hr]. intros id. rewrite !in_live_filter, Heq. reflexivity.
Qed.

(* ---------------------------------------------------------------------------------- *)
(* one update *)

(* call ids in the output are pairwise distinct and below the call counter *)
Definition kfresh (st : kst) : Prop :=
  NoDup (mapped st) /\ Forall (fun m => m < next_id st) (mapped st).

Section Step.
  Variables (st : kst) (new : list item) (st' : kst) (evs : list kev).
  Hypothesis Hok : kst_ok st = true.
  Hypothesis Hndo : nodup_keys (items st) = true.
  Hypothesis Hndn : nodup_keys new = true.
  Hypothesis Hstep : map_keyed_step st new = Some (st', evs).

  Lemma step_as_spec : exists creates,
    spec_fill (items st) (mapped st) new (next_id st) = (mapped st', creates, next_id st') /\
    evs = spec_disposed (items st) (mapped st) new ++ creates /\
    items st' = new /\ length (mapped st) = length (items st).
  Proof.
    destruct (keyed_step_spec st new Hok Hndo Hndn) as (st2 & evs2 & Hstep2 & Hspec & Hitems & _).
    rewrite Hstep in Hstep2. injection Hstep2 as <- <-.
    unfold spec_keyed in Hspec.
    destruct (spec_fill (items st) (mapped st) new (next_id st)) as [[out creates] nx'].
    injection Hspec as <- <- <-. exists creates. apply kst_ok_spec in Hok. tauto.
  Qed.

  (* a key that stays keeps its mapped value, whatever its old and new positions *)
  Theorem keyed_reuse : forall i j a b,
    nth_error (items st) i = Some a -> nth_error new j = Some b -> key_of a = key_of b ->
    nth_error (mapped st') j = nth_error (mapped st) i.
  Proof.
    intros i j a b Ha Hb Hk. destruct step_as_spec as (creates & Hf & _ & _ & Hlen).
    destruct (spec_fill_char _ _ _ _ _ _ _ Hf) as (_ & _ & _ & P & _).
    specialize (P j b Hb). rewrite <- Hk in P.
    rewrite (find_key_at (items st) (mapped st) i a (nodup_keys_inj _ Hndo) Hlen Ha) in P.
    destruct (nth_error_lt_Some (mapped st) i) as [m Hm].
    { rewrite Hlen. eapply nth_error_Some_lt; eauto. }
    rewrite Hm in P |- *. exact P.
  Qed.

  (* map_fn is called exactly for the keys that enter *)
  Theorem keyed_creates_exact : forall b id,
    In (Create b id) evs <->
    exists j, nth_error new j = Some b /\ has_key (key_of b) (items st) = false /\
              nth_error (mapped st') j = Some id /\ next_id st <= id < next_id st'.
  Proof.
    intros b id. destruct step_as_spec as (creates & Hf & Hev & _ & Hlen).
    destruct (spec_fill_char _ _ _ _ _ _ _ Hf) as (_ & _ & _ & P & Q).
    assert (Hin : In (Create b id) evs <-> In (Create b id) creates).
    { rewrite Hev, in_app_iff. split; [|tauto]. intros [H|H]; [|exact H]. exfalso.
      rewrite spec_disposed_unfold in H.
      destruct (disp_char new (combine (items st) (mapped st))) as (Hc & _ & _).
      assert (X : In id (created (flat_map (dispf new) (combine (items st) (mapped st)))))
        by (apply in_created; eauto).
      rewrite Hc in X. destruct X. }
    rewrite Hin. split.
    - intros H. destruct (Q b id H) as (j & H1 & H2 & H3 & H4). exists j.
      apply (find_key_None_iff _ _ _ Hlen) in H2. auto.
    - intros (j & H1 & H2 & H3 & H4). specialize (P j b H1).
      apply (find_key_None_iff _ _ _ Hlen) in H2. rewrite H2 in P.
      destruct P as (id' & P1 & _ & P3). congruence.
  Qed.

  (* the scopes disposed are exactly those of the keys that leave *)
  Theorem keyed_disposes_exact : forall m,
    In (Dispose m) evs <->
    exists i a, nth_error (items st) i = Some a /\ nth_error (mapped st) i = Some m /\
                has_key (key_of a) new = false.
  Proof.
    intros m. destruct step_as_spec as (creates & Hf & Hev & _ & Hlen).
    destruct (spec_fill_char _ _ _ _ _ _ _ Hf) as (_ & _ & Hd & _ & _).
    destruct (disp_char new (combine (items st) (mapped st))) as (_ & Hm & _).
    rewrite <- in_disposed, Hev, disposed_app, Hd, app_nil_r, spec_disposed_unfold, Hm.
    split.
    - intros (a & Hin & Hh). apply in_combine_nth in Hin. destruct Hin as (i & H1 & H2). eauto.
    - intros (i & a & H1 & H2 & Hh). exists a. split; [apply in_combine_nth; eauto | exact Hh].
  Qed.

  Hypothesis Hfresh : kfresh st.

  Lemma out_class : forall j id, nth_error (mapped st') j = Some id ->
    exists b, nth_error new j = Some b /\
      ((exists i a, nth_error (items st) i = Some a /\ key_of a = key_of b /\ nth_error (mapped st) i = Some id) \/
       (next_id st <= id < next_id st' /\ In (Create b id) evs)).
  Proof.
    intros j id Hj. destruct step_as_spec as (creates & Hf & Hev & _ & Hlen).
    pose proof (spec_fill_length (items st) (mapped st) new (next_id st)) as Hol.
    rewrite Hf in Hol. cbn [fst] in Hol.
    destruct (nth_error_lt_Some new j) as [b Hb].
    { rewrite <- Hol. eapply nth_error_Some_lt; eauto. }
    exists b. split; [exact Hb|].
    destruct (spec_fill_char _ _ _ _ _ _ _ Hf) as (_ & _ & _ & P & _). specialize (P j b Hb).
    destruct (find_key (key_of b) (items st) (mapped st)) as [m|] eqn:Ef.
    - left. destruct (find_key_Some _ _ _ _ Ef) as (i & a & H1 & H2 & H3).
      exists i, a. repeat split; auto. congruence.
    - right. destruct P as (id' & P1 & P2 & P3). assert (id' = id) by congruence. subst id'.
      split; [exact P2|]. rewrite Hev. apply in_or_app. right. exact P3.
  Qed.

  (* the ledger accepts the events of the update and ends with exactly the output's scopes alive *)
  Theorem keyed_step_ledger :
    kfresh st' /\
    exists live', replay (mapped st) (next_id st) evs = Some (live', next_id st') /\
                  forall id, In id live' <-> In id (mapped st').
  Proof.
    destruct Hfresh as [Hnd Hlt]. rewrite Forall_forall in Hlt.
    destruct step_as_spec as (creates & Hf & Hev & _ & Hlen).
    destruct (spec_fill_char _ _ _ _ _ _ _ Hf) as (Hle & Hc & Hd & P & Q).
    destruct (disp_char new (combine (items st) (mapped st))) as (Dc & Dm & Dn).
    rewrite map_snd_combine in Dn by exact Hlen. specialize (Dn Hnd).
    set (D := disposed (flat_map (dispf new) (combine (items st) (mapped st)))) in *.
    assert (HinD : forall m, In m D <-> exists i a, nth_error (items st) i = Some a /\
                                   nth_error (mapped st) i = Some m /\ has_key (key_of a) new = false).
    { intros m. rewrite Dm. split.
      - intros (a & Hin & Hh). apply in_combine_nth in Hin. destruct Hin as (i & H1 & H2). eauto.
      - intros (i & a & H1 & H2 & Hh). exists a. split; [apply in_combine_nth; eauto | exact Hh]. }
    assert (Hincl : incl D (mapped st)).
    { intros m Hm. apply HinD in Hm. destruct Hm as (i & a & _ & H2 & _). eapply nth_error_In; eauto. }
    destruct (replay_disposals D (mapped st) (next_id st) Dn Hincl) as (live1 & Hr1 & Hl1).
    assert (Hr : replay (mapped st) (next_id st) evs =
                 Some (rev (created creates) ++ live1, next_id st')).
    { rewrite Hev, spec_disposed_unfold, (only_disposals _ Dc). fold D.
      rewrite replay_app, Hr1. rewrite (replay_creates creates live1 (next_id st) _ Hd Hc).
      do 2 f_equal. lia. }
    (* membership of the output *)
    assert (Hmem : forall id, In id (mapped st') <->
                              (In id (mapped st) /\ ~ In id D) \/ next_id st <= id < next_id st').
    { intros id. split.
      - intros Hin. apply In_nth_error in Hin. destruct Hin as [j Hj].
        destruct (out_class j id Hj) as (b & Hb & [(i & a & H1 & H2 & H3)|[H1 _]]); [|right; exact H1].
        left. split; [eapply nth_error_In; eauto|].
        intros HD. apply HinD in HD. destruct HD as (i' & a' & G1 & G2 & G3).
        assert (i' = i).
        { apply (proj1 (NoDup_nth_error (mapped st)) Hnd); [eapply nth_error_Some_lt; eauto | congruence]. }
        subst i'. assert (a' = a) by congruence. subst a'.
        assert (X : has_key (key_of a) new = true) by (apply has_key_true; exists j, b; auto).
        congruence.
      - intros [[Hin HnD]|Hrange].
        + apply In_nth_error in Hin. destruct Hin as [i Hi].
          destruct (nth_error_lt_Some (items st) i) as [a Ha].
          { rewrite <- Hlen. eapply nth_error_Some_lt; eauto. }
          destruct (has_key (key_of a) new) eqn:Eh.
          * apply has_key_true in Eh. destruct Eh as (j & b & Hb & Hk).
            apply (nth_error_In _ j). rewrite (keyed_reuse i j a b Ha Hb (eq_sym Hk)). exact Hi.
          * exfalso. apply HnD. apply HinD. eauto.
        + assert (X : In id (created creates)) by (rewrite Hc; apply in_seq; lia).
          apply in_created in X. destruct X as [b Hb].
          destruct (Q b id Hb) as (j & _ & _ & H3 & _). eapply nth_error_In; eauto. }
    split.
    - (* freshness is re-established *)
      split.
      + apply NoDup_nth_error. intros j1 j2 Hj1 Heq.
        destruct (nth_error_lt_Some _ _ Hj1) as [id Hid1]. assert (Hid2 : nth_error (mapped st') j2 = Some id) by congruence.
        destruct (out_class j1 id Hid1) as (b1 & Hb1 & C1).
        destruct (out_class j2 id Hid2) as (b2 & Hb2 & C2).
        assert (Hkeys : key_of b1 = key_of b2 -> j1 = j2).
        { intros Hk. eapply (nodup_keys_inj _ Hndn); eauto. }
        destruct C1 as [(i1 & a1 & A1 & A2 & A3)|[A1 A2]], C2 as [(i2 & a2 & B1 & B2 & B3)|[B1 B2]].
        * assert (i1 = i2).
          { apply (proj1 (NoDup_nth_error (mapped st)) Hnd); [eapply nth_error_Some_lt; eauto | congruence]. }
          subst i2. apply Hkeys. congruence.
        * apply nth_error_In, Hlt in A3. lia.
        * apply nth_error_In, Hlt in B3. lia.
        * apply Hkeys. f_equal. apply (created_unique creates) with (id := id).
          -- rewrite Hc. apply seq_NoDup.
          -- rewrite Hev in A2. apply in_app_or in A2. destruct A2 as [A2|A2]; [|exact A2]. exfalso.
             rewrite spec_disposed_unfold in A2.
             assert (X : In id (created (flat_map (dispf new) (combine (items st) (mapped st)))))
               by (apply in_created; eauto).
             rewrite Dc in X. destruct X.
          -- rewrite Hev in B2. apply in_app_or in B2. destruct B2 as [B2|B2]; [|exact B2]. exfalso.
             rewrite spec_disposed_unfold in B2.
             assert (X : In id (created (flat_map (dispf new) (combine (items st) (mapped st)))))
               by (apply in_created; eauto).
             rewrite Dc in X. destruct X.
      + apply Forall_forall. intros id Hin. apply Hmem in Hin.
        destruct Hin as [[Hin _]|Hr']; [apply Hlt in Hin; lia | lia].
    - exists (rev (created creates) ++ live1). split; [exact Hr|].
      intros id. rewrite Hmem, in_app_iff, <- in_rev, Hc, in_seq, Hl1. split.
      + intros [H|H]; [right; lia | left; exact H].
      + intros [H|H]; [right; exact H | left; lia].
  Qed.
End Step.

(* ---------------------------------------------------------------------------------- *)
(* histories *)

(* run a chain of updates, concatenating the event logs *)
Fixpoint klog (st : kst) (updates : list (list item)) : option (kst * list kev) :=
  match updates with
  | [] => Some (st, [])
  | new :: rest =>
      match map_keyed_step st new with
      | Some (st', evs) =>
          match klog st' rest with
          | Some (stf, log) => Some (stf, evs ++ log)
          | None => None
          end
      | None => None
      end
  end.

Lemma keyed_history_from : forall updates st live,
  kst_ok st = true -> nodup_keys (items st) = true -> kfresh st ->
  forallb nodup_keys updates = true ->
  (forall id, In id live <-> In id (mapped st)) ->
  exists stf log live',
    klog st updates = Some (stf, log) /\
    replay live (next_id st) log = Some (live', next_id stf) /\
    (forall id, In id live' <-> In id (mapped stf)).
Proof.
  induction updates as [|new rest IH]; intros st live Hok Ho Hf Hall Hlive.
  - exists st, [], live. cbn [klog replay]. auto.
  - cbn [forallb] in Hall. apply andb_true_iff in Hall. destruct Hall as [Hn Hrest].
    destruct (keyed_step_spec st new Hok Ho Hn) as (st' & evs & Hstep & _ & Hitems & Hok').
    destruct (keyed_step_ledger st new st' evs Hok Ho Hn Hstep Hf) as (Hf' & live1 & Hr1 & Hl1).
    destruct (replay_equiv evs (mapped st) live (next_id st) live1 (next_id st')) as (live2 & Hr2 & Hl2).
    { intros id. symmetry. apply Hlive. }
    { exact Hr1. }
    destruct (IH st' live2 Hok') as (stf & log & live' & Hk & Hr & Hl).
    { rewrite Hitems. exact Hn. }
    { exact Hf'. }
    { exact Hrest. }
    { intros id. rewrite <- Hl2. apply Hl1. }
    exists stf, (evs ++ log), live'. cbn [klog]. rewrite Hstep, Hk. split; [reflexivity|].
    rewrite replay_app, Hr2. auto.
Qed.

Lemma kfresh_init : kfresh kinit.
Proof. split; constructor. Qed.

(* the history theorem: over ANY chain of duplicate-free updates from the initial state *)
Theorem keyed_history : forall updates, forallb nodup_keys updates = true ->
  exists stf log,
    klog kinit updates = Some (stf, log) /\
    (* map_fn was called once per call id 0 .. next-1, in order: no id is created twice *)
    created log = seq 0 (next_id stf) /\
    (* no scope is disposed twice, only created scopes are disposed, and only after their creation *)
    NoDup (disposed log) /\
    (forall id, In id (disposed log) -> id < next_id stf) /\
    (forall l1 d l2, log = l1 ++ Dispose d :: l2 -> In d (created l1)) /\
    (* the scopes alive at the end are exactly those of the current output *)
    (forall id, In id (mapped stf) <-> id < next_id stf /\ ~ In id (disposed log)).
Proof.
  intros updates Hall.
  destruct (keyed_history_from updates kinit [] eq_refl eq_refl kfresh_init Hall) as (stf & log & live' & Hk & Hr & Hl).
  { intros id. reflexivity. }
  exists stf, log. split; [exact Hk|]. cbn [kinit next_id] in Hr.
  assert (Hnd0 : NoDup (@nil nat)) by constructor.
  assert (Hlt0 : Forall (fun x => x < 0) (@nil nat)) by constructor.
  destruct (replay_exactly_once _ _ _ _ _ Hr Hnd0 Hlt0) as (_ & _ & _ & R4 & R5 & R6 & R7).
  rewrite Nat.sub_0_r in R4. split; [exact R4|]. split; [exact R5|]. split.
  { intros id Hid. destruct (R6 id Hid) as [[]|H]. lia. }
  split.
  { intros l1 d l2 Hlog. subst log.
    destruct (replay_dispose_after_create _ _ _ _ _ _ _ Hr Hnd0 Hlt0) as [[]|H]. exact H. }
  intros id. rewrite <- Hl, R7. cbn [In]. split.
  - intros [[[]|H] Hn]. split; [lia | exact Hn].
  - intros [H Hn]. split; [right; lia | exact Hn].
Qed.

Example keyed_history_instance :
  let updates := [[(1, 0); (2, 0); (3, 0)]; [(3, 0); (1, 5); (4, 0)]; []; [(4, 1)]] in
  forallb nodup_keys updates = true /\
  klog kinit updates =
    Some (KSt [(4, 1)] [4] [Some 4] 5,
          [Create (1, 0) 0; Create (2, 0) 1; Create (3, 0) 2;
           Dispose 1; Create (4, 0) 3;
           Dispose 2; Dispose 0; Dispose 3;
           Create (4, 1) 4]).
Proof. vm_compute. split; reflexivity. Qed.

(* ---------------------------------------------------------------------------------- *)
(* the uniqueness hypotheses are needed (the real code behaves in the same way, see the report) *)

(* duplicate keys in the NEW list: the second occurrence gets a fresh call although its key is present *)
Example keyed_refines_needs_nodup_new :
  let st := KSt [(1, 0); (2, 0)] [10; 11] [Some 10; Some 11] 12 in
  let new := [(2, 0); (2, 1); (1, 0)] in
  kst_ok st = true /\ nodup_keys (items st) = true /\ nodup_keys new = false /\
  step_refines st new = false /\
  map_keyed_step st new = Some (KSt new [11; 12; 10] [Some 11; Some 12; Some 10] 13, [Create (2, 1) 12]).
Proof. vm_compute. repeat split; reflexivity. Qed.

(* duplicate keys in the OLD list (reachable from the initial state by one update with a duplicate):
   both old entries with key 1 are moved to the single new position, the handle of the first (scope 0)
   is overwritten: it is neither in the output nor disposed -- the ledger ends with scope 0 alive
   although the output owns only scopes 2 and 1 *)
Example keyed_refines_needs_nodup_old :
  let updates := [[(1, 0); (1, 1); (2, 0)]; [(2, 0); (1, 0)]] in
  klog kinit updates =
    Some (KSt [(2, 0); (1, 0)] [2; 1] [Some 2; Some 1] 3,
          [Create (1, 0) 0; Create (1, 1) 1; Create (2, 0) 2]) /\
  replay [] 0 [Create (1, 0) 0; Create (1, 1) 1; Create (2, 0) 2] = Some ([2; 1; 0], 3) /\
  (match map_keyed_step kinit [(1, 0); (1, 1); (2, 0)] with
   | Some (st, _) => kst_ok st && nodup_keys [(2, 0); (1, 0)] && negb (nodup_keys (items st))
                     && negb (step_refines st [(2, 0); (1, 0)])
   | None => false
   end) = true.
Proof. vm_compute. repeat split; reflexivity. Qed.

Print Assumptions replay_exactly_once.
Print Assumptions keyed_reuse.
Print Assumptions keyed_creates_exact.
Print Assumptions keyed_disposes_exact.
Print Assumptions keyed_step_ledger.
Print Assumptions keyed_history.
