(* ListMap/KeyedProof.v -- map_keyed: one update refines spec_keyed for ALL states satisfying the state
   invariant and ALL new lists, provided the keys of the old and of the new list are unique (no bound).
   Loop invariants for the four phases of the general path (suffix skip, index map, step 1, step 2),
   the two fast paths, re-establishment of the invariants, and the chain theorem. *)
From Coq Require Import List Arith Bool Lia.
From Syc Require Import ListMap.Keyed ListMap.ListLemmas ListMap.KeyedBasics.
Import ListNotations.

Section General.
  (* [old]/[ms]: items and mapped values of the state before the update; [new]: the new list;
     [start]: ANY length of a common prefix (the proofs do not need it to be maximal, and likewise
     do not need the skipped suffix to be maximal). *)
  Variables (old new : list item) (ms : list nat) (nx0 start : nat).
  Hypothesis Hlen : length ms = length old.
  Hypothesis Hold : keys_inj old.
  Hypothesis Hnew : keys_inj new.
  Hypothesis Hs_old : start <= length old.
  Hypothesis Hs_new : start <= length new.
  Hypothesis Hpre : forall i, i < start -> nth_error old i = nth_error new i.

  (* old[e..] = new[ne..] is a common suffix *)
  Definition geom (e ne : nat) : Prop :=
    start <= e <= length old /\ start <= ne <= length new /\ e + length new = ne + length old /\
    forall t, nth_error old (e + t) = nth_error new (ne + t).

  (* invariant of the working set: suffix skip runs with i = start and e, ne decreasing;
     step 1 runs with e, ne fixed and i increasing from start to e *)
  Record winv (i e ne : nat) (w : work) : Prop := {
    wi_mapped : w_mapped w = ms;
    wi_next : w_next w = nx0;
    wi_tmp_len : length (w_mapped_tmp w) = length new;
    wi_dtmp : w_disposers_tmp w = w_mapped_tmp w;
    wi_disp_len : length (w_disposers w) = length old;
    wi_disp_live : forall i', i' < start \/ i <= i' < e -> nth_error (w_disposers w) i' = Some (nth_error ms i');
    wi_tmp_pre : forall j, j < start -> nth_error (w_mapped_tmp w) j = Some None;
    wi_tmp_suf : forall j, ne <= j < length new ->
                 nth_error (w_mapped_tmp w) j = Some (nth_error ms (e + (j - ne)));
    wi_tmp_a : forall j m, start <= j < ne -> nth_error (w_mapped_tmp w) j = Some (Some m) ->
               exists i' a b, start <= i' < i /\ nth_error old i' = Some a /\ nth_error new j = Some b /\
                              key_of a = key_of b /\ nth_error ms i' = Some m;
    wi_tmp_b : forall i' j a b, start <= i' < i -> start <= j < ne -> nth_error old i' = Some a ->
               nth_error new j = Some b -> key_of a = key_of b ->
               nth_error (w_mapped_tmp w) j = Some (nth_error ms i');
    wi_events : w_events w = rev (flat_map (dispf new) (firstn (i - start) (skipn start (combine old ms))))
  }.

  Definition w0 : work :=
    Work ms (map Some ms) (repeat None (length new)) (repeat None (length new)) nx0 [].

  Lemma geom_init : geom (length old) (length new).
  Proof.
    unfold geom. split; [lia|]. split; [lia|]. split; [lia|]. intros t.
    assert (H1 : nth_error old (length old + t) = None) by (apply nth_error_None; lia).
    assert (H2 : nth_error new (length new + t) = None) by (apply nth_error_None; lia).
    congruence.
  Qed.

  Lemma winv_init : winv start (length old) (length new) w0.
  Proof.
    constructor; cbn [w0 w_mapped w_next w_mapped_tmp w_disposers_tmp w_disposers w_events].
    - reflexivity.
    - reflexivity.
    - apply repeat_length.
    - reflexivity.
    - rewrite map_length. exact Hlen.
    - intros i' Hi'. rewrite nth_error_map.
      destruct (nth_error_lt_Some ms i') as [m Hm]; [lia|]. rewrite Hm. reflexivity.
    - intros j Hj. apply nth_error_repeat. lia.
    - intros j Hj. lia.
    - intros j m Hj H. rewrite nth_error_repeat in H by lia. discriminate H.
    - intros i' j a b Hi'. lia.
    - rewrite Nat.sub_diag. reflexivity.
  Qed.

  (* phase: skip the common suffix *)
  Lemma skip_suffix_inv : forall fuel e ne w, geom e ne -> winv start e ne w ->
    exists e' ne' w', skip_suffix fuel old new start e ne w = Some (e', ne', w') /\
                      geom e' ne' /\ winv start e' ne' w'.
  Proof.
    induction fuel as [|f IH]; intros e ne w Hg Hw; cbn [skip_suffix].
    - exists e, ne, w. auto.
    - destruct ((start <? e) && (start <? ne)) eqn:Hc; [|exists e, ne, w; auto].
      apply andb_true_iff in Hc. destruct Hc as [Hc1 Hc2]. apply Nat.ltb_lt in Hc1, Hc2.
      pose proof Hg as (Hge & Hgne & Hgl & Hgt).
      destruct (nth_error_lt_Some old (e - 1)) as [a Ha]; [lia|].
      destruct (nth_error_lt_Some new (ne - 1)) as [b Hb]; [lia|].
      rewrite Ha, Hb. cbn [bind].
      destruct (item_eqb a b) eqn:Eab; [|exists e, ne, w; auto].
      apply item_eqb_eq in Eab. subst b.
      destruct (nth_error_lt_Some ms (e - 1)) as [m Hm]; [lia|].
      rewrite (wi_mapped _ _ _ _ Hw), Hm. cbn [bind].
      rewrite (wi_disp_live _ _ _ _ Hw (e - 1)) by lia. rewrite Hm. cbn [bind].
      rewrite (wi_dtmp _ _ _ _ Hw).
      destruct (set_nth_Some (w_mapped_tmp w) (ne - 1) (Some m)) as [mt Hmt];
        [rewrite (wi_tmp_len _ _ _ _ Hw); lia|].
      rewrite Hmt. cbn [bind].
      destruct (set_nth_Some (w_disposers w) (e - 1) None) as [ds Hds];
        [rewrite (wi_disp_len _ _ _ _ Hw); lia|].
      rewrite Hds. cbn [bind].
      apply IH.
      + unfold geom. split; [lia|]. split; [lia|]. split; [lia|]. intros [|t].
        * rewrite !Nat.add_0_r. congruence.
        * replace (e - 1 + S t) with (e + t) by lia. replace (ne - 1 + S t) with (ne + t) by lia. apply Hgt.
      + constructor; cbn [w_mapped w_next w_mapped_tmp w_disposers_tmp w_disposers w_events].
        * reflexivity.
        * exact (wi_next _ _ _ _ Hw).
        * rewrite (set_nth_length _ _ _ _ Hmt). exact (wi_tmp_len _ _ _ _ Hw).
        * reflexivity.
        * rewrite (set_nth_length _ _ _ _ Hds). exact (wi_disp_len _ _ _ _ Hw).
        * intros i' Hi'. rewrite (set_nth_other _ _ _ _ _ Hds) by lia.
          apply (wi_disp_live _ _ _ _ Hw). lia.
        * intros j Hj. rewrite (set_nth_other _ _ _ _ _ Hmt) by lia. apply (wi_tmp_pre _ _ _ _ Hw). exact Hj.
        * intros j Hj. destruct (Nat.eq_dec j (ne - 1)) as [->|Hne].
          -- rewrite (set_nth_same _ _ _ _ Hmt). replace (e - 1 + (ne - 1 - (ne - 1))) with (e - 1) by lia.
             rewrite Hm. reflexivity.
          -- rewrite (set_nth_other _ _ _ _ _ Hmt) by exact Hne.
             rewrite (wi_tmp_suf _ _ _ _ Hw) by lia. do 2 f_equal. lia.
        * intros j m' Hj H. rewrite (set_nth_other _ _ _ _ _ Hmt) in H by lia.
          apply (wi_tmp_a _ _ _ _ Hw j m'); [lia | exact H].
        * intros i' j a' b' Hi'. lia.
        * exact (wi_events _ _ _ _ Hw).
  Qed.

  (* phase 0: the index map of the new middle. With unique keys there is no chaining: nexts stays all-None *)
  Definition idx_ok (lo ne : nat) (idx : list (nat * nat)) : Prop :=
    (forall k j, assoc_get idx k = Some j ->
                 lo <= j < ne /\ exists b, nth_error new j = Some b /\ key_of b = k) /\
    (forall j b, lo <= j < ne -> nth_error new j = Some b -> assoc_get idx (key_of b) = Some j).

  Lemma bi_fold ne : ne <= length new -> forall cnt idx,
    start + cnt <= ne -> idx_ok (start + cnt) ne idx ->
    exists idx', fold_left (bi_body new start) (rev (seq start cnt)) (Some (idx, repeat None (ne - start))) =
                 Some (idx', repeat None (ne - start)) /\ idx_ok start ne idx'.
  Proof.
    intros Hne. induction cnt as [|cnt IH]; intros idx Hc Hidx.
    - cbn [seq rev fold_left]. rewrite Nat.add_0_r in Hidx. eauto.
    - rewrite seq_S, rev_unit. cbn [fold_left].
      destruct (nth_error_lt_Some new (start + cnt)) as [b Hb]; [lia|].
      assert (Hnone : assoc_get idx (key_of b) = None).
      { destruct (assoc_get idx (key_of b)) as [j'|] eqn:E; [|reflexivity].
        destruct Hidx as [H1 _]. destruct (H1 _ _ E) as (Hj' & b' & Hb' & Hk).
        assert (X : j' = start + cnt) by (eapply Hnew; eauto). lia. }
      assert (Hstep : bi_body new start (Some (idx, repeat None (ne - start))) (start + cnt) =
                      Some (assoc_set idx (key_of b) (start + cnt), repeat None (ne - start))).
      { unfold bi_body. cbn [bind]. rewrite Hb. cbn [bind]. rewrite Hnone.
        rewrite set_nth_id; [reflexivity|]. apply nth_error_repeat. lia. }
      rewrite Hstep. apply IH; [lia|].
      destruct Hidx as [H1 H2]. unfold assoc_set. split.
      + intros k j H. cbn [assoc_get] in H. destruct (k =? key_of b) eqn:E.
        * apply Nat.eqb_eq in E. injection H as <-. split; [lia|]. exists b. auto.
        * destruct (H1 _ _ H) as (Hj & Hex). split; [lia | exact Hex].
      + intros j b' Hj Hb'. cbn [assoc_get]. destruct (Nat.eq_dec j (start + cnt)) as [->|Hne'].
        * assert (b' = b) by congruence. subst b'. rewrite Nat.eqb_refl. reflexivity.
        * destruct (key_of b' =? key_of b) eqn:E.
          -- apply Nat.eqb_eq in E. exfalso. apply Hne'. eapply Hnew; eauto.
          -- apply H2; [lia | exact Hb'].
  Qed.

  Lemma build_indices_inv ne : start <= ne <= length new ->
    exists idx, build_indices new start ne = Some (idx, repeat None (ne - start)) /\ idx_ok start ne idx.
  Proof.
    intros Hne. rewrite build_indices_unfold. apply bi_fold; [lia | lia |].
    split.
    - intros k j H. discriminate H.
    - intros j b Hj. lia.
  Qed.

  (* phase 1: walk the old middle. One iteration: *)
  Lemma step1_step e ne idx i w :
    geom e ne -> idx_ok start ne idx -> start <= i < e -> winv i e ne w ->
    exists w', s1_body old start (repeat None (ne - start)) (Some (idx, w)) i = Some (idx, w') /\
               winv (S i) e ne w'.
  Proof.
    intros Hg [Hi1 Hi2] Hi Hw. pose proof Hg as (Hge & Hgne & Hgl & Hgt).
    destruct (nth_error_lt_Some old i) as [a Ha]; [lia|].
    destruct (nth_error_lt_Some ms i) as [m Hm]; [lia|].
    assert (Hcomb : nth_error (skipn start (combine old ms)) (i - start) = Some (a, m)).
    { rewrite nth_error_skipn. replace (start + (i - start)) with i by lia.
      rewrite nth_error_combine, Ha, Hm. reflexivity. }
    assert (Hfirst : firstn (S i - start) (skipn start (combine old ms)) =
                     firstn (i - start) (skipn start (combine old ms)) ++ [(a, m)]).
    { replace (S i - start) with (S (i - start)) by lia. apply firstn_S_snoc. exact Hcomb. }
    unfold s1_body. cbn [bind]. rewrite Ha. cbn [bind].
    rewrite (wi_disp_live _ _ _ _ Hw i) by lia. rewrite Hm.
    destruct (set_nth_Some (w_disposers w) i None) as [ds Hds];
      [rewrite (wi_disp_len _ _ _ _ Hw); lia|].
    destruct (assoc_get idx (key_of a)) as [j|] eqn:Eidx.
    - (* the key is in the new middle: move *)
      destruct (Hi1 _ _ Eidx) as (Hj & b & Hb & Hk).
      rewrite (wi_mapped _ _ _ _ Hw), Hm. cbn [bind].
      rewrite (wi_dtmp _ _ _ _ Hw).
      destruct (set_nth_Some (w_mapped_tmp w) j (Some m)) as [mt Hmt];
        [rewrite (wi_tmp_len _ _ _ _ Hw); lia|].
      rewrite Hmt. cbn [bind]. rewrite Hds. cbn [bind].
      rewrite nth_error_repeat by lia. cbn [bind].
      eexists. split; [reflexivity|].
      constructor; cbn [w_mapped w_next w_mapped_tmp w_disposers_tmp w_disposers w_events].
      + reflexivity.
      + exact (wi_next _ _ _ _ Hw).
      + rewrite (set_nth_length _ _ _ _ Hmt). exact (wi_tmp_len _ _ _ _ Hw).
      + reflexivity.
      + rewrite (set_nth_length _ _ _ _ Hds). exact (wi_disp_len _ _ _ _ Hw).
      + intros i' Hi'. rewrite (set_nth_other _ _ _ _ _ Hds) by lia.
        apply (wi_disp_live _ _ _ _ Hw). lia.
      + intros j' Hj'. rewrite (set_nth_other _ _ _ _ _ Hmt) by lia. apply (wi_tmp_pre _ _ _ _ Hw). exact Hj'.
      + intros j' Hj'. rewrite (set_nth_other _ _ _ _ _ Hmt) by lia. apply (wi_tmp_suf _ _ _ _ Hw). exact Hj'.
      + intros j' m' Hj' H. destruct (Nat.eq_dec j' j) as [->|Hne].
        * rewrite (set_nth_same _ _ _ _ Hmt) in H. injection H as <-.
          exists i, a, b. repeat split; auto; lia.
        * rewrite (set_nth_other _ _ _ _ _ Hmt) in H by exact Hne.
          destruct (wi_tmp_a _ _ _ _ Hw j' m' Hj' H) as (i' & a' & b' & Hi' & Hx).
          exists i', a', b'. split; [lia | exact Hx].
      + intros i' j' a' b' Hi' Hj' Ha' Hb' Hk'.
        destruct (Nat.eq_dec i' i) as [->|Hnei].
        * assert (a' = a) by congruence. subst a'.
          assert (j' = j) by (eapply Hnew; eauto; congruence). subst j'.
          rewrite (set_nth_same _ _ _ _ Hmt), Hm. reflexivity.
        * assert (j' <> j).
          { intros ->. assert (b' = b) by congruence. subst b'.
            apply Hnei. eapply Hold; eauto. congruence. }
          rewrite (set_nth_other _ _ _ _ _ Hmt) by assumption.
          apply (wi_tmp_b _ _ _ _ Hw i' j' a' b'); auto. lia.
      + rewrite (wi_events _ _ _ _ Hw), Hfirst, flat_map_app. cbn [flat_map].
        assert (Hhas : has_key (key_of a) new = true) by (apply has_key_true; exists j, b; auto).
        change (dispf new (a, m)) with (if has_key (key_of a) new then [] else [Dispose m]). rewrite Hhas. rewrite !app_nil_r. reflexivity.
    - (* the key left: dispose its scope *)
      cbn [bind]. rewrite Hds. cbn [bind].
      assert (Hhas : has_key (key_of a) new = false).
      { apply has_key_false. intros j b Hb Hk.
        assert (Hjn : j < length new) by (eapply nth_error_Some_lt; eauto).
        destruct (Nat.lt_ge_cases j start) as [Hlt|Hge'].
        - rewrite <- Hpre in Hb by exact Hlt. assert (j = i) by (eapply Hold; eauto). lia.
        - destruct (Nat.lt_ge_cases j ne) as [Hlt|Hge''].
          + rewrite <- Hk in Eidx. rewrite (Hi2 j b) in Eidx; [discriminate Eidx | lia | exact Hb].
          + replace j with (ne + (j - ne)) in Hb by lia. rewrite <- Hgt in Hb.
            assert (e + (j - ne) = i) by (eapply Hold; eauto). lia. }
      eexists. split; [reflexivity|].
      constructor; cbn [w_mapped w_next w_mapped_tmp w_disposers_tmp w_disposers w_events].
      + exact (wi_mapped _ _ _ _ Hw).
      + exact (wi_next _ _ _ _ Hw).
      + exact (wi_tmp_len _ _ _ _ Hw).
      + exact (wi_dtmp _ _ _ _ Hw).
      + rewrite (set_nth_length _ _ _ _ Hds). exact (wi_disp_len _ _ _ _ Hw).
      + intros i' Hi'. rewrite (set_nth_other _ _ _ _ _ Hds) by lia.
        apply (wi_disp_live _ _ _ _ Hw). lia.
      + exact (wi_tmp_pre _ _ _ _ Hw).
      + exact (wi_tmp_suf _ _ _ _ Hw).
      + intros j' m' Hj' H.
        destruct (wi_tmp_a _ _ _ _ Hw j' m' Hj' H) as (i' & a' & b' & Hi' & Hx).
        exists i', a', b'. split; [lia | exact Hx].
      + intros i' j' a' b' Hi' Hj' Ha' Hb' Hk'.
        destruct (Nat.eq_dec i' i) as [->|Hnei].
        * assert (a' = a) by congruence. subst a'. exfalso.
          rewrite Hk' in Eidx. rewrite (Hi2 j' b' Hj' Hb') in Eidx. discriminate Eidx.
        * apply (wi_tmp_b _ _ _ _ Hw i' j' a' b'); auto. lia.
      + rewrite (wi_events _ _ _ _ Hw), Hfirst, flat_map_app. cbn [flat_map].
        change (dispf new (a, m)) with (if has_key (key_of a) new then [] else [Dispose m]). rewrite Hhas. rewrite app_nil_r, rev_unit. reflexivity.
  Qed.

  Lemma step1_fold e ne idx : geom e ne -> idx_ok start ne idx -> forall cnt i w,
    i + cnt = e -> start <= i -> winv i e ne w ->
    exists w', fold_left (s1_body old start (repeat None (ne - start))) (seq i cnt) (Some (idx, w)) =
               Some (idx, w') /\ winv e e ne w'.
  Proof.
    intros Hg Hidx. induction cnt as [|cnt IH]; intros i w Hic Hi Hw.
    - cbn [seq fold_left]. assert (E : i = e) by lia. subst i. eauto.
    - cbn [seq fold_left].
      destruct (step1_step e ne idx i w Hg Hidx) as (w1 & Hstep & Hw1); [lia | exact Hw |].
      rewrite Hstep. apply IH; [lia | lia | exact Hw1].
  Qed.

  (* after step 1 the moved array holds, at every position from [start] on, exactly what the
     specification looks up by key *)
  Lemma tmp_final e ne w : geom e ne -> winv e e ne w -> forall j b,
    start <= j -> nth_error new j = Some b ->
    nth_error (w_mapped_tmp w) j = Some (find_key (key_of b) old ms).
  Proof.
    intros Hg Hw j b Hj Hb. pose proof Hg as (Hge & Hgne & Hgl & Hgt).
    assert (Hjn : j < length new) by (eapply nth_error_Some_lt; eauto).
    destruct (Nat.lt_ge_cases j ne) as [Hlt|Hge'].
    - destruct (nth_error_lt_Some (w_mapped_tmp w) j) as [t Ht]; [rewrite (wi_tmp_len _ _ _ _ Hw); lia|].
      rewrite Ht. f_equal. destruct t as [m|].
      + destruct (wi_tmp_a _ _ _ _ Hw j m (conj Hj Hlt) Ht) as (i' & a & b' & Hi' & Ha & Hb' & Hk & Hm).
        assert (b' = b) by congruence. subst b'. rewrite <- Hk, <- Hm. symmetry.
        apply find_key_at; auto.
      + destruct (find_key (key_of b) old ms) as [m|] eqn:Ef; [|reflexivity]. exfalso.
        destruct (find_key_Some _ _ _ _ Ef) as (i' & a & Ha & Hk & Hm).
        assert (Hi'o : i' < length old) by (eapply nth_error_Some_lt; eauto).
        destruct (Nat.lt_ge_cases i' start) as [Hlt'|Hge''].
        * pose proof Ha as Ha'. rewrite Hpre in Ha' by exact Hlt'.
          assert (i' = j) by (eapply Hnew; eauto). lia.
        * destruct (Nat.lt_ge_cases i' e) as [Hlt''|Hge3].
          -- rewrite (wi_tmp_b _ _ _ _ Hw i' j a b) in Ht; auto. rewrite Hm in Ht. discriminate Ht.
          -- pose proof Ha as Ha'. replace i' with (e + (i' - e)) in Ha' by lia. rewrite Hgt in Ha'.
             assert (ne + (i' - e) = j) by (eapply Hnew; eauto). lia.
    - rewrite (wi_tmp_suf _ _ _ _ Hw) by lia. f_equal. symmetry.
      apply find_key_at; auto. rewrite Hgt. replace (ne + (j - ne)) with j by lia. exact Hb.
  Qed.

  (* phase 2: fill the new positions. [pre]/[dpre] are the already final parts of the two vectors *)
  Lemma step2_fold : forall news pre rest dpre drest w,
    (forall k, nth_error new (length pre + k) = nth_error news k) ->
    w_mapped w = pre ++ rest -> w_disposers w = dpre ++ drest ->
    length dpre = length pre -> length drest = length rest ->
    (forall k it, nth_error news k = Some it ->
        nth_error (w_mapped_tmp w) (length pre + k) = Some (find_key (key_of it) old ms)) ->
    (forall j, length pre <= j -> nth_error (w_disposers_tmp w) j = nth_error (w_mapped_tmp w) j) ->
    exists w', fold_left (s2_body new) (seq (length pre) (length news)) (Some w) = Some w' /\
      let '(out, evs, nx') := spec_fill old ms news (w_next w) in
      w_mapped w' = pre ++ out ++ skipn (length news) rest /\
      w_disposers w' = dpre ++ map Some out ++ skipn (length news) drest /\
      w_next w' = nx' /\ w_events w' = rev evs ++ w_events w.
  Proof.
    induction news as [|it news IH]; intros pre rest dpre drest w Hnew' Hm Hd Hdl Hrl Htmp Hdt.
    - cbn [length seq fold_left spec_fill skipn map app rev]. exists w. auto.
    - cbn [length seq fold_left].
      pose proof (Htmp 0 it eq_refl) as Ht0. rewrite Nat.add_0_r in Ht0.
      pose proof (Hnew' 0) as Hn0. rewrite Nat.add_0_r in Hn0. cbn [nth_error] in Hn0.
      assert (Hleb : (length (w_mapped w) <=? length pre) = match rest with [] => true | _ => false end).
      { rewrite Hm, app_length. destruct rest; cbn [length]; [apply Nat.leb_le; lia | apply Nat.leb_gt; lia]. }
      assert (Hltb : (length pre <? length (w_mapped w)) = match rest with [] => false | _ => true end).
      { rewrite Hm, app_length. destruct rest; cbn [length]; [apply Nat.ltb_ge; lia | apply Nat.ltb_lt; lia]. }
      assert (Hstep : exists x w1, s2_body new (Some w) (length pre) = Some w1 /\
                 w_mapped w1 = (pre ++ [x]) ++ tl rest /\
                 w_disposers w1 = (dpre ++ [Some x]) ++ tl drest /\
                 w_mapped_tmp w1 = w_mapped_tmp w /\
                 (forall j', S (length pre) <= j' ->
                             nth_error (w_disposers_tmp w1) j' = nth_error (w_disposers_tmp w) j') /\
                 match find_key (key_of it) old ms with
                 | Some m => x = m /\ w_next w1 = w_next w /\ w_events w1 = w_events w
                 | None => x = w_next w /\ w_next w1 = S (w_next w) /\
                           w_events w1 = Create it (w_next w) :: w_events w
                 end).
      { unfold s2_body. cbn [bind]. rewrite Ht0.
        destruct (find_key (key_of it) old ms) as [m|].
        - rewrite (Hdt (length pre)) by lia. rewrite Ht0. cbn [bind].
          destruct (set_nth_Some (w_disposers_tmp w) (length pre) None) as [dt Hdt'].
          { apply nth_error_Some_lt with (x := Some m). rewrite Hdt by lia. exact Ht0. }
          rewrite Hdt'. cbn [bind]. rewrite Hleb.
          destruct rest as [|r rest']; destruct drest as [|dr drest']; try discriminate Hrl.
          + exists m. eexists. split; [reflexivity|].
            cbn [w_mapped w_disposers w_mapped_tmp w_disposers_tmp w_next w_events tl].
            rewrite Hm, Hd, !app_nil_r. repeat split; auto.
            intros j' Hj'. eapply set_nth_other; eauto. lia.
          + rewrite Hm, Hd. rewrite set_nth_app. cbn [bind]. rewrite <- Hdl, set_nth_app. cbn [bind].
            exists m. eexists. split; [reflexivity|].
            cbn [w_mapped w_disposers w_mapped_tmp w_disposers_tmp w_next w_events tl].
            rewrite <- !app_assoc. cbn [app]. repeat split; auto.
            intros j' Hj'. eapply set_nth_other; eauto. lia.
        - rewrite Hn0. cbn [bind]. rewrite Hltb.
          destruct rest as [|r rest']; destruct drest as [|dr drest']; try discriminate Hrl.
          + exists (w_next w). eexists. split; [reflexivity|].
            cbn [w_mapped w_disposers w_mapped_tmp w_disposers_tmp w_next w_events tl].
            rewrite Hm, Hd, !app_nil_r. repeat split; auto.
          + rewrite Hm, Hd. rewrite set_nth_app. cbn [bind]. rewrite <- Hdl, set_nth_app. cbn [bind].
            exists (w_next w). eexists. split; [reflexivity|].
            cbn [w_mapped w_disposers w_mapped_tmp w_disposers_tmp w_next w_events tl].
            rewrite <- !app_assoc. cbn [app]. repeat split; auto. }
      destruct Hstep as (x & w1 & Hs & Hm1 & Hd1 & Htmp1 & Hdt1 & Hx).
      rewrite Hs.
      assert (Hpl : length (pre ++ [x]) = S (length pre)) by (rewrite app_length; cbn [length]; lia).
      destruct (IH (pre ++ [x]) (tl rest) (dpre ++ [Some x]) (tl drest) w1) as (w' & Hfold & Hres).
      + intros k. rewrite Hpl. replace (S (length pre) + k) with (length pre + S k) by lia.
        rewrite Hnew'. reflexivity.
      + exact Hm1.
      + exact Hd1.
      + rewrite !app_length. cbn [length]. lia.
      + destruct rest, drest; cbn [tl length] in *; lia.
      + intros k it' Hk. rewrite Htmp1, Hpl. replace (S (length pre) + k) with (length pre + S k) by lia.
        apply Htmp. exact Hk.
      + intros j' Hj'. rewrite Hpl in Hj'. rewrite Hdt1 by lia. rewrite Htmp1. apply Hdt. lia.
      + rewrite Hpl in Hfold. exists w'. split; [exact Hfold|].
        cbn [spec_fill]. destruct (find_key (key_of it) old ms) as [m|].
        * destruct Hx as (-> & Hnx & Hev). rewrite Hnx in Hres.
          destruct (spec_fill old ms news (w_next w)) as [[out evs] nx'].
          destruct Hres as (R1 & R2 & R3 & R4).
          rewrite R1, R2, R3, R4, Hev, !skipn_S_tl. cbn [map]. rewrite <- !app_assoc. cbn [app].
          repeat split; reflexivity.
        * destruct Hx as (-> & Hnx & Hev). rewrite Hnx in Hres.
          destruct (spec_fill old ms news (S (w_next w))) as [[out evs] nx'].
          destruct Hres as (R1 & R2 & R3 & R4).
          rewrite R1, R2, R3, R4, Hev, !skipn_S_tl. cbn [map rev]. rewrite <- !app_assoc. cbn [app].
          repeat split; reflexivity.
  Qed.

  (* disposals: only the old middle can lose keys *)
  Lemma disposed_middle e ne : geom e ne ->
    flat_map (dispf new) (combine old ms) =
    flat_map (dispf new) (firstn (e - start) (skipn start (combine old ms))).
  Proof.
    intros (Hge & Hgne & Hgl & Hgt).
    transitivity (flat_map (dispf new)
                    (firstn start (combine old ms) ++
                     (firstn (e - start) (skipn start (combine old ms)) ++
                      skipn (e - start) (skipn start (combine old ms))))).
    { rewrite !firstn_skipn. reflexivity. }
    rewrite !flat_map_app.
    rewrite (flat_map_nil (dispf new) (firstn start (combine old ms))).
    - rewrite (flat_map_nil (dispf new) (skipn (e - start) (skipn start (combine old ms)))).
      + rewrite app_nil_r. reflexivity.
      + intros p Hin. apply In_nth_error in Hin. destruct Hin as [t Ht].
        rewrite !nth_error_skipn in Ht. replace (start + (e - start + t)) with (e + t) in Ht by lia.
        rewrite nth_error_combine in Ht.
        destruct (nth_error old (e + t)) as [a|] eqn:Ha; [|discriminate Ht].
        destruct (nth_error ms (e + t)) as [m|]; [|discriminate Ht]. injection Ht as <-.
        unfold dispf. cbn [fst snd].
        assert (Hhas : has_key (key_of a) new = true).
        { apply has_key_true. exists (ne + t), a. rewrite <- Hgt. auto. }
        rewrite Hhas. reflexivity.
    - intros p Hin. apply In_nth_error in Hin. destruct Hin as [i Hi].
      assert (Hil : i < start).
      { apply nth_error_Some_lt in Hi. rewrite firstn_length in Hi. lia. }
      rewrite nth_error_firstn in Hi by exact Hil. rewrite nth_error_combine in Hi.
      destruct (nth_error old i) as [a|] eqn:Ha; [|discriminate Hi].
      destruct (nth_error ms i) as [m|]; [|discriminate Hi]. injection Hi as <-.
      unfold dispf. cbn [fst snd].
      assert (Hhas : has_key (key_of a) new = true).
      { apply has_key_true. exists i, a. rewrite <- Hpre by exact Hil. auto. }
      rewrite Hhas. reflexivity.
  Qed.

  Lemma firstn_exact {A} (a b : list A) k : length a = k -> firstn k (a ++ b) = a.
  Proof.
    intros <-. rewrite firstn_app, firstn_all, Nat.sub_diag. cbn [firstn]. apply app_nil_r.
  Qed.

  (* the whole general path *)
  Lemma general_path :
    (do '(e, ne, w1) <- skip_suffix (length old) old new start (length old) (length new) w0;
     do '(idx, nexts) <- build_indices new start ne;
     do '(_, w2) <- step1 old start e idx nexts w1;
     do w3 <- step2 new start w2;
     Some (KSt new (firstn (length new) (w_mapped w3)) (firstn (length new) (w_disposers w3)) (w_next w3),
           rev (w_events w3))) =
    let '(out, creates, nx') := spec_fill old ms new nx0 in
    Some (KSt new out (map Some out) nx', spec_disposed old ms new ++ creates).
  Proof.
    destruct (skip_suffix_inv (length old) _ _ w0 geom_init winv_init) as (e & ne & w1 & Hss & Hg & Hw1).
    rewrite Hss. cbn [bind].
    pose proof Hg as (Hge & Hgne & Hgl & Hgt).
    destruct (build_indices_inv ne Hgne) as (idx & Hbi & Hidx). rewrite Hbi. cbn [bind].
    rewrite step1_unfold.
    destruct (step1_fold e ne idx Hg Hidx (e - start) start w1) as (w2 & Hs1 & Hw2); [lia | lia | exact Hw1 |].
    rewrite Hs1. cbn [bind]. rewrite step2_unfold.
    assert (Hpl : length (firstn start ms) = start) by (rewrite firstn_length; lia).
    assert (Hnl : length (skipn start new) = length new - start) by apply skipn_length.
    assert (Hdpre : firstn start (w_disposers w2) = map Some (firstn start ms)).
    { apply nth_error_ext. intros i. destruct (Nat.lt_ge_cases i start) as [Hlt|Hge'].
      - rewrite nth_error_firstn by exact Hlt. rewrite (wi_disp_live _ _ _ _ Hw2) by lia.
        rewrite nth_error_map, nth_error_firstn by exact Hlt.
        destruct (nth_error_lt_Some ms i) as [m Hm]; [lia|]. rewrite Hm. reflexivity.
      - assert (H1 : nth_error (firstn start (w_disposers w2)) i = None).
        { apply nth_error_None. rewrite firstn_length, (wi_disp_len _ _ _ _ Hw2). lia. }
        assert (H2 : nth_error (map Some (firstn start ms)) i = None).
        { apply nth_error_None. rewrite map_length. lia. }
        congruence. }
    destruct (step2_fold (skipn start new) (firstn start ms) (skipn start ms)
                         (map Some (firstn start ms)) (skipn start (w_disposers w2)) w2)
      as (w3 & Hfold & Hres).
    - intros k. rewrite Hpl, nth_error_skipn. reflexivity.
    - rewrite (wi_mapped _ _ _ _ Hw2). symmetry. apply firstn_skipn.
    - rewrite <- Hdpre. symmetry. apply firstn_skipn.
    - apply map_length.
    - rewrite !skipn_length, (wi_disp_len _ _ _ _ Hw2). lia.
    - intros k it Hk. rewrite nth_error_skipn in Hk. rewrite Hpl.
      apply (tmp_final e ne w2 Hg Hw2); [lia | exact Hk].
    - intros j _. rewrite (wi_dtmp _ _ _ _ Hw2). reflexivity.
    - rewrite Hpl, Hnl in Hfold. rewrite Hfold. cbn [bind].
      rewrite (wi_next _ _ _ _ Hw2) in Hres.
      assert (Hspec : spec_fill old ms new nx0 =
                      let '(out2, evs2, nx') := spec_fill old ms (skipn start new) nx0 in
                      (firstn start ms ++ out2, evs2, nx')).
      { transitivity (spec_fill old ms (firstn start new ++ skipn start new) nx0);
          [rewrite firstn_skipn; reflexivity|].
        rewrite spec_fill_app.
        rewrite (spec_fill_reuse old ms (firstn start new) (firstn start ms) nx0).
        - destruct (spec_fill old ms (skipn start new) nx0) as [[o2 e2] n2]. reflexivity.
        - rewrite !firstn_length. lia.
        - intros i it Hi.
          assert (Hil : i < start).
          { apply nth_error_Some_lt in Hi. rewrite firstn_length in Hi. lia. }
          rewrite nth_error_firstn in Hi by exact Hil. rewrite nth_error_firstn by exact Hil.
          apply find_key_at; auto. rewrite Hpre by exact Hil. exact Hi. }
      rewrite Hspec.
      pose proof (spec_fill_length old ms (skipn start new) nx0) as Hol.
      destruct (spec_fill old ms (skipn start new) nx0) as [[out2 evs2] nx'].
      cbn [fst] in Hol. destruct Hres as (R1 & R2 & R3 & R4).
      rewrite R1, R2, R3, R4.
      rewrite (app_assoc (firstn start ms) out2), (app_assoc (map Some (firstn start ms)) (map Some out2)).
      rewrite <- map_app.
      rewrite !firstn_exact; [| rewrite map_length, app_length; lia | rewrite app_length; lia].
      rewrite rev_app_distr, rev_involutive, (wi_events _ _ _ _ Hw2), rev_involutive.
      rewrite spec_disposed_unfold, (disposed_middle e ne Hg). reflexivity.
  Qed.

End General.

(* ---------------------------------------------------------------------------------- *)
(* fast paths *)

Definition clear_body :=
  fun (acc : option (list kev)) (d : option nat) => do l <- acc; do sc <- d; Some (Dispose sc :: l).

Lemma map_keyed_step_nil st :
  map_keyed_step st [] =
  do evs <- fold_left clear_body (disposers st) (Some []); Some (KSt [] [] [] (next_id st), rev evs).
Proof. reflexivity. Qed.

Lemma clear_fold ms : forall l0,
  fold_left clear_body (map Some ms) (Some l0) = Some (rev (map Dispose ms) ++ l0).
Proof.
  induction ms as [|m ms IH]; intros l0; cbn [map fold_left]; [reflexivity|].
  unfold clear_body at 2. cbn [bind]. rewrite IH. cbn [rev]. rewrite <- app_assoc. reflexivity.
Qed.

Lemma spec_disposed_nil old : forall ms, length ms = length old -> spec_disposed old ms [] = map Dispose ms.
Proof.
  induction old as [|o old IH]; intros [|m ms] Hl; try discriminate Hl; [reflexivity|].
  unfold spec_disposed in *. cbn [combine flat_map map has_key existsb fst snd app].
  f_equal. apply IH. cbn [length] in Hl. lia.
Qed.

Lemma spec_fill_fresh ms : forall new nx,
  spec_fill [] ms new nx =
  (seq nx (length new), map (fun p => Create (fst p) (snd p)) (combine new (seq nx (length new))), nx + length new).
Proof.
  induction new as [|it new IH]; intros nx; cbn [spec_fill length seq combine map find_key].
  - rewrite Nat.add_0_r. reflexivity.
  - rewrite IH. cbn [fst snd]. replace (S nx + length new) with (nx + S (length new)) by lia. reflexivity.
Qed.

(* ---------------------------------------------------------------------------------- *)
(* one update, Prop level *)

Theorem keyed_step_spec st new :
  kst_ok st = true -> nodup_keys (items st) = true -> nodup_keys new = true ->
  exists st' evs,
    map_keyed_step st new = Some (st', evs) /\
    spec_keyed st new = (mapped st', evs, next_id st') /\
    items st' = new /\ kst_ok st' = true.
Proof.
  intros Hok Hndo Hndn. apply kst_ok_spec in Hok. destruct Hok as [Hlen Hds].
  destruct st as [old ms ds nx]. cbn [items mapped disposers next_id] in *. subst ds.
  destruct new as [|x new'].
  - (* clear *)
    rewrite map_keyed_step_nil. cbn [disposers next_id]. rewrite clear_fold. cbn [bind].
    eexists _, _. split; [reflexivity|]. cbn [mapped next_id items].
    unfold spec_keyed. cbn [items mapped next_id spec_fill].
    rewrite (spec_disposed_nil old ms Hlen), !app_nil_r, rev_involutive. auto.
  - destruct old as [|o old'].
    + (* create everything *)
      destruct ms as [|m ms]; [|discriminate Hlen].
      unfold map_keyed_step. cbn [items mapped disposers next_id map app].
      eexists _, _. split; [reflexivity|]. cbn [mapped next_id items].
      unfold spec_keyed. cbn [items mapped next_id]. rewrite spec_fill_fresh.
      split; [reflexivity|]. split; [reflexivity|].
      apply kst_ok_spec. cbn [items mapped disposers]. rewrite seq_length. auto.
    + (* general path *)
      rewrite (map_keyed_step_general (KSt (o :: old') ms (map Some ms) nx) x new' o old' eq_refl). cbn zeta.
      cbn [mapped disposers next_id].
      destruct (common_prefix_spec (o :: old') (x :: new')) as (Hs1 & Hs2 & Hpre).
      pose proof (general_path (o :: old') (x :: new') ms nx (common_prefix (o :: old') (x :: new'))
                               Hlen (nodup_keys_inj _ Hndo) (nodup_keys_inj _ Hndn) Hs1 Hs2 Hpre) as Hgp.
      unfold w0 in Hgp. rewrite Hgp. clear Hgp.
      unfold spec_keyed. cbn [items mapped next_id].
      pose proof (spec_fill_length (o :: old') ms (x :: new') nx) as Hol.
      destruct (spec_fill (o :: old') ms (x :: new') nx) as [[out creates] nx']. cbn [fst] in Hol.
      eexists _, _. split; [reflexivity|]. cbn [mapped next_id items].
      split; [reflexivity|]. split; [reflexivity|].
      apply kst_ok_spec. cbn [items mapped disposers]. auto.
Qed.

(* GOAL (2) *)
Theorem keyed_refines : forall st new,
  kst_ok st = true -> nodup_keys (items st) = true -> nodup_keys new = true -> step_refines st new = true.
Proof.
  intros st new Hok Ho Hn.
  destruct (keyed_step_spec st new Hok Ho Hn) as (st' & evs & Hstep & Hspec & Hitems & Hok').
  unfold step_refines. rewrite Hstep, Hspec.
  rewrite list_eqb_refl, events_eqb_refl, Nat.eqb_refl, Hok', Hitems, items_eqb_refl, Nat.eqb_refl.
  reflexivity.
Qed.

(* the invariants are re-established *)
Theorem keyed_step_preserves st new st' evs :
  kst_ok st = true -> nodup_keys (items st) = true -> nodup_keys new = true ->
  map_keyed_step st new = Some (st', evs) ->
  kst_ok st' = true /\ nodup_keys (items st') = true.
Proof.
  intros Hok Ho Hn Hstep.
  destruct (keyed_step_spec st new Hok Ho Hn) as (st2 & evs2 & Hstep2 & _ & Hitems & Hok').
  rewrite Hstep in Hstep2. injection Hstep2 as <- <-. rewrite Hitems. auto.
Qed.

(* non-vacuity: a move, a removal, an insertion, a payload change under the same key, shared prefix and suffix *)
Example keyed_refines_instance :
  let st := KSt [(1, 0); (2, 0); (3, 0); (4, 0); (5, 0)] [10; 11; 12; 13; 14]
                [Some 10; Some 11; Some 12; Some 13; Some 14] 15 in
  let new := [(1, 0); (4, 7); (6, 0); (2, 0); (5, 0)] in
  kst_ok st = true /\ nodup_keys (items st) = true /\ nodup_keys new = true /\
  map_keyed_step st new =
    Some (KSt new [10; 13; 15; 11; 14] [Some 10; Some 13; Some 15; Some 11; Some 14] 16,
          [Dispose 12; Create (6, 0) 15]).
Proof. vm_compute. repeat split; reflexivity. Qed.

(* GOAL (3): chains *)
Fixpoint krun (st : kst) (updates : list (list item)) : bool :=
  match updates with
  | [] => true
  | new :: rest =>
      step_refines st new &&
      match map_keyed_step st new with
      | Some (st', _) => krun st' rest
      | None => false
      end
  end.

Theorem keyed_chain_from : forall updates st,
  kst_ok st = true -> nodup_keys (items st) = true -> forallb nodup_keys updates = true ->
  krun st updates = true.
Proof.
  induction updates as [|new rest IH]; intros st Hok Ho Hall; cbn [krun]; [reflexivity|].
  cbn [forallb] in Hall. apply andb_true_iff in Hall. destruct Hall as [Hn Hrest].
  rewrite (keyed_refines st new Hok Ho Hn). cbn [andb].
  destruct (keyed_step_spec st new Hok Ho Hn) as (st' & evs & Hstep & _ & Hitems & Hok').
  rewrite Hstep. apply IH; [exact Hok' | rewrite Hitems; exact Hn | exact Hrest].
Qed.

Theorem keyed_chain : forall updates,
  forallb nodup_keys updates = true -> krun kinit updates = true.
Proof. intros updates Hall. apply keyed_chain_from; auto. Qed.

Example keyed_chain_instance :
  let updates := [[(1, 0); (2, 0); (3, 0)]; [(3, 0); (1, 5); (4, 0)]; []; [(4, 1)]; [(5, 0); (4, 1)]] in
  forallb nodup_keys updates = true /\ krun kinit updates = true.
Proof. vm_compute. split; reflexivity. Qed.

Print Assumptions keyed_refines.
Print Assumptions keyed_chain.
