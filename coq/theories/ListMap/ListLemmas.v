(* ListMap/ListLemmas.v -- reflection of the boolean comparisons used by step_refines / istep_refines,
   and pointwise facts about set_nth / nth_error / firstn / skipn used by the refinement proofs. *)
From Coq Require Import List Arith Bool Lia.
From Syc Require Import ListMap.Keyed.
Import ListNotations.

(* ---------------------------------------------------------------------------------- *)
(* reflection *)

Lemma item_eqb_eq (a b : item) : item_eqb a b = true <-> a = b.
Proof.
  destruct a as [a1 a2], b as [b1 b2]; unfold item_eqb; cbn [fst snd].
  rewrite andb_true_iff, !Nat.eqb_eq. split.
  - intros [H1 H2]; subst; reflexivity.
  - intros H; injection H as H1 H2; subst; auto.
Qed.

Lemma item_eqb_refl (a : item) : item_eqb a a = true.
Proof. apply item_eqb_eq; reflexivity. Qed.

Lemma item_eqb_false (a b : item) : item_eqb a b = false <-> a <> b.
Proof.
  split.
  - intros H E. apply item_eqb_eq in E. congruence.
  - intros H. destruct (item_eqb a b) eqn:E; [apply item_eqb_eq in E; contradiction | reflexivity].
Qed.

Lemma list_eqb_eq (a b : list nat) : list_eqb a b = true <-> a = b.
Proof.
  unfold list_eqb. revert b. induction a as [|x a IH]; intros [|y b]; cbn [length combine forallb fst snd].
  - split; reflexivity.
  - split; [intros H; discriminate H | intros H; discriminate H].
  - split; [intros H; discriminate H | intros H; discriminate H].
  - change (S (length a) =? S (length b)) with (length a =? length b).
    specialize (IH b). rewrite andb_true_iff in IH |- *. rewrite andb_true_iff.
    split.
    + intros [Hl [Hx Hf]]. apply Nat.eqb_eq in Hx. subst y. f_equal. apply IH; auto.
    + intros H; injection H as Hx Ht. apply IH in Ht. subst y. rewrite Nat.eqb_refl. tauto.
Qed.

Lemma list_eqb_refl (a : list nat) : list_eqb a a = true.
Proof. apply list_eqb_eq; reflexivity. Qed.

Lemma events_eqb_eq (a b : list kev) : events_eqb a b = true <-> a = b.
Proof.
  unfold events_eqb. revert b. induction a as [|x a IH]; intros [|y b]; cbn [length combine forallb].
  - split; reflexivity.
  - split; [intros H; discriminate H | intros H; discriminate H].
  - split; [intros H; discriminate H | intros H; discriminate H].
  - change (S (length a) =? S (length b)) with (length a =? length b).
    specialize (IH b). rewrite andb_true_iff in IH |- *. rewrite andb_true_iff.
    split.
    + intros [Hl [Hx Hf]]. assert (Et : a = b) by (apply IH; auto). subst b. f_equal.
      destruct x as [i p|p], y as [j q|q]; try discriminate Hx.
      * apply andb_true_iff in Hx. destruct Hx as [H1 H2].
        apply item_eqb_eq in H1. apply Nat.eqb_eq in H2. subst; reflexivity.
      * apply Nat.eqb_eq in Hx. subst; reflexivity.
    + intros H; injection H as Hx Ht. subst y. apply IH in Ht. destruct Ht as [Hl Hf].
      split; [exact Hl|]. split; [|exact Hf].
      destruct x as [i p|p].
      * rewrite item_eqb_refl, Nat.eqb_refl. reflexivity.
      * apply Nat.eqb_refl.
Qed.

Lemma events_eqb_refl (a : list kev) : events_eqb a a = true.
Proof. apply events_eqb_eq; reflexivity. Qed.

Lemma items_eqb_refl (a : list item) :
  forallb (fun p => item_eqb (fst p) (snd p)) (combine a a) = true.
Proof.
  induction a as [|x a IH]; cbn [combine forallb fst snd]; [reflexivity|].
  rewrite item_eqb_refl, IH. reflexivity.
Qed.

Lemma items_eqb_eq (a b : list item) :
  forallb (fun p => item_eqb (fst p) (snd p)) (combine a b) && Nat.eqb (length a) (length b) = true <-> a = b.
Proof.
  revert b. induction a as [|x a IH]; intros [|y b]; cbn [length combine forallb fst snd].
  - split; reflexivity.
  - split; [intros H; discriminate H | intros H; discriminate H].
  - split; [intros H; discriminate H | intros H; discriminate H].
  - change (S (length a) =? S (length b)) with (length a =? length b).
    specialize (IH b). rewrite andb_true_iff in IH |- *. rewrite andb_true_iff.
    split.
    + intros [[Hx Hf] Hl]. apply item_eqb_eq in Hx. subst y. f_equal. apply IH; auto.
    + intros H; injection H as Hx Ht. subst y. apply IH in Ht. rewrite item_eqb_refl. tauto.
Qed.

(* ---------------------------------------------------------------------------------- *)
(* set_nth *)

Lemma set_nth_Some {A} (l : list A) i x : i < length l -> exists l', set_nth l i x = Some l'.
Proof.
  revert i. induction l as [|y l IH]; intros i Hi; cbn [length] in Hi; [lia|].
  destruct i as [|i]; cbn [set_nth].
  - eexists; reflexivity.
  - destruct (IH i) as [l' E]; [lia|]. rewrite E. eexists; reflexivity.
Qed.

Lemma set_nth_length {A} (l l' : list A) i x : set_nth l i x = Some l' -> length l' = length l.
Proof.
  revert i l'. induction l as [|y l IH]; intros i l' H; [discriminate H|].
  destruct i as [|i]; cbn [set_nth] in H.
  - injection H as <-. reflexivity.
  - destruct (set_nth l i x) as [r|] eqn:E; [|discriminate H]. cbn [option_map] in H.
    injection H as <-. cbn [length]. f_equal. eapply IH; eauto.
Qed.

Lemma set_nth_lt {A} (l l' : list A) i x : set_nth l i x = Some l' -> i < length l.
Proof.
  revert i l'. induction l as [|y l IH]; intros i l' H; [discriminate H|].
  destruct i as [|i]; cbn [set_nth length] in *; [lia|].
  destruct (set_nth l i x) as [r|] eqn:E; [|discriminate H].
  apply IH in E. lia.
Qed.

Lemma set_nth_same {A} (l l' : list A) i x : set_nth l i x = Some l' -> nth_error l' i = Some x.
Proof.
  revert i l'. induction l as [|y l IH]; intros i l' H; [discriminate H|].
  destruct i as [|i]; cbn [set_nth] in H.
  - injection H as <-. reflexivity.
  - destruct (set_nth l i x) as [r|] eqn:E; [|discriminate H]. cbn [option_map] in H.
    injection H as <-. cbn [nth_error]. eapply IH; eauto.
Qed.

Lemma set_nth_other {A} (l l' : list A) i j x :
  set_nth l i x = Some l' -> j <> i -> nth_error l' j = nth_error l j.
Proof.
  revert i j l'. induction l as [|y l IH]; intros i j l' H Hne; [discriminate H|].
  destruct i as [|i]; cbn [set_nth] in H.
  - injection H as <-. destruct j; [congruence|reflexivity].
  - destruct (set_nth l i x) as [r|] eqn:E; [|discriminate H]. cbn [option_map] in H.
    injection H as <-. destruct j as [|j]; [reflexivity|]. cbn [nth_error].
    eapply IH; eauto.
Qed.

(* overwriting position i of (pre ++ y :: rest) when length pre = i *)
Lemma set_nth_app {A} (pre rest : list A) y x :
  set_nth (pre ++ y :: rest) (length pre) x = Some (pre ++ x :: rest).
Proof.
  induction pre as [|p pre IH]; cbn [app length set_nth]; [reflexivity|].
  rewrite IH. reflexivity.
Qed.

Lemma set_nth_id {A} (l : list A) i x : nth_error l i = Some x -> set_nth l i x = Some l.
Proof.
  revert i. induction l as [|y l IH]; intros i H; destruct i as [|i]; cbn [nth_error set_nth] in *;
    try discriminate H.
  - injection H as ->. reflexivity.
  - rewrite (IH _ H). reflexivity.
Qed.

Lemma nth_error_app_len {A} (pre rest : list A) : nth_error (pre ++ rest) (length pre) = nth_error rest 0.
Proof. induction pre as [|p pre IH]; cbn [app length nth_error]; auto. Qed.

(* extensional equality of lists through nth_error *)
Lemma nth_error_ext {A} (a b : list A) : (forall i, nth_error a i = nth_error b i) -> a = b.
Proof.
  revert b. induction a as [|x a IH]; intros [|y b] H.
  - reflexivity.
  - specialize (H 0); discriminate H.
  - specialize (H 0); discriminate H.
  - pose proof (H 0) as H0. cbn [nth_error] in H0. injection H0 as ->. f_equal.
    apply IH. intros i. exact (H (S i)).
Qed.

Lemma nth_error_repeat {A} (x : A) n i : i < n -> nth_error (repeat x n) i = Some x.
Proof.
  revert i. induction n as [|n IH]; intros i Hi; [lia|].
  destruct i as [|i]; cbn [repeat nth_error]; [reflexivity|]. apply IH; lia.
Qed.

Lemma nth_error_firstn {A} (l : list A) n i : i < n -> nth_error (firstn n l) i = nth_error l i.
Proof.
  revert l i. induction n as [|n IH]; intros l i Hi; [lia|].
  destruct l as [|x l]; [destruct i; reflexivity|].
  destruct i as [|i]; cbn [firstn nth_error]; [reflexivity|]. apply IH; lia.
Qed.

Lemma nth_error_skipn {A} (l : list A) n i : nth_error (skipn n l) i = nth_error l (n + i).
Proof.
  revert l. induction n as [|n IH]; intros l; [reflexivity|].
  destruct l as [|x l]; [destruct i; reflexivity|]. cbn [skipn Nat.add nth_error]. apply IH.
Qed.

Lemma nth_error_Some_lt {A} (l : list A) i x : nth_error l i = Some x -> i < length l.
Proof. intros H. apply nth_error_Some. congruence. Qed.

Lemma nth_error_lt_Some {A} (l : list A) i : i < length l -> exists x, nth_error l i = Some x.
Proof.
  intros H. destruct (nth_error l i) as [x|] eqn:E; [eauto|].
  apply nth_error_None in E. lia.
Qed.
