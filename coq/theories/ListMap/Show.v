(* ListMap/Show.v -- canonical output of the list-mapping model, mirrored by harness/list-driver *)
From Coq Require Import List String Arith.
From Syc Require Import Common.Show ListMap.Keyed.
Import ListNotations.
Open Scope string_scope.

Definition show_kev (e : kev) : string :=
  match e with
  | Create it id => "c:" ++ show_nat (fst it) ++ ":" ++ show_nat (snd it) ++ ":" ++ show_nat id
  | Dispose id => "d:" ++ show_nat id
  end.
Definition show_update (out : list nat) (evs : list kev) (live : nat) : string :=
  "out " ++ join " " (map show_nat out) ++ " ; ev " ++ join " " (map show_kev evs) ++ " ; n " ++ show_nat live.

Definition n_disposed (evs : list kev) : nat :=
  List.length (filter (fun e => match e with Dispose _ => true | _ => false end) evs).

(* live item scopes = scopes created so far - scopes disposed so far (with duplicate keys the real code can
   drop a handle without disposing it; the count shows that, the vectors do not) *)
Fixpoint run_keyed (st : kst) (disposed : nat) (chain : list (list item)) : list string :=
  match chain with
  | [] => []
  | l :: rest =>
      match map_keyed_step st l with
      | None => ["PANIC"]
      | Some (st', evs) =>
          let d := disposed + n_disposed evs in
          show_update (mapped st') evs (next_id st' - d) :: run_keyed st' d rest
      end
  end.
Fixpoint run_indexed (st : ist) (disposed : nat) (chain : list (list item)) : list string :=
  match chain with
  | [] => []
  | l :: rest =>
      match map_indexed_step st l with
      | None => ["PANIC"]
      | Some (st', evs) =>
          let d := disposed + n_disposed evs in
          show_update (i_mapped st') evs (i_next st' - d) :: run_indexed st' d rest
      end
  end.

Definition run_chains (keyed : bool) (chains : list (list (list item))) : string :=
  join (nl ++ "==" ++ nl)
       (map (fun c => lines (if keyed then run_keyed kinit 0 c else run_indexed iinit 0 c)) chains).
