(* ListMap/Keyed.v -- executable model of sycamore-reactive's map_keyed / map_indexed update
   closures (packages/sycamore-reactive/src/iter.rs), kept close to the source: vectors are lists
   updated in place by index, the HashMap is an association list, loops are folds over index ranges.
   [map_fn] is abstracted to "allocate the next call id, and a scope with the same id", which is all
   that property C07 observes. [None] = a panic (unwrap on None / index out of bounds).
   Definitions only. *)
From Coq Require Import List Arith Bool.
Import ListNotations.

Definition item := (nat * nat)%type.              (* (key, payload) *)
Definition key_of (it : item) : nat := fst it.
Definition item_eqb (a b : item) : bool := Nat.eqb (fst a) (fst b) && Nat.eqb (snd a) (snd b).

Inductive kev := Create (it : item) (id : nat) | Dispose (id : nat).

Record kst := KSt {
  items : list item;
  mapped : list nat;                 (* the mapped values: call ids *)
  disposers : list (option nat);     (* Option<NodeHandle>, the scope of call id *)
  next_id : nat }.

Definition kinit : kst := KSt [] [] [] 0.

Fixpoint set_nth {A} (l : list A) (i : nat) (x : A) : option (list A) :=
  match l, i with
  | [], _ => None
  | _ :: r, O => Some (x :: r)
  | y :: r, S i' => option_map (cons y) (set_nth r i' x)
  end.

Fixpoint assoc_get (m : list (nat * nat)) (k : nat) : option nat :=
  match m with
  | [] => None
  | (k', v) :: r => if Nat.eqb k k' then Some v else assoc_get r k
  end.
Definition assoc_set (m : list (nat * nat)) (k v : nat) : list (nat * nat) := (k, v) :: m.

Definition bind {A B} (o : option A) (f : A -> option B) : option B :=
  match o with Some a => f a | None => None end.
Notation "'do' x <- r ; k" := (bind r (fun x => k)) (at level 200, x name, r at level 100, k at level 200).
Notation "'do' ' p <- r ; k" := (bind r (fun x => let p := x in k))
  (at level 200, p pattern, r at level 100, k at level 200).

(* first index at which the two lists differ, or the length of the shorter one *)
Fixpoint common_prefix (a b : list item) : nat :=
  match a, b with
  | x :: a', y :: b' => if item_eqb x y then S (common_prefix a' b') else 0
  | _, _ => 0
  end.

(* the mutable working set of the general path *)
Record work := Work {
  w_mapped : list nat;
  w_disposers : list (option nat);
  w_mapped_tmp : list (option nat);
  w_disposers_tmp : list (option nat);
  w_next : nat;
  w_events : list kev }.               (* most recent first *)

(* skip the common suffix: returns (end, new_end, work) *)
Fixpoint skip_suffix (fuel : nat) (old new : list item) (start e ne : nat) (w : work) : option (nat * nat * work) :=
  match fuel with
  | O => Some (e, ne, w)
  | S f =>
      if (start <? e) && (start <? ne) then
        do a <- nth_error old (e - 1);
        do b <- nth_error new (ne - 1);
        if item_eqb a b then
          let e' := e - 1 in
          let ne' := ne - 1 in
          do m <- nth_error (w_mapped w) e';
          do d <- nth_error (w_disposers w) e';
          do mt <- set_nth (w_mapped_tmp w) ne' (Some m);
          do dt <- set_nth (w_disposers_tmp w) ne' d;
          do ds <- set_nth (w_disposers w) e' None;
          skip_suffix f old new start e' ne' (Work (w_mapped w) ds mt dt (w_next w) (w_events w))
        else Some (e, ne, w)
      else Some (e, ne, w)
  end.

(* step 0: index map of the new middle, scanning backwards; [nexts] is new_indices_next (shifted by start) *)
Definition build_indices (new : list item) (start new_end : nat) : option (list (nat * nat) * list (option nat)) :=
  fold_left (fun acc j =>
               do '(idx, nexts) <- acc;
               do it <- nth_error new j;
               let k := key_of it in
               do nexts' <- set_nth nexts (j - start) (assoc_get idx k);
               Some (assoc_set idx k j, nexts'))
            (rev (seq start (new_end - start)))
            (Some ([], repeat None (new_end - start))).

(* step 1: walk the old middle *)
Definition step1 (old : list item) (start e : nat) (idx : list (nat * nat)) (nexts : list (option nat)) (w : work)
  : option (list (nat * nat) * work) :=
  fold_left (fun acc i =>
               do '(idx, w) <- acc;
               do it <- nth_error old i;
               let k := key_of it in
               match assoc_get idx k with
               | Some j =>
                   do m <- nth_error (w_mapped w) i;
                   do d <- nth_error (w_disposers w) i;
                   do mt <- set_nth (w_mapped_tmp w) j (Some m);
                   do dt <- set_nth (w_disposers_tmp w) j d;
                   do ds <- set_nth (w_disposers w) i None;
                   do nx <- nth_error nexts (j - start);
                   let idx' := match nx with Some j' => assoc_set idx k j' | None => idx end in
                   Some (idx', Work (w_mapped w) ds mt dt (w_next w) (w_events w))
               | None =>
                   do d <- nth_error (w_disposers w) i;
                   do sc <- d;                                   (* .take().unwrap() *)
                   do ds <- set_nth (w_disposers w) i None;
                   Some (idx, Work (w_mapped w) ds (w_mapped_tmp w) (w_disposers_tmp w) (w_next w)
                                   (Dispose sc :: w_events w))
               end)
            (seq start (e - start)) (Some (idx, w)).

(* step 2: fill the new positions from the moved array or by calling map_fn *)
Definition step2 (new : list item) (start : nat) (w : work) : option work :=
  fold_left (fun acc j =>
               do w <- acc;
               match nth_error (w_mapped_tmp w) j with
               | Some (Some m) =>
                   do d <- nth_error (w_disposers_tmp w) j;
                   do dt <- set_nth (w_disposers_tmp w) j None;
                   if length (w_mapped w) <=? j then
                     Some (Work (w_mapped w ++ [m]) (w_disposers w ++ [d]) (w_mapped_tmp w) dt (w_next w) (w_events w))
                   else
                     do ms <- set_nth (w_mapped w) j m;
                     do ds <- set_nth (w_disposers w) j d;
                     Some (Work ms ds (w_mapped_tmp w) dt (w_next w) (w_events w))
               | _ =>
                   do it <- nth_error new j;
                   let id := w_next w in
                   let ev := Create it id :: w_events w in
                   if j <? length (w_mapped w) then
                     do ms <- set_nth (w_mapped w) j id;
                     do ds <- set_nth (w_disposers w) j (Some id);
                     Some (Work ms ds (w_mapped_tmp w) (w_disposers_tmp w) (S id) ev)
                   else
                     Some (Work (w_mapped w ++ [id]) (w_disposers w ++ [Some id]) (w_mapped_tmp w) (w_disposers_tmp w) (S id) ev)
               end)
            (seq start (length new - start)) (Some w).

Definition map_keyed_step (st : kst) (new : list item) : option (kst * list kev) :=
  match new with
  | [] =>
      (* fast path: remove everything *)
      do evs <- fold_left (fun acc d => do l <- acc; do sc <- d; Some (Dispose sc :: l)) (disposers st) (Some []);
      Some (KSt [] [] [] (next_id st), rev evs)
  | _ =>
      match items st with
      | [] =>
          (* fast path: create everything *)
          let n := length new in
          let ids := seq (next_id st) n in
          Some (KSt new (mapped st ++ ids) (disposers st ++ map Some ids) (next_id st + n),
                map (fun p => Create (fst p) (snd p)) (combine new ids))
      | old =>
          let n := length new in
          let start := common_prefix old new in
          let w0 := Work (mapped st) (disposers st) (repeat None n) (repeat None n) (next_id st) [] in
          do '(e, ne, w1) <- skip_suffix (length old) old new start (length old) n w0;
          do '(idx, nexts) <- build_indices new start ne;
          do '(_, w2) <- step1 old start e idx nexts w1;
          do w3 <- step2 new start w2;
          Some (KSt new (firstn n (w_mapped w3)) (firstn n (w_disposers w3)) (w_next w3), rev (w_events w3))
      end
  end.

(* ---------------------------------------------------------------------------------- *)
(* map_indexed: disposers are plain handles *)

Record ist := ISt { i_items : list item; i_mapped : list nat; i_disposers : list nat; i_next : nat }.
Definition iinit : ist := ISt [] [] [] 0.

Definition map_indexed_step (st : ist) (new : list item) : option (ist * list kev) :=
  match new with
  | [] => Some (ISt [] [] [] (i_next st), map Dispose (i_disposers st))
  | _ =>
      let r := fold_left (fun acc p =>
                 do '(ms, ds, nx, evs) <- acc;
                 let '(i, it) := p in
                 match nth_error (i_items st) i with
                 | None => Some (ms ++ [nx], ds ++ [nx], S nx, Create it nx :: evs)
                 | Some o =>
                     if item_eqb o it then Some (ms, ds, nx, evs)
                     else
                       do prev <- nth_error ds i;
                       do ms' <- set_nth ms i nx;
                       do ds' <- set_nth ds i nx;
                       Some (ms', ds', S nx, Dispose prev :: Create it nx :: evs)
                 end)
               (combine (seq 0 (length new)) new)
               (Some (i_mapped st, i_disposers st, i_next st, [])) in
      do '(ms, ds, nx, evs) <- r;
      (* pop the disposers beyond the new length, last first *)
      let extra := skipn (length new) ds in
      Some (ISt new (firstn (length new) ms) (firstn (length new) ds) nx,
            rev evs ++ map Dispose (rev extra))
  end.

(* ---------------------------------------------------------------------------------- *)
(* Specification of one keyed update under unique keys, from the property text:         *)
(* reuse the mapped value and scope of the old item with the same key, create the       *)
(* others (in input order), dispose exactly the scopes whose key left (in old order).   *)

Fixpoint find_key (k : nat) (old : list item) (ms : list nat) : option nat :=
  match old, ms with
  | it :: old', m :: ms' => if Nat.eqb (key_of it) k then Some m else find_key k old' ms'
  | _, _ => None
  end.

Definition has_key (k : nat) (l : list item) : bool := existsb (fun it => Nat.eqb (key_of it) k) l.

Fixpoint spec_fill (old : list item) (ms : list nat) (new : list item) (nx : nat) : list nat * list kev * nat :=
  match new with
  | [] => ([], [], nx)
  | it :: rest =>
      match find_key (key_of it) old ms with
      | Some m => let '(out, evs, nx') := spec_fill old ms rest nx in (m :: out, evs, nx')
      | None => let '(out, evs, nx') := spec_fill old ms rest (S nx) in (nx :: out, Create it nx :: evs, nx')
      end
  end.

Definition spec_disposed (old : list item) (ms : list nat) (new : list item) : list kev :=
  flat_map (fun p => if has_key (key_of (fst p)) new then [] else [Dispose (snd p)]) (combine old ms).

(* result vector, events (disposals first, then creations), next call id *)
Definition spec_keyed (st : kst) (new : list item) : list nat * list kev * nat :=
  let '(out, creates, nx) := spec_fill (items st) (mapped st) new (next_id st) in
  (out, spec_disposed (items st) (mapped st) new ++ creates, nx).

Fixpoint nodup_keys (l : list item) : bool :=
  match l with
  | [] => true
  | it :: r => negb (has_key (key_of it) r) && nodup_keys r
  end.

(* state invariant of the keyed mapper: one mapped value and one live scope per item, scope id = call id *)
Definition kst_ok (st : kst) : bool :=
  Nat.eqb (length (mapped st)) (length (items st)) &&
  Nat.eqb (length (disposers st)) (length (items st)) &&
  forallb (fun p => match snd p with Some d => Nat.eqb d (fst p) | None => false end)
          (combine (mapped st) (disposers st)).

Definition events_eqb (a b : list kev) : bool :=
  Nat.eqb (length a) (length b) &&
  forallb (fun p => match p with
                    | (Create i x, Create j y) => item_eqb i j && Nat.eqb x y
                    | (Dispose x, Dispose y) => Nat.eqb x y
                    | _ => false
                    end) (combine a b).
Definition list_eqb (a b : list nat) : bool :=
  Nat.eqb (length a) (length b) && forallb (fun p => Nat.eqb (fst p) (snd p)) (combine a b).

(* one update agrees with the specification *)
Definition step_refines (st : kst) (new : list item) : bool :=
  match map_keyed_step st new with
  | None => false
  | Some (st', evs) =>
      let '(out, sevs, nx) := spec_keyed st new in
      list_eqb (mapped st') out && events_eqb evs sevs && Nat.eqb (next_id st') nx && kst_ok st' &&
      forallb (fun p => item_eqb (fst p) (snd p)) (combine (items st') new) && Nat.eqb (length (items st')) (length new)
  end.

(* ---------------------------------------------------------------------------------- *)
(* Specification of one indexed update, from the property text: recompute exactly the   *)
(* positions whose value changed or appeared; dispose exactly what is replaced or       *)
(* truncated.                                                                           *)

Fixpoint spec_indexed_fill (old : list item) (ms : list nat) (new : list item) (nx : nat) : list nat * list kev * nat :=
  match new with
  | [] => ([], [], nx)
  | it :: rest =>
      match old, ms with
      | o :: old', m :: ms' =>
          if item_eqb o it then
            let '(out, evs, nx') := spec_indexed_fill old' ms' rest nx in (m :: out, evs, nx')
          else
            let '(out, evs, nx') := spec_indexed_fill old' ms' rest (S nx) in
            (nx :: out, Create it nx :: Dispose m :: evs, nx')
      | _, _ =>
          let '(out, evs, nx') := spec_indexed_fill [] [] rest (S nx) in (nx :: out, Create it nx :: evs, nx')
      end
  end.

Definition spec_indexed (st : ist) (new : list item) : list nat * list kev * nat :=
  match new with
  | [] => ([], map Dispose (i_mapped st), i_next st)
  | _ =>
      let '(out, evs, nx) := spec_indexed_fill (i_items st) (i_mapped st) new (i_next st) in
      (out, evs ++ map Dispose (rev (skipn (length new) (i_mapped st))), nx)
  end.

Definition ist_ok (st : ist) : bool :=
  Nat.eqb (length (i_mapped st)) (length (i_items st)) && list_eqb (i_mapped st) (i_disposers st).

Definition istep_refines (st : ist) (new : list item) : bool :=
  match map_indexed_step st new with
  | None => false
  | Some (st', evs) =>
      let '(out, sevs, nx) := spec_indexed st new in
      list_eqb (i_mapped st') out && events_eqb evs sevs && Nat.eqb (i_next st') nx && ist_ok st' &&
      forallb (fun p => item_eqb (fst p) (snd p)) (combine (i_items st') new) && Nat.eqb (length (i_items st')) (length new)
  end.
