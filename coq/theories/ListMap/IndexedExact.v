(* ListMap/IndexedExact.v -- positional reading of one map_indexed update (all states satisfying the
   invariant, all new lists): a position whose value is unchanged keeps its mapped value; every other
   position of the new list is recomputed with a fresh call id; the scopes disposed are exactly those of
   the positions that were replaced or truncated. *)
From Coq Require Import List Arith Bool Lia.
From Syc Require Import ListMap.Keyed ListMap.ListLemmas ListMap.IndexedProof.
Import ListNotations.

Lemma nth_error_nil {A} n : nth_error (@nil A) n = None.
Proof. destruct n; reflexivity. Qed.

Lemma spec_indexed_fill_char : forall new old ms nx out evs nx',
  length ms = length old ->
  spec_indexed_fill old ms new nx = (out, evs, nx') ->
  nx <= nx' /\
  (forall j b, nth_error new j = Some b ->
     (nth_error old j = Some b -> nth_error out j = nth_error ms j) /\
     (nth_error old j <> Some b ->
        exists id, nth_error out j = Some id /\ nx <= id < nx' /\ In (Create b id) evs)) /\
  (forall m, In (Dispose m) evs <->
     exists j b, nth_error new j = Some b /\ nth_error ms j = Some m /\ nth_error old j <> Some b) /\
  (forall b id, In (Create b id) evs ->
     exists j, nth_error new j = Some b /\ nth_error old j <> Some b /\
               nth_error out j = Some id /\ nx <= id < nx').
Proof.
  induction new as [|it rest IH]; intros old ms nx out evs nx' Hlen H; cbn [spec_indexed_fill] in H.
  - injection H as <- <- <-. split; [lia|]. split; [intros [|j] b Hb; discriminate Hb|].
    split; [|intros b id []].
    intros m. split; [intros [] | intros (j & b & Hb & _); destruct j; discriminate Hb].
  - destruct old as [|o old'].
    + destruct ms as [|m0 ms']; [|discriminate Hlen].
      destruct (spec_indexed_fill [] [] rest (S nx)) as [[out1 evs1] nx1] eqn:E. injection H as <- <- <-.
      destruct (IH [] [] (S nx) _ _ _ eq_refl E) as (I1 & IA & IB & IC).
      split; [lia|]. split; [|split].
      * intros [|j] b Hb; cbn [nth_error] in Hb |- *.
        -- injection Hb as <-. split; [intros X; discriminate X|]. intros _.
           exists nx. split; [reflexivity|]. split; [lia | left; reflexivity].
        -- destruct (IA j b Hb) as [A1 A2]. rewrite nth_error_nil in A1, A2. split; [intros X; discriminate X|].
           intros _. destruct A2 as (id & G1 & G2 & G3); [intros X; discriminate X|].
           exists id. split; [exact G1|]. split; [lia | right; exact G3].
      * intros m. split.
        -- intros [X|X]; [discriminate X|]. apply IB in X. destruct X as (j & b & _ & X & _).
           rewrite nth_error_nil in X. discriminate X.
        -- intros (j & b & _ & X & _). rewrite nth_error_nil in X. discriminate X.
      * intros b id [X|X].
        -- injection X as <- <-. exists 0. cbn [nth_error]. split; [reflexivity|].
           split; [intros Y; discriminate Y|]. split; [reflexivity | lia].
        -- destruct (IC b id X) as (j & G1 & G2 & G3 & G4). exists (S j). cbn [nth_error].
           split; [exact G1|]. split; [try rewrite nth_error_nil; intros Y; discriminate Y|]. split; [exact G3 | lia].
    + destruct ms as [|m0 ms']; [discriminate Hlen|]. cbn [length] in Hlen. injection Hlen as Hlen.
      destruct (item_eqb o it) eqn:Eo.
      * apply item_eqb_eq in Eo. subst o.
        destruct (spec_indexed_fill old' ms' rest nx) as [[out1 evs1] nx1] eqn:E. injection H as <- <- <-.
        destruct (IH old' ms' nx _ _ _ Hlen E) as (I1 & IA & IB & IC).
        split; [lia|]. split; [|split].
        -- intros [|j] b Hb; cbn [nth_error] in Hb |- *.
           ++ injection Hb as <-. split; [reflexivity | intros X; contradiction X; reflexivity].
           ++ apply IA. exact Hb.
        -- intros m. rewrite IB. split.
           ++ intros (j & b & G). exists (S j), b. exact G.
           ++ intros ([|j] & b & G1 & G2 & G3); cbn [nth_error] in *; [congruence | exists j, b; auto].
        -- intros b id X. destruct (IC b id X) as (j & G). exists (S j). exact G.
      * apply item_eqb_false in Eo.
        destruct (spec_indexed_fill old' ms' rest (S nx)) as [[out1 evs1] nx1] eqn:E. injection H as <- <- <-.
        destruct (IH old' ms' (S nx) _ _ _ Hlen E) as (I1 & IA & IB & IC).
        split; [lia|]. split; [|split].
        -- intros [|j] b Hb; cbn [nth_error] in Hb |- *.
           ++ injection Hb as <-. split; [intros X; congruence|]. intros _.
              exists nx. split; [reflexivity|]. split; [lia | left; reflexivity].
           ++ destruct (IA j b Hb) as [A1 A2]. split; [exact A1|]. intros Hne.
              destruct (A2 Hne) as (id & G1 & G2 & G3). exists id. split; [exact G1|].
              split; [lia | right; right; exact G3].
        -- intros m. split.
           ++ intros [X|[X|X]]; [discriminate X | |].
              ** injection X as <-. exists 0, it. cbn [nth_error]. repeat split; congruence.
              ** apply IB in X. destruct X as (j & b & G). exists (S j), b. exact G.
           ++ intros ([|j] & b & G1 & G2 & G3); cbn [nth_error] in *.
              ** right; left. congruence.
              ** right; right. apply IB. exists j, b. auto.
        -- intros b id [X|[X|X]]; [| discriminate X |].
           ++ injection X as <- <-. exists 0. cbn [nth_error]. split; [reflexivity|].
              split; [congruence|]. split; [reflexivity | lia].
           ++ destruct (IC b id X) as (j & G1 & G2 & G3 & G4). exists (S j). cbn [nth_error].
              repeat split; auto; lia.
Qed.

Lemma in_map_dispose (m : nat) l : In (Dispose m) (map Dispose l) <-> In m l.
Proof.
  rewrite in_map_iff. split; [intros (x & Hx & Hin); injection Hx as ->; exact Hin | intros H; eauto].
Qed.

Theorem indexed_exact st new st' evs :
  ist_ok st = true -> map_indexed_step st new = Some (st', evs) ->
  (* unchanged positions keep their mapped value *)
  (forall j b, nth_error new j = Some b -> nth_error (i_items st) j = Some b ->
               nth_error (i_mapped st') j = nth_error (i_mapped st) j) /\
  (* changed or new positions are recomputed with a fresh call id *)
  (forall j b, nth_error new j = Some b -> nth_error (i_items st) j <> Some b ->
               exists id, nth_error (i_mapped st') j = Some id /\ i_next st <= id < i_next st' /\
                          In (Create b id) evs) /\
  (* nothing else is computed *)
  (forall b id, In (Create b id) evs ->
               exists j, nth_error new j = Some b /\ nth_error (i_items st) j <> Some b /\
                         nth_error (i_mapped st') j = Some id) /\
  (* exactly the replaced and the truncated scopes are disposed *)
  (forall m, In (Dispose m) evs <->
             exists j, nth_error (i_mapped st) j = Some m /\
                       (nth_error new j = None \/ nth_error new j <> nth_error (i_items st) j)).
Proof.
  intros Hok Hstep.
  destruct (indexed_step_spec st new Hok) as (st2 & evs2 & Hstep2 & Hspec & _).
  rewrite Hstep in Hstep2. injection Hstep2 as <- <-.
  unfold ist_ok in Hok. apply andb_true_iff in Hok. destruct Hok as [Hlen _]. apply Nat.eqb_eq in Hlen.
  unfold spec_indexed in Hspec. destruct new as [|x new'].
  - destruct Hspec as (Hm & He & Hn). split; [intros [|j] b Hb; discriminate Hb|].
    split; [intros [|j] b Hb; discriminate Hb|]. split.
    + intros b id Hin. rewrite He in Hin. apply in_map_iff in Hin. destruct Hin as (y & Hy & _). discriminate Hy.
    + intros m. rewrite He, in_map_dispose. split.
      * intros Hin. apply In_nth_error in Hin. destruct Hin as [j Hj]. exists j. split; [exact Hj|].
        left. destruct j; reflexivity.
      * intros (j & Hj & _). eapply nth_error_In; eauto.
  - set (new := x :: new') in *.
    destruct (spec_indexed_fill (i_items st) (i_mapped st) new (i_next st)) as [[out fevs] nx'] eqn:E.
    destruct Hspec as (Hm & He & Hn). rewrite Hm, Hn.
    destruct (spec_indexed_fill_char _ _ _ _ _ _ _ Hlen E) as (I1 & IA & IB & IC).
    assert (Hcr : forall b id, In (Create b id) evs <-> In (Create b id) fevs).
    { intros b id. rewrite He, in_app_iff. split; [|tauto]. intros [H|H]; [exact H|].
      apply in_map_iff in H. destruct H as (y & Hy & _). discriminate Hy. }
    split; [intros j b Hb Ho; apply (IA j b Hb); exact Ho|]. split.
    { intros j b Hb Ho. destruct (IA j b Hb) as [_ A2]. destruct (A2 Ho) as (id & G1 & G2 & G3).
      exists id. split; [exact G1|]. split; [exact G2 | apply Hcr; exact G3]. }
    split.
    { intros b id Hin. apply Hcr in Hin. destruct (IC b id Hin) as (j & G1 & G2 & G3 & _). eauto. }
    intros m. rewrite He, in_app_iff, IB, in_map_dispose, <- in_rev. split.
    + intros [(j & b & G1 & G2 & G3)|Hin].
      * exists j. split; [exact G2|]. right. rewrite G1. congruence.
      * apply In_nth_error in Hin. destruct Hin as [t Ht]. rewrite nth_error_skipn in Ht.
        exists (length new + t). split; [exact Ht|]. left. apply nth_error_None. lia.
    + intros (j & Hj & [Hnone|Hne]).
      * right. apply nth_error_None in Hnone. apply (nth_error_In _ (j - length new)).
        rewrite nth_error_skipn. replace (length new + (j - length new)) with j by lia. exact Hj.
      * destruct (nth_error new j) as [b|] eqn:Hb.
        -- left. exists j, b. repeat split; auto; congruence.
        -- right. apply nth_error_None in Hb. apply (nth_error_In _ (j - length new)).
           rewrite nth_error_skipn. replace (length new + (j - length new)) with j by lia. exact Hj.
Qed.

Example indexed_exact_instance :
  let st := ISt [(1, 0); (2, 0); (3, 0)] [10; 11; 12] [10; 11; 12] 13 in
  ist_ok st = true /\
  map_indexed_step st [(1, 0); (2, 5)] = Some (ISt [(1, 0); (2, 5)] [10; 13] [10; 13] 14,
                                               [Create (2, 5) 13; Dispose 11; Dispose 12]).
Proof. vm_compute. split; reflexivity. Qed.

Print Assumptions indexed_exact.
