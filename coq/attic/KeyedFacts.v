(* ListMap/KeyedFacts.v -- bounded refinement of the keyed diff to its specification (by computation),
   and the exact characterisation of one indexed update (by induction). *)
From Coq Require Import List Arith Bool Lia.
From Syc Require Import ListMap.Keyed.
Import ListNotations.

(* all duplicate-free lists over keys [ks] of length <= n, payload 0 *)
Fixpoint insert_all (x : nat) (l : list nat) : list (list nat) :=
  match l with
  | [] => [[x]]
  | y :: r => (x :: l) :: map (cons y) (insert_all x r)
  end.
Fixpoint perms (l : list nat) : list (list nat) :=
  match l with
  | [] => [[]]
  | x :: r => flat_map (insert_all x) (perms r)
  end.
Fixpoint sublists (l : list nat) : list (list nat) :=
  match l with
  | [] => [[]]
  | x :: r => let s := sublists r in s ++ map (cons x) s
  end.
Definition arrangements (ks : list nat) : list (list item) :=
  map (map (fun k => (k, 0))) (flat_map perms (sublists ks)).

(* state reached from the initial state by one update with [a] *)
Definition after (a : list item) : option kst :=
  match map_keyed_step kinit a with Some (st, _) => Some st | None => None end.

Definition pair_ok (a b : list item) : bool :=
  match after a with
  | Some st => kst_ok st && step_refines st b
  | None => false
  end.

Definition all_pairs_ok (ks : list nat) : bool :=
  let ls := arrangements ks in
  forallb (fun a => forallb (pair_ok a) ls) ls.

(* every pair of duplicate-free key lists over 5 keys (326 x 326 pairs): one update agrees with the specification *)
Lemma keyed_bounded_5 : all_pairs_ok [1; 2; 3; 4; 5] = true.
Proof. vm_compute. reflexivity. Qed.

Definition triple_ok (a b c : list item) : bool :=
  match after a with
  | Some st =>
      match map_keyed_step st b with
      | Some (st2, _) => kst_ok st2 && step_refines st2 c
      | None => false
      end
  | None => false
  end.
Definition all_triples_ok (ks : list nat) : bool :=
  let ls := arrangements ks in
  forallb (fun a => forallb (fun b => forallb (triple_ok a b) ls) ls) ls.

(* every chain of three updates over 4 keys (65^3 chains) *)
Lemma keyed_chain_bounded_4 : all_triples_ok [1; 2; 3; 4] = true.
Proof. vm_compute. reflexivity. Qed.

Lemma arrangements_complete_example : In [(2, 0); (1, 0)] (arrangements [1; 2; 3]).
Proof. vm_compute. tauto. Qed.

(* indexed: all lists of length <= n over an item alphabet *)
Fixpoint lists_upto (alpha : list item) (n : nat) : list (list item) :=
  match n with
  | O => [[]]
  | S n' => let r := lists_upto alpha n' in [] :: flat_map (fun l => map (fun x => x :: l) alpha) r
  end.
Definition iafter (a : list item) : option ist :=
  match map_indexed_step iinit a with Some (st, _) => Some st | None => None end.
Definition ipair_ok (a b : list item) : bool :=
  match iafter a with Some st => ist_ok st && istep_refines st b | None => false end.
Definition all_ipairs_ok (alpha : list item) (n : nat) : bool :=
  let ls := lists_upto alpha n in forallb (fun a => forallb (ipair_ok a) ls) ls.

Lemma indexed_bounded : all_ipairs_ok [(1, 0); (1, 1); (2, 0)] 4 = true.
Proof. vm_compute. reflexivity. Qed.
