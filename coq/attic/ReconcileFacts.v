(* Dom/ReconcileFacts.v -- bounded correctness of the node-diffing routine, by computation *)
From Coq Require Import List Arith Bool.
From Syc Require Import Dom.Reconcile.
Import ListNotations.

Fixpoint insert_all (x : nat) (l : list nat) : list (list nat) :=
  match l with
  | [] => [[x]]
  | y :: r => (x :: l) :: map (cons y) (insert_all x r)
  end.
Fixpoint perms (l : list nat) : list (list nat) :=
  match l with [] => [[]] | x :: r => flat_map (insert_all x) (perms r) end.
Fixpoint sublists (l : list nat) : list (list nat) :=
  match l with [] => [[]] | x :: r => let s := sublists r in s ++ map (cons x) s end.
Definition arrangements (ks : list nat) : list (list nat) := flat_map perms (sublists ks).

(* every duplicate-free a over [olds] (with the `end` sentinel appended, as Keyed / Indexed call the routine) against
   every duplicate-free b over [olds ++ news], between the siblings [pre] and [post] *)
Definition all_ok (olds news pre post : list nat) (sentinel : nat) : bool :=
  forallb (fun a => forallb (fun b => reconcile_ok pre (a ++ [sentinel]) (b ++ [sentinel]) post)
                            (arrangements (olds ++ news)))
          (arrangements olds).

Lemma reconcile_bounded_5 : all_ok [1; 2; 3; 4; 5] [11] [100] [200] 99 = true.
Proof. vm_compute. reflexivity. Qed.

(* without the sentinel: the routine alone, for non-empty a *)
Definition all_ok_raw (olds news pre post : list nat) : bool :=
  forallb (fun a => match a with [] => true | _ => forallb (fun b => reconcile_ok pre a b post) (arrangements (olds ++ news)) end)
          (arrangements olds).
Lemma reconcile_bounded_raw_4 : all_ok_raw [1; 2; 3; 4] [11; 12] [100] [200] = true.
Proof. vm_compute. reflexivity. Qed.
