//! Auditor L: the per-thread SSR root next to an application root.
use std::cell::Cell;
use std::rc::Rc;

use sycamore::prelude::*;
use sycamore::web::render_to_string;

#[component(inline_props)]
fn Price(value: ReadSignal<i32>) -> View {
    // Read in the component body: by C03 this never subscribes whoever instantiates the component.
    let initial = value.get();
    view! { span { (initial) } }
}

/// Control: one root only. The effect builds the view directly.
#[test]
fn control_component_body_read_does_not_subscribe() {
    let runs = Rc::new(Cell::new(0));
    let runs2 = runs.clone();
    let mut sig = None;
    let root = create_root(|| {
        let value = create_signal(1);
        sig = Some(value);
        create_effect(move || {
            runs2.set(runs2.get() + 1);
            let _v: View = view! { Price(value=*value) };
        });
    });
    root.run_in(|| sig.unwrap().set(2));
    assert_eq!(runs.get(), 1);
}

/// An effect of the application root renders an HTML snippet with render_to_string (which runs
/// in the thread's SSR root). The component body reads a signal of the application.
#[test]
fn component_body_read_under_ssr_root_subscribes_app_effect() {
    let runs = Rc::new(Cell::new(0));
    let runs2 = runs.clone();
    let html = Rc::new(std::cell::RefCell::new(String::new()));
    let html2 = html.clone();
    let mut sig = None;
    let root = create_root(|| {
        let value = create_signal(1);
        sig = Some(value);
        create_effect(move || {
            runs2.set(runs2.get() + 1);
            *html2.borrow_mut() = render_to_string(move || view! { Price(value=*value) });
        });
    });
    println!("html = {}", html.borrow());
    assert_eq!(runs.get(), 1);
    root.run_in(|| sig.unwrap().set(2));
    println!("effect runs after write = {}", runs.get());
    assert_eq!(runs.get(), 1, "component body read subscribed the effect");
}

/// A component that inlines a pre-rendered snippet: render_to_string called while a
/// render_to_string is already running on this thread (same SSR root, disposed while in use).
#[test]
fn nested_render_to_string() {
    #[component]
    fn Snippet() -> View {
        let html = render_to_string(|| view! { b { "inner" } });
        view! { p { (html.clone()) } span { "after" } }
    }
    let out = render_to_string(|| view! { div { Snippet {} } });
    println!("{out}");
    let again = render_to_string(|| view! { i { "again" } });
    println!("{again}");
}
