//! Auditor L: random histories over several roots, checked against structural invariants and a
//! small model of "which reads subscribe".
//!
//! Needs `--features verif` (read-only observation hooks).
//!
//! Environment switches (all default off = only operations that are not already known to fail):
//!   AUDL_FOREIGN_UNTRACK=1   allow untrack(..) / cleanup reads / while another root is current
//!   AUDL_XREAD=1             allow tracked reads of signals of another root
//!   AUDL_XBATCH=1            allow batch bodies that touch another root
//!   AUDL_ROOTDISPOSE=1       allow RootHandle::dispose from inside computations
//!   AUDL_SEEDS=n             number of seeds (default 300)

use std::cell::{Cell, RefCell};
use std::collections::{BTreeMap, BTreeSet};
use std::panic::{catch_unwind, AssertUnwindSafe};

use sycamore_reactive::verif;
use sycamore_reactive::*;

// ------------------------------------------------------------------------------------------ rng
#[derive(Clone)]
struct Rng(u64);
impl Rng {
    fn next(&mut self) -> u64 {
        self.0 ^= self.0 << 13;
        self.0 ^= self.0 >> 7;
        self.0 ^= self.0 << 17;
        self.0
    }
    fn below(&mut self, n: usize) -> usize {
        (self.next() % n as u64) as usize
    }
}

// -------------------------------------------------------------------------------------- actions
#[derive(Clone, Debug)]
enum Act {
    Read { r: usize, k: usize },
    UntrackRead { r: usize, k: usize },
    GetUntracked { r: usize, k: usize },
    Write { r: usize, k: usize },
    NewSignal,
    NewScope { body: Vec<Act>, cleanup: Vec<Act> },
    OnCleanup { body: Vec<Act> },
    RunIn { r: usize, k: usize, body: Vec<Act> },
    RootRunIn { r: usize, body: Vec<Act> },
    DisposeScope { r: usize, k: usize },
    DisposeChildren { r: usize, k: usize },
    DisposeSignal { r: usize, k: usize },
    Batch { body: Vec<Act> },
    NewEffect { body: Vec<Act> },
    NewMemo { body: Vec<Act> },
    CheckCtx,
    ProvideCtx,
    RootDispose { r: usize },
}

#[derive(Clone, Copy)]
struct Flags {
    foreign_untrack: bool,
    xread: bool,
    xbatch: bool,
    rootdispose: bool,
}

fn flag(name: &str) -> bool {
    std::env::var(name).map(|v| v == "1").unwrap_or(false)
}

const NROOTS: usize = 3;

/// `home`: the root that is current where the action list will run. `foreign_ctx`: whether we are
/// (possibly) nested inside a computation of a different root. `in_batch`: inside a batch body.
fn gen(rng: &mut Rng, depth: usize, home: usize, st: GenState, fl: Flags) -> Vec<Act> {
    let n = 1 + rng.below(4);
    let mut v = Vec::new();
    for _ in 0..n {
        let r_any = rng.below(NROOTS);
        let k = rng.below(8);
        let choice = rng.below(if depth == 0 { 9 } else { 19 });
        // which root may reads refer to?
        let read_root = if fl.xread { r_any } else { st.comp_root.unwrap_or(home) };
        let a = match choice {
            0 | 1 => {
                // A tracked read only makes sense w.r.t. the running computation's root; when the
                // current root differs from the running computation's root this is still a read of
                // the computation's own root signal.
                Act::Read { r: read_root, k }
            }
            2 => {
                // untrack(..) uses the *current* root: only equal to the computation's root when
                // home == comp_root.
                let ok = fl.foreign_untrack || st.comp_root.map_or(true, |c| c == home);
                if ok {
                    Act::UntrackRead { r: read_root, k }
                } else {
                    Act::GetUntracked { r: r_any, k }
                }
            }
            3 => Act::GetUntracked { r: r_any, k },
            4 | 5 => {
                let r = if st.in_batch && !fl.xbatch { home } else { r_any };
                Act::Write { r, k }
            }
            6 => Act::NewSignal,
            7 => Act::CheckCtx,
            8 => Act::DisposeSignal { r: r_any, k },
            9 => {
                let mut st2 = st.clone();
                st2.in_cleanup_of.push(home);
                Act::NewScope {
                    body: gen(rng, depth - 1, home, st.clone(), fl),
                    cleanup: gen_cleanup(rng, depth - 1, home, st2, fl),
                }
            }
            10 => {
                let mut st2 = st.clone();
                st2.in_cleanup_of.push(home);
                Act::OnCleanup { body: gen_cleanup(rng, depth - 1, home, st2, fl) }
            }
            11 => {
                if st.in_batch && !fl.xbatch {
                    Act::NewSignal
                } else {
                    let mut st2 = st.clone();
                    st2.roots_on_stack.insert(r_any);
                    Act::RunIn { r: r_any, k, body: gen(rng, depth - 1, r_any, st2, fl) }
                }
            }
            12 => {
                if st.in_batch && !fl.xbatch {
                    Act::NewSignal
                } else {
                    let mut st2 = st.clone();
                    st2.roots_on_stack.insert(r_any);
                    Act::RootRunIn { r: r_any, body: gen(rng, depth - 1, r_any, st2, fl) }
                }
            }
            13 => Act::DisposeScope { r: r_any, k },
            14 => Act::DisposeChildren { r: r_any, k },
            15 => {
                let mut st2 = st.clone();
                st2.in_batch = true;
                Act::Batch { body: gen(rng, depth - 1, home, st2, fl) }
            }
            16 => {
                let mut st2 = st.clone();
                st2.comp_root = Some(home);
                Act::NewEffect { body: gen(rng, depth - 1, home, st2, fl) }
            }
            17 => {
                if rng.below(3) == 0 {
                    let mut st2 = st.clone();
                    st2.comp_root = Some(home);
                    Act::NewMemo { body: gen(rng, depth - 1, home, st2, fl) }
                } else {
                    Act::ProvideCtx
                }
            }
            18 => {
                if fl.rootdispose && rng.below(4) == 0 {
                    Act::RootDispose { r: r_any }
                } else {
                    Act::CheckCtx
                }
            }
            _ => unreachable!(),
        };
        v.push(a);
    }
    v
}

/// Cleanup callbacks can run in any dynamic context (whoever disposes the scope): unless the
/// foreign_untrack switch is on, they do not read with tracking at all.
fn gen_cleanup(rng: &mut Rng, depth: usize, home: usize, st: GenState, fl: Flags) -> Vec<Act> {
    let mut st = st;
    st.comp_root = None;
    let mut v = gen(rng, depth.min(1), home, st, fl);
    if !fl.foreign_untrack {
        for a in v.iter_mut() {
            strip_tracked_reads(a);
        }
    }
    v
}

fn strip_tracked_reads(a: &mut Act) {
    match a {
        Act::Read { r, k } | Act::UntrackRead { r, k } => *a = Act::GetUntracked { r: *r, k: *k },
        Act::NewScope { body, cleanup } => {
            body.iter_mut().for_each(strip_tracked_reads);
            cleanup.iter_mut().for_each(strip_tracked_reads);
        }
        Act::OnCleanup { body }
        | Act::RunIn { body, .. }
        | Act::RootRunIn { body, .. }
        | Act::Batch { body } => body.iter_mut().for_each(strip_tracked_reads),
        // computations created by a cleanup have their own tracker
        _ => {}
    }
}

#[derive(Clone, Default)]
struct GenState {
    /// root of the innermost computation whose body we are generating (None = top level/cleanup)
    comp_root: Option<usize>,
    in_batch: bool,
    in_cleanup_of: Vec<usize>,
    roots_on_stack: BTreeSet<usize>,
}

// ---------------------------------------------------------------------------------------- world
#[derive(Clone, Copy, Debug)]
struct RootTag(usize);

struct RootCtx {
    handle: RootHandle,
    signals: Vec<Signal<i32>>,
    scopes: Vec<NodeHandle>,
}

#[derive(Debug)]
enum Frame {
    Comp { uid: usize, root: usize, reads: Vec<(usize, u64)> },
    NoTrack,
}

#[derive(Default)]
struct World {
    roots: Vec<RootCtx>,
    frames: Vec<Frame>,
    /// uid -> (root, node id, expected subscriptions (root, signal id))
    comps: BTreeMap<usize, (usize, u64, Vec<(usize, u64)>)>,
    next_uid: usize,
    cleanup_runs: BTreeMap<usize, usize>,
    next_cleanup: usize,
    reruns: usize,
    reruns_by_root: [usize; NROOTS],
    top_batch_root: usize,
    final_phase: bool,
    fuel: usize,
    errors: Vec<String>,
    top_batch_depth: usize,
    reruns_at_top_batch_start: usize,
    epoch: Vec<usize>,
}

thread_local! {
    static W: RefCell<World> = RefCell::new(World::default());
    static FL: Cell<Option<Flags>> = const { Cell::new(None) };
}

fn w<T>(f: impl FnOnce(&mut World) -> T) -> T {
    W.with(|w| f(&mut w.borrow_mut()))
}
fn err(s: String) {
    w(|w| {
        // in the final phase the RootTag contexts are gone: context based checks are meaningless
        if w.final_phase && (s.starts_with("context lookup") || s.starts_with("current root")) {
            return;
        }
        w.errors.push(s)
    });
}

fn pick_signal(r: usize, k: usize) -> Option<Signal<i32>> {
    w(|w| {
        let s = &w.roots[r].signals;
        if s.is_empty() {
            None
        } else {
            Some(s[k % s.len()])
        }
    })
    .filter(|s| s.is_alive())
}
fn pick_scope(r: usize, k: usize) -> Option<NodeHandle> {
    w(|w| {
        let s = &w.roots[r].scopes;
        if s.is_empty() {
            None
        } else {
            Some(s[k % s.len()])
        }
    })
}

fn record_read(r: usize, s: Signal<i32>) {
    let id = verif::signal_id(*s);
    w(|w| {
        if let Some(Frame::Comp { reads, .. }) = w.frames.last_mut() {
            reads.push((r, id));
        }
    });
}

fn with_frame<T>(fr: Frame, f: impl FnOnce() -> T) -> (T, Frame) {
    w(|w| w.frames.push(fr));
    let t = f();
    let fr = w(|w| w.frames.pop().unwrap());
    (t, fr)
}

fn comp_body(uid: usize, home: usize, body: &[Act], first: &Cell<bool>) {
    let epoch = w(|w| w.epoch[home]);
    if !first.get() {
        w(|w| {
            w.reruns += 1;
            w.reruns_by_root[home] += 1;
        });
    }
    let was_first = first.replace(false);
    let me = use_current_scope();
    if !verif::handle_is_alive(me) && !was_first {
        err(format!("computation {uid} of root {home} runs while its node is not alive"));
    }
    let my_id = verif::handle_id(me);
    let (_, fr) = with_frame(Frame::Comp { uid, root: home, reads: vec![] }, || run(body, home));
    if let Frame::Comp { reads, .. } = fr {
        w(|w| {
            // a root disposal during the run: the computation is gone anyway
            if w.epoch[home] == epoch {
                w.comps.insert(uid, (home, my_id, reads));
            } else {
                w.comps.remove(&uid);
            }
        });
    }
}

fn run(acts: &[Act], home: usize) {
    for a in acts {
        exec(a, home);
    }
}

fn exec(a: &Act, home: usize) {
    match a {
        Act::Read { r, k } => {
            if let Some(s) = pick_signal(*r, *k) {
                record_read(*r, s);
                let _ = s.get();
            }
        }
        Act::UntrackRead { r, k } => {
            if let Some(s) = pick_signal(*r, *k) {
                untrack(|| {
                    let _ = s.get();
                });
            }
        }
        Act::GetUntracked { r, k } => {
            if let Some(s) = pick_signal(*r, *k) {
                let _ = s.get_untracked();
            }
        }
        Act::Write { r, k } => {
            let ok = w(|w| {
                if w.fuel == 0 {
                    false
                } else {
                    w.fuel -= 1;
                    true
                }
            });
            if !ok {
                return;
            }
            if let Some(s) = pick_signal(*r, *k) {
                s.set(s.get_untracked() + 1);
            }
        }
        Act::NewSignal => {
            let s = create_signal(0);
            w(|w| w.roots[home].signals.push(s));
        }
        Act::NewScope { body, cleanup } => {
            let cleanup = cleanup.clone();
            let h = create_child_scope(|| {
                reg_cleanup(cleanup, home);
                run(body, home);
            });
            w(|w| w.roots[home].scopes.push(h));
        }
        Act::OnCleanup { body } => reg_cleanup(body.clone(), home),
        Act::RunIn { r, k, body } => {
            if let Some(h) = pick_scope(*r, *k) {
                h.run_in(|| run(body, *r));
                check_current_root(home, "after NodeHandle::run_in");
            }
        }
        Act::RootRunIn { r, body } => {
            let h = w(|w| w.roots[*r].handle);
            h.run_in(|| run(body, *r));
            check_current_root(home, "after RootHandle::run_in");
        }
        Act::DisposeScope { r, k } => {
            if let Some(h) = pick_scope(*r, *k) {
                h.dispose();
                check_current_root(home, "after NodeHandle::dispose");
            }
        }
        Act::DisposeChildren { r, k } => {
            if let Some(h) = pick_scope(*r, *k) {
                h.dispose_children();
                check_current_root(home, "after NodeHandle::dispose_children");
            }
        }
        Act::DisposeSignal { r, k } => {
            if let Some(s) = pick_signal(*r, *k) {
                s.dispose();
                check_current_root(home, "after Signal::dispose");
            }
        }
        Act::Batch { body } => {
            let top = w(|w| {
                let top = w.frames.is_empty() && w.top_batch_depth == 0;
                if top {
                    let xb = FL.with(|f| f.get()).map_or(false, |f| f.xbatch);
                    w.top_batch_root = home;
                    w.reruns_at_top_batch_start = if xb { w.reruns } else { w.reruns_by_root[home] };
                }
                w.top_batch_depth += 1;
                top
            });
            batch(|| {
                run(body, home);
                if top {
                    w(|w| {
                        let xb = FL.with(|f| f.get()).map_or(false, |f| f.xbatch);
                        let now = if xb { w.reruns } else { w.reruns_by_root[home] };
                        if now != w.reruns_at_top_batch_start {
                            w.errors.push(format!(
                                "{} computation re-runs happened inside a top-level batch body",
                                now - w.reruns_at_top_batch_start
                            ));
                        }
                    });
                }
            });
            w(|w| w.top_batch_depth -= 1);
        }
        Act::NewEffect { body } => {
            let uid = w(|w| {
                w.next_uid += 1;
                w.next_uid
            });
            let body = body.clone();
            let first = Cell::new(true);
            create_effect(move || comp_body(uid, home, &body, &first));
        }
        Act::NewMemo { body } => {
            let uid = w(|w| {
                w.next_uid += 1;
                w.next_uid
            });
            let body = body.clone();
            let first = Cell::new(true);
            let m = create_memo(move || {
                comp_body(uid, home, &body, &first);
                0
            });
            // writable handle is not available for memos: keep it readable through a derived signal
            let _ = m;
        }
        Act::CheckCtx => {
            // The root scope of root i provides RootTag(i): lexical lookup must find the tag of
            // the current root, as long as the current scope is alive.
            let cur = use_current_scope();
            let alive = verif::handle_is_alive(cur);
            let got = try_use_context::<RootTag>().map(|t| t.0);
            // (while a root is being re-initialised, live scopes are orphans for a moment)
            let rd = FL.with(|f| f.get()).map_or(false, |f| f.rootdispose);
            if alive && got != Some(home) && !(rd && got.is_none()) {
                let mut chain = vec![];
                if std::env::var("AUDL_TRACE").is_ok() {
                    let snap = verif::snapshot();
                    let mut id = Some(verif::handle_id(cur));
                    while let Some(i) = id {
                        let n = snap.iter().find(|n| n.id == i);
                        chain.push((i, n.map(|n| (n.contexts, n.has_callback))));
                        id = n.and_then(|n| n.parent);
                    }
                    let root = verif::handle_id(use_global_scope());
                    println!("CTX FAIL home {home} chain {chain:?} root scope {root} frames {:?}", w(|w| format!("{:?}", w.frames)));
                }
                err(format!("context lookup in root {home} gave {got:?}"));
            }
        }
        Act::ProvideCtx => {
            #[derive(Clone)]
            struct Local(#[allow(dead_code)] usize);
            if try_use_context_here::<Local>() {
                return;
            }
            provide_context(Local(home));
        }
        Act::RootDispose { r } => {
            let h = w(|w| w.roots[*r].handle);
            w(|w| {
                w.epoch[*r] += 1;
                w.roots[*r].signals.clear();
                w.roots[*r].scopes.clear();
            });
            h.dispose();
            h.run_in(|| provide_context(RootTag(*r)));
            check_current_root(home, "after RootHandle::dispose");
        }
    }
}

/// provide_context panics when the type is already provided in this very scope; we cannot ask for
/// "this scope only", so use a fresh child scope probe: if the lookup finds one at all we skip.
fn try_use_context_here<T: Clone + 'static>() -> bool {
    try_use_context::<T>().is_some()
}

fn reg_cleanup(body: Vec<Act>, home: usize) {
    let id = w(|w| {
        w.next_cleanup += 1;
        w.next_cleanup
    });
    // Only count cleanups that were really registered (scope alive).
    let alive = verif::handle_is_alive(use_current_scope());
    if alive {
        w(|w| {
            w.cleanup_runs.insert(id, 0);
        });
    }
    on_cleanup(move || {
        let n = w(|w| {
            let e = w.cleanup_runs.entry(id).or_insert(0);
            *e += 1;
            *e
        });
        if n > 1 {
            err(format!("cleanup {id} ran {n} times"));
        }
        check_current_root(home, "inside cleanup");
        with_frame(Frame::NoTrack, || run(&body, home));
    });
}

/// The current root must be `home`: observable through the RootTag of the global scope.
fn check_current_root(home: usize, what: &str) {
    let got = use_global_scope().run_in(|| try_use_context::<RootTag>().map(|t| t.0));
    // While a root is being re-initialised its root scope (and the tag) is gone for a moment.
    let rd = FL.with(|f| f.get()).map_or(false, |f| f.rootdispose);
    if got != Some(home) && !(rd && got.is_none()) {
        err(format!("current root {what}: expected {home}, got {got:?}"));
    }
}

// ----------------------------------------------------------------------------------- invariants
fn check_invariants(tag: &str) {
    // 1. no root is current at top level
    let r = catch_unwind(AssertUnwindSafe(|| {
        let _ = use_current_scope();
    }));
    if r.is_ok() {
        err(format!("[{tag}] a root is still current at top level"));
    }
    for i in 0..NROOTS {
        let h = w(|w| w.roots[i].handle);
        h.run_in(|| {
            // 2. current scope of the root is its root scope
            let cur = verif::handle_id(use_current_scope());
            let glob = verif::handle_id(use_global_scope());
            if cur != glob {
                err(format!("[{tag}] root {i}: current scope {cur} != root scope {glob}"));
            }
            if !verif::handle_is_alive(use_global_scope()) {
                err(format!("[{tag}] root {i}: root scope is dead"));
            }
            // 3. structure
            let snap = verif::snapshot();
            let ids: BTreeSet<u64> = snap.iter().map(|n| n.id).collect();
            let by: BTreeMap<u64, &verif::NodeInfo> = snap.iter().map(|n| (n.id, n)).collect();
            // reachability
            let mut seen = BTreeSet::new();
            let mut stack = vec![glob];
            while let Some(x) = stack.pop() {
                if !seen.insert(x) {
                    continue;
                }
                if let Some(n) = by.get(&x) {
                    for c in &n.children {
                        stack.push(*c);
                    }
                }
            }
            let live: BTreeSet<u64> = seen.intersection(&ids).cloned().collect();
            if live.len() != ids.len() {
                err(format!(
                    "[{tag}] root {i}: {} live nodes but only {} owned by live scopes (leak)",
                    ids.len(),
                    live.len()
                ));
            }
            for n in &snap {
                for d in &n.dependencies {
                    match by.get(d) {
                        None => err(format!("[{tag}] root {i}: node {} depends on dead {d}", n.id)),
                        Some(dn) => {
                            if !dn.dependents.contains(&n.id) {
                                err(format!("[{tag}] root {i}: asymmetric link {} -> {d}", n.id));
                            }
                        }
                    }
                }
                for d in &n.dependents {
                    match by.get(d) {
                        None => err(format!(
                            "[{tag}] root {i}: signal {} retains dead subscriber {d}",
                            n.id
                        )),
                        Some(dn) => {
                            if !dn.dependencies.contains(&n.id) {
                                err(format!("[{tag}] root {i}: asymmetric link {d} <- {}", n.id));
                            }
                        }
                    }
                }
                if n.dirty && n.has_callback {
                    err(format!("[{tag}] root {i}: computation {} left dirty", n.id));
                }
                if n.has_callback && !n.has_value {
                    err(format!("[{tag}] root {i}: computation {} has no value", n.id));
                }
            }
            // 4. subscriptions == model
            let comps: Vec<(usize, (usize, u64, Vec<(usize, u64)>))> =
                w(|w| w.comps.iter().map(|(k, v)| (*k, v.clone())).collect());
            for (uid, (root, node, reads)) in comps {
                if root != i {
                    continue;
                }
                let Some(n) = by.get(&node) else { continue };
                let actual: BTreeSet<u64> = n.dependencies.iter().cloned().collect();
                let expected: BTreeSet<u64> = reads
                    .iter()
                    .filter(|(r, id)| *r == i && ids.contains(id))
                    .map(|(_, id)| *id)
                    .collect();
                if actual != expected {
                    err(format!(
                        "[{tag}] root {i}: computation uid {uid} (node {node}) subscribed to {actual:?}, tracked reads of its last run: {expected:?} (all reads incl. foreign: {reads:?})"
                    ));
                }
            }
        });
    }
}

fn run_seed(seed: u64, fl: Flags) -> Vec<String> {
    W.with(|w| *w.borrow_mut() = World::default());
    FL.with(|f| f.set(Some(fl)));
    let mut rng = Rng(seed.wrapping_mul(0x9E3779B97F4A7C15) | 1);
    for i in 0..NROOTS {
        let h = create_root(move || provide_context(RootTag(i)));
        let scope = h.run_in(|| create_child_scope(|| {}));
        w(|w| {
            w.roots.push(RootCtx { handle: h, signals: vec![], scopes: vec![scope] });
            w.epoch.push(0);
        });
        h.run_in(|| {
            for _ in 0..2 {
                let s = create_signal(0);
                w(|w| w.roots[i].signals.push(s));
            }
        });
    }
    let steps = 12;
    let res = catch_unwind(AssertUnwindSafe(|| {
        for step in 0..steps {
            let home = rng.below(NROOTS);
            let acts = gen(&mut rng, 3, home, GenState::default(), fl);
            w(|w| w.fuel = 30);
            let h = w(|w| w.roots[home].handle);
            if std::env::var("AUDL_TRACE").is_ok() {
                println!("STEP {step} root {home}: {acts:?}");
            }
            h.run_in(|| run(&acts, home));
            check_invariants(&format!("seed {seed} step {step}"));
            if w(|w| !w.errors.is_empty()) {
                w(|w| w.errors.push(format!("   last top-level actions (root {home}): {acts:?}")));
                break;
            }
        }
    }));
    if let Err(e) = res {
        let msg = e
            .downcast_ref::<String>()
            .cloned()
            .or_else(|| e.downcast_ref::<&str>().map(|s| s.to_string()))
            .unwrap_or_default();
        err(format!("seed {seed}: PANIC {msg}"));
        // the thread-local current root may be left set by the unwinding
        return w(|w| std::mem::take(&mut w.errors));
    }
    if w(|w| w.errors.is_empty()) {
        // final: dispose everything, every registered cleanup ran exactly once
        w(|w| w.final_phase = true);
        let r = catch_unwind(AssertUnwindSafe(|| {
            for i in 0..NROOTS {
                let h = w(|w| w.roots[i].handle);
                w(|w| w.fuel = 30);
                h.dispose();
            }
            // cleanups may have registered into other roots: dispose once more
            for i in 0..NROOTS {
                let h = w(|w| w.roots[i].handle);
                h.dispose();
            }
        }));
        if r.is_err() {
            err(format!("seed {seed}: PANIC in final disposal"));
        }
        w(|w| {
            let bad: Vec<_> =
                w.cleanup_runs.iter().filter(|(_, n)| **n != 1).map(|(k, n)| (*k, *n)).collect();
            if !bad.is_empty() {
                w.errors.push(format!("seed {seed}: cleanups not run exactly once: {bad:?}"));
            }
        });
    }
    w(|w| std::mem::take(&mut w.errors))
}

#[test]
fn fuzz_multi_root() {
    let fl = Flags {
        foreign_untrack: flag("AUDL_FOREIGN_UNTRACK"),
        xread: flag("AUDL_XREAD"),
        xbatch: flag("AUDL_XBATCH"),
        rootdispose: flag("AUDL_ROOTDISPOSE"),
    };
    let seeds: u64 = std::env::var("AUDL_SEEDS").ok().and_then(|s| s.parse().ok()).unwrap_or(300);
    let only: Option<u64> = std::env::var("AUDL_ONLY").ok().and_then(|s| s.parse().ok());
    std::panic::set_hook(Box::new(|_| {}));
    let mut failing = 0;
    let mut kinds: BTreeMap<String, (usize, u64)> = BTreeMap::new();
    for seed in 1..=seeds {
        if only.map_or(false, |o| o != seed) {
            continue;
        }
        // each seed in its own thread: a panic may leave the thread-local current root dirty
        let errs = std::thread::spawn(move || run_seed(seed, fl)).join().unwrap_or_else(|_| vec![format!("seed {seed}: thread died")]);
        if !errs.is_empty() {
            failing += 1;
            if failing <= 6 || only.is_some() {
                println!("---- seed {seed}");
                for e in errs.iter().take(8) {
                    println!("  {e}");
                }
            }
            // classify by first error with numbers stripped
            let key: String = errs[0].chars().filter(|c| !c.is_ascii_digit()).take(90).collect();
            let e = kinds.entry(key).or_insert((0, seed));
            e.0 += 1;
        }
    }
    println!("==== {failing} failing seeds of {seeds}");
    for (k, (n, s)) in &kinds {
        println!("{n:5} x (first seed {s}) {k}");
    }
    assert_eq!(failing, 0);
}
