//! Auditor L probes: several reactive roots alive on one thread.
//! Every test prints what it observed; assertions encode the EXPECTED behaviour according to the
//! property texts, so a failing test = a violation.

use std::cell::{Cell, RefCell};
use std::rc::Rc;

use sycamore_reactive::*;

fn counter() -> (Rc<Cell<i32>>, Rc<Cell<i32>>) {
    let c = Rc::new(Cell::new(0));
    (c.clone(), c)
}

/// Creates a root, and returns the root handle + a handle to its root scope.
fn mk_root() -> (RootHandle, NodeHandle) {
    let mut h = None;
    let r = create_root(|| h = Some(use_global_scope()));
    (r, h.unwrap())
}

// ---------------------------------------------------------------------------------------------
// C03: untrack with another root current.
// ---------------------------------------------------------------------------------------------

/// E_A is an effect of A. In its body, a closure is run in a scope of B (NodeHandle::run_in) and
/// that closure reads a signal of A inside `untrack`.
#[test]
fn c03_untrack_under_foreign_root_via_run_in() {
    let (ra, _ha) = mk_root();
    let (_rb, hb) = mk_root();
    let (runs, runs2) = counter();
    let s_a = ra.run_in(|| create_signal(0));
    ra.run_in(|| {
        create_effect(move || {
            runs2.set(runs2.get() + 1);
            hb.run_in(|| {
                untrack(|| {
                    let _ = s_a.get();
                });
            });
        });
    });
    assert_eq!(runs.get(), 1);
    s_a.set(1);
    println!("runs after write = {}", runs.get());
    assert_eq!(runs.get(), 1, "read inside untrack subscribed the effect");
}

/// Same, but the foreign root becomes current because E_A writes a signal of B, which runs an
/// effect E_B of B; E_B reads a signal of A inside `untrack`.
#[test]
fn c03_untrack_in_foreign_effect_nested_in_my_run() {
    let (ra, _ha) = mk_root();
    let (rb, _hb) = mk_root();
    let (runs, runs2) = counter();
    let s_a = ra.run_in(|| create_signal(0));
    let t_a = ra.run_in(|| create_signal(0));
    let s_b = rb.run_in(|| create_signal(0));
    rb.run_in(|| {
        create_effect(move || {
            s_b.track();
            untrack(|| {
                let _ = s_a.get();
            });
        });
    });
    ra.run_in(|| {
        create_effect(move || {
            runs2.set(runs2.get() + 1);
            t_a.track();
            s_b.set(s_b.get_untracked() + 1); // runs E_B nested
        });
    });
    assert_eq!(runs.get(), 1);
    s_a.set(1);
    println!("runs after write = {}", runs.get());
    assert_eq!(runs.get(), 1, "read inside untrack (in E_B) subscribed E_A");
}

/// get_untracked / with_untracked are fine (control).
#[test]
fn c03_get_untracked_under_foreign_root_control() {
    let (ra, _ha) = mk_root();
    let (_rb, hb) = mk_root();
    let (runs, runs2) = counter();
    let s_a = ra.run_in(|| create_signal(0));
    ra.run_in(|| {
        create_effect(move || {
            runs2.set(runs2.get() + 1);
            hb.run_in(|| {
                let _ = s_a.get_untracked();
            });
        });
    });
    s_a.set(1);
    assert_eq!(runs.get(), 1);
}

// ---------------------------------------------------------------------------------------------
// C03 / C04: cleanup callbacks of a foreign scope run tracked.
// ---------------------------------------------------------------------------------------------

/// E_A disposes a scope of B. The cleanup callback of that scope reads a signal of A.
#[test]
fn c03_c04_foreign_cleanup_runs_tracked() {
    let (ra, _ha) = mk_root();
    let (rb, _hb) = mk_root();
    let (runs, runs2) = counter();
    let s_a = ra.run_in(|| create_signal(0));
    let trigger = ra.run_in(|| create_signal(0));
    let scope_b: Rc<RefCell<Option<NodeHandle>>> = Default::default();
    let scope_b2 = scope_b.clone();
    ra.run_in(|| {
        create_effect(move || {
            runs2.set(runs2.get() + 1);
            trigger.track();
            // (re)create the widget living in the other root
            if let Some(old) = scope_b2.borrow_mut().take() {
                old.dispose(); // cleanup below runs here, inside E_A's run
            }
            let new = rb.run_in(|| {
                create_child_scope(move || {
                    on_cleanup(move || {
                        let _ = s_a.get(); // read in a cleanup callback
                    });
                })
            });
            *scope_b2.borrow_mut() = Some(new);
        });
    });
    assert_eq!(runs.get(), 1);
    trigger.set(1); // re-run: disposes the scope of B, cleanup reads s_a
    assert_eq!(runs.get(), 2);
    s_a.set(1);
    println!("runs after write to s_a = {}", runs.get());
    assert_eq!(runs.get(), 2, "read inside a cleanup callback subscribed E_A");
}

/// Same with RootHandle::dispose of B from inside E_A.
#[test]
fn c03_c04_foreign_root_dispose_cleanup_runs_tracked() {
    let (ra, _ha) = mk_root();
    let (rb, _hb) = mk_root();
    let (runs, runs2) = counter();
    let s_a = ra.run_in(|| create_signal(0));
    let trigger = ra.run_in(|| create_signal(0));
    ra.run_in(|| {
        create_effect(move || {
            runs2.set(runs2.get() + 1);
            trigger.track();
            rb.dispose();
            rb.run_in(|| {
                on_cleanup(move || {
                    let _ = s_a.get();
                });
            });
        });
    });
    trigger.set(1);
    assert_eq!(runs.get(), 2);
    s_a.set(1);
    println!("runs after write to s_a = {}", runs.get());
    assert_eq!(runs.get(), 2, "read inside a cleanup callback subscribed E_A");
}

// ---------------------------------------------------------------------------------------------
// C03: on(..) callback
// ---------------------------------------------------------------------------------------------

/// An `on(..)` closure of A invoked while B is current.
#[test]
fn c03_on_callback_under_foreign_root() {
    let (ra, _ha) = mk_root();
    let (_rb, hb) = mk_root();
    let (runs, runs2) = counter();
    let dep = ra.run_in(|| create_signal(0));
    let other = ra.run_in(|| create_signal(0));
    ra.run_in(|| {
        let mut f = on(dep, move || {
            let _ = other.get();
        });
        create_effect(move || {
            runs2.set(runs2.get() + 1);
            hb.run_in(&mut f);
        });
    });
    dep.set(1);
    assert_eq!(runs.get(), 2);
    other.set(1);
    println!("runs = {}", runs.get());
    assert_eq!(runs.get(), 2, "read inside on(..) callback subscribed");
}

// ---------------------------------------------------------------------------------------------
// Cross-root tracked reads (what gets subscribed?)
// ---------------------------------------------------------------------------------------------

/// Effect of B reads a signal of A with tracking: reported under (B).
#[test]
fn xroot_tracked_read_plain() {
    let (ra, _ha) = mk_root();
    let (rb, _hb) = mk_root();
    let (runs, runs2) = counter();
    let s_a = ra.run_in(|| create_signal(0));
    rb.run_in(|| {
        create_effect(move || {
            runs2.set(runs2.get() + 1);
            let _ = s_a.get();
        });
    });
    s_a.set(1);
    println!("E_B runs after write to s_a: {} (1 = no cross-root subscription)", runs.get());
}

/// E_A writes s_b, E_B (nested) reads t_a with tracking. Who is subscribed to t_a?
#[test]
fn xroot_tracked_read_leaks_into_outer_computation() {
    let (ra, _ha) = mk_root();
    let (rb, _hb) = mk_root();
    let (runs_a, runs_a2) = counter();
    let (runs_b, runs_b2) = counter();
    let t_a = ra.run_in(|| create_signal(0));
    let s_b = rb.run_in(|| create_signal(0));
    rb.run_in(|| {
        create_effect(move || {
            runs_b2.set(runs_b2.get() + 1);
            s_b.track();
            let _ = t_a.get(); // tracked read of the other root's signal
        });
    });
    ra.run_in(|| {
        create_effect(move || {
            runs_a2.set(runs_a2.get() + 1);
            s_b.set(s_b.get_untracked() + 1);
        });
    });
    let (a0, b0) = (runs_a.get(), runs_b.get());
    t_a.set(1);
    println!(
        "after t_a.set: E_A ran {} more times, E_B ran {} more times",
        runs_a.get() - a0,
        runs_b.get() - b0
    );
    assert_eq!(runs_a.get() - a0, 0, "E_A never read t_a but was subscribed to it");
}

// ---------------------------------------------------------------------------------------------
// C10: batch across roots
// ---------------------------------------------------------------------------------------------

#[test]
fn c10_batch_in_b_writing_a() {
    let (ra, _ha) = mk_root();
    let (rb, _hb) = mk_root();
    let (runs, runs2) = counter();
    let s_a = ra.run_in(|| create_signal(1));
    let double = ra.run_in(|| create_memo(move || s_a.get() * 2));
    ra.run_in(|| {
        create_effect(move || {
            s_a.track();
            runs2.set(runs2.get() + 1);
        })
    });
    let mut seen_inside = (0, 0);
    rb.run_in(|| {
        batch(|| {
            s_a.set(2);
            s_a.set(3);
            seen_inside = (double.get_untracked(), runs.get());
        })
    });
    println!("inside batch: double={}, effect runs={}", seen_inside.0, seen_inside.1);
    assert_eq!(seen_inside, (2, 1), "memo/effect ran inside batch");
    assert_eq!(double.get_untracked(), 6);
    assert_eq!(runs.get(), 2);
}

/// A handler of app A (scope.run_in) batches writes to a signal of A and a signal of B.
#[test]
fn c10_batch_in_a_writing_a_and_b() {
    let (ra, ha) = mk_root();
    let (rb, _hb) = mk_root();
    let (runs, runs2) = counter();
    let s_a = ra.run_in(|| create_signal(1));
    let s_b = rb.run_in(|| create_signal(1));
    // an effect of B reading both a B signal and (untracked) the A signal: must see consistent
    // state, i.e. after the batch.
    let log: Rc<RefCell<Vec<(i32, i32)>>> = Default::default();
    let log2 = log.clone();
    rb.run_in(|| {
        create_effect(move || {
            runs2.set(runs2.get() + 1);
            log2.borrow_mut().push((s_b.get(), s_a.get_untracked()));
        })
    });
    ha.run_in(|| {
        batch(|| {
            s_b.set(2);
            s_a.set(2);
        })
    });
    println!("log = {:?}", log.borrow());
    assert_eq!(runs.get(), 2);
    assert_eq!(*log.borrow(), vec![(1, 1), (2, 2)], "effect ran inside the batch");
}

/// nested batch where the inner one is started with another root current
#[test]
fn c10_nested_batch_other_root() {
    let (ra, _ha) = mk_root();
    let (rb, _hb) = mk_root();
    let (runs, runs2) = counter();
    let s_b = rb.run_in(|| create_signal(1));
    rb.run_in(|| {
        create_effect(move || {
            s_b.track();
            runs2.set(runs2.get() + 1);
        })
    });
    let mut inside = 0;
    ra.run_in(|| {
        batch(|| {
            rb.run_in(|| {
                batch(|| {
                    s_b.set(2);
                })
            });
            inside = runs.get();
        })
    });
    println!("effect runs seen inside outer batch after inner batch returned: {}", inside);
    assert_eq!(inside, 1, "inner batch flushed before outermost batch returned");
}

// ---------------------------------------------------------------------------------------------
// C11 / C04: RootHandle::dispose
// ---------------------------------------------------------------------------------------------

/// dispose root A from inside an effect of A that is being re-run by a propagation.
#[test]
fn c11_root_dispose_from_own_effect_rerun() {
    let (ra, _ha) = mk_root();
    let s = ra.run_in(|| create_signal(0));
    ra.run_in(|| {
        create_effect(move || {
            if s.get() == 1 {
                ra.dispose();
            }
        })
    });
    s.set(1);
    // re-use
    let alive = ra.run_in(|| create_signal(5).is_alive());
    assert!(alive, "root unusable after disposal from its own effect");
}

/// dispose root A from an effect of B which runs nested inside an effect of A.
#[test]
fn c11_root_dispose_from_foreign_effect_nested() {
    let (ra, _ha) = mk_root();
    let (rb, _hb) = mk_root();
    let s_a = ra.run_in(|| create_signal(0));
    let s_b = rb.run_in(|| create_signal(0));
    rb.run_in(|| {
        create_effect(move || {
            if s_b.get() == 1 {
                ra.dispose();
            }
        })
    });
    ra.run_in(|| {
        create_effect(move || {
            if s_a.get() == 1 {
                s_b.set(1);
            }
        })
    });
    s_a.set(1);
    let alive = ra.run_in(|| create_signal(5).is_alive());
    assert!(alive, "root A unusable after disposal from B's effect");
}

/// dispose root A from inside NodeHandle::run_in / child scope of A (no propagation).
#[test]
fn c11_root_dispose_inside_run_in() {
    let (ra, ha) = mk_root();
    ha.run_in(|| ra.dispose());
    let alive = ra.run_in(|| create_signal(5).is_alive());
    assert!(alive, "root A unusable after disposal inside run_in of its own scope");
}

#[test]
fn c11_root_dispose_inside_child_scope() {
    let (ra, _ha) = mk_root();
    ra.run_in(|| {
        let _ = create_child_scope(|| ra.dispose());
    });
    let alive = ra.run_in(|| create_signal(5).is_alive());
    assert!(alive, "root A unusable after disposal inside a child scope");
}

#[test]
fn c11_root_dispose_inside_initial_effect_run() {
    let (ra, _ha) = mk_root();
    ra.run_in(|| {
        create_effect(move || ra.dispose());
    });
    let alive = ra.run_in(|| create_signal(5).is_alive());
    assert!(alive, "root A unusable after disposal inside initial effect run");
}

// ---------------------------------------------------------------------------------------------
// C16 contexts
// ---------------------------------------------------------------------------------------------

#[test]
fn c16_contexts_resolve_in_own_root() {
    let (ra, ha) = mk_root();
    let (rb, hb) = mk_root();
    ha.run_in(|| provide_context(1i32));
    hb.run_in(|| provide_context(2i32));
    let s_a = ra.run_in(|| create_signal(0));
    let s_b = rb.run_in(|| create_signal(0));
    let seen: Rc<RefCell<Vec<(char, i32, Option<i32>)>>> = Default::default();
    let seen_a = seen.clone();
    let seen_b = seen.clone();
    ra.run_in(|| {
        create_effect(move || {
            seen_a.borrow_mut().push(('a', s_a.get(), try_use_context::<i32>()));
            // after a nested foreign run, still A?
            if s_a.get_untracked() == 1 {
                s_b.set(1);
                seen_a.borrow_mut().push(('A', 1, try_use_context::<i32>()));
                hb.run_in(|| seen_a.borrow_mut().push(('h', 1, try_use_context::<i32>())));
                seen_a.borrow_mut().push(('A', 2, try_use_context::<i32>()));
            }
        })
    });
    rb.run_in(|| {
        create_effect(move || {
            seen_b.borrow_mut().push(('b', s_b.get(), try_use_context::<i32>()));
        })
    });
    // trigger A's effect from inside B
    hb.run_in(|| s_a.set(1));
    println!("{:?}", seen.borrow());
    for (who, _, ctx) in seen.borrow().iter() {
        match who {
            'a' | 'A' => assert_eq!(*ctx, Some(1)),
            'b' | 'h' => assert_eq!(*ctx, Some(2)),
            _ => unreachable!(),
        }
    }
}

/// Nodes created by A's effect triggered from B are owned by A's effect (disposed on re-run).
#[test]
fn c04_nodes_created_by_a_effect_triggered_from_b() {
    let (ra, _ha) = mk_root();
    let (_rb, hb) = mk_root();
    let s_a = ra.run_in(|| create_signal(0));
    let inner: Rc<RefCell<Vec<Signal<i32>>>> = Default::default();
    let inner2 = inner.clone();
    let (cleanups, cleanups2) = counter();
    ra.run_in(|| {
        create_effect(move || {
            s_a.track();
            inner2.borrow_mut().push(create_signal(1));
            let m = create_memo(move || s_a.get_untracked());
            let _ = m;
            let c = cleanups2.clone();
            on_cleanup(move || c.set(c.get() + 1));
        })
    });
    hb.run_in(|| s_a.set(1));
    hb.run_in(|| batch(|| s_a.set(2)));
    let v = inner.borrow();
    assert_eq!(v.len(), 3);
    assert!(!v[0].is_alive() && !v[1].is_alive() && v[2].is_alive());
    assert_eq!(cleanups.get(), 2);
}

// ---------------------------------------------------------------------------------------------
// C04: re-entrant root disposal (from a cleanup callback) loses the remaining cleanups
// ---------------------------------------------------------------------------------------------

/// Two linked apps: tearing down one tears down the other, and vice versa.
#[test]
fn c04_mutual_root_disposal_loses_cleanups() {
    let (ra, _ha) = mk_root();
    let (rb, _hb) = mk_root();
    let (ran, ran2) = counter();
    ra.run_in(|| {
        // first thing created in A: the link to B
        let _ = create_child_scope(|| on_cleanup(move || rb.dispose()));
        // something else in A that has a cleanup
        let _ = create_child_scope(|| on_cleanup(move || ran2.set(ran2.get() + 1)));
    });
    rb.run_in(|| {
        on_cleanup(move || ra.dispose());
    });
    ra.dispose();
    println!("second cleanup of A ran {} times", ran.get());
    assert_eq!(ran.get(), 1, "a registered cleanup of A never ran");
}

/// Same with one root only: a cleanup callback disposes its own root again.
#[test]
fn c04_reentrant_root_disposal_loses_cleanups() {
    let (ra, _ha) = mk_root();
    let (ran, ran2) = counter();
    let mut sig = None;
    ra.run_in(|| {
        let _ = create_child_scope(|| on_cleanup(move || ra.dispose()));
        let _ = create_child_scope(|| {
            sig = Some(create_signal(1));
            on_cleanup(move || ran2.set(ran2.get() + 1))
        });
    });
    ra.dispose();
    println!("second cleanup ran {} times; signal alive: {}", ran.get(), sig.unwrap().is_alive());
    assert_eq!(ran.get(), 1, "a registered cleanup never ran");
}
