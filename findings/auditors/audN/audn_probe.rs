//! Probes for the four newest repairs (blocking re-check loop, Unlist guard, Transition=Suspense on
//! the server, pump skipping None fragments).
use std::cell::{Cell, RefCell};
use std::rc::Rc;

use futures::channel::oneshot;
use futures::StreamExt;
use sycamore::prelude::*;
use sycamore::web::{
    render_to_string, render_to_string_await_suspense, render_to_string_stream, Suspense,
    Transition,
};

#[component(inline_props)]
async fn Async(rx: oneshot::Receiver<()>, label: &'static str) -> View {
    let _ = rx.await;
    view! { p { (label) } }
}

/// An async component that, once released, runs `then` (inside its scope) and then shows `label`.
#[component(inline_props)]
async fn AsyncThen(rx: oneshot::Receiver<()>, label: &'static str, then: Box<dyn FnOnce()>) -> View {
    let _ = rx.await;
    then();
    view! { p { (label) } }
}

/// Executor-independent yield: wakes itself and returns Pending once.
async fn yield_once() {
    let mut first = true;
    futures::future::poll_fn(move |cx| {
        if first {
            first = false;
            cx.waker().wake_by_ref();
            std::task::Poll::Pending
        } else {
            std::task::Poll::Ready(())
        }
    })
    .await
}

async fn ticks(n: usize) {
    for _ in 0..n {
        tokio::task::yield_now().await;
    }
}

/// Poll `fut` up to `n` times with executor ticks in between; returns Some(out) if it finished.
macro_rules! poll_n {
    ($fut:expr, $n:expr) => {{
        let mut out = None;
        for _ in 0..$n {
            if let std::task::Poll::Ready(v) = futures::poll!(&mut $fut) {
                out = Some(v);
                break;
            }
            tokio::task::yield_now().await;
        }
        out
    }};
}

// ---------------------------------------------------------------------------------------------
// Blocking: boundary A (pending) replaced by boundary B (pending) by a task of sibling boundary S.
#[tokio::test]
async fn blocking_flip_by_sibling_task() {
    let (tx_s, rx_s) = oneshot::channel();
    let (_tx_a, rx_a) = oneshot::channel::<()>(); // never completes: A is disposed
    let (tx_b, rx_b) = oneshot::channel();
    let rx_a = Rc::new(RefCell::new(Some(rx_a)));
    let rx_b = Rc::new(RefCell::new(Some(rx_b)));
    let fut = render_to_string_await_suspense(move || {
        let flag = create_signal(true);
        let rx_a = rx_a.clone();
        let rx_b = rx_b.clone();
        view! {
            // A first: it is the first loading counter in the list.
            (if flag.get() {
                let rx = rx_a.borrow_mut().take().unwrap();
                view! { Suspense { Async(rx=rx, label="A") } }
            } else {
                let rx = rx_b.borrow_mut().take().unwrap();
                view! { Suspense { Async(rx=rx, label="B") } }
            })
            Suspense { AsyncThen(rx=rx_s, label="S", then=Box::new(move || flag.set(false))) }
        }
    });
    futures::pin_mut!(fut);
    assert!(poll_n!(fut, 5).is_none());
    tx_s.send(()).unwrap();
    assert!(poll_n!(fut, 10).is_none(), "B is still pending");
    tx_b.send(()).unwrap();
    let out = poll_n!(fut, 10).expect("blocking render hangs");
    println!("{out}");
    assert!(out.contains("<p data-hk=\"3.0\">B</p>") || out.contains(">B</p>"), "{out}");
    assert!(out.contains(">S</p>"), "{out}");
    assert!(!out.contains(">A</p>"), "{out}");
}

// Blocking: the only loading boundary (first in the list) is disposed and replaced by plain content,
// by a plain event: a task of S (S listed AFTER A, so the effect never tracked S's counter).
#[tokio::test]
async fn blocking_first_loading_disposed_no_replacement() {
    let (tx_s, rx_s) = oneshot::channel();
    let (_tx_a, rx_a) = oneshot::channel::<()>();
    let rx_a = Rc::new(RefCell::new(Some(rx_a)));
    let fut = render_to_string_await_suspense(move || {
        let flag = create_signal(true);
        let rx_a = rx_a.clone();
        view! {
            (if flag.get() {
                let rx = rx_a.borrow_mut().take().unwrap();
                view! { Suspense { Async(rx=rx, label="A") } }
            } else {
                view! { p { "plain" } }
            })
            Suspense { AsyncThen(rx=rx_s, label="S", then=Box::new(move || flag.set(false))) }
        }
    });
    futures::pin_mut!(fut);
    assert!(poll_n!(fut, 5).is_none());
    tx_s.send(()).unwrap();
    let out = poll_n!(fut, 10).expect("blocking render hangs");
    assert!(out.contains("plain") && out.contains(">S</p>"), "{out}");
}

// Blocking: replacement boundary is created in a LATER tick than the disposal: the flip task sets
// flag to "none" (A disposed, nothing else), awaits once more, then sets it to "B".
// The flipping task is itself a suspense task of S, so S stays loading throughout.
#[tokio::test]
async fn blocking_replacement_in_later_tick() {
    #[component(inline_props)]
    async fn Flipper(rx: oneshot::Receiver<()>, flag: Signal<u8>) -> View {
        let _ = rx.await;
        flag.set(1);
        yield_once().await;
        yield_once().await;
        flag.set(2);
        view! { p { "S" } }
    }
    let (tx_s, rx_s) = oneshot::channel();
    let (_tx_a, rx_a) = oneshot::channel::<()>();
    let (tx_b, rx_b) = oneshot::channel();
    let rx_a = Rc::new(RefCell::new(Some(rx_a)));
    let rx_b = Rc::new(RefCell::new(Some(rx_b)));
    let fut = render_to_string_await_suspense(move || {
        let flag = create_signal(0u8);
        let rx_a = rx_a.clone();
        let rx_b = rx_b.clone();
        view! {
            (match flag.get() {
                0 => { let rx = rx_a.borrow_mut().take().unwrap(); view! { Suspense { Async(rx=rx, label="A") } } }
                1 => view! { },
                _ => { let rx = rx_b.borrow_mut().take().unwrap(); view! { Suspense { Async(rx=rx, label="B") } } }
            })
            Suspense { Flipper(rx=rx_s, flag=flag) }
        }
    });
    futures::pin_mut!(fut);
    assert!(poll_n!(fut, 5).is_none());
    tx_s.send(()).unwrap();
    assert!(poll_n!(fut, 10).is_none(), "B is still pending");
    tx_b.send(()).unwrap();
    let out = poll_n!(fut, 10).expect("blocking render hangs");
    assert!(out.contains(">B</p>") && out.contains(">S</p>"), "{out}");
}

// Blocking: an effect inside a boundary reacts to "my boundary is done" by suspending it again
// (tasks registered by an effect that runs after the notification).
#[tokio::test]
async fn blocking_effect_resuspends_after_notification() {
    let (tx_1, rx_1) = oneshot::channel();
    let (tx_2, rx_2) = oneshot::channel::<()>();
    let rx_2 = Rc::new(RefCell::new(Some(rx_2)));
    let done = Rc::new(Cell::new(false));
    let done2 = done.clone();
    let fut = render_to_string_await_suspense(move || {
        let rx_2 = rx_2.clone();
        let done = done2.clone();
        view! {
            Suspense {
                Async(rx=rx_1, label="one")
                ({
                    let loading = sycamore::futures::use_is_loading();
                    let text = create_signal("not yet");
                    let rx_2 = rx_2.clone();
                    let done = done.clone();
                    create_effect(move || {
                        if !loading.get() {
                            if let Some(rx) = rx_2.borrow_mut().take() {
                                let done = done.clone();
                                sycamore::futures::create_suspense_task(async move {
                                    let _ = rx.await;
                                    text.set("second done");
                                    done.set(true);
                                });
                            }
                        }
                    });
                    view! { b { (text.get()) } }
                })
            }
        }
    });
    futures::pin_mut!(fut);
    assert!(poll_n!(fut, 5).is_none());
    tx_1.send(()).unwrap();
    let early = poll_n!(fut, 10);
    assert!(early.is_none(), "returned while the second task was pending: {early:?}");
    tx_2.send(()).unwrap();
    let out = poll_n!(fut, 10).expect("hang");
    assert!(done.get());
    assert!(out.contains("second done"), "{out}");
}

// ---------------------------------------------------------------------------------------------
// Streaming: several boundaries finish in one tick, one of them was disposed.
async fn stream_collect(view: impl FnOnce() -> View + 'static, drive: impl FnOnce() + 'static) -> Vec<String> {
    let local = tokio::task::LocalSet::new();
    let out = local
        .run_until(async move {
            let stream = render_to_string_stream(view);
            futures::pin_mut!(stream);
            let mut parts = vec![stream.next().await.unwrap()];
            ticks(3).await;
            drive();
            while let Some(p) = stream.next().await {
                parts.push(p);
            }
            parts
        })
        .await;
    local.await;
    out
}

#[tokio::test]
async fn streaming_many_finish_in_one_tick_with_disposed() {
    let (tx_a, rx_a) = oneshot::channel();
    let (tx_b, rx_b) = oneshot::channel();
    let (tx_c, rx_c) = oneshot::channel();
    let (tx_d, rx_d) = oneshot::channel::<()>();
    let (tx_s, rx_s) = oneshot::channel();
    let rx_d = Rc::new(RefCell::new(Some(rx_d)));
    let parts = stream_collect(
        move || {
            let flag = create_signal(true);
            let rx_d = rx_d.clone();
            view! {
                Suspense(fallback=|| "fa".into()) { Async(rx=rx_a, label="A") }
                (if flag.get() {
                    match rx_d.borrow_mut().take() {
                        Some(rx) => view! { Suspense(fallback=|| "fd".into()) { Async(rx=rx, label="D") } },
                        None => view! {},
                    }
                } else { view! { } })
                Suspense(fallback=|| "fb".into()) { Async(rx=rx_b, label="B") }
                Suspense(fallback=|| "fs".into()) { AsyncThen(rx=rx_s, label="S", then=Box::new(move || flag.set(false))) }
                Suspense(fallback=|| "fc".into()) { Async(rx=rx_c, label="C") }
            }
        },
        move || {
            tx_c.send(()).unwrap();
            tx_s.send(()).unwrap();
            let _ = tx_d.send(());
            tx_b.send(()).unwrap();
            tx_a.send(()).unwrap();
        },
    )
    .await;
    for p in &parts[1..] {
        println!("{p}");
    }
    for l in ["A", "B", "C", "S"] {
        let n = parts[1..].iter().filter(|p| p.contains(&format!(">{l}</p>"))).count();
        assert_eq!(n, 1, "boundary {l} streamed {n} times");
    }
}

// Streaming: nested boundaries under a disposed parent + live nested ones, all in one tick.
#[tokio::test]
async fn streaming_nested_one_tick() {
    let (tx_a, rx_a) = oneshot::channel();
    let (tx_b, rx_b) = oneshot::channel();
    let (tx_c, rx_c) = oneshot::channel();
    let parts = stream_collect(
        move || {
            view! {
                Suspense(fallback=|| "fa".into()) {
                    Async(rx=rx_a, label="A")
                    Suspense(fallback=|| "fb".into()) {
                        Async(rx=rx_b, label="B")
                        Suspense(fallback=|| "fc".into()) { Async(rx=rx_c, label="C") }
                    }
                }
            }
        },
        move || {
            tx_c.send(()).unwrap();
            tx_b.send(()).unwrap();
            tx_a.send(()).unwrap();
        },
    )
    .await;
    let pos = |l: &str| parts.iter().position(|p| p.contains(&format!(">{l}</p>"))).unwrap();
    assert!(pos("A") < pos("B") && pos("B") < pos("C"));
    assert_eq!(parts.len(), 4);
}

// ---------------------------------------------------------------------------------------------
// Server Transition: tasks started after the transition first resolved are waited for.
#[tokio::test]
async fn blocking_transition_late_work() {
    let (tx_1, rx_1) = oneshot::channel();
    let (tx_2, rx_2) = oneshot::channel::<()>();
    let rx_2 = Rc::new(RefCell::new(Some(rx_2)));
    let fut = render_to_string_await_suspense(move || {
        let show = create_signal(false);
        let rx_2 = rx_2.clone();
        view! {
            Transition {
                (if show.get() { let rx = rx_2.borrow_mut().take().unwrap(); view! { Async(rx=rx, label="late") } } else { view! {} })
            }
            Suspense { AsyncThen(rx=rx_1, label="S", then=Box::new(move || show.set(true))) }
        }
    });
    futures::pin_mut!(fut);
    assert!(poll_n!(fut, 5).is_none());
    tx_1.send(()).unwrap();
    assert!(poll_n!(fut, 10).is_none());
    tx_2.send(()).unwrap();
    let out = poll_n!(fut, 10).expect("hang");
    assert!(out.contains(">late</p>"), "{out}");
}

// ---------------------------------------------------------------------------------------------
// C12: node count at the start of each render is constant, whatever was rendered before.
#[tokio::test]
async fn node_count_constant() {
    use sycamore::reactive::verif::node_count;
    let counts: Rc<RefCell<Vec<(&'static str, usize)>>> = Default::default();

    // helper views
    fn disposed_boundary_view(
        rx_a: oneshot::Receiver<()>,
        rx_s: oneshot::Receiver<()>,
    ) -> View {
        let flag = create_signal(true);
        let rx_a = Rc::new(RefCell::new(Some(rx_a)));
        view! {
            (if flag.get() {
                match rx_a.borrow_mut().take() {
                    Some(rx) => view! { Suspense(fallback=|| "fa".into()) { Async(rx=rx, label="A") } },
                    None => view! {},
                }
            } else { view! { p { "plain" } } })
            Suspense(fallback=|| "fs".into()) { AsyncThen(rx=rx_s, label="S", then=Box::new(move || flag.set(false))) }
        }
    }

    for round in 0..3 {
        // sync
        let c = counts.clone();
        let _ = render_to_string(move || {
            c.borrow_mut().push(("sync", node_count()));
            view! { Suspense { p { "x" } } }
        });
        // blocking, plain
        let c = counts.clone();
        let _ = render_to_string_await_suspense(move || {
            c.borrow_mut().push(("blocking", node_count()));
            view! { Suspense { p { "x" } } }
        })
        .await;
        // streaming, plain
        let c = counts.clone();
        let _ = stream_collect(
            move || {
                c.borrow_mut().push(("streaming", node_count()));
                view! { Suspense { p { "x" } } }
            },
            || {},
        )
        .await;
        if round == 0 {
            continue;
        }
        // blocking with disposed boundary
        let (_tx_a, rx_a) = oneshot::channel::<()>();
        let (tx_s, rx_s) = oneshot::channel();
        let fut = render_to_string_await_suspense(move || disposed_boundary_view(rx_a, rx_s));
        futures::pin_mut!(fut);
        assert!(poll_n!(fut, 3).is_none());
        tx_s.send(()).unwrap();
        poll_n!(fut, 10).expect("hang");
        // streaming with disposed boundary
        let (tx_a, rx_a) = oneshot::channel::<()>();
        let (tx_s, rx_s) = oneshot::channel();
        let parts = stream_collect(
            move || disposed_boundary_view(rx_a, rx_s),
            move || {
                tx_s.send(()).unwrap();
                let _ = tx_a.send(());
            },
        )
        .await;
        assert_eq!(parts.len(), 2, "{parts:?}");
    }
    let counts = counts.borrow();
    println!("{counts:?}");
    for mode in ["sync", "blocking", "streaming"] {
        let v: Vec<usize> = counts.iter().filter(|(m, _)| *m == mode).map(|(_, n)| *n).collect();
        assert!(v.windows(2).all(|w| w[0] == w[1]), "{mode}: {v:?}");
    }
}
