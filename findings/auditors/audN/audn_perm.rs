//! All completion orders of {s, a, b, c, d} for a tree with a region that is re-rendered (boundary A
//! disposed, boundary B created) by task s, inside an enclosing boundary P that is still loading.
//! Checks: blocking does not hang / return early, streaming emits each live boundary once, parent
//! first, and the applied stream shows the same labels as the blocking result.
use std::cell::RefCell;
use std::rc::Rc;

use futures::channel::oneshot;
use futures::StreamExt;
use sycamore::prelude::*;
use sycamore::web::{render_to_string_await_suspense, render_to_string_stream, Suspense, Transition};

#[component(inline_props)]
async fn Async(rx: oneshot::Receiver<()>, label: &'static str) -> View {
    let _ = rx.await;
    view! { p { (label) } }
}

#[component(inline_props)]
async fn AsyncThen(rx: oneshot::Receiver<()>, label: &'static str, then: Box<dyn FnOnce()>) -> View {
    let _ = rx.await;
    then();
    view! { p { (label) } }
}

type Rx = Rc<RefCell<Option<oneshot::Receiver<()>>>>;
fn cell(rx: oneshot::Receiver<()>) -> Rx {
    Rc::new(RefCell::new(Some(rx)))
}

/// variant 0: Suspense for P, 1: Transition for P.
fn app(variant: u8, s: Rx, a: Rx, b: Rx, c: Rx, d: Rx) -> View {
    let flag = create_signal(true);
    let inner = Children::new(move || {
        let (a, b, c) = (a.clone(), b.clone(), c.clone());
        let s = s.borrow_mut().take().unwrap();
        let c = c.borrow_mut().take().unwrap();
        view! {
            (if flag.get() {
                match a.borrow_mut().take() {
                    Some(rx) => view! { Suspense(fallback=|| "fa".into()) { Async(rx=rx, label="A") } },
                    None => view! {},
                }
            } else {
                match b.borrow_mut().take() {
                    Some(rx) => view! { Suspense(fallback=|| "fb".into()) { Async(rx=rx, label="B") } },
                    None => view! {},
                }
            })
            AsyncThen(rx=s, label="S", then=Box::new(move || flag.set(false)))
            Suspense(fallback=|| "fc".into()) { Async(rx=c, label="C") }
        }
    });
    let d = d.borrow_mut().take().unwrap();
    let p = if variant == 0 {
        view! { Suspense(fallback=|| "fp".into(), children=inner) }
    } else {
        view! { Transition(fallback=|| "fp".into(), children=inner) }
    };
    view! {
        (p)
        Suspense(fallback=|| "fd".into()) { Async(rx=d, label="D") }
    }
}

fn permutations(n: usize) -> Vec<Vec<usize>> {
    fn rec(cur: &mut Vec<usize>, used: &mut Vec<bool>, out: &mut Vec<Vec<usize>>) {
        if cur.len() == used.len() {
            out.push(cur.clone());
            return;
        }
        for i in 0..used.len() {
            if !used[i] {
                used[i] = true;
                cur.push(i);
                rec(cur, used, out);
                cur.pop();
                used[i] = false;
            }
        }
    }
    let mut out = vec![];
    rec(&mut vec![], &mut vec![false; n], &mut out);
    out
}

fn labels(html: &str) -> Vec<String> {
    // visible labels in document order
    let mut out = vec![];
    let mut rest = html;
    while let Some(i) = rest.find("</p>") {
        let before = &rest[..i];
        let j = before.rfind('>').unwrap();
        out.push(before[j + 1..].to_string());
        rest = &rest[i + 4..];
    }
    out
}

fn apply(doc: &mut String, fragment: &str) {
    let pre = "<template id=\"sycamore-suspense-";
    assert!(fragment.starts_with(pre), "{fragment}");
    let rest = &fragment[pre.len()..];
    let q = rest.find('"').unwrap();
    let key = &rest[..q];
    let content_start = rest.find('>').unwrap() + 1;
    let content_end = rest.rfind("</template>").unwrap();
    let content = &rest[content_start..content_end];
    let start_pat = format!("<suspense-start data-key=\"{key}\"");
    let end_pat = format!("<suspense-end data-key=\"{key}\">");
    assert_eq!(doc.matches(&start_pat).count(), 1, "start marker for {key} in {doc}");
    assert_eq!(doc.matches(&end_pat).count(), 1, "end marker for {key} in {doc}");
    let si = doc.find(&start_pat).unwrap();
    let s_end = si + doc[si..].find("</suspense-start>").unwrap() + "</suspense-start>".len();
    let ei = doc.find(&end_pat).unwrap();
    assert!(s_end <= ei);
    let mut new = String::new();
    new.push_str(&doc[..si]);
    new.push_str(content);
    new.push_str(&doc[si..s_end]);
    new.push_str(&doc[ei..]);
    *doc = new;
}

/// `batch`: how many sends are done per executor tick (1 = one per tick, 5 = all in one tick).
async fn run_case(variant: u8, order: &[usize], batch: usize) {
    // ---- blocking
    let mk = || {
        let mut txs = vec![];
        let mut rxs = vec![];
        for _ in 0..5 {
            let (tx, rx) = oneshot::channel::<()>();
            txs.push(Some(tx));
            rxs.push(cell(rx));
        }
        (txs, rxs)
    };
    let (mut txs, rxs) = mk();
    let r = rxs.clone();
    let fut = render_to_string_await_suspense(move || {
        app(variant, r[0].clone(), r[1].clone(), r[2].clone(), r[3].clone(), r[4].clone())
    });
    futures::pin_mut!(fut);
    let mut blocking = None;
    for _ in 0..3 {
        assert!(futures::poll!(&mut fut).is_pending());
        tokio::task::yield_now().await;
    }
    for (n, chunk) in order.chunks(batch).enumerate() {
        for &i in chunk {
            let _ = txs[i].take().unwrap().send(());
        }
        for _ in 0..6 {
            if blocking.is_some() {
                break;
            }
            if let std::task::Poll::Ready(v) = futures::poll!(&mut fut) {
                blocking = Some(v);
                break;
            }
            tokio::task::yield_now().await;
        }
        let last = (n + 1) * batch >= order.len();
        if !last {
            // Which tasks are still needed? a (1) is not needed once s (0) has fired before it; b (2)
            // is not needed if... it is always needed (B is live at the end). So: early return is
            // an error unless every needed task was sent.
            let sent: Vec<usize> = order[..((n + 1) * batch).min(order.len())].to_vec();
            let needed_missing = [0usize, 2, 3, 4].iter().any(|t| !sent.contains(t));
            if needed_missing {
                assert!(blocking.is_none(), "variant {variant} order {order:?} batch {batch}: returned early after {sent:?}: {blocking:?}");
            }
        }
    }
    let blocking = blocking.unwrap_or_else(|| panic!("variant {variant} order {order:?} batch {batch}: blocking render hangs"));
    let bl = labels(&blocking);
    assert_eq!(bl, ["B", "S", "C", "D"], "variant {variant} order {order:?} batch {batch}: {blocking}");

    // ---- streaming
    let (mut txs, rxs) = mk();
    let order2 = order.to_vec();
    let local = tokio::task::LocalSet::new();
    let parts: Vec<String> = local
        .run_until(async move {
            let r = rxs.clone();
            let stream = render_to_string_stream(move || {
                app(variant, r[0].clone(), r[1].clone(), r[2].clone(), r[3].clone(), r[4].clone())
            });
            futures::pin_mut!(stream);
            let mut parts = vec![stream.next().await.unwrap()];
            for _ in 0..3 {
                tokio::task::yield_now().await;
            }
            for chunk in order2.chunks(batch) {
                for &i in chunk {
                    let _ = txs[i].take().unwrap().send(());
                }
                for _ in 0..6 {
                    tokio::task::yield_now().await;
                }
            }
            let rest = {
                let mut v = vec![];
                let mut done = false;
                for _ in 0..200 {
                    match futures::poll!(stream.next()) {
                        std::task::Poll::Ready(Some(p)) => v.push(p),
                        std::task::Poll::Ready(None) => { done = true; break; }
                        std::task::Poll::Pending => tokio::task::yield_now().await,
                    }
                }
                assert!(done, "variant {variant} order {order2:?} batch {batch}: stream hangs, got {v:#?}");
                v
            };
            parts.extend(rest);
            parts
        })
        .await;
    local.await;
    let mut doc = parts[0].clone();
    let mut seen = vec![];
    for f in &parts[1..] {
        let key: String = f["<template id=\"sycamore-suspense-".len()..].chars().take_while(|c| c.is_ascii_digit()).collect();
        assert!(!seen.contains(&key), "variant {variant} order {order:?} batch {batch}: fragment {key} twice");
        seen.push(key);
        apply(&mut doc, f);
    }
    let sl = labels(&doc);
    assert_eq!(sl, bl, "variant {variant} order {order:?} batch {batch}: streamed doc {doc}\nparts {parts:#?}");
    assert!(!doc.contains(">fa<") && !doc.contains("fb<suspense-end") && !doc.contains("fp<suspense-end") && !doc.contains("fc<suspense-end") && !doc.contains("fd<suspense-end"),
        "variant {variant} order {order:?} batch {batch}: fallback left in {doc}");
}

#[tokio::test]
async fn all_orders() {
    let mut n = 0;
    for variant in 0..2u8 {
        for order in permutations(5) {
            for batch in [1usize, 2, 5] {
                run_case(variant, &order, batch).await;
                n += 1;
            }
        }
    }
    println!("{n} cases ok");
}
