//! Unlist guard: disposal orders, effects tracking the global list inside the disposed boundary.
use futures::channel::oneshot;
use sycamore::futures::*;
use sycamore::reactive::*;

#[tokio::test]
async fn unlist_orders_and_tracking_effects() {
    let local = tokio::task::LocalSet::new();
    let mut keep = vec![];
    local
        .run_until(async {
            for order in 0..2 {
                for dispose_root_first in [false, true] {
                    let mut x = None;
                    let mut w = None;
                    let runs = create_signal_in_new_root();
                    let root = create_root(|| {
                        if order == 0 {
                            x = Some(create_child_scope(|| {}));
                        }
                        w = Some(create_child_scope(|| {
                            let (tx, rx) = oneshot::channel::<()>();
                            keep_tx(tx);
                            let _ = create_suspense_scope(|| {
                                create_suspense_task(async move { let _ = rx.await; });
                                // effect inside the boundary that tracks the global list and its own
                                // boundary, and suspends again when it re-runs.
                                let loading = use_is_loading();
                                create_effect(move || {
                                    let g = use_is_loading_global();
                                    let l = loading.get();
                                    let _ = (g, l);
                                    create_suspense_task(async {});
                                });
                            });
                        }));
                        if order == 1 {
                            x = Some(create_child_scope(|| {}));
                        }
                        x.unwrap().run_in(|| {
                            let (tx, rx) = oneshot::channel::<()>();
                            keep_tx(tx);
                            let _ = create_suspense_scope(|| {
                                create_suspense_task(async move { let _ = rx.await; });
                            });
                        });
                        // effect in the root that waits like the blocking render
                        create_effect(move || {
                            let _ = use_is_loading_global();
                        });
                    });
                    let _ = runs;
                    tokio::task::yield_now().await;
                    if dispose_root_first {
                        root.dispose();
                    } else {
                        w.unwrap().dispose();
                        root.run_in(|| assert!(use_is_loading_global()));
                        x.unwrap().dispose();
                        root.run_in(|| assert!(!use_is_loading_global()));
                        root.dispose();
                    }
                    tokio::task::yield_now().await;
                    keep.push(root);
                }
            }
        })
        .await;
    local.await;
}

thread_local! { static TXS: std::cell::RefCell<Vec<oneshot::Sender<()>>> = Default::default(); }
fn keep_tx(tx: oneshot::Sender<()>) { TXS.with(|t| t.borrow_mut().push(tx)); }
fn create_signal_in_new_root() {}

// A boundary created in another root than the one that is current when it is disposed.
#[tokio::test]
async fn unlist_cross_root() {
    let local = tokio::task::LocalSet::new();
    local.run_until(async {
        let mut scope = None;
        let a = create_root(|| {
            scope = Some(create_child_scope(|| {
                let _ = create_suspense_scope(|| { create_suspense_task(async { futures::future::pending::<()>().await }); });
            }));
            create_effect(|| { let _ = use_is_loading_global(); });
        });
        let b = create_root(|| {});
        b.run_in(|| scope.unwrap().dispose());
        a.run_in(|| assert!(!use_is_loading_global()));
        a.dispose();
        b.dispose();
    }).await;
    local.await;
}
