//! Byte comparison of Transition output (run on both HEAD and the previous commit).
use futures::channel::oneshot;
use futures::StreamExt;
use sycamore::prelude::*;
use sycamore::web::{
    render_to_string, render_to_string_await_suspense, render_to_string_stream, Suspense,
    Transition,
};

#[component(inline_props)]
async fn Async(rx: oneshot::Receiver<()>, label: &'static str) -> View {
    let _ = rx.await;
    view! { p { (label) } }
}

#[component]
async fn Ready() -> View {
    view! { span { "ready" } }
}

fn views() -> Vec<(&'static str, Box<dyn Fn() -> View>)> {
    vec![
        (
            "transition_static",
            Box::new(|| view! { div { Transition(fallback=|| view!{ i {"fb"} }) { p { "x" } } } }),
        ),
        (
            "transition_ready_async",
            Box::new(|| view! { div { Transition(fallback=|| view!{ i {"fb"} }) { Ready {} } } }),
        ),
        (
            "transition_nested_suspense",
            Box::new(|| {
                view! { div { Transition(fallback=|| view!{ i {"fb"} }) {
                    b { "a" }
                    Suspense(fallback=|| view!{ i {"fb2"} }) { Ready {} p { "in" } }
                    b { "z" }
                } p { "after" } Suspense { p { "s2" } } }
                }
            }),
        ),
        (
            "suspense_in_transition_in_suspense",
            Box::new(|| {
                view! { Suspense(fallback=|| view!{ i {"o"} }) { Transition(fallback=|| view!{ i {"fb"} }) {
                    Suspense(fallback=|| view!{ i {"fb2"} }) { Ready {} }
                } } }
            }),
        ),
        (
            "transition_dyn_text",
            Box::new(|| {
                let s = create_signal(1);
                view! { Transition { p { (s.get()) } (s.get()) } }
            }),
        ),
    ]
}

#[test]
fn dump_sync() {
    for (name, v) in views() {
        let out = render_to_string(move || v());
        println!("SYNC {name}: {out}");
    }
}

#[tokio::test]
async fn dump_blocking() {
    for (name, v) in views() {
        let out = render_to_string_await_suspense(move || v()).await;
        println!("BLOCK {name}: {out}");
    }
}

#[tokio::test]
async fn dump_streaming() {
    for (name, v) in views() {
        let local = tokio::task::LocalSet::new();
        let out = local
            .run_until(async move {
                let stream = render_to_string_stream(move || v());
                let parts: Vec<String> = stream.collect().await;
                parts
            })
            .await;
        local.await;
        println!("STREAM {name}: {}", out.join(" ||| "));
    }
}

#[tokio::test]
async fn dump_blocking_async_pending() {
    // one task pending, released after first poll
    let (tx, rx) = oneshot::channel();
    let fut = render_to_string_await_suspense(move || {
        view! { div { Transition(fallback=|| view!{ i {"fb"} }) { Async(rx=rx, label="late") } } }
    });
    futures::pin_mut!(fut);
    assert!(futures::poll!(&mut fut).is_pending());
    tx.send(()).unwrap();
    let out = fut.await;
    println!("BLOCK pending: {out}");
}
