#![cfg(not(target_arch = "wasm32"))]
#![allow(dead_code, unused_imports, non_snake_case)]
#[path = "audj.rs"]
mod h;
use h::*;
use std::rc::Rc;
use std::cell::RefCell;
use std::collections::{HashMap, HashSet};
use sycamore::prelude::*;
use sycamore::web::*;
use sycamore::futures::*;

#[derive(Debug, Clone)]
pub enum Node {
    Text(String),
    El(Vec<Node>),
    Susp(Vec<Node>),
    Trans(Vec<Node>),
    Async(String, Vec<Node>),
    Task(String),
    /// shown while sig % 2 == parity
    Toggle(usize, u32, Vec<Node>),
    /// after gate: sig = value
    Set(String, usize, u32),
    /// Indexed/Keyed list with (base + sig) % 4 items, each a boundary with an async child
    List(bool, usize, u32, String),
    /// resource depending on sig; gate name = prefix_value
    ResDep(usize, String, Vec<Node>),
    /// read of a shared resource
    Read(usize),
}

#[derive(Clone)]
pub struct Cx { gates: Gates, sigs: Rc<Vec<Signal<u32>>>, shared: Rc<Vec<Resource<u32>>> }

pub fn build_all(nodes: &[Node], cx: &Cx) -> View {
    let views: Vec<View> = nodes.iter().map(|n| build(n, cx)).collect();
    View::from(views)
}

#[component(inline_props)]
async fn AsyncNode(cx: Cx, name: String, children: Vec<Node>) -> View {
    cx.gates.gate(&name).await;
    let inner = build_all(&children, &cx);
    view! { i { (name) (inner) } }
}

pub fn build(node: &Node, cx: &Cx) -> View {
    match node.clone() {
        Node::Text(t) => view! { (t) },
        Node::El(c) => { let inner = build_all(&c, cx); view! { div { (inner) } } }
        Node::Susp(c) => {
            let cx = cx.clone();
            view! { Suspense(fallback=move || view! { em { "fb" } }) { (build_all(&c, &cx)) } }
        }
        Node::Trans(c) => {
            let cx = cx.clone();
            view! { Transition(fallback=|| view! { em { "tfb" } }) { (build_all(&c, &cx)) } }
        }
        Node::Async(name, c) => { let cx = cx.clone(); view! { AsyncNode(cx=cx, name=name, children=c) } }
        Node::Task(name) => { create_suspense_task(cx.gates.gate(&name)); view! { s { (name) } } }
        Node::Toggle(s, parity, c) => {
            let sig = cx.sigs[s]; let cx = cx.clone();
            view! { p { (if sig.get() % 2 == parity { build_all(&c, &cx) } else { view! { "off" } }) } }
        }
        Node::Set(gate, s, v) => {
            let sig = cx.sigs[s]; let f = cx.gates.gate(&gate);
            create_suspense_task(async move { f.await; if v > sig.get_untracked() { sig.set(v); } });
            view! { }
        }
        Node::List(keyed, s, base, prefix) => {
            let sig = cx.sigs[s];
            let items = create_memo(move || (0..((base + sig.get()) % 4)).collect::<Vec<u32>>());
            let cx = cx.clone();
            let item = move |i: u32| { let cx = cx.clone(); let name = format!("{prefix}_{i}");
                view! { li { Suspense(fallback=|| view! { em { "lfb" } }) { AsyncNode(cx=cx, name=name, children=vec![]) } } } };
            if keyed { view! { ul { Keyed(list=items, view=item, key=|i| *i) } } }
            else { view! { ul { Indexed(list=items, view=item) } } }
        }
        Node::ResDep(s, prefix, c) => {
            let sig = cx.sigs[s]; let g = cx.gates.clone();
            let res = create_isomorphic_resource(on(sig, move || { let v = sig.get_untracked(); let f = g.gate(&format!("{prefix}_{v}")); async move { f.await; v } }));
            let cx = cx.clone();
            view! { b { (match res.get() {
                None => view! { "none" },
                Some(v) => { let inner = build_all(&c, &cx); let l = res.is_loading().to_string(); view! { "[dep=" (sig.get()) " val=" (v) " loading=" (l) "]" (inner) } }
            }) } }
        }
        Node::Read(r) => {
            let res = cx.shared[r];
            view! { q { (match res.get() { None => "none".to_string(), Some(v) => format!("R{v}") }) } }
        }
    }
}

struct Rng(u64);
impl Rng {
    fn next(&mut self) -> u64 { self.0 ^= self.0 << 13; self.0 ^= self.0 >> 7; self.0 ^= self.0 << 17; self.0 }
    fn below(&mut self, n: u64) -> u64 { self.next() % n }
}

struct Gen { rng: Rng, gates: u32, sigs: usize, uid: u32, top_toggle: bool }
fn unrestricted() -> bool { std::env::var("UNRESTRICTED").is_ok() }
impl Gen {
    fn gate(&mut self) -> String { self.gates += 1; format!("g{}", self.gates) }
    fn gen(&mut self, depth: u32, stack: &[usize]) -> Vec<Node> {
        let n = 1 + self.rng.below(3);
        let mut out = vec![];
        for _ in 0..n {
            let pool: Vec<usize> = (0..4).collect();
            let stack: &[usize] = if unrestricted() { &pool } else { stack };
            let real_in_susp = !stack.is_empty();
            let in_susp = real_in_susp;
            let k = if depth == 0 { self.rng.below(4) } else { self.rng.below(16) };
            let any_sig = |g: &mut Gen| stack[g.rng.below(stack.len() as u64) as usize];
            let node = match k {
                0 => Node::Text(format!("t{}", self.rng.below(100))),
                1 if in_susp => Node::Task(self.gate()),
                2 if in_susp => Node::Async(self.gate(), vec![]),
                3 if in_susp => Node::Set(self.gate(), *stack.last().unwrap(), self.rng.below(4) as u32),
                4 => Node::El(self.gen(depth - 1, stack)),
                5 | 6 => { let s = self.sigs; self.sigs += 1; let mut st = stack.to_vec(); st.push(if unrestricted() { s % 4 } else { s }); Node::Susp(self.gen(depth - 1, &st)) }
                7 => { let s = self.sigs; self.sigs += 1; let mut st = stack.to_vec(); st.push(if unrestricted() { s % 4 } else { s }); Node::Trans(self.gen(depth - 1, &st)) }
                8 if in_susp => { let g = self.gate(); Node::Async(g, self.gen(depth - 1, stack)) }
                9 | 10 if in_susp => { let s = any_sig(self); Node::Toggle(s, self.rng.below(2) as u32, self.gen(depth - 1, stack)) }
                11 if in_susp => { let s = any_sig(self); self.uid += 1; Node::List(self.rng.below(2) == 0, s, self.rng.below(4) as u32, format!("L{}", self.uid)) }
                12 | 13 if in_susp => { let s = any_sig(self); self.uid += 1; Node::ResDep(s, format!("D{}", self.uid), self.gen(depth - 1, stack)) }
                14 if in_susp => Node::Read(self.rng.below(2) as usize),
                15 if in_susp => Node::Set(self.gate(), *stack.last().unwrap(), self.rng.below(4) as u32),
                _ => Node::Text(format!("t{}", self.rng.below(100))),
            };
            out.push(node);
        }
        out
    }
}

fn gates_of(nodes: &[Node], out: &mut Vec<String>) {
    for n in nodes {
        match n {
            Node::Text(_) | Node::Read(_) => {}
            Node::El(c) | Node::Trans(c) | Node::Susp(c) | Node::Toggle(_, _, c) => gates_of(c, out),
            Node::Async(g, c) => { out.push(g.clone()); gates_of(c, out) }
            Node::Task(g) | Node::Set(g, _, _) => out.push(g.clone()),
            Node::List(_, _, _, p) => for i in 0..4 { out.push(format!("{p}_{i}")) },
            Node::ResDep(_, p, c) => { for i in 0..4 { out.push(format!("{p}_{i}")) }; gates_of(c, out) }
        }
    }
}

fn mk(tree: &[Node], nsigs0: usize, gates: &Gates) -> impl FnOnce() -> View + 'static {
    let tree = tree.to_vec(); let gates = gates.clone();
    move || {
        let nsigs = nsigs0.max(4);
        let sigs = Rc::new((0..nsigs).map(|_| create_signal(0u32)).collect::<Vec<_>>());
        let shared = Rc::new((0..2).map(|i| { let g = gates.clone(); create_isomorphic_resource(move || { let f = g.gate(&format!("R{i}")); async move { f.await; i as u32 } }) }).collect::<Vec<_>>());
        let cx = Cx { gates, sigs, shared };
        build_all(&tree, &cx)
    }
}

fn check(tree: &[Node], nsigs: usize, order: &[String], label: &str) -> Vec<String> {
    let mut problems = vec![];
    let order_ref: Vec<&str> = order.iter().map(|s| s.as_str()).collect();
    let run_b = || { let gates = Gates::new(); blocking(mk(tree, nsigs, &gates), &gates, &order_ref) };
    let run_s = || { let gates = Gates::new(); streaming(mk(tree, nsigs, &gates), &gates, &order_ref) };
    let b1 = run_b();
    let s1 = run_s();
    let b2 = run_b();
    let s2 = run_s();
    if b1 != b2 { problems.push(format!("{label}: blocking not deterministic\n {b1:?}\n {b2:?}")); }
    if s1.chunks != s2.chunks { problems.push(format!("{label}: streaming not deterministic")); }
    if !s1.ended { problems.push(format!("{label}: stream did not end")); }
    let Some(b) = b1 else { problems.push(format!("{label}: blocking did not return")); return problems; };
    let mut seen = HashSet::new();
    for c in &s1.chunks[1..] {
        let k = c.split('"').nth(1).unwrap().to_string();
        if !seen.insert(k.clone()) { problems.push(format!("{label}: fragment {k} sent twice")); }
    }
    if unrestricted() { return problems; }
    match apply(&s1.chunks) {
        Err(e) => problems.push(format!("{label}: apply failed: {e}")),
        Ok(doc) => {
            if visible(&doc) != visible(&b) {
                problems.push(format!("{label}: visible content differs\n  stream:   {}\n  blocking: {}", visible(&doc), visible(&b)));
            }
        }
    }
    // C15: in the final (blocking) output, every resource shows the value for the latest dependency.
    let vis = visible(&b);
    let mut rest = vis.as_str();
    while let Some(a) = rest.find("[dep=") {
        let r = &rest[a..];
        let e = r.find(']').unwrap();
        let item = &r[..=e];
        let dep = item.split("dep=").nth(1).unwrap().split(' ').next().unwrap();
        let val = item.split("val=").nth(1).unwrap().split(' ').next().unwrap();
        if dep != val || !item.contains("loading=false") { problems.push(format!("{label}: stale resource in final output: {item}")); }
        rest = &r[e..];
    }
    if vis.contains("none") || vis.contains("fb") { problems.push(format!("{label}: unresolved content in blocking output: {vis}")); }
    problems
}

#[test]
fn fuzz2() {
    let seeds: u64 = std::env::var("SEEDS").ok().and_then(|s| s.parse().ok()).unwrap_or(300);
    let from: u64 = std::env::var("FROM").ok().and_then(|s| s.parse().ok()).unwrap_or(1);
    let mut total = 0;
    let mut bad = 0;
    for seed in from..from + seeds {
        let mut g = Gen { rng: Rng(seed.wrapping_mul(0x9E3779B97F4A7C15) | 1), gates: 0, sigs: 0, uid: 0, top_toggle: false };
        let tree = g.gen(3, &[]);
        let mut gates = vec!["R0".to_string(), "R1".to_string()]; gates_of(&tree, &mut gates);
        if gates.len() > 14 { continue; }
        for trial in 0..4 {
            let mut order = gates.clone();
            for i in (1..order.len()).rev() { let j = g.rng.below(i as u64 + 1) as usize; order.swap(i, j); }
            if trial == 0 { order = gates.clone(); }
            total += 1;
            let p = check(&tree, g.sigs, &order, &format!("seed {seed} order {order:?}"));
            if !p.is_empty() {
                bad += 1;
                if bad <= 8 { println!("TREE {tree:?}"); for x in &p { println!("  {x}"); } }
                else { for x in &p { println!("KIND {}", x.split("]: ").nth(1).unwrap_or("?").lines().next().unwrap()); } }
            }
        }
    }
    println!("total {total} bad {bad}");
}
