#![cfg(not(target_arch = "wasm32"))]
#![allow(dead_code, unused_imports, non_snake_case)]
#[path = "audj.rs"]
mod h;
use h::*;
use std::rc::Rc;
use std::cell::{Cell, RefCell};
use sycamore::prelude::*;
use sycamore::web::*;
use sycamore::futures::*;
use sycamore::reactive::verif::node_count;

// ---------------------------------------------------------------------------------------------
// T1: Transition on the server, content changes after the transition first resolved.
// ---------------------------------------------------------------------------------------------
fn t1_view(gates: Gates, transition: bool) -> View {
    let show = create_signal(false);
    let g = gates.clone();
    let g2 = gates.clone();
    let inner = move || {
        let g = g.clone();
        view! { p { (if show.get() { let g = g.clone(); view! { Wait(gates=g, name="late") } } else { view! { "off" } }) } }
    };
    view! {
        Suspense(fallback=|| "fb".into()) {
            ({
                let inner = inner.clone();
                if transition {
                    view! { Transition(fallback=|| "tfb".into()) { (inner()) } }
                } else {
                    view! { Suspense(fallback=|| "tfb".into()) { (inner()) } }
                }
            })
            ({
                let g2 = g2.clone();
                create_suspense_task(async move { g2.gate("flip").await; show.set(true); });
                view! { }
            })
        }
    }
}

#[test]
fn a2_transition_streaming_equals_blocking_late_async_component() {
    for transition in [false, true] {
        let order = ["flip", "late"];
        let gates = Gates::new(); let g = gates.clone();
        let b = blocking(move || t1_view(g, transition), &gates, &order).unwrap();
        let gates = Gates::new(); let g = gates.clone();
        let s = streaming(move || t1_view(g, transition), &gates, &order);
        let applied = apply(&s.chunks).unwrap();
        println!("transition={transition}\n  blocking : {}\n  streaming: {} (ended={}, {} fragments)", visible(&b), visible(&applied), s.ended, s.chunks.len() - 1);
        // C13: "applying the fragments to the shell yields the same visible content as the blocking result".
        // Unchanged library, transition=true: blocking "<p><span>late</span></p>", streaming "<p></p>".
        assert_eq!(visible(&b), "<p><span>late</span></p>");
        assert_eq!(visible(&applied), visible(&b), "transition={transition}");
    }
}

// T1b: same with a resource that is refetched (dependency written by a task of the enclosing boundary).
fn t1b_view(gates: Gates, transition: bool) -> View {
    let id = create_signal(0u32);
    let g = gates.clone();
    let g2 = gates.clone();
    let inner = move || {
        let g = g.clone();
        let res = create_isomorphic_resource(on(id, move || { let v = id.get_untracked(); let f = g.gate(if v == 0 { "r0" } else { "r1" }); async move { f.await; v } }));
        view! { p { (match res.get() { None => "none".to_string(), Some(v) => format!("id={} value={} loading={}", id.get(), v, res.is_loading()) }) } }
    };
    view! {
        Suspense(fallback=|| "fb".into()) {
            ({
                let inner = inner.clone();
                if transition {
                    view! { Transition(fallback=|| "tfb".into()) { (inner()) } }
                } else {
                    view! { Suspense(fallback=|| "tfb".into()) { (inner()) } }
                }
            })
            ({
                let g2 = g2.clone();
                create_suspense_task(async move { g2.gate("flip").await; id.set(1); });
                view! { }
            })
        }
    }
}

#[test]
fn a2b_transition_streaming_equals_blocking_refetched_resource() {
    for transition in [false, true] {
        let order = ["r0", "flip", "r1"];
        let gates = Gates::new(); let g = gates.clone();
        let b = blocking(move || t1b_view(g, transition), &gates, &order).unwrap();
        let gates = Gates::new(); let g = gates.clone();
        let s = streaming(move || t1b_view(g, transition), &gates, &order);
        let applied = apply(&s.chunks).unwrap();
        println!("transition={transition}\n  blocking : {}\n  streaming: {} (ended={}, {} fragments)", visible(&b), visible(&applied), s.ended, s.chunks.len() - 1);
        // Unchanged library, transition=true: streaming sends "<p>id=1 value=0 loading=true</p>".
        assert_eq!(visible(&b), "<p>id=1 value=1 loading=false</p>");
        assert_eq!(visible(&applied), visible(&b), "transition={transition}");
    }
}

// ---------------------------------------------------------------------------------------------
// H2': the blocking render never returns (evidence: nobody holds a waker any more).
// ---------------------------------------------------------------------------------------------
struct CountWake(std::sync::atomic::AtomicUsize);
impl std::task::Wake for CountWake {
    fn wake(self: std::sync::Arc<Self>) { self.0.fetch_add(1, std::sync::atomic::Ordering::SeqCst); }
}

fn h2_view(gates: Gates) -> View {
    let show = create_signal(true);
    let g = gates.clone();
    let g3 = gates.clone();
    view! {
        div {
            (if show.get() {
                let g = g.clone();
                view! { Suspense(fallback=|| "fa".into()) { Wait(gates=g.clone(), name="a") } }
            } else {
                view! { "gone" }
            })
        }
        Suspense(fallback=|| "fc".into()) {
            ({
                let g3 = g3.clone();
                create_suspense_task(async move { g3.gate("c").await; show.set(false); });
                view! { "c" }
            })
        }
    }
}

#[test]
fn a1_blocking_render_returns_after_first_loading_boundary_was_disposed() {
    use std::future::Future;
    let gates = Gates::new(); let g = gates.clone();
    let fut = render_to_string_await_suspense(move || h2_view(g));
    futures::pin_mut!(fut);
    let wake = std::sync::Arc::new(CountWake(Default::default()));
    let waker = std::task::Waker::from(wake.clone());
    let mut cx = std::task::Context::from_waker(&waker);
    assert!(fut.as_mut().poll(&mut cx).is_pending());
    gates.open("c"); // the task of the second boundary removes the first boundary and finishes
    let mut polls = 0;
    loop {
        let before = wake.0.load(std::sync::atomic::Ordering::SeqCst);
        let r = fut.as_mut().poll(&mut cx);
        polls += 1;
        if let std::task::Poll::Ready(s) = r { println!("returned: {s}"); assert_eq!(visible(&s), "<div>gone</div>c"); return; }
        // Keep polling as long as somebody asked for it (or for a while even if nobody did).
        if wake.0.load(std::sync::atomic::Ordering::SeqCst) == before && polls > 100 { break; }
    }
    gates.open("a"); // (nobody listens any more)
    for _ in 0..100 { assert!(fut.as_mut().poll(&mut cx).is_pending()); }
    panic!("render_to_string_await_suspense is still pending after {polls}+100 polls, no task is left and nobody will wake it");
}

// ---------------------------------------------------------------------------------------------
// P1 (C12): same bytes and same node count whatever was rendered before on the thread.
// ---------------------------------------------------------------------------------------------
thread_local! { static START_COUNTS: RefCell<Vec<usize>> = RefCell::new(vec![]); }

fn ref_view(gates: Gates) -> View {
    START_COUNTS.with(|c| c.borrow_mut().push(node_count()));
    let id = use_stable_counter();
    let g1 = gates.clone(); let g2 = gates.clone(); let g3 = gates.clone();
    view! {
        div(id=format!("c{id}")) {
            Suspense(fallback=|| view! { em { "f1" } }) {
                Wait(gates=g1.clone(), name="x")
                section(id=format!("c{}", use_stable_counter())) {
                    Suspense(fallback=|| view! { em { "f2" } }) {
                        Wait(gates=g2.clone(), name="y")
                    }
                }
            }
            Transition(fallback=|| view! { em { "f3" } }) {
                Wait(gates=g3.clone(), name="z")
            }
            NoHydrate { p { "static" } }
        }
    }
}

fn render_refs() -> (String, String, Vec<String>, Vec<usize>) {
    START_COUNTS.with(|c| c.borrow_mut().clear());
    let gates = Gates::new(); let g = gates.clone();
    let a = render_to_string(move || ref_view(g));
    let gates = Gates::new(); let g = gates.clone();
    let b = blocking(move || ref_view(g), &gates, &["y", "z", "x"]).unwrap();
    let gates = Gates::new(); let g = gates.clone();
    let s = streaming(move || ref_view(g), &gates, &["y", "z", "x"]);
    assert!(s.ended);
    (a, b, s.chunks, START_COUNTS.with(|c| c.borrow().clone()))
}

fn noise(kind: u64) {
    use std::future::Future;
    let gates = Gates::new(); let g = gates.clone();
    match kind % 9 {
        0 => { let _ = render_to_string(move || ref_view(g)); }
        1 => { let _ = blocking(move || ref_view(g), &gates, &["x", "y", "z"]); }
        2 => { let _ = streaming(move || ref_view(g), &gates, &["z", "y", "x"]); }
        // a view that panics half way
        3 => { let _ = std::panic::catch_unwind(std::panic::AssertUnwindSafe(|| render_to_string(move || { let _ = ref_view(g); let _ = use_stable_counter(); view! { NoHydrate { (panic!("boom") as View) } } }))); }
        // a blocking render that is dropped while it waits
        4 => { let rt = rt(); rt.block_on(async { let fut = render_to_string_await_suspense(move || ref_view(g)); futures::pin_mut!(fut); let _ = futures::poll!(&mut fut); gates.open("x"); let _ = futures::poll!(&mut fut); }); }
        // a stream whose consumer goes away after the shell
        5 => { let _ = streaming(move || ref_view(g), &gates, &[]); }
        // a stream whose executor is dropped while tasks are pending
        6 => { let rt = rt(); let local = tokio::task::LocalSet::new(); rt.block_on(local.run_until(async { let s = render_to_string_stream(move || ref_view(g)); drop(s); })); drop(local); }
        // a blocking render whose view panics
        7 => { let _ = std::panic::catch_unwind(std::panic::AssertUnwindSafe(|| { let rt = rt(); rt.block_on(async { let _ = render_to_string_await_suspense(move || { let _ = ref_view(g); panic!("boom") }).await; }) })); }
        // a blocking render where a boundary is disposed while loading (the order that returns)
        _ => { let _ = blocking(move || h2_view(g), &gates, &["a", "c"]); }
    }
}

#[test]
fn p1_renders_are_isolated() {
    std::panic::set_hook(Box::new(|_| {}));
    let reference = std::thread::spawn(render_refs).join().unwrap();
    println!("start counts (sync, blocking, streaming) on a fresh thread: {:?}", reference.3);
    let mut rng = 0x1234_5678_9abc_def1u64;
    for i in 0..400 {
        rng ^= rng << 13; rng ^= rng >> 7; rng ^= rng << 17;
        noise(rng);
        let now = render_refs();
        assert_eq!(now.0, reference.0, "sync differs after noise #{i} kind {}", rng % 9);
        assert_eq!(now.1, reference.1, "blocking differs after noise #{i} kind {}", rng % 9);
        assert_eq!(now.2, reference.2, "streaming differs after noise #{i} kind {}", rng % 9);
        assert_eq!(now.3, reference.3, "node counts differ after noise #{i} kind {}", rng % 9);
    }
    let _ = std::panic::take_hook();
}

// ---------------------------------------------------------------------------------------------
// P2 (C15): resource vs. model over random histories of writes / gate openings / executor steps.
// ---------------------------------------------------------------------------------------------
#[test]
fn p2_resource_latest_fetch_only() {
    let mut rng = 0x9e3779b97f4a7c15u64;
    let mut next = move |n: u64| { rng ^= rng << 13; rng ^= rng >> 7; rng ^= rng << 17; rng % n };
    for case in 0..3000 {
        let rt = rt();
        let local = tokio::task::LocalSet::new();
        rt.block_on(local.run_until(async {
            let gates = Gates::new();
            let mut dep = None; let mut res = None;
            let fetches = Rc::new(Cell::new(0u32));
            let under_suspense = case % 2 == 0;
            let mut loading_sig = None;
            let root = create_root(|| {
                let d = create_signal(0u32); dep = Some(d);
                let g = gates.clone(); let fetches = fetches.clone();
                let mk = move || create_isomorphic_resource(on(d, move || {
                    let n = fetches.get(); fetches.set(n + 1);
                    let v = d.get_untracked(); let f = g.gate(&format!("f{n}"));
                    async move { f.await; (n, v) }
                }));
                if under_suspense {
                    let (r, scope) = create_suspense_scope(|| { let r = mk(); create_effect(move || { let _ = r.get(); }); r });
                    res = Some(r); loading_sig = Some(scope.is_loading());
                } else { res = Some(mk()); }
            });
            let (dep, res) = (dep.unwrap(), res.unwrap());
            // model
            let mut latest = 0u32; let mut latest_dep = 0u32; let mut open: Vec<u32> = vec![];
            let mut value: Option<(u32, u32)> = None; let mut loading = true;
            let mut hist = vec![];
            for _ in 0..(3 + next(8)) {
                match next(4) {
                    0 => { let v = next(3) as u32; hist.push(format!("W{v}")); root.run_in(|| dep.set(v)); latest += 1; latest_dep = v; loading = true; }
                    1 => { let j = next(latest as u64 + 1) as u32; hist.push(format!("O{j}")); gates.open(&format!("f{j}")); open.push(j); }
                    2 => { hist.push("B".into()); let (a, b) = (next(3) as u32, next(3) as u32); root.run_in(|| batch(|| { dep.set(a); dep.set(b); })); latest += 1; latest_dep = b; loading = true; }
                    _ => { hist.push("S".into()); for _ in 0..10 { tokio::task::yield_now().await; }
                           if loading && open.contains(&latest) { value = Some((latest, latest_dep)); loading = false; } }
                }
                let (v, l, n) = root.run_in(|| (res.get_untracked(), res.is_loading(), fetches.get()));
                assert_eq!(n, latest + 1, "case {case} {hist:?}: number of fetches started");
                assert_eq!(v, value, "case {case} {hist:?}: value");
                assert_eq!(l, loading, "case {case} {hist:?}: is_loading");
                if let Some(ls) = loading_sig { assert_eq!(root.run_in(|| ls.get_untracked()), loading, "case {case} {hist:?}: boundary of the reader is loading"); }
            }
            root.dispose();
        }));
    }
}

// ---------------------------------------------------------------------------------------------
// P3 (C14): tasks spawned from cleanup callbacks, in every place a render disposes something.
// ---------------------------------------------------------------------------------------------
thread_local! { static POLLED_AFTER: Cell<u32> = Cell::new(0); static CLEANUPS: Cell<u32> = Cell::new(0); }

#[component(inline_props)]
fn Cleaner(gates: Gates, tag: &'static str) -> View {
    let alive = create_signal(true);
    let g = gates.clone();
    on_cleanup(move || {
        CLEANUPS.with(|c| c.set(c.get() + 1));
        let f = g.gate("cleanup-suspense-task");
        let f2 = g.gate("cleanup-task");
        spawn_local_scoped(async move { f2.await; POLLED_AFTER.with(|c| c.set(c.get() + 1)); let _ = alive.is_alive(); });
        create_suspense_task(async move { f.await; });
    });
    let f = gates.gate(tag);
    create_suspense_task(async move { f.await; let _ = alive.get(); });
    view! { span { (tag) } }
}

fn p3_view(gates: Gates) -> View {
    let show = create_signal(true);
    let g1 = gates.clone(); let g2 = gates.clone(); let g3 = gates.clone(); let g4 = gates.clone();
    view! {
        Cleaner(gates=g4, tag="top")
        Suspense(fallback=|| "f".into()) {
            (if show.get() { let g1 = g1.clone(); view! { Suspense(fallback=|| "f".into()) { Cleaner(gates=g1, tag="inner") } } } else { view! { "off" } })
            Cleaner(gates=g2.clone(), tag="outer")
            ({ let f = g3.gate("flip"); create_suspense_task(async move { f.await; show.set(false); }); view! {} })
        }
    }
}

#[test]
fn p3_tasks_spawned_by_cleanup_callbacks() {
    let panics = std::sync::Arc::new(std::sync::atomic::AtomicUsize::new(0));
    let p2 = panics.clone();
    std::panic::set_hook(Box::new(move |info| { p2.fetch_add(1, std::sync::atomic::Ordering::SeqCst); eprintln!("PANIC: {info}"); }));
    for order in [vec!["flip", "inner", "outer", "top", "cleanup-task", "cleanup-suspense-task"], vec!["inner", "outer", "top", "flip", "cleanup-suspense-task", "cleanup-task"], vec!["cleanup-task", "cleanup-suspense-task", "top", "outer", "flip", "inner"]] {
        let gates = Gates::new(); let g = gates.clone();
        let b = blocking(move || p3_view(g), &gates, &order);
        let gates = Gates::new(); let g = gates.clone();
        let s = streaming(move || p3_view(g), &gates, &order);
        println!("{order:?}: blocking {:?} / stream ended {} {:?}", b.as_deref().map(visible), s.ended, apply(&s.chunks).map(|d| visible(&d)));
    }
    // sync render inside a LocalSet
    let rt = rt(); let local = tokio::task::LocalSet::new();
    rt.block_on(local.run_until(async {
        let gates = Gates::new(); let g = gates.clone();
        let s = render_to_string(move || p3_view(g));
        println!("sync: {}", visible(&s));
        gates.open("cleanup-task");
        for _ in 0..10 { tokio::task::yield_now().await; }
    }));
    let _ = std::panic::take_hook();
    println!("cleanups run: {}, tasks polled after their scope was disposed: {}, panics: {}", CLEANUPS.with(|c| c.get()), POLLED_AFTER.with(|c| c.get()), panics.load(std::sync::atomic::Ordering::SeqCst));
    assert_eq!(panics.load(std::sync::atomic::Ordering::SeqCst), 0);
}

// ---------------------------------------------------------------------------------------------
// P4: a fetch that panics.
// ---------------------------------------------------------------------------------------------
fn p4_view(gates: Gates, in_future: bool) -> View {
    let g = gates.clone();
    view! {
        Suspense(fallback=|| "f".into()) {
            ({
                let g = g.clone();
                let res = create_isomorphic_resource(move || { let f = g.gate("r"); if !in_future { panic!("fetch fn panics"); } async move { f.await; if in_future { panic!("fetch future panics"); } 1u32 } });
                view! { p { (match res.get() { None => "none".to_string(), Some(v) => format!("v{v}") }) } }
            })
        }
    }
}

#[test]
fn p4_fetch_panics() {
    std::panic::set_hook(Box::new(|_| {}));
    let gates = Gates::new(); let g = gates.clone();
    let b = std::panic::catch_unwind(std::panic::AssertUnwindSafe(|| blocking(move || p4_view(g, true), &gates, &["r"])));
    println!("future panics, blocking: {b:?}");
    let gates = Gates::new(); let g = gates.clone();
    let s = std::panic::catch_unwind(std::panic::AssertUnwindSafe(|| { let s = streaming(move || p4_view(g, true), &gates, &["r"]); (s.ended, s.chunks.len()) }));
    println!("future panics, streaming (ended, chunks): {s:?}");
    let gates = Gates::new(); let g = gates.clone();
    let b = std::panic::catch_unwind(std::panic::AssertUnwindSafe(|| blocking(move || p4_view(g, false), &gates, &["r"])));
    println!("fetch fn panics, blocking: {:?}", b.map_err(|_| "panic propagated to the caller"));
    let _ = std::panic::take_hook();
}

// ---------------------------------------------------------------------------------------------
// P5 (B): NoHydrate does not cover elements that are created by tasks.
// ---------------------------------------------------------------------------------------------
#[test]
fn p5_no_hydrate_and_tasks() {
    let view = |gates: Gates, asynchronous: bool| {
        let (g1, g2) = (gates.clone(), gates.clone());
        view! {
            Suspense(fallback=|| "f".into()) {
                NoHydrate { (if asynchronous { let g1 = g1.clone(); view! { Wait(gates=g1, name="a") } } else { view! { span { "a" } } }) }
                Wait(gates=g2.clone(), name="b")
            }
        }
    };
    let gates = Gates::new(); let g = gates.clone();
    let sync_inside = blocking(move || view(g, false), &gates, &["a", "b"]).unwrap();
    let gates = Gates::new(); let g = gates.clone();
    let async_inside = blocking(move || view(g, true), &gates, &["a", "b"]).unwrap();
    println!("sync  content in NoHydrate: {sync_inside}");
    println!("async content in NoHydrate: {async_inside}");
    // fallback with async content, streaming: keys of the enclosing scope are used up by the fallback
    let view2 = |gates: Gates| {
        let (g1, g2) = (gates.clone(), gates.clone());
        view! {
            Suspense(fallback=|| "f".into()) {
                Suspense(fallback=move || { let g1 = g1.clone(); view! { Wait(gates=g1, name="fb") } }) { "inner" }
                Wait(gates=g2.clone(), name="b")
            }
        }
    };
    let gates = Gates::new(); let g = gates.clone();
    let b = blocking(move || view2(g), &gates, &["fb", "b"]).unwrap();
    let gates = Gates::new(); let g = gates.clone();
    let s = streaming(move || view2(g), &gates, &["fb", "b"]);
    println!("blocking : {b}\nstreaming: {}", apply(&s.chunks).unwrap());
}

// ---------------------------------------------------------------------------------------------
// A4 (arguable): Keyed / Indexed are static on the server: a list fed by a resource stays as it
// was when the view was built, in blocking and in streaming mode.
// ---------------------------------------------------------------------------------------------
fn a4_view(gates: Gates, kind: u8) -> View {
    let g = gates.clone();
    view! {
        Suspense(fallback=|| "f".into()) {
            ({
                let g = g.clone();
                let res = create_isomorphic_resource(move || { let f = g.gate("r"); async move { f.await; vec![1u32, 2] } });
                let items = create_memo(move || res.get_clone().unwrap_or_default());
                match kind {
                    0 => view! { ul { Keyed(list=items, key=|i| *i, view=|i| view! { li { (i) } }) } },
                    1 => view! { ul { Indexed(list=items, view=|i| view! { li { (i) } }) } },
                    // the same list written as a dynamic view
                    _ => view! { ul { (View::from(items.get_clone().into_iter().map(|i| view! { li { (i) } }).collect::<Vec<_>>())) } },
                }
            })
        }
    }
}

#[test]
fn a4_lists_show_the_resolved_data() {
    let mut failures = vec![];
    for kind in [2u8, 0, 1] {
        let gates = Gates::new(); let g = gates.clone();
        let b = blocking(move || a4_view(g, kind), &gates, &["r"]).unwrap();
        let gates = Gates::new(); let g = gates.clone();
        let s = streaming(move || a4_view(g, kind), &gates, &["r"]);
        let applied = apply(&s.chunks).unwrap();
        println!("kind {kind} (0 Keyed, 1 Indexed, 2 dynamic view): blocking {} / streaming {}", visible(&b), visible(&applied));
        if visible(&b) != "<ul><li>1</li><li>2</li></ul>" { failures.push(format!("kind {kind} blocking: {}", visible(&b))); }
        if visible(&applied) != "<ul><li>1</li><li>2</li></ul>" { failures.push(format!("kind {kind} streaming: {}", visible(&applied))); }
    }
    assert!(failures.is_empty(), "{failures:#?}");
}

// A1 variant (needs lists that follow their source on the server, i.e. fix4, to dispose anything):
// a keyed list of loading boundaries is emptied by the task of a boundary that comes later.
#[test]
fn a1b_blocking_render_returns_after_list_of_loading_boundaries_was_emptied() {
    let view = |gates: Gates| {
        let items = create_signal(vec![1u32, 2]);
        let (g1, g2) = (gates.clone(), gates.clone());
        view! {
            ul {
                Keyed(list=items, key=|i| *i, view=move |i| { let g = g1.clone(); view! {
                    li { Suspense(fallback=|| "f".into()) { Wait(gates=g.clone(), name=if i == 1 { "item1" } else { "item2" }) } }
                } })
            }
            Suspense(fallback=|| "f".into()) {
                ({ let f = g2.gate("clear"); create_suspense_task(async move { f.await; items.set(vec![]); }); view! { "done" } })
            }
        }
    };
    let gates = Gates::new(); let g = gates.clone();
    let b = blocking(move || view(g), &gates, &["clear", "item1", "item2"]);
    println!("{:?}", b.as_deref().map(visible));
    assert!(b.is_some(), "the blocking render did not return");
}

// A3 (arguable): the same element gets the same hydration key in blocking and in shell+fragments, and
// the keys of a suspense scope in the document that reaches the client have no holes.
#[test]
fn a3_hydration_keys_do_not_depend_on_the_fallback() {
    let view2 = |gates: Gates| {
        let (g1, g2) = (gates.clone(), gates.clone());
        view! {
            Suspense(fallback=|| "f".into()) {
                Suspense(fallback=move || { let g1 = g1.clone(); view! { Wait(gates=g1, name="fb") } }) { "inner" }
                Wait(gates=g2.clone(), name="b")
            }
        }
    };
    let gates = Gates::new(); let g = gates.clone();
    let b = blocking(move || view2(g), &gates, &["fb", "b"]).unwrap();
    let gates = Gates::new(); let g = gates.clone();
    let s = streaming(move || view2(g), &gates, &["fb", "b"]);
    let doc = apply(&s.chunks).unwrap();
    let key_of_b = |html: &str| { let a = html.find("<span data-hk=\"").unwrap() + 15; html[a..a + 3].to_string() };
    println!("blocking: span b has key {}, streaming: {}", key_of_b(&b), key_of_b(&doc));
    assert_eq!(key_of_b(&b), "1.2");
    assert_eq!(key_of_b(&doc), "1.2", "unchanged library: 1.3, and no element with 1.2 in the document");
}
