#![cfg(not(target_arch = "wasm32"))]
#![allow(dead_code, unused_imports, non_snake_case)]
//! C13 (first sentence) / C14 at the level of sycamore-futures: random trees of scopes and suspense
//! boundaries, tasks with several await points, disposals between executor steps.
#[path = "audj.rs"]
mod h;
use h::*;
use std::rc::Rc;
use std::cell::{Cell, RefCell};
use sycamore::prelude::*;
use sycamore::futures::*;
use sycamore::reactive::NodeHandle;

#[derive(Clone, Copy, PartialEq, Debug)]
enum Kind { Root, Scope, Susp, Detached }

struct N {
    kind: Kind,
    parent: usize,
    handle: Option<NodeHandle>,      // handle to dispose (a child scope that contains everything of this node)
    inner: Option<NodeHandle>,       // scope in which children are created
    alive: bool,
    is_loading: Option<ReadSignal<bool>>,
    scope: Option<SuspenseScope>,
    waiter_done: Rc<Cell<bool>>,
}
struct T { node: usize, gates: Vec<String>, progress: Rc<Cell<usize>>, bad_poll: Rc<Cell<bool>> }

struct World { nodes: Vec<N>, tasks: Vec<T>, gates: Gates, ngates: u32, opened: Vec<String> }

impl World {
    fn add_node(&mut self, parent: usize, kind: Kind) -> usize {
        let idx = self.nodes.len();
        let pin = self.nodes[parent].inner.unwrap();
        let mut handle = None; let mut inner = None; let mut is_loading = None; let mut scope = None;
        let waiter_done = Rc::new(Cell::new(false));
        pin.run_in(|| {
            handle = Some(create_child_scope(|| {
                match kind {
                    Kind::Scope => { inner = Some(use_current_scope()); }
                    Kind::Susp => { let (i, s) = create_suspense_scope(|| use_current_scope()); inner = Some(i); scope = Some(s); is_loading = Some(s.is_loading());
                        let wd = waiter_done.clone(); spawn_local_scoped(async move { s.until_finished().await; wd.set(true); }); }
                    Kind::Detached => { let (i, s) = create_detached_suspense_scope(|| use_current_scope()); inner = Some(i); scope = Some(s); is_loading = Some(s.is_loading()); }
                    Kind::Root => unreachable!(),
                }
            }));
        });
        self.nodes.push(N { kind, parent, handle, inner, alive: true, is_loading, scope, waiter_done });
        idx
    }
    fn add_task(&mut self, node: usize, awaits: usize, suspense: bool) {
        let gates: Vec<String> = (0..awaits).map(|_| { self.ngates += 1; format!("g{}", self.ngates) }).collect();
        let progress = Rc::new(Cell::new(0)); let bad_poll = Rc::new(Cell::new(false));
        let (p, b, g, gs) = (progress.clone(), bad_poll.clone(), self.gates.clone(), gates.clone());
        self.nodes[node].inner.unwrap().run_in(|| {
            let marker = create_signal(0u8);
            let fut = async move {
                for name in gs { g.gate(&name).await; if !marker.is_alive() { b.set(true); } p.set(p.get() + 1); }
            };
            if suspense { create_suspense_task(fut) } else { spawn_local_scoped(fut) }
        });
        if suspense { self.tasks.push(T { node, gates, progress, bad_poll }); }
        else { self.tasks.push(T { node: usize::MAX, gates, progress, bad_poll }); }
    }
    fn live(&self, mut n: usize) -> bool { loop { if !self.nodes[n].alive { return false; } if n == 0 { return true; } n = self.nodes[n].parent; } }
    fn dispose(&mut self, n: usize) { self.nodes[n].handle.unwrap().dispose(); self.nodes[n].alive = false; }
    /// boundary that a task created in node n registers with
    fn boundary_of(&self, mut n: usize) -> Option<usize> { loop { match self.nodes[n].kind { Kind::Susp | Kind::Detached => return Some(n), Kind::Root => return None, _ => n = self.nodes[n].parent } } }
    fn own_pending(&self, b: usize) -> bool {
        self.tasks.iter().any(|t| t.node != usize::MAX && self.live(t.node) && t.progress.get() < t.gates.len() && self.boundary_of(t.node) == Some(b))
    }
    fn expected_loading(&self, b: usize) -> bool {
        if self.own_pending(b) { return true; }
        if self.nodes[b].kind == Kind::Detached { return false; }
        match self.boundary_of(self.nodes[b].parent) { Some(p) => self.expected_loading(p), None => false }
    }
}

#[test]
fn fuzz3() {
    let seeds: u64 = std::env::var("SEEDS").ok().and_then(|s| s.parse().ok()).unwrap_or(3000);
    let panics = std::sync::Arc::new(std::sync::atomic::AtomicUsize::new(0));
    let p2 = panics.clone();
    std::panic::set_hook(Box::new(move |info| { p2.fetch_add(1, std::sync::atomic::Ordering::SeqCst); eprintln!("PANIC: {info}"); }));
    let mut bad = 0;
    for seed in 1..=seeds {
        let mut rng = seed.wrapping_mul(0x9E3779B97F4A7C15) | 1;
        let mut next = move |n: u64| { rng ^= rng << 13; rng ^= rng >> 7; rng ^= rng << 17; rng % n };
        let rt = rt(); let local = tokio::task::LocalSet::new();
        let before = panics.load(std::sync::atomic::Ordering::SeqCst);
        let mut problems: Vec<String> = vec![];
        rt.block_on(local.run_until(async {
            let mut root_scope = None;
            let root = create_root(|| { root_scope = Some(use_current_scope()); });
            let mut w = World { nodes: vec![N { kind: Kind::Root, parent: 0, handle: None, inner: root_scope, alive: true, is_loading: None, scope: None, waiter_done: Default::default() }], tasks: vec![], gates: Gates::new(), ngates: 0, opened: vec![] };
            let mut hist = vec![];
            for _ in 0..(6 + next(14)) {
                let livenodes: Vec<usize> = (0..w.nodes.len()).filter(|&n| w.live(n)).collect();
                match next(10) {
                    0 | 1 | 2 => { let p = livenodes[next(livenodes.len() as u64) as usize]; let k = [Kind::Scope, Kind::Susp, Kind::Susp, Kind::Detached][next(4) as usize]; let i = w.add_node(p, k); hist.push(format!("add {i}:{k:?} under {p}")); }
                    3 | 4 | 5 => { let p = livenodes[next(livenodes.len() as u64) as usize]; let a = 1 + next(3) as usize; let s = next(4) != 0; w.add_task(p, a, s); hist.push(format!("task in {p} awaits {a} suspense {s}")); }
                    6 | 7 => { if w.ngates > 0 { let g = format!("g{}", 1 + next(w.ngates as u64)); w.gates.open(&g); hist.push(format!("open {g}")); } }
                    8 => { if livenodes.len() > 1 { let n = livenodes[1 + next(livenodes.len() as u64 - 1) as usize]; w.dispose(n); hist.push(format!("dispose {n}")); } }
                    _ => { hist.push("step".into()); }
                }
                // one or several executor steps
                for _ in 0..(1 + next(3) * 4) { tokio::task::yield_now().await; }
                // settle completely before comparing with the model
                for _ in 0..30 { tokio::task::yield_now().await; }
                for b in 0..w.nodes.len() {
                    if !w.live(b) || w.nodes[b].is_loading.is_none() { continue; }
                    let actual = root.run_in(|| w.nodes[b].is_loading.unwrap().get_untracked());
                    let expected = w.expected_loading(b);
                    if actual != expected { problems.push(format!("boundary {b}: is_loading {actual}, expected {expected}")); }
                    if w.nodes[b].kind == Kind::Susp && !expected && !w.nodes[b].waiter_done.get() && !w.own_pending(b) {
                        // the waiter must have been released at some point when the boundary was not loading
                        problems.push(format!("boundary {b}: until_finished waiter not released"));
                    }
                }
                let global = root.run_in(use_is_loading_global);
                let expected_global = (0..w.nodes.len()).any(|b| w.live(b) && w.nodes[b].is_loading.is_some() && w.own_pending(b));
                if global != expected_global { problems.push(format!("use_is_loading_global {global}, expected {expected_global}")); }
                for (i, t) in w.tasks.iter().enumerate() { if t.bad_poll.get() { problems.push(format!("task {i} polled after its scope was disposed")); } }
                if !problems.is_empty() { break; }
            }
            if !problems.is_empty() { problems.push(format!("history: {hist:?}")); }
            root.dispose();
            for _ in 0..10 { tokio::task::yield_now().await; }
        }));
        drop(local);
        if panics.load(std::sync::atomic::Ordering::SeqCst) != before { problems.push("panic".into()); }
        if !problems.is_empty() { bad += 1; if bad <= 5 { println!("seed {seed}:"); for p in &problems { println!("  {p}"); } } }
    }
    let _ = std::panic::take_hook();
    println!("bad {bad} of {seeds}");
}
