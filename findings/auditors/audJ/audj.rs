#![cfg(not(target_arch = "wasm32"))]
#![allow(dead_code, unused_imports, non_snake_case)]
use std::cell::{Cell, RefCell};
use std::collections::HashMap;
use std::rc::Rc;

use futures::channel::oneshot;
use futures::StreamExt;
use sycamore::prelude::*;
use sycamore::web::*;
use sycamore::futures::*;

/// A set of named gates. A task awaits `gate("x")`; the driver opens them in a chosen order.
#[derive(Clone, Default)]
pub struct Gates {
    tx: Rc<RefCell<HashMap<String, Vec<oneshot::Sender<()>>>>>,
    open: Rc<RefCell<Vec<String>>>,
}
impl Gates {
    pub fn new() -> Self { Self::default() }
    pub fn gate(&self, name: &str) -> impl std::future::Future<Output = ()> + 'static {
        let (tx, rx) = oneshot::channel();
        if self.open.borrow().iter().any(|n| n == name) {
            let _ = tx.send(());
        } else {
            self.tx.borrow_mut().entry(name.to_string()).or_default().push(tx);
        }
        async move { let _ = rx.await; }
    }
    pub fn open(&self, name: &str) {
        self.open.borrow_mut().push(name.to_string());
        if let Some(v) = self.tx.borrow_mut().remove(name) {
            for tx in v { let _ = tx.send(()); }
        }
    }
}

pub fn rt() -> tokio::runtime::Runtime {
    tokio::runtime::Builder::new_current_thread().build().unwrap()
}

/// Run a blocking render; open the gates in `order`, letting the executor settle in between.
/// Returns None if the render has not returned after all gates were opened.
pub fn blocking(view: impl FnOnce() -> View + 'static, gates: &Gates, order: &[&str]) -> Option<String> {
    let rt = rt();
    rt.block_on(async {
        let fut = render_to_string_await_suspense(view);
        futures::pin_mut!(fut);
        for _ in 0..5 {
            if let std::task::Poll::Ready(s) = futures::poll!(&mut fut) { return Some(s); }
        }
        for g in order {
            gates.open(g);
            for _ in 0..10 {
                if let std::task::Poll::Ready(s) = futures::poll!(&mut fut) { return Some(s); }
            }
        }
        for _ in 0..50 {
            if let std::task::Poll::Ready(s) = futures::poll!(&mut fut) { return Some(s); }
        }
        None
    })
}

pub struct Streamed { pub chunks: Vec<String>, pub ended: bool }

pub fn streaming(view: impl FnOnce() -> View + 'static, gates: &Gates, order: &[&str]) -> Streamed {
    let rt = rt();
    let local = tokio::task::LocalSet::new();
    rt.block_on(local.run_until(async {
        let stream = render_to_string_stream(view);
        futures::pin_mut!(stream);
        let mut chunks = vec![];
        let mut ended = false;
        let mut settle = |chunks: &mut Vec<String>, ended: &mut bool| {
            // returns nothing; closure can't await, so done inline below
            let _ = (chunks, ended);
        };
        let _ = &mut settle;
        macro_rules! settle { () => {
            for _ in 0..20 {
                if ended { break; }
                match futures::poll!(stream.next()) {
                    std::task::Poll::Ready(Some(c)) => chunks.push(c),
                    std::task::Poll::Ready(None) => { ended = true; }
                    std::task::Poll::Pending => {}
                }
                tokio::task::yield_now().await;
            }
        } }
        settle!();
        for g in order {
            gates.open(g);
            settle!();
        }
        for _ in 0..5 { settle!(); }
        Streamed { chunks, ended }
    }))
}

/// Simulate the client: apply fragments to the shell as the inline script would.
pub fn apply(chunks: &[String]) -> Result<String, String> {
    let mut doc = chunks[0].clone();
    for frag in &chunks[1..] {
        let key = frag.strip_prefix("<template id=\"sycamore-suspense-").ok_or("bad fragment")?;
        let (key, rest) = key.split_once("\">").ok_or("bad fragment")?;
        let tail = format!("</template><script>__sycamore_suspense({key})</script>");
        let content = rest.strip_suffix(&tail).ok_or_else(|| format!("bad fragment tail: {frag}"))?;
        let start_pat = format!("<suspense-start data-key=\"{key}\"");
        let end_pat = format!("<suspense-end data-key=\"{key}\"></suspense-end>");
        let s = match doc.find(&start_pat) {
            Some(s) => s,
            None if std::env::var("LENIENT").is_ok() => continue,
            None => return Err(format!("start marker {key} not in document")),
        };
        let e = doc.find(&end_pat).ok_or_else(|| format!("end marker {key} not in document"))?;
        let s_end = s + doc[s..].find("</suspense-start>").unwrap() + "</suspense-start>".len();
        let start_tag = doc[s..s_end].to_string();
        let mut new = String::new();
        new.push_str(&doc[..s]);
        new.push_str(content);
        new.push_str(&start_tag);
        new.push_str(&doc[e..]);
        doc = new;
    }
    Ok(doc)
}

/// Reduce HTML to its visible content: drop markers, comments, hydration attributes, scripts.
pub fn visible(html: &str) -> String {
    let mut s = html.to_string();
    if let Some(rest) = s.strip_prefix("<!doctype html>") { s = rest.to_string(); }
    // scripts
    while let Some(a) = s.find("<script>") {
        let b = s[a..].find("</script>").unwrap() + a + "</script>".len();
        s.replace_range(a..b, "");
    }
    // comments
    while let Some(a) = s.find("<!--") {
        let b = s[a..].find("-->").unwrap() + a + 3;
        s.replace_range(a..b, "");
    }
    // marker elements
    for tag in ["suspense-start", "suspense-end", "no-ssr"] {
        loop {
            let pat = format!("<{tag}");
            let Some(a) = s.find(&pat) else { break };
            let close = format!("</{tag}>");
            let b = s[a..].find(&close).unwrap() + a + close.len();
            s.replace_range(a..b, "");
        }
    }
    // data-hk attributes
    while let Some(a) = s.find(" data-hk=\"") {
        let b = s[a + 10..].find('"').unwrap() + a + 11;
        s.replace_range(a..b, "");
    }
    s
}

#[component(inline_props)]
pub async fn Wait(gates: Gates, name: &'static str) -> View {
    gates.gate(name).await;
    view! { span { (name) } }
}

// ---------------------------------------------------------------------------------------------
// H1: child boundary finished, waits for its parent to be sent; both are disposed.
// ---------------------------------------------------------------------------------------------
fn h1_view(gates: Gates) -> View {
    let show = create_signal(true);
    let g = gates.clone();
    let g2 = gates.clone();
    let g3 = gates.clone();
    view! {
        div {
            (if show.get() {
                let g = g.clone(); let g2 = g2.clone();
                view! {
                    Suspense(fallback=|| "fa".into()) {
                        Wait(gates=g.clone(), name="a")
                        Suspense(fallback=|| "fn".into()) {
                            Wait(gates=g2.clone(), name="n")
                        }
                    }
                }
            } else {
                view! { "gone" }
            })
        }
        Suspense(fallback=|| "fc".into()) {
            ({
                let g3 = g3.clone();
                create_suspense_task(async move {
                    g3.gate("c").await;
                    show.set(false);
                });
                view! { "c" }
            })
        }
    }
}

#[test]
fn h1_child_waiting_for_disposed_parent() {
    for order in [vec!["n", "c", "a"], vec!["c", "n", "a"], vec!["a", "n", "c"]] {
        let gates = Gates::new();
        let g = gates.clone();
        let b = blocking(move || h1_view(g), &gates, &order);
        let gates = Gates::new();
        let g = gates.clone();
        let s = streaming(move || h1_view(g), &gates, &order);
        println!("order {order:?}\n  blocking: {b:?}\n  stream ended: {} chunks: {:#?}", s.ended, s.chunks.len());
        println!("  applied: {:?}", apply(&s.chunks).map(|d| visible(&d)));
        println!("  blocking visible: {:?}", b.as_deref().map(visible));
    }
}

// ---------------------------------------------------------------------------------------------
// H2: minimal: boundary A (listed first) is disposed while loading by a task of boundary C.
// ---------------------------------------------------------------------------------------------
fn h2_view(gates: Gates) -> View {
    let show = create_signal(true);
    let g = gates.clone();
    let g3 = gates.clone();
    view! {
        div {
            (if show.get() {
                let g = g.clone();
                view! {
                    Suspense(fallback=|| "fa".into()) {
                        Wait(gates=g.clone(), name="a")
                    }
                }
            } else {
                view! { "gone" }
            })
        }
        Suspense(fallback=|| "fc".into()) {
            ({
                let g3 = g3.clone();
                create_suspense_task(async move {
                    g3.gate("c").await;
                    show.set(false);
                });
                view! { "c" }
            })
        }
    }
}

#[test]
fn h2_blocking_hangs_after_first_loading_boundary_disposed() {
    for order in [vec!["c", "a"], vec!["a", "c"]] {
        let gates = Gates::new();
        let g = gates.clone();
        let b = blocking(move || h2_view(g), &gates, &order);
        let gates = Gates::new();
        let g = gates.clone();
        let s = streaming(move || h2_view(g), &gates, &order);
        println!("order {order:?}\n  blocking: {b:?}\n  stream ended: {} chunks: {:#?}", s.ended, s.chunks.len());
        println!("  applied: {:?}", apply(&s.chunks).map(|d| visible(&d)));
    }
}

#[test]
fn h1b_stream_debug() {
    for order in [vec!["n", "c"], vec!["n", "c", "a"]] {
        let gates = Gates::new();
        let g = gates.clone();
        let s = streaming(move || h1_view(g), &gates, &order);
        println!("order {order:?} stream ended: {} chunks: {:#?}", s.ended, s.chunks);
    }
}
