#![cfg(not(target_arch = "wasm32"))]
#![allow(dead_code, unused_imports, non_snake_case)]
#[path = "audj.rs"]
mod h;
use h::*;
use std::rc::Rc;
use std::collections::{HashMap, HashSet};
use sycamore::prelude::*;
use sycamore::web::*;
use sycamore::futures::*;

#[derive(Debug, Clone)]
pub enum Node {
    Text(String),
    El(Vec<Node>),
    Susp(Vec<Node>, Vec<Node>),  // fallback, children
    Trans(Vec<Node>),
    Async(String, Vec<Node>),
    Res(String, Vec<Node>),
    Task(String),                // bare create_suspense_task
}

pub fn build_all(nodes: &[Node], gates: &Gates) -> View {
    let views: Vec<View> = nodes.iter().map(|n| build(n, gates)).collect();
    View::from(views)
}

#[component(inline_props)]
async fn AsyncNode(gates: Gates, name: String, children: Vec<Node>) -> View {
    gates.gate(&name).await;
    let inner = build_all(&children, &gates);
    view! { i { (name) (inner) } }
}

pub fn build(node: &Node, gates: &Gates) -> View {
    match node.clone() {
        Node::Text(t) => view! { (t) },
        Node::El(c) => { let inner = build_all(&c, gates); view! { div { (inner) } } }
        Node::Susp(fb, c) => {
            let g = gates.clone(); let g2 = gates.clone();
            view! {
                Suspense(fallback=move || { let v = build_all(&fb, &g2); view! { em { "fb" (v) } } }) {
                    (build_all(&c, &g))
                }
            }
        }
        Node::Trans(c) => {
            let g = gates.clone();
            view! {
                Transition(fallback=|| view! { em { "tfb" } }) {
                    (build_all(&c, &g))
                }
            }
        }
        Node::Async(name, c) => {
            let g = gates.clone();
            view! { AsyncNode(gates=g, name=name, children=c) }
        }
        Node::Res(name, c) => {
            let g = gates.clone();
            let name2 = name.clone();
            let res = create_isomorphic_resource(move || { let f = g.gate(&name2); async move { f.await; 1u32 } });
            let g = gates.clone();
            view! {
                b {
                    (match res.get() {
                        None => view! { },
                        Some(_) => { let inner = build_all(&c, &g); let nm = name.clone(); view! { u { (nm) (inner) } } }
                    })
                }
            }
        }
        Node::Task(name) => {
            let f = gates.gate(&name);
            create_suspense_task(f);
            view! { s { (name) } }
        }
    }
}

struct Rng(u64);
impl Rng {
    fn next(&mut self) -> u64 { self.0 ^= self.0 << 13; self.0 ^= self.0 >> 7; self.0 ^= self.0 << 17; self.0 }
    fn below(&mut self, n: u64) -> u64 { self.next() % n }
}

fn gen(rng: &mut Rng, depth: u32, gate_ctr: &mut u32, in_susp: bool, allow_fb: bool) -> Vec<Node> {
    let n = 1 + rng.below(3);
    let mut out = vec![];
    for _ in 0..n {
        let k = if depth == 0 { rng.below(3) } else { rng.below(10) };
        let node = match k {
            0 => Node::Text(format!("t{}", rng.below(100))),
            1 if in_susp => { *gate_ctr += 1; Node::Task(format!("g{}", gate_ctr)) }
            2 if in_susp => { *gate_ctr += 1; Node::Async(format!("g{}", gate_ctr), vec![]) }
            3 => Node::El(gen(rng, depth - 1, gate_ctr, in_susp, allow_fb)),
            4 | 5 => {
                let fb = if allow_fb && rng.below(4) == 0 { gen(rng, depth - 1, gate_ctr, in_susp, false) } else { vec![] };
                Node::Susp(fb, gen(rng, depth - 1, gate_ctr, true, allow_fb))
            }
            6 => Node::Trans(gen(rng, depth - 1, gate_ctr, true, allow_fb)),
            7 | 8 if in_susp => { *gate_ctr += 1; let g = format!("g{}", gate_ctr); Node::Async(g, gen(rng, depth - 1, gate_ctr, true, allow_fb)) }
            9 if in_susp => { *gate_ctr += 1; let g = format!("g{}", gate_ctr); Node::Res(g, gen(rng, depth - 1, gate_ctr, true, allow_fb)) }
            _ => Node::Text(format!("t{}", rng.below(100))),
        };
        out.push(node);
    }
    out
}

fn hk_keys(html: &str) -> Vec<(u32, u32)> {
    let mut out = vec![];
    let mut rest = html;
    while let Some(a) = rest.find(" data-hk=\"") {
        let r = &rest[a + 10..];
        let b = r.find('"').unwrap();
        let (s, e) = r[..b].split_once('.').unwrap();
        out.push((s.parse().unwrap(), e.parse().unwrap()));
        rest = &r[b..];
    }
    out
}

fn check(tree: &[Node], order: &[String], label: &str) -> Vec<String> {
    let mut problems = vec![];
    let order_ref: Vec<&str> = order.iter().map(|s| s.as_str()).collect();
    let run_b = || { let gates = Gates::new(); let g = gates.clone(); let t = tree.to_vec(); blocking(move || build_all(&t, &g), &gates, &order_ref) };
    let run_s = || { let gates = Gates::new(); let g = gates.clone(); let t = tree.to_vec(); streaming(move || build_all(&t, &g), &gates, &order_ref) };
    let b1 = run_b();
    let s1 = run_s();
    let b2 = run_b();
    let s2 = run_s();
    if b1 != b2 { problems.push(format!("{label}: blocking not deterministic\n {b1:?}\n {b2:?}")); }
    if s1.chunks != s2.chunks { problems.push(format!("{label}: streaming not deterministic")); }
    let Some(b) = b1 else { problems.push(format!("{label}: blocking did not return")); return problems; };
    if !s1.ended { problems.push(format!("{label}: stream did not end")); }
    // fragment keys unique
    let mut seen = HashSet::new();
    for c in &s1.chunks[1..] {
        let k = c.split('"').nth(1).unwrap().to_string();
        if !seen.insert(k.clone()) { problems.push(format!("{label}: fragment {k} sent twice")); }
    }
    match apply(&s1.chunks) {
        Err(e) => problems.push(format!("{label}: apply failed: {e}")),
        Ok(doc) => {
            if std::env::var("HK").is_ok() {
                // same elements with the same hydration keys in both modes?
                let tags = |html: &str| { let mut v = vec![]; let mut rest = html; while let Some(a) = rest.find(" data-hk=\"") { let lt = rest[..a].rfind('<').unwrap(); let end = rest[a + 10..].find('"').unwrap() + a + 11; v.push(rest[lt..end].to_string()); rest = &rest[end..]; } v.sort(); v };
                if tags(&doc) != tags(&b) { problems.push(format!("{label}: hydration keys differ between modes\n  stream:   {:?}\n  blocking: {:?}", tags(&doc), tags(&b))); }
            }
            if visible(&doc) != visible(&b) {
                problems.push(format!("{label}: visible content differs\n  stream:   {}\n  blocking: {}", visible(&doc), visible(&b)));
            }
        }
    }
    // hydration keys in blocking output: unique, dense per suspense scope
    let keys = hk_keys(&b);
    let mut per: HashMap<u32, Vec<u32>> = HashMap::new();
    for (s, e) in keys { per.entry(s).or_default().push(e); }
    for (s, mut v) in per {
        v.sort();
        let n = v.len() as u32;
        if v != (0..n).collect::<Vec<_>>() { problems.push(format!("{label}: hk keys of scope {s} not dense/unique: {v:?}")); }
    }
    problems
}

fn gates_of(nodes: &[Node], out: &mut Vec<String>) {
    for n in nodes {
        match n {
            Node::Text(_) => {}
            Node::El(c) | Node::Trans(c) => gates_of(c, out),
            Node::Susp(f, c) => { gates_of(f, out); gates_of(c, out) }
            Node::Async(g, c) | Node::Res(g, c) => { out.push(g.clone()); gates_of(c, out) }
            Node::Task(g) => out.push(g.clone()),
        }
    }
}

#[test]
fn fuzz() {
    let seeds: u64 = std::env::var("SEEDS").ok().and_then(|s| s.parse().ok()).unwrap_or(300);
    let allow_fb = std::env::var("FB").is_ok();
    let mut total = 0;
    let mut bad = 0;
    for seed in 1..=seeds {
        let mut rng = Rng(seed.wrapping_mul(0x9E3779B97F4A7C15) | 1);
        let mut ctr = 0;
        let tree = gen(&mut rng, 3, &mut ctr, false, allow_fb);
        let mut gates = vec![]; gates_of(&tree, &mut gates);
        if gates.is_empty() || gates.len() > 6 { continue; }
        for trial in 0..4 {
            let mut order = gates.clone();
            // shuffle
            for i in (1..order.len()).rev() { let j = rng.below(i as u64 + 1) as usize; order.swap(i, j); }
            if trial == 0 { order = gates.clone(); }
            total += 1;
            let p = check(&tree, &order, &format!("seed {seed} order {order:?}"));
            if !p.is_empty() {
                bad += 1;
                if bad <= 12 { println!("TREE {tree:?}"); for x in &p { println!("  {x}"); } }
            }
        }
    }
    println!("total {total} bad {bad}");
}
