//! Auditor M probes: SSR suspense (C13/C14).
#![cfg(not(target_arch = "wasm32"))]

use std::cell::RefCell;
use std::rc::Rc;

use futures::channel::oneshot;
use futures::StreamExt;
use sycamore::prelude::*;
use sycamore::web::{
    render_to_string, render_to_string_await_suspense, render_to_string_stream, Suspense,
};

type Slot = Rc<RefCell<Option<oneshot::Receiver<()>>>>;
fn slot() -> (oneshot::Sender<()>, Slot) {
    let (tx, rx) = oneshot::channel();
    (tx, Rc::new(RefCell::new(Some(rx))))
}

#[component(inline_props)]
async fn Wait(rx: Slot, text: &'static str) -> View {
    let rx = rx.borrow_mut().take();
    if let Some(rx) = rx {
        let _ = rx.await;
    }
    view! { (text) }
}

/// A dynamic region re-renders (a non-suspense task sets a signal): the old boundary is disposed
/// and a new boundary with a pending task takes its place.
fn swap_app(
    rx0: Slot,
    rx1: Slot,
    trigger: Slot,
) -> impl FnOnce() -> View {
    move || {
        let which = create_signal(0u32);
        // Not a suspense task: e.g. a timer / a message from elsewhere.
        let trigger = trigger.borrow_mut().take().unwrap();
        sycamore::futures::spawn_local_scoped(async move {
            let _ = trigger.await;
            which.set(1);
        });
        view! {
            div {
                (if which.get() == 0 {
                    let rx0 = rx0.clone();
                    view! { Suspense(fallback=|| "fb0".into()) { Wait(rx=rx0, text="CONTENT0") } }
                } else {
                    let rx1 = rx1.clone();
                    view! { Suspense(fallback=|| "fb1".into()) { Wait(rx=rx1, text="CONTENT1") } }
                })
            }
        }
    }
}

#[tokio::test]
async fn blocking_returns_before_replacement_boundary_resolved() {
    let (_tx0, rx0) = slot();
    let (tx1, rx1) = slot();
    let (ttx, trx) = slot();
    let fut = render_to_string_await_suspense(swap_app(rx0, rx1, trx));
    futures::pin_mut!(fut);
    assert!(futures::poll!(&mut fut).is_pending());
    // The dynamic region swaps boundary 0 (pending) for boundary 1 (pending).
    ttx.send(()).unwrap();
    let mut early = None;
    for _ in 0..10 {
        if let std::task::Poll::Ready(s) = futures::poll!(&mut fut) {
            early = Some(s);
            break;
        }
    }
    if let Some(s) = &early {
        println!("RETURNED EARLY with: {s}");
    }
    assert!(
        early.is_none(),
        "blocking render returned while the task of the live boundary was still pending"
    );
    tx1.send(()).unwrap();
    let out = fut.await;
    println!("{out}");
    assert!(out.contains("CONTENT1"));
}

#[tokio::test]
async fn streaming_same_scenario() {
    let (_tx0, rx0) = slot();
    let (tx1, rx1) = slot();
    let (ttx, trx) = slot();
    let local = tokio::task::LocalSet::new();
    local
        .run_until(async move {
            let stream = render_to_string_stream(swap_app(rx0, rx1, trx));
            futures::pin_mut!(stream);
            let shell = stream.next().await.unwrap();
            println!("shell: {shell}");
            ttx.send(()).unwrap();
            for _ in 0..10 {
                tokio::task::yield_now().await;
            }
            tx1.send(()).unwrap();
            let mut rest = vec![];
            while let Some(f) = stream.next().await {
                println!("frag: {f}");
                rest.push(f);
            }
            assert_eq!(rest.len(), 1);
            assert!(rest[0].contains("CONTENT1"));
        })
        .await;
}

#[test]
fn sync_smoke() {
    let out = render_to_string(|| view! { p { "x" } });
    assert!(out.contains("x"));
}

// ---------------------------------------------------------------------------------------------
// Variant using suspense tasks only: the async child of boundary 0, once resolved, flips the
// signal that replaces boundary 0 by boundary 1 (which has its own async child).
// ---------------------------------------------------------------------------------------------

#[component(inline_props)]
async fn WaitThenFlip(rx: Slot, which: Signal<u32>) -> View {
    let rx = rx.borrow_mut().take();
    if let Some(rx) = rx {
        let _ = rx.await;
    }
    which.set(1);
    view! { "CONTENT0" }
}

fn self_swap_app(rx0: Slot, rx1: Slot) -> impl FnOnce() -> View {
    move || {
        let which = create_signal(0u32);
        view! {
            div {
                (if which.get() == 0 {
                    let rx0 = rx0.clone();
                    view! { Suspense(fallback=|| "fb0".into()) { WaitThenFlip(rx=rx0, which=which) } }
                } else {
                    let rx1 = rx1.clone();
                    view! { Suspense(fallback=|| "fb1".into()) { Wait(rx=rx1, text="CONTENT1") } }
                })
            }
        }
    }
}

#[tokio::test]
async fn blocking_self_replacing_boundary() {
    let (tx0, rx0) = slot();
    let (tx1, rx1) = slot();
    let fut = render_to_string_await_suspense(self_swap_app(rx0, rx1));
    futures::pin_mut!(fut);
    assert!(futures::poll!(&mut fut).is_pending());
    tx0.send(()).unwrap();
    let mut early = None;
    for _ in 0..10 {
        if let std::task::Poll::Ready(s) = futures::poll!(&mut fut) {
            early = Some(s);
            break;
        }
    }
    if let Some(s) = &early {
        println!("RETURNED EARLY with: {s}");
    }
    assert!(early.is_none(), "blocking render returned while a task was still pending");
    tx1.send(()).unwrap();
    let out = fut.await;
    assert!(out.contains("CONTENT1"));
}

#[tokio::test]
async fn streaming_self_replacing_boundary() {
    let (tx0, rx0) = slot();
    let (tx1, rx1) = slot();
    let local = tokio::task::LocalSet::new();
    local
        .run_until(async move {
            let stream = render_to_string_stream(self_swap_app(rx0, rx1));
            futures::pin_mut!(stream);
            let _shell = stream.next().await.unwrap();
            tx0.send(()).unwrap();
            for _ in 0..10 {
                tokio::task::yield_now().await;
            }
            tx1.send(()).unwrap();
            let mut rest = vec![];
            while let Some(f) = stream.next().await {
                println!("frag: {f}");
                rest.push(f);
            }
            assert!(rest.iter().any(|f| f.contains("CONTENT1")));
        })
        .await;
}

// ---------------------------------------------------------------------------------------------
// (B) Two blocking renders interleaved on one thread share the thread-local SSR root.
// ---------------------------------------------------------------------------------------------
#[tokio::test]
async fn two_interleaved_blocking_renders_on_one_thread() {
    let (tx_a, rx_a) = slot();
    let (tx_b, rx_b) = slot();
    let a = render_to_string_await_suspense(move || {
        view! { Suspense(fallback=|| "fb".into()) { Wait(rx=rx_a, text="AAA") } }
    });
    let b = render_to_string_await_suspense(move || {
        view! { Suspense(fallback=|| "fb".into()) { Wait(rx=rx_b, text="BBB") } }
    });
    let res = std::panic::AssertUnwindSafe(async move {
        futures::pin_mut!(a);
        futures::pin_mut!(b);
        assert!(futures::poll!(&mut a).is_pending());
        assert!(futures::poll!(&mut b).is_pending());
        tx_a.send(()).unwrap();
        tx_b.send(()).unwrap();
        let (a, b) = futures::join!(a, b);
        (a, b)
    });
    use futures::FutureExt;
    match res.catch_unwind().await {
        Ok((a, b)) => {
            println!("A = {a}\nB = {b}");
            assert!(a.contains("AAA") && b.contains("BBB"));
        }
        Err(_) => panic!("interleaved renders panicked"),
    }
}
